// In-process harness: one request per line on stdin, one canonical reply per line on stdout.
// Same line protocol as the Lean `driver`. Every request runs under catch_unwind; a panic is
// reported as `PANIC`.
use rawr::chess::bitboard::Bitboard;
use rawr::chess::colour::Colour;
use rawr::chess::magic;
use rawr::chess::mv::Mv;
use rawr::chess::piece::Piece;
use rawr::chess::position::Position;
use rawr::chess::rays;
use rawr::chess::side::Side;
use rawr::chess::square::Square;
use rawr::search::hashtable::Hashtable;
use rawr::search::info::Info;
use rawr::search::negamax;
use rawr::search::qsearch;
use rawr::search::settings;
use rawr::search::stats::Stats;
use rawr::search::ttentry::{Flag, TTEntry};
use std::cell::RefCell;
use std::io::{BufRead, Write};
use std::panic;

fn piece_from(n: u64) -> Piece {
    match n {
        0 => Piece::Pawn,
        1 => Piece::Knight,
        2 => Piece::Bishop,
        3 => Piece::Rook,
        4 => Piece::Queen,
        5 => Piece::King,
        _ => Piece::None,
    }
}

fn num(s: &str) -> u64 {
    s.parse::<u64>().unwrap_or(0)
}

fn parse_pos(t: &[&str]) -> Option<(Position, usize)> {
    if t.len() < 22 {
        return None;
    }
    let pos = Position {
        colours: [Bitboard(num(t[0])), Bitboard(num(t[1]))],
        pieces: [
            Bitboard(num(t[2])),
            Bitboard(num(t[3])),
            Bitboard(num(t[4])),
            Bitboard(num(t[5])),
            Bitboard(num(t[6])),
            Bitboard(num(t[7])),
        ],
        halfmoves: t[8].parse::<i32>().unwrap_or(0),
        fullmoves: t[9].parse::<i32>().unwrap_or(0),
        turn: if t[10] == "1" { Colour::Black } else { Colour::White },
        ep: if t[11] == "-" { None } else { Some(Square(num(t[11]) as u8)) },
        us_ksc: t[12] == "1",
        us_qsc: t[13] == "1",
        them_ksc: t[14] == "1",
        them_qsc: t[15] == "1",
        castle_files: [num(t[16]) as u8, num(t[17]) as u8, num(t[18]) as u8, num(t[19]) as u8],
        hash: num(t[20]),
        is_frc: t[21] == "1",
    };
    Some((pos, 22))
}

fn b01(b: bool) -> &'static str {
    if b {
        "1"
    } else {
        "0"
    }
}

fn show_pos(p: &Position) -> String {
    format!(
        "{} {} {} {} {} {} {} {} {} {} {} {} {} {} {} {} {} {} {} {} {} {}",
        p.colours[0].0,
        p.colours[1].0,
        p.pieces[0].0,
        p.pieces[1].0,
        p.pieces[2].0,
        p.pieces[3].0,
        p.pieces[4].0,
        p.pieces[5].0,
        p.halfmoves,
        p.fullmoves,
        b01(p.turn == Colour::Black),
        match p.ep {
            Some(s) => s.0.to_string(),
            None => "-".to_string(),
        },
        b01(p.us_ksc),
        b01(p.us_qsc),
        b01(p.them_ksc),
        b01(p.them_qsc),
        p.castle_files[0],
        p.castle_files[1],
        p.castle_files[2],
        p.castle_files[3],
        p.hash,
        b01(p.is_frc)
    )
}

fn show_mv(m: &Mv) -> String {
    format!("{}:{}:{}", m.from.0, m.to.0, m.promo as usize)
}

fn show_mvs(l: &[Mv]) -> String {
    if l.is_empty() {
        "-".to_string()
    } else {
        l.iter().map(show_mv).collect::<Vec<_>>().join(" ")
    }
}

fn parse_mv(t: &[&str]) -> Option<Mv> {
    if t.len() < 3 {
        return None;
    }
    Some(Mv {
        from: Square(num(t[0]) as u8),
        to: Square(num(t[1]) as u8),
        promo: piece_from(num(t[2])),
    })
}

fn side(s: &str) -> Side {
    if s == "1" {
        Side::Them
    } else {
        Side::Us
    }
}

thread_local! {
    static INFOS: RefCell<Vec<String>> = RefCell::new(Vec::new());
}

fn collect_info(info: &Info) {
    let pv = info
        .pv
        .iter()
        .map(|m| format!("{}/{}", show_mv(m), m.to_uci(&info.pos)))
        .collect::<Vec<_>>()
        .join(",");
    let line = format!(
        "d={} sd={} sc={} n={} hf={} pv={}",
        info.depth.unwrap_or(-1),
        info.seldepth.unwrap_or(-1),
        info.score.unwrap_or(0),
        info.nodes.unwrap_or(0),
        info.hashfull.unwrap_or(-1),
        pv
    );
    INFOS.with(|v| v.borrow_mut().push(line));
}

fn flag_n(f: Flag) -> u8 {
    match f {
        Flag::Exact => 0,
        Flag::Lower => 1,
        Flag::Upper => 2,
    }
}
fn flag_from(n: u64) -> Flag {
    match n {
        1 => Flag::Lower,
        2 => Flag::Upper,
        _ => Flag::Exact,
    }
}

// table image: "len;slot,hash,from,to,promo,score,depth,flag;..." (only non-default slots, ascending)
fn tt_image(tt: &Hashtable<TTEntry>, probe: &[u64]) -> String {
    // the table is only observable through poll(key): poll every slot index 0..len when small,
    // otherwise poll the probe keys given (keys touched by the search are supplied by the caller).
    let len = tt.len();
    let mut out = format!("{}", len);
    let _ = probe;
    let mut slots: Vec<u64> = (0..len as u64).collect();
    slots.sort();
    for s in slots {
        let e = tt.poll(s);
        if e != TTEntry::default() {
            out += &format!(
                ";{},{},{},{},{},{},{},{}",
                s,
                e.hash,
                e.mv.from.0,
                e.mv.to.0,
                e.mv.promo as usize,
                e.score,
                e.depth,
                flag_n(e.flag)
            );
        }
    }
    out
}

fn parse_list_u64(s: &str) -> Vec<u64> {
    if s == "-" || s.is_empty() {
        vec![]
    } else {
        s.split(',').map(num).collect()
    }
}

// "slots;entry;entry" with entry = slotkey,hash,from,to,promo,score,depth,flag  (slots = number of entries; 0 = use megabytes arg)
fn build_tt(spec: &str) -> Hashtable<TTEntry> {
    let mut parts = spec.split(';');
    let mb = num(parts.next().unwrap_or("1")) as usize;
    let mut tt = Hashtable::<TTEntry>::new(mb);
    for e in parts {
        let f: Vec<&str> = e.split(',').collect();
        if f.len() != 8 {
            continue;
        }
        let entry = TTEntry {
            hash: num(f[1]),
            mv: Mv {
                from: Square(num(f[2]) as u8),
                to: Square(num(f[3]) as u8),
                promo: piece_from(num(f[4])),
            },
            score: f[5].parse::<i32>().unwrap_or(0),
            depth: f[6].parse::<i32>().unwrap_or(0),
            flag: flag_from(num(f[7])),
        };
        tt.add(num(f[0]), &entry);
    }
    tt
}

fn handle(line: &str) -> String {
    let t: Vec<&str> = line.split_ascii_whitespace().collect();
    if t.is_empty() {
        return String::new();
    }
    let cmd = t[0];
    match cmd {
        "slide" if t.len() == 4 => {
            let sq = num(t[2]) as i32;
            let occ = num(t[3]);
            return match t[1] {
                "b" => magic::bishop_moves(sq, occ).0.to_string(),
                "r" => magic::rook_moves(sq, occ).0.to_string(),
                _ => magic::queen_moves(sq, occ).0.to_string(),
            };
        }
        "leap" if t.len() == 3 => {
            return match t[1] {
                "n" => magic::knight_moves(Square(num(t[2]) as u8)).0.to_string(),
                _ => magic::king_moves(num(t[2]) as i32).0.to_string(),
            };
        }
        "kn" if t.len() == 2 => return rays::knights(Bitboard(num(t[1]))).0.to_string(),
        "pw" if t.len() == 3 => {
            return if t[1] == "1" {
                rays::pawns::<true>(Bitboard(num(t[2]))).0.to_string()
            } else {
                rays::pawns::<false>(Bitboard(num(t[2]))).0.to_string()
            }
        }
        "adj" if t.len() == 2 => return Bitboard(num(t[1])).adjacent().0.to_string(),
        "ray" if t.len() == 4 => {
            let sq = Square(num(t[2]) as u8);
            let occ = Bitboard(num(t[3]));
            let r = match t[1] {
                "n" => rays::ray_n(sq, occ),
                "s" => rays::ray_s(sq, occ),
                "e" => rays::ray_e(sq, occ),
                "w" => rays::ray_w(sq, occ),
                "ne" => rays::ray_ne(sq, occ),
                "nw" => rays::ray_nw(sq, occ),
                "se" => rays::ray_se(sq, occ),
                _ => rays::ray_sw(sq, occ),
            };
            return r.0.to_string();
        }
        "fenin" => {
            // rest of the line (after one space) is the FEN string, verbatim
            let s = if line.len() > 6 { &line[6..] } else { "" };
            let s = s.trim_end_matches(['\n', '\r']);
            let p = Position::from_fen(s);
            return show_pos(&p);
        }
        "tt" => {
            // tt <T> <mb> op op ...   ops: a:key:val  p:key  c  r:mb  h  l
            return tt_ops(&t[1..]);
        }
        "ttsize" => return std::mem::size_of::<TTEntry>().to_string(),
        _ => {}
    }
    let (pos, used) = match parse_pos(&t[1..]) {
        Some(x) => x,
        None => return "bad-op".to_string(),
    };
    let r = &t[1 + used..];
    match cmd {
        "gen" => {
            let mut v = Vec::new();
            pos.move_generator(|piece, from, to, promo| {
                v.push(format!("{}:{}:{}:{}", piece as usize, from.0, to.0, promo as usize));
            });
            if v.is_empty() {
                "-".to_string()
            } else {
                v.join(" ")
            }
        }
        "moves" => show_mvs(&pos.legal_moves()),
        "count" => pos.count_moves().to_string(),
        "caps" => show_mvs(&pos.legal_captures()),
        "iscap" => match parse_mv(r) {
            Some(m) => b01(pos.is_capture(&m)).to_string(),
            None => "bad-op".to_string(),
        },
        "att" if r.len() == 2 => b01(pos.is_sq_attacked(Square(num(r[0]) as u8), side(r[1]))).to_string(),
        "attbb" if r.len() == 2 => b01(pos.is_bb_attacked(Bitboard(num(r[0])), side(r[1]))).to_string(),
        "getatt" if r.len() == 2 => pos.get_attacked(Bitboard(num(r[0])), side(r[1])).0.to_string(),
        "check" => format!("{} {}", b01(pos.in_check()), b01(pos.in_check_them())),
        "make" if r.len() == 4 => {
            let m = parse_mv(r).unwrap();
            let n = if r[3] == "1" {
                pos.after_move::<true>(&m)
            } else {
                pos.after_move::<false>(&m)
            };
            show_pos(&n)
        }
        "null" => show_pos(&pos.after_null()),
        "key" => format!("{} {}", pos.hash, pos.calculate_hash()),
        "pkey" => match parse_mv(r) {
            Some(m) => pos.predict_hash(&m).to_string(),
            None => "bad-op".to_string(),
        },
        "valid" => match pos.validate() {
            Ok(()) => "ok".to_string(),
            Err(e) => e.to_string(),
        },
        "flip" => show_pos(&Position::from_flipped(&pos)),
        "perft" if r.len() == 1 => pos.perft(num(r[0]) as u8).to_string(),
        "fenout" => pos.get_fen(),
        "uci" => match parse_mv(r) {
            Some(m) => m.to_uci(&pos),
            None => "bad-op".to_string(),
        },
        "eval" => rawr::search::eval::eval(&pos).to_string(),
        "apply" if r.len() == 1 => {
            let mut p = pos;
            let mut hist: Vec<u64> = vec![];
            let mut it = r[0].split_ascii_whitespace();
            // NB: uci::moves prints "info string unknown move" on the process stdout; replies are
            // therefore prefixed with "@ " and everything else is ignored by the reader.
            rawr::uci::moves::moves(&mut it, &mut p, &mut hist);
            format!("{} u={} h={}", show_pos(&p), b01(hist.is_empty()), hist.len())
        }
        // qs <pos> alpha beta [ply]
        "qs" if r.len() == 2 || r.len() == 3 => {
            let mut stats = Stats::default();
            let a = r[0].parse::<i32>().unwrap_or(0);
            let b = r[1].parse::<i32>().unwrap_or(0);
            let ply = if r.len() == 3 { r[2].parse::<i32>().unwrap_or(0) } else { 0 };
            let s = qsearch::qsearch(&pos, &mut stats, a, b, ply);
            format!("{} {} {}", s, stats.nodes, stats.seldepth)
        }
        // nm <pos> <hist> <tt> alpha beta ply depth cannull
        "nm" if r.len() == 7 => {
            let mut hist = parse_list_u64(r[0]);
            let hist0 = hist.clone();
            let mut tt = build_tt(r[1]);
            let mut stats = Stats::default();
            let stop = |_s: &Stats| false;
            let s = negamax::negamax(
                &pos,
                &mut hist,
                &mut tt,
                &mut stats,
                &stop,
                r[2].parse::<i32>().unwrap_or(0),
                r[3].parse::<i32>().unwrap_or(0),
                r[4].parse::<i32>().unwrap_or(0),
                r[5].parse::<i32>().unwrap_or(0),
                r[6] == "1",
            );
            format!(
                "{} n={} sd={} bm={} hist={} tt={}",
                s,
                stats.nodes,
                stats.seldepth,
                match stats.best_move {
                    Some(m) => show_mv(&m),
                    None => "-".to_string(),
                },
                b01(hist == hist0),
                tt_image(&tt, &[])
            )
        }
        // root <pos> <hist> <tt> <kind> <a> [<b> <mtg>]
        "root" if r.len() >= 4 => {
            let mut hist = parse_list_u64(r[0]);
            let hist0 = hist.clone();
            let mut tt = build_tt(r[1]);
            let set = match r[2] {
                "depth" => settings::Type::Depth(r[3].parse::<i32>().unwrap_or(0)),
                "nodes" => settings::Type::Nodes(num(r[3])),
                "movetime" => settings::Type::Movetime(num(r[3]) as u32),
                "time" => settings::Type::Time(
                    num(r[3]) as u32,
                    num(r[4]) as u32,
                    None,
                    None,
                    if r.len() > 5 && r[5] != "-" { Some(num(r[5]) as u32) } else { None },
                ),
                _ => settings::Type::Infinite,
            };
            INFOS.with(|v| v.borrow_mut().clear());
            let pos0 = pos;
            let res = rawr::search::root::root(pos, &mut hist, &mut tt, set, collect_info);
            let infos = INFOS.with(|v| v.borrow().join("|"));
            format!(
                "{} hist={} pos={} infos={} tt={}",
                match res {
                    Ok(m) => format!("{}/{}", show_mv(&m), m.to_uci(&pos0)),
                    Err(_) => "ERR".to_string(),
                },
                b01(hist == hist0),
                b01(pos == pos0),
                if infos.is_empty() { "-".to_string() } else { infos },
                tt_image(&tt, &[])
            )
        }
        _ => "bad-op".to_string(),
    }
}

// Generic table operations on Hashtable<u64> and Hashtable<TTEntry>.
fn tt_ops(t: &[&str]) -> String {
    if t.len() < 2 {
        return "bad-op".to_string();
    }
    let mb = num(t[1]) as usize;
    let mut out: Vec<String> = Vec::new();
    if t[0] == "u64" {
        let mut tt = Hashtable::<u64>::new(mb);
        out.push(format!("l{}", tt.len()));
        for op in &t[2..] {
            let f: Vec<&str> = op.split(':').collect();
            let r = panic::catch_unwind(panic::AssertUnwindSafe(|| match f[0] {
                "a" => {
                    tt.add(num(f[1]), &num(f[2]));
                    "ok".to_string()
                }
                "p" => tt.poll(num(f[1])).to_string(),
                "c" => {
                    tt.clear();
                    "ok".to_string()
                }
                "r" => {
                    tt.resize(num(f[1]) as usize);
                    format!("l{}", tt.len())
                }
                "h" => match tt.hashfull() {
                    Some(h) => h.to_string(),
                    None => "none".to_string(),
                },
                "l" => format!("l{}", tt.len()),
                _ => "bad-op".to_string(),
            }));
            out.push(r.unwrap_or_else(|_| "PANIC".to_string()));
        }
    } else {
        let mut tt = Hashtable::<TTEntry>::new(mb);
        out.push(format!("l{}", tt.len()));
        let show = |e: TTEntry| format!("{},{},{},{},{},{},{}", e.hash, e.mv.from.0, e.mv.to.0, e.mv.promo as usize, e.score, e.depth, flag_n(e.flag));
        for op in &t[2..] {
            let f: Vec<&str> = op.split(':').collect();
            let r = panic::catch_unwind(panic::AssertUnwindSafe(|| match f[0] {
                "a" => {
                    let v = num(f[2]);
                    let e = TTEntry {
                        hash: v,
                        mv: Mv { from: Square((v % 64) as u8), to: Square(((v / 64) % 64) as u8), promo: piece_from((v / 4096) % 7) },
                        score: (v % 2001) as i32 - 1000,
                        depth: (v % 17) as i32,
                        flag: flag_from(v % 3),
                    };
                    tt.add(num(f[1]), &e);
                    "ok".to_string()
                }
                "p" => show(tt.poll(num(f[1]))),
                "c" => {
                    tt.clear();
                    "ok".to_string()
                }
                "r" => {
                    tt.resize(num(f[1]) as usize);
                    format!("l{}", tt.len())
                }
                "h" => match tt.hashfull() {
                    Some(h) => h.to_string(),
                    None => "none".to_string(),
                },
                "l" => format!("l{}", tt.len()),
                _ => "bad-op".to_string(),
            }));
            out.push(r.unwrap_or_else(|_| "PANIC".to_string()));
        }
    }
    out.join(" ")
}

fn main() {
    panic::set_hook(Box::new(|_| {}));
    let stdin = std::io::stdin();
    let stdout = std::io::stdout();
    let mut out = std::io::BufWriter::new(stdout.lock());
    for line in stdin.lock().lines() {
        let line = match line {
            Ok(l) => l,
            Err(_) => break,
        };
        out.flush().unwrap();
        let res = panic::catch_unwind(|| handle(&line));
        match res {
            Ok(s) => writeln!(out, "@ {}", s).unwrap(),
            Err(_) => writeln!(out, "@ PANIC").unwrap(),
        }
    }
    out.flush().unwrap();
}
