import Rawr.Abs
/-! Input generators (one PRNG state; every case replayable from the seed). Executable only; nothing
here is used by a theorem. -/
namespace Rawr.GenPos
open Rawr Spec

structure Rng where
  s : UInt64

def Rng.next (r : Rng) : UInt64 × Rng :=
  let x := r.s
  let x := x ^^^ (x >>> 12)
  let x := x ^^^ (x <<< 25)
  let x := x ^^^ (x >>> 27)
  (x * 0x2545F4914F6CDD1D, ⟨x⟩)

def Rng.below (r : Rng) (n : Nat) : Nat × Rng :=
  let (v, r) := r.next
  ((v >>> 11).toNat % (max n 1), r)

def Rng.mk' (seed : Nat) : Rng :=
  let r : Rng := ⟨UInt64.ofNat (seed * 0x9E3779B97F4A7C15 + 0x1234567) ||| 1⟩
  (r.next.2.next.2.next.2)

def Rng.pick {α} [Inhabited α] (r : Rng) (l : List α) : α × Rng :=
  let (i, r) := r.below l.length
  (l.getD i default, r)

/-- Scharnagl numbering of the 960 back ranks. -/
def backRank960 (n : Nat) : List Kind :=
  let n := n % 960
  let empty : List (Option Kind) := List.replicate 8 none
  let place (l : List (Option Kind)) (idx : Nat) (k : Kind) : List (Option Kind) := l.set idx (some k)
  -- nth free square
  let nthFree (l : List (Option Kind)) (k : Nat) : Nat :=
    let frees := (List.range 8).filter fun i => (l.getD i none).isNone
    frees.getD k 0
  let b1 := n % 4; let n := n / 4
  let b2 := n % 4; let n := n / 4
  let q := n % 6; let n := n / 6
  let l := place empty (2 * b1 + 1) .bishop
  let l := place l (2 * b2) .bishop
  let l := place l (nthFree l q) .queen
  let knightTbl : List (Nat × Nat) := [(0,1),(0,2),(0,3),(0,4),(1,2),(1,3),(1,4),(2,3),(2,4),(3,4)]
  let (k1, k2) := knightTbl.getD n (0, 1)
  let f1 := nthFree l k1
  let f2 := nthFree l k2
  let l := place (place l f1 .knight) f2 .knight
  let l := place l (nthFree l 0) .rook
  let l := place l (nthFree l 0) .king
  let l := place l (nthFree l 0) .rook
  l.map fun o => o.getD .king

/-- start position with white back rank `w` and black back rank `b`. -/
def startFrom (w b : List Kind) : APos :=
  let board : Board := fun s =>
    if s < 8 then some ⟨true, w.getD s .king⟩
    else if s < 16 then some ⟨true, .pawn⟩
    else if 48 ≤ s ∧ s < 56 then some ⟨false, .pawn⟩
    else if 56 ≤ s ∧ s < 64 then some ⟨false, b.getD (s - 56) .king⟩
    else none
  let rookFiles (l : List Kind) : Nat × Nat :=
    let fs := (List.range 8).filter fun i => l.getD i .king == .rook
    (fs.getD 0 0, fs.getD 1 7)
  let (wq, wk) := rookFiles w
  let (bq, bk) := rookFiles b
  { board := board, whiteToMove := true, wK := some wk, wQ := some wq, bK := some bk, bQ := some bq,
    ep := none, half := 0, full := 1 }

/-- freeze a board function into a table so later look-ups are O(1). -/
def freeze (a : APos) : APos :=
  let arr := (List.range 64).toArray.map a.board
  { a with board := fun s => if h : s < arr.size then arr[s] else none }

inductive Policy where
  | uniform | captures | pawns | castle | kingwalk | shuffle
  deriving Inhabited, DecidableEq

def chooseMove (p : Position) (pol : Policy) (r : Rng) : Option Mv × Rng :=
  let ms := legalMoves p
  if ms.isEmpty then (none, r) else
  let pref : List Mv :=
    match pol with
    | .uniform => []
    | .captures => ms.filter p.isCapture
    | .pawns => ms.filter fun m => p.p0.isSet m.src
    | .castle => ms.filter fun m => p.c0.isSet m.dst
    | .kingwalk => ms.filter fun m => p.p5.isSet m.src
    | .shuffle => ms.filter fun m => !p.isCapture m && !p.p0.isSet m.src
  let (coin, r) := r.below 4
  let pool := if pref.isEmpty || coin == 0 then ms else pref
  let (m, r) := r.pick pool
  (some m, r)

/-- a playout of at most `n` plies; returns every position visited (most recent first). -/
def playout (p : Position) (pol : Policy) (n : Nat) (nullProb : Nat) (r : Rng) (acc : List Position) :
    List Position × Rng :=
  match n with
  | 0 => (acc, r)
  | n + 1 =>
    let (c, r) := r.below 100
    if c < nullProb && !p.inCheck then
      let q := p.makenull
      playout q pol n nullProb r (q :: acc)
    else
      let (om, r) := chooseMove p pol r
      match om with
      | none => (acc, r)
      | some m =>
        match p.makemove m true with
        | none => (acc, r)
        | some q => playout q pol n nullProb r (q :: acc)

def policies : List Policy := [.uniform, .captures, .pawns, .castle, .kingwalk, .shuffle, .uniform, .captures]

def randomStart (r : Rng) (frcOut : Bool) : Position × Rng :=
  let (kind, r) := r.below 4
  if kind == 0 then
    let std := backRank960 518
    (rel (startFrom std std) frcOut, r)
  else if kind == 1 || kind == 2 then
    let (n, r) := r.below 960
    (rel (startFrom (backRank960 n) (backRank960 n)) frcOut, r)
  else
    let (n, r) := r.below 960
    let (m, r) := r.below 960
    (rel (startFrom (backRank960 n) (backRank960 m)) frcOut, r)

/-- random sparse constructed position (kings + sliders biased onto king lines + filler), filtered by V ∧ E. -/
def sparseCandidate (r : Rng) : APos × Rng :=
  let (wk, r) := r.below 64
  let (bk, r) := r.below 64
  let (nPieces, r) := r.below 9
  let kinds : List Kind := [.pawn, .pawn, .pawn, .knight, .bishop, .rook, .queen, .rook, .bishop, .queen]
  let rec fill (n : Nat) (b : List (Nat × Piece)) (r : Rng) : List (Nat × Piece) × Rng :=
    match n with
    | 0 => (b, r)
    | n + 1 =>
      let (mode, r) := r.below 3
      let (sqr, r) :=
        if mode == 0 then r.below 64
        else
          -- on a line through one of the kings
          let (which, r) := r.below 2
          let k := if which == 0 then wk else bk
          let (d, r) := r.below 8
          let (dist, r) := r.below 7
          let dirs : List (Int × Int) := [(1,0),(-1,0),(0,1),(0,-1),(1,1),(1,-1),(-1,1),(-1,-1)]
          let (df, dr) := dirs.getD d (1, 0)
          let f := file k + df * (dist + 1)
          let rk := rank k + dr * (dist + 1)
          if onBoard f rk then (sq f rk, r) else r.below 64
      let (ki, r) := r.below kinds.length
      let (w, r) := r.below 2
      fill n ((sqr, ⟨w == 0, kinds.getD ki .pawn⟩) :: b) r
  let (ps, r) := fill nPieces [] r
  let ps := ps ++ [(wk, ⟨true, .king⟩), (bk, ⟨false, .king⟩)]
  let board : Board := fun s => (ps.reverse.find? fun x => x.1 == s).map (·.2)
  let (wtm, r) := r.below 2
  let w := wtm == 0
  -- castling rights where possible
  let rightFor (white ks : Bool) (r : Rng) : Option Nat × Rng :=
    let hr := homeRank white
    let k := if white then wk else bk
    if rank k != hr then (none, r) else
    let cands := (List.range 8).filter fun (f : Nat) =>
      board (sq f hr) == some ⟨white, .rook⟩ && (if ks then file k < f else (f : Int) < file k)
    if cands.isEmpty then (none, r) else
    let (c, r) := r.below 3
    if c == 0 then (none, r) else
    let (f, r) := r.pick cands
    (some f, r)
  let (wK, r) := rightFor true true r
  let (wQ, r) := rightFor true false r
  let (bK, r) := rightFor false true r
  let (bQ, r) := rightFor false false r
  -- en passant where the pattern exists
  let epc := (List.range 8).filter fun (f : Nat) =>
    let e := sq f (if w then 5 else 2)
    (board e).isNone && board (sq f (if w then 4 else 3)) == some ⟨!w, .pawn⟩ && (board (sq f (if w then 6 else 1))).isNone
  let (ep, r) :=
    if epc.isEmpty then (none, r) else
    let (c, r) := r.below 3
    if c == 0 then (none, r) else
    let (f, r) := r.pick epc
    (some (sq f (if w then 5 else 2)), r)
  let (half, r) := r.below 60
  let (full, r) := r.below 90
  let half' : Int := if ep.isSome then 0 else (half : Int)
  let full' : Int := (full : Int) + 1
  let a : APos :=
    { board := board, whiteToMove := w, wK := wK, wQ := wQ, bK := bK, bQ := bQ, ep := ep,
      half := half', full := full' }
  (freeze a, r)

def sparse (n : Nat) (r : Rng) (frc : Bool) : List Position × Rng :=
  let rec go (fuel : Nat) (n : Nat) (acc : List Position) (r : Rng) : List Position × Rng :=
    match fuel, n with
    | 0, _ => (acc, r)
    | _, 0 => (acc, r)
    | fuel + 1, n + 1 =>
      let (a, r) := sparseCandidate r
      if Spec.Valid a && Spec.EpConsistent a then
        go fuel n (rel a frc :: acc) r
      else go fuel (n + 1) acc r
  go (n * 40) n [] r

end Rawr.GenPos
