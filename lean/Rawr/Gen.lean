import Rawr.Abs
/-! Input generators (one PRNG state; every case replayable from the seed). Executable only; nothing
here is used by a theorem. -/
namespace Rawr.GenPos
open Rawr Spec

structure Rng where
  s : UInt64

def Rng.next (r : Rng) : UInt64 × Rng :=
  let x := r.s
  let x := x ^^^ (x >>> 12)
  let x := x ^^^ (x <<< 25)
  let x := x ^^^ (x >>> 27)
  (x * 0x2545F4914F6CDD1D, ⟨x⟩)

def Rng.below (r : Rng) (n : Nat) : Nat × Rng :=
  let (v, r) := r.next
  ((v >>> 11).toNat % (max n 1), r)

def Rng.mk' (seed : Nat) : Rng :=
  let r : Rng := ⟨UInt64.ofNat (seed * 0x9E3779B97F4A7C15 + 0x1234567) ||| 1⟩
  (r.next.2.next.2.next.2)

def Rng.pick {α} [Inhabited α] (r : Rng) (l : List α) : α × Rng :=
  let (i, r) := r.below l.length
  (l.getD i default, r)

/-- Scharnagl numbering of the 960 back ranks. -/
def backRank960 (n : Nat) : List Kind :=
  let n := n % 960
  let empty : List (Option Kind) := List.replicate 8 none
  let place (l : List (Option Kind)) (idx : Nat) (k : Kind) : List (Option Kind) := l.set idx (some k)
  -- nth free square
  let nthFree (l : List (Option Kind)) (k : Nat) : Nat :=
    let frees := (List.range 8).filter fun i => (l.getD i none).isNone
    frees.getD k 0
  let b1 := n % 4; let n := n / 4
  let b2 := n % 4; let n := n / 4
  let q := n % 6; let n := n / 6
  let l := place empty (2 * b1 + 1) .bishop
  let l := place l (2 * b2) .bishop
  let l := place l (nthFree l q) .queen
  let knightTbl : List (Nat × Nat) := [(0,1),(0,2),(0,3),(0,4),(1,2),(1,3),(1,4),(2,3),(2,4),(3,4)]
  let (k1, k2) := knightTbl.getD n (0, 1)
  let f1 := nthFree l k1
  let f2 := nthFree l k2
  let l := place (place l f1 .knight) f2 .knight
  let l := place l (nthFree l 0) .rook
  let l := place l (nthFree l 0) .king
  let l := place l (nthFree l 0) .rook
  l.map fun o => o.getD .king

/-- start position with white back rank `w` and black back rank `b`. -/
def startFrom (w b : List Kind) : APos :=
  let board : Board := fun s =>
    if s < 8 then some ⟨true, w.getD s .king⟩
    else if s < 16 then some ⟨true, .pawn⟩
    else if 48 ≤ s ∧ s < 56 then some ⟨false, .pawn⟩
    else if 56 ≤ s ∧ s < 64 then some ⟨false, b.getD (s - 56) .king⟩
    else none
  let rookFiles (l : List Kind) : Nat × Nat :=
    let fs := (List.range 8).filter fun i => l.getD i .king == .rook
    (fs.getD 0 0, fs.getD 1 7)
  let (wq, wk) := rookFiles w
  let (bq, bk) := rookFiles b
  { board := board, whiteToMove := true, wK := some wk, wQ := some wq, bK := some bk, bQ := some bq,
    ep := none, half := 0, full := 1 }

/-- freeze a board function into a table so later look-ups are O(1). -/
def freeze (a : APos) : APos :=
  let arr := (List.range 64).toArray.map a.board
  { a with board := fun s => if h : s < arr.size then arr[s] else none }

inductive Policy where
  | uniform | captures | pawns | castle | kingwalk | shuffle
  deriving Inhabited, DecidableEq

def chooseMove (p : Position) (pol : Policy) (r : Rng) : Option Mv × Rng :=
  let ms := legalMoves p
  if ms.isEmpty then (none, r) else
  let pref : List Mv :=
    match pol with
    | .uniform => []
    | .captures => ms.filter p.isCapture
    | .pawns => ms.filter fun m => p.p0.isSet m.src
    | .castle => ms.filter fun m => p.c0.isSet m.dst
    | .kingwalk => ms.filter fun m => p.p5.isSet m.src
    | .shuffle => ms.filter fun m => !p.isCapture m && !p.p0.isSet m.src
  let (coin, r) := r.below 4
  let pool := if pref.isEmpty || coin == 0 then ms else pref
  let (m, r) := r.pick pool
  (some m, r)

/-- a playout of at most `n` plies; returns every position visited (most recent first). -/
def playout (p : Position) (pol : Policy) (n : Nat) (nullProb : Nat) (r : Rng) (acc : List Position) :
    List Position × Rng :=
  match n with
  | 0 => (acc, r)
  | n + 1 =>
    let (c, r) := r.below 100
    if c < nullProb && !p.inCheck then
      let q := p.makenull
      playout q pol n nullProb r (q :: acc)
    else
      let (om, r) := chooseMove p pol r
      match om with
      | none => (acc, r)
      | some m =>
        match p.makemove m true with
        | none => (acc, r)
        | some q => playout q pol n nullProb r (q :: acc)

def policies : List Policy := [.uniform, .captures, .pawns, .castle, .kingwalk, .shuffle, .uniform, .captures]

def randomStart (r : Rng) (frcOut : Bool) : Position × Rng :=
  let (kind, r) := r.below 4
  if kind == 0 then
    let std := backRank960 518
    (rel (startFrom std std) frcOut, r)
  else if kind == 1 || kind == 2 then
    let (n, r) := r.below 960
    (rel (startFrom (backRank960 n) (backRank960 n)) frcOut, r)
  else
    let (n, r) := r.below 960
    let (m, r) := r.below 960
    (rel (startFrom (backRank960 n) (backRank960 m)) frcOut, r)

/-- random sparse constructed position (kings + sliders biased onto king lines + filler), filtered by V ∧ E. -/
def sparseCandidate (r : Rng) : APos × Rng :=
  let (wk, r) := r.below 64
  let (bk, r) := r.below 64
  let (nPieces, r) := r.below 9
  let kinds : List Kind := [.pawn, .pawn, .pawn, .knight, .bishop, .rook, .queen, .rook, .bishop, .queen]
  let rec fill (n : Nat) (b : List (Nat × Piece)) (r : Rng) : List (Nat × Piece) × Rng :=
    match n with
    | 0 => (b, r)
    | n + 1 =>
      let (mode, r) := r.below 3
      let (sqr, r) :=
        if mode == 0 then r.below 64
        else
          -- on a line through one of the kings
          let (which, r) := r.below 2
          let k := if which == 0 then wk else bk
          let (d, r) := r.below 8
          let (dist, r) := r.below 7
          let dirs : List (Int × Int) := [(1,0),(-1,0),(0,1),(0,-1),(1,1),(1,-1),(-1,1),(-1,-1)]
          let (df, dr) := dirs.getD d (1, 0)
          let f := file k + df * (dist + 1)
          let rk := rank k + dr * (dist + 1)
          if onBoard f rk then (sq f rk, r) else r.below 64
      let (ki, r) := r.below kinds.length
      let (w, r) := r.below 2
      fill n ((sqr, ⟨w == 0, kinds.getD ki .pawn⟩) :: b) r
  let (ps, r) := fill nPieces [] r
  let ps := ps ++ [(wk, ⟨true, .king⟩), (bk, ⟨false, .king⟩)]
  let board : Board := fun s => (ps.reverse.find? fun x => x.1 == s).map (·.2)
  let (wtm, r) := r.below 2
  let w := wtm == 0
  -- castling rights where possible
  let rightFor (white ks : Bool) (r : Rng) : Option Nat × Rng :=
    let hr := homeRank white
    let k := if white then wk else bk
    if rank k != hr then (none, r) else
    let cands := (List.range 8).filter fun (f : Nat) =>
      board (sq f hr) == some ⟨white, .rook⟩ && (if ks then file k < f else (f : Int) < file k)
    if cands.isEmpty then (none, r) else
    let (c, r) := r.below 3
    if c == 0 then (none, r) else
    let (f, r) := r.pick cands
    (some f, r)
  let (wK, r) := rightFor true true r
  let (wQ, r) := rightFor true false r
  let (bK, r) := rightFor false true r
  let (bQ, r) := rightFor false false r
  -- en passant where the pattern exists
  let epc := (List.range 8).filter fun (f : Nat) =>
    let e := sq f (if w then 5 else 2)
    (board e).isNone && board (sq f (if w then 4 else 3)) == some ⟨!w, .pawn⟩ && (board (sq f (if w then 6 else 1))).isNone
  let (ep, r) :=
    if epc.isEmpty then (none, r) else
    let (c, r) := r.below 3
    if c == 0 then (none, r) else
    let (f, r) := r.pick epc
    (some (sq f (if w then 5 else 2)), r)
  let (half, r) := r.below 60
  let (full, r) := r.below 90
  let half' : Int := if ep.isSome then 0 else (half : Int)
  let full' : Int := (full : Int) + 1
  let a : APos :=
    { board := board, whiteToMove := w, wK := wK, wQ := wQ, bK := bK, bQ := bQ, ep := ep,
      half := half', full := full' }
  (freeze a, r)

def sparse (n : Nat) (r : Rng) (frc : Bool) : List Position × Rng :=
  let rec go (fuel : Nat) (n : Nat) (acc : List Position) (r : Rng) : List Position × Rng :=
    match fuel, n with
    | 0, _ => (acc, r)
    | _, 0 => (acc, r)
    | fuel + 1, n + 1 =>
      let (a, r) := sparseCandidate r
      if Spec.Valid a && Spec.EpConsistent a then
        go fuel n (rel a frc :: acc) r
      else go fuel (n + 1) acc r
  go (n * 40) n [] r

end Rawr.GenPos

namespace Rawr.GenPos
open Rawr Spec

/-- a board under construction: later placements never overwrite earlier ones. -/
abbrev Placement := List (Nat × Piece)

def place (b : Placement) (s : Nat) (pc : Piece) : Placement :=
  if s < 64 && !(b.any fun x => x.1 == s) then b ++ [(s, pc)] else b

def boardOf (b : Placement) : Board := fun s => (b.find? fun x => x.1 == s).map (·.2)

def randKind (r : Rng) (ks : List Kind) : Kind × Rng :=
  let (i, r) := r.below ks.length
  (ks.getD i .rook, r)

def fillers (n : Nat) (b : Placement) (r : Rng) : Placement × Rng :=
  match n with
  | 0 => (b, r)
  | n + 1 =>
    let (s, r) := r.below 64
    let (k, r) := randKind r [.pawn, .pawn, .knight, .bishop, .rook, .queen]
    let (w, r) := r.below 2
    fillers n (place b s ⟨w == 0, k⟩) r

/-- one hazard for a square `t` of the back rank `hr` (as seen by colour `white`): an enemy piece attacking or occupying it. -/
def hazard (white : Bool) (t : Nat) (b : Placement) (r : Rng) : Placement × Rng :=
  let (k, r) := r.below 7
  let f := file t
  let rk := rank t
  let dir : Int := if white then 1 else -1
  let (d, r) := r.below 7
  let dist : Int := (d : Int) + 1
  let put (ff rr : Int) (pc : Piece) : Placement := if onBoard ff rr then place b (sq ff rr) pc else b
  match k with
  | 0 => -- enemy rook/queen somewhere on the back rank
    let (g, r) := r.below 8
    let (q, r) := r.below 2
    (place b (sq g rk) ⟨!white, if q == 0 then .rook else .queen⟩, r)
  | 1 => let (q, r) := r.below 2
         (put f (rk + dir * dist) ⟨!white, if q == 0 then .rook else .queen⟩, r)
  | 2 => let (sgnf, r) := r.below 2
         let (q, r) := r.below 2
         (put (f + (if sgnf == 0 then dist else -dist)) (rk + dir * dist) ⟨!white, if q == 0 then .bishop else .queen⟩, r)
  | 3 => let (j, r) := r.below 4
         let offs : List (Int × Int) := [(1, 2), (-1, 2), (2, 1), (-2, 1)]
         let (df, dr) := offs.getD j (1, 2)
         (put (f + df) (rk + dir * dr) ⟨!white, .knight⟩, r)
  | 4 => let (sgnf, r) := r.below 2
         (put (f + (if sgnf == 0 then 1 else -1)) (rk + dir) ⟨!white, .pawn⟩, r)
  | 5 => let (w, r) := r.below 2
         let (kk, r) := randKind r [.knight, .bishop, .queen, .rook]
         (place b t ⟨w == 0, kk⟩, r)
  | _ => (b, r)

/-- castling patterns: every king file / rook file combination, inner and outer rooks, hazards on and
around the king's and rook's paths (attacked squares, occupied squares, a rook or queen on the back
rank behind the castling rook), both colours, independent geometry for the opponent (double-960). -/
def castlePattern (r : Rng) : APos × Rng :=
  let (wtm, r) := r.below 2
  let w := wtm == 0
  let side (white : Bool) (b : Placement) (r : Rng) : Placement × Option Nat × Option Nat × Nat × Rng :=
    let hr := homeRank white
    let (kf0, r) := r.below 6
    let kf := kf0 + 1
    let b := place b (sq kf hr) ⟨white, .king⟩
    let (hasK, r) := r.below 4
    let (hasQ, r) := r.below 4
    let (rk0, r) := r.below (7 - kf)
    let rfK := kf + 1 + rk0
    let (rq0, r) := r.below kf
    let rfQ := rq0
    let b := if hasK != 0 then place b (sq rfK hr) ⟨white, .rook⟩ else b
    let b := if hasQ != 0 then place b (sq rfQ hr) ⟨white, .rook⟩ else b
    -- sometimes a second own rook on the same wing (inner / outer rook)
    let (ex, r) := r.below 4
    let (exf, r) := r.below 8
    let b := if ex == 0 then place b (sq exf hr) ⟨white, .rook⟩ else b
    -- … and sometimes a third and fourth one (the right may then sit on a MIDDLE rook of three on one wing)
    let (ex2, r) := r.below 3
    let (exf2, r) := r.below 8
    let (exf3, r) := r.below 8
    let b := if ex == 0 && ex2 == 0 then place (place b (sq exf2 hr) ⟨white, .rook⟩) (sq exf3 hr) ⟨white, .rook⟩ else b
    (b, (if hasK != 0 then some rfK else none), (if hasQ != 0 then some rfQ else none), kf, r)
  let (b, wK, wQ, wkf, r) := side true [] r
  -- the opponent: often a bare king far away, sometimes its own castling set-up
  let (opp, r) := r.below 3
  let (b, bK, bQ, bkf, r) :=
    if opp == 0 then side false b r
    else
      let (f, r) := r.below 8
      let (rr, r) := r.below 3
      (place b (sq f (7 - rr)) ⟨false, .king⟩, none, none, f, r)
  let _ := bkf
  let _ := wkf
  -- a rook or queen of the opponent on the back rank BEHIND the mover's castling rook (the rook shields the king's path)
  let (sh, r) := r.below 3
  let (shq, r) := r.below 2
  let (shd, r) := r.below 7
  let b :=
    if sh == 0 then
      let hrm := homeRank w
      let (oK, oQ) := if w then (wK, wQ) else (bK, bQ)
      let pc : Piece := ⟨!w, if shq == 0 then .rook else .queen⟩
      let b := match oQ with
        | some f => if f ≥ 1 then place b (sq ((shd % f : Nat) : Int) hrm) pc else b
        | none => b
      match oK with
      | some f => if f ≤ 6 then place b (sq ((f + 1 + shd % (7 - f) : Nat) : Int) hrm) pc else b
      | none => b
    else b
  -- an enemy rook standing on the (default) home square of a castling rook whose right the mover no longer holds, the mover's king
  -- possibly next to it (king takes rook on a castling-rook square while the OTHER right is still held)
  let (cr, r) := r.below 2
  let b :=
    if cr == 0 then
      let hrm := homeRank w
      let (oK, oQ) := if w then (wK, wQ) else (bK, bQ)
      let b := if oK.isNone then place b (sq 7 hrm) ⟨!w, .rook⟩ else b
      if oQ.isNone then place b (sq 0 hrm) ⟨!w, .rook⟩ else b
    else b
  -- hazards around the mover's back rank
  let hr := homeRank w
  let (nh, r) := r.below 3
  let rec hz (n : Nat) (b : Placement) (r : Rng) : Placement × Rng :=
    match n with
    | 0 => (b, r)
    | n + 1 =>
      let (f, r) := r.below 8
      let (b, r) := hazard w (sq f hr) b r
      hz n b r
  let (b, r) := hz nh b r
  let (nf, r) := r.below 3
  let (b, r) := fillers nf b r
  let board := boardOf b
  -- keep only rights that are really backed after the placements
  let backed (white ks : Bool) (o : Option Nat) : Option Nat :=
    match o with
    | some f => if board (sq f (homeRank white)) == some ⟨white, .rook⟩ then some f else none
    | none => none
  let a : APos := { board := board, whiteToMove := w, wK := backed true true wK, wQ := backed true false wQ,
                    bK := backed false true bK, bQ := backed false false bQ, ep := none, half := 0, full := 1 }
  (freeze a, r)

/-- en-passant patterns: capturer(s) beside a pawn that has just made a double push; own king on the
pawns' rank / on a diagonal or file through the capturer or the captured pawn / giving check by the
pushed pawn; enemy sliders on those lines. -/
def epPattern (r : Rng) : APos × Rng :=
  let (wtm, r) := r.below 2
  let w := wtm == 0
  let r5 : Int := if w then 4 else 3
  let r6 : Int := if w then 5 else 2
  let dir : Int := if w then 1 else -1
  let (pf0, r) := r.below 8
  let pf : Int := pf0
  let b : Placement := place [] (sq pf r5) ⟨!w, .pawn⟩
  let (which, r) := r.below 3
  let b := if which != 1 && onBoard (pf - 1) r5 then place b (sq (pf - 1) r5) ⟨w, .pawn⟩ else b
  let b := if which != 0 && onBoard (pf + 1) r5 then place b (sq (pf + 1) r5) ⟨w, .pawn⟩ else b
  let capf : Int := if which == 1 then pf + 1 else pf - 1
  -- own king
  let (km, r) := r.below 6
  let (kd0, r) := r.below 12
  let kd := if kd0 ≥ 7 then 0 else kd0      -- adjacent to the pawn more often
  let d : Int := (kd : Int) + 1
  let (sg, r) := r.below 2
  let s : Int := if sg == 0 then 1 else -1
  let (kf, kr) : Int × Int :=
    match km with
    | 0 => (capf + s * d, r5)                    -- same rank as the pawns
    | 1 => (capf + s * d, r5 - dir * d)          -- diagonal through the capturer (behind it)
    | 2 => (capf, r5 - dir * d)                  -- file of the capturer
    | 3 => (pf + s * d, r5 - dir * d)            -- diagonal through the captured pawn
    | 4 => (pf + s, r5 - dir)                    -- attacked by the pushed pawn (check)
    | _ => (capf + s * d, r5 + dir * d)
  let (rf, r) := r.below 8
  let (rr, r) := r.below 8
  let b := if onBoard kf kr then place b (sq kf kr) ⟨w, .king⟩ else place b (sq rf rr) ⟨w, .king⟩
  let b := if b.any (fun x => x.2 == ⟨w, .king⟩) then b else place b (sq ((rf + 3) % 8) ((rr + 5) % 8)) ⟨w, .king⟩
  -- enemy king somewhere
  let (ef, r) := r.below 8
  let (er, r) := r.below 8
  let b := place b (sq ef er) ⟨!w, .king⟩
  let b := if b.any (fun x => x.2 == ⟨!w, .king⟩) then b else place b (sq ((ef + 5) % 8) ((er + 3) % 8)) ⟨!w, .king⟩
  -- enemy sliders on the critical lines
  let (ns, r) := r.below 4
  let rec sl (n : Nat) (b : Placement) (r : Rng) : Placement × Rng :=
    match n with
    | 0 => (b, r)
    | n + 1 =>
      let (m, r) := r.below 7
      let (dd, r) := r.below 7
      let e : Int := (dd : Int) + 1
      let (sg, r) := r.below 2
      let s : Int := if sg == 0 then 1 else -1
      let (q, r) := r.below 2
      let (f, k, pc) : Int × Int × Piece :=
        match m with
        | 0 => (capf + s * e, r5, ⟨!w, if q == 0 then .rook else .queen⟩)
        | 1 => (capf + s * e, r5 + dir * e, ⟨!w, if q == 0 then .bishop else .queen⟩)
        | 2 => (pf + s * e, r5 + dir * e, ⟨!w, if q == 0 then .bishop else .queen⟩)
        | 3 => (capf + s * e, r5 - dir * e, ⟨!w, if q == 0 then .bishop else .queen⟩)   -- behind the capturer, diagonal
        | 4 => (pf + s * e, r5 - dir * e, ⟨!w, if q == 0 then .bishop else .queen⟩)     -- behind the captured pawn, diagonal
        | 5 => (capf, r5 - dir * e, ⟨!w, if q == 0 then .rook else .queen⟩)             -- behind the capturer, file
        | _ => (capf, r5 + dir * e, ⟨!w, if q == 0 then .rook else .queen⟩)
      sl n (if onBoard f k && sq f k != sq pf r6 && sq f k != sq pf (r6 + dir) then place b (sq f k) pc else b) r
  let (b, r) := sl ns b r
  let (nf, r) := r.below 3
  let (b, r) := fillers nf b r
  -- the ep square and the origin square must stay empty
  let b := b.filter fun x => x.1 != sq pf r6 && x.1 != sq pf (r6 + dir)
  let a : APos := { board := boardOf b, whiteToMove := w, wK := none, wQ := none, bK := none, bQ := none,
                    ep := some (sq pf r6), half := 0, full := 1 }
  (freeze a, r)

/-- promotion patterns: a pawn on the seventh next to / in front of back-rank pieces, incl. a castling
rook that still carries its right (promotion-capture of a castling rook). -/
def promoPattern (r : Rng) : APos × Rng :=
  let (wtm, r) := r.below 2
  let w := wtm == 0
  let r7 : Int := if w then 6 else 1
  let r8 : Int := if w then 7 else 0
  let (ekf0, r) := r.below 6
  let ekf := ekf0 + 1
  let b : Placement := place [] (sq ekf r8) ⟨!w, .king⟩
  let (rk0, r) := r.below (7 - ekf)
  let rfK := ekf + 1 + rk0
  let (rq0, r) := r.below ekf
  let rfQ := rq0
  let b := place (place b (sq rfK r8) ⟨!w, .rook⟩) (sq rfQ r8) ⟨!w, .rook⟩
  let (side, r) := r.below 2
  let target : Int := if side == 0 then rfK else rfQ
  let (off, r) := r.below 3
  let pfile : Int := target + (off : Int) - 1
  let b := if onBoard pfile r7 then place b (sq pfile r7) ⟨w, .pawn⟩ else b
  let (kf, r) := r.below 8
  let (kr, r) := r.below 4
  let b := place b (sq kf (if w then kr else 7 - kr)) ⟨w, .king⟩
  let b := if b.any (fun x => x.2 == ⟨w, .king⟩) then b else place b (sq ((kf + 4) % 8) (if w then 0 else 7)) ⟨w, .king⟩
  let (nf, r) := r.below 4
  let (b, r) := fillers nf b r
  let board := boardOf b
  let backed (f : Nat) : Option Nat := if board (sq f r8) == some ⟨!w, .rook⟩ then some f else none
  let a : APos := { board := board, whiteToMove := w,
                    wK := if w then none else backed rfK, wQ := if w then none else backed rfQ,
                    bK := if w then backed rfK else none, bQ := if w then backed rfQ else none,
                    ep := none, half := 0, full := 1 }
  (freeze a, r)

/-- pin patterns: the mover's king with own pieces (queens often) pinned along several of the eight lines at once, the pinning
sliders at varying distances; a few fillers. -/
def pinPattern (r : Rng) : APos × Rng :=
  let (wtm, r) := r.below 2
  let w := wtm == 0
  let (kf0, r) := r.below 8
  let (kr0, r) := r.below 8
  let kf : Int := kf0
  let kr : Int := kr0
  let b : Placement := place [] (sq kf kr) ⟨w, .king⟩
  let dirs : List (Int × Int) := [(1, 0), (-1, 0), (0, 1), (0, -1), (1, 1), (1, -1), (-1, 1), (-1, -1)]
  let rec lines (ds : List (Int × Int)) (b : Placement) (r : Rng) : Placement × Rng :=
    match ds with
    | [] => (b, r)
    | (df, dr) :: ds =>
      let (use, r) := r.below 2
      let (d1, r) := r.below 3
      let (gap, r) := r.below 3
      let (pk, r) := r.below 10
      let (sk, r) := r.below 2
      if use == 0 then lines ds b r
      else
        let a : Int := (d1 : Int) + 1
        let e : Int := a + (gap : Int) + 1
        let (f1, r1, f2, r2) := (kf + df * a, kr + dr * a, kf + df * e, kr + dr * e)
        if onBoard f1 r1 && onBoard f2 r2 then
          let own : Kind := if pk < 4 then .queen else if pk < 6 then .rook else if pk < 8 then .bishop else if pk < 9 then .knight else .pawn
          let own : Kind := if own == .pawn && (r1 == 0 || r1 == 7) then .queen else own
          let orth := df == 0 || dr == 0
          let sl : Kind := if sk == 0 then .queen else if orth then .rook else .bishop
          lines ds (place (place b (sq f1 r1) ⟨w, own⟩) (sq f2 r2) ⟨!w, sl⟩) r
        else lines ds b r
  let (b, r) := lines dirs b r
  let (of, r) := r.below 8
  let (orr, r) := r.below 8
  let b := place b (sq of orr) ⟨!w, .king⟩
  let b := if b.any (fun x => x.2 == ⟨!w, .king⟩) then b else place b (sq ((of + 3) % 8) ((orr + 5) % 8)) ⟨!w, .king⟩
  let (nf, r) := r.below 4
  let (b, r) := fillers nf b r
  let a : APos := { board := boardOf b, whiteToMove := w, wK := none, wQ := none, bK := none, bQ := none, ep := none, half := 0, full := 1 }
  (freeze a, r)

/-- `n` accepted pattern positions (kind: 0 castling, 1 en passant, 2 promotion, 3 pins). -/
def patterns (kind : Nat) (n : Nat) (r : Rng) (frc : Bool) : List Position :=
  let rec go (fuel : Nat) (n : Nat) (acc : List Position) (r : Rng) : List Position :=
    match fuel, n with
    | 0, _ => acc
    | _, 0 => acc
    | fuel + 1, n + 1 =>
      let (a, r) := match kind with
        | 0 => castlePattern r
        | 1 => epPattern r
        | 2 => promoPattern r
        | _ => pinPattern r
      if Spec.Valid a && Spec.EpConsistent a then go fuel n (rel a frc :: acc) r
      else go fuel (n + 1) acc r
  go (n * 60) n [] r

end Rawr.GenPos

namespace Rawr.GenPos
open Rawr Spec

/-- candidates for under-promotion mates: a pawn on the seventh, the enemy king a knight's move (or close)
from the promotion square, a few own pieces around. -/
def underPromoCandidate (r : Rng) : APos × Rng :=
  let (wtm, r) := r.below 2
  let w := wtm == 0
  let r7 : Int := if w then 6 else 1
  let r8 : Int := if w then 7 else 0
  let dir : Int := if w then 1 else -1
  let (pf0, r) := r.below 8
  let pf : Int := pf0
  let b : Placement := place [] (sq pf r7) ⟨w, .pawn⟩
  let (j, r) := r.below 6
  let offs : List (Int × Int) := [(1, -2), (-1, -2), (2, -1), (-2, -1), (1, -1), (-1, -1)]
  let (df, dr) := offs.getD j (1, -2)
  let kf := pf + df
  let kr := r8 + dir * dr
  let (af, r) := r.below 8
  let (ar, r) := r.below 8
  let b := if onBoard kf kr then place b (sq kf kr) ⟨!w, .king⟩ else place b (sq af ar) ⟨!w, .king⟩
  let b := if b.any (fun x => x.2 == ⟨!w, .king⟩) then b else place b (sq ((af + 3) % 8) ((ar + 3) % 8)) ⟨!w, .king⟩
  let (of, r) := r.below 8
  let (or_, r) := r.below 8
  let b := place b (sq of or_) ⟨w, .king⟩
  let b := if b.any (fun x => x.2 == ⟨w, .king⟩) then b else place b (sq ((of + 5) % 8) ((or_ + 2) % 8)) ⟨w, .king⟩
  -- own pieces near the enemy king, a few enemy blockers
  let rec extra (n : Nat) (b : Placement) (r : Rng) : Placement × Rng :=
    match n with
    | 0 => (b, r)
    | n + 1 =>
      let (dx, r) := r.below 5
      let (dy, r) := r.below 5
      let (k, r) := randKind r [.bishop, .knight, .rook, .queen, .pawn, .bishop]
      let (own, r) := r.below 4
      let f := kf + (dx : Int) - 2
      let k2 := kr + (dy : Int) - 2
      extra n (if onBoard f k2 then place b (sq f k2) ⟨if own == 0 then !w else w, k⟩ else b) r
  let (ne, r) := r.below 5
  let (b, r) := extra (ne + 2) b r
  let a : APos := { board := boardOf b, whiteToMove := w, wK := none, wQ := none, bK := none, bQ := none,
                    ep := none, half := 0, full := 1 }
  (freeze a, r)

/-- positions with a mate in one delivered by an under-promotion. -/
def underPromoMates (n : Nat) (r : Rng) : List Position :=
  let rec go (fuel : Nat) (acc : List Position) (r : Rng) : List Position :=
    match fuel with
    | 0 => acc
    | fuel + 1 =>
      let (a, r) := underPromoCandidate r
      if Spec.Valid a then
        let p := rel a false
        let mates := (legalMoves p).any fun m =>
          m.promo != 6 && m.promo != 4 &&
          (match p.makemove m true with
           | some q => (legalMoves q).isEmpty && q.inCheck
           | none => false)
        go fuel (if mates then p :: acc else acc) r
      else go fuel acc r
  go n [] r

end Rawr.GenPos

namespace Rawr.GenPos
open Rawr Spec

/-- EXHAUSTIVE small family: white king on `wk`, black king anywhere, one extra man of any kind and colour anywhere,
either side to move; only structurally valid positions are kept. -/
def smallBlock (wk : Nat) : List Position :=
  let kinds : List Kind := [.queen, .rook, .bishop, .knight, .pawn]
  (List.range 64).flatMap fun bk =>
    if bk == wk then [] else
    (List.range 64).flatMap fun x =>
      if x == wk || x == bk then [] else
      kinds.flatMap fun k =>
        [true, false].flatMap fun xw =>
          [true, false].filterMap fun wtm =>
            let board : Board := fun s =>
              if s == wk then some ⟨true, .king⟩ else if s == bk then some ⟨false, .king⟩
              else if s == x then some ⟨xw, k⟩ else none
            let a : APos := { board := board, whiteToMove := wtm, wK := none, wQ := none, bK := none, bQ := none,
                              ep := none, half := 0, full := 1 }
            if Spec.Valid a then some (rel a false) else none

end Rawr.GenPos
