import Rawr.Props.C14Examples
/-! Heavier non-vacuity instance for C03 / C14 (kernel evaluation): a depth-2 search of K+P v K. -/
namespace Rawr
namespace C14Ex
open C13Ex C03Ex

/-- depth limit 2 (late-move re-searches, interior polls, table stores and probes all occur): the hypotheses
of `C14_depth_iterations`, `C14_scores_inside_mate_bounds_partial` and `C03_root_returns_legal` hold; through
the theorems: iterations 1 and 2 are reported in order and nothing deeper, the scores are inside the mate
bounds, the move played is legal and is the head of the last principal variation. -/
example : ∃ res, root (.depth 2) 3 kpk hist2 tt3 = some res ∧ res.infos.map (·.depth) = [1, 2] ∧
    (∀ r ∈ res.infos, -Gen.MATE_SCORE < r.score ∧ r.score < Gen.MATE_SCORE) ∧
    (∃ m ∈ legalMoves kpk, res.best = some m) ∧
    res.best = (res.infos.getLast?).bind (·.pv.head?) := by
  have h : (root (.depth 2) 3 kpk hist2 tt3).isSome = true := by decide +kernel
  obtain ⟨res, h1⟩ := Option.isSome_iff_exists.1 h
  exact ⟨res, h1,
    C14_depth_iterations 2 (by decide) (by decide) _ sDomB_dom 3 kpk hist2 tt3 res kpk_dom3 tt3_sane.bounded
      (by decide) kpk_legal h1,
    C14_scores_inside_mate_bounds_partial _ _ sDomB_dom 3 kpk hist2 tt3 res kpk_dom3 tt3_sane (by decide) h1,
    (C03_root_returns_legal _ _ sDomB_dom 3 kpk hist2 tt3 res kpk_dom3 tt3_sane.bounded (by decide) h1).1
      kpk_legal,
    C14_best_is_pv_head _ _ _ _ _ _ h1⟩

end C14Ex
end Rawr
