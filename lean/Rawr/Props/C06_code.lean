import Rawr.Props.C06
import Rawr.Props.C07_full
import Rawr.Props.C07Examples
import Rawr.Proofs.RustTextAgree_GetFenRules
import Rawr.Proofs.RustTextAgree_SetFen
/-!
# C06 on the regenerated code: FEN round trips through `R.get_fen` and `R.set_fen`

`Rawr.R.get_fen` (get_fen.rs) and `Rawr.R.set_fen` (set_fen.rs, with the call of `validate`) are regenerated from the
Rust source on every run, both parametrised by the `u8` arithmetic `ar` (`.wrap` = optimised build, `.trap` = checked
build).

* `agree_set_fen ar n s fen : R.set_fen (n + 2) ar s fen = setFen ar s.frc fen` — unconditional; `s` is the
  `&mut self` the Rust method is called on (only its `is_frc` flag survives), `n + 2` the recursion fuel (the Rust
  function calls itself once, for `"startpos"`).
* `agree_get_fen_rules ar p : ValidPos p → R.get_fen ar p = getFen p` — on valid positions (the model's `getFen` is
  total where the Rust code indexes arrays / casts to `u8`).

C06(a) quantifies over `ValidPos p`, which is exactly the domain hypothesis of `agree_get_fen_rules`: exact transfer.
C06(b) quantifies over valid ABSOLUTE positions `a`; `get_fen` is applied to `rel a frc` resp. to the position
`set_fen` returns, which is valid (`validPos_rel`), so again no extra hypothesis.  The statements are the
unconditional ones (`C06a_complete`, `C06b_complete` of `Props/C07_full.lean`, bridge to C08d discharged).  The
arithmetic of the printer (`ar'`) and of the parser (`ar`) are independent parameters.
-/
namespace Rawr
open Position Spec FenC

/-! ## (a) print ∘ parse -/

/-- the regenerated `get_fen` never panics on a valid position (either arithmetic) and prints the canonical X-FEN of
the absolute position. -/
theorem C06_code_a_prints (ar' : Arith) (p : Position) (hV : ValidPos p = true) :
    R.get_fen ar' p = some (printFen (abs p) .xfen) := by
  rw [agree_get_fen_rules ar' p hV]; exact C06a_prints p hV

/-- **C06(a) on the code**, exact form: what the regenerated `get_fen` prints for a valid position, the regenerated
`set_fen` (any arithmetic, called on any `self` with the position's `is_frc` flag) reads back to `p` with the castle
files of absent rights reset to the defaults. -/
theorem C06_code_a_roundtrip_exact (ar ar' : Arith) (n : Nat) (self : Position) (p : Position)
    (hfrc : self.frc = p.frc) (hV : ValidPos p = true) (s : List Char) (hs : R.get_fen ar' p = some s) :
    R.set_fen (n + 2) ar self s = some (normCf p) := by
  rw [agree_get_fen_rules ar' p hV] at hs
  rw [agree_set_fen, hfrc]
  exact C06a_complete ar p hV s hs

/-- … `get_fen` never fails and `set_fen ∘ get_fen` is the identity up to the castle files of absent rights. -/
theorem C06_code_a_domain (ar ar' : Arith) (n : Nat) (self : Position) (p : Position)
    (hfrc : self.frc = p.frc) (hV : ValidPos p = true) :
    ∃ s, R.get_fen ar' p = some s ∧ R.set_fen (n + 2) ar self s = some (normCf p) :=
  ⟨_, C06_code_a_prints ar' p hV,
    C06_code_a_roundtrip_exact ar ar' n self p hfrc hV _ (C06_code_a_prints ar' p hV)⟩

/-- the abstraction is restored exactly: same absolute position (rights with their files), same key. -/
theorem C06_code_a_abs (ar ar' : Arith) (n : Nat) (self : Position) (p : Position)
    (hfrc : self.frc = p.frc) (hV : ValidPos p = true) (s : List Char) (hs : R.get_fen ar' p = some s) :
    ∃ p', R.set_fen (n + 2) ar self s = some p' ∧ abs p' = abs p ∧ p'.hash = p.hash := by
  rw [agree_get_fen_rules ar' p hV] at hs
  rw [agree_set_fen, hfrc]
  exact C06a_abs ar p hV (C07_bridge p hV) s hs

/-- **C06(a)**, field by field. -/
theorem C06_code_a_roundtrip (ar ar' : Arith) (n : Nat) (self : Position) (p : Position)
    (hfrc : self.frc = p.frc) (hV : ValidPos p = true) (s : List Char) (hs : R.get_fen ar' p = some s) :
    ∃ p', R.set_fen (n + 2) ar self s = some p' ∧
      p'.c0 = p.c0 ∧ p'.c1 = p.c1 ∧ p'.p0 = p.p0 ∧ p'.p1 = p.p1 ∧ p'.p2 = p.p2 ∧ p'.p3 = p.p3 ∧
      p'.p4 = p.p4 ∧ p'.p5 = p.p5 ∧
      p'.black = p.black ∧ p'.ep = p.ep ∧
      p'.usK = p.usK ∧ p'.usQ = p.usQ ∧ p'.themK = p.themK ∧ p'.themQ = p.themQ ∧
      (p.usK = true → p'.cf0 = p.cf0) ∧ (p.usQ = true → p'.cf1 = p.cf1) ∧
      (p.themK = true → p'.cf2 = p.cf2) ∧ (p.themQ = true → p'.cf3 = p.cf3) ∧
      (p.usK = false → p'.cf0 = 7) ∧ (p.usQ = false → p'.cf1 = 0) ∧
      (p.themK = false → p'.cf2 = 7) ∧ (p.themQ = false → p'.cf3 = 0) ∧
      p'.halfmoves = p.halfmoves ∧ p'.fullmoves = p.fullmoves ∧ p'.hash = p.hash ∧ p'.frc = p.frc := by
  rw [agree_get_fen_rules ar' p hV] at hs
  rw [agree_set_fen, hfrc]
  exact C06a_roundtrip ar p hV (C07_bridge p hV) s hs

/-! ## (b) parse ∘ print -/

/-- **C06(b) on the code**: the regenerated `get_fen` prints the canonical X-FEN of (the engine representation of) a
valid position. -/
theorem C06_code_b_canonical (ar' : Arith) (a : APos) (frc : Bool) (hV : Valid a = true)
    (hb : ∀ s, 64 ≤ s → a.board s = none) (hh : a.half < 2147483648) (hf : a.full < 2147483648) :
    R.get_fen ar' (rel a frc) = some (printFen a .xfen) := by
  rw [agree_get_fen_rules ar' _ (validPos_rel a frc hV hb hh hf)]; exact C06b_canonical a frc hV hb hh hf

/-- **C06(b) on the code**: for every canonical X-FEN string of a valid position, parsing with the regenerated
`set_fen` and printing with the regenerated `get_fen` reproduces the string — and likewise for the other two spellings
of the castling field, which are normalised to X-FEN. -/
theorem C06_code_b_normalises (ar ar' : Arith) (n : Nat) (self : Position) (a : APos) (st : CastleStyle)
    (hV : Valid a = true) (hb : ∀ s, 64 ≤ s → a.board s = none)
    (hh : a.half < 2147483648) (hf : a.full < 2147483648) (hst : st = .kqkq → AllOutermost a) :
    (R.set_fen (n + 2) ar self (printFen a st)).bind (R.get_fen ar') = some (printFen a .xfen) := by
  rw [agree_set_fen, C07c_complete ar a self.frc st hV hb hh hf hst, Option.bind_some]
  exact C06_code_b_canonical ar' a self.frc hV hb hh hf

theorem C06_code_b_parse_print (ar ar' : Arith) (n : Nat) (self : Position) (a : APos)
    (hV : Valid a = true) (hb : ∀ s, 64 ≤ s → a.board s = none)
    (hh : a.half < 2147483648) (hf : a.full < 2147483648) :
    (R.set_fen (n + 2) ar self (printFen a .xfen)).bind (R.get_fen ar') = some (printFen a .xfen) :=
  C06_code_b_normalises ar ar' n self a .xfen hV hb hh hf (fun h => by cases h)

/-! ## non-vacuity -/

/-- the start position through the regenerated printer (optimised build) and parser (checked build). -/
example : ∃ s, R.get_fen .wrap Gen.startpos = some s ∧
    R.set_fen 2 .trap Gen.startpos s = some (normCf Gen.startpos) :=
  C06_code_a_domain .trap .wrap 0 Gen.startpos Gen.startpos rfl (by decide +kernel)

/-- the Chess960 position `exInnerFen` of `Props/C06.lean` (Black to move, en-passant square, inner-rook right `C`):
read by the regenerated `set_fen`, it is in the domain, and printed back to the same string by the regenerated `get_fen`. -/
example : ((R.set_fen 2 .wrap { Gen.startpos with frc := true } exInnerFen).map fun p =>
    (ValidPos p, p.black, R.get_fen .trap p)) = some (true, true, some exInnerFen) := by decide +kernel

/-- (b): the absolute start position, all three castling styles. -/
example (ar ar' : Arith) (st : CastleStyle) :
    (R.set_fen 2 ar Gen.startpos (printFen (abs Gen.startpos) st)).bind (R.get_fen ar') =
      some (printFen (abs Gen.startpos) .xfen) :=
  C06_code_b_normalises ar ar' 0 Gen.startpos _ st startA_hyps.1 (absBoard_ge _) startA_hyps.2.1 startA_hyps.2.2.1
    (fun _ => startA_outermost)

end Rawr

#print axioms Rawr.C06_code_a_prints
#print axioms Rawr.C06_code_a_roundtrip_exact
#print axioms Rawr.C06_code_a_domain
#print axioms Rawr.C06_code_a_abs
#print axioms Rawr.C06_code_a_roundtrip
#print axioms Rawr.C06_code_b_canonical
#print axioms Rawr.C06_code_b_normalises
#print axioms Rawr.C06_code_b_parse_print
