import Rawr.Props.C19
import Rawr.Model.Fen
/-! C19, kernel-evaluated example added with the fourteenth mutant round (k1): the clause "play ANY legal capture" is not
idle for under-promotions. In `r7/1Pk5/5n2/8/6Q1/8/8/7K w - - 0 1` the knight promotion b7xa8=N gives check — Black may
only stand pat or answer the check, so the queen on g4 survives — while after b7xa8=Q Black plays Nf6xg4. The exact value of
the capture tree is that of the KNIGHT promotion; a quiescence search that looks at queen promotions only is not exact here.
(The differential leg constructs such positions in every run: `underpromo_check_fens` in tools/props_search.py.) -/
namespace Rawr
namespace C19Ex

/-- `r7/1Pk5/5n2/8/6Q1/8/8/7K w - - 0 1` (boards relative to the side to move, as printed by the model's `set_fen`). -/
def upc : Position :=
  { c0 := 562951027163264#64, c1 := 73218678316859392#64,
    p0 := 562949953421312#64, p1 := 35184372088832#64, p2 := 0#64,
    p3 := 72057594037927936#64, p4 := 1073741824#64, p5 := 1125899906842752#64,
    halfmoves := 0, fullmoves := 1, black := false, ep := none,
    usK := false, usQ := false, themK := false, themQ := false,
    cf0 := 7, cf1 := 0, cf2 := 7, cf3 := 0, hash := 8291968485078949747#64, frc := false }

/-- the position is the one the FEN parser of the model returns. -/
theorem upc_is_fen : setFen .wrap false "r7/1Pk5/5n2/8/6Q1/8/8/7K w - - 0 1".toList = some upc := by decide +kernel

/-- the legal captures: the four promotions b7xa8 (queen, rook, bishop, knight in generation order may differ) and nothing else
of value is asserted here — only that the knight promotion is among them. -/
theorem upc_knight_promo_is_capture : (⟨49, 56, 1⟩ : Mv) ∈ legalCaptures upc := by decide +kernel

theorem upc_eval : eval upc < 578 := by decide +kernel

/-- seen from the root: queen promotion 578, knight promotion 881. -/
theorem upc_queen_promo_value : qcv (qminimax 6) upc ⟨49, 56, 4⟩ = some 578 := by decide +kernel
theorem upc_knight_promo_value : qcv (qminimax 6) upc ⟨49, 56, 1⟩ = some 881 := by decide +kernel

/-- the exact value of the capture tree is the knight promotion's. -/
theorem upc_qminimax : qminimax 7 upc = some 881 := by decide +kernel

/-- and the model of `qsearch` (hence, through `agree_qsearch` and the correspondence, the engine) returns it with the full
window — by `C19_full_window`, not by evaluation. -/
example : ∀ r st', qsearch 64 upc ⟨0, 0⟩ (-Gen.INF_QS) Gen.INF_QS 0 = some (r, st') → r = 881 := by
  intro r st' h
  exact C19_full_window 64 upc ⟨0, 0⟩ 0 r st' h 7 881 upc_qminimax (by decide)

end C19Ex
end Rawr

#print axioms Rawr.C19Ex.upc_qminimax
#print axioms Rawr.C19Ex.upc_knight_promo_value
