import Rawr.Props.C09
import Rawr.Proofs.RustTextAgree_Rules
/-!
# C09 on the regenerated code: `R.to_uci` (move notation) and its round trip through `R.moves`

`Rawr.R.to_uci m p` (uci/mv.rs `Mv::to_uci`, with `Square::fmt` = `R.square_fmt`) and `Rawr.R.moves` (uci/moves.rs)
are regenerated from the Rust source on every run.  `R.to_uci` returns `Option (List Char)`: `none` = the panic of
`Square::fmt` on a square ≥ 64; `agree_to_uci_rules`: for a valid position and a move of `legal_moves` it is
`some (toUciChars p m)` — `ValidPos p`, `m ∈ legalMoves p` are exactly the hypotheses every C09 theorem has, so these
are exact transfers.  Equality of printed strings is stated as equality of the `Option`s returned by `R.to_uci`.

Round trip: `C09_roundtrip` is about one token (`applyToken`).  On the code it is stated for `R.moves` applied to the
one-token stream `[u]`, `u` the string the regenerated `to_uci` printed; `agree_moves_ix` is instantiated with the
invariant "one token left ⇒ `ValidPos`", so no hypothesis beyond those of `C09_roundtrip` is needed (`agree_moves_rules`
would ask for `EpConsistent` and counter room, which a single token does not need).  The Rust history vector grows
at the end (`hist ++ [key]`), the model's list at the front.
-/
namespace Rawr
open Rawr.Position Rawr.Spec Rawr.ZH

/-! ## format -/

/-- the regenerated `Square::fmt` appends file letter and rank digit (and panics off the board). -/
theorem C09_code_sqName (s : Fin 64) (acc : List Char) :
    R.square_fmt s.val acc = some (acc ++
      [['a','b','c','d','e','f','g','h'].getD (s.val % 8) ' ', ['1','2','3','4','5','6','7','8'].getD (s.val / 8) ' ']) := by
  rw [agree_square_fmt, if_pos s.isLt, C09_sqName]

/-- **C09 format on the code**: the regenerated `to_uci` of a generated move of a valid position does not panic and
prints source square, printed destination `uciDst p m`, promotion letter (absolute squares). -/
theorem C09_code_format (p : Position) (hV : ValidPos p = true) (m : Mv) (hm : m ∈ R.legal_moves p) :
    R.to_uci m p =
      some (sqName (absSq (R.get_turn p) m.src) ++ sqName (absSq (R.get_turn p) (uciDst p m)) ++ promoChars m.promo) := by
  rw [agree_legal_moves] at hm
  rw [agree_to_uci_rules p hV m hm, C09_format p hV m hm]; rfl

/-- the squares are on the board and the promotion letter is one of none, n, b, r, q. -/
theorem C09_code_ranges (p : Position) (hV : ValidPos p = true) (m : Mv) (hm : m ∈ R.legal_moves p) :
    m.src < 64 ∧ m.dst < 64 ∧ uciDst p m < 64 ∧ (m.promo = 6 ∨ m.promo = 1 ∨ m.promo = 2 ∨ m.promo = 3 ∨ m.promo = 4) := by
  rw [agree_legal_moves] at hm; exact C09_ranges p hV m hm

/-- the generated moves whose destination holds an own piece are exactly the encodings of castling with a present right. -/
theorem C09_code_castle_iff (p : Position) (hV : ValidPos p = true) (m : Mv) (hm : m ∈ R.legal_moves p) :
    (R.get_us p).isSet m.dst = true ↔
      ((p.usK = true ∧ m = encodeMove p (.castle true)) ∨ (p.usQ = true ∧ m = encodeMove p (.castle false))) := by
  rw [agree_legal_moves] at hm; rw [agree_get_us]; exact C09_castle_iff p hV m hm

/-! ## injectivity -/

/-- with `UCI_Chess960` on, two generated moves the regenerated `to_uci` prints alike are equal. -/
theorem C09_code_injective_frc (p : Position) (hV : ValidPos p = true) (hf : p.frc = true) (m₁ m₂ : Mv)
    (hm₁ : m₁ ∈ R.legal_moves p) (hm₂ : m₂ ∈ R.legal_moves p) (h : R.to_uci m₁ p = R.to_uci m₂ p) : m₁ = m₂ := by
  rw [agree_legal_moves] at hm₁ hm₂
  rw [agree_to_uci_rules p hV m₁ hm₁, agree_to_uci_rules p hV m₂ hm₂] at h
  exact C09_injective_frc p hV hf m₁ m₂ hm₁ hm₂ (Option.some.inj h)

/-- with `UCI_Chess960` off and the standard castling geometry (king e1, rooks a1/h1 for the present rights). -/
theorem C09_code_injective_std (p : Position) (hV : ValidPos p = true) (hf : p.frc = false)
    (hS : StandardGeometry p) (m₁ m₂ : Mv)
    (hm₁ : m₁ ∈ R.legal_moves p) (hm₂ : m₂ ∈ R.legal_moves p) (h : R.to_uci m₁ p = R.to_uci m₂ p) : m₁ = m₂ := by
  rw [agree_legal_moves] at hm₁ hm₂
  rw [agree_to_uci_rules p hV m₁ hm₁, agree_to_uci_rules p hV m₂ hm₂] at h
  exact C09_injective_std p hV hf hS m₁ m₂ hm₁ hm₂ (Option.some.inj h)

theorem C09_code_injective (p : Position) (hV : ValidPos p = true) (hg : p.frc = true ∨ StandardGeometry p)
    (m₁ m₂ : Mv) (hm₁ : m₁ ∈ R.legal_moves p) (hm₂ : m₂ ∈ R.legal_moves p)
    (h : R.to_uci m₁ p = R.to_uci m₂ p) : m₁ = m₂ := by
  rw [agree_legal_moves] at hm₁ hm₂
  rw [agree_to_uci_rules p hV m₁ hm₁, agree_to_uci_rules p hV m₂ hm₂] at h
  exact C09_injective p hV hg m₁ m₂ hm₁ hm₂ (Option.some.inj h)

/-- the geometry hypothesis cannot be dropped (`c09Clash`: Kf1, Rh1, `UCI_Chess960` off): castling and the king step
f1g1 are both generated and the regenerated `to_uci` prints both as "f1g1". -/
theorem C09_code_clash : ValidPos c09Clash = true ∧ (⟨5, 7, 6⟩ : Mv) ∈ R.legal_moves c09Clash ∧
    (⟨5, 6, 6⟩ : Mv) ∈ R.legal_moves c09Clash ∧ R.to_uci ⟨5, 7, 6⟩ c09Clash = R.to_uci ⟨5, 6, 6⟩ c09Clash := by
  decide +kernel

/-! ## round trip through the regenerated move parser -/

/-- **C09 round trip on the code**: feeding the string the regenerated `to_uci` prints for a generated move `m` to the
regenerated `moves` selects `m`: the result is the position the regenerated `makemove::<true>` produces, its key
pushed on the history, no output line, the stream consumed. -/
theorem C09_code_roundtrip (p : Position) (hV : ValidPos p = true) (hg : p.frc = true ∨ StandardGeometry p)
    (hist : List BB) (m : Mv) (hm : m ∈ R.legal_moves p) (u : List Char) (hu : R.to_uci m p = some u) :
    R.moves [u] p hist = (R.makemove p m true).map fun q => ([], q, hist ++ [q.hash], []) := by
  rw [agree_legal_moves] at hm
  rw [agree_to_uci_rules p hV m hm] at hu
  cases hu
  rw [agree_makemove]
  have hag := agree_moves_ix (fun n q => n = 0 ∨ (n = 1 ∧ ValidPos q = true))
    (fun n q h => by
      rcases h with h | ⟨_, h⟩
      · omega
      · exact movesOnBoard_of_valid h)
    (fun n q h => by
      rcases h with h | ⟨h, _⟩
      · omega
      · exact Or.inl (by omega))
    (fun n q _ _ h _ _ => by
      rcases h with h | ⟨h, _⟩
      · omega
      · exact Or.inl (by omega))
    [toUciChars p m] p hist (Or.inr ⟨rfl, hV⟩)
  rw [hag]
  unfold applyTokens
  rw [C09_roundtrip p hV hg hist.reverse m hm]
  cases p.makemove m true with
  | none => rfl
  | some q => simp [applyTokens]

/-! ## non-vacuity -/

example : ValidPos c09Promo = true ∧ (⟨49, 56, 4⟩ : Mv) ∈ R.legal_moves c09Promo ∧
    R.to_uci ⟨49, 56, 4⟩ c09Promo = some "b7a8q".toList ∧ R.to_uci ⟨49, 57, 1⟩ c09Promo = some "b7b8n".toList := by
  decide +kernel

/-- the round trip instantiated: "e1g1" fed back to the regenerated `moves` castles king-side (standard geometry) … -/
example (hist : List BB) : R.moves ["e1g1".toList] c09Std hist
    = (R.makemove c09Std ⟨4, 7, 6⟩ true).map (fun q => ([], q, hist ++ [q.hash], [])) :=
  C09_code_roundtrip c09Std (by decide +kernel) (Or.inr (by decide +kernel)) hist ⟨4, 7, 6⟩ (by decide +kernel) _
    (by decide +kernel)

/-- … and "b1a1" (king takes rook) with `UCI_Chess960` on. -/
example (hist : List BB) : R.moves ["b1a1".toList] c09Frc hist
    = (R.makemove c09Frc ⟨1, 0, 6⟩ true).map (fun q => ([], q, hist ++ [q.hash], [])) :=
  C09_code_roundtrip c09Frc (by decide +kernel) (Or.inl rfl) hist ⟨1, 0, 6⟩ (by decide +kernel) _ (by decide +kernel)

end Rawr

#print axioms Rawr.C09_code_sqName
#print axioms Rawr.C09_code_format
#print axioms Rawr.C09_code_ranges
#print axioms Rawr.C09_code_castle_iff
#print axioms Rawr.C09_code_injective_frc
#print axioms Rawr.C09_code_injective_std
#print axioms Rawr.C09_code_injective
#print axioms Rawr.C09_code_clash
#print axioms Rawr.C09_code_roundtrip
