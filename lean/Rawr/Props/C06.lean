import Rawr.Proofs.FenRound
import Rawr.Generated.StartPos
/-! # C06 : FEN round trips

(a) print then parse: for every position of the engine's domain (`ValidPos`), `get_fen` succeeds and
`set_fen` (both arithmetics) reads the printed string back to the same position — placement, side to move,
castling rights, the castle file of every PRESENT right, en-passant square, both counters, key and the
`frc` flag; the castle files of ABSENT rights are reset to `Position::default()`'s 7, 0, 7, 0 (`FenC.normCf`).
(b) parse then print: for every canonical X-FEN string of a valid position, parsing and printing
reproduces the string.

The attack test V.4 inside `validate` is the model's `isSqAttacked`; that it is implied by `ValidPos`
(`Spec.inCheck` on the absolute position) is C08d — here it is the hypothesis `hchk`; it is discharged in
`Rawr/Props/C07_full.lean` (`C06a_complete`, `C06b_complete`, `C06a_domain`). -/
namespace Rawr
open Position Spec FenC

/-! ## (a) print ∘ parse -/

/-- `get_fen` never panics on a valid position, and prints the canonical X-FEN of the absolute position. -/
theorem C06a_prints (p : Position) (hV : ValidPos p = true) :
    getFen p = some (printFen (abs p) .xfen) := getFen_eq_printFen p hV

theorem C06a_prints_ne_none (p : Position) (hV : ValidPos p = true) : getFen p ≠ none := by
  rw [C06a_prints p hV]; exact Option.some_ne_none _

/-- **C06(a)**, exact form: the printed FEN parses back (both arithmetics, with the position's own `frc`
flag) to `p` with the castle files of absent rights reset to the defaults. -/
theorem C06a_roundtrip_exact (ar : Arith) (p : Position) (hV : ValidPos p = true)
    (hchk : p.isSqAttacked (lsb (p.c1 &&& p.p5)) false = false) (s : List Char) (hs : getFen p = some s) :
    setFen ar p.frc s = some (normCf p) := roundtrip p hV hchk ar s hs

/-- **C06(a)**, field by field. -/
theorem C06a_roundtrip (ar : Arith) (p : Position) (hV : ValidPos p = true)
    (hchk : p.isSqAttacked (lsb (p.c1 &&& p.p5)) false = false) (s : List Char) (hs : getFen p = some s) :
    ∃ p', setFen ar p.frc s = some p' ∧
      -- placement
      p'.c0 = p.c0 ∧ p'.c1 = p.c1 ∧ p'.p0 = p.p0 ∧ p'.p1 = p.p1 ∧ p'.p2 = p.p2 ∧ p'.p3 = p.p3 ∧
      p'.p4 = p.p4 ∧ p'.p5 = p.p5 ∧
      -- side to move, en-passant square
      p'.black = p.black ∧ p'.ep = p.ep ∧
      -- castling rights, and which rook each PRESENT right refers to
      p'.usK = p.usK ∧ p'.usQ = p.usQ ∧ p'.themK = p.themK ∧ p'.themQ = p.themQ ∧
      (p.usK = true → p'.cf0 = p.cf0) ∧ (p.usQ = true → p'.cf1 = p.cf1) ∧
      (p.themK = true → p'.cf2 = p.cf2) ∧ (p.themQ = true → p'.cf3 = p.cf3) ∧
      -- the castle files of ABSENT rights are reset to the defaults of `Position::default()`
      (p.usK = false → p'.cf0 = 7) ∧ (p.usQ = false → p'.cf1 = 0) ∧
      (p.themK = false → p'.cf2 = 7) ∧ (p.themQ = false → p'.cf3 = 0) ∧
      -- counters, key, flag
      p'.halfmoves = p.halfmoves ∧ p'.fullmoves = p.fullmoves ∧ p'.hash = p.hash ∧ p'.frc = p.frc := by
  refine ⟨normCf p, roundtrip p hV hchk ar s hs, rfl, rfl, rfl, rfl, rfl, rfl, rfl, rfl, rfl, rfl, rfl, rfl, rfl, rfl,
    ?_, ?_, ?_, ?_, ?_, ?_, ?_, ?_, rfl, rfl, rfl, rfl⟩ <;> intro h <;> simp [normCf, h]

/-- the abstraction is restored exactly: same absolute position (rights with their files included). -/
theorem C06a_abs (ar : Arith) (p : Position) (hV : ValidPos p = true)
    (hchk : p.isSqAttacked (lsb (p.c1 &&& p.p5)) false = false) (s : List Char) (hs : getFen p = some s) :
    ∃ p', setFen ar p.frc s = some p' ∧ abs p' = abs p ∧ p'.hash = p.hash := by
  refine ⟨normCf p, roundtrip p hV hchk ar s hs, ?_, rfl⟩
  apply FenRel.APos.ext'
  · rfl
  · rfl
  · show (if p.black then _ else _) = (if p.black then _ else _)
    cases p.black <;> cases h1 : p.usK <;> cases h2 : p.themK <;> simp [normCf, h1, h2]
  · show (if p.black then _ else _) = (if p.black then _ else _)
    cases p.black <;> cases h1 : p.usQ <;> cases h2 : p.themQ <;> simp [normCf, h1, h2]
  · show (if p.black then _ else _) = (if p.black then _ else _)
    cases p.black <;> cases h1 : p.usK <;> cases h2 : p.themK <;> simp [normCf, h1, h2]
  · show (if p.black then _ else _) = (if p.black then _ else _)
    cases p.black <;> cases h1 : p.usQ <;> cases h2 : p.themQ <;> simp [normCf, h1, h2]
  · rfl
  · rfl
  · rfl

/-! ## (b) parse ∘ print -/

/-- **C06(b)**: the engine prints the canonical X-FEN of (the engine representation of) a valid position. -/
theorem C06b_canonical (a : APos) (frc : Bool) (hV : Valid a = true) (hb : ∀ s, 64 ≤ s → a.board s = none)
    (hh : a.half < 2147483648) (hf : a.full < 2147483648) :
    getFen (rel a frc) = some (printFen a .xfen) := getFen_rel a frc hV hb hh hf

/-- **C06(b)**: for every canonical X-FEN string of a valid position, parsing and printing reproduces it. -/
theorem C06b_parse_print (ar : Arith) (a : APos) (frc : Bool) (hV : Valid a = true)
    (hb : ∀ s, 64 ≤ s → a.board s = none) (hh : a.half < 2147483648) (hf : a.full < 2147483648)
    (hchk : (rel a frc).isSqAttacked (lsb ((rel a frc).c1 &&& (rel a frc).p5)) false = false) :
    (setFen ar frc (printFen a .xfen)).bind getFen = some (printFen a .xfen) := by
  rw [setFen_printFen a frc ar .xfen hV hb hh hf (fun h => by cases h) hchk, Option.bind_some]
  exact getFen_rel a frc hV hb hh hf

/-- the same for the other two spellings of the castling field: they are read to the same position and
printed canonically (file letters become `KQkq` where the rook is the outermost, and vice versa). -/
theorem C06b_normalises (ar : Arith) (a : APos) (frc : Bool) (st : CastleStyle) (hV : Valid a = true)
    (hb : ∀ s, 64 ≤ s → a.board s = none) (hh : a.half < 2147483648) (hf : a.full < 2147483648)
    (hst : st = .kqkq → AllOutermost a)
    (hchk : (rel a frc).isSqAttacked (lsb ((rel a frc).c1 &&& (rel a frc).p5)) false = false) :
    (setFen ar frc (printFen a st)).bind getFen = some (printFen a .xfen) := by
  rw [setFen_printFen a frc ar st hV hb hh hf hst hchk, Option.bind_some]
  exact getFen_rel a frc hV hb hh hf

/-! ## the full statements (without the C08d bridge hypothesis) -/

/-- the bridge supplied by C08d: on the domain, the model's attack test says the side not to move is not
in check. -/
def C08d_bridge : Prop :=
  ∀ p : Position, ValidPos p = true → p.isSqAttacked (lsb (p.c1 &&& p.p5)) false = false

def C06a_full : Prop :=
  ∀ (ar : Arith) (p : Position), ValidPos p = true → ∀ s, getFen p = some s →
    setFen ar p.frc s = some (normCf p)

def C06b_full : Prop :=
  ∀ (ar : Arith) (a : APos) (frc : Bool), Valid a = true → (∀ s, 64 ≤ s → a.board s = none) →
    a.half < 2147483648 → a.full < 2147483648 →
    (setFen ar frc (printFen a .xfen)).bind getFen = some (printFen a .xfen)

theorem C06a_full_of (H : C08d_bridge) : C06a_full :=
  fun ar p hV s hs => roundtrip p hV (H p hV) ar s hs

theorem C06b_full_of (H : C08d_bridge) : C06b_full :=
  fun ar a frc hV hb hh hf =>
    C06b_parse_print ar a frc hV hb hh hf (H _ (validPos_rel a frc hV hb hh hf))

/-! ## non-vacuity -/

example : ValidPos Gen.startpos = true ∧
    Gen.startpos.isSqAttacked (lsb (Gen.startpos.c1 &&& Gen.startpos.p5)) false = false := by
  decide +kernel

/-- the theorems applied: the start position is printed and read back (checked build), field by field. -/
example : ∃ s, getFen Gen.startpos = some s ∧ setFen .trap Gen.startpos.frc s = some (normCf Gen.startpos) :=
  ⟨_, C06a_prints _ (by decide +kernel),
    C06a_roundtrip_exact .trap _ (by decide +kernel) (by decide +kernel) _ (C06a_prints _ (by decide +kernel))⟩

/-- a Chess960 position, Black to move, en-passant square set, an inner-rook right (`C`) and partial
rights: it is in the domain, not in check, printed with the file letter … -/
def exInnerFen : List Char := "1r2k2r/8/8/8/4P3/8/8/R1R1K3 b Ck e3 5 17".toList

example : ((setFen .wrap true exInnerFen).map fun p =>
    (ValidPos p, p.black, p.isSqAttacked (lsb (p.c1 &&& p.p5)) false, getFen p)) =
    some (true, true, false, some exInnerFen) := by decide +kernel

/-- … and read back to itself (here by the checked build). -/
example : ((setFen .wrap true exInnerFen).bind fun p => (getFen p).bind fun s =>
    (setFen .trap true s).map fun q => q == p) = some true := by decide +kernel

/-- a position whose absent right carries a non-default castle file: the round trip resets exactly that. -/
example : normCf { Gen.startpos with usK := false, cf0 := 3 } = { Gen.startpos with usK := false } := by
  decide

#print axioms C06a_prints
#print axioms C06a_roundtrip_exact
#print axioms C06a_roundtrip
#print axioms C06a_abs
#print axioms C06b_canonical
#print axioms C06b_parse_print
#print axioms C06b_normalises
#print axioms C06a_full_of
#print axioms C06b_full_of
end Rawr
