import Rawr.Props.C14
/-! Heavier non-vacuity instance for C03 / C14 (kernel evaluation): the three-ply domain of K+P v K. -/
namespace Rawr
namespace C14Ex
open C13Ex

/-- every position a three-ply search of K+P v K can visit evaluates within `±EB`. -/
theorem kpk_dom3 : sDomB 3 kpk = true := by decide +kernel

end C14Ex
end Rawr
