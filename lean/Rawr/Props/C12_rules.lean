import Rawr.Proofs.RulesLevel
/-! # C12 in terms of the rules of chess

"Mate in one is found" (`C12_partial`, `Props/C12.lean`) with the hypotheses on the search tree discharged for
every root of the domain `V ∧ E` (`ValidPos p`, `Spec.EpConsistent (abs p)`):

* the evaluation clause of `TreeOk` (`QEvalOk B`) holds with `B = EB = 174416` (C17, `treeOk_of_keysOk` in
  `Proofs/RulesLevel.lean`); `0 ≤ EB`, `EB + 300 ≤ MATE_SCORE - 2`;
* the clock of the mated children is below 100 because the root's is below 99 (`C12_mated_child_clock`, through
  `C02_counters`);
* the half-move counter room is implied by `p.halfmoves < 99` and `fuel + 1 < MATE_SCORE`.

What is left, and cannot be removed:
* **the mating move** (`∃ m ∈ legalMoves p, IsMating p m`; by the rules: `C12_mating_of_rules`);
* **no 64-bit key collision** (`MateKeysOk Kp Ks fuel p`: `KeysOk` below the non-mated children, the root's key is
  in `Kp` and not in `Ks`, the mated children's keys are in `Ks`). A collision between the root and a node below
  would let that node read the root's entry (score `MATE_SCORE - 1`, outside the range the proof maintains); a
  collision between a mated child and a node that stores would make the mated child hit the table in a later
  iteration — `C12_any_table_false` (`Props/C12Examples.lean`) is the concrete witness for such an entry;
* **the mated children are not repetitions** w.r.t. the game history (no checkmated position of a legal game is;
  the history is an arbitrary list here);
* **the table** satisfies `TTInv Kp Ks` (`C12_rules`), or has sane scores and nothing stored under a mated child's
  key (`C12_rules_sane_table`), or is all-default and no mated child has key `0` (`C12_rules_empty_table`: an
  empty slot carries key 0, so a mated child with key 0 would *hit* it and answer the stored score 0);
* the move-number counter room `p.fullmoves + (fuel + 2) + 64 < 2^31` and `fuel + 1 < MATE_SCORE`. -/
namespace Rawr
open Position Spec ZH MM SV Br Att DM RulesLevel

/-- **no key collision** for C12: `Kp` holds of the root's key, `Ks` of the keys of the mated children and not of
the root's; below every non-mated child, as far as `fuel + 1` reaches (null-move children included where the search
may try one), no node has a key in `Kp` and no node with a legal move has a key in `Ks`. (`MateInOneTree` of
`Props/C12.lean` without the clock, repetition and evaluation clauses.) -/
structure MateKeysOk (Kp Ks : BB → Prop) (fuel : Nat) (p : Position) : Prop where
  rootKp : Kp p.hash
  rootKs : ¬ Ks p.hash
  matedKs : ∀ m ∈ legalMoves p, ∀ c, p.makemove m true = some c → Mated c → Ks c.hash
  tree : ∀ m ∈ legalMoves p, ∀ c, p.makemove m true = some c → ¬ Mated c → KeysOk Kp Ks (fuel + 1) c

/-- `TreeOk` from `KeysOk` on the domain, restated here: the evaluation clause is C17's. -/
theorem TreeOk_of_KeysOk (Kp Ks : BB → Prop) (f : Nat) (q : Position)
    (hV : ValidPos q = true) (hE : Spec.EpConsistent (abs q) = true)
    (hh : q.halfmoves + f + 64 < 2147483648) (hfm : q.fullmoves + f + 64 < 2147483648)
    (hk : KeysOk Kp Ks f q) : TreeOk Kp Ks EB f q :=
  treeOk_of_keysOk Kp Ks f q ⟨hV, hE, hh, hfm⟩ hk

/-- the clock of a child of a root with clock below 99 is below 100 (derived from the model's `makemove`). -/
theorem C12_mated_child_clock (p : Position) (hV : ValidPos p = true) (hE : Spec.EpConsistent (abs p) = true)
    (h50 : p.halfmoves < 99) (m : Mv) (hm : m ∈ legalMoves p) (c : Position) (hmk : p.makemove m true = some c) :
    c.halfmoves < 100 := by
  have := (child_clock hV hE hm hmk).2
  omega

/-- the hypotheses of `C12_partial` from those of `C12_rules`. -/
theorem mateInOneTree_rules (fuel : Nat) (hfuel : (fuel : Int) + 1 < Gen.MATE_SCORE) (p : Position)
    (hV : ValidPos p = true) (hE : Spec.EpConsistent (abs p) = true) (h50 : p.halfmoves < 99)
    (hfm : p.fullmoves + (fuel + 2) + 64 < 2147483648)
    (hmate : ∃ m ∈ legalMoves p, IsMating p m) (hist : List BB) (Kp Ks : BB → Prop)
    (hkeys : MateKeysOk Kp Ks fuel p)
    (hrep : ∀ m ∈ legalMoves p, ∀ c, p.makemove m true = some c → Mated c → ¬ OccurredBefore hist c) :
    MateInOneTree EB fuel p hist Kp Ks := by
  have hM : Gen.MATE_SCORE = 1000000 := rfl
  have h0 : 0 ≤ p.halfmoves := ((valid_iff _).mp (valid_unpack hV).2.1).half
  have hVE : VE (fuel + 1 + 1) p := ⟨hV, hE, by omega, by omega⟩
  refine ⟨hmate, fun m hm c hmk hmt => ?_, hkeys.rootKp, hkeys.rootKs, fun m hm c hmk hnm => ?_⟩
  · exact ⟨C12_mated_child_clock p hV hE h50 m hm c hmk, (rep_lt_two_iff hist c).2 (hrep m hm c hmk hmt),
      hkeys.matedKs m hm c hmk hmt⟩
  · exact treeOk_of_keysOk Kp Ks (fuel + 1) c (child_VE hVE hm hmk) (hkeys.tree m hm c hmk hnm)

/-- **C12 by the rules.** `go depth D`, `D ≥ 1`, on a root of `V ∧ E` with clock below 99 that has a mating move,
any history in which the mated children have not occurred, no key collision (`MateKeysOk`), a table satisfying
`TTInv Kp Ks`: if the driver returns, the best move is a legal move that checkmates, and every info record — the
last one in particular — carries the mate-in-one score `MATE_SCORE - 1` and a principal variation consisting of a
mating move. -/
theorem C12_rules (D : Int) (hD1 : 1 ≤ D) (fuel : Nat) (hfuel : (fuel : Int) + 1 < Gen.MATE_SCORE)
    (p : Position) (hV : ValidPos p = true) (hE : Spec.EpConsistent (abs p) = true) (h50 : p.halfmoves < 99)
    (hfm : p.fullmoves + (fuel + 2) + 64 < 2147483648)
    (hmate : ∃ m ∈ legalMoves p, IsMating p m)
    (hist : List BB) (tt : Table TTEntry) (Kp Ks : BB → Prop)
    (hkeys : MateKeysOk Kp Ks fuel p)
    (hrep : ∀ m ∈ legalMoves p, ∀ c, p.makemove m true = some c → Mated c → ¬ OccurredBefore hist c)
    (hT : TTInv Kp Ks tt) (res : RootResult)
    (h : root (.depth D) (fuel + 2) p hist tt = some res) :
    (∃ m ∈ legalMoves p, IsMating p m ∧ res.best = some m) ∧
      res.infos.getLast?.map (·.score) = some (Gen.MATE_SCORE - 1) ∧
      ∀ r ∈ res.infos, r.score = Gen.MATE_SCORE - 1 ∧ ∃ m ∈ legalMoves p, IsMating p m ∧ r.pv = [m] :=
  C12_partial D hD1 fuel p hist tt Kp Ks EB EB_nonneg EB_mate hfuel
    (mateInOneTree_rules fuel hfuel p hV hE h50 hfm hmate hist Kp Ks hkeys hrep) hT res h

/-- the same over a table with sane scores (`|score| ≤ MATE_SCORE - 2`) and no entry under a key in `Ks`. -/
theorem C12_rules_sane_table (D : Int) (hD1 : 1 ≤ D) (fuel : Nat) (hfuel : (fuel : Int) + 1 < Gen.MATE_SCORE)
    (p : Position) (hV : ValidPos p = true) (hE : Spec.EpConsistent (abs p) = true) (h50 : p.halfmoves < 99)
    (hfm : p.fullmoves + (fuel + 2) + 64 < 2147483648)
    (hmate : ∃ m ∈ legalMoves p, IsMating p m)
    (hist : List BB) (tt : Table TTEntry) (Kp Ks : BB → Prop)
    (hkeys : MateKeysOk Kp Ks fuel p)
    (hrep : ∀ m ∈ legalMoves p, ∀ c, p.makemove m true = some c → Mated c → ¬ OccurredBefore hist c)
    (hsane : DM.TTSane tt) (hnone : ∀ key e, tt.poll key = some e → ¬ Ks e.hash) (res : RootResult)
    (h : root (.depth D) (fuel + 2) p hist tt = some res) :
    (∃ m ∈ legalMoves p, IsMating p m ∧ res.best = some m) ∧
      res.infos.getLast?.map (·.score) = some (Gen.MATE_SCORE - 1) ∧
      ∀ r ∈ res.infos, r.score = Gen.MATE_SCORE - 1 ∧ ∃ m ∈ legalMoves p, IsMating p m ∧ r.pv = [m] :=
  C12_rules D hD1 fuel hfuel p hV hE h50 hfm hmate hist tt Kp Ks hkeys hrep (TTInv_of_sane hsane hnone) res h

/-- the same over an all-default table of any size (`n = 0` included: a zero-slot table answers the default entry):
the table hypothesis reduces to "no mated child has key 0" (`¬ Ks 0`). -/
theorem C12_rules_empty_table (D : Int) (hD1 : 1 ≤ D) (fuel : Nat) (hfuel : (fuel : Int) + 1 < Gen.MATE_SCORE)
    (p : Position) (hV : ValidPos p = true) (hE : Spec.EpConsistent (abs p) = true) (h50 : p.halfmoves < 99)
    (hfm : p.fullmoves + (fuel + 2) + 64 < 2147483648)
    (hmate : ∃ m ∈ legalMoves p, IsMating p m)
    (hist : List BB) (n : Nat) (Kp Ks : BB → Prop)
    (hkeys : MateKeysOk Kp Ks fuel p) (hK0 : ¬ Ks 0#64)
    (hrep : ∀ m ∈ legalMoves p, ∀ c, p.makemove m true = some c → Mated c → ¬ OccurredBefore hist c)
    (res : RootResult)
    (h : root (.depth D) (fuel + 2) p hist ⟨Array.replicate n default⟩ = some res) :
    (∃ m ∈ legalMoves p, IsMating p m ∧ res.best = some m) ∧
      res.infos.getLast?.map (·.score) = some (Gen.MATE_SCORE - 1) ∧
      ∀ r ∈ res.infos, r.score = Gen.MATE_SCORE - 1 ∧ ∃ m ∈ legalMoves p, IsMating p m ∧ r.pv = [m] :=
  C12_rules D hD1 fuel hfuel p hV hE h50 hfm hmate hist _ Kp Ks hkeys hrep (ttInv_replicate Kp Ks n hK0) res h

/-! ## the canonical key predicates -/

/-- `k` is the key of a mated child of `p`. -/
def MatedKey (p : Position) (k : BB) : Prop :=
  ∃ m ∈ legalMoves p, ∃ c, p.makemove m true = some c ∧ Mated c ∧ c.hash = k

/-- `C12_rules_empty_table` with `Kp` = "the root's key", `Ks` = "the key of a mated child": the collision
hypotheses read
* no mated child has the root's key, or key 0;
* below every non-mated child, as far as `fuel + 1` reaches, no node has the root's key, and no node that has a
  legal move has the key of a mated child of the root. -/
theorem C12_rules_empty_table' (D : Int) (hD1 : 1 ≤ D) (fuel : Nat) (hfuel : (fuel : Int) + 1 < Gen.MATE_SCORE)
    (p : Position) (hV : ValidPos p = true) (hE : Spec.EpConsistent (abs p) = true) (h50 : p.halfmoves < 99)
    (hfm : p.fullmoves + (fuel + 2) + 64 < 2147483648)
    (hmate : ∃ m ∈ legalMoves p, IsMating p m)
    (hist : List BB) (n : Nat)
    (hmk : ∀ m ∈ legalMoves p, ∀ c, p.makemove m true = some c → Mated c → c.hash ≠ p.hash ∧ c.hash ≠ 0#64)
    (htree : ∀ m ∈ legalMoves p, ∀ c, p.makemove m true = some c → ¬ Mated c →
      KeysOk (· = p.hash) (MatedKey p) (fuel + 1) c)
    (hrep : ∀ m ∈ legalMoves p, ∀ c, p.makemove m true = some c → Mated c → ¬ OccurredBefore hist c)
    (res : RootResult)
    (h : root (.depth D) (fuel + 2) p hist ⟨Array.replicate n default⟩ = some res) :
    (∃ m ∈ legalMoves p, IsMating p m ∧ res.best = some m) ∧
      res.infos.getLast?.map (·.score) = some (Gen.MATE_SCORE - 1) ∧
      ∀ r ∈ res.infos, r.score = Gen.MATE_SCORE - 1 ∧ ∃ m ∈ legalMoves p, IsMating p m ∧ r.pv = [m] :=
  C12_rules_empty_table D hD1 fuel hfuel p hV hE h50 hfm hmate hist n (· = p.hash) (MatedKey p)
    ⟨rfl, fun ⟨m, hm, c, hc, hmt, e⟩ => (hmk m hm c hc hmt).1 e,
      fun m hm c hc hmt => ⟨m, hm, c, hc, hmt, rfl⟩, htree⟩
    (fun ⟨m, hm, c, hc, hmt, e⟩ => (hmk m hm c hc hmt).2 e) hrep res h

/-! ## the mating move, by the rules -/

/-- checkmated by the rules: no legal move, the side to move is in check. -/
def SpecMated (a : APos) : Prop := Spec.legalMoves a = [] ∧ Spec.inCheck a.board a.whiteToMove = true

/-- the engine's "checkmated" is the rules' on `V ∧ E`. -/
theorem mated_iff_spec {c : Position} (hV : ValidPos c = true) (hE : Spec.EpConsistent (abs c) = true) :
    Mated c ↔ SpecMated (abs c) := by
  unfold Mated SpecMated
  rw [C01_no_moves c hV hE, inCheck_eq_spec hV]

/-- a move that checkmates by the rules gives the hypothesis `hmate` of `C12_rules` (counter room for one ply). -/
theorem C12_mating_of_rules (p : Position) (hV : ValidPos p = true) (hE : Spec.EpConsistent (abs p) = true)
    (hh : p.halfmoves + 1 < 2147483648) (hfm : p.fullmoves + 1 < 2147483648)
    (M : Move) (hM : M ∈ Spec.legalMoves (abs p)) (hmt : SpecMated (Spec.apply (abs p) M)) :
    ∃ m ∈ legalMoves p, IsMating p m := by
  obtain ⟨hm, hdec⟩ := C01_complete p hV hE M hM
  obtain ⟨c, hmk⟩ := makemove_total_V hV hm
  obtain ⟨hVc, hEc, habs⟩ := child_V_E hV hE hh hfm hm hmk
  rw [hdec] at habs
  exact ⟨encodeMove p M, hm, c, hmk, (mated_iff_spec hVc hEc).2 (by rw [habs]; exact hmt)⟩

/-! ## decision procedure for `MateKeysOk` -/

def mateKeysOkB (kp ks : BB → Bool) (fuel : Nat) (p : Position) : Bool :=
  kp p.hash && !ks p.hash &&
  (legalMoves p).all fun m =>
    match p.makemove m true with
    | none => true
    | some c => if Mated c then ks c.hash else keysOkB kp ks (fuel + 1) c

theorem mateKeysOk_of_B {kp ks : BB → Bool} {fuel : Nat} {p : Position} (h : mateKeysOkB kp ks fuel p = true) :
    MateKeysOk (fun k => kp k = true) (fun k => ks k = true) fuel p := by
  simp only [mateKeysOkB, Bool.and_eq_true, List.all_eq_true, Bool.not_eq_true'] at h
  obtain ⟨⟨h1, h2⟩, h3⟩ := h
  refine ⟨h1, by simp [h2], fun m hm c hmk hmt => ?_, fun m hm c hmk hnm => ?_⟩
  · have := h3 m hm
    rw [hmk] at this
    simpa only [if_pos hmt] using this
  · have := h3 m hm
    rw [hmk] at this
    simp only [if_neg hnm] at this
    exact keysOk_of_B kp ks _ c this

/-! ## non-vacuity -/
namespace C12RulesEx
open C12Ex

/-- `kpm` of `Props/C12.lean` (white Kf7, pawn g6; black Kh8, pawn h7; white to move; g6-g7 mates) with the key
recomputed, so that it is in the domain V. -/
def kpmV : Position := fixHash kpm

/-- the position after g6-g7#. -/
def kpmVG7 : Position := (kpmV.makemove ⟨46, 54, 6⟩ true).getD kpmV

theorem kpmV_valid : ValidPos kpmV = true := by decide +kernel
theorem kpmV_E : Spec.EpConsistent (abs kpmV) = true := by decide +kernel

/-- key predicates: the root's key; the mated child's key. -/
def kpV : BB → Bool := fun k => k == kpmV.hash
def ksV : BB → Bool := fun k => k == kpmVG7.hash

theorem kpmV_mate : ∃ m ∈ legalMoves kpmV, IsMating kpmV m :=
  ⟨⟨46, 54, 6⟩, by decide +kernel, kpmVG7, by decide +kernel, by decide +kernel⟩

/-- no key collision in the tree that `fuel = 1` reaches below `kpmV` (two plies below the non-mated children). -/
theorem kpmV_keys : MateKeysOk (fun k => kpV k = true) (fun k => ksV k = true) 1 kpmV :=
  mateKeysOk_of_B (by decide +kernel)

/-- the hypotheses of `C12_rules_empty_table` hold on `kpmV` (`go depth 3`, empty history, three-slot table);
through the theorem: the driver's best move mates and the last record reports 999999. -/
example : ∃ res, root (.depth 3) 3 kpmV [] tt3 = some res ∧
    (∃ m ∈ legalMoves kpmV, IsMating kpmV m ∧ res.best = some m) ∧
    res.infos.getLast?.map (·.score) = some 999999 ∧ res.infos.length = 3 := by
  have h : ((root (.depth 3) 3 kpmV [] tt3).map fun r => r.infos.length) = some 3 := by decide +kernel
  obtain ⟨res, h1, hl⟩ := Option.map_eq_some_iff.1 h
  obtain ⟨h2, h3, _⟩ := C12_rules_empty_table 3 (by decide) 1 (by decide) kpmV kpmV_valid kpmV_E
    (by decide +kernel) (by decide +kernel) kpmV_mate [] 3 _ _ kpmV_keys (by decide +kernel)
    (fun _ _ _ _ _ ⟨_, _, hi⟩ => by simp at hi) res h1
  exact ⟨res, h1, h2, h3, hl⟩

/-- the mating move of `kpmV` by the rules: the pawn push g6-g7 is legal and checkmates. -/
example : ∃ M ∈ Spec.legalMoves (abs kpmV), SpecMated (Spec.apply (abs kpmV) M) := by
  obtain ⟨m, hm, c, hmk, hmt⟩ := kpmV_mate
  obtain ⟨hVc, hEc, habs⟩ := child_V_E kpmV_valid kpmV_E (by decide +kernel) (by decide +kernel) hm hmk
  refine ⟨decodeMove kpmV m, (C01_sound kpmV kpmV_valid kpmV_E m hm).1, ?_⟩
  rw [← habs]
  exact (mated_iff_spec hVc hEc).1 hmt

end C12RulesEx

end Rawr

#print axioms Rawr.TreeOk_of_KeysOk
#print axioms Rawr.C12_mated_child_clock
#print axioms Rawr.C12_rules
#print axioms Rawr.C12_rules_sane_table
#print axioms Rawr.C12_rules_empty_table
#print axioms Rawr.C12_rules_empty_table'
#print axioms Rawr.C12_mating_of_rules
