import Rawr.Proofs.FenSound2
import Rawr.Generated.StartPos
/-! # C07 : the FEN parser accepts only structurally valid positions, and all valid ones

(a) soundness, for ALL strings and BOTH arithmetics (`Arith.wrap` = optimised build: wrapping `u8`
arithmetic, masked shifts; `Arith.trap` = checked build): an accepted string yields a position
satisfying V.1–V.8 of DESIGN.md §4 (`StructurallyValid`, defined in `Rawr/Proofs/FenSound2.lean`). -/
namespace Rawr
open Position

/-! ## (a) soundness -/

/-- **C07(a).** For every input string, every value of the `frc` flag and both arithmetics: if `set_fen`
accepts, the position satisfies all structural invariants — consistent bitboards (V.1), exactly one
king per colour (V.2), no pawn on rank 1/8 (V.3), side not to move not attacked (V.4, the model's own
`isSqAttacked`; its equivalence with `Spec.attackedBy` is C08d), every castling right backed by the king
on its home rank and a rook of that colour on the recorded file `< 8`, east of the king for a king-side
right and west of it for a queen-side right (V.5), en-passant square on relative rank index 5, empty,
enemy pawn directly south of it (V.6), `0 ≤ halfmoves < 2^31`, `1 ≤ fullmoves < 2^31` (V.7), stored key =
recomputed key (V.8). -/
theorem C07a_sound (ar : Arith) (frc : Bool) (s : List Char) (p : Position) :
    setFen ar frc s = some p → StructurallyValid p := FenS.setFen_sound

/-- the ingredients, for reference: every board character toggles one colour bit and the same piece bit,
so colour parity = piece parity survives any index arithmetic … -/
theorem C07a_parity (ar : Arith) (cs : List Char) (p : Position) (idx : Nat) (q : Position) (j : Nat)
    (h : fenBoard ar cs p idx = some (q, j))
    (hp : p.c0 ^^^ p.c1 = p.p0 ^^^ p.p1 ^^^ p.p2 ^^^ p.p3 ^^^ p.p4 ^^^ p.p5) :
    q.c0 ^^^ q.c1 = q.p0 ^^^ q.p1 ^^^ q.p2 ^^^ q.p3 ^^^ q.p4 ^^^ q.p5 := FenS.fenBoard_par h hp

/-- … `validate p = Ok` is exactly the conjunction of its tests … -/
theorem C07a_validate_iff (p : Position) : p.validate = none ↔
    ((p.p0 &&& 0xFF000000000000FF#64).isOcc = false ∧ (p.white &&& p.blackBB).isOcc = false ∧
     (p.p0 &&& p.p1).isOcc = false ∧ (p.p0 &&& p.p2).isOcc = false ∧ (p.p0 &&& p.p3).isOcc = false ∧
     (p.p0 &&& p.p4).isOcc = false ∧ (p.p0 &&& p.p5).isOcc = false ∧ (p.p1 &&& p.p2).isOcc = false ∧
     (p.p1 &&& p.p3).isOcc = false ∧ (p.p1 &&& p.p4).isOcc = false ∧ (p.p1 &&& p.p5).isOcc = false ∧
     (p.p2 &&& p.p3).isOcc = false ∧ (p.p2 &&& p.p4).isOcc = false ∧ (p.p2 &&& p.p5).isOcc = false ∧
     (p.p3 &&& p.p4).isOcc = false ∧ (p.p3 &&& p.p5).isOcc = false ∧ (p.p4 &&& p.p5).isOcc = false) ∧
    valEpOk p = true ∧
    (count (p.white &&& p.p5) = 1 ∧ count (p.blackBB &&& p.p5) = 1 ∧ 0 ≤ p.halfmoves ∧ 1 ≤ p.fullmoves) ∧
    ((p.usK = true → rankOf (lsb (p.c0 &&& p.p5)) = 0) ∧ (p.usQ = true → rankOf (lsb (p.c0 &&& p.p5)) = 0) ∧
     (p.themK = true → rankOf (lsb (p.c1 &&& p.p5)) = 7) ∧ (p.themQ = true → rankOf (lsb (p.c1 &&& p.p5)) = 7) ∧
     (p.usK = true → (p.c0 &&& p.p3).isSet (fromCoords p.cf0 0) = true) ∧
     (p.usQ = true → (p.c0 &&& p.p3).isSet (fromCoords p.cf1 0) = true) ∧
     (p.themK = true → (p.c1 &&& p.p3).isSet (fromCoords p.cf2 7) = true) ∧
     (p.themQ = true → (p.c1 &&& p.p3).isSet (fromCoords p.cf3 7) = true)) ∧
    p.isSqAttacked (lsb (p.c1 &&& p.p5)) false = false := validate_none_iff p

/-- … and a castling letter is classified king-side only if its file is east of that colour's king
(a file letter on the king's own file counts as queen-side; `validate` then rejects it, because the rook
would have to stand on the king's square). -/
theorem C07a_letter (p : Position) (c : Char) (black : Bool) (file : Nat) (ks : Bool)
    (h : castleLetter p c = some (some (black, file, ks))) :
    file < 8 ∧
    (ks = true → fileOf (lsb ((if black then p.c1 else p.c0) &&& p.p5)) < file) ∧
    (ks = false → file ≤ fileOf (lsb ((if black then p.c1 else p.c0) &&& p.p5))) := FenS.castleLetter_spec h

/-! ### non-vacuity: accepted strings (kernel evaluation), among them the liberal acceptances -/

/-- the standard start FEN, both arithmetics: the built-in start position. -/
example : setFen .wrap false startFen = some Gen.startpos ∧ setFen .trap false startFen = some Gen.startpos := by
  decide +kernel
example : StructurallyValid Gen.startpos := C07a_sound .wrap false startFen _ (by decide +kernel)

/-- a Chess960 X-FEN whose queen-side right names the INNER rook (c1; another rook stands on b1). -/
example : (setFen .trap true "4k3/8/8/8/8/8/8/1RR1K3 w C - 0 1".toList).map (fun p => (p.usQ, p.cf1, p.usK)) =
    some (true, 2, false) := by decide +kernel

/-- a liberal spelling: no `/` between the ranks, `W` for the side to move — accepted, same position. -/
example : setFen .trap false "rnbqkbnrpppppppp8888PPPPPPPPRNBQKBNR W KQkq - 0 1".toList = some Gen.startpos := by
  decide +kernel

/-- a 320-square board field (the 64 squares, then 256 more empty ones: the `u8` index wraps to 64):
accepted by the optimised build, rejected (overflow trap) by the checked build. -/
def fen320 : List Char :=
  "rnbqkbnr/pppppppp/8/8/8/8/PPPPPPPP/RNBQKBNR".toList ++ List.replicate 32 '8' ++ " w KQkq - 0 1".toList
example : setFen .wrap false fen320 = some Gen.startpos ∧ setFen .trap false fen320 = none := by
  decide +kernel

/-- an en-passant alias: `aV` is read as `a6` by the optimised build (`8 * ('V' - '1') = 296 ≡ 40 mod 256`),
the checked build traps. -/
example :
    setFen .wrap false "rnbqkbnr/1ppppppp/8/p7/8/8/PPPPPPPP/RNBQKBNR w KQkq aV 0 2".toList =
      setFen .wrap false "rnbqkbnr/1ppppppp/8/p7/8/8/PPPPPPPP/RNBQKBNR w KQkq a6 0 2".toList ∧
    (setFen .wrap false "rnbqkbnr/1ppppppp/8/p7/8/8/PPPPPPPP/RNBQKBNR w KQkq aV 0 2".toList).map (·.ep) =
      some (some 40) ∧
    setFen .trap false "rnbqkbnr/1ppppppp/8/p7/8/8/PPPPPPPP/RNBQKBNR w KQkq aV 0 2".toList = none := by
  decide +kernel

/-- rejected: a file letter on the king's own file (classified queen-side, then no rook there);
full-move number 0. -/
example : setFen .wrap true "4k3/8/8/8/8/8/8/R3K3 w E - 0 1".toList = none ∧
    setFen .wrap false "4k3/8/8/8/8/8/8/4K3 w - - 0 0".toList = none := by decide +kernel

#print axioms C07a_sound
#print axioms C07a_parity
#print axioms C07a_validate_iff
#print axioms C07a_letter
end Rawr
