import Rawr.Proofs.FenSound2
import Rawr.Proofs.FenRound
import Rawr.Generated.StartPos
/-! # C07 : the FEN parser accepts only structurally valid positions, and all valid ones

(a) soundness, for ALL strings and BOTH arithmetics (`Arith.wrap` = optimised build: wrapping `u8`
arithmetic, masked shifts; `Arith.trap` = checked build): an accepted string yields a position
satisfying V.1–V.8 of DESIGN.md §4 (`StructurallyValid`, defined in `Rawr/Proofs/FenSound2.lean`).
(b) exactness and (c) completeness: for every valid absolute position `a` and each spelling of the castling
field (X-FEN, Shredder file letters, `KQkq`), `set_fen (Spec.printFen a st) = Ok (rel a)` in BOTH
arithmetics — the string is accepted, the result is the position it spells out, and `wrap`/`trap` agree.
The bridge hypothesis `hchk` (C08d) is discharged in `Rawr/Props/C07_full.lean` (`C07c_complete`). -/
namespace Rawr
open Position Spec FenC

/-! ## (a) soundness -/

/-- **C07(a).** For every input string, every value of the `frc` flag and both arithmetics: if `set_fen`
accepts, the position satisfies all structural invariants — consistent bitboards (V.1), exactly one
king per colour (V.2), no pawn on rank 1/8 (V.3), side not to move not attacked (V.4, the model's own
`isSqAttacked`; its equivalence with `Spec.attackedBy` is C08d), every castling right backed by the king
on its home rank and a rook of that colour on the recorded file `< 8`, east of the king for a king-side
right and west of it for a queen-side right (V.5), en-passant square on relative rank index 5, empty,
enemy pawn directly south of it (V.6), `0 ≤ halfmoves < 2^31`, `1 ≤ fullmoves < 2^31` (V.7), stored key =
recomputed key (V.8). -/
theorem C07a_sound (ar : Arith) (frc : Bool) (s : List Char) (p : Position) :
    setFen ar frc s = some p → StructurallyValid p := FenS.setFen_sound

/-- the ingredients, for reference: every board character toggles one colour bit and the same piece bit,
so colour parity = piece parity survives any index arithmetic … -/
theorem C07a_parity (ar : Arith) (cs : List Char) (p : Position) (idx : Nat) (q : Position) (j : Nat)
    (h : fenBoard ar cs p idx = some (q, j))
    (hp : p.c0 ^^^ p.c1 = p.p0 ^^^ p.p1 ^^^ p.p2 ^^^ p.p3 ^^^ p.p4 ^^^ p.p5) :
    q.c0 ^^^ q.c1 = q.p0 ^^^ q.p1 ^^^ q.p2 ^^^ q.p3 ^^^ q.p4 ^^^ q.p5 := FenS.fenBoard_par h hp

/-- … `validate p = Ok` is exactly the conjunction of its tests … -/
theorem C07a_validate_iff (p : Position) : p.validate = none ↔
    ((p.p0 &&& 0xFF000000000000FF#64).isOcc = false ∧ (p.white &&& p.blackBB).isOcc = false ∧
     (p.p0 &&& p.p1).isOcc = false ∧ (p.p0 &&& p.p2).isOcc = false ∧ (p.p0 &&& p.p3).isOcc = false ∧
     (p.p0 &&& p.p4).isOcc = false ∧ (p.p0 &&& p.p5).isOcc = false ∧ (p.p1 &&& p.p2).isOcc = false ∧
     (p.p1 &&& p.p3).isOcc = false ∧ (p.p1 &&& p.p4).isOcc = false ∧ (p.p1 &&& p.p5).isOcc = false ∧
     (p.p2 &&& p.p3).isOcc = false ∧ (p.p2 &&& p.p4).isOcc = false ∧ (p.p2 &&& p.p5).isOcc = false ∧
     (p.p3 &&& p.p4).isOcc = false ∧ (p.p3 &&& p.p5).isOcc = false ∧ (p.p4 &&& p.p5).isOcc = false) ∧
    valEpOk p = true ∧
    (count (p.white &&& p.p5) = 1 ∧ count (p.blackBB &&& p.p5) = 1 ∧ 0 ≤ p.halfmoves ∧ 1 ≤ p.fullmoves) ∧
    ((p.usK = true → rankOf (lsb (p.c0 &&& p.p5)) = 0) ∧ (p.usQ = true → rankOf (lsb (p.c0 &&& p.p5)) = 0) ∧
     (p.themK = true → rankOf (lsb (p.c1 &&& p.p5)) = 7) ∧ (p.themQ = true → rankOf (lsb (p.c1 &&& p.p5)) = 7) ∧
     (p.usK = true → (p.c0 &&& p.p3).isSet (fromCoords p.cf0 0) = true) ∧
     (p.usQ = true → (p.c0 &&& p.p3).isSet (fromCoords p.cf1 0) = true) ∧
     (p.themK = true → (p.c1 &&& p.p3).isSet (fromCoords p.cf2 7) = true) ∧
     (p.themQ = true → (p.c1 &&& p.p3).isSet (fromCoords p.cf3 7) = true)) ∧
    p.isSqAttacked (lsb (p.c1 &&& p.p5)) false = false := validate_none_iff p

/-- … and a castling letter is classified king-side only if its file is east of that colour's king
(a file letter on the king's own file counts as queen-side; `validate` then rejects it, because the rook
would have to stand on the king's square). -/
theorem C07a_letter (p : Position) (c : Char) (black : Bool) (file : Nat) (ks : Bool)
    (h : castleLetter p c = some (some (black, file, ks))) :
    file < 8 ∧
    (ks = true → fileOf (lsb ((if black then p.c1 else p.c0) &&& p.p5)) < file) ∧
    (ks = false → file ≤ fileOf (lsb ((if black then p.c1 else p.c0) &&& p.p5))) := FenS.castleLetter_spec h

/-! ### non-vacuity: accepted strings (kernel evaluation), among them the liberal acceptances -/

/-- the standard start FEN, both arithmetics: the built-in start position. -/
example : setFen .wrap false startFen = some Gen.startpos ∧ setFen .trap false startFen = some Gen.startpos := by
  decide +kernel
example : StructurallyValid Gen.startpos := C07a_sound .wrap false startFen _ (by decide +kernel)

/-- a Chess960 X-FEN whose queen-side right names the INNER rook (c1; another rook stands on b1). -/
example : (setFen .trap true "4k3/8/8/8/8/8/8/1RR1K3 w C - 0 1".toList).map (fun p => (p.usQ, p.cf1, p.usK)) =
    some (true, 2, false) := by decide +kernel

/-- a liberal spelling: no `/` between the ranks, `W` for the side to move — accepted, same position. -/
example : setFen .trap false "rnbqkbnrpppppppp8888PPPPPPPPRNBQKBNR W KQkq - 0 1".toList = some Gen.startpos := by
  decide +kernel

/-- a 320-square board field (the 64 squares, then 256 more empty ones: the `u8` index wraps to 64):
accepted by the optimised build, rejected (overflow trap) by the checked build. -/
def fen320 : List Char :=
  "rnbqkbnr/pppppppp/8/8/8/8/PPPPPPPP/RNBQKBNR".toList ++ List.replicate 32 '8' ++ " w KQkq - 0 1".toList
example : setFen .wrap false fen320 = some Gen.startpos ∧ setFen .trap false fen320 = none := by
  decide +kernel

/-- an en-passant alias: `aV` is read as `a6` by the optimised build (`8 * ('V' - '1') = 296 ≡ 40 mod 256`),
the checked build traps. -/
example :
    setFen .wrap false "rnbqkbnr/1ppppppp/8/p7/8/8/PPPPPPPP/RNBQKBNR w KQkq aV 0 2".toList =
      setFen .wrap false "rnbqkbnr/1ppppppp/8/p7/8/8/PPPPPPPP/RNBQKBNR w KQkq a6 0 2".toList ∧
    (setFen .wrap false "rnbqkbnr/1ppppppp/8/p7/8/8/PPPPPPPP/RNBQKBNR w KQkq aV 0 2".toList).map (·.ep) =
      some (some 40) ∧
    setFen .trap false "rnbqkbnr/1ppppppp/8/p7/8/8/PPPPPPPP/RNBQKBNR w KQkq aV 0 2".toList = none := by
  decide +kernel

/-- rejected: a file letter on the king's own file (classified queen-side, then no rook there);
full-move number 0. -/
example : setFen .wrap true "4k3/8/8/8/8/8/8/R3K3 w E - 0 1".toList = none ∧
    setFen .wrap false "4k3/8/8/8/8/8/8/4K3 w - - 0 0".toList = none := by decide +kernel

/-! ## (b) exactness, (c) completeness -/

/-- **C07(b,c).** Let `a` be a valid absolute position (`Spec.Valid`: V.2–V.7) with pieces only on the 64
squares and counters below `2^31`; let `st` be any of the three spellings of the castling field, where the
`KQkq` spelling is only meaningful if every right's rook is the outermost one on its wing
(`AllOutermost`; without it `K` denotes another rook — see the example in `Rawr/Proofs/FenCastle.lean`).
Then in both arithmetics and for either value of the `frc` flag, `set_fen` accepts the printed FEN and
returns exactly `rel a frc` (boards, side, rights with the rook files of the present rights, the defaults
7,0,7,0 for the absent ones — `rel` uses the same defaults —, en-passant square, counters, recomputed key).
`hchk` is V.4 in the form `validate` tests it (the model's `isSqAttacked`); it follows from
`Spec.Valid a` by C08d. -/
theorem C07c_accepts (ar : Arith) (a : APos) (frc : Bool) (st : CastleStyle)
    (hV : Spec.Valid a = true) (hboard : ∀ s, 64 ≤ s → a.board s = none)
    (hh : a.half < 2147483648) (hf : a.full < 2147483648)
    (hst : st = .kqkq → AllOutermost a)
    (hchk : (rel a frc).isSqAttacked (lsb ((rel a frc).c1 &&& (rel a frc).p5)) false = false) :
    setFen ar frc (printFen a st) = some (rel a frc) :=
  setFen_printFen a frc ar st hV hboard hh hf hst hchk

/-- **C07(b)**: on well-formed input no `u8` operation overflows — the two builds agree. -/
theorem C07b_arith_agree (a : APos) (frc : Bool) (st : CastleStyle)
    (hV : Spec.Valid a = true) (hboard : ∀ s, 64 ≤ s → a.board s = none)
    (hh : a.half < 2147483648) (hf : a.full < 2147483648)
    (hst : st = .kqkq → AllOutermost a)
    (hchk : (rel a frc).isSqAttacked (lsb ((rel a frc).c1 &&& (rel a frc).p5)) false = false) :
    setFen .wrap frc (printFen a st) = setFen .trap frc (printFen a st) := by
  rw [C07c_accepts .wrap a frc st hV hboard hh hf hst hchk, C07c_accepts .trap a frc st hV hboard hh hf hst hchk]

/-- **C07(b)**: the accepted position denotes exactly the absolute position the string spells out. -/
theorem C07b_exact (ar : Arith) (a : APos) (frc : Bool) (st : CastleStyle)
    (hV : Spec.Valid a = true) (hboard : ∀ s, 64 ≤ s → a.board s = none)
    (hh : a.half < 2147483648) (hf : a.full < 2147483648)
    (hst : st = .kqkq → AllOutermost a)
    (hchk : (rel a frc).isSqAttacked (lsb ((rel a frc).c1 &&& (rel a frc).p5)) false = false) :
    ∃ p, setFen ar frc (printFen a st) = some p ∧ abs p = a ∧ p.frc = frc ∧ StructurallyValid p := by
  have h := C07c_accepts ar a frc st hV hboard hh hf hst hchk
  exact ⟨_, h, abs_rel a frc hboard, rel_frc a frc, C07a_sound ar frc _ _ h⟩

/-- the position every FEN of a position of the engine's domain is read to: for a `ValidPos p`, all three
spellings of `abs p` are accepted and give back `p` (castle files of absent rights reset to the defaults). -/
theorem C07c_domain (ar : Arith) (p : Position) (st : CastleStyle) (hV : ValidPos p = true)
    (hst : st = .kqkq → AllOutermost (abs p))
    (hchk : p.isSqAttacked (lsb (p.c1 &&& p.p5)) false = false) :
    setFen ar p.frc (printFen (abs p) st) = some (normCf p) := by
  obtain ⟨hC, hVa, hh, hf, hk⟩ := validPos_split hV
  have hrel : rel (abs p) p.frc = normCf p := rel_abs' p hC hk
  rw [← hrel]
  apply C07c_accepts ar (abs p) p.frc st hVa (absBoard_ge p) hh hf hst
  rw [hrel]; exact hchk

/-- the full statement: as `C07c_accepts` without the hypothesis `hchk`, which is the C08d bridge. -/
def C07c_full : Prop :=
  ∀ (ar : Arith) (a : APos) (frc : Bool) (st : CastleStyle), Spec.Valid a = true →
    (∀ s, 64 ≤ s → a.board s = none) → a.half < 2147483648 → a.full < 2147483648 →
    (st = .kqkq → AllOutermost a) → setFen ar frc (printFen a st) = some (rel a frc)

/-- what C08d has to supply: on the engine's domain the model's attack test agrees with `Spec.Valid`'s
"side not to move is not in check". -/
def C07_C08d_bridge : Prop :=
  ∀ p : Position, ValidPos p = true → p.isSqAttacked (lsb (p.c1 &&& p.p5)) false = false

theorem C07c_full_of (H : C07_C08d_bridge) : C07c_full :=
  fun ar a frc st hV hb hh hf hst =>
    C07c_accepts ar a frc st hV hb hh hf hst (H _ (validPos_rel a frc hV hb hh hf))

/-! non-vacuity of (b,c): `Rawr/Props/C07Examples.lean` (the absolute start position satisfies every
hypothesis of `C07c_accepts`, in all three styles). -/

#print axioms C07a_sound
#print axioms C07a_parity
#print axioms C07a_validate_iff
#print axioms C07a_letter
#print axioms C07c_accepts
#print axioms C07b_arith_agree
#print axioms C07b_exact
#print axioms C07c_domain
#print axioms C07c_full_of
end Rawr
