import Rawr.Proofs.MakeMoveAbsF
import Rawr.Props.C04
/-! # C02  Making a move yields exactly the successor position prescribed by the rules

`Position.makemove` (model of makemove.rs + flip.rs) against `Spec.apply`, through the abstraction `abs`.
Hypothesis on the position: `ValidPos p` (the domain V of DESIGN.md §4). Hypothesis on the move:
`MoveShape p m` (the shape of every generated move, `Rawr/Proofs/HashMeta.lean`) **plus** `PawnGeom p m`:
a pawn advances exactly one rank, or two ranks straight (`dst = src + 16`). `MoveShape` alone does not
say where a pawn comes from, and the engine decides "double push" by `dst - src == 16` and removes the
en-passant victim on `dst - 8`, while the rules look at the ranks of `src` and `dst`; see
`C02_shape_alone_insufficient` below for a shaped non-move on which the two differ. Every generated move
satisfies `PawnGeom` (`MoveGen.lean`: pawn targets are `north`, `north∘north`, `northEast`, `northWest`
images of the pawn's square). `MoveShape2 = MoveShape ∧ PawnGeom`.

The proof is organised by move kind: a non-castling move is described by three flags — capture on `dst`
(`cap`), en-passant capture (`epc`), promotion (`pr`) — giving quiet moves, captures, double pushes,
en passant, promotions with and without capture (`Proofs/MakeMoveAbsB..D`: `nc_result`, `nc_view`,
`nc_refines`); castling either side in Chess960 geometry, including king or rook already on its target
square (`castleK_result`, `castleQ_result`, `c_view`, `c_refines` in `MakeMoveAbsB,C,E`); the castling-right
bookkeeping is `lost_us` / `lost_them` / `c_them_keep`; the final `flip` is `abs_flip` (`MakeMoveAbsA`). -/
namespace Rawr
open Position Spec ZH MM

/-! ## (1) refinement -/

/-- Making a shaped move in a valid position yields exactly the position `Spec.apply` prescribes:
placement, side to move, the four castling rights (as rook files), en-passant target, half-move clock,
full-move number. Holds for both instantiations of `UPDATE_HASH`. -/
theorem C02_makemove_refines (p : Position) (m : Mv) (q : Position) (u : Bool) (hV : ValidPos p = true)
    (hs : MoveShape2 p m = true) (h : p.makemove m u = some q) :
    AbsEq (abs q) (Spec.apply (abs p) (decodeMove p m)) := by
  simp only [MoveShape2, Bool.and_eq_true] at hs
  obtain ⟨_, q', _, hq, so⟩ := makemove_out hV hs.1 u
  rw [hq] at h
  cases h
  exact so.refines hs.2

/-- `MoveShape` alone is not enough: a pawn "capturing" from a2 to b4 has the shape; the engine sets no
en-passant square (`dst - src = 17`), the rules (two ranks) would. No generated move looks like this. -/
def shapeOnlyPos : Position :=
  mkPos 0x110#64 0x1000000002000000#64 0x100#64 0x2000000#64 0 0 0 0x1000000000000010#64 none false false false false

theorem C02_shape_alone_insufficient :
    ValidPos shapeOnlyPos = true ∧ MoveShape shapeOnlyPos ⟨8, 25, 6⟩ = true ∧
    PawnGeom shapeOnlyPos ⟨8, 25, 6⟩ = false ∧
    ∃ q, shapeOnlyPos.makemove ⟨8, 25, 6⟩ true = some q ∧
      (abs q).ep ≠ (Spec.apply (abs shapeOnlyPos) (decodeMove shapeOnlyPos ⟨8, 25, 6⟩)).ep := by
  refine ⟨by decide +kernel, by decide +kernel, by decide +kernel, ?_⟩
  have h1 : (shapeOnlyPos.makemove ⟨8, 25, 6⟩ true).isSome = true := by decide +kernel
  obtain ⟨q, hq⟩ := Option.isSome_iff_exists.mp h1
  refine ⟨q, hq, ?_⟩
  have h2 : ((shapeOnlyPos.makemove ⟨8, 25, 6⟩ true).map fun q => (abs q).ep) = some none := by decide +kernel
  rw [hq] at h2
  have h3 : (abs q).ep = none := by simpa using h2
  rw [h3]
  decide +kernel

/-! ## (2) totality, and independence of the `UPDATE_HASH` flag -/

/-- no `unwrap` of `makemove` (nor of `predict_hash`) fails on a shaped move of a valid position. -/
theorem C02_makemove_total (p : Position) (m : Mv) (hV : ValidPos p = true) (hs : MoveShape p m = true) :
    ∃ q, p.makemove m true = some q := by
  obtain ⟨_, q, _, hq, _⟩ := makemove_out hV hs true
  exact ⟨q, hq⟩

theorem C02_makemove_total' (p : Position) (m : Mv) (u : Bool) (hV : ValidPos p = true)
    (hs : MoveShape p m = true) : ∃ q, p.makemove m u = some q := by
  obtain ⟨_, q, _, hq, _⟩ := makemove_out hV hs u
  exact ⟨q, hq⟩

/-- `makemove::<false>` and `makemove::<true>` agree on every field except `hash` (no hypotheses). -/
theorem C02_update_hash_irrelevant (p : Position) (m : Mv) (q1 q2 : Position)
    (h1 : p.makemove m true = some q1) (h2 : p.makemove m false = some q2) :
    { q1 with hash := q2.hash } = q2 := makemove_flag h1 h2

/-- … and `makemove::<false>` keeps the stored key. -/
theorem C02_no_update_keeps_hash (p : Position) (m : Mv) (q : Position) (hV : ValidPos p = true)
    (hs : MoveShape p m = true) (h : p.makemove m false = some q) : q.hash = p.hash := by
  obtain ⟨h', q', hh, hq, so⟩ := makemove_out hV hs false
  rw [hq] at h
  cases h
  simp only [Bool.false_eq_true, if_false, Option.some.injEq] at hh
  rw [so.hash, hh]

/-! ## (3) null move -/

/-- A null move only passes the turn and clears the en-passant target (the engine also zeroes the
half-move clock; the property does not constrain that field): placement, castling rights and full-move
number are untouched. -/
theorem C02_null (p : Position) (hV : ValidPos p = true) :
    AbsEq (abs p.makenull) { abs p with whiteToMove := !(abs p).whiteToMove, ep := none, half := 0 } := by
  obtain ⟨hC, _⟩ := valid_unpack hV
  have h := abs_flip { p with hash := p.makenull.hash } (fun x => disj_bit hC x)
  exact ⟨fun s hs => h.board s hs, h.turn, h.wK, h.wQ, h.bK, h.bQ, rfl, rfl, h.full⟩

/-! ## non-vacuity -/

/-- a position given by its (mover-relative) boards, with castle files and side to move; key recomputed. -/
def mkP (black : Bool) (c0 c1 p0 p1 p2 p3 p4 p5 : BB) (ep : Option Nat) (uK uQ tK tQ : Bool)
    (f0 f1 f2 f3 : Nat) (hm fm : Int) : Position :=
  let p : Position :=
    { c0 := c0, c1 := c1, p0 := p0, p1 := p1, p2 := p2, p3 := p3, p4 := p4, p5 := p5,
      halfmoves := hm, fullmoves := fm, black := black, ep := ep,
      usK := uK, usQ := uQ, themK := tK, themQ := tQ, cf0 := f0, cf1 := f1, cf2 := f2, cf3 := f3,
      hash := 0#64, frc := true }
  { p with hash := p.calculateHash }

/-- Boolean test of `AbsEq`. -/
def absEqB (a b : APos) : Bool :=
  (List.range 64).all (fun s => a.board s == b.board s) && a.whiteToMove == b.whiteToMove &&
  a.wK == b.wK && a.wQ == b.wQ && a.bK == b.bK && a.bQ == b.bQ && a.ep == b.ep && a.half == b.half &&
  a.full == b.full

/-- hypotheses of (1) hold and the conclusion is observed, on a concrete input. -/
def c02Example (p : Position) (m : Mv) : Bool :=
  ValidPos p && MoveShape2 p m &&
  match p.makemove m true, p.makemove m false with
  | some q, some q' => absEqB (abs q) (Spec.apply (abs p) (decodeMove p m)) && ({ q with hash := q'.hash } == q')
  | _, _ => false

-- 1. e4 from the start position (double push: en-passant target e3)
example : c02Example Gen.startpos ⟨12, 28, 6⟩ = true := by decide +kernel
-- Chess960 O-O with king f1, rook g1 (they swap: each stands on the other's target), Black to move
-- (mover-relative squares; absolute: black Kf8, Rg8), opponent king e1
def exK : Position :=
  mkP true 0x60#64 0x1000000000000000#64 0 0 0 0x40#64 0 0x1000000000000020#64 none true false false false 6 0 7 0 3 17
example : c02Example exK ⟨5, 6, 6⟩ = true := by decide +kernel
example : decodeMove exK ⟨5, 6, 6⟩ = .castle true := by decide +kernel
-- Chess960 O-O-O with the rook already on d1: king e1 takes rook d1 (Kc1, Rd1 stays)
def exQ : Position :=
  mkP false 0x18#64 0x1000000000000000#64 0 0 0 0x8#64 0 0x1000000000000010#64 none false true false false 7 3 7 0 0 1
example : c02Example exQ ⟨4, 3, 6⟩ = true := by decide +kernel
-- O-O where the king already stands on g1 (rook h1 → f1)
def exK2 : Position :=
  mkP false 0xC0#64 0x1000000000000000#64 0 0 0 0x80#64 0 0x1000000000000040#64 none true false false false 7 0 7 0 0 1
example : c02Example exK2 ⟨6, 7, 6⟩ = true := by decide +kernel
-- en passant by Black (mover-relative e5xd6; absolute e4xd3)
def exEp : Position :=
  mkP true 0x1000000010#64 0x1000000800000000#64 0x1800000000#64 0 0 0 0 0x1000000000000010#64 (some 43)
    false false false false 7 0 7 0 0 9
example : c02Example exEp ⟨36, 43, 6⟩ = true := by decide +kernel
-- b7xa8=Q capturing the rook that backs the opponent's queen-side right: the right is gone afterwards
def exPromo : Position :=
  mkP false 0x2000000000010#64 0x1100000000000000#64 0x2000000000000#64 0 0 0x100000000000000#64 0
    0x1000000000000010#64 none false false false true 7 0 7 0 5 30
example : c02Example exPromo ⟨49, 56, 4⟩ = true := by decide +kernel
example : (abs exPromo).bQ = some 0 ∧
    ((exPromo.makemove ⟨49, 56, 4⟩ true).map fun q => ((abs q).bQ, (abs q).half, (abs q).board 56)) =
      some (none, 0, some ⟨true, .queen⟩) := by decide +kernel
-- a king move loses both rights, a rook move one (start position with the pieces out of the way is not
-- needed: shape and validity are all that is asked)
def exRights : Position :=
  mkP false 0x91#64 0x1000000000000000#64 0 0 0 0x81#64 0 0x1000000000000010#64 none true true false false 7 0 7 0 0 1
example : c02Example exRights ⟨4, 12, 6⟩ = true := by decide +kernel
example : c02Example exRights ⟨7, 15, 6⟩ = true := by decide +kernel
example : ((exRights.makemove ⟨4, 12, 6⟩ true).map fun q => ((abs q).wK, (abs q).wQ)) = some (none, none) ∧
    ((exRights.makemove ⟨7, 15, 6⟩ true).map fun q => ((abs q).wK, (abs q).wQ)) = some (none, some 0) := by
  decide +kernel
-- null move after 1. e4: the en-passant target disappears
example : ValidPos exEp = true ∧ (abs exEp).ep = some 19 ∧ (abs exEp.makenull).ep = none := by decide +kernel

#print axioms C02_makemove_refines
#print axioms C02_shape_alone_insufficient
#print axioms C02_makemove_total
#print axioms C02_update_hash_irrelevant
#print axioms C02_no_update_keeps_hash
#print axioms C02_null

end Rawr
