import Rawr.Proofs.MakeMoveAbsH
import Rawr.Props.C04
/-! # C02  Making a move yields exactly the successor position prescribed by the rules

`Position.makemove` (model of makemove.rs + flip.rs) against `Spec.apply`, through the abstraction `abs`.
Hypothesis on the position: `ValidPos p` (the domain V of DESIGN.md §4). Hypothesis on the move:
`MoveShape p m` (the shape of every generated move, `Rawr/Proofs/HashMeta.lean`) **plus** `PawnGeom p m`:
a pawn advances exactly one rank, or two ranks straight (`dst = src + 16`). `MoveShape` alone does not
say where a pawn comes from, and the engine decides "double push" by `dst - src == 16` and removes the
en-passant victim on `dst - 8`, while the rules look at the ranks of `src` and `dst`; see
`C02_shape_alone_insufficient` below for a shaped non-move on which the two differ. Every generated move
satisfies `PawnGeom` (`MoveGen.lean`: pawn targets are `north`, `north∘north`, `northEast`, `northWest`
images of the pawn's square). `MoveShape2 = MoveShape ∧ PawnGeom`.

The proof is organised by move kind: a non-castling move is described by three flags — capture on `dst`
(`cap`), en-passant capture (`epc`), promotion (`pr`) — giving quiet moves, captures, double pushes,
en passant, promotions with and without capture (`Proofs/MakeMoveAbsB..D`: `nc_result`, `nc_view`,
`nc_refines`); castling either side in Chess960 geometry, including king or rook already on its target
square (`castleK_result`, `castleQ_result`, `c_view`, `c_refines` in `MakeMoveAbsB,C,E`); the castling-right
bookkeeping is `lost_us` / `lost_them` / `c_them_keep`; the final `flip` is `abs_flip` (`MakeMoveAbsA`). -/
namespace Rawr
open Position Spec ZH MM SV

/-! ## (1) refinement -/

/-- Making a shaped move in a valid position yields exactly the position `Spec.apply` prescribes:
placement, side to move, the four castling rights (as rook files), en-passant target, half-move clock,
full-move number. Holds for both instantiations of `UPDATE_HASH`. -/
theorem C02_makemove_refines (p : Position) (m : Mv) (q : Position) (u : Bool) (hV : ValidPos p = true)
    (hs : MoveShape2 p m = true) (h : p.makemove m u = some q) :
    AbsEq (abs q) (Spec.apply (abs p) (decodeMove p m)) := by
  simp only [MoveShape2, Bool.and_eq_true] at hs
  obtain ⟨_, q', _, hq, so⟩ := makemove_out hV hs.1 u
  rw [hq] at h
  cases h
  exact so.refines hs.2

/-- `MoveShape` alone is not enough: a pawn "capturing" from a2 to b4 has the shape; the engine sets no
en-passant square (`dst - src = 17`), the rules (two ranks) would. No generated move looks like this. -/
def shapeOnlyPos : Position :=
  mkPos 0x110#64 0x1000000002000000#64 0x100#64 0x2000000#64 0 0 0 0x1000000000000010#64 none false false false false

theorem C02_shape_alone_insufficient :
    ValidPos shapeOnlyPos = true ∧ MoveShape shapeOnlyPos ⟨8, 25, 6⟩ = true ∧
    PawnGeom shapeOnlyPos ⟨8, 25, 6⟩ = false ∧
    ∃ q, shapeOnlyPos.makemove ⟨8, 25, 6⟩ true = some q ∧
      (abs q).ep ≠ (Spec.apply (abs shapeOnlyPos) (decodeMove shapeOnlyPos ⟨8, 25, 6⟩)).ep := by
  refine ⟨by decide +kernel, by decide +kernel, by decide +kernel, ?_⟩
  have h1 : (shapeOnlyPos.makemove ⟨8, 25, 6⟩ true).isSome = true := by decide +kernel
  obtain ⟨q, hq⟩ := Option.isSome_iff_exists.mp h1
  refine ⟨q, hq, ?_⟩
  have h2 : ((shapeOnlyPos.makemove ⟨8, 25, 6⟩ true).map fun q => (abs q).ep) = some none := by decide +kernel
  rw [hq] at h2
  have h3 : (abs q).ep = none := by simpa using h2
  rw [h3]
  decide +kernel

/-! ## (2) totality, and independence of the `UPDATE_HASH` flag -/

/-- no `unwrap` of `makemove` (nor of `predict_hash`) fails on a shaped move of a valid position. -/
theorem C02_makemove_total (p : Position) (m : Mv) (hV : ValidPos p = true) (hs : MoveShape p m = true) :
    ∃ q, p.makemove m true = some q := by
  obtain ⟨_, q, _, hq, _⟩ := makemove_out hV hs true
  exact ⟨q, hq⟩

theorem C02_makemove_total' (p : Position) (m : Mv) (u : Bool) (hV : ValidPos p = true)
    (hs : MoveShape p m = true) : ∃ q, p.makemove m u = some q := by
  obtain ⟨_, q, _, hq, _⟩ := makemove_out hV hs u
  exact ⟨q, hq⟩

/-- `makemove::<false>` and `makemove::<true>` agree on every field except `hash` (no hypotheses). -/
theorem C02_update_hash_irrelevant (p : Position) (m : Mv) (q1 q2 : Position)
    (h1 : p.makemove m true = some q1) (h2 : p.makemove m false = some q2) :
    { q1 with hash := q2.hash } = q2 := makemove_flag h1 h2

/-- … and `makemove::<false>` keeps the stored key. -/
theorem C02_no_update_keeps_hash (p : Position) (m : Mv) (q : Position) (hV : ValidPos p = true)
    (hs : MoveShape p m = true) (h : p.makemove m false = some q) : q.hash = p.hash := by
  obtain ⟨h', q', hh, hq, so⟩ := makemove_out hV hs false
  rw [hq] at h
  cases h
  simp only [Bool.false_eq_true, if_false, Option.some.injEq] at hh
  rw [so.hash, hh]

/-! ## (3) null move -/

/-- A null move only passes the turn and clears the en-passant target (the engine also zeroes the
half-move clock; the property does not constrain that field): placement, castling rights and full-move
number are untouched. -/
theorem C02_null (p : Position) (hV : ValidPos p = true) :
    AbsEq (abs p.makenull) { abs p with whiteToMove := !(abs p).whiteToMove, ep := none, half := 0 } := by
  obtain ⟨hC, _⟩ := valid_unpack hV
  have h := abs_flip { p with hash := p.makenull.hash } (fun x => disj_bit hC x)
  exact ⟨fun s hs => h.board s hs, h.turn, h.wK, h.wQ, h.bK, h.bQ, rfl, rfl, h.full⟩

/-! ## (4) validity is preserved

Legality by the rules is `decodeMove p m ∈ Spec.legalMoves (abs p)`. With it the pawn geometry need not be
assumed (`C02_shape2_of_legal`), and `Spec.Valid` of the result follows from a theorem about the
specification alone (`C02_spec_valid_preserved`: every legal move of a valid position leads to a valid
position — `Proofs/MakeMoveAbsV1..V5`, no engine model involved). -/

/-- `MoveShape` and legality by the rules give the pawn geometry. -/
theorem C02_shape2_of_legal (p : Position) (m : Mv) (hV : ValidPos p = true) (hs : MoveShape p m = true)
    (hL : decodeMove p m ∈ Spec.legalMoves (abs p)) : MoveShape2 p m = true := shape2_of_legal hV hs hL

/-- (1) again, for a shaped legal move, as an *equation* between absolute positions (off the 64 squares
both boards are empty). -/
theorem C02_makemove_eq (p : Position) (m : Mv) (q : Position) (u : Bool) (hV : ValidPos p = true)
    (hs : MoveShape p m = true) (hL : decodeMove p m ∈ Spec.legalMoves (abs p))
    (h : p.makemove m u = some q) : abs q = Spec.apply (abs p) (decodeMove p m) :=
  abs_eq_apply hV (shape2_of_legal hV hs hL) h

/-- V.1: the eight boards of the result are consistent (no legality needed). -/
theorem C02_consistent (p : Position) (m : Mv) (q : Position) (u : Bool) (hV : ValidPos p = true)
    (hs : MoveShape p m = true) (h : p.makemove m u = some q) : Consistent q = true := by
  obtain ⟨_, q', _, hq, so⟩ := makemove_out hV hs u
  rw [hq] at h
  cases h
  exact so.consistent

/-- the castle files travel with the sides (and `frc` stays). -/
theorem C02_castle_files (p : Position) (m : Mv) (q : Position) (u : Bool) (hV : ValidPos p = true)
    (hs : MoveShape p m = true) (h : p.makemove m u = some q) :
    q.cf0 = p.cf2 ∧ q.cf1 = p.cf3 ∧ q.cf2 = p.cf0 ∧ q.cf3 = p.cf1 ∧ q.frc = p.frc := by
  obtain ⟨_, q', _, hq, so⟩ := makemove_out hV hs u
  rw [hq] at h
  cases h
  exact so.cf

/-- the specification alone: a legal move of a valid position leads to a valid position. -/
theorem C02_spec_valid_preserved (a : APos) (mv : Move) (hv : Spec.Valid a = true)
    (hl : mv ∈ Spec.legalMoves a) : Spec.Valid (Spec.apply a mv) = true := valid_apply hv hl

/-- V.2–V.7 hold of the result. -/
theorem C02_spec_valid (p : Position) (m : Mv) (q : Position) (u : Bool) (hV : ValidPos p = true)
    (hs : MoveShape p m = true) (hL : decodeMove p m ∈ Spec.legalMoves (abs p))
    (h : p.makemove m u = some q) : Spec.Valid (abs q) = true := by
  rw [C02_makemove_eq p m q u hV hs hL h]
  exact valid_apply (valid_unpack hV).2.1 hL

section clauses
variable (p : Position) (m : Mv) (q : Position) (u : Bool) (hV : ValidPos p = true)
  (hs : MoveShape p m = true) (hL : decodeMove p m ∈ Spec.legalMoves (abs p)) (h : p.makemove m u = some q)
include hV hs hL h

/-- the side that just moved is not in check. -/
theorem C02_mover_not_in_check : inCheck (abs q).board (!(abs q).whiteToMove) = false :=
  ((valid_iff _).mp (C02_spec_valid p m q u hV hs hL h)).notInCheck

/-- exactly one king per colour. -/
theorem C02_one_king_each :
    countPieces (abs q).board (fun pc => pc == ⟨true, .king⟩) = 1 ∧
    countPieces (abs q).board (fun pc => pc == ⟨false, .king⟩) = 1 := by
  have v := (valid_iff _).mp (C02_spec_valid p m q u hV hs hL h)
  exact ⟨by simpa using (king_clause _ true).mpr v.kw, by simpa using (king_clause _ false).mpr v.kb⟩

/-- no pawn stands on a back rank. -/
theorem C02_no_back_rank_pawns (s : Nat) (hs64 : s < 64) (pc : Piece) (hpc : (abs q).board s = some pc)
    (hk : pc.kind = .pawn) : rank s ≠ 0 ∧ rank s ≠ 7 :=
  ((valid_iff _).mp (C02_spec_valid p m q u hV hs hL h)).pawns s hs64 pc hpc hk

/-- every remaining castling right is backed: its rook on its square, the king on the home rank on the
proper side of it (`Spec.Valid` clause 5). -/
theorem C02_rights_backed (w ks : Bool) (f : Nat) (hr : right (abs q) w ks = some f) :
    f < 8 ∧ (abs q).board (sq f (homeRank w)) = some ⟨w, .rook⟩ ∧
    ∃ k, kingSquares (abs q).board w = [k] ∧ rank k = homeRank w ∧
      (if ks = true then file k < (f : Int) else (f : Int) < file k) :=
  ((valid_iff _).mp (C02_spec_valid p m q u hV hs hL h)).rights w ks f hr

/-- an en-passant target lies on the mover's third / sixth rank, is empty, and the pushed pawn stands in
front of it (`Spec.Valid` clause 6). -/
theorem C02_ep_target (e : Nat) (he : (abs q).ep = some e) :
    rank e = (if (abs q).whiteToMove = true then 5 else 2) ∧ (abs q).board e = none ∧
    (abs q).board (sq (file e) (if (abs q).whiteToMove = true then 4 else 3)) =
      some ⟨!(abs q).whiteToMove, .pawn⟩ :=
  ((valid_iff _).mp (C02_spec_valid p m q u hV hs hL h)).ep e he

/-- counters: the clock is 0 or one more, the move number the same or one more; both stay in range. -/
theorem C02_counters : 0 ≤ q.halfmoves ∧ q.halfmoves ≤ p.halfmoves + 1 ∧ 1 ≤ q.fullmoves ∧
    q.fullmoves ≤ p.fullmoves + 1 := by
  have v := (valid_iff _).mp (C02_spec_valid p m q u hV hs hL h)
  have v0 := (valid_iff _).mp (valid_unpack hV).2.1
  have he := C02_makemove_eq p m q u hV hs hL h
  obtain ⟨b1, b2⟩ := counters_apply (abs p) (decodeMove p m) v0.half
  rw [← he] at b1 b2
  exact ⟨v.half, b1, v.full, b2⟩

end clauses

/-- V.8: the stored key is the recomputed key — this is `C04a_predict` / `C04a_valid` (Rawr/Props/C04.lean). -/
theorem C02_hash (p : Position) (m : Mv) (q : Position) (hV : ValidPos p = true) (hs : MoveShape p m = true)
    (h : p.makemove m true = some q) : q.hash = q.calculateHash :=
  (move_preserves (keyHyps_of_valid hV) hs (valid_unpack hV).2.2.2.2.2.2 h).2

/-- **the result is again in the domain V**, as long as the counters do not leave the `i32` range. -/
theorem C02_valid_preserved (p : Position) (m : Mv) (q : Position) (hV : ValidPos p = true)
    (hs : MoveShape p m = true) (hL : decodeMove p m ∈ Spec.legalMoves (abs p))
    (h : p.makemove m true = some q)
    (hh : p.halfmoves + 1 < 2147483648) (hf : p.fullmoves + 1 < 2147483648) : ValidPos q = true :=
  (validPos_step hV (shape2_of_legal hV hs hL) hL h hh hf).1

/-- a null move played when not in check leads to a valid position denoting the passed position. -/
theorem C02_null_valid (p : Position) (hV : ValidPos p = true)
    (hc : inCheck (abs p).board (abs p).whiteToMove = false) :
    ValidPos p.makenull = true ∧ abs p.makenull = specPass (abs p) :=
  ⟨(validPos_null hV hc).1, abs_makenull hV⟩

/-! ## (5) sequences -/

/-- `C02Path n p a r b`: `n` plies lead the engine from `p` to `r` and the specification from `a` to `b`.
A ply is a move of the generated shape that is legal by the rules (the specification plays
`decodeMove p m`), made with key update, or a null move when the side to move is not in check (the
specification passes the turn). -/
inductive C02Path : Nat → Position → APos → Position → APos → Prop
  | nil (p : Position) (a : APos) : C02Path 0 p a p a
  | move {n : Nat} {p q r : Position} {a b : APos} (m : Mv) :
      MoveShape p m = true → decodeMove p m ∈ Spec.legalMoves a → p.makemove m true = some q →
      C02Path n q (Spec.apply a (decodeMove p m)) r b → C02Path (n + 1) p a r b
  | null {n : Nat} {p r : Position} {a b : APos} :
      inCheck a.board a.whiteToMove = false →
      C02Path n p.makenull (specPass a) r b → C02Path (n + 1) p a r b

/-- along any sequence of shaped legal moves and null moves from a valid position, the engine position
denotes exactly the position the rules prescribe, and stays in the domain (counters within `i32`). -/
theorem C02_sequence {n : Nat} {p r : Position} {a b : APos} (path : C02Path n p a r b)
    (hV : ValidPos p = true) (ha : abs p = a)
    (hh : p.halfmoves + n < 2147483648) (hf : p.fullmoves + n < 2147483648) :
    abs r = b ∧ ValidPos r = true := by
  induction path with
  | nil p a => exact ⟨ha, hV⟩
  | @move n p q r a b m hs hL hq _ ih =>
    subst ha
    have hs2 := shape2_of_legal hV hs hL
    obtain ⟨hVq, b1, b2⟩ := validPos_step hV hs2 hL hq (by omega) (by omega)
    exact ih hVq (abs_eq_apply hV hs2 hq) (by omega) (by omega)
  | @null n p r a b hc _ ih =>
    subst ha
    obtain ⟨hVq, b1, b2⟩ := validPos_null hV hc
    have h0 : 0 ≤ p.halfmoves := ((valid_iff _).mp (valid_unpack hV).2.1).half
    exact ih hVq (abs_makenull hV) (by rw [b1]; omega) (by rw [b2]; omega)

/-! ## non-vacuity -/

/-- a position given by its (mover-relative) boards, with castle files and side to move; key recomputed. -/
def mkP (black : Bool) (c0 c1 p0 p1 p2 p3 p4 p5 : BB) (ep : Option Nat) (uK uQ tK tQ : Bool)
    (f0 f1 f2 f3 : Nat) (hm fm : Int) : Position :=
  let p : Position :=
    { c0 := c0, c1 := c1, p0 := p0, p1 := p1, p2 := p2, p3 := p3, p4 := p4, p5 := p5,
      halfmoves := hm, fullmoves := fm, black := black, ep := ep,
      usK := uK, usQ := uQ, themK := tK, themQ := tQ, cf0 := f0, cf1 := f1, cf2 := f2, cf3 := f3,
      hash := 0#64, frc := true }
  { p with hash := p.calculateHash }

/-- Boolean test of `AbsEq`. -/
def absEqB (a b : APos) : Bool :=
  (List.range 64).all (fun s => a.board s == b.board s) && a.whiteToMove == b.whiteToMove &&
  a.wK == b.wK && a.wQ == b.wQ && a.bK == b.bK && a.bQ == b.bQ && a.ep == b.ep && a.half == b.half &&
  a.full == b.full

/-- hypotheses of (1) hold and the conclusion is observed, on a concrete input. -/
def c02Example (p : Position) (m : Mv) : Bool :=
  ValidPos p && MoveShape2 p m &&
  match p.makemove m true, p.makemove m false with
  | some q, some q' => absEqB (abs q) (Spec.apply (abs p) (decodeMove p m)) && ({ q with hash := q'.hash } == q')
  | _, _ => false

-- 1. e4 from the start position (double push: en-passant target e3)
example : c02Example Gen.startpos ⟨12, 28, 6⟩ = true := by decide +kernel
-- Chess960 O-O with king f1, rook g1 (they swap: each stands on the other's target), Black to move
-- (mover-relative squares; absolute: black Kf8, Rg8), opponent king e1
def exK : Position :=
  mkP true 0x60#64 0x1000000000000000#64 0 0 0 0x40#64 0 0x1000000000000020#64 none true false false false 6 0 7 0 3 17
example : c02Example exK ⟨5, 6, 6⟩ = true := by decide +kernel
example : decodeMove exK ⟨5, 6, 6⟩ = .castle true := by decide +kernel
-- Chess960 O-O-O with the rook already on d1: king e1 takes rook d1 (Kc1, Rd1 stays)
def exQ : Position :=
  mkP false 0x18#64 0x1000000000000000#64 0 0 0 0x8#64 0 0x1000000000000010#64 none false true false false 7 3 7 0 0 1
example : c02Example exQ ⟨4, 3, 6⟩ = true := by decide +kernel
-- O-O where the king already stands on g1 (rook h1 → f1)
def exK2 : Position :=
  mkP false 0xC0#64 0x1000000000000000#64 0 0 0 0x80#64 0 0x1000000000000040#64 none true false false false 7 0 7 0 0 1
example : c02Example exK2 ⟨6, 7, 6⟩ = true := by decide +kernel
-- en passant by Black (mover-relative e5xd6; absolute e4xd3)
def exEp : Position :=
  mkP true 0x1000000010#64 0x1000000800000000#64 0x1800000000#64 0 0 0 0 0x1000000000000010#64 (some 43)
    false false false false 7 0 7 0 0 9
example : c02Example exEp ⟨36, 43, 6⟩ = true := by decide +kernel
-- b7xa8=Q capturing the rook that backs the opponent's queen-side right: the right is gone afterwards
def exPromo : Position :=
  mkP false 0x2000000000010#64 0x1100000000000000#64 0x2000000000000#64 0 0 0x100000000000000#64 0
    0x1000000000000010#64 none false false false true 7 0 7 0 5 30
example : c02Example exPromo ⟨49, 56, 4⟩ = true := by decide +kernel
example : (abs exPromo).bQ = some 0 ∧
    ((exPromo.makemove ⟨49, 56, 4⟩ true).map fun q => ((abs q).bQ, (abs q).half, (abs q).board 56)) =
      some (none, 0, some ⟨true, .queen⟩) := by decide +kernel
-- a king move loses both rights, a rook move one (start position with the pieces out of the way is not
-- needed: shape and validity are all that is asked)
def exRights : Position :=
  mkP false 0x91#64 0x1000000000000000#64 0 0 0 0x81#64 0 0x1000000000000010#64 none true true false false 7 0 7 0 0 1
example : c02Example exRights ⟨4, 12, 6⟩ = true := by decide +kernel
example : c02Example exRights ⟨7, 15, 6⟩ = true := by decide +kernel
example : ((exRights.makemove ⟨4, 12, 6⟩ true).map fun q => ((abs q).wK, (abs q).wQ)) = some (none, none) ∧
    ((exRights.makemove ⟨7, 15, 6⟩ true).map fun q => ((abs q).wK, (abs q).wQ)) = some (none, some 0) := by
  decide +kernel
-- null move after 1. e4: the en-passant target disappears
example : ValidPos exEp = true ∧ (abs exEp).ep = some 19 ∧ (abs exEp.makenull).ep = none := by decide +kernel


-- (4): 1. e4 is legal by the rules in the start position; the result is valid
example : ValidPos Gen.startpos = true ∧ MoveShape Gen.startpos ⟨12, 28, 6⟩ = true ∧
    decodeMove Gen.startpos ⟨12, 28, 6⟩ ∈ Spec.legalMoves (abs Gen.startpos) := by decide +kernel
-- castling, en passant and the promotion-capture above are legal by the rules, too
example : decodeMove exK ⟨5, 6, 6⟩ ∈ Spec.legalMoves (abs exK) ∧
    decodeMove exQ ⟨4, 3, 6⟩ ∈ Spec.legalMoves (abs exQ) ∧
    decodeMove exEp ⟨36, 43, 6⟩ ∈ Spec.legalMoves (abs exEp) ∧
    decodeMove exPromo ⟨49, 56, 4⟩ ∈ Spec.legalMoves (abs exPromo) := by decide +kernel

-- (5): 1. e4, (null), 2. d4 from the start position
def seqQ1 : Position := (Gen.startpos.makemove ⟨12, 28, 6⟩ true).getD default
def seqQ2 : Position := seqQ1.makenull
def seqQ3 : Position := (seqQ2.makemove ⟨11, 27, 6⟩ true).getD default
def seqA1 : APos := Spec.apply (abs Gen.startpos) (decodeMove Gen.startpos ⟨12, 28, 6⟩)
def seqA3 : APos := Spec.apply (specPass seqA1) (decodeMove seqQ2 ⟨11, 27, 6⟩)

theorem seqPath : C02Path 3 Gen.startpos (abs Gen.startpos) seqQ3 seqA3 :=
  .move ⟨12, 28, 6⟩ (by decide +kernel) (by decide +kernel) (by decide +kernel)
    (.null (by decide +kernel)
      (.move ⟨11, 27, 6⟩ (by decide +kernel) (by decide +kernel) (by decide +kernel) (.nil _ _)))

example : abs seqQ3 = seqA3 ∧ ValidPos seqQ3 = true :=
  C02_sequence seqPath (by decide +kernel) rfl (by decide +kernel) (by decide +kernel)

#print axioms C02_makemove_refines
#print axioms C02_shape_alone_insufficient
#print axioms C02_makemove_total
#print axioms C02_update_hash_irrelevant
#print axioms C02_no_update_keeps_hash
#print axioms C02_null
#print axioms C02_shape2_of_legal
#print axioms C02_makemove_eq
#print axioms C02_consistent
#print axioms C02_spec_valid_preserved
#print axioms C02_spec_valid
#print axioms C02_mover_not_in_check
#print axioms C02_one_king_each
#print axioms C02_no_back_rank_pawns
#print axioms C02_rights_backed
#print axioms C02_ep_target
#print axioms C02_counters
#print axioms C02_hash
#print axioms C02_valid_preserved
#print axioms C02_null_valid
#print axioms C02_sequence

end Rawr
