import Rawr.Proofs.RustImpAgree_Eval
import Rawr.Props.C17
import Rawr.Proofs.RustImpAgree
import Rawr.Proofs.RustSearchAgree
/-!
# C17 on the regenerated code: `R.eval` is antisymmetric, colour-blind, independent of non-board state, bounded

`Rawr.R.eval`, `R.eval_us`, `R.get_phase`, `R.taper` (search/eval.rs), `R.flip` / `R.from_flipped` (chess/flip.rs) are
regenerated from the Rust source on every run; `agree_eval`, `agree_eval_us`, `agree_get_phase`, `agree_flip`,
`agree_from_flipped` prove them equal, as functions, to the model's `eval` = `evalT genEvalTables`, `evalUsT genEvalTables`,
`phase`, `Position.flip` (`genEvalTables` = the piece-square and weight tables extracted from eval.rs).  No domain
hypothesis: every C17 theorem is an exact transfer.  The model theorems that are generic in the table `T` are
instantiated at the engine's tables, the ones the code uses.
-/
namespace Rawr

/-! ## (a) antisymmetry under passing the turn -/

/-- **C17(a) on the code**: the regenerated evaluation of the position with the turn passed (regenerated `flip`) is the
exact negative — for every `Position` value whatsoever. -/
theorem C17_code_antisymmetry (p : Position) : R.eval (R.flip p) = - R.eval p := by
  rw [agree_eval, agree_flip]; exact C17_antisymmetry_eval p

theorem C17_code_antisymmetry_from_flipped (p : Position) : R.eval (R.from_flipped p) = - R.eval p := by
  rw [agree_eval, agree_from_flipped]; exact C17_antisymmetry_eval p

/-! ## (b) only the eight boards are read -/

theorem C17_code_independent (p q : Position)
    (h : p.c0 = q.c0 ∧ p.c1 = q.c1 ∧ p.p0 = q.p0 ∧ p.p1 = q.p1 ∧ p.p2 = q.p2 ∧ p.p3 = q.p3 ∧
      p.p4 = q.p4 ∧ p.p5 = q.p5) : R.eval p = R.eval q := by
  rw [agree_eval]; exact C17_independent genEvalTables p q h

/-- overwriting every non-board field (counters, turn flag, en-passant square, castling rights and files, key,
Chess960 flag) leaves the regenerated evaluation unchanged. -/
theorem C17_code_independent_fields (p : Position) (hm fm : Int) (bl : Bool)
    (ep : Option Nat) (uK uQ tK tQ : Bool) (f0 f1 f2 f3 : Nat) (key : BB) (frc : Bool) :
    R.eval { p with halfmoves := hm, fullmoves := fm, black := bl, ep := ep, usK := uK, usQ := uQ,
                    themK := tK, themQ := tQ, cf0 := f0, cf1 := f1, cf2 := f2, cf3 := f3,
                    hash := key, frc := frc } = R.eval p := by
  rw [agree_eval]; exact C17_independent_fields genEvalTables p hm fm bl ep uK uQ tK tQ f0 f1 f2 f3 key frc

/-! ## (c) colour-blindness -/

/-- the colour-swapped, rank-mirrored position evaluates (from its mover's point of view) to the same number. -/
theorem C17_code_mirror (p : Position) : R.eval (mirrorSwap p) = R.eval p := by
  rw [agree_eval]; exact C17_mirror genEvalTables p

/-- … stated on absolute boards: if `q` denotes the mirror image of what `p` denotes, with the other side to move. -/
theorem C17_code_mirror_abs (p q : Position) (hp : Consistent p = true)
    (hq : Consistent q = true) (hb : (abs q).board = Spec.mirrorBoard (abs p).board)
    (ht : (abs q).whiteToMove = !(abs p).whiteToMove) : R.eval q = R.eval p := by
  rw [agree_eval]; exact C17_mirror_abs genEvalTables p q hp hq hb ht

/-! ## (d) bounds, no overflow -/

/-- on every board-consistent position the regenerated evaluation stays strictly inside the mate-score band. -/
theorem C17_code_bound_consistent (p : Position) (hc : Consistent p = true) :
    -(Gen.MATE_SCORE - Gen.MAX_DEPTH) < R.eval p ∧ R.eval p < Gen.MATE_SCORE - Gen.MAX_DEPTH := by
  rw [agree_eval]; exact C17_bound_consistent p hc

/-- … and every `i32` quantity the regenerated `eval` computes (both `eval_us` results, their difference, the phase,
`256 - phase`, the two products and the numerator of `taper`, the result and its negation) is an `i32` value. -/
theorem C17_code_no_overflow_consistent (p : Position) (hc : Consistent p = true) :
    let a := R.eval_us p
    let b := R.eval_us (R.from_flipped p)
    let d := R.score_sub a b
    I32 a.1 ∧ I32 a.2 ∧ I32 b.1 ∧ I32 b.2 ∧ I32 d.1 ∧ I32 d.2 ∧ I32 (R.get_phase p) ∧
    I32 (256 - R.get_phase p) ∧ I32 (d.1 * (256 - R.get_phase p)) ∧ I32 (d.2 * R.get_phase p) ∧
    I32 (d.1 * (256 - R.get_phase p) + d.2 * R.get_phase p) ∧ I32 (R.eval p) ∧ I32 (- R.eval p) := by
  rw [agree_eval, agree_eval_us, agree_from_flipped, agree_get_phase, agree_score_sub]
  exact C17_no_overflow_consistent p hc

/-- with at most 16 men a side (`M16`) the sharper bound. -/
theorem C17_code_bound (p : Position) (hd : PieceDisj p) (ho : OnMen p) (hm : M16 p) :
    -(Gen.MATE_SCORE - Gen.MAX_DEPTH) < R.eval p ∧ R.eval p < Gen.MATE_SCORE - Gen.MAX_DEPTH := by
  rw [agree_eval]; exact C17_bound p hd ho hm

/-- on the domain `D = V ∧ E ∧ M`: `|eval| ≤ 60400`. -/
theorem C17_code_bound_InD (p : Position) (h : InD p = true) : -60400 ≤ R.eval p ∧ R.eval p ≤ 60400 := by
  rw [agree_eval]; exact C17_bound_InD p h

/-! ## non-vacuity -/

example : R.eval Gen.startpos = 0 := by decide +kernel
/-- a pawn up (`c17PawnUp` of `Props/C17.lean`): +99 for the mover, −99 after the regenerated `flip`, +99 mirrored. -/
example : R.eval c17PawnUp = 99 ∧ R.eval (R.flip c17PawnUp) = -99 ∧ R.eval (mirrorSwap c17PawnUp) = 99 := by
  decide +kernel
example : R.eval (R.flip c17PawnUp) = - R.eval c17PawnUp := C17_code_antisymmetry c17PawnUp
/-- 23 queens: consistent, more than 16 men — covered by `C17_code_bound_consistent`. -/
example : -(Gen.MATE_SCORE - Gen.MAX_DEPTH) < R.eval c17Queens ∧ R.eval c17Queens < Gen.MATE_SCORE - Gen.MAX_DEPTH :=
  C17_code_bound_consistent c17Queens (by decide +kernel)

end Rawr

#print axioms Rawr.C17_code_antisymmetry
#print axioms Rawr.C17_code_antisymmetry_from_flipped
#print axioms Rawr.C17_code_independent
#print axioms Rawr.C17_code_independent_fields
#print axioms Rawr.C17_code_mirror
#print axioms Rawr.C17_code_mirror_abs
#print axioms Rawr.C17_code_bound_consistent
#print axioms Rawr.C17_code_no_overflow_consistent
#print axioms Rawr.C17_code_bound
#print axioms Rawr.C17_code_bound_InD
