import Rawr.Proofs.GenShapeNodup
import Rawr.Proofs.GenShapeMove
import Rawr.Generated.StartPos
/-!
# C01 (structural part) — shape of the generated moves, no duplicates

For every valid position (`ValidPos`), every callback invocation `g` of `move_generator` satisfies `GenOk p g`
(`Proofs/GenShape.lean`): squares on the board and distinct; the `piece` argument is the piece on `src`, which is
the mover's; `dst` holds an own piece only for castling (king on its square takes the rook of a present right,
`IsCastleK` / `IsCastleQ`, with the king's and rook's targets free); promotion pieces are N, B, R, Q exactly for
pawns reaching the last rank; pawn geometry (`PawnGeom`); non-castling king moves are king steps.
Consequences: `gen_moveShape` (the hypothesis `MoveShape` of C04(a)) and `gen_nodup` (no move twice).
-/
namespace Rawr
open Rawr.Position Rawr.ZH

/-- 1. shape of the generated moves. -/
theorem gen_shape (p : Position) (hV : ValidPos p = true) : ∀ g ∈ moveGenerator p, GenOk p g :=
  gen_shape_valid p hV

/-- `GenOk`, spelled out. -/
theorem gen_shape_explicit (p : Position) (hV : ValidPos p = true) (g : GMv) (hg : g ∈ moveGenerator p) :
    (g.mv.src < 64 ∧ g.mv.dst < 64 ∧ g.mv.src ≠ g.mv.dst) ∧
    (p.pieceOn g.mv.src = some g.piece ∧ p.c0.isSet g.mv.src = true) ∧
    (p.c0.isSet g.mv.dst = true → g.piece = 5 ∧ (IsCastleK p g.mv ∨ IsCastleQ p g.mv)) ∧
    ((g.mv.promo = 6 ∨ g.mv.promo = 1 ∨ g.mv.promo = 2 ∨ g.mv.promo = 3 ∨ g.mv.promo = 4) ∧
      (g.mv.promo ≠ 6 ↔ (g.piece = 0 ∧ rankOf g.mv.dst = 7))) ∧
    (g.piece = 0 → PawnGeom p g.mv.src g.mv.dst) ∧
    (g.piece = 5 → p.c0.isSet g.mv.dst = false → (adjacent (bit g.mv.src)).getLsbD g.mv.dst = true) := by
  have h := gen_shape p hV g hg
  exact ⟨⟨h.src_lt, h.dst_lt, h.ne⟩, ⟨h.tag, h.own⟩, h.dst_own, ⟨h.promo_mem, h.promo_iff⟩, h.pawn, h.king⟩

/-- 2. every legal move has the shape assumed by C04(a). -/
theorem gen_moveShape (p : Position) (hV : ValidPos p = true) : ∀ m ∈ legalMoves p, MoveShape p m = true := by
  intro m hm
  unfold legalMoves at hm
  rw [List.mem_map] at hm
  obtain ⟨g, hg, rfl⟩ := hm
  exact moveShape_of_genOk (vfacts_of_valid hV) (gen_shape p hV g hg)

/-- 3a. the generator never invokes its callback twice with the same arguments. -/
theorem gen_nodup_callback (p : Position) (hV : ValidPos p = true) : (moveGenerator p).Nodup :=
  moveGenerator_nodup p hV

/-- 3. no move appears twice in `legal_moves` (last clause of C01). -/
theorem gen_nodup (p : Position) (hV : ValidPos p = true) : (legalMoves p).Nodup :=
  gen_nodup_valid p hV

/-! ## non-vacuity -/

/-- White: Ke1, pawn e5; Black: Ke8, pawn d5 which has just made a double step (ep square d6). -/
def c01Ep : Position :=
  let p : Position :=
    { Position.dflt with
      c0 := 0x0000001000000010#64, c1 := 0x1000000800000000#64, p0 := 0x0000001800000000#64,
      p5 := 0x1000000000000010#64, ep := some 43 }
  { p with hash := p.calculateHash }

example : ValidPos Gen.startpos = true ∧ (legalMoves Gen.startpos).length = 20 := by decide +kernel
example : ValidPos c01Ep = true ∧ (⟨36, 43, 6⟩ : Mv) ∈ legalMoves c01Ep ∧ (legalMoves c01Ep).length = 7 := by
  decide +kernel
example : (legalMoves c01Ep).Nodup := gen_nodup c01Ep (by decide +kernel)
example : MoveShape c01Ep ⟨36, 43, 6⟩ = true := gen_moveShape c01Ep (by decide +kernel) _ (by decide +kernel)
/-- the en-passant clause of `PawnGeom` is the one that holds for e5xd6. -/
example : PawnGeom c01Ep 36 43 :=
  (gen_shape c01Ep (by decide +kernel) (gm 0 36 43 6) (by decide +kernel)).pawn rfl

#print axioms gen_shape
#print axioms gen_shape_explicit
#print axioms gen_moveShape
#print axioms gen_nodup_callback
#print axioms gen_nodup
end Rawr
