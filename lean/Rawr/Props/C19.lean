import Rawr.Model.Search
import Rawr.Generated.StartPos
import Rawr.Proofs.AlphaBeta
import Rawr.Proofs.SelSort
/-! C19 — quiescence search is an exact, sound alpha-beta over the capture tree.

`qminimax` is the reference: plain recursion without pruning and without ordering over the model's own
capture generator (`legalCaptures`) and successor (`Position.makemove · · false`).
`C19_qsearch_sound` relates every successful `qsearch` to it with the three fail-soft clauses. -/
namespace Rawr

/-! ## the reference value -/

/-- the fold of `qminimax` over the captures: `max` of `acc` and `-(rec child)`;
`none` if a child is undefined (move application panics, or `rec` is undefined on it). -/
def qmmFold (rec : Position → Option Int) (p : Position) : List Mv → Int → Option Int
  | [], acc => some acc
  | m :: ms, acc =>
    match p.makemove m false with
    | none => none
    | some np =>
      match rec np with
      | none => none
      | some v => qmmFold rec p ms (max acc (-v))

/-- exact minimax value of the capture-only game tree: the side to move either accepts the static
evaluation or plays any legal capture. `none` = fuel exhausted somewhere in the tree, or `makemove` failed. -/
def qminimax : Nat → Position → Option Int
  | 0, _ => none
  | f + 1, p => qmmFold (qminimax f) p (legalCaptures p) (eval p)

/-- the exact value of the child reached by `m`, seen from the parent. -/
def qcv (rec : Position → Option Int) (p : Position) (m : Mv) : Option Int :=
  match p.makemove m false with
  | none => none
  | some np =>
    match rec np with
    | none => none
    | some v => some (-v)

theorem qmmFold_eq_foldMax (rec : Position → Option Int) (p : Position) :
    ∀ (ms : List Mv) (acc : Int), qmmFold rec p ms acc = AB.foldMax (qcv rec p) ms acc
  | [], _ => rfl
  | m :: ms, acc => by
    simp only [qmmFold, AB.foldMax, qcv]
    cases p.makemove m false with
    | none => rfl
    | some np =>
      simp only
      cases rec np with
      | none => rfl
      | some v => exact qmmFold_eq_foldMax rec p ms _

theorem qminimax_succ (f : Nat) (p : Position) :
    qminimax (f + 1) p = AB.foldMax (qcv (qminimax f) p) (legalCaptures p) (eval p) := by
  rw [qminimax, qmmFold_eq_foldMax]

/-- the same definition written with the `Option` monad's `foldlM`. -/
theorem qminimax_succ_foldlM (f : Nat) (p : Position) :
    qminimax (f + 1) p = (legalCaptures p).foldlM (fun acc m => do
      let np ← p.makemove m false
      let v ← qminimax f np
      pure (max acc (-v))) (eval p) := by
  rw [qminimax]
  generalize legalCaptures p = ms
  generalize eval p = acc
  induction ms generalizing acc with
  | nil => rfl
  | cons m ms ih =>
    simp only [qmmFold, List.foldlM_cons, Option.bind_eq_bind, Option.pure_def]
    cases p.makemove m false with
    | none => rfl
    | some np =>
      simp only [Option.bind_some]
      cases qminimax f np with
      | none => rfl
      | some v =>
        simp only [Option.bind_some]
        exact ih _

/-- the reference value is at least the static evaluation. -/
theorem qminimax_ge_eval (f : Nat) (p : Position) (v : Int) (h : qminimax f p = some v) : eval p ≤ v := by
  cases f with
  | zero => cases h
  | succ f => rw [qminimax_succ] at h; exact AB.foldMax_ge _ _ _ _ h

/-- more fuel does not change a defined reference value: "the exact value" is well defined. -/
theorem qminimax_mono (f f' : Nat) (p : Position) (v : Int) (hle : f ≤ f') (h : qminimax f p = some v) :
    qminimax f' p = some v := by
  induction f generalizing f' p v with
  | zero => cases h
  | succ f ih =>
    cases f' with
    | zero => omega
    | succ f' =>
      rw [qminimax_succ] at h ⊢
      refine AB.foldMax_congr _ _ _ ?_ _ _ h
      intro m _ c hc
      simp only [qcv] at hc ⊢
      cases hm : p.makemove m false with
      | none => rw [hm] at hc; cases hc
      | some np =>
        rw [hm] at hc
        simp only at hc ⊢
        cases hvc : qminimax f np with
        | none => rw [hvc] at hc; cases hc
        | some vc =>
          rw [hvc] at hc
          rw [ih f' np vc (by omega) hvc]
          exact hc

theorem qminimax_unique (f f' : Nat) (p : Position) (v v' : Int)
    (h : qminimax f p = some v) (h' : qminimax f' p = some v') : v = v' := by
  have a := qminimax_mono f (max f f') p v (by omega) h
  have b := qminimax_mono f' (max f f') p v' (by omega) h'
  rw [a] at b; exact Option.some.inj b

/-! ## the search loop as the generic fail-soft loop -/

/-- the recursive call of `qloop` on move `m`. -/
def qcall (rec : Position → QState → Int → Int → Int → Option (Int × QState)) (p : Position) (ply : Int)
    (m : Mv) (st : QState) (a b : Int) : Option (Int × QState) :=
  match p.makemove m false with
  | none => none
  | some np => rec np { st with nodes := st.nodes + 1 } a b (ply + 1)

theorem qloop_eq_loop (rec : Position → QState → Int → Int → Int → Option (Int × QState)) (p : Position)
    (beta ply : Int) : ∀ (ms : List Mv) (st : QState) (alpha best : Int),
    qloop rec p beta ply ms st alpha best = AB.loop (qcall rec p ply) beta ms st alpha best
  | [], _, _, _ => rfl
  | m :: ms, st, alpha, best => by
    rw [AB.loop_cons]
    simp only [qloop, qcall]
    cases p.makemove m false with
    | none => rfl
    | some np =>
      simp only
      cases rec np { st with nodes := st.nodes + 1 } (-beta) (-alpha) (ply + 1) with
      | none => rfl
      | some x =>
        obtain ⟨sc, st1⟩ := x
        simp only [AB.ite_gt_eq_max, ge_iff_le]
        split
        · rfl
        · exact qloop_eq_loop rec p beta ply ms _ _ _

/-- `qsearch` unfolded, with the loop in generic form and `alpha` raised by `max`. -/
theorem qsearch_succ (fuel : Nat) (p : Position) (st : QState) (alpha beta ply : Int) :
    qsearch (fuel + 1) p st alpha beta ply =
      if eval p ≥ beta then some (eval p, { st with seldepth := max st.seldepth ply })
      else (sortQs p (legalCaptures p)).bind fun moves =>
        AB.loop (qcall (qsearch fuel) p ply) beta moves
          { st with seldepth := max st.seldepth ply } (max alpha (eval p)) (eval p) := by
  simp only [qsearch, qloop_eq_loop, AB.ite_gt_eq_max]
  split
  · rfl
  · cases sortQs p (legalCaptures p) <;> rfl

/-! ## soundness -/

/-- Soundness in the by-result form (`AB.Bound`): failing low gives an upper bound, a result strictly
inside the window is exact, failing high gives a lower bound. The reference may use any fuel. -/
theorem qsearch_bound (fuel : Nat) (p : Position) (st : QState) (α β ply r : Int) (st' : QState)
    (hαβ : α < β) (h : qsearch fuel p st α β ply = some (r, st'))
    (fuel' : Nat) (v : Int) (hv : qminimax fuel' p = some v) : AB.Bound α β r v := by
  induction fuel generalizing p st α β ply r st' fuel' v with
  | zero => cases h
  | succ fuel ih =>
    cases fuel' with
    | zero => cases hv
    | succ fuel' =>
    rw [qsearch_succ] at h
    rw [qminimax_succ] at hv
    have hge := AB.foldMax_ge _ _ _ _ hv
    split at h
    · rename_i hcut
      simp only [Option.some.injEq, Prod.mk.injEq] at h
      obtain ⟨rfl, _⟩ := h
      refine ⟨fun _ => ?_, fun _ => ?_, fun _ => ?_⟩ <;> omega
    · rename_i hnc
      cases hs : sortQs p (legalCaptures p) with
      | none => rw [hs] at h; cases h
      | some moves =>
        rw [hs] at h
        simp only [Option.bind_some] at h
        rw [← AB.foldMax_perm _ (sortQs_perm p _ _ hs)] at hv
        refine AB.loop_sound (qcv (qminimax fuel') p) (qcall (qsearch fuel) p ply) α β moves ?_
          _ (max α (eval p)) (eval p) (eval p) r st' v rfl (by omega) (fun _ => Int.le_refl _)
          (fun _ => rfl) h hv
        intro m _ st1 a b r1 st1' hab hcall c hc
        simp only [qcall] at hcall
        simp only [qcv] at hc
        cases hm : p.makemove m false with
        | none => rw [hm] at hcall; cases hcall
        | some np =>
          rw [hm] at hcall hc
          simp only at hcall hc
          cases hvc : qminimax fuel' np with
          | none => rw [hvc] at hc; cases hc
          | some vc =>
            rw [hvc] at hc
            simp only [Option.some.injEq] at hc
            subst hc
            rw [Int.neg_neg]
            exact ih np _ a b _ r1 st1' hab hcall fuel' vc hvc

/-- **C19** (soundness). Whenever `qsearch` returns, its result relates to the exact minimax value `v` of the
capture tree — computed by `qminimax` with any fuel on which it is defined — by the three clauses:
exact when `v` is strictly inside the window, an upper bound when the result fails low,
a lower bound when it fails high. -/
theorem C19_qsearch_sound (fuel : Nat) (p : Position) (st : QState) (α β ply r : Int) (st' : QState)
    (hαβ : α < β) (h : qsearch fuel p st α β ply = some (r, st'))
    (fuel' : Nat) (v : Int) (hv : qminimax fuel' p = some v) :
    (α < v ∧ v < β → r = v) ∧ (r ≤ α → v ≤ r) ∧ (β ≤ r → r ≤ v) := by
  have hb := qsearch_bound fuel p st α β ply r st' hαβ h fuel' v hv
  exact ⟨hb.exact_of_inside, hb.1, hb.2.2⟩

/-- the by-result reading: a result strictly inside the window is the exact value. -/
theorem C19_qsearch_exact_of_result_inside (fuel : Nat) (p : Position) (st : QState) (α β ply r : Int)
    (st' : QState) (hαβ : α < β) (h : qsearch fuel p st α β ply = some (r, st'))
    (fuel' : Nat) (v : Int) (hv : qminimax fuel' p = some v) (hr : α < r ∧ r < β) : r = v :=
  (qsearch_bound fuel p st α β ply r st' hαβ h fuel' v hv).2.1 hr

/-- `r ≤ v` is not true in general for a fail-soft search (a fail-low result is only an upper bound),
but it does hold whenever the result is above `α`. -/
theorem C19_qsearch_le_exact_of_gt_alpha (fuel : Nat) (p : Position) (st : QState) (α β ply r : Int)
    (st' : QState) (hαβ : α < β) (h : qsearch fuel p st α β ply = some (r, st'))
    (fuel' : Nat) (v : Int) (hv : qminimax fuel' p = some v) (hr : α < r) : r ≤ v := by
  obtain ⟨_, h2, h3⟩ := qsearch_bound fuel p st α β ply r st' hαβ h fuel' v hv
  by_cases hb : β ≤ r
  · exact h3 hb
  · have := h2 ⟨hr, by omega⟩; omega

/-- The statement exactly as first proposed: the reference is required to be defined *on the same fuel*
as a consequence of `qsearch` returning. It is false: `qsearch` prunes, so it can return on a fuel on
which the unpruned reference is still undefined (see `C19_qsearch_sound_full_false`). -/
def C19_qsearch_sound_full : Prop :=
  ∀ (fuel : Nat) (p : Position) (st : QState) (α β ply r : Int) (st' : QState), α < β →
    qsearch fuel p st α β ply = some (r, st') →
    ∃ v, qminimax fuel p = some v ∧ (α < v ∧ v < β → r = v) ∧ (r ≤ α → v ≤ r) ∧ (β ≤ r → r ≤ v)

/-- The same-fuel form holds as soon as the reference is defined on that fuel. -/
theorem C19_qsearch_sound_same_fuel (fuel : Nat) (p : Position) (st : QState) (α β ply r : Int)
    (st' : QState) (hαβ : α < β) (h : qsearch fuel p st α β ply = some (r, st'))
    (hdef : (qminimax fuel p).isSome) :
    ∃ v, qminimax fuel p = some v ∧ (α < v ∧ v < β → r = v) ∧ (r ≤ α → v ≤ r) ∧ (β ≤ r → r ≤ v) := by
  obtain ⟨v, hv⟩ := Option.isSome_iff_exists.mp hdef
  exact ⟨v, hv, C19_qsearch_sound fuel p st α β ply r st' hαβ h fuel v hv⟩

/-- **C19** (full window). With the window `(-INF, INF)` the result is the exact value,
given that the exact value is strictly inside (a consequence of the evaluation bound). -/
theorem C19_full_window (fuel : Nat) (p : Position) (st : QState) (ply r : Int) (st' : QState)
    (h : qsearch fuel p st (-Gen.INF_QS) Gen.INF_QS ply = some (r, st'))
    (fuel' : Nat) (v : Int) (hv : qminimax fuel' p = some v)
    (hin : -Gen.INF_QS < v ∧ v < Gen.INF_QS) : r = v :=
  (C19_qsearch_sound fuel p st (-Gen.INF_QS) Gen.INF_QS ply r st' (by decide) h fuel' v hv).1 hin

/-! ## side facts: monotone counters, independence of the incoming state -/

/-- `qsearch` never decreases `seldepth` nor `nodes`. -/
theorem C19_qsearch_counters_mono : ∀ (fuel : Nat) (p : Position) (st : QState) (α β ply r : Int)
    (st' : QState), qsearch fuel p st α β ply = some (r, st') →
    st.seldepth ≤ st'.seldepth ∧ st.nodes ≤ st'.nodes
  | 0, _, _, _, _, _, _, _, h => by cases h
  | fuel + 1, p, st, α, β, ply, r, st', h => by
    rw [qsearch_succ] at h
    split at h
    · simp only [Option.some.injEq, Prod.mk.injEq] at h
      obtain ⟨_, rfl⟩ := h
      exact ⟨by simp only; omega, Nat.le_refl _⟩
    · cases hs : sortQs p (legalCaptures p) with
      | none => rw [hs] at h; cases h
      | some moves =>
        rw [hs] at h
        simp only [Option.bind_some] at h
        have := AB.loop_mono (qcall (qsearch fuel) p ply) β
          (fun s t : QState => s.seldepth ≤ t.seldepth ∧ s.nodes ≤ t.nodes)
          (fun _ => ⟨Int.le_refl _, Nat.le_refl _⟩)
          (fun _ _ _ h1 h2 => ⟨Int.le_trans h1.1 h2.1, Nat.le_trans h1.2 h2.2⟩) moves ?_ _ _ _ r st' h
        · simp only at this; omega
        · intro m _ st1 a b r1 st1' hcall
          simp only [qcall] at hcall
          cases hm : p.makemove m false with
          | none => rw [hm] at hcall; cases hcall
          | some np =>
            rw [hm] at hcall
            have := C19_qsearch_counters_mono fuel np _ a b _ r1 st1' hcall
            simp only at this ⊢; omega

/-- the score (and whether the search returns at all) depends neither on the incoming counters nor on `ply`. -/
theorem C19_qsearch_score_indep : ∀ (fuel : Nat) (p : Position) (st₁ st₂ : QState) (α β ply₁ ply₂ : Int),
    (qsearch fuel p st₁ α β ply₁).map Prod.fst = (qsearch fuel p st₂ α β ply₂).map Prod.fst
  | 0, _, _, _, _, _, _, _ => rfl
  | fuel + 1, p, st₁, st₂, α, β, ply₁, ply₂ => by
    rw [qsearch_succ, qsearch_succ]
    split
    · rfl
    · cases sortQs p (legalCaptures p) with
      | none => rfl
      | some moves =>
        simp only [Option.bind_some]
        apply AB.loop_score_indep
        intro m _ s₁ s₂ a b
        simp only [qcall]
        cases p.makemove m false with
        | none => rfl
        | some np => exact C19_qsearch_score_indep fuel np _ _ a b _ _

/-! ## definedness: `qsearch` fails only on fuel exhaustion, buffer overflow or a failing `makemove` -/

/-- no node of the capture tree (to depth `fuel`) has more captures than the ordering buffer holds. -/
def QTreeOk : Nat → Position → Prop
  | 0, _ => True
  | f + 1, p => (legalCaptures p).length ≤ Gen.orderBufQsearch ∧
      ∀ m ∈ legalCaptures p, ∀ np, p.makemove m false = some np → QTreeOk f np

/-- if the reference is defined on `fuel` and the ordering buffer never overflows, `qsearch` returns on `fuel`. -/
theorem C19_qsearch_defined (fuel : Nat) (p : Position) (st : QState) (α β ply v : Int)
    (hv : qminimax fuel p = some v) (hok : QTreeOk fuel p) :
    ∃ r st', qsearch fuel p st α β ply = some (r, st') := by
  induction fuel generalizing p st α β ply v with
  | zero => cases hv
  | succ fuel ih =>
    rw [qsearch_succ]
    rw [qminimax_succ] at hv
    obtain ⟨hlen, hch⟩ := hok
    split
    · exact ⟨_, _, rfl⟩
    · obtain ⟨moves, hs⟩ := sortQs_isSome p (legalCaptures p) hlen
      rw [hs]
      simp only [Option.bind_some]
      apply AB.loop_isSome
      intro m hm st1 a b
      have hm' : m ∈ legalCaptures p := (sortQs_perm p _ _ hs).mem_iff.mp hm
      obtain ⟨c, hc⟩ := (AB.foldMax_isSome_iff _ _ _).mp ⟨v, hv⟩ m hm'
      simp only [qcv] at hc
      simp only [qcall]
      cases hmk : p.makemove m false with
      | none => rw [hmk] at hc; cases hc
      | some np =>
        rw [hmk] at hc
        simp only at hc ⊢
        cases hvc : qminimax fuel np with
        | none => rw [hvc] at hc; cases hc
        | some vc => exact ih np _ a b _ vc hvc (hch m hm' np hmk)

/-- **C19** (total form). On a capture tree that `fuel` exhausts and whose nodes fit the ordering buffer,
`qsearch` returns and its result obeys the three clauses against the exact value. -/
theorem C19_qsearch_total (fuel : Nat) (p : Position) (st : QState) (α β ply v : Int) (hαβ : α < β)
    (hv : qminimax fuel p = some v) (hok : QTreeOk fuel p) :
    ∃ r st', qsearch fuel p st α β ply = some (r, st') ∧
      (α < v ∧ v < β → r = v) ∧ (r ≤ α → v ≤ r) ∧ (β ≤ r → r ≤ v) := by
  obtain ⟨r, st', h⟩ := C19_qsearch_defined fuel p st α β ply v hv hok
  exact ⟨r, st', h, C19_qsearch_sound fuel p st α β ply r st' hαβ h fuel v hv⟩

/-- executable form of `QTreeOk`. -/
def qTreeOkB : Nat → Position → Bool
  | 0, _ => true
  | f + 1, p => decide ((legalCaptures p).length ≤ Gen.orderBufQsearch) &&
      (legalCaptures p).all fun m =>
        match p.makemove m false with
        | none => true
        | some np => qTreeOkB f np

theorem qTreeOkB_iff (f : Nat) (p : Position) : qTreeOkB f p = true ↔ QTreeOk f p := by
  induction f generalizing p with
  | zero => simp only [qTreeOkB, QTreeOk]
  | succ f ih =>
    simp only [qTreeOkB, QTreeOk, Bool.and_eq_true, decide_eq_true_eq, List.all_eq_true]
    refine and_congr_right fun _ => forall_congr' fun m => forall_congr' fun _ => ?_
    cases p.makemove m false with
    | none => exact ⟨fun _ np h => (by cases h), fun _ => rfl⟩
    | some np =>
      simp only [Option.some.injEq]
      exact ⟨fun h np' e => e ▸ (ih np).mp h, fun h => (ih np).mpr (h np rfl)⟩

/-! ## non-vacuity, and the counterexample to the same-fuel existence claim -/

/-- after 1.e4 d5 (White to move; the only capture is exd5). -/
def posE4D5 : Position :=
  { c0 := 0x000000001000efff#64, c1 := 0xfff7000800000000#64,
    p0 := 0x00f700081000ef00#64, p1 := 0x4200000000000042#64, p2 := 0x2400000000000024#64,
    p3 := 0x8100000000000081#64, p4 := 0x0800000000000008#64, p5 := 0x1000000000000010#64,
    halfmoves := 0, fullmoves := 1, black := false, ep := some 43,
    usK := true, usQ := true, themK := true, themQ := true,
    cf0 := 7, cf1 := 0, cf2 := 7, cf3 := 0, hash := 0x3e60c10927683aff#64, frc := false }

/-- after 1.e4 d5 2.exd5 (Black to move, a pawn down; the only capture is Qxd5, which wins it back).
Boards are relative to the side to move, as everywhere in the model. -/
def posExd5 : Position :=
  { c0 := 0x000000000000f7ff#64, c1 := 0xffef000008000000#64,
    p0 := 0x00ef00000800f700#64, p1 := 0x4200000000000042#64, p2 := 0x2400000000000024#64,
    p3 := 0x8100000000000081#64, p4 := 0x0800000000000008#64, p5 := 0x1000000000000010#64,
    halfmoves := 0, fullmoves := 1, black := true, ep := none,
    usK := true, usQ := true, themK := true, themQ := true,
    cf0 := 7, cf1 := 0, cf2 := 7, cf3 := 0, hash := 0x23659eab172e71f7#64, frc := false }

theorem posE4D5_captures : legalCaptures posE4D5 = [⟨28, 35, 6⟩] := by decide +kernel
theorem posE4D5_exd5 : posE4D5.makemove ⟨28, 35, 6⟩ true = some posExd5 := by decide +kernel
theorem posExd5_captures : legalCaptures posExd5 = [⟨3, 27, 6⟩] := by decide +kernel
theorem posExd5_eval : eval posExd5 = -109 := by decide +kernel
theorem posExd5_qminimax : qminimax 2 posExd5 = some 28 := by decide +kernel

theorem isSome_elim {α β : Type} (o : Option (α × β)) (h : o.isSome = true) : ∃ a b, o = some (a, b) := by
  cases o with
  | none => cases h
  | some x => exact ⟨x.1, x.2, rfl⟩

/-- The hypotheses of `C19_qsearch_sound` hold on a position where a capture changes the value
(static evaluation −109, exact value 28), with a window containing the value; the theorem yields `r = 28`. -/
example : ∃ r st', qsearch 2 posExd5 ⟨0, 0⟩ (-100) 100 0 = some (r, st') ∧
    qminimax 2 posExd5 = some 28 ∧ eval posExd5 = -109 ∧ r = 28 := by
  obtain ⟨r, st', h⟩ := isSome_elim (qsearch 2 posExd5 ⟨0, 0⟩ (-100) 100 0) (by decide +kernel)
  exact ⟨r, st', h, posExd5_qminimax, posExd5_eval,
    (C19_qsearch_sound 2 posExd5 ⟨0, 0⟩ (-100) 100 0 r st' (by decide) h 2 28 posExd5_qminimax).1
      (by decide)⟩

/-- fail-high and fail-low on the same position: the window `(-200, -100)` lies below the value 28,
the window `(100, 200)` above it; the model returns 28 both times (a lower resp. an upper bound). -/
example : (qsearch 2 posExd5 ⟨0, 0⟩ (-200) (-100) 0).map Prod.fst = some 28 ∧
    (qsearch 2 posExd5 ⟨0, 0⟩ 100 200 0).map Prod.fst = some 28 := by decide +kernel

/-- `C19_full_window` on the start position (no captures; fuel 1 suffices) … -/
example : ∃ r st', qsearch 1 Gen.startpos ⟨0, 0⟩ (-Gen.INF_QS) Gen.INF_QS 0 = some (r, st') ∧
    qminimax 1 Gen.startpos = some 0 ∧ r = 0 := by
  have hv : qminimax 1 Gen.startpos = some 0 := by decide +kernel
  obtain ⟨r, st', h⟩ := isSome_elim (qsearch 1 Gen.startpos ⟨0, 0⟩ (-Gen.INF_QS) Gen.INF_QS 0)
    (by decide +kernel)
  exact ⟨r, st', h, hv, C19_full_window 1 Gen.startpos ⟨0, 0⟩ 0 r st' h 1 0 hv (by decide)⟩

/-- … and on a three-ply capture tree (1.e4 d5: exd5 Qxd5 and no further capture). -/
example : ∃ r st', qsearch 3 posE4D5 ⟨0, 0⟩ (-Gen.INF_QS) Gen.INF_QS 0 = some (r, st') ∧
    qminimax 3 posE4D5 = some (-21) ∧ r = -21 := by
  have hv : qminimax 3 posE4D5 = some (-21) := by decide +kernel
  obtain ⟨r, st', h⟩ := isSome_elim (qsearch 3 posE4D5 ⟨0, 0⟩ (-Gen.INF_QS) Gen.INF_QS 0)
    (by decide +kernel)
  exact ⟨r, st', h, hv, C19_full_window 3 posE4D5 ⟨0, 0⟩ 0 r st' h 3 (-21) hv (by decide)⟩

/-- the hypotheses of `C19_qsearch_total` / `C19_qsearch_defined` hold on that tree. -/
example : qminimax 3 posE4D5 = some (-21) ∧ QTreeOk 3 posE4D5 :=
  ⟨by decide +kernel, (qTreeOkB_iff 3 posE4D5).mp (by decide +kernel)⟩

/-- The same-fuel existence claim is false: with the window `(eval p - 1, eval p)` the stand-pat cut-off
makes `qsearch 1` return at once, while the unpruned reference needs fuel for the capture exd5. -/
theorem C19_qsearch_sound_full_false : ¬ C19_qsearch_sound_full := by
  intro H
  obtain ⟨v, hv, _⟩ := H 1 posE4D5 ⟨0, 0⟩ (eval posE4D5 - 1) (eval posE4D5) 0 (eval posE4D5)
    { seldepth := max 0 0, nodes := 0 } (by omega) (by rw [qsearch_succ, if_pos (Int.le_refl _)])
  rw [qminimax_succ 0 posE4D5, posE4D5_captures] at hv
  simp only [AB.foldMax, qcv] at hv
  cases hm : posE4D5.makemove ⟨28, 35, 6⟩ false with
  | none => rw [hm] at hv; cases hv
  | some np => rw [hm] at hv; cases hv

#print axioms C19_qsearch_sound
#print axioms C19_qsearch_exact_of_result_inside
#print axioms C19_qsearch_sound_same_fuel
#print axioms C19_full_window
#print axioms C19_qsearch_counters_mono
#print axioms C19_qsearch_score_indep
#print axioms C19_qsearch_defined
#print axioms C19_qsearch_total
#print axioms C19_qsearch_sound_full_false
#print axioms sortQs_perm
#print axioms qminimax_mono

end Rawr
