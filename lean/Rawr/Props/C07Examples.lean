import Rawr.Props.C07
/-! Non-vacuity of C07(b,c) (kernel evaluation; kept apart from `C07.lean` for compile time). -/
namespace Rawr
open Position Spec FenC

/-- the absolute start position satisfies every hypothesis of `C07c_accepts`, in all three styles. -/
theorem startA_hyps : Spec.Valid (abs Gen.startpos) = true ∧ (abs Gen.startpos).half < 2147483648 ∧
    (abs Gen.startpos).full < 2147483648 ∧
    (rel (abs Gen.startpos) false).isSqAttacked
      (lsb ((rel (abs Gen.startpos) false).c1 &&& (rel (abs Gen.startpos) false).p5)) false = false := by
  decide +kernel

theorem startA_outermost : AllOutermost (abs Gen.startpos) := by
  intro w ks f h
  have key : ∀ w ks : Bool, (match Spec.right (abs Gen.startpos) w ks with
      | some f => Spec.outermost (abs Gen.startpos).board w ks f | none => true) = true := by decide +kernel
  have := key w ks
  rw [h] at this
  exact this

example (ar : Arith) (st : CastleStyle) :
    setFen ar false (printFen (abs Gen.startpos) st) = some (rel (abs Gen.startpos) false) :=
  C07c_accepts ar _ false st startA_hyps.1 (absBoard_ge _) startA_hyps.2.1 startA_hyps.2.2.1
    (fun _ => startA_outermost) startA_hyps.2.2.2

example : printFen (abs Gen.startpos) .shredder = "rnbqkbnr/pppppppp/8/8/8/8/PPPPPPPP/RNBQKBNR w HAha - 0 1".toList ∧
    printFen (abs Gen.startpos) .xfen = startFen := by decide +kernel


/-- a Chess960 position with an inner-rook right, Black to move, en-passant square: every hypothesis of
`C07c_domain` holds (X-FEN and Shredder spellings), so the theorem applies. -/
def exInner960 : List Char := "1r2k2r/8/8/8/4P3/8/8/R1R1K3 b Ck e3 5 17".toList
example : ((setFen .wrap true exInner960).map fun p =>
    (ValidPos p, p.isSqAttacked (lsb (p.c1 &&& p.p5)) false,
     printFen (abs p) .xfen == exInner960,
     printFen (abs p) .shredder == "1r2k2r/8/8/8/4P3/8/8/R1R1K3 b Ch e3 5 17".toList)) =
    some (true, false, true, true) := by decide +kernel

end Rawr
