import Rawr.Props.C14
import Rawr.Model.TimeBudget
import Rawr.Proofs.RustTimeAgree
/-!
# C14 / C03, clock limits: the budget arithmetic of `should_stop` and what the driver does once it has elapsed

`Rawr.timeBudget` / `Rawr.movetimeBudget` are the right-hand sides of the two clock comparisons of
`search::root::root`; `Rawr/Generated/RustFns.lean` regenerates them from root.rs on every run and
`agree_timeBudget`, `agree_movetimeBudget` (Proofs/RustFnsAgree) prove them equal to the model. The wall clock itself is
not modelled: `elapsed k` is the reading of `start.elapsed().as_millis()` at the `k`-th poll, an arbitrary
non-decreasing sequence.
-/
namespace Rawr

/-- The budget never exceeds the mover's own remaining clock, whatever `movestogo` says (0 included). -/
theorem C14_budget_le_clock (w : Bool) (wt bt : Nat) (mtg : Option Nat) :
    timeBudget w wt bt mtg ≤ (if w then wt else bt) := by
  unfold timeBudget
  exact Nat.div_le_self _ _

/-- No division by zero and no `u32` overflow: the divisor is at least 1 and every intermediate value is bounded by the
inputs (the Rust expression has no subtraction, addition or multiplication). -/
theorem C14_budget_u32 (w : Bool) (wt bt : Nat) (mtg : Option Nat) (hw : wt < 4294967296) (hb : bt < 4294967296) :
    1 ≤ Nat.max (mtg.getD 30) 1 ∧ timeBudget w wt bt mtg < 4294967296 := by
  refine ⟨Nat.le_max_right _ _, ?_⟩
  have := C14_budget_le_clock w wt bt mtg
  split at this <;> omega

/-- `movestogo 0` and `movestogo 1` both allot the whole clock; no `movestogo` allots a thirtieth. -/
theorem C14_budget_cases (w : Bool) (wt bt : Nat) :
    timeBudget w wt bt (some 0) = (if w then wt else bt) ∧ timeBudget w wt bt (some 1) = (if w then wt else bt) ∧
    timeBudget w wt bt none = (if w then wt else bt) / 30 := by
  simp [timeBudget]

/-- the induced oracle is monotone when the clock reading is. -/
theorem C14_budgetOracle_mono (b : Nat) (elapsed : Nat → Nat) (hm : ∀ i j, i ≤ j → elapsed i ≤ elapsed j) :
    MonoOracle (budgetOracle b elapsed) := by
  intro i j hij hi
  simp only [budgetOracle, decide_eq_true_eq] at *
  exact Nat.le_trans hi (hm i j hij)

/-- **Nothing is reported once the budget has elapsed**: if at some poll already made the clock reading had reached the
budget, the driver hands back exactly the records it already had (iterations beyond the first). -/
theorem C14_no_report_after_budget (b : Nat) (elapsed : Nat → Nat) (hm : ∀ i j, i ≤ j → elapsed i ≤ elapsed j)
    (fuel : Nat) (p : Position) (k : Nat) (depth : Int) (st : SState) (bestMove : Option Mv) (infos : List InfoRec)
    (res : RootResult) (hd : 1 < depth) (hfired : ∃ j, j ≤ st.polls ∧ b ≤ elapsed j)
    (h : rootIter (.clock (budgetOracle b elapsed)) fuel p k depth st bestMove infos = some res) :
    res.infos = infos.reverse := by
  obtain ⟨j, hj, hb⟩ := hfired
  exact C14_no_report_after_stop _ (C14_budgetOracle_mono b elapsed hm) fuel p k depth st bestMove infos res hd
    ⟨j, hj, by simp only [budgetOracle, decide_eq_true_eq]; exact hb⟩ h

/-- **Every reported iteration beyond the first finished inside the budget**, hence inside the mover's own clock:
at every poll made up to the end of that iteration the clock reading was below `timeBudget … ≤ ustime`. -/
theorem C14_reported_within_clock (w : Bool) (wt bt : Nat) (mtg : Option Nat) (elapsed : Nat → Nat)
    (hm : ∀ i j, i ≤ j → elapsed i ≤ elapsed j) (fuel : Nat) (p : Position)
    (k : Nat) (depth : Int) (st : SState) (bestMove : Option Mv) (infos : List InfoRec) (res : RootResult)
    (hd : 1 < depth)
    (h : rootIter (.clock (budgetOracle (timeBudget w wt bt mtg) elapsed)) fuel p (k + 1) depth st bestMove infos = some res)
    (hrep : res.infos ≠ infos.reverse) :
    ∃ score s1, negamax (.clock (budgetOracle (timeBudget w wt bt mtg) elapsed)) fuel p { st with depth := depth }
        (-Gen.INF) Gen.INF 0 depth false = some (score, s1) ∧
      ∀ j, j ≤ s1.polls → elapsed j < (if w then wt else bt) := by
  obtain ⟨score, s1, hnm, _, hall⟩ := C14_report_requires_all_polls_false _
    (C14_budgetOracle_mono _ elapsed hm) fuel p k depth st bestMove infos res hd h hrep
  refine ⟨score, s1, hnm, fun j hj => ?_⟩
  have := hall j hj
  simp only [budgetOracle, decide_eq_false_iff_not, Nat.not_le] at this
  exact Nat.lt_of_lt_of_le this (C14_budget_le_clock w wt bt mtg)

/-- **A zero budget** (clock 0, or a clock smaller than the moves to go): exactly the first iteration can be reported. -/
theorem C14_zero_budget (w : Bool) (wt bt : Nat) (mtg : Option Nat) (hz : timeBudget w wt bt mtg = 0)
    (elapsed : Nat → Nat) (hm : ∀ i j, i ≤ j → elapsed i ≤ elapsed j) (fuel : Nat) (p : Position)
    (hist : List BB) (tt : Table TTEntry) (res : RootResult)
    (h : root (.clock (budgetOracle (timeBudget w wt bt mtg) elapsed)) fuel p hist tt = some res) :
    res.infos.length ≤ 1 :=
  C14_expired_clock _ (C14_budgetOracle_mono _ elapsed hm) (by simp [budgetOracle, hz]) fuel p hist tt res h

/-- the same for `go movetime 0`. -/
theorem C14_zero_movetime (elapsed : Nat → Nat) (hm : ∀ i j, i ≤ j → elapsed i ≤ elapsed j) (fuel : Nat) (p : Position)
    (hist : List BB) (tt : Table TTEntry) (res : RootResult)
    (h : root (.clock (budgetOracle (movetimeBudget 0) elapsed)) fuel p hist tt = some res) :
    res.infos.length ≤ 1 :=
  C14_expired_clock _ (C14_budgetOracle_mono _ elapsed hm) (by simp [budgetOracle, movetimeBudget]) fuel p hist tt res h

/-! ## non-vacuity -/
namespace C14TimeEx
open C13Ex C03Ex C14Ex

example : timeBudget true 900 600 none = 30 ∧ timeBudget false 900 600 (some 10) = 60 ∧ timeBudget true 5 5 (some 0) = 5 ∧
    timeBudget false 19 19 (some 40) = 0 := by decide

/-- a 1 ms-per-poll clock against `wtime 90` (budget 3 ms): the run returns and reports at least iteration 1. -/
example : ∃ res, root (.clock (budgetOracle (timeBudget true 90 90 none) fun k => k)) 8 kpk hist2 tt3 = some res ∧
    res.infos ≠ [] := by
  have h : (root (.clock (budgetOracle (timeBudget true 90 90 none) fun k => k)) 8 kpk hist2 tt3).isSome = true := by
    decide +kernel
  obtain ⟨res, h1⟩ := Option.isSome_iff_exists.1 h
  refine ⟨res, h1, ?_⟩
  have h2 : ((root (.clock (budgetOracle (timeBudget true 90 90 none) fun k => k)) 8 kpk hist2 tt3).map
      fun r => decide (r.infos ≠ [])) = some true := by decide +kernel
  rw [h1] at h2
  simpa using h2

end C14TimeEx

end Rawr

#print axioms Rawr.C14_budget_le_clock
#print axioms Rawr.C14_budget_u32
#print axioms Rawr.C14_no_report_after_budget
#print axioms Rawr.C14_reported_within_clock
#print axioms Rawr.C14_zero_budget
#print axioms Rawr.C14_zero_movetime
