import Rawr.Proofs.GenSliders
/-!
# C01, knight and slider classes; the safety lemma

`moveGenerator p` tags every move with the moving piece (1 knight, 2 bishop, 3 rook, 4 queen). For a
position of the domain (`ValidPos`):

* `C01_safety` (= `Att.safe_after_move`, `Proofs/GenSafety.lean`): for every move of an own piece from `f` to
  a square `t ≠ f` not holding an own piece, with no other change of the board (every move that is not a king
  move, en passant or castling): the mover's king is not attacked afterwards iff `t ∈ allowed` and `t` lies
  on the pin line of `f` (`Att.PinOk`; trivially true for an unpinned piece, `Proofs/GenPins.lean`);
* `C01_knights`, `C01_bishops`, `C01_rooks`, `C01_queens`: the generated moves with tag 1, 2, 3, 4 are
  exactly the legal moves (of `Spec.legalMoves (abs p)`) of the mover's knights, bishops, rooks, queens.
  The generator's `!pinned` for knights, `bishopMoves &&& allowed &&& bxrays` for diagonally pinned
  bishops/queens and `rookMoves &&& allowed &&& rxrays` for orthogonally pinned rooks/queens are justified by
  `Att.pinned_not_pinOk_knight`, `Att.bpinned_pinOk_iff`, `Att.rpinned_pinOk_iff` (a slider on one pin line
  cannot reach another pin line of the same class: `Att.same_dir`) and
  `Att.bpinned_not_pinOk_orth` / `Att.rpinned_not_pinOk_diag`.
-/
namespace Rawr
open Spec Att

/-- C01, the safety lemma (see `Att.safe_after_move`). -/
theorem C01_safety (p : Position) (hV : ValidPos p = true) (f t : Nat) (hf : f < 64) (ht : t < 64)
    (hus : p.c0.isSet f = true) (hft : t ≠ f) (hto : p.c0.isSet t = false)
    (pc : Piece) (hpc : pc.white = !p.black) :
    Spec.attackedBy
        (setSq (setSq (abs p).board (absSq p.black f) none) (absSq p.black t) (some pc))
        p.black (absSq p.black (prelude p).ksq) = false ↔
      ((prelude p).allowed.isSet t = true ∧ PinOk p f t) :=
  safe_after_move hV hf ht hus hft hto pc hpc

/-- the safety lemma in the generator's own terms, for a diagonal slide (`f → t` diagonal, path empty;
this includes a single diagonal step): the king is safe afterwards iff `t ∈ allowed` and the piece is not
pinned, or it is pinned on a diagonal and `t ∈ bxrays`. -/
theorem C01_safety_diag (p : Position) (hV : ValidPos p = true) (f t : Nat) (hf : f < 64) (ht : t < 64)
    (hus : p.c0.isSet f = true) (hto : p.c0.isSet t = false) (pc : Piece) (hpc : pc.white = !p.black)
    (hd : diagAtt (relBoard p) f t = true) :
    Spec.attackedBy
        (setSq (setSq (abs p).board (absSq p.black f) none) (absSq p.black t) (some pc))
        p.black (absSq p.black (prelude p).ksq) = false ↔
      ((prelude p).allowed.isSet t = true ∧ ((prelude p).pinned.isSet f = false ∨
        ((prelude p).bpinned.isSet f = true ∧ (prelude p).bxrays.isSet t = true))) := by
  have hft : t ≠ f := by
    intro e; rw [e] at hd; simp [diagAtt] at hd
  rw [safe_after_move hV hf ht hus hft hto pc hpc]
  unfold BB.isSet at *
  rw [pinOk_diag_move hV hus ht hto hd]

/-- the same for a slide along a rank or file: `rpinned` and `rxrays`. -/
theorem C01_safety_orth (p : Position) (hV : ValidPos p = true) (f t : Nat) (hf : f < 64) (ht : t < 64)
    (hus : p.c0.isSet f = true) (hto : p.c0.isSet t = false) (pc : Piece) (hpc : pc.white = !p.black)
    (ho : orthAtt (relBoard p) f t = true) :
    Spec.attackedBy
        (setSq (setSq (abs p).board (absSq p.black f) none) (absSq p.black t) (some pc))
        p.black (absSq p.black (prelude p).ksq) = false ↔
      ((prelude p).allowed.isSet t = true ∧ ((prelude p).pinned.isSet f = false ∨
        ((prelude p).rpinned.isSet f = true ∧ (prelude p).rxrays.isSet t = true))) := by
  have hft : t ≠ f := by
    intro e; rw [e] at ho; simp [orthAtt] at ho
  rw [safe_after_move hV hf ht hus hft hto pc hpc]
  unfold BB.isSet at *
  rw [pinOk_orth_move hV hus ht ho]

/-- the same for a knight's move: only an unpinned piece may make it. -/
theorem C01_safety_knight (p : Position) (hV : ValidPos p = true) (f t : Nat) (hf : f < 64) (ht : t < 64)
    (hus : p.c0.isSet f = true) (hto : p.c0.isSet t = false) (pc : Piece) (hpc : pc.white = !p.black)
    (hk : knightStep f t = true) :
    Spec.attackedBy
        (setSq (setSq (abs p).board (absSq p.black f) none) (absSq p.black t) (some pc))
        p.black (absSq p.black (prelude p).ksq) = false ↔
      ((prelude p).allowed.isSet t = true ∧ (prelude p).pinned.isSet f = false) := by
  have hft : t ≠ f := by
    intro e; rw [e] at hk; simp [knightStep] at hk
  rw [safe_after_move hV hf ht hus hft hto pc hpc]
  unfold BB.isSet at *
  constructor
  · rintro ⟨h1, h2⟩
    refine ⟨h1, ?_⟩
    cases hpin : (prelude p).pinned.getLsbD f
    · rfl
    · exact absurd h2 (pinned_not_pinOk_knight hV hpin hk)
  · rintro ⟨h1, h2⟩
    exact ⟨h1, pinOk_of_not_pinned hV hus h2 t⟩

/-- C01, knights. -/
theorem C01_knights (p : Position) (hV : ValidPos p = true) : ∀ f t : Nat,
    gm 1 f t 6 ∈ moveGenerator p ↔
      (Move.normal (absSq p.black f) (absSq p.black t) none ∈ Spec.legalMoves (abs p) ∧
        p.p1.isSet f = true ∧ p.c0.isSet f = true) :=
  knights_core hV

/-- C01, bishops. -/
theorem C01_bishops (p : Position) (hV : ValidPos p = true) : ∀ f t : Nat,
    gm 2 f t 6 ∈ moveGenerator p ↔
      (Move.normal (absSq p.black f) (absSq p.black t) none ∈ Spec.legalMoves (abs p) ∧
        p.p2.isSet f = true ∧ p.c0.isSet f = true) :=
  bishops_core hV

/-- C01, rooks. -/
theorem C01_rooks (p : Position) (hV : ValidPos p = true) : ∀ f t : Nat,
    gm 3 f t 6 ∈ moveGenerator p ↔
      (Move.normal (absSq p.black f) (absSq p.black t) none ∈ Spec.legalMoves (abs p) ∧
        p.p3.isSet f = true ∧ p.c0.isSet f = true) :=
  rooks_core hV

/-- C01, queens. -/
theorem C01_queens (p : Position) (hV : ValidPos p = true) : ∀ f t : Nat,
    gm 4 f t 6 ∈ moveGenerator p ↔
      (Move.normal (absSq p.black f) (absSq p.black t) none ∈ Spec.legalMoves (abs p) ∧
        p.p4.isSet f = true ∧ p.c0.isSet f = true) :=
  queens_core hV

/-- the converse reading: every legal move starting on a square of a mover's knight/bishop/rook/queen has no
promotion piece and is generated with that piece's tag. -/
theorem C01_pieces_abs (p : Position) (pcTag : Nat) (f : Nat) (b : Nat) (pr : Option Kind)
    (hB : relBoard p f = some ⟨true, kindOf pcTag⟩) (htag : pcTag = 1 ∨ pcTag = 2 ∨ pcTag = 3 ∨ pcTag = 4)
    (hleg : Move.normal (absSq p.black f) b pr ∈ Spec.legalMoves (abs p)) : pr = none := by
  have hBa : (abs p).board (absSq p.black f) = some ⟨!p.black, kindOf pcTag⟩ := (abs_at_us p f _).mpr hB
  have hk : kindOf pcTag ≠ .pawn := by rcases htag with rfl | rfl | rfl | rfl <;> decide
  have h' := ((mem_legal_normal _ _ _ _).mp hleg).1.2
  rw [mem_pseudoFrom_piece _ _ _ hBa rfl hk] at h'
  obtain ⟨t, _, _, _, e⟩ := h'
  injection e

/-! ## non-vacuity -/

/-- White: Ke1 (4), Qd2 (11, pinned on the diagonal by Ba5), Re3 (20, pinned on the file by Re8), Bg2 (14),
Nb1 (1); Black: Kh8 (63), Ba5 (32), Re8 (60). -/
def slidePos : Position :=
  let q : Position :=
    { Position.dflt with
      c0 := (bit 4 ||| bit 11 ||| bit 20 ||| bit 14 ||| bit 1), c1 := (bit 63 ||| bit 32 ||| bit 60),
      p1 := bit 1, p2 := (bit 14 ||| bit 32), p3 := (bit 20 ||| bit 60), p4 := bit 11,
      p5 := (bit 4 ||| bit 63) }
  { q with hash := q.calculateHash }

/-- the colour-swapped position (Black to move): exercises the frame change. -/
def slidePosB : Position :=
  let q : Position := { slidePos with black := true }
  { q with hash := q.calculateHash }

example : ValidPos slidePos = true ∧ ValidPos slidePosB = true ∧ ValidPos safetyPos = true := by
  decide +kernel

/-- the generator side: the pinned queen moves along its pin line only (c3, b4, xa5), the pinned rook along the
file only, the bishop and the knight freely. -/
example : (prelude slidePos).bpinned.isSet 11 = true ∧ (prelude slidePos).rpinned.isSet 20 = true ∧
    gm 4 11 18 6 ∈ moveGenerator slidePos ∧ gm 4 11 32 6 ∈ moveGenerator slidePos ∧
    gm 4 11 10 6 ∉ moveGenerator slidePos ∧ gm 4 11 2 6 ∉ moveGenerator slidePos ∧
    gm 3 20 28 6 ∈ moveGenerator slidePos ∧ gm 3 20 60 6 ∈ moveGenerator slidePos ∧
    gm 3 20 21 6 ∉ moveGenerator slidePos ∧ gm 2 14 21 6 ∈ moveGenerator slidePos ∧
    gm 1 1 18 6 ∈ moveGenerator slidePos := by decide +kernel

/-- … and through the theorems these are statements about `Spec.legalMoves`. -/
example : Move.normal 11 18 none ∈ Spec.legalMoves (abs slidePos) :=
  ((C01_queens slidePos (by decide +kernel) 11 18).mp (by decide +kernel)).1
example : Move.normal 11 10 none ∉ Spec.legalMoves (abs slidePos) := fun h =>
  absurd ((C01_queens slidePos (by decide +kernel) 11 10).mpr ⟨h, by decide +kernel, by decide +kernel⟩)
    (by decide +kernel)
example : Move.normal 20 60 none ∈ Spec.legalMoves (abs slidePos) :=
  ((C01_rooks slidePos (by decide +kernel) 20 60).mp (by decide +kernel)).1
example : Move.normal 14 21 none ∈ Spec.legalMoves (abs slidePos) :=
  ((C01_bishops slidePos (by decide +kernel) 14 21).mp (by decide +kernel)).1
example : Move.normal 1 18 none ∈ Spec.legalMoves (abs slidePos) :=
  ((C01_knights slidePos (by decide +kernel) 1 18).mp (by decide +kernel)).1
/-- Black to move, mirrored board: the queen d7 (relative d2 = 11, absolute 51) goes to c6 (absolute 42). -/
example : Move.normal 51 42 none ∈ Spec.legalMoves (abs slidePosB) :=
  ((C01_queens slidePosB (by decide +kernel) 11 18).mp (by decide +kernel)).1
/-- in `safetyPos` (bishop check from b4) the knight d1 may only interpose on c3 / d2; the bishop e2 is
pinned on the file and cannot move at all. -/
example : gm 1 3 18 6 ∈ moveGenerator safetyPos ∧ gm 1 3 13 6 ∉ moveGenerator safetyPos ∧
    gm 2 12 19 6 ∉ moveGenerator safetyPos := by decide +kernel
example : Move.normal 12 19 none ∉ Spec.legalMoves (abs safetyPos) := fun h =>
  absurd ((C01_bishops safetyPos (by decide +kernel) 12 19).mpr ⟨h, by decide +kernel, by decide +kernel⟩)
    (by decide +kernel)

#print axioms C01_safety
#print axioms C01_safety_diag
#print axioms C01_safety_orth
#print axioms C01_safety_knight
#print axioms C01_knights
#print axioms C01_bishops
#print axioms C01_rooks
#print axioms C01_queens
#print axioms C01_pieces_abs

end Rawr
