import Rawr.Props.C07
import Rawr.Props.C06
import Rawr.Props.C08d
/-! # C07(c) and C06 without the bridge hypothesis

`C07c_accepts`, `C06a_roundtrip`, `C06b_parse_print` carry the hypothesis that `validate`'s attack test
(the model's `isSqAttacked` on the king of the side not to move) is passed. On the engine's domain this is
`Spec.Valid`'s clause "the side not to move is not in check", by C08d (`C08d_inCheckThem_valid`). -/
namespace Rawr
open Position Spec FenC

/-- the bridge: on `ValidPos`, the attack test of `validate` is passed. -/
theorem C07_bridge : C07_C08d_bridge := by
  intro p hV
  have h := C08d_inCheckThem_valid p hV
  obtain ⟨_, hVa, _⟩ := validPos_split hV
  have hnc : Spec.inCheck (abs p).board p.black = false := by
    unfold Spec.Valid at hVa
    simp only [Bool.and_eq_true] at hVa
    have := hVa.1.1.1.1.2
    have e : (!(abs p).whiteToMove) = p.black := by
      show (!(!p.black)) = p.black
      exact Bool.not_not _
    rw [e] at this
    simpa using this
  unfold Position.inCheckThem at h
  rw [BitVec.and_comm] at h
  rw [h]; exact hnc

/-- **C07(c)**, unconditional: every FEN (X-FEN, Shredder, or — when every right's rook is the outermost —
`KQkq` spelling) of a valid position with pieces on the 64 squares only and counters below `2^31` is
accepted in both arithmetics and read to exactly that position. -/
theorem C07c_complete : C07c_full := C07c_full_of C07_bridge

/-- **C06(a)**, unconditional. -/
theorem C06a_complete : C06a_full := C06a_full_of C07_bridge

/-- **C06(b)**, unconditional. -/
theorem C06b_complete : C06b_full := C06b_full_of C07_bridge

/-- for the record: on the domain `set_fen ∘ get_fen` is the identity up to the castle files of absent rights,
and `get_fen` never fails. -/
theorem C06a_domain (ar : Arith) (p : Position) (hV : ValidPos p = true) :
    ∃ s, getFen p = some s ∧ setFen ar p.frc s = some (normCf p) :=
  ⟨_, C06a_prints p hV, C06a_complete ar p hV _ (C06a_prints p hV)⟩

/-- every FEN of a position of the domain is accepted (both arithmetics) and is structurally valid. -/
theorem C07c_domain_complete (ar : Arith) (p : Position) (st : CastleStyle) (hV : ValidPos p = true)
    (hst : st = .kqkq → AllOutermost (abs p)) :
    setFen ar p.frc (printFen (abs p) st) = some (normCf p) ∧ StructurallyValid (normCf p) := by
  have h := C07c_domain ar p st hV hst (C07_bridge p hV)
  exact ⟨h, C07a_sound ar p.frc _ _ h⟩

#print axioms C07_bridge
#print axioms C07c_complete
#print axioms C06a_complete
#print axioms C06b_complete
#print axioms C06a_domain
#print axioms C07c_domain_complete
end Rawr
