import Rawr.Proofs.FenValid1
import Rawr.Proofs.FenValid2
import Rawr.Props.C07_full
/-! # C07: an accepted FEN yields a position of the engine's domain `ValidPos`

C07(a) (`C07a_sound`) states soundness of `set_fen` with `StructurallyValid` (V.1–V.8 on the ENGINE
representation, attack clause = the model's own `isSqAttacked`). C01, C02, C03, … and the translator
agreement theorems quantify over `ValidPos p = true` (`Rawr/Abs.lean`: board consistency, `Spec.Valid (abs p)`
on the ABSOLUTE coordinate board, counters `< 2^31`, all four castle files `< 8`, stored key = recomputed key).
This file supplies the link:

* `structurallyValid_validPos` : the structural clauses (+ the four file bounds) imply `ValidPos`
  — clause by clause `Spec.Valid (abs p)`; the attack clause through C08d (`C08d_inCheckThem`);
* `setFen_castle_files` : in an accepted position all four castle files are `< 8` (files of absent rights
  keep `Position::default()`'s 7, 0, 7, 0: the castling loop writes a file only together with its right);
* `C07_accepted_validPos` : `setFen ar frc s = some p → ValidPos p = true` — all strings, both arithmetics;
* `C07_accepted_iff` : the positions `set_fen` can return are EXACTLY the positions of the domain whose
  absent rights carry the default files (`normCf p = p`) and whose `frc` flag is the one passed in;
* `validPos_iff_structurallyValid` : `ValidPos p ↔ StructurallyValid p ∧ the four file bounds`.

Clause-by-clause outcome (no discrepancy, the theorem holds at full strength):
* every clause of `Spec.Valid` (one king per colour, no pawn on rank 1/8, side not to move not in check,
  each right: file `< 8`, own rook on the home-rank square of that file, unique king on the home rank and on
  the correct side of the rook; en-passant square on rank 6/3, empty, enemy pawn behind it; `0 ≤ half`,
  `1 ≤ full`) is implied by acceptance;
* conversely everything `validate` tests is required by `ValidPos` (`validate_of_valid`); `validate` has no
  test that `ValidPos` does not require;
* four conjuncts of `ValidPos` are NOT tested by `validate` and are guaranteed by the parser instead: the
  union equality of V.1 (`c0 ||| c1` = union of the piece boards; `validate` tests only the pairwise
  overlaps — the board loop toggles one colour bit and one piece bit per character, `C07a_parity`), the upper
  bounds `< 2^31` of the counters (`parse::<i32>`), the four file bounds (castling loop; for an ABSENT right
  neither `validate` nor `StructurallyValid` constrain the file — see `c07vOffFile'` below) and the key
  (recomputed by `set_fen` just before `validate`). -/
namespace Rawr
open Position Spec FenC FenValid

/-- **1.** the structural clauses V.1–V.8 on the engine representation, with all four castle files on the
board, put the position in the engine's domain. -/
theorem structurallyValid_validPos (p : Position) (h : StructurallyValid p)
    (h0 : p.cf0 < 8) (h1 : p.cf1 < 8) (h2 : p.cf2 < 8) (h3 : p.cf3 < 8) : ValidPos p = true := by
  unfold ValidPos
  simp only [Bool.and_eq_true, decide_eq_true_eq, beq_iff_eq]
  exact ⟨⟨⟨⟨⟨⟨⟨⟨h.consistent, spec_valid_of_structural h⟩, h.half31⟩, h.full31⟩, h0⟩, h1⟩, h2⟩, h3⟩, h.key⟩

/-- the `Spec.Valid` part alone needs no file bound for absent rights. -/
theorem structurallyValid_specValid (p : Position) (h : StructurallyValid p) : Spec.Valid (abs p) = true :=
  spec_valid_of_structural h

/-- **2.** all four castle files of an accepted position are on the board. -/
theorem setFen_castle_files (ar : Arith) (frc : Bool) (s : List Char) (p : Position)
    (h : setFen ar frc s = some p) : p.cf0 < 8 ∧ p.cf1 < 8 ∧ p.cf2 < 8 ∧ p.cf3 < 8 :=
  cfNorm_lt (setFen_cfNorm h).1

/-- … more precisely: files of absent rights are the defaults 7, 0, 7, 0, and the `frc` flag is kept. -/
theorem setFen_normCf (ar : Arith) (frc : Bool) (s : List Char) (p : Position)
    (h : setFen ar frc s = some p) : normCf p = p ∧ p.frc = frc :=
  ⟨cfNorm_normCf (setFen_cfNorm h).1, (setFen_cfNorm h).2⟩

/-- **3. C07, domain form.** For every string, either value of the `frc` flag and both arithmetics: if
`set_fen` accepts, the resulting position lies in the domain `ValidPos` over which C01, C02, C03, … and the
translator agreement theorems are stated. -/
theorem C07_accepted_validPos (ar : Arith) (frc : Bool) (s : List Char) (p : Position) :
    setFen ar frc s = some p → ValidPos p = true := by
  intro h
  obtain ⟨h0, h1, h2, h3⟩ := setFen_castle_files ar frc s p h
  exact structurallyValid_validPos p (C07a_sound ar frc s p h) h0 h1 h2 h3

/-- **C07, exact range.** The positions `set_fen` returns (for a given arithmetic and `frc` flag) are exactly
the positions of the domain with default files for the absent rights and that `frc` flag. (`⇐` is
`C07c_domain_complete`: the position's own X-FEN is accepted and read back to it.) -/
theorem C07_accepted_iff (ar : Arith) (frc : Bool) (p : Position) :
    (∃ s, setFen ar frc s = some p) ↔ (ValidPos p = true ∧ normCf p = p ∧ p.frc = frc) := by
  constructor
  · rintro ⟨s, h⟩
    exact ⟨C07_accepted_validPos ar frc s p h, setFen_normCf ar frc s p h⟩
  · rintro ⟨hV, hn, hf⟩
    refine ⟨printFen (abs p) .xfen, ?_⟩
    have := (C07c_domain_complete ar p .xfen hV (fun h => by cases h)).1
    rw [hn, hf] at this
    exact this

/-- the two builds accept (different sets of strings, `C07.lean`: `fen320`, but) the same set of positions. -/
theorem C07_accepted_range_arith (frc : Bool) (p : Position) :
    (∃ s, setFen .wrap frc s = some p) ↔ (∃ s, setFen .trap frc s = some p) := by
  rw [C07_accepted_iff, C07_accepted_iff]

/-! ### `ValidPos` and `StructurallyValid` are the same predicate (up to the file bounds) -/

/-- `StructurallyValid` does not look at the files of absent rights. -/
theorem structurallyValid_of_normCf (p : Position) (h : StructurallyValid (normCf p)) : StructurallyValid p :=
  { consistent := h.consistent, whiteKing := h.whiteKing, blackKing := h.blackKing
    noPawnsOnEnds := h.noPawnsOnEnds, notInCheck := h.notInCheck
    usK := fun hu => by have := h.usK hu; simpa only [normCf, hu, if_true] using this
    usQ := fun hu => by have := h.usQ hu; simpa only [normCf, hu, if_true] using this
    themK := fun hu => by have := h.themK hu; simpa only [normCf, hu, if_true] using this
    themQ := fun hu => by have := h.themQ hu; simpa only [normCf, hu, if_true] using this
    ep := h.ep, half0 := h.half0, half31 := h.half31, full1 := h.full1, full31 := h.full31, key := h.key }

/-- the converse of `structurallyValid_validPos`. -/
theorem validPos_structurallyValid (p : Position) (hV : ValidPos p = true) :
    StructurallyValid p ∧ p.cf0 < 8 ∧ p.cf1 < 8 ∧ p.cf2 < 8 ∧ p.cf3 < 8 := by
  refine ⟨structurallyValid_of_normCf p (C07c_domain_complete .wrap p .xfen hV (fun h => by cases h)).2, ?_⟩
  unfold ValidPos at hV
  simp only [Bool.and_eq_true, decide_eq_true_eq] at hV
  exact ⟨hV.1.1.1.1.2, hV.1.1.1.2, hV.1.1.2, hV.1.2⟩

/-- the engine-side clauses V.1–V.8 (attack clause by the engine's own `is_sq_attacked`) and the
specification-side domain (attack clause by `Spec.inCheck` on the coordinate board) coincide. -/
theorem validPos_iff_structurallyValid (p : Position) :
    ValidPos p = true ↔ (StructurallyValid p ∧ p.cf0 < 8 ∧ p.cf1 < 8 ∧ p.cf2 < 8 ∧ p.cf3 < 8) :=
  ⟨validPos_structurallyValid p, fun ⟨h, h0, h1, h2, h3⟩ => structurallyValid_validPos p h h0 h1 h2 h3⟩

/-! ### non-vacuity -/

/-- the start FEN: accepted, so the built-in start position is in the domain — by the theorem. -/
example : ValidPos Gen.startpos = true :=
  C07_accepted_validPos .wrap false startFen Gen.startpos (by decide +kernel)

/-- a Chess960 X-FEN with a file-letter right (`C` = the INNER white rook on c1; another white rook on a1),
Black to move, an en-passant square. -/
def c07vFrcFen : List Char := "1r2k2r/8/8/8/4P3/8/8/R1R1K3 b Ck e3 5 17".toList

theorem c07vFrcFen_accepted : (setFen .trap true c07vFrcFen).map
    (fun p => p.black && p.usK && p.cf0 == 7 && !p.usQ && !p.themK && p.themQ && p.cf3 == 2 &&
      p.ep == some 44 && p.frc) = some true := by decide +kernel

/-- the theorem applies to it: the accepted position (Black to move, so White's right `C` is `themQ` with
file 2, Black's `k` is `usK` with file 7; absent rights carry the defaults) is in the domain. -/
example : ∃ p, setFen .trap true c07vFrcFen = some p ∧ ValidPos p = true ∧ normCf p = p ∧
    p.black = true ∧ p.themQ = true ∧ p.cf3 = 2 ∧ p.usK = true ∧ p.cf0 = 7 := by
  have h := c07vFrcFen_accepted
  cases hs : setFen .trap true c07vFrcFen with
  | none => rw [hs] at h; cases h
  | some p =>
    rw [hs] at h
    simp only [Option.map_some, Option.some.injEq, Bool.and_eq_true, beq_iff_eq] at h
    obtain ⟨⟨⟨⟨⟨⟨⟨⟨a, b⟩, c⟩, _⟩, _⟩, d⟩, e⟩, _⟩, _⟩ := h
    exact ⟨p, rfl, C07_accepted_validPos _ _ _ p hs, (setFen_normCf _ _ _ p hs).1, a, d, e, b, c⟩

/-- and the exact-range theorem in the `⇐` direction on the start position. -/
example : ∃ s, setFen .trap false s = some Gen.startpos :=
  (C07_accepted_iff .trap false Gen.startpos).mpr (by decide +kernel)

/-- the file bounds of `ValidPos` cannot be dropped from `structurallyValid_validPos`: the start position
with the file of an absent right off the board is `StructurallyValid` (which ignores such files) but not
`ValidPos`. `set_fen` never produces it (`setFen_normCf`). -/
def c07vOffFile : Position := { Gen.startpos with usK := false, cf0 := 9, hash := 0 }
def c07vOffFile' : Position := { c07vOffFile with hash := c07vOffFile.calculateHash }
example : ValidPos c07vOffFile' = false ∧ ValidPos (normCf c07vOffFile') = true := by decide +kernel
example : StructurallyValid c07vOffFile' :=
  structurallyValid_of_normCf _ (validPos_structurallyValid _ (by decide +kernel)).1

#print axioms structurallyValid_validPos
#print axioms setFen_castle_files
#print axioms setFen_normCf
#print axioms C07_accepted_validPos
#print axioms C07_accepted_iff
#print axioms C07_accepted_range_arith
#print axioms validPos_iff_structurallyValid
end Rawr
