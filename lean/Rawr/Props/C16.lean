import Rawr.Proofs.UciSafe
/-! # C16 — `ucinewgame` + `position` make the engine forget everything but its option values

The second loop of `listen` is the state machine `stepSecond ar clock : UState → line → Option (UState × output × quit)`;
`steps` iterates it (`secondLoop_eq`: `secondLoop ls s out = (steps s ls).map (out ++ ·.output)`).

1. `C16_newgame_position_determines_state` : from any state `s` satisfying the loop invariant `UInv`
   (table length = configured size, `pos.frc = frc`; `stepSecond_inv`, `steps_inv`, `listen_state_inv`) the two
   lines `[ucinewgame, L]` lead to the same result — state (ALL components), output, panic or not — as from
   `fresh s.hashMb s.frc`; hence every later output is identical (`C16_later_outputs_equal`).
   (Already `ucinewgame` alone equalises the states: `C16_newgame_resets`; so `L` may be any line.)
2. `C16_position_determines_pos_hist` : without `ucinewgame`, `position …` yields the same position, history and
   output (and panics or not alike) from any two states with the same `frc` flags; table, `hashMb`, `frc` are
   left alone (`doPosition_keeps`).
3. `C16_fresh_process` : whole-process form on `listen`. -/
namespace Rawr
open Table

/-! ## the table after `clear` -/

theorem Table.clear_eq_new {α : Type} [Inhabited α] [DecidableEq α] (t : Table α) (mb es : Nat)
    (h : t.len = numEntries mb es) : t.clear = Table.new mb es :=
  ext_slot (by rw [len_clear, len_new, h]) fun i _ => by rw [slot_clear, slot_new]

/-! ## single commands -/

/-- `ucinewgame` alone: the resulting state depends only on the option values (given the invariant). -/
theorem C16_newgame_resets (ar : Arith) (clock : Nat → Bool) (s t : UState) (hs : UInv s) (ht : UInv t)
    (hh : s.hashMb = t.hashMb) (hf : s.frc = t.frc) (N : List Char) (hN : cmdOf N = str "ucinewgame") :
    stepSecond ar clock s N = stepSecond ar clock t N := by
  rw [stepSecond_ucinewgame ar clock s N hN, stepSecond_ucinewgame ar clock t N hN]
  have e : s.tt.clear = t.tt.clear := by
    rw [Table.clear_eq_new _ _ _ hs.len, Table.clear_eq_new _ _ _ ht.len, hh]
  rw [e, hf]
  cases s; cases t
  simp only at hh hf
  subst hh; subst hf
  rfl

/-- and it is the state `fresh hashMb frc` with a cleared (= new) table. -/
theorem stepSecond_ucinewgame_fresh (ar : Arith) (clock : Nat → Bool) (s : UState) (hs : UInv s) (N : List Char)
    (hN : cmdOf N = str "ucinewgame") :
    stepSecond ar clock s N = some (fresh s.hashMb s.frc, [], false) := by
  rw [stepSecond_ucinewgame ar clock s N hN, Table.clear_eq_new _ _ _ hs.len]
  rfl

/-! ## 1. `ucinewgame`, `position` -/

/-- From any reachable state, `[ucinewgame, L]` gives the same state (all components), output and quit flag
— or panics alike — as from a fresh engine with the same option values. -/
theorem C16_newgame_position_steps (ar : Arith) (clock : Nat → Bool) (s : UState) (hs : UInv s)
    (N L : List Char) (hN : cmdOf N = str "ucinewgame") (qs : List (List Char)) :
    steps ar clock s (N :: L :: qs) = steps ar clock (fresh s.hashMb s.frc) (N :: L :: qs) := by
  have e := C16_newgame_resets ar clock s (fresh s.hashMb s.frc) hs (fresh_inv _ _) rfl rfl N hN
  simp only [steps, e]

/-- the explicit form: if neither run panics, the states after `[ucinewgame, L]` agree on all components
(`pos`, `hist`, `tt`, `hashMb`, `frc`), and so do the outputs of `L`. -/
theorem C16_newgame_position_determines_state (ar : Arith) (clock : Nat → Bool) (s : UState) (hs : UInv s)
    (N L : List Char) (hN : cmdOf N = str "ucinewgame") (_hL : cmdOf L = str "position")
    (s1 s2 f1 f2 : UState) (o1 o2 p1 p2 : List String) (q1 q2 r1 r2 : Bool)
    (a1 : stepSecond ar clock s N = some (s1, o1, q1)) (a2 : stepSecond ar clock s1 L = some (s2, o2, q2))
    (b1 : stepSecond ar clock (fresh s.hashMb s.frc) N = some (f1, p1, r1))
    (b2 : stepSecond ar clock f1 L = some (f2, p2, r2)) :
    s2.pos = f2.pos ∧ s2.hist = f2.hist ∧ s2.tt = f2.tt ∧ s2.hashMb = f2.hashMb ∧ s2.frc = f2.frc ∧
      s2 = f2 ∧ o2 = p2 := by
  have e := C16_newgame_resets ar clock s (fresh s.hashMb s.frc) hs (fresh_inv _ _) rfl rfl N hN
  rw [a1, b1] at e
  cases e
  rw [a2] at b2
  cases b2
  exact ⟨rfl, rfl, rfl, rfl, rfl, rfl, rfl⟩

/-- hence every later output is identical: the whole transcript of the second loop from `ucinewgame` on. -/
theorem C16_later_outputs_equal (ar : Arith) (clock : Nat → Bool) (s : UState) (hs : UInv s)
    (N L : List Char) (hN : cmdOf N = str "ucinewgame") (qs : List (List Char)) (out : List String) :
    secondLoop ar clock (N :: L :: qs) s out = secondLoop ar clock (N :: L :: qs) (fresh s.hashMb s.frc) out := by
  rw [secondLoop_eq, secondLoop_eq, C16_newgame_position_steps ar clock s hs N L hN qs]

/-- congruence: equal states give equal transcripts. -/
theorem secondLoop_congr (ar : Arith) (clock : Nat → Bool) (ls : List (List Char)) (s t : UState) (out : List String)
    (h : s = t) : secondLoop ar clock ls s out = secondLoop ar clock ls t out := by rw [h]

/-! ## 2. `position` without `ucinewgame` -/

/-- `position` leaves table and options alone. -/
theorem doPosition_keeps {ar : Arith} {s : UState} {toks : List (List Char)} {r : UState × List String}
    (h : doPosition ar s toks = some r) : r.1.tt = s.tt ∧ r.1.hashMb = s.hashMb ∧ r.1.frc = s.frc := by
  unfold doPosition at h
  simp only at h
  split at h
  · cases h
  · split at h
    · cases h
    · cases h; exact ⟨rfl, rfl, rfl⟩

/-- position, history and output of a `position` command depend on the old state only through the flags
`frc` and `pos.frc` (equal to each other under `UInv`). -/
theorem C16_position_determines_pos_hist (ar : Arith) (s t : UState) (hf : s.frc = t.frc)
    (hpf : s.pos.frc = t.pos.frc) (toks : List (List Char)) :
    ((doPosition ar s toks).map fun r => (r.1.pos, r.1.hist, r.2)) =
      ((doPosition ar t toks).map fun r => (r.1.pos, r.1.hist, r.2)) := by
  unfold doPosition
  simp only [hf, hpf]
  split
  · rfl
  · split <;> rfl

/-- the same on the state machine: for two reachable states with the same `UCI_Chess960` value, a `position`
line yields the same position, history, output (or panics alike); the tables may differ. -/
theorem C16_position_line (ar : Arith) (clock : Nat → Bool) (s t : UState) (hs : UInv s) (ht : UInv t)
    (hf : s.frc = t.frc) (L : List Char) (hL : cmdOf L = str "position") :
    ((stepSecond ar clock s L).map fun r => (r.1.pos, r.1.hist, r.2)) =
      ((stepSecond ar clock t L).map fun r => (r.1.pos, r.1.hist, r.2)) := by
  rw [stepSecond_position ar clock s L hL, stepSecond_position ar clock t L hL]
  have := C16_position_determines_pos_hist ar s t hf (by rw [hs.frc, ht.frc, hf]) (argsOf L)
  simp only [Option.map_map] at this ⊢
  cases h1 : doPosition ar s (argsOf L) <;> cases h2 : doPosition ar t (argsOf L) <;>
    simp only [h1, h2, Option.map_none, Option.map_some, Option.some.injEq, reduceCtorEq] at this ⊢
  simp only [Function.comp, Prod.mk.injEq] at this ⊢
  exact ⟨this.1, this.2.1, this.2.2, trivial⟩

/-! ## 3. whole processes -/

/-- the invariant `pos.frc = frc` holds through the first loop. -/
theorem firstLoop_frc {ls : List (List Char)} {s : UState} (h : s.pos.frc = s.frc)
    {r : UState × Bool × List (List Char)} (hr : firstLoop ls s = some r) : r.1.pos.frc = r.1.frc := by
  induction ls generalizing s with
  | nil => simp only [firstLoop] at hr; cases hr; exact h
  | cons l ls ih =>
    simp only [firstLoop] at hr
    split at hr
    · cases hr; exact h
    · split at hr
      · exact ih (doSetoption_frc h _ _) hr
      · split at hr
        · cases hr
        · cases hr; exact h

/-- `UInv` holds when the second loop starts … -/
theorem afterFirst_inv {lines : List (List Char)} {r : UState × Bool × List (List Char)}
    (h : afterFirst lines = some r) : UInv r.1 := by
  unfold afterFirst at h
  rw [Option.map_eq_some_iff] at h
  obtain ⟨r0, h0, e⟩ := h
  subst e
  exact ⟨Table.len_resize _ _ _, firstLoop_frc (s := initState) (r := r0) rfl h0⟩

/-- … and in every state the process `listen` goes through (`listen_eq`: `listen` = banner, first loop,
`steps` from `afterFirst`). -/
theorem listen_state_inv (ar : Arith) (clock : Nat → Bool) {lines pre : List (List Char)}
    {s0 : UState} {r0 : Bool} {rest : List (List Char)} (h : afterFirst lines = some (s0, r0, rest))
    {s : UState} {o : List String} {q : Bool} (hs : steps ar clock s0 pre = some (s, o, q)) : UInv s :=
  steps_inv (afterFirst_inv h) hs

/-- general form of item 1: two reachable states with the same option values behave identically from
`ucinewgame` on. -/
theorem C16_newgame_steps_eq (ar : Arith) (clock : Nat → Bool) (s t : UState) (hs : UInv s) (ht : UInv t)
    (hh : s.hashMb = t.hashMb) (hf : s.frc = t.frc) (N : List Char) (hN : cmdOf N = str "ucinewgame")
    (qs : List (List Char)) : steps ar clock s (N :: qs) = steps ar clock t (N :: qs) := by
  have e := C16_newgame_resets ar clock s t hs ht hh hf N hN
  simp only [steps, e]

/-- the options set in the first loop. -/
def applyOpts (opts : List (List Char)) (s : UState) : UState :=
  opts.foldl (fun s l => doSetoption s (argsOf l) false) s

/-- the state of a fresh process that has read the `setoption` lines `opts` and then `isready`. -/
def started (opts : List (List Char)) : UState :=
  let s := applyOpts opts initState
  { s with tt := s.tt.resize s.hashMb Gen.ttEntrySize }

theorem firstLoop_opts (opts : List (List Char)) (R : List Char) (rest : List (List Char)) (s : UState)
    (hopts : ∀ l ∈ opts, cmdOf l = str "setoption") (hR : cmdOf R = str "isready") :
    firstLoop (opts ++ R :: rest) s = some (applyOpts opts s, true, rest) := by
  induction opts generalizing s with
  | nil =>
    unfold cmdOf at hR
    simp only [List.nil_append, firstLoop, hR, BEq.rfl, if_true, applyOpts, List.foldl_nil]
  | cons l ls ih =>
    have hl := hopts l (by simp)
    unfold cmdOf at hl
    have d : (str "setoption" == str "isready") = false := by decide
    simp only [List.cons_append, firstLoop, hl, d, BEq.rfl, if_true, Bool.false_eq_true, if_false]
    rw [ih _ (fun x hx => hopts x (by simp [hx]))]
    rfl

theorem afterFirst_opts (opts : List (List Char)) (R : List Char) (rest : List (List Char))
    (hopts : ∀ l ∈ opts, cmdOf l = str "setoption") (hR : cmdOf R = str "isready") :
    afterFirst (opts ++ R :: rest) = some (started opts, true, rest) := by
  unfold afterFirst
  rw [firstLoop_opts opts R rest _ hopts hR]
  rfl

/-- **C16, process form.** An engine that was configured by `opts`, answered `isready`, and then executed ANY
lines `mid` (without quitting or panicking) produces, from `ucinewgame; L; qs` on, exactly the output `tail`
that a freshly started engine with the same option values (configured by `opts'`) produces for
`ucinewgame; L; qs` — including whether it panics (`tail = none`). -/
theorem C16_fresh_process (ar : Arith) (clock : Nat → Bool) (opts opts' mid qs : List (List Char))
    (R R' N L : List Char)
    (hopts : ∀ l ∈ opts, cmdOf l = str "setoption") (hopts' : ∀ l ∈ opts', cmdOf l = str "setoption")
    (hR : cmdOf R = str "isready") (hR' : cmdOf R' = str "isready") (hN : cmdOf N = str "ucinewgame")
    (s2 : UState) (o2 : List String) (hmid : steps ar clock (started opts) mid = some (s2, o2, false))
    (hsame : (started opts').hashMb = s2.hashMb ∧ (started opts').frc = s2.frc) :
    ∃ tail : Option (List String),
      listen ar clock (opts ++ R :: (mid ++ N :: L :: qs)) =
        tail.map (fun t => banner false 16 ++ ["readyok"] ++ o2 ++ t) ∧
      listen ar clock (opts' ++ R' :: N :: L :: qs) =
        tail.map (fun t => banner false 16 ++ ["readyok"] ++ t) := by
  refine ⟨(steps ar clock s2 (N :: L :: qs)).map (·.2.1), ?_, ?_⟩
  · rw [listen_eq, afterFirst_opts opts R _ hopts hR]
    simp only [if_true]
    rw [steps_append, hmid]
    simp only [Option.map_map]
    cases steps ar clock s2 (N :: L :: qs) with
    | none => rfl
    | some r => simp [List.append_assoc]
  · rw [listen_eq, afterFirst_opts opts' R' _ hopts' hR']
    simp only [if_true]
    have i1 : UInv (started opts') := afterFirst_inv (afterFirst_opts opts' R' [] hopts' hR')
    have i2 : UInv s2 := steps_inv (afterFirst_inv (afterFirst_opts opts R [] hopts hR)) hmid
    rw [C16_newgame_steps_eq ar clock (started opts') s2 i1 i2 hsame.1 hsame.2 N hN (L :: qs)]
    simp only [Option.map_map]
    rfl

/-! ## non-vacuity -/
namespace C16Ex

/-- a "dirty" reachable-looking state: Black to move, odd counters, three history keys. -/
def dirty : UState :=
  { hashMb := 0, frc := false, pos := { Gen.startpos with black := true, halfmoves := 7 },
    hist := [1#64, 2#64, 3#64], tt := ⟨#[]⟩ }

theorem dirty_inv : UInv dirty := ⟨by decide, rfl⟩

def nl : List Char := str "ucinewgame"
def pl : List Char := str "position startpos moves e2e4 e7e5"

/-- the two runs of item 1 exist (neither panics) and, by the theorem, agree; the output of the later queries
(`history`, `go perft 1`) is non-trivial. -/
example : ∃ s2 o, steps .trap (fun _ => false) dirty [nl, pl, str "history", str "go perft 1"] = some (s2, o, false) ∧
    steps .trap (fun _ => false) (fresh 0 false) [nl, pl, str "history", str "go perft 1"] = some (s2, o, false) ∧
    o.length = 5 ∧ s2.hist.length = 3 := by
  have h : ((steps .trap (fun _ => false) dirty [nl, pl, str "history", str "go perft 1"]).map fun r =>
      (r.2.1.length, r.1.hist.length, r.2.2)) = some (5, 3, false) := by decide +kernel
  obtain ⟨⟨s2, o, q⟩, h1, h2⟩ := Option.map_eq_some_iff.1 h
  simp only [Prod.mk.injEq] at h2
  obtain ⟨a, b, rfl⟩ := h2
  refine ⟨s2, o, h1, ?_, a, b⟩
  have e := C16_newgame_position_steps .trap (fun _ => false) dirty dirty_inv nl pl (by decide)
    [str "history", str "go perft 1"]
  exact e ▸ h1

/-- the table part on a small generic table: four dirty slots, cleared = new table of four slots. -/
example : (⟨#[1, 2, 3, 4]⟩ : Table Nat).clear = Table.new 1 262144 :=
  Table.clear_eq_new _ _ _ (by decide)

/-- item 2: from the dirty state and from the fresh one a `position` line gives the same position and history
(here: three keys), without `ucinewgame`. -/
example : ((stepSecond .wrap (fun _ => false) dirty pl).map fun r => (r.1.pos, r.1.hist, r.2)) =
    ((stepSecond .wrap (fun _ => false) (fresh 0 false) pl).map fun r => (r.1.pos, r.1.hist, r.2)) ∧
    ((stepSecond .wrap (fun _ => false) dirty pl).map fun r => r.1.hist.length) = some 3 :=
  ⟨C16_position_line .wrap _ dirty (fresh 0 false) dirty_inv (fresh_inv _ _) rfl pl (by decide), by decide +kernel⟩

/-- item 3: the hypotheses of `C16_fresh_process` are satisfiable: a process that answered `isready`, then played
through `position … moves`, `go perft 1`, `moves` (no option changed, so `opts' = []` gives the same values). -/
example : ∃ s2 o2, steps .trap (fun _ => false) (started [])
      [str "position startpos moves e2e4", str "go perft 1", str "moves e7e5 zz"] = some (s2, o2, false) ∧
    (started []).hashMb = s2.hashMb ∧ (started []).frc = s2.frc ∧ o2.length = 3 := by
  have h : ((steps .trap (fun _ => false) (started [])
      [str "position startpos moves e2e4", str "go perft 1", str "moves e7e5 zz"]).map fun r =>
      (r.1.hashMb, r.1.frc, r.2.1.length, r.2.2)) = some (16, false, 3, false) := by decide +kernel
  obtain ⟨⟨s2, o, q⟩, h1, h2⟩ := Option.map_eq_some_iff.1 h
  simp only [Prod.mk.injEq] at h2
  obtain ⟨a, b, c, rfl⟩ := h2
  exact ⟨s2, o, h1, a.symm, b.symm, c⟩

end C16Ex

#print axioms C16_newgame_resets
#print axioms C16_newgame_position_steps
#print axioms C16_newgame_position_determines_state
#print axioms C16_later_outputs_equal
#print axioms C16_position_determines_pos_hist
#print axioms C16_position_line
#print axioms listen_state_inv
#print axioms C16_fresh_process
end Rawr
