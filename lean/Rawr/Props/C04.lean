import Rawr.Proofs.HashKeys
import Rawr.Proofs.HashSpec
import Rawr.Proofs.HashNull
import Rawr.Proofs.HashMove
import Rawr.Proofs.HashValid
/-! # C04  Position key: incremental equals recomputed, and depends on the position only -/
namespace Rawr
open Position Spec ZH

/-! ## (d) the extracted key table -/

/-- All 781 keys of the extracted table (768 piece keys, 8 en-passant, 4 castling, 1 turn) are pairwise
distinct, non-zero and below `2^64`; hence so are the 781 `BB` keys of `genKeys`. Checked by kernel
evaluation of `bucketsOk 32 allKeysNat` over `Gen.zKeys`, `Gen.zKeysEp`, `Gen.zKeysCastling`, `Gen.zKeyTurn`. -/
theorem C04d_keys_distinct :
    (Gen.zKeys.size = 768 ∧ Gen.zKeysEp.size = 8 ∧ Gen.zKeysCastling.size = 4) ∧
    (allKeysNat.Nodup ∧ ∀ k ∈ allKeysNat, k ≠ 0 ∧ k < 2 ^ 64) ∧
    (genKeyList.Nodup ∧ (∀ k ∈ genKeyList, k ≠ 0#64) ∧ genKeyList.length = 781) :=
  ⟨keys_sizes, allKeysNat_ok, genKeyList_ok⟩

/-- the stored key of the built-in start position is its recomputed key. -/
theorem C04d_startpos_key : Gen.startpos.hash = Gen.startpos.calculateHash := startpos_key

/-! ## (c) the recomputed key is a function of the absolute position only -/

/-- `calculate_hash` of a board-consistent engine position is the specification key of the absolute
position it denotes (for every key table). -/
theorem C04c_calc_eq_spec (K : ZKeys) (p : Position) (h : Consistent p) :
    calculateHashK K p = zobristAbs K (abs p) := calc_eq_spec K p h

/-- Two engine positions denoting the same placement, side to move, castling rights (as booleans) and
en-passant file have the same key: the move counters, the castle files, the rank of the en-passant
square and the stored key field play no role. -/
theorem C04c_position_only (K : ZKeys) (p q : Position) (hp : Consistent p) (hq : Consistent q)
    (hb : ∀ s, s < 64 → (abs p).board s = (abs q).board s)
    (ht : (abs p).whiteToMove = (abs q).whiteToMove)
    (hwK : (abs p).wK.isSome = (abs q).wK.isSome) (hwQ : (abs p).wQ.isSome = (abs q).wQ.isSome)
    (hbK : (abs p).bK.isSome = (abs q).bK.isSome) (hbQ : (abs p).bQ.isSome = (abs q).bQ.isSome)
    (hep : (abs p).ep.map (· % 8) = (abs q).ep.map (· % 8)) :
    calculateHashK K p = calculateHashK K q := by
  rw [calc_eq_spec K p hp, calc_eq_spec K q hq]
  exact zobristAbs_congr K _ _ hb ht hwK hwQ hbK hbQ hep

/-- Perspective: storing the same boards from the other side's point of view (`flip`, which also
passes the move) changes the key by exactly the turn key. No hypothesis on `p`. -/
theorem C04c_flip (K : ZKeys) (p : Position) :
    calculateHashK K p.flip = calculateHashK K p ^^^ K.turn := calc_flip K p

/-- non-vacuity: the start position is consistent; a copy with other counters, castle files and stored
key denotes the same (board, turn, rights, ep file) and is a different `Position`. -/
example : Consistent Gen.startpos = true := by decide
example :
    let q : Position := { Gen.startpos with halfmoves := 17, fullmoves := 9, cf0 := 5, cf3 := 2, hash := 1#64 }
    q ≠ Gen.startpos ∧ calculateHashK genKeys q = calculateHashK genKeys Gen.startpos := by
  intro q
  refine ⟨by decide, ?_⟩
  apply C04c_position_only genKeys q Gen.startpos (by decide) (by decide)
  · intro s _; rfl
  all_goals rfl

/-! ## (b) null move -/

/-- `makenull` keeps the stored key equal to the recomputed key. -/
theorem C04b_null (p : Position) (h : p.hash = p.calculateHash) :
    p.makenull.hash = p.makenull.calculateHash := null_preserves p h

/-- non-vacuity: the hypothesis holds for the start position, and after 1. e4 (en-passant square set,
so the null move has an en-passant key to remove). -/
example : Gen.startpos.hash = Gen.startpos.calculateHash := C04d_startpos_key
example : ∃ q, Gen.startpos.makemove ⟨12, 28, 6⟩ true = some q ∧ q.ep.isSome ∧ q.hash = q.calculateHash := by
  decide +kernel

/-! ## (a) moves

Hypotheses. `KeyHyps p` (Bool): `Consistent p`, at most one king of the side to move, every castling right
backed by a rook of the right colour on its square. `MoveShape p m` (Bool): the shape of every generated
move — own piece on `src`; `dst` empty / enemy piece / own castling rook (king takes rook, on the right side,
king's and rook's target squares free); a pawn leaves its file onto an empty square only en passant (ep
square = `dst`, enemy pawn behind it, no promotion); promotion pieces only for pawns. Both follow from
`ValidPos p` and `m ∈ legalMoves p`: the first implication is `C04a_keyHyps_of_valid` below, the second
(`MoveShape` of every generated move) is not proved here — it needs the generator's correctness
(e.g. that a slider target is never an own piece goes through the magic tables); it is kernel-checked
on the start position in the examples and is executable, so the differential harness can check it. -/

/-- on the domain, the position hypotheses hold. -/
theorem C04a_keyHyps_of_valid (p : Position) (hv : ValidPos p = true) : KeyHyps p = true :=
  keyHyps_of_valid hv

/-- Key-table-generic form: in a position whose stored key is the key recomputed w.r.t. `K`, the key
`predict_hash` computes (w.r.t. `K`) for a move equals the key recomputed (w.r.t. `K`) from the position
`makemove` produces (with or without key update). -/
theorem C04a_predict_generic (K : ZKeys) (p : Position) (m : Mv) (u : Bool) (q : Position) (h : BB)
    (kh : KeyHyps p = true) (hm : MoveShape p m = true) (hinv : p.hash = calculateHashK K p)
    (hp : predictHashK K p m = some h) (hq : p.makemove m u = some q) : h = calculateHashK K q :=
  predict_eq_calc K kh hm hinv hp hq

/-- C04(a) for the engine's table: after `makemove::<true>` the stored key is the predicted key and equals
the key recomputed from scratch. -/
theorem C04a_predict (p : Position) (m : Mv) (h : BB) (q : Position)
    (kh : KeyHyps p = true) (hm : MoveShape p m = true) (hinv : p.hash = p.calculateHash)
    (hp : p.predictHash m = some h) (hq : p.makemove m true = some q) :
    q.hash = h ∧ q.hash = q.calculateHash := by
  obtain ⟨h1, h2⟩ := move_preserves kh hm hinv hq
  rw [hp] at h1
  exact ⟨(Option.some.inj h1).symm, h2⟩

/-- the move classes, for reference (each is an instance of `C04a_predict`; the proof is organised as
non-castling moves with optional capture / en-passant capture / promotion, and castling either side). -/
theorem C04a_any (p : Position) (m : Mv) (q : Position)
    (kh : KeyHyps p = true) (hm : MoveShape p m = true) (hinv : p.hash = p.calculateHash)
    (hq : p.makemove m true = some q) : p.predictHash m = some q.hash ∧ q.hash = q.calculateHash :=
  move_preserves kh hm hinv hq

/-- the statement over the engine's own domain and generator. -/
def C04a_full : Prop :=
  ∀ (p : Position) (m : Mv) (h : BB) (q : Position), ValidPos p = true → m ∈ legalMoves p →
    p.predictHash m = some h → p.makemove m true = some q → q.hash = h ∧ q.hash = q.calculateHash

/-- C04(a) on the domain, for any move of the generated shape. -/
theorem C04a_valid (p : Position) (m : Mv) (h : BB) (q : Position) (hv : ValidPos p = true)
    (hm : MoveShape p m = true) (hp : p.predictHash m = some h) (hq : p.makemove m true = some q) :
    q.hash = h ∧ q.hash = q.calculateHash := by
  have hinv : p.hash = p.calculateHash := by
    simp only [ValidPos, Bool.and_eq_true, beq_iff_eq] at hv
    exact hv.2
  exact C04a_predict p m h q (keyHyps_of_valid hv) hm hinv hp hq

/-- what is missing for `C04a_full`: that every generated move has the shape. -/
theorem C04a_full_of
    (H2 : ∀ (p : Position) (m : Mv), ValidPos p = true → m ∈ legalMoves p → MoveShape p m = true) :
    C04a_full := by
  intro p m h q hv hmem hp hq
  exact C04a_valid p m h q hv (H2 p m hv hmem) hp hq

/-! non-vacuity: quiet move, castling, en passant, capture-promotion that removes a castling right -/

/-- a position given by its boards (mover = White), key recomputed. -/
def mkPos (c0 c1 p0 p1 p2 p3 p4 p5 : BB) (ep : Option Nat) (uK uQ tK tQ : Bool) : Position :=
  let p : Position :=
    { c0 := c0, c1 := c1, p0 := p0, p1 := p1, p2 := p2, p3 := p3, p4 := p4, p5 := p5,
      halfmoves := 0, fullmoves := 1, black := false, ep := ep,
      usK := uK, usQ := uQ, themK := tK, themQ := tQ, cf0 := 7, cf1 := 0, cf2 := 7, cf3 := 0,
      hash := 0#64, frc := false }
  { p with hash := p.calculateHash }

def okExample (p : Position) (m : Mv) : Bool :=
  KeyHyps p && MoveShape p m && p.hash == p.calculateHash &&
  match p.makemove m true with
  | some q => p.predictHash m == some q.hash && q.hash == q.calculateHash
  | none => false

-- 1. e4 from the start position; every generated move of the start position has the shape
example : okExample Gen.startpos ⟨12, 28, 6⟩ = true := by decide +kernel
example : ValidPos Gen.startpos = true := by decide +kernel
example : (legalMoves Gen.startpos).all (MoveShape Gen.startpos) = true := by decide +kernel
-- O-O: Ke1 takes Rh1 (Kg1, Rf1); Black king e8
example : okExample (mkPos 0x90#64 0x1000000000000000#64 0 0 0 0x80#64 0 0x1000000000000010#64 none true false false false)
    ⟨4, 7, 6⟩ = true := by decide +kernel
-- O-O-O in a Chess960 set-up: Kb1 takes Ra1 (Kc1, Rd1)
example : okExample (mkPos 0x3#64 0x1000000000000000#64 0 0 0 0x1#64 0 0x1000000000000002#64 none false true false false)
    ⟨1, 0, 6⟩ = true := by decide +kernel
-- e5xd6 en passant
example : okExample (mkPos 0x1000000010#64 0x1000000800000000#64 0x1800000000#64 0 0 0 0 0x1000000000000010#64
    (some 43) false false false false) ⟨36, 43, 6⟩ = true := by decide +kernel
-- b7xa8=Q, taking the rook that backs Black's queen-side right
example : okExample (mkPos 0x2000000000010#64 0x1100000000000000#64 0x2000000000000#64 0 0 0x100000000000000#64 0
    0x1000000000000010#64 none false false false true) ⟨49, 56, 4⟩ = true := by decide +kernel

/-! ## sequences -/

/-- one ply: a move (from a position with `KeyHyps`, of `MoveShape`, made with key update) or a null move. -/
inductive KeyStep : Position → Position → Prop
  | move {p q : Position} (m : Mv) : KeyHyps p = true → MoveShape p m = true →
      p.makemove m true = some q → KeyStep p q
  | null (p : Position) : KeyStep p p.makenull

/-- any finite sequence of plies. -/
inductive KeyPath : Position → Position → Prop
  | nil (p : Position) : KeyPath p p
  | cons {p q r : Position} : KeyStep p q → KeyPath q r → KeyPath p r

/-- the incrementally maintained key equals the recomputed key after any sequence of moves and null moves. -/
theorem C04_sequence {p q : Position} (path : KeyPath p q) (h : p.hash = p.calculateHash) :
    q.hash = q.calculateHash := by
  induction path with
  | nil p => exact h
  | cons st _ ih =>
    apply ih
    cases st with
    | move m kh hm hq => exact (move_preserves kh hm h hq).2
    | null => exact C04b_null _ h

/-- non-vacuity: 1. e4 (null) from the start position is such a path. -/
example : ∃ q r, Gen.startpos.makemove ⟨12, 28, 6⟩ true = some q ∧ r = q.makenull ∧
    KeyPath Gen.startpos r ∧ r.hash = r.calculateHash := by
  have h1 : (Gen.startpos.makemove ⟨12, 28, 6⟩ true).isSome = true := by decide +kernel
  obtain ⟨q, hq⟩ := Option.isSome_iff_exists.mp h1
  have path : KeyPath Gen.startpos q.makenull :=
    .cons (.move ⟨12, 28, 6⟩ (by decide +kernel) (by decide +kernel) hq) (.cons (.null q) (.nil _))
  exact ⟨q, _, hq, rfl, path, C04_sequence path C04d_startpos_key⟩

#print axioms C04d_keys_distinct
#print axioms C04d_startpos_key
#print axioms C04c_calc_eq_spec
#print axioms C04c_position_only
#print axioms C04c_flip
#print axioms C04b_null
#print axioms C04a_predict_generic
#print axioms C04a_predict
#print axioms C04a_keyHyps_of_valid
#print axioms C04a_valid
#print axioms C04a_full_of
#print axioms C04_sequence
end Rawr
