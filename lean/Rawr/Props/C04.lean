import Rawr.Proofs.HashKeys
import Rawr.Proofs.HashSpec
/-! # C04  Position key: incremental equals recomputed, and depends on the position only -/
namespace Rawr
open Position Spec ZH

/-! ## (d) the extracted key table -/

/-- All 781 keys of the extracted table (768 piece keys, 8 en-passant, 4 castling, 1 turn) are pairwise
distinct, non-zero and below `2^64`; hence so are the 781 `BB` keys of `genKeys`. Checked by kernel
evaluation of `bucketsOk 32 allKeysNat` over `Gen.zKeys`, `Gen.zKeysEp`, `Gen.zKeysCastling`, `Gen.zKeyTurn`. -/
theorem C04d_keys_distinct :
    (Gen.zKeys.size = 768 ∧ Gen.zKeysEp.size = 8 ∧ Gen.zKeysCastling.size = 4) ∧
    (allKeysNat.Nodup ∧ ∀ k ∈ allKeysNat, k ≠ 0 ∧ k < 2 ^ 64) ∧
    (genKeyList.Nodup ∧ (∀ k ∈ genKeyList, k ≠ 0#64) ∧ genKeyList.length = 781) :=
  ⟨keys_sizes, allKeysNat_ok, genKeyList_ok⟩

/-- the stored key of the built-in start position is its recomputed key. -/
theorem C04d_startpos_key : Gen.startpos.hash = Gen.startpos.calculateHash := startpos_key

/-! ## (c) the recomputed key is a function of the absolute position only -/

/-- `calculate_hash` of a board-consistent engine position is the specification key of the absolute
position it denotes (for every key table). -/
theorem C04c_calc_eq_spec (K : ZKeys) (p : Position) (h : Consistent p) :
    calculateHashK K p = zobristAbs K (abs p) := calc_eq_spec K p h

/-- Two engine positions denoting the same placement, side to move, castling rights (as booleans) and
en-passant file have the same key: the move counters, the castle files, the rank of the en-passant
square and the stored key field play no role. -/
theorem C04c_position_only (K : ZKeys) (p q : Position) (hp : Consistent p) (hq : Consistent q)
    (hb : ∀ s, s < 64 → (abs p).board s = (abs q).board s)
    (ht : (abs p).whiteToMove = (abs q).whiteToMove)
    (hwK : (abs p).wK.isSome = (abs q).wK.isSome) (hwQ : (abs p).wQ.isSome = (abs q).wQ.isSome)
    (hbK : (abs p).bK.isSome = (abs q).bK.isSome) (hbQ : (abs p).bQ.isSome = (abs q).bQ.isSome)
    (hep : (abs p).ep.map (· % 8) = (abs q).ep.map (· % 8)) :
    calculateHashK K p = calculateHashK K q := by
  rw [calc_eq_spec K p hp, calc_eq_spec K q hq]
  exact zobristAbs_congr K _ _ hb ht hwK hwQ hbK hbQ hep

/-- Perspective: storing the same boards from the other side's point of view (`flip`, which also
passes the move) changes the key by exactly the turn key. No hypothesis on `p`. -/
theorem C04c_flip (K : ZKeys) (p : Position) :
    calculateHashK K p.flip = calculateHashK K p ^^^ K.turn := calc_flip K p

/-- non-vacuity: the start position is consistent; a copy with other counters, castle files and stored
key denotes the same (board, turn, rights, ep file) and is a different `Position`. -/
example : Consistent Gen.startpos = true := by decide
example :
    let q : Position := { Gen.startpos with halfmoves := 17, fullmoves := 9, cf0 := 5, cf3 := 2, hash := 1#64 }
    q ≠ Gen.startpos ∧ calculateHashK genKeys q = calculateHashK genKeys Gen.startpos := by
  intro q
  refine ⟨by decide, ?_⟩
  apply C04c_position_only genKeys q Gen.startpos (by decide) (by decide)
  · intro s _; rfl
  all_goals rfl

#print axioms C04d_keys_distinct
#print axioms C04d_startpos_key
#print axioms C04c_calc_eq_spec
#print axioms C04c_position_only
#print axioms C04c_flip
end Rawr
