import Rawr.Props.C03
/-! # C14 — limits are honoured, the result is coherent

Statements about the model functions `rootIter` / `root` of `Rawr/Model/Search.lean` themselves.

Unconditional (every limit, table, history, fuel): `C14_depths_consecutive`, `C14_best_is_pv_head`,
`C14_nodes_rule`, `C14_no_report_after_stop`, `C14_report_requires_all_polls_false`, `C14_expired_clock`.

Under the hypotheses of C03 (`SearchDom G`, `G fuel p`, bounded table, bounded recursion depth):
`C14_depth_iterations`, `C14_depth_cap` (finding F10), `C14_depth_zero`,
`C14_scores_inside_mate_bounds_partial` (with `TTSane`: stored scores strictly inside the mate bounds, and
`fuel ≤ 2·MATE_SCORE`; the statement without the bound on the recursion depth is kept as
`C14_scores_inside_mate_bounds_full`). -/
namespace Rawr

/-- every stored score is strictly inside the mate bounds. -/
def TTSane (t : Table TTEntry) : Prop := TTIn Gen.MATE_SCORE t

theorem TTSane.bounded {t : Table TTEntry} (h : TTSane t) : TTBounded t :=
  fun e he => (h e he).mono MATE_le_INF

/-! ## depths are consecutive from 1 (every limit) -/

theorem C14_depths_consecutive (lim : Limit) (fuel : Nat) (p : Position) (hist : List BB) (tt : Table TTEntry)
    (res : RootResult) (h : root lim fuel p hist tt = some res) :
    res.infos.map (·.depth) = (List.range' 1 res.infos.length).map Int.ofNat := by
  obtain ⟨n, hn⟩ := rootIter_depths lim fuel p _ _ _ _ _ _ h
  simp only [List.reverse_nil, List.map_nil, List.nil_append] at hn
  have hlen : res.infos.length = n := by
    have := congrArg List.length hn
    simpa [length_intRange] using this
  rw [hn, hlen]
  exact intRange_eq_range' 1 n

/-! ## 4. depth limits -/

/-- for every depth limit `D` (also `D ≤ 0` and `D ≥ MAX_DEPTH`) exactly `max 1 (min D 127)` iterations are
reported. -/
theorem C14_depth_general (D : Int) (G : Nat → Position → Prop) (hG : SearchDom G)
    (fuel : Nat) (p : Position) (hist : List BB) (tt : Table TTEntry) (res : RootResult)
    (hGp : G fuel p) (htt : TTBounded tt) (hf : (fuel : Int) ≤ Gen.INF + Gen.MATE_SCORE)
    (hlegal : legalMoves p ≠ []) (h : root (.depth D) fuel p hist tt = some res) :
    res.infos.map (·.depth) = (List.range' 1 (depthTarget D).toNat).map Int.ofNat := by
  have hlen := rootIter_depth_count D G hG Gen.INF MATE_le_INF (Int.le_refl _) fuel p hGp hf hlegal
    _ _ _ _ _ _ (by exact htt) (Int.le_refl 1) (by unfold depthTarget; omega) (by decide) h
  rw [C14_depths_consecutive _ _ _ _ _ _ h, hlen]
  simp

/-- With a depth limit `1 ≤ D < MAX_DEPTH` on a root that has legal moves the iterations `1, …, D` are
reported in order and nothing deeper. -/
theorem C14_depth_iterations (D : Int) (hD1 : 1 ≤ D) (hD2 : D < Gen.MAX_DEPTH)
    (G : Nat → Position → Prop) (hG : SearchDom G)
    (fuel : Nat) (p : Position) (hist : List BB) (tt : Table TTEntry) (res : RootResult)
    (hGp : G fuel p) (htt : TTBounded tt) (hf : (fuel : Int) ≤ Gen.INF + Gen.MATE_SCORE)
    (hlegal : legalMoves p ≠ []) (h : root (.depth D) fuel p hist tt = some res) :
    res.infos.map (·.depth) = (List.range' 1 D.toNat).map Int.ofNat := by
  have hT : depthTarget D = D := by
    have : Gen.MAX_DEPTH = 128 := rfl
    unfold depthTarget; omega
  rw [C14_depth_general D G hG fuel p hist tt res hGp htt hf hlegal h, hT]

/-- Finding F10: a depth limit `D ≥ MAX_DEPTH = 128` is capped — exactly `MAX_DEPTH - 1 = 127` iterations
are reported. -/
theorem C14_depth_cap (D : Int) (hD : Gen.MAX_DEPTH ≤ D)
    (G : Nat → Position → Prop) (hG : SearchDom G)
    (fuel : Nat) (p : Position) (hist : List BB) (tt : Table TTEntry) (res : RootResult)
    (hGp : G fuel p) (htt : TTBounded tt) (hf : (fuel : Int) ≤ Gen.INF + Gen.MATE_SCORE)
    (hlegal : legalMoves p ≠ []) (h : root (.depth D) fuel p hist tt = some res) :
    res.infos.map (·.depth) = (List.range' 1 127).map Int.ofNat := by
  have hT : depthTarget D = 127 := by
    have : Gen.MAX_DEPTH = 128 := rfl
    unfold depthTarget; omega
  rw [C14_depth_general D G hG fuel p hist tt res hGp htt hf hlegal h, hT]
  rfl

/-- `go depth 0` (and below): the first iteration is reported all the same. -/
theorem C14_depth_zero (D : Int) (hD : D ≤ 1)
    (G : Nat → Position → Prop) (hG : SearchDom G)
    (fuel : Nat) (p : Position) (hist : List BB) (tt : Table TTEntry) (res : RootResult)
    (hGp : G fuel p) (htt : TTBounded tt) (hf : (fuel : Int) ≤ Gen.INF + Gen.MATE_SCORE)
    (hlegal : legalMoves p ≠ []) (h : root (.depth D) fuel p hist tt = some res) :
    res.infos.map (·.depth) = [1] := by
  have hT : depthTarget D = 1 := by
    have : Gen.MAX_DEPTH = 128 := rfl
    unfold depthTarget; omega
  rw [C14_depth_general D G hG fuel p hist tt res hGp htt hf hlegal h, hT]
  rfl

/-! ## 6. the move played is the head of the last reported principal variation (every limit) -/

/-- `res.best` is the first move of the last reported principal variation; in particular
`res.infos = [] → res.best = none`. -/
theorem C14_best_is_pv_head (lim : Limit) (fuel : Nat) (p : Position) (hist : List BB) (tt : Table TTEntry)
    (res : RootResult) (h : root lim fuel p hist tt = some res) :
    res.best = (res.infos.getLast?).bind (·.pv.head?) :=
  rootIter_pv lim fuel p _ _ _ _ _ _ rfl (fun hne => absurd rfl hne) h

theorem C14_no_info_no_move (lim : Limit) (fuel : Nat) (p : Position) (hist : List BB) (tt : Table TTEntry)
    (res : RootResult) (h : root lim fuel p hist tt = some res) (hi : res.infos = []) : res.best = none := by
  rw [C14_best_is_pv_head lim fuel p hist tt res h, hi]; rfl

/-- every reported principal variation consists of exactly one move. -/
theorem C14_pv_length (lim : Limit) (fuel : Nat) (p : Position) (hist : List BB) (tt : Table TTEntry)
    (res : RootResult) (h : root lim fuel p hist tt = some res) : ∀ r ∈ res.infos, r.pv.length = 1 := by
  intro r hr
  rcases rootIter_records lim fuel p (fun r => r.pv.length = 1) (fun _ _ _ _ => rfl) _ _ _ _ _ _ h r hr with h1 | h1
  · simp at h1
  · exact h1

/-! ## 5. node limits (every table, history, fuel) -/

/-- With a node limit `N` every reported iteration after the first had spent fewer than `N` nodes when it
was reported (so no iteration after the first is reported once `N` nodes have been spent); the depths are
`1, 2, …` (so the first record, if any, is iteration 1). -/
theorem C14_nodes_rule (N : Nat) (fuel : Nat) (p : Position) (hist : List BB) (tt : Table TTEntry)
    (res : RootResult) (h : root (.nodes N) fuel p hist tt = some res) :
    (∀ r ∈ res.infos, 2 ≤ r.depth → r.nodes < N) ∧
    res.infos.map (·.depth) = (List.range' 1 res.infos.length).map Int.ofNat := by
  refine ⟨?_, C14_depths_consecutive _ _ _ _ _ _ h⟩
  intro r hr hd
  rcases rootIter_records (.nodes N) fuel p (fun r => 2 ≤ r.depth → r.nodes < N) (by
      intro s score m hs hd
      have h1 := hs (by show (1 : Int) < s.depth; have : (mkInfo s score m).depth = s.depth := rfl; omega)
      rw [shouldStop_nodes] at h1
      simp only [decide_eq_false_iff_not] at h1
      show s.nodes < N
      omega) _ _ _ _ _ _ h r hr with h1 | h1
  · simp at h1
  · exact h1 hd

/-- the same reading for depth limits: nothing deeper than `max D 1` is ever reported
(every table, history, fuel — no hypothesis at all). -/
theorem C14_depth_nothing_deeper (D : Int) (fuel : Nat) (p : Position) (hist : List BB) (tt : Table TTEntry)
    (res : RootResult) (h : root (.depth D) fuel p hist tt = some res) :
    ∀ r ∈ res.infos, r.depth ≤ max D 1 := by
  intro r hr
  rcases rootIter_records (.depth D) fuel p (fun r => r.depth ≤ max D 1) (by
      intro s score m hs
      show s.depth ≤ max D 1
      by_cases hgt : 1 < s.depth
      · have h1 := hs hgt
        rw [shouldStop_depth] at h1
        simp only [decide_eq_false_iff_not] at h1
        omega
      · omega) _ _ _ _ _ _ h r hr with h1 | h1
  · simp at h1
  · exact h1

/-! ## 8. time limits: monotone stop oracles -/

/-- once `true`, always `true`. -/
def MonoOracle (o : Nat → Bool) : Prop := ∀ i j, i ≤ j → o i = true → o j = true

/-- After a poll has answered `true` (some poll `j` among those made so far, `j ≤ st.polls`) no
further record is reported: from an iteration `depth > 1` on, the loop hands back exactly the records it
already had. -/
theorem C14_no_report_after_stop (o : Nat → Bool) (ho : MonoOracle o) (fuel : Nat) (p : Position)
    (k : Nat) (depth : Int) (st : SState) (bestMove : Option Mv) (infos : List InfoRec) (res : RootResult)
    (hd : 1 < depth) (hfired : ∃ j, j ≤ st.polls ∧ o j = true)
    (h : rootIter (.clock o) fuel p k depth st bestMove infos = some res) :
    res.infos = infos.reverse := by
  cases k with
  | zero =>
    simp only [rootIter, Option.some.injEq] at h
    rw [← h]
  | succ k =>
    rcases rootIter_step h with ⟨_, hres⟩ | ⟨_, score, s1, hnm, hrest⟩
    · rw [hres]
    · rcases hrest with ⟨_, hres⟩ | ⟨m, _, ⟨_, hres⟩ | ⟨hpoll, _⟩⟩
      · rw [hres]
      · rw [hres]
      · have hfr : st.polls ≤ s1.polls := (negamax_fr _ fuel _ _ _ _ _ _ _ _ _ hnm).2.1
        obtain ⟨j, hj, hoj⟩ := hfired
        have : o s1.polls = true := ho j s1.polls (by omega) hoj
        rw [endPoll_fst_of_gt _ _ _ hd, shouldStop_clock, this] at hpoll
        simp at hpoll

/-- Conversely: if an iteration `depth > 1` leads to anything being reported, then every poll made up to
and including its end-of-iteration poll (index `s1.polls ≥ st.polls`) answered `false`. -/
theorem C14_report_requires_all_polls_false (o : Nat → Bool) (ho : MonoOracle o) (fuel : Nat) (p : Position)
    (k : Nat) (depth : Int) (st : SState) (bestMove : Option Mv) (infos : List InfoRec) (res : RootResult)
    (hd : 1 < depth) (h : rootIter (.clock o) fuel p (k + 1) depth st bestMove infos = some res)
    (hrep : res.infos ≠ infos.reverse) :
    ∃ score s1, negamax (.clock o) fuel p { st with depth := depth } (-Gen.INF) Gen.INF 0 depth false
        = some (score, s1) ∧ st.polls ≤ s1.polls ∧ ∀ j, j ≤ s1.polls → o j = false := by
  rcases rootIter_step h with ⟨_, hres⟩ | ⟨_, score, s1, hnm, hrest⟩
  · rw [hres] at hrep; exact absurd rfl hrep
  · rcases hrest with ⟨_, hres⟩ | ⟨m, _, ⟨_, hres⟩ | ⟨hpoll, _⟩⟩
    · rw [hres] at hrep; exact absurd rfl hrep
    · rw [hres] at hrep; exact absurd rfl hrep
    · refine ⟨score, s1, hnm, (negamax_fr _ fuel _ _ _ _ _ _ _ _ _ hnm).2.1, ?_⟩
      rw [endPoll_fst_of_gt _ _ _ hd, shouldStop_clock] at hpoll
      intro j hj
      cases hoj : o j with
      | false => rfl
      | true => rw [ho j s1.polls hj hoj] at hpoll; simp at hpoll

/-- a clock that has already expired at the first poll: at most the first iteration is reported. -/
theorem C14_expired_clock (o : Nat → Bool) (ho : MonoOracle o) (h0 : o 0 = true) (fuel : Nat) (p : Position)
    (hist : List BB) (tt : Table TTEntry) (res : RootResult)
    (h : root (.clock o) fuel p hist tt = some res) : res.infos.length ≤ 1 := by
  rcases rootIter_step h with ⟨_, hres⟩ | ⟨_, score, s1, hnm, hrest⟩
  · rw [hres]; simp
  · rcases hrest with ⟨_, hres⟩ | ⟨m, _, ⟨_, hres⟩ | ⟨_, hrec⟩⟩
    · rw [hres]; simp
    · rw [hres]; simp
    · rw [C14_no_report_after_stop o ho fuel p _ _ _ _ _ _ (by decide) ⟨0, Nat.zero_le _, h0⟩ hrec]
      simp

/-! ## 7. every reported score lies strictly inside the mate bounds -/

/-- the full statement (no bound on the recursion depth). Not proved: a mated node at ply `n` answers
`-MATE_SCORE + n`, which is inside the bounds only while `n < 2·MATE_SCORE`, and nothing in the model bounds
the ply reached except the fuel. -/
def C14_scores_inside_mate_bounds_full : Prop :=
  ∀ (lim : Limit) (G : Nat → Position → Prop), SearchDom G →
    ∀ (fuel : Nat) (p : Position) (hist : List BB) (tt : Table TTEntry) (res : RootResult),
      G fuel p → TTSane tt → root lim fuel p hist tt = some res →
      ∀ r ∈ res.infos, -Gen.MATE_SCORE < r.score ∧ r.score < Gen.MATE_SCORE

/-- proved part: recursion depth at most `2·MATE_SCORE = 2 000 000`. All sub-cases of `negamax` are covered
(table cut-offs, quiescence, stop, rule draws, reverse futility, null move, the move loop with re-searches,
mate and stalemate scores, table stores); at the root a mated or stalemated position reports nothing. -/
theorem C14_scores_inside_mate_bounds_partial (lim : Limit) (G : Nat → Position → Prop) (hG : SearchDom G)
    (fuel : Nat) (p : Position) (hist : List BB) (tt : Table TTEntry) (res : RootResult)
    (hGp : G fuel p) (htt : TTSane tt) (hf : (fuel : Int) ≤ 2 * Gen.MATE_SCORE)
    (h : root lim fuel p hist tt = some res) :
    ∀ r ∈ res.infos, -Gen.MATE_SCORE < r.score ∧ r.score < Gen.MATE_SCORE := by
  intro r hr
  rcases rootIter_scores lim G hG Gen.MATE_SCORE (Int.le_refl _) MATE_le_INF fuel p hGp (by omega)
    _ _ _ _ _ _ (by exact htt) (Int.le_refl 1) (fun _ => rfl) h r hr with h1 | h1
  · simp at h1
  · exact h1

/-- the interior range lemma in the same form: every interior node (`ply ≥ 1`) answers strictly inside the
mate bounds, and the table stays sane. -/
theorem C14_negamax_inside_mate_bounds (lim : Limit) (G : Nat → Position → Prop) (hG : SearchDom G)
    (fuel : Nat) (p : Position) (st : SState) (α β ply depth : Int) (cn : Bool) (v : Int) (st' : SState)
    (hGp : G fuel p) (htt : TTSane st.tt) (hply : 1 ≤ ply) (hbound : ply + fuel ≤ 2 * Gen.MATE_SCORE)
    (h : negamax lim fuel p st α β ply depth cn = some (v, st')) :
    (-Gen.MATE_SCORE < v ∧ v < Gen.MATE_SCORE) ∧ TTSane st'.tt :=
  negamax_range lim G hG Gen.MATE_SCORE (Int.le_refl _) fuel p st α β ply depth cn v st' hGp htt hply
    (by omega) h

/-- the table handed back is sane again (so the hypothesis holds for the next search). -/
theorem C14_root_preserves_TTSane (lim : Limit) (G : Nat → Position → Prop) (hG : SearchDom G)
    (fuel : Nat) (p : Position) (hist : List BB) (tt : Table TTEntry) (res : RootResult)
    (hGp : G fuel p) (htt : TTSane tt) (hf : (fuel : Int) ≤ 2 * Gen.MATE_SCORE)
    (h : root lim fuel p hist tt = some res) : TTSane res.tt :=
  rootIter_tt lim G hG Gen.MATE_SCORE (Int.le_refl _) MATE_le_INF fuel p hGp (by omega) _ _ _ _ _ _
    (by exact htt) (Int.le_refl 1) h

/-! ## non-vacuity -/
namespace C14Ex
open C13Ex C03Ex

theorem tt3_sane : TTSane tt3 := TTIn.replicate (by decide) 3

/-- depth limit 1: hypotheses of `C14_depth_iterations` and `C14_scores_inside_mate_bounds_partial` hold for
K+P v K; through the theorems: exactly iteration 1 is reported, its score is inside the mate bounds, and the
move played is the head of its principal variation. -/
example : ∃ res, root (.depth 1) 2 kpk hist2 tt3 = some res ∧ res.infos.map (·.depth) = [1] ∧
    (∀ r ∈ res.infos, -Gen.MATE_SCORE < r.score ∧ r.score < Gen.MATE_SCORE) ∧
    res.best = (res.infos.getLast?).bind (·.pv.head?) := by
  have h : (root (.depth 1) 2 kpk hist2 tt3).isSome = true := by decide +kernel
  obtain ⟨res, h1⟩ := Option.isSome_iff_exists.1 h
  exact ⟨res, h1,
    C14_depth_iterations 1 (by decide) (by decide) _ sDomB_dom 2 kpk hist2 tt3 res kpk_dom2 tt3_sane.bounded
      (by decide) kpk_legal h1,
    C14_scores_inside_mate_bounds_partial _ _ sDomB_dom 2 kpk hist2 tt3 res kpk_dom2 tt3_sane (by decide) h1,
    C14_best_is_pv_head _ _ _ _ _ _ h1⟩

/-- node limit 3: iteration 1 (which spends more than 3 nodes) is reported, iteration 2 is not. -/
example : ∃ res, root (.nodes 3) 2 kpk hist2 tt3 = some res ∧ res.infos.length = 1 ∧
    (∀ r ∈ res.infos, 2 ≤ r.depth → r.nodes < 3) := by
  have h : ((root (.nodes 3) 2 kpk hist2 tt3).map fun r => r.infos.length) = some 1 := by decide +kernel
  obtain ⟨res, h1, h2⟩ := Option.map_eq_some_iff.1 h
  exact ⟨res, h1, h2, (C14_nodes_rule 3 2 kpk hist2 tt3 res h1).1⟩

/-- a monotone oracle that fires at the fourth poll; `MonoOracle` is satisfiable and the run returns. -/
example : MonoOracle (fun n => decide (n ≥ 3)) ∧
    ∃ res, root (.clock fun n => decide (n ≥ 3)) 8 kpk hist2 tt3 = some res ∧
      res.best = (res.infos.getLast?).bind (·.pv.head?) := by
  refine ⟨fun i j hij hi => by simp only [decide_eq_true_eq] at *; omega, ?_⟩
  have h : (root (.clock fun n => decide (n ≥ 3)) 8 kpk hist2 tt3).isSome = true := by decide +kernel
  obtain ⟨res, h1⟩ := Option.isSome_iff_exists.1 h
  exact ⟨res, h1, C14_best_is_pv_head _ _ _ _ _ _ h1⟩

/-- an expired clock: exactly one record (iteration 1). -/
example : ∃ res, root (.clock fun _ => true) 2 kpk hist2 tt3 = some res ∧ res.infos.length ≤ 1 := by
  have h : (root (.clock fun _ => true) 2 kpk hist2 tt3).isSome = true := by decide +kernel
  obtain ⟨res, h1⟩ := Option.isSome_iff_exists.1 h
  exact ⟨res, h1, C14_expired_clock _ (fun _ _ _ _ => rfl) rfl 2 kpk hist2 tt3 res h1⟩

end C14Ex

end Rawr

#print axioms Rawr.C14_depths_consecutive
#print axioms Rawr.C14_depth_general
#print axioms Rawr.C14_depth_iterations
#print axioms Rawr.C14_depth_cap
#print axioms Rawr.C14_depth_zero
#print axioms Rawr.C14_best_is_pv_head
#print axioms Rawr.C14_no_info_no_move
#print axioms Rawr.C14_pv_length
#print axioms Rawr.C14_nodes_rule
#print axioms Rawr.C14_depth_nothing_deeper
#print axioms Rawr.C14_no_report_after_stop
#print axioms Rawr.C14_report_requires_all_polls_false
#print axioms Rawr.C14_expired_clock
#print axioms Rawr.C14_scores_inside_mate_bounds_partial
#print axioms Rawr.C14_negamax_inside_mate_bounds
#print axioms Rawr.C14_root_preserves_TTSane
