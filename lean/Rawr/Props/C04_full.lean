import Rawr.Props.C04
import Rawr.Props.C01_shape
/-! # C04(a) over the engine's own domain and generator: `C04a_full` holds. -/
namespace Rawr
open Rawr.Position Rawr.ZH

/-- C04(a), full statement: for every valid position and every move of `legal_moves`, the key
`predict_hash` computes is the key `makemove::<true>` stores, and it equals the key recomputed from scratch. -/
theorem C04a_full_proved : C04a_full :=
  C04a_full_of fun p m hv hm => gen_moveShape p hv m hm

/-- spelled out. -/
theorem C04a_legal (p : Position) (m : Mv) (h : BB) (q : Position) (hv : ValidPos p = true)
    (hm : m ∈ legalMoves p) (hp : p.predictHash m = some h) (hq : p.makemove m true = some q) :
    q.hash = h ∧ q.hash = q.calculateHash :=
  C04a_full_proved p m h q hv hm hp hq

/-- non-vacuity: 1. e4 from the start position. -/
example : ValidPos Gen.startpos = true ∧ (⟨12, 28, 6⟩ : Mv) ∈ legalMoves Gen.startpos ∧
    (Gen.startpos.predictHash ⟨12, 28, 6⟩).isSome = true ∧ (Gen.startpos.makemove ⟨12, 28, 6⟩ true).isSome = true := by
  decide +kernel

#print axioms C04a_full_proved
#print axioms C04a_legal
end Rawr
