import Rawr.Proofs.SearchHist
import Rawr.Proofs.SearchPolls
/-! # C13 — searching leaves the game state untouched and is reproducible

* history clause: `negamax` / `root` hand back exactly the history they were given (every push is matched
  by a pop on the state returned by the callee, on every exit path, for every limit and stop oracle);
* the table keeps its number of slots;
* reproducibility: the model is a function (`rfl`), and for the limits that do not consult the clock
  (`depth`, `nodes`, `infinite`) the result does not depend on the poll counter, the only clock-coupled
  piece of state. -/
namespace Rawr

/-! ## 1–3: history and table length -/

theorem negamax_preserves_history (lim : Limit) (fuel : Nat) (p : Position) (st : SState)
    (α β ply depth : Int) (cn : Bool) (v : Int) (st' : SState) :
    negamax lim fuel p st α β ply depth cn = some (v, st') → st'.hist = st.hist :=
  fun h => (negamax_inv lim fuel p st α β ply depth cn v st' h).1

theorem negamax_preserves_tt_len (lim : Limit) (fuel : Nat) (p : Position) (st : SState)
    (α β ply depth : Int) (cn : Bool) (v : Int) (st' : SState) :
    negamax lim fuel p st α β ply depth cn = some (v, st') → st'.tt.len = st.tt.len :=
  fun h => (negamax_inv lim fuel p st α β ply depth cn v st' h).2

theorem root_preserves_history (lim : Limit) (fuel : Nat) (p : Position) (hist : List BB)
    (tt : Table TTEntry) (res : RootResult) :
    root lim fuel p hist tt = some res → res.hist = hist :=
  fun h => (root_inv lim fuel p hist tt res h).1

theorem root_preserves_tt_len (lim : Limit) (fuel : Nat) (p : Position) (hist : List BB)
    (tt : Table TTEntry) (res : RootResult) :
    root lim fuel p hist tt = some res → res.tt.len = tt.len :=
  fun h => (root_inv lim fuel p hist tt res h).2

/-- the move loop, for any recursive call `rec` that preserves history and table length
(`RecInv rec : ∀ np s a b pl d c v s', rec np s a b pl d c = some (v, s') → s'.hist = s.hist ∧ …`). -/
theorem nmLoop_preserves_history (rec) (hrec : RecInv rec)
    (p : Position) (beta ply depth : Int) (inCheck : Bool) (ms : List Mv) (idx : Nat) (st : SState)
    (alpha best : Int) (bestMv : Option Mv) (st' : SState) (a' b' : Int) (bm' : Option Mv) :
    nmLoop rec p beta ply depth inCheck ms idx st alpha best bestMv = some (st', a', b', bm') →
    st'.hist = st.hist :=
  fun h => (nmLoop_inv rec hrec p beta ply depth inCheck ms idx st alpha best bestMv st' a' b' bm' h).1

/-! ## 4: reproducibility -/

/-- remark: the model is a function. -/
theorem root_deterministic (lim : Limit) (fuel : Nat) (p : Position) (hist : List BB) (tt : Table TTEntry) :
    root lim fuel p hist tt = root lim fuel p hist tt := rfl

/-- with a limit that never consults the clock, `negamax` started from two states that differ only in the
poll counter returns the same score and states that differ only in the poll counter (or fails in both). -/
theorem negamax_polls_irrelevant (lim : Limit) (hl : lim.clockFree) (fuel : Nat) (p : Position)
    (s t : SState) (α β ply depth : Int) (cn : Bool) (hst : s.eqUpToPolls t) :
    ResEq (negamax lim fuel p s α β ply depth cn) (negamax lim fuel p t α β ply depth cn) := by
  rw [(SState.eqUpToPolls_iff s t).1 hst]
  exact negamax_polls lim hl fuel p s α β ply depth cn t.polls

theorem negamax_depth_polls_irrelevant (d : Int) (fuel : Nat) (p : Position) (s t : SState)
    (α β ply depth : Int) (cn : Bool) (hst : s.eqUpToPolls t) :
    ResEq (negamax (.depth d) fuel p s α β ply depth cn) (negamax (.depth d) fuel p t α β ply depth cn) :=
  negamax_polls_irrelevant (.depth d) trivial fuel p s t α β ply depth cn hst

theorem negamax_nodes_polls_irrelevant (n : Nat) (fuel : Nat) (p : Position) (s t : SState)
    (α β ply depth : Int) (cn : Bool) (hst : s.eqUpToPolls t) :
    ResEq (negamax (.nodes n) fuel p s α β ply depth cn) (negamax (.nodes n) fuel p t α β ply depth cn) :=
  negamax_polls_irrelevant (.nodes n) trivial fuel p s t α β ply depth cn hst

/-- the same, as an explicit statement about the two results. -/
theorem negamax_polls_irrelevant' (lim : Limit) (hl : lim.clockFree) (fuel : Nat) (p : Position)
    (s t : SState) (α β ply depth : Int) (cn : Bool) (hst : s.eqUpToPolls t) :
    (negamax lim fuel p s α β ply depth cn = none ∧ negamax lim fuel p t α β ply depth cn = none) ∨
    ∃ v s' t', negamax lim fuel p s α β ply depth cn = some (v, s') ∧
      negamax lim fuel p t α β ply depth cn = some (v, t') ∧ s'.eqUpToPolls t' := by
  rcases (negamax_polls_irrelevant lim hl fuel p s t α β ply depth cn hst).cases with
    ⟨e1, e2⟩ | ⟨v, s', k, e1, e2⟩
  · exact Or.inl ⟨e1, e2⟩
  · exact Or.inr ⟨v, s', _, e1, e2, rfl, rfl, rfl, rfl, rfl, rfl⟩

/-- the iterative-deepening loop started from two states that differ only in the poll counter gives the
same `RootResult` (best move, info records, history, table) when the limit is clock-free. -/
theorem rootIter_polls_irrelevant (lim : Limit) (hl : lim.clockFree) (fuel : Nat) (p : Position) (n : Nat)
    (depth : Int) (s t : SState) (bestMove : Option Mv) (infos : List InfoRec) (hst : s.eqUpToPolls t) :
    rootIter lim fuel p n depth s bestMove infos = rootIter lim fuel p n depth t bestMove infos := by
  rw [(SState.eqUpToPolls_iff s t).1 hst]
  exact (rootIter_polls lim hl fuel p n depth s bestMove infos t.polls).symm

/-- hence `root (.depth d)` / `root (.nodes n)` is the same function of `(p, hist, tt)` whatever value the
poll counter starts from. -/
theorem root_depth_polls_irrelevant (d : Int) (fuel : Nat) (p : Position) (hist : List BB)
    (tt : Table TTEntry) (k : Nat) :
    rootIter (.depth d) fuel p Gen.MAX_DEPTH.toNat 1 ⟨hist, tt, 0, 0, 0, none, k⟩ none [] =
      root (.depth d) fuel p hist tt :=
  root_polls (.depth d) trivial fuel p hist tt k

theorem root_nodes_polls_irrelevant (n : Nat) (fuel : Nat) (p : Position) (hist : List BB)
    (tt : Table TTEntry) (k : Nat) :
    rootIter (.nodes n) fuel p Gen.MAX_DEPTH.toNat 1 ⟨hist, tt, 0, 0, 0, none, k⟩ none [] =
      root (.nodes n) fuel p hist tt :=
  root_polls (.nodes n) trivial fuel p hist tt k

/-! ## 5: non-vacuity (kernel evaluation of the model on small concrete inputs) -/
namespace C13Ex

/-- white Ke1, pawn e2; black Ke8; white to move (six legal moves). -/
def kpk : Position :=
  { c0 := 0x1010#64, c1 := 0x1000000000000000#64,
    p0 := 0x1000#64, p1 := 0#64, p2 := 0#64, p3 := 0#64, p4 := 0#64, p5 := 0x1000000000000010#64,
    halfmoves := 0, fullmoves := 1, black := false, ep := none,
    usK := false, usQ := false, themK := false, themQ := false,
    cf0 := 7, cf1 := 0, cf2 := 7, cf3 := 0, hash := 0x1234#64, frc := false }

/-- white Ka1; black Qc2, Kh8; white to move: stalemate (no legal move). -/
def stale : Position :=
  { c0 := 0x1#64, c1 := 0x8000000000000400#64,
    p0 := 0#64, p1 := 0#64, p2 := 0#64, p3 := 0#64, p4 := 0x400#64, p5 := 0x8000000000000001#64,
    halfmoves := 0, fullmoves := 1, black := false, ep := none,
    usK := false, usQ := false, themK := false, themQ := false,
    cf0 := 7, cf1 := 0, cf2 := 7, cf3 := 0, hash := 0x4321#64, frc := false }

def tt3 : Table TTEntry := ⟨#[default, default, default]⟩
def hist2 : List BB := [5#64, 7#64]
def st0 : SState := ⟨hist2, tt3, 2, 0, 0, none, 0⟩

theorem exists_of_isSome {α β : Type} {o : Option (α × β)} (h : o.isSome = true) : ∃ a b, o = some (a, b) := by
  obtain ⟨⟨a, b⟩, h⟩ := Option.isSome_iff_exists.1 h
  exact ⟨a, b, h⟩

/-- the hypothesis of `negamax_preserves_history` is satisfiable: a depth-1 search (six push / recursive
call / pop rounds, quiescence at the leaves, a table store) over a non-empty history returns; the
conclusion, obtained through the theorem, is about a non-trivial history.
(`Rawr/Props/C13Examples.lean` has a depth-2 instance, where late-move re-searches occur too.) -/
example : ∃ v st', negamax (.depth 2) 2 kpk st0 (-Gen.INF) Gen.INF 0 1 false = some (v, st') ∧
    st'.hist = [5#64, 7#64] ∧ st'.tt.len = 3 := by
  obtain ⟨v, st', h⟩ : ∃ v st', negamax (.depth 2) 2 kpk st0 (-Gen.INF) Gen.INF 0 1 false = some (v, st') :=
    exists_of_isSome (by decide +kernel)
  exact ⟨v, st', h, negamax_preserves_history _ _ _ _ _ _ _ _ _ _ _ h, negamax_preserves_tt_len _ _ _ _ _ _ _ _ _ _ _ h⟩

/-- `root` returns with a best move (depth limit 1: one full iteration, the second one is stopped). -/
example : ∃ res, root (.depth 1) 3 kpk hist2 tt3 = some res ∧ res.best.isSome = true ∧ res.hist = hist2 := by
  have h : ((root (.depth 1) 3 kpk hist2 tt3).map fun r => r.best.isSome) = some true := by decide +kernel
  obtain ⟨res, h1, h2⟩ := Option.map_eq_some_iff.1 h
  exact ⟨res, h1, h2, root_preserves_history _ _ _ _ _ _ h1⟩

/-- the `Err("No bestmove")` exit: `root` returns with `best = none` on a stalemate, history intact. -/
example : ∃ res, root .infinite 3 stale hist2 tt3 = some res ∧ res.best = none ∧ res.hist = hist2 := by
  have h : ((root .infinite 3 stale hist2 tt3).map fun r => r.best) = some none := by decide +kernel
  obtain ⟨res, h1, h2⟩ := Option.map_eq_some_iff.1 h
  exact ⟨res, h1, h2, root_preserves_history _ _ _ _ _ _ h1⟩

/-- a stop oracle that fires during the search (clock limit): `root` still returns, history intact. -/
example : ∃ res, root (.clock fun n => decide (n ≥ 3)) 8 kpk hist2 tt3 = some res ∧ res.hist = hist2 := by
  have h : (root (.clock fun n => decide (n ≥ 3)) 8 kpk hist2 tt3).isSome = true := by decide +kernel
  obtain ⟨res, h1⟩ := Option.isSome_iff_exists.1 h
  exact ⟨res, h1, root_preserves_history _ _ _ _ _ _ h1⟩

/-- `eqUpToPolls` relates distinct states. -/
example : st0.eqUpToPolls { st0 with polls := 17 } ∧ st0.polls ≠ ({ st0 with polls := 17 } : SState).polls :=
  ⟨⟨rfl, rfl, rfl, rfl, rfl, rfl⟩, by decide⟩

/-- the hypothesis `clockFree` cannot be dropped: with a clock oracle the score depends on the poll counter. -/
example :
    (negamax (.clock fun n => n == 0) 2 kpk st0 (-Gen.INF) Gen.INF 0 1 false).map (·.1) ≠
    (negamax (.clock fun n => n == 0) 2 kpk { st0 with polls := 1 } (-Gen.INF) Gen.INF 0 1 false).map (·.1) := by
  decide +kernel

end C13Ex

end Rawr

#print axioms Rawr.negamax_preserves_history
#print axioms Rawr.negamax_preserves_tt_len
#print axioms Rawr.root_preserves_history
#print axioms Rawr.root_preserves_tt_len
#print axioms Rawr.nmLoop_preserves_history
#print axioms Rawr.root_deterministic
#print axioms Rawr.negamax_polls_irrelevant
#print axioms Rawr.negamax_depth_polls_irrelevant
#print axioms Rawr.negamax_nodes_polls_irrelevant
#print axioms Rawr.negamax_polls_irrelevant'
#print axioms Rawr.rootIter_polls_irrelevant
#print axioms Rawr.root_depth_polls_irrelevant
#print axioms Rawr.root_nodes_polls_irrelevant
