import Rawr.Proofs.SpecSanityMirrorE
import Rawr.Proofs.SpecSanityKings
import Rawr.Proofs.SpecSanityCount
import Rawr.Proofs.SpecSanityDouble
import Rawr.Proofs.SpecSanityPerftStart3
import Rawr.Proofs.SpecSanityPerftKiwi
import Rawr.Proofs.SpecSanityPerftPos3
import Rawr.Proofs.SpecSanityPerftFrc
import Rawr.Proofs.SpecSanityPerftFrc1
/-!
# SpecSanity — theorems about the specification itself

`Rawr/Spec/Chess.lean` is the trusted reading of the rules of chess; everything else is proved against it.
This file collects internal-consistency facts that every correct formalisation of chess must satisfy. None
of the statements mentions the engine model (`Rawr/Model`); helper lemmas live in
`Rawr/Proofs/SpecSanity*.lean`, namespace `Rawr.SpecS`.

1. colour symmetry — the rules for Black are the mirror image of the rules for White;
2. kings are never captured;
3. conservation of material;
4. check semantics;
5. known perft numbers, evaluated by the kernel on the specification directly.
-/
namespace Rawr
open Rawr.Spec Rawr.SpecS

/-! ## 1. colour symmetry

`SpecS.mirrorA a`: board mirrored top to bottom (`s ↦ s ^^^ 56`) with colours swapped, the other side to
move, White's and Black's rights exchanged, en-passant square mirrored, both counters kept — definitionally
the `Spec.mirrorA` of `C17.lean` (`Rawr/Proofs/SpecSanityC17.lean`). `SpecS.mirrorMove`: squares `s ↦ s ^^^ 56`, castling side unchanged.

Hypothesis: *no* support condition on the board is needed, but the castling rights must name files of the
board (`RightsOK`: every right is `some f` with `f < 8`; implied by `Valid`). Without it the statement is
false: `sq f (homeRank w)` of a "file" `f ≥ 8` is a square of the board for White but not for Black
(`SpecSanity_mirror_needs_rights`).

`apply` commutes with the mirror up to the full-move counter (`EqModFull`): that counter advances after
Black's move, so it necessarily breaks the symmetry; nothing in the rules reads it (`leaves_congr`). -/

/-- **1a** the legal moves of the mirrored position are the mirrored legal moves (both lists are duplicate
free, `spec_legalMoves_nodup`, so `Perm` says: the same set). -/
theorem SpecSanity_legalMoves_mirror (a : APos) (hR : RightsOK a) :
    (Spec.legalMoves (mirrorA a)).Perm ((Spec.legalMoves a).map mirrorMove) :=
  legalMoves_mirror a hR

theorem SpecSanity_legalMoves_mirror_valid (a : APos) (hv : Valid a = true) :
    (Spec.legalMoves (mirrorA a)).Perm ((Spec.legalMoves a).map mirrorMove) :=
  legalMoves_mirror_valid a hv

/-- membership form: `m` is legal iff its mirror image is legal in the mirrored position. -/
theorem SpecSanity_mem_legalMoves_mirror (a : APos) (hR : RightsOK a) (m : Move) :
    mirrorMove m ∈ Spec.legalMoves (mirrorA a) ↔ m ∈ Spec.legalMoves a :=
  mem_legalMoves_mirror hR m

/-- **1b** `apply` commutes with the mirror on every legal move, up to the full-move counter … -/
theorem SpecSanity_apply_mirror (a : APos) (hR : RightsOK a) (m : Move) (hm : m ∈ Spec.legalMoves a) :
    EqModFull (apply (mirrorA a) (mirrorMove m)) (mirrorA (apply a m)) :=
  apply_mirror hR hm

/-- … which is the only field that differs, and differs as it must. -/
theorem SpecSanity_apply_mirror_fields (a : APos) (hR : RightsOK a) (m : Move) (hm : m ∈ Spec.legalMoves a) :
    let l := apply (mirrorA a) (mirrorMove m)
    let r := mirrorA (apply a m)
    l.board = r.board ∧ l.whiteToMove = r.whiteToMove ∧ l.wK = r.wK ∧ l.wQ = r.wQ ∧ l.bK = r.bK ∧
    l.bQ = r.bQ ∧ l.ep = r.ep ∧ l.half = r.half ∧
    l.full = (if a.whiteToMove = true then a.full + 1 else a.full) ∧
    r.full = (if a.whiteToMove = true then a.full else a.full + 1) := by
  have h := (eqModFull_iff _ _).mp (apply_mirror hR hm)
  have f := apply_mirror_full hm
  exact ⟨h.1, h.2.1, h.2.2.1, h.2.2.2.1, h.2.2.2.2.1, h.2.2.2.2.2.1, h.2.2.2.2.2.2.1, h.2.2.2.2.2.2.2, f.1, f.2⟩

/-- **finding**: plain equality `apply (mirrorA a) (mirrorMove m) = mirrorA (apply a m)` is false already for
1. e4 in the start position: after White's move the counter is still 1, after the mirrored Black move it is 2. -/
theorem SpecSanity_apply_mirror_not_eq :
    Move.normal 12 28 none ∈ Spec.legalMoves stdStart ∧
    apply (mirrorA stdStart) (mirrorMove (.normal 12 28 none)) ≠ mirrorA (apply stdStart (.normal 12 28 none)) := by
  refine ⟨by rw [start_moves]; decide, fun h => ?_⟩
  have := congrArg APos.full h
  revert this
  decide +kernel

/-- for non-castling moves the squares only need to be on the board (no legality needed). -/
theorem SpecSanity_apply_mirror_normal (a : APos) (hR : RightsOK a) (s t : Nat) (hs : s < 64) (ht : t < 64)
    (pr : Option Kind) :
    EqModFull (apply (mirrorA a) (.normal (s ^^^ 56) (t ^^^ 56) pr)) (mirrorA (apply a (.normal s t pr))) :=
  apply_mirror_normal a hR hs ht pr

/-- **1c** validity is colour symmetric — for every position. -/
theorem SpecSanity_valid_mirror (a : APos) : Valid (mirrorA a) = Valid a := valid_mirror a

/-- … and so are en-passant consistency and material legality: the domain `D = V ∧ E ∧ M` of DESIGN.md §4
(specification side) is closed under the colour mirror. -/
theorem SpecSanity_domain_mirror (a : APos) :
    EpConsistent (mirrorA a) = EpConsistent a ∧ LegalMaterial (mirrorA a) = LegalMaterial a ∧
    (Valid (mirrorA a) && EpConsistent (mirrorA a) && LegalMaterial (mirrorA a)) =
      (Valid a && EpConsistent a && LegalMaterial a) :=
  ⟨epConsistent_mirror a, legalMaterial_mirror a, domain_mirror a⟩

/-- **1d** perft is colour symmetric. -/
theorem SpecSanity_leaves_mirror (a : APos) (hR : RightsOK a) (d : Nat) : leaves (mirrorA a) d = leaves a d :=
  leaves_mirror a hR d

theorem SpecSanity_leaves_mirror_valid (a : APos) (hv : Valid a = true) (d : Nat) :
    leaves (mirrorA a) d = leaves a d := leaves_mirror_valid a hv d

/-- the mirror is an involution, and the rules do not read the full-move counter. -/
theorem SpecSanity_mirror_involutive (a : APos) (m : Move) :
    mirrorA (mirrorA a) = a ∧ mirrorMove (mirrorMove m) = m := ⟨mirrorA_mirrorA a, mirrorMove_mirrorMove m⟩

theorem SpecSanity_full_not_read (a b : APos) (h : EqModFull a b) :
    Spec.legalMoves a = Spec.legalMoves b ∧ (∀ m, EqModFull (apply a m) (apply b m)) ∧ ∀ d, leaves a d = leaves b d :=
  ⟨legalMoves_congr h, apply_congr h, leaves_congr h⟩

/-- White: king e1, rook a2; Black: king e8. White's king-side "right" names file 8: `sq 8 0` is a2, so the
specification lets White castle with that rook, whereas in the mirror image `sq 8 7 = 64` is off the board. -/
def mirrorBad : APos :=
  { board := board8
      (row8 __ __ __ __ wK __ __ __)
      (row8 wR __ __ __ __ __ __ __)
      (row8 __ __ __ __ __ __ __ __)
      (row8 __ __ __ __ __ __ __ __)
      (row8 __ __ __ __ __ __ __ __)
      (row8 __ __ __ __ __ __ __ __)
      (row8 __ __ __ __ __ __ __ __)
      (row8 __ __ __ __ bK __ __ __)
    whiteToMove := true, wK := some 8, wQ := none, bK := none, bQ := none, ep := none, half := 0, full := 1 }

/-- **finding**: on a position with a castling right outside the board (never `Valid`) the specification is
*not* colour symmetric, although its board is supported on the 64 squares. -/
theorem SpecSanity_mirror_needs_rights :
    (∀ s, 64 ≤ s → mirrorBad.board s = none) ∧
    ¬ (Spec.legalMoves (mirrorA mirrorBad)).Perm ((Spec.legalMoves mirrorBad).map mirrorMove) := by
  refine ⟨fun s hs => board8_off _ _ _ _ _ _ _ _ s hs, fun h => ?_⟩
  have h1 := h.length_eq
  rw [List.length_map] at h1
  have h2 : (Spec.legalMoves (mirrorA mirrorBad)).length ≠ (Spec.legalMoves mirrorBad).length := by decide +kernel
  exact h2 h1

/-- non-vacuity: Kiwipete satisfies the hypotheses; its mirror image (Black to move, colours swapped) has
the 48 mirrored moves — once through the theorem, once by evaluating the rules on the mirror image. -/
example : Valid kiwipete = true ∧ RightsOK kiwipete :=
  ⟨by decide +kernel, rightsOK_of_valid (by decide +kernel)⟩
example : leaves (mirrorA kiwipete) 2 = 2039 := by
  rw [SpecSanity_leaves_mirror_valid kiwipete (by decide +kernel)]; exact leaves_kiwi_2
example : leaves (mirrorA kiwipete) 1 = 48 ∧ (mirrorA kiwipete).whiteToMove = false ∧
    (mirrorA kiwipete).board 60 = bK ∧ (mirrorA kiwipete).board 12 = wQ ∧ (mirrorA kiwipete).board 45 = bQ ∧
    mirrorMove (.normal 36 53 none) = .normal 28 13 none ∧
    Move.normal 28 13 none ∈ Spec.legalMoves (mirrorA kiwipete) ∧ Move.castle true ∈ Spec.legalMoves (mirrorA kiwipete) := by
  decide +kernel

/-! ## 2. kings are never captured -/

/-- **2a** the destination of a legal move never holds a king. -/
theorem SpecSanity_kings_never_captured (a : APos) (hv : Valid a = true) (s t : Nat) (pr : Option Kind)
    (hl : Move.normal s t pr ∈ Spec.legalMoves a) (c : Bool) : a.board t ≠ some ⟨c, .king⟩ :=
  dest_not_king hv hl c

/-- **2b** after a legal move both kings are still there: exactly one of each colour … -/
theorem SpecSanity_kings_survive (a : APos) (hv : Valid a = true) (m : Move) (hl : m ∈ Spec.legalMoves a) (c : Bool) :
    countPieces (apply a m).board (fun pc => pc == ⟨c, .king⟩) = 1 ∧
    (kingSquares (apply a m).board c).length = 1 :=
  ⟨kings_survive_count hv hl c, kings_survive hv hl c⟩

/-- … on the same square, unless it is the king that moved. (Castling: `SpecSanity_men_apply` — nothing is
captured; `frcCastle_white_OO` etc. for the squares.) -/
theorem SpecSanity_king_square_after (a : APos) (hv : Valid a = true) (s t : Nat) (pr : Option Kind)
    (hl : Move.normal s t pr ∈ Spec.legalMoves a) (c : Bool) (k : Nat) (hk : kingSquares a.board c = [k]) :
    kingSquares (apply a (.normal s t pr)).board c = [if k = s then t else k] :=
  king_square_after hv hl c k hk

/-- non-vacuity: in Kiwipete `Nxf7` (e5 → f7) is a legal capture of a pawn, and White may castle. -/
example : Valid kiwipete = true ∧ Move.normal 36 53 none ∈ Spec.legalMoves kiwipete ∧
    kiwipete.board 53 = bP ∧ Move.castle true ∈ Spec.legalMoves kiwipete := by
  rw [kiwi2_moves]; decide +kernel

/-! ## 3. conservation -/

/-- **3a** `apply` changes at most four squares (castling four, en passant three, otherwise two) — for every
position and every move, legal or not. -/
theorem SpecSanity_apply_changes_le_four (a : APos) (m : Move) :
    (touched a m).length ≤ 4 ∧ ∀ x, x ∉ touched a m → (apply a m).board x = a.board x :=
  ⟨touched_length a m, apply_frame a m⟩

/-- **3b** the number of men falls by exactly one on a capture (`Spec.isCaptureMove`: the target is occupied,
or a pawn changes file — en passant included) and is unchanged otherwise. -/
theorem SpecSanity_men_apply (a : APos) (hv : Valid a = true) (m : Move) (hl : m ∈ Spec.legalMoves a) :
    menCount (apply a m).board + (if isCaptureMove a m = true then 1 else 0) = menCount a.board :=
  men_apply hv hl

/-- the man that disappears is the opponent's; the mover keeps all his men. -/
theorem SpecSanity_men_by_colour (a : APos) (hv : Valid a = true) (m : Move) (hl : m ∈ Spec.legalMoves a) :
    Br.cntCol (apply a m).board (!a.whiteToMove) + (if isCaptureMove a m = true then 1 else 0) =
      Br.cntCol a.board (!a.whiteToMove) ∧
    Br.cntCol (apply a m).board a.whiteToMove = Br.cntCol a.board a.whiteToMove :=
  ⟨opp_men_apply hv hl, (own_counts hv hl).1⟩

/-- **3c** the pawns of either colour never increase. -/
theorem SpecSanity_pawns_never_increase (a : APos) (hv : Valid a = true) (m : Move) (hl : m ∈ Spec.legalMoves a)
    (c : Bool) :
    countPieces (apply a m).board (fun pc => pc == ⟨c, .pawn⟩) ≤ countPieces a.board (fun pc => pc == ⟨c, .pawn⟩) :=
  pawns_never_increase hv hl c

/-- **3d** a promotion replaces one pawn of the mover by one queen, rook, bishop or knight of the mover. -/
theorem SpecSanity_promotion (a : APos) (hv : Valid a = true) (s t : Nat) (k : Kind)
    (hl : Move.normal s t (some k) ∈ Spec.legalMoves a) :
    let a' := apply a (.normal s t (some k))
    let n (b : Board) (kd : Kind) := countPieces b (fun pc => pc == ⟨a.whiteToMove, kd⟩)
    k ∈ [Kind.queen, .rook, .bishop, .knight] ∧ a.board s = some ⟨a.whiteToMove, .pawn⟩ ∧
    a'.board t = some ⟨a.whiteToMove, k⟩ ∧ a'.board s = none ∧
    n a'.board .pawn + 1 = n a.board .pawn ∧ n a'.board k = n a.board k + 1 ∧
    ∀ kd, kd ≠ .pawn → kd ≠ k → n a'.board kd = n a.board kd :=
  promotion_counts hv hl

/-- without a promotion every count of the mover, kind by kind, is unchanged. -/
theorem SpecSanity_no_promotion (a : APos) (hv : Valid a = true) (m : Move) (hl : m ∈ Spec.legalMoves a)
    (hnp : ∀ s t k, m ≠ .normal s t (some k)) (kd : Kind) :
    countPieces (apply a m).board (fun pc => pc == ⟨a.whiteToMove, kd⟩) =
      countPieces a.board (fun pc => pc == ⟨a.whiteToMove, kd⟩) :=
  (own_counts hv hl).2 hnp kd

/-- non-vacuity: an en-passant capture (three squares change, one man disappears from a square that is not
the target) and a promotion. -/
def ssEpPos : APos :=
  { board := board8
      (row8 __ __ __ __ wK __ __ __)
      (row8 __ __ __ __ __ __ __ __)
      (row8 __ __ __ __ __ __ __ __)
      (row8 __ __ __ __ __ __ __ __)
      (row8 __ __ __ bP wP __ __ __)
      (row8 __ __ __ __ __ __ __ __)
      (row8 wP __ __ __ __ __ __ __)
      (row8 __ __ __ __ bK __ __ __)
    whiteToMove := true, wK := none, wQ := none, bK := none, bQ := none, ep := some 43, half := 0, full := 10 }

example : Valid ssEpPos = true ∧ Move.normal 36 43 none ∈ Spec.legalMoves ssEpPos ∧
    isCaptureMove ssEpPos (.normal 36 43 none) = true ∧ touched ssEpPos (.normal 36 43 none) = [36, 43, 35] ∧
    menCount ssEpPos.board = 5 ∧ menCount (apply ssEpPos (.normal 36 43 none)).board = 4 ∧
    (apply ssEpPos (.normal 36 43 none)).board 35 = none := by decide +kernel
example : Move.normal 48 56 (some .knight) ∈ Spec.legalMoves ssEpPos ∧
    (apply ssEpPos (.normal 48 56 (some .knight))).board 56 = wN ∧
    isCaptureMove ssEpPos (.normal 48 56 (some .knight)) = false := by decide +kernel

/-! ## 4. check semantics -/

/-- **4a** mate / stalemate = no legal move, in check / not in check. -/
theorem SpecSanity_isMate_iff (a : APos) :
    (isMate a = true ↔ Spec.legalMoves a = [] ∧ inCheck a.board a.whiteToMove = true) ∧
    (isStalemate a = true ↔ Spec.legalMoves a = [] ∧ inCheck a.board a.whiteToMove = false) :=
  ⟨isMate_iff a, isStalemate_iff a⟩

/-- **4b** the mover never ends in check — every position, valid or not. -/
theorem SpecSanity_mover_not_in_check (a : APos) (m : Move) (hl : m ∈ Spec.legalMoves a) :
    inCheck (apply a m).board a.whiteToMove = false := mover_not_in_check hl

/-- castling out of check is never legal. -/
theorem SpecSanity_no_castle_in_check (a : APos) (ks : Bool) (hin : inCheck a.board a.whiteToMove = true) :
    Move.castle ks ∉ Spec.legalMoves a := no_castle_in_check hin

/-- **4c** (weak form of "a check must be answered") if two different enemy men attack the king, every legal
move is a move of that king. `Checker a k c`: square `c` holds an enemy man attacking square `k`. -/
theorem SpecSanity_double_check (a : APos) (hv : Valid a = true) (k c1 c2 : Nat)
    (hk : kingSquares a.board a.whiteToMove = [k]) (h1 : Checker a k c1) (h2 : Checker a k c2)
    (hne : c1 ≠ c2) (m : Move) (hm : m ∈ Spec.legalMoves a) : ∃ t, m = .normal k t none :=
  double_check_king_move hv hk h1 h2 hne hm

/-- what a legal move of another man does about *each* checker: capture it (on the target or en passant)
or interpose. -/
theorem SpecSanity_check_evasion (a : APos) (hv : Valid a = true) (k c s t : Nat) (pr : Option Kind)
    (hk : kingSquares a.board a.whiteToMove = [k]) (hc : Checker a k c)
    (hm : Move.normal s t pr ∈ Spec.legalMoves a) (hs : s ≠ k) :
    c = t ∨ (isEpMove a s t = true ∧ c = sq (file t) (rank s)) ∨ (Att.Between c k t ∧ a.board t = none) := by
  have v := (SV.valid_iff a).mp hv
  have uk := SV.unique_of_kingSquares hk
  rcases SV.legal_cases hm with ⟨s', t', pr', pc, e, nl, hsafe⟩ | ⟨ks, e, _⟩
  · cases e
    have hkd : pc.kind ≠ .king := by
      intro hkd
      apply hs
      apply uk.2.2 s nl.hs
      rw [nl.hpc]
      cases pc with
      | mk w kd => simp only [] at hkd; have := nl.hw; simp only [] at this; rw [hkd, this]
    rw [SV.apply_board nl.hpc] at hsafe
    have := checker_fate v nl hkd uk hsafe hc
    have e : isEpMove a s t = SV.isEpB a s t pc := by
      unfold isEpMove SV.isEpB; rw [nl.hpc]
    rw [e]; exact this
  · cases e

/-- non-vacuity of `SpecSanity_check_evasion`: a single check by the rook on e8; the queen may interpose on
e2 (and `Between 60 4 12` is the third alternative). -/
def ssChkPos : APos :=
  { board := board8
      (row8 __ __ __ wQ wK __ __ __)
      (row8 __ __ __ __ __ __ __ __)
      (row8 __ __ __ __ __ __ __ __)
      (row8 __ __ __ __ __ __ __ __)
      (row8 __ __ __ __ __ __ __ __)
      (row8 __ __ __ __ __ __ __ __)
      (row8 __ __ __ __ __ __ __ __)
      (row8 bK __ __ __ bR __ __ __)
    whiteToMove := true, wK := none, wQ := none, bK := none, bQ := none, ep := none, half := 3, full := 30 }

example : Valid ssChkPos = true ∧ kingSquares ssChkPos.board ssChkPos.whiteToMove = [4] ∧
    Move.normal 3 12 none ∈ Spec.legalMoves ssChkPos ∧ ssChkPos.board 12 = none ∧
    inCheck ssChkPos.board true = true := by decide +kernel
example : Checker ssChkPos 4 60 :=
  ⟨by decide, ⟨false, .rook⟩, by decide +kernel, rfl, by decide +kernel⟩
example : Att.Between 60 4 12 :=
  ⟨(0, -1), 7, 6, ⟨Or.inr (Or.inl rfl), Or.inl rfl, Or.inr (by decide)⟩, by decide, by decide, by decide, by decide,
    by decide, by decide⟩

/-- non-vacuity: rook e8 and knight f3 check the king on e1; the white queen on d1 could take the knight,
but only two king moves are legal (d2 is covered by the knight). -/
def ssDblPos : APos :=
  { board := board8
      (row8 __ __ __ wQ wK __ __ __)
      (row8 __ __ __ __ __ __ __ __)
      (row8 __ __ __ __ __ bN __ __)
      (row8 __ __ __ __ __ __ __ __)
      (row8 __ __ __ __ __ __ __ __)
      (row8 __ __ __ __ __ __ __ __)
      (row8 __ __ __ __ __ __ __ __)
      (row8 bK __ __ __ bR __ __ __)
    whiteToMove := true, wK := none, wQ := none, bK := none, bQ := none, ep := none, half := 3, full := 30 }

example : Valid ssDblPos = true ∧ kingSquares ssDblPos.board ssDblPos.whiteToMove = [4] ∧
    Move.normal 3 21 none ∈ pseudoFrom ssDblPos 3 ∧
    Spec.legalMoves ssDblPos = [.normal 4 5 none, .normal 4 13 none] := by decide +kernel
example : Checker ssDblPos 4 60 ∧ Checker ssDblPos 4 21 :=
  ⟨⟨by decide, ⟨false, .rook⟩, by decide +kernel, rfl, by decide +kernel⟩,
   ⟨by decide, ⟨false, .knight⟩, by decide +kernel, rfl, by decide +kernel⟩⟩

/-! ## 5. known numbers — the published perft counts, evaluated by the kernel on `Spec.leaves`

Positions: `Rawr/Proofs/SpecSanityPerftDefs.lean` (literal boards). The depth-3 count of the start position
is assembled from twenty kernel evaluations (one per first move), Kiwipete depth 2 and position 3 depth 3
from four each. -/

/-- the standard start position: 20, 400, 8902. -/
theorem SpecSanity_perft_start : leaves stdStart 1 = 20 ∧ leaves stdStart 2 = 400 ∧ leaves stdStart 3 = 8902 :=
  ⟨leaves_start_1, leaves_start_2, leaves_start_3⟩

/-- "Kiwipete" `r3k2r/p1ppqpb1/bn2pnp1/3PN3/1p2P3/2N2Q1p/PPPBBPPP/R3K2R w KQkq -`: 48, 2039. -/
theorem SpecSanity_perft_kiwipete : leaves kiwipete 1 = 48 ∧ leaves kiwipete 2 = 2039 :=
  ⟨leaves_kiwi_1, leaves_kiwi_2⟩

/-- position 3 of the chessprogramming perft page `8/2p5/3p4/KP5r/1R3p1k/8/4P1P1/8 w - -`: 14, 191, 2812. -/
theorem SpecSanity_perft_pos3 : leaves cpwPos3 1 = 14 ∧ leaves cpwPos3 2 = 191 ∧ leaves cpwPos3 3 = 2812 :=
  ⟨leaves_pos3_1, leaves_pos3_2, leaves_pos3_3⟩

/-- Chess960: position 1 of the customary Chess960 perft suite
`bqnb1rkr/pp3ppp/3ppn2/2p5/5P2/P2P4/NPP1P1PP/BQ1BNRKR w HFhf -`: 21, 528; and the castling test
`1r4kr/p5pp/8/8/8/8/PPP4P/RK4R1 w GAhb -`: 22, 429, with both Chess960 castlings among the 22 moves
(squares after castling: `frcCastle_white_OO`, `frcCastle_white_OOO`, `frcCastle_black`). -/
theorem SpecSanity_perft_frc :
    leaves frcPos1 1 = 21 ∧ leaves frcPos1 2 = 528 ∧ leaves frcCastle 1 = 22 ∧ leaves frcCastle 2 = 429 ∧
    Move.castle true ∈ Spec.legalMoves frcCastle ∧ Move.castle false ∈ Spec.legalMoves frcCastle := by
  refine ⟨leaves_frcPos1_1, leaves_frcPos1_2, leaves_frcCastle_1, leaves_frcCastle_2, ?_, ?_⟩ <;>
    (rw [frcCastle_moves]; decide)

/-- all five test positions are valid, en-passant consistent and materially legal (`D` of DESIGN.md §4). -/
theorem SpecSanity_positions_valid :
    ∀ p ∈ [stdStart, kiwipete, cpwPos3, frcPos1, frcCastle],
      Valid p = true ∧ EpConsistent p = true ∧ LegalMaterial p = true := by
  decide +kernel

end Rawr

#print axioms Rawr.SpecSanity_legalMoves_mirror
#print axioms Rawr.SpecSanity_legalMoves_mirror_valid
#print axioms Rawr.SpecSanity_mem_legalMoves_mirror
#print axioms Rawr.SpecSanity_apply_mirror
#print axioms Rawr.SpecSanity_apply_mirror_not_eq
#print axioms Rawr.SpecSanity_apply_mirror_fields
#print axioms Rawr.SpecSanity_apply_mirror_normal
#print axioms Rawr.SpecSanity_valid_mirror
#print axioms Rawr.SpecSanity_domain_mirror
#print axioms Rawr.SpecSanity_leaves_mirror
#print axioms Rawr.SpecSanity_leaves_mirror_valid
#print axioms Rawr.SpecSanity_mirror_involutive
#print axioms Rawr.SpecSanity_full_not_read
#print axioms Rawr.SpecSanity_mirror_needs_rights
#print axioms Rawr.SpecSanity_kings_never_captured
#print axioms Rawr.SpecSanity_kings_survive
#print axioms Rawr.SpecSanity_king_square_after
#print axioms Rawr.SpecSanity_apply_changes_le_four
#print axioms Rawr.SpecSanity_men_apply
#print axioms Rawr.SpecSanity_men_by_colour
#print axioms Rawr.SpecSanity_pawns_never_increase
#print axioms Rawr.SpecSanity_promotion
#print axioms Rawr.SpecSanity_no_promotion
#print axioms Rawr.SpecSanity_isMate_iff
#print axioms Rawr.SpecSanity_mover_not_in_check
#print axioms Rawr.SpecSanity_no_castle_in_check
#print axioms Rawr.SpecSanity_double_check
#print axioms Rawr.SpecSanity_check_evasion
#print axioms Rawr.SpecSanity_perft_start
#print axioms Rawr.SpecSanity_perft_kiwipete
#print axioms Rawr.SpecSanity_perft_pos3
#print axioms Rawr.SpecSanity_perft_frc
#print axioms Rawr.SpecSanity_positions_valid
