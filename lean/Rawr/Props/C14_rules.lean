import Rawr.Proofs.RulesLevel
/-! # C14 in terms of the rules of chess

The conditional statements of `Props/C14.lean` (`SearchDom G`, `G fuel p`) instantiated at the search domain
`G := VE` of `Props/C03_rules.lean` ("`q ∈ V ∧ E`, counters with room for `n + 64` more plies"), so that the only
hypotheses on the root are `ValidPos p`, `Spec.EpConsistent (abs p)` and the counter room
`halfmoves/fullmoves + fuel + 64 < 2^31`; "the root has a legal move" is stated by the rules
(`Spec.legalMoves (abs p) ≠ []`, through C01).

`VE` is a `SearchDomC` (null-move clause only for positions not in check — the unconditional clause of `SearchDom`
is false for `V`, see `Proofs/BridgeSearch.lean`), so the theorems of `C14.lean` cannot be applied as they stand:
the `…C` versions of the underlying lemmas are used (`negamax_rangeC`, `rootIter_ttC` of `Proofs/BridgeSearch.lean`,
`rootIter_scoresC`, `rootIter_depth_countC` of `Proofs/RulesLevel.lean`).

`C14.lean` has no `VE`-instantiated versions; its unconditional theorems (`C14_depths_consecutive`,
`C14_best_is_pv_head`, `C14_nodes_rule`, `C14_depth_nothing_deeper`, `C14_no_report_after_stop`,
`C14_report_requires_all_polls_false`, `C14_expired_clock`) need none.

What cannot be removed: the bound on the recursion depth (`fuel ≤ 2·MATE_SCORE` for the scores,
`fuel ≤ INF + MATE_SCORE` for the depth counts — see `C14_scores_inside_mate_bounds_full`), the counter room,
and `TTSane` / `TTBounded` of the table handed in (a stored score is returned as it is). -/
namespace Rawr
open Position Spec ZH MM SV Br Att RulesLevel

/-- **C14.7 by the rules**: every reported score lies strictly inside the mate bounds. -/
theorem C14_scores_inside_mate_bounds_rules (lim : Limit) (fuel : Nat) (p : Position) (hist : List BB)
    (tt : Table TTEntry) (res : RootResult)
    (hV : ValidPos p = true) (hE : Spec.EpConsistent (abs p) = true)
    (hh : p.halfmoves + fuel + 64 < 2147483648) (hfm : p.fullmoves + fuel + 64 < 2147483648)
    (htt : TTSane tt) (hf : (fuel : Int) ≤ 2 * Gen.MATE_SCORE)
    (h : root lim fuel p hist tt = some res) :
    ∀ r ∈ res.infos, -Gen.MATE_SCORE < r.score ∧ r.score < Gen.MATE_SCORE := by
  intro r hr
  rcases rootIter_scoresC lim VE searchDomC_VE Gen.MATE_SCORE (Int.le_refl _) MATE_le_INF fuel p
    ⟨hV, hE, hh, hfm⟩ (by omega) _ _ _ _ _ _ (by exact htt) (Int.le_refl 1) (fun _ => rfl) h r hr with h1 | h1
  · simp at h1
  · exact h1

/-- the interior range lemma: every interior node (`ply ≥ 1`) on a position of `V ∧ E` answers strictly inside
the mate bounds, and the table stays sane. -/
theorem C14_negamax_inside_mate_bounds_rules (lim : Limit) (fuel : Nat) (p : Position) (st : SState)
    (α β ply depth : Int) (cn : Bool) (v : Int) (st' : SState)
    (hV : ValidPos p = true) (hE : Spec.EpConsistent (abs p) = true)
    (hh : p.halfmoves + fuel + 64 < 2147483648) (hfm : p.fullmoves + fuel + 64 < 2147483648)
    (htt : TTSane st.tt) (hply : 1 ≤ ply) (hbound : ply + fuel ≤ 2 * Gen.MATE_SCORE)
    (h : negamax lim fuel p st α β ply depth cn = some (v, st')) :
    (-Gen.MATE_SCORE < v ∧ v < Gen.MATE_SCORE) ∧ TTSane st'.tt :=
  negamax_rangeC lim VE searchDomC_VE Gen.MATE_SCORE (Int.le_refl _) fuel p st α β ply depth cn v st'
    ⟨hV, hE, hh, hfm⟩ htt hply (by omega) h

/-- the table handed back is sane again. -/
theorem C14_root_preserves_TTSane_rules (lim : Limit) (fuel : Nat) (p : Position) (hist : List BB)
    (tt : Table TTEntry) (res : RootResult)
    (hV : ValidPos p = true) (hE : Spec.EpConsistent (abs p) = true)
    (hh : p.halfmoves + fuel + 64 < 2147483648) (hfm : p.fullmoves + fuel + 64 < 2147483648)
    (htt : TTSane tt) (hf : (fuel : Int) ≤ 2 * Gen.MATE_SCORE)
    (h : root lim fuel p hist tt = some res) : TTSane res.tt :=
  rootIter_ttC lim VE searchDomC_VE Gen.MATE_SCORE (Int.le_refl _) MATE_le_INF fuel p ⟨hV, hE, hh, hfm⟩
    (by omega) _ _ _ _ _ _ (by exact htt) (Int.le_refl 1) h

/-- **C14.4 by the rules**: for every depth limit `D` exactly `max 1 (min D 127)` iterations are reported, on every
root of `V ∧ E` that has a legal move by the rules. -/
theorem C14_depth_general_rules (D : Int) (fuel : Nat) (p : Position) (hist : List BB) (tt : Table TTEntry)
    (res : RootResult) (hV : ValidPos p = true) (hE : Spec.EpConsistent (abs p) = true)
    (hh : p.halfmoves + fuel + 64 < 2147483648) (hfm : p.fullmoves + fuel + 64 < 2147483648)
    (htt : TTBounded tt) (hf : (fuel : Int) ≤ Gen.INF + Gen.MATE_SCORE)
    (hlegal : Spec.legalMoves (abs p) ≠ []) (h : root (.depth D) fuel p hist tt = some res) :
    res.infos.map (·.depth) = (List.range' 1 (depthTarget D).toNat).map Int.ofNat := by
  have hlegal' : legalMoves p ≠ [] := fun hnil => hlegal ((C01_no_moves p hV hE).mp hnil)
  have hlen := rootIter_depth_countC D VE searchDomC_VE Gen.INF MATE_le_INF (Int.le_refl _) fuel p
    ⟨hV, hE, hh, hfm⟩ hf hlegal' _ _ _ _ _ _ (by exact htt) (Int.le_refl 1) (by unfold depthTarget; omega)
    (by decide) h
  rw [C14_depths_consecutive _ _ _ _ _ _ h, hlen]
  simp

/-- depth limit `1 ≤ D < MAX_DEPTH`: the iterations `1, …, D` are reported in order and nothing deeper. -/
theorem C14_depth_iterations_rules (D : Int) (hD1 : 1 ≤ D) (hD2 : D < Gen.MAX_DEPTH)
    (fuel : Nat) (p : Position) (hist : List BB) (tt : Table TTEntry)
    (res : RootResult) (hV : ValidPos p = true) (hE : Spec.EpConsistent (abs p) = true)
    (hh : p.halfmoves + fuel + 64 < 2147483648) (hfm : p.fullmoves + fuel + 64 < 2147483648)
    (htt : TTBounded tt) (hf : (fuel : Int) ≤ Gen.INF + Gen.MATE_SCORE)
    (hlegal : Spec.legalMoves (abs p) ≠ []) (h : root (.depth D) fuel p hist tt = some res) :
    res.infos.map (·.depth) = (List.range' 1 D.toNat).map Int.ofNat := by
  have hT : depthTarget D = D := by
    have : Gen.MAX_DEPTH = 128 := rfl
    unfold depthTarget; omega
  rw [C14_depth_general_rules D fuel p hist tt res hV hE hh hfm htt hf hlegal h, hT]

/-- finding F10 on `V ∧ E`: a depth limit `D ≥ MAX_DEPTH = 128` is capped at 127 iterations. -/
theorem C14_depth_cap_rules (D : Int) (hD : Gen.MAX_DEPTH ≤ D)
    (fuel : Nat) (p : Position) (hist : List BB) (tt : Table TTEntry)
    (res : RootResult) (hV : ValidPos p = true) (hE : Spec.EpConsistent (abs p) = true)
    (hh : p.halfmoves + fuel + 64 < 2147483648) (hfm : p.fullmoves + fuel + 64 < 2147483648)
    (htt : TTBounded tt) (hf : (fuel : Int) ≤ Gen.INF + Gen.MATE_SCORE)
    (hlegal : Spec.legalMoves (abs p) ≠ []) (h : root (.depth D) fuel p hist tt = some res) :
    res.infos.map (·.depth) = (List.range' 1 127).map Int.ofNat := by
  have hT : depthTarget D = 127 := by
    have : Gen.MAX_DEPTH = 128 := rfl
    unfold depthTarget; omega
  rw [C14_depth_general_rules D fuel p hist tt res hV hE hh hfm htt hf hlegal h, hT]
  rfl

/-- `go depth 0` (and below) on `V ∧ E`: the first iteration is reported all the same. -/
theorem C14_depth_zero_rules (D : Int) (hD : D ≤ 1)
    (fuel : Nat) (p : Position) (hist : List BB) (tt : Table TTEntry)
    (res : RootResult) (hV : ValidPos p = true) (hE : Spec.EpConsistent (abs p) = true)
    (hh : p.halfmoves + fuel + 64 < 2147483648) (hfm : p.fullmoves + fuel + 64 < 2147483648)
    (htt : TTBounded tt) (hf : (fuel : Int) ≤ Gen.INF + Gen.MATE_SCORE)
    (hlegal : Spec.legalMoves (abs p) ≠ []) (h : root (.depth D) fuel p hist tt = some res) :
    res.infos.map (·.depth) = [1] := by
  have hT : depthTarget D = 1 := by
    have : Gen.MAX_DEPTH = 128 := rfl
    unfold depthTarget; omega
  rw [C14_depth_general_rules D fuel p hist tt res hV hE hh hfm htt hf hlegal h, hT]
  rfl

/-- everything at once for a root of the domain `D = V ∧ E ∧ M`, an all-default table of any size and any limit:
scores inside the mate bounds, sane table handed back. -/
theorem C14_rules_InD (lim : Limit) (fuel : Nat) (p : Position) (hist : List BB) (n : Nat) (res : RootResult)
    (hD : InD p = true)
    (hh : p.halfmoves + fuel + 64 < 2147483648) (hfm : p.fullmoves + fuel + 64 < 2147483648)
    (hf : (fuel : Int) ≤ 2 * Gen.MATE_SCORE)
    (h : root lim fuel p hist ⟨Array.replicate n default⟩ = some res) :
    (∀ r ∈ res.infos, -Gen.MATE_SCORE < r.score ∧ r.score < Gen.MATE_SCORE) ∧ TTSane res.tt := by
  simp only [InD, Bool.and_eq_true] at hD
  have htt : TTSane ⟨Array.replicate n default⟩ := TTIn.replicate (by decide) n
  exact ⟨C14_scores_inside_mate_bounds_rules lim fuel p hist _ res hD.1.1 hD.1.2 hh hfm htt hf h,
    C14_root_preserves_TTSane_rules lim fuel p hist _ res hD.1.1 hD.1.2 hh hfm htt hf h⟩

/-! ## non-vacuity -/
namespace C14RulesEx
open C13Ex C03RulesEx

/-- K+P v K (key recomputed, `kpkV` of `C03_rules.lean`), depth limit 1, non-empty history, three-slot table:
the hypotheses hold; exactly iteration 1 is reported, its score is inside the mate bounds, the table is sane. -/
example : ∃ res, root (.depth 1) 2 kpkV hist2 tt3 = some res ∧ res.infos.map (·.depth) = [1] ∧
    (∀ r ∈ res.infos, -Gen.MATE_SCORE < r.score ∧ r.score < Gen.MATE_SCORE) ∧ TTSane res.tt := by
  have h : (root (.depth 1) 2 kpkV hist2 tt3).isSome = true := by decide +kernel
  obtain ⟨res, h1⟩ := Option.isSome_iff_exists.1 h
  have htt : TTSane tt3 := TTIn.replicate (by decide) 3
  exact ⟨res, h1,
    C14_depth_iterations_rules 1 (by decide) (by decide) 2 kpkV hist2 tt3 res kpkV_valid kpkV_E
      (by decide +kernel) (by decide +kernel) htt.bounded (by decide) (by decide +kernel) h1,
    C14_scores_inside_mate_bounds_rules _ 2 kpkV hist2 tt3 res kpkV_valid kpkV_E (by decide +kernel)
      (by decide +kernel) htt (by decide) h1,
    C14_root_preserves_TTSane_rules _ 2 kpkV hist2 tt3 res kpkV_valid kpkV_E (by decide +kernel)
      (by decide +kernel) htt (by decide) h1⟩

/-- the hypotheses on the root hold for the start position with the largest fuel allowed. -/
example : ValidPos Gen.startpos = true ∧ Spec.EpConsistent (abs Gen.startpos) = true ∧
    Gen.startpos.halfmoves + 2000000 + 64 < 2147483648 ∧ Gen.startpos.fullmoves + 2000000 + 64 < 2147483648 ∧
    Spec.legalMoves (abs Gen.startpos) ≠ [] := by decide +kernel

end C14RulesEx

end Rawr

#print axioms Rawr.C14_scores_inside_mate_bounds_rules
#print axioms Rawr.C14_negamax_inside_mate_bounds_rules
#print axioms Rawr.C14_root_preserves_TTSane_rules
#print axioms Rawr.C14_depth_general_rules
#print axioms Rawr.C14_depth_iterations_rules
#print axioms Rawr.C14_depth_cap_rules
#print axioms Rawr.C14_depth_zero_rules
#print axioms Rawr.C14_rules_InD
