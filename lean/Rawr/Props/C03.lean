import Rawr.Proofs.RootLemmasIter
import Rawr.Proofs.RootLemmasDom
import Rawr.Abs
import Rawr.Props.C13
import Rawr.Props.C17
/-! # C03 — a search always answers with a legal move when one exists

Statements about the model functions `negamax`, `rootIter`, `root` of `Rawr/Model/Search.lean` themselves, for
every limit (including an arbitrary clock oracle), every history and every table whose stored scores are
below `INF` in absolute value (`TTBounded`; preserved by the search, true of a fresh or cleared table).

Hypotheses, all explicit:
* `SearchDom G` and `G fuel p`: evaluation and quiescence answer within `±EB = ±174416` on the positions the
  search visits (`G` is a fuel-indexed family closed under legal moves and the null move).
  Two ways to discharge it are in `Rawr/Proofs/RootLemmasDom.lean`:
  `EvalBoundedOn.dom` (an invariant closed under moves with `|eval| ≤ EB`; for `Consistent` positions the
  evaluation clause is `C17_bounds_all_V1`, and `EvalBounded.on` covers the literal `∀ q, |eval q| ≤ EB`) and
  `sDomB_dom` (a kernel-evaluable check, used for the examples below).
* `fuel ≤ INF + MATE_SCORE = 11 000 000`: a mated node answers `-MATE_SCORE + ply`, which stays above `-INF`
  only while `ply < INF + MATE_SCORE`; `ply` is bounded by the recursion depth, i.e. by `fuel`. Nothing in
  the model bounds the recursion depth otherwise (a node in check is extended, so depth need not decrease).
  The statement without this hypothesis is kept as `C03_root_returns_legal_full`. -/
namespace Rawr

/-- every stored score is strictly between `-INF` and `INF`. -/
def TTBounded (t : Table TTEntry) : Prop := TTIn Gen.INF t

theorem MATE_le_INF : Gen.MATE_SCORE ≤ Gen.INF := by decide

/-! ## 1. the range lemma and the root call -/

/-- every score returned by an interior node is strictly between `-INF` and `INF`, and the table stays
bounded. -/
theorem negamax_score_gt_negINF (lim : Limit) (G : Nat → Position → Prop) (hG : SearchDom G)
    (fuel : Nat) (p : Position) (st : SState) (α β ply depth : Int) (cn : Bool) (v : Int) (st' : SState)
    (hGp : G fuel p) (htt : TTBounded st.tt) (hply : 1 ≤ ply)
    (hbound : ply + fuel ≤ Gen.INF + Gen.MATE_SCORE)
    (h : negamax lim fuel p st α β ply depth cn = some (v, st')) :
    (-Gen.INF < v ∧ v < Gen.INF) ∧ TTBounded st'.tt :=
  negamax_range lim G hG Gen.INF MATE_le_INF fuel p st α β ply depth cn v st' hGp htt hply hbound h

/-- the root's stop poll is skipped during iteration 1. -/
theorem not_rootStopped_of_depth_le_one (lim : Limit) (st : SState) (h : st.depth ≤ 1) :
    ¬ RootStopped lim st := by
  rintro ⟨h1, _⟩; omega

/-- A root call (`ply = 0`, full window, `depth ≥ 1`, `canNull = false`) that returns either
(a) was stopped by its poll (`RootStopped`: needs `stats.depth > 1`) and leaves `best` alone, or
(b) completed its move loop: no write when there is no legal move, a member of `legalMoves p` otherwise. -/
theorem negamax_root_best (lim : Limit) (G : Nat → Position → Prop) (hG : SearchDom G)
    (fuel : Nat) (p : Position) (st : SState) (depth v : Int) (st' : SState)
    (hGp : G fuel p) (htt : TTBounded st.tt) (hd : 1 ≤ depth)
    (hf : (fuel : Int) ≤ Gen.INF + Gen.MATE_SCORE)
    (h : negamax lim fuel p st (-Gen.INF) Gen.INF 0 depth false = some (v, st')) :
    TTBounded st'.tt ∧
    ((RootStopped lim st ∧ st'.best = st.best) ∨
     (¬ RootStopped lim st ∧ (legalMoves p = [] → st'.best = st.best) ∧
       (legalMoves p ≠ [] → ∃ m ∈ legalMoves p, st'.best = some m))) := by
  obtain ⟨h1, h2⟩ := negamax_root lim G hG Gen.INF MATE_le_INF (Int.le_refl _) fuel p st depth v st' hGp htt hd hf h
  refine ⟨h1, ?_⟩
  rcases h2 with ⟨hs, _, e⟩ | ⟨hns, hnil, hcons⟩
  · exact Or.inl ⟨hs, by rw [e]; rfl⟩
  · exact Or.inr ⟨hns, hnil, fun hl => (hcons hl).2⟩

/-! ## 2. the driver -/

/-- `root` answers with a member of `legalMoves p` when there is one, and with `Err("No bestmove")` only
when there is none. -/
theorem C03_root_returns_legal (lim : Limit) (G : Nat → Position → Prop) (hG : SearchDom G)
    (fuel : Nat) (p : Position) (hist : List BB) (tt : Table TTEntry) (res : RootResult)
    (hGp : G fuel p) (htt : TTBounded tt) (hf : (fuel : Int) ≤ Gen.INF + Gen.MATE_SCORE)
    (h : root lim fuel p hist tt = some res) :
    (legalMoves p ≠ [] → ∃ m ∈ legalMoves p, res.best = some m) ∧ (legalMoves p = [] → res.best = none) :=
  rootIter_best lim G hG Gen.INF MATE_le_INF (Int.le_refl _) fuel p hGp hf _ _ _ _ _ _ (by exact htt)
    (Or.inl ⟨rfl, by decide, rfl, rfl⟩) h

/-- the same for an invariant `G` of positions (`EvalBoundedOn G`). -/
theorem C03_root_returns_legal_inv (lim : Limit) (G : Position → Prop) (hG : EvalBoundedOn G)
    (fuel : Nat) (p : Position) (hist : List BB) (tt : Table TTEntry) (res : RootResult)
    (hGp : G p) (htt : TTBounded tt) (hf : (fuel : Int) ≤ Gen.INF + Gen.MATE_SCORE)
    (h : root lim fuel p hist tt = some res) :
    (legalMoves p ≠ [] → ∃ m ∈ legalMoves p, res.best = some m) ∧ (legalMoves p = [] → res.best = none) :=
  C03_root_returns_legal lim (fun _ => G) hG.dom fuel p hist tt res hGp htt hf h

/-- the same under the bound on every position. -/
theorem C03_root_returns_legal_evalBounded (lim : Limit) (hE : EvalBounded)
    (fuel : Nat) (p : Position) (hist : List BB) (tt : Table TTEntry) (res : RootResult)
    (htt : TTBounded tt) (hf : (fuel : Int) ≤ Gen.INF + Gen.MATE_SCORE)
    (h : root lim fuel p hist tt = some res) :
    (legalMoves p ≠ [] → ∃ m ∈ legalMoves p, res.best = some m) ∧ (legalMoves p = [] → res.best = none) :=
  C03_root_returns_legal_inv lim _ hE.on fuel p hist tt res trivial htt hf h

/-- the table handed back is bounded again (so the hypothesis holds for the next search). -/
theorem C03_root_preserves_TTBounded (lim : Limit) (G : Nat → Position → Prop) (hG : SearchDom G)
    (fuel : Nat) (p : Position) (hist : List BB) (tt : Table TTEntry) (res : RootResult)
    (hGp : G fuel p) (htt : TTBounded tt) (hf : (fuel : Int) ≤ Gen.INF + Gen.MATE_SCORE)
    (h : root lim fuel p hist tt = some res) : TTBounded res.tt :=
  rootIter_tt lim G hG Gen.INF MATE_le_INF (Int.le_refl _) fuel p hGp hf _ _ _ _ _ _ (by exact htt)
    (Int.le_refl 1) h

/-- one way to discharge `EvalBoundedOn`: board consistency (V.1 of DESIGN.md §4) gives the evaluation bound
(`C17_bounds_all_V1`); what remains is that the three kinds of step keep the boards consistent (part of C02). -/
theorem EvalBoundedOn_of_Consistent_closed
    (hmove : ∀ q m q', Consistent q = true → m ∈ legalMoves q → q.makemove m true = some q' → Consistent q' = true)
    (hcapt : ∀ q m q', Consistent q = true → m ∈ legalCaptures q → q.makemove m false = some q' →
      Consistent q' = true)
    (hnull : ∀ q, Consistent q = true → Consistent q.makenull = true) :
    EvalBoundedOn (fun q => Consistent q = true) :=
  ⟨hmove, hcapt, hnull, fun q hc =>
    (C17_bounds_all_V1 q (PieceDisj_of_Consistent hc) (OnMen_of_Consistent hc)
      (colours_disjoint_of_Consistent hc)).2.2.2.2.2⟩

/-- the statement of `C03_root_returns_legal` without the bound on the recursion depth (not proved: it needs
a bound on the ply reached, i.e. the termination argument of C15 (d)). -/
def C03_root_returns_legal_full : Prop :=
  ∀ (lim : Limit) (G : Nat → Position → Prop), SearchDom G →
    ∀ (fuel : Nat) (p : Position) (hist : List BB) (tt : Table TTEntry) (res : RootResult),
      G fuel p → TTBounded tt → root lim fuel p hist tt = some res →
      (legalMoves p ≠ [] → ∃ m ∈ legalMoves p, res.best = some m) ∧ (legalMoves p = [] → res.best = none)

/-! ## 3. the property against the rules of chess -/

/-- C03 with the specification's legal moves in place of the generator's (the bridge
`legalMoves p` = `(Spec.legalMoves (abs p)).map (encodeMove p)` up to order is C01). -/
def C03_full : Prop :=
  ∀ (lim : Limit) (fuel : Nat) (p : Position) (hist : List BB) (tt : Table TTEntry) (res : RootResult),
    InD p = true → TTBounded tt → root lim fuel p hist tt = some res →
    (Spec.legalMoves (abs p) ≠ [] →
      ∃ m ∈ Spec.legalMoves (abs p), res.best = some (encodeMove p m)) ∧
    (Spec.legalMoves (abs p) = [] → res.best = none)

/-! ## non-vacuity -/
namespace C03Ex
open C13Ex

theorem kpk_dom2 : sDomB 2 kpk = true := by decide +kernel

theorem kpk_legal : legalMoves kpk ≠ [] := by decide +kernel

/-- a table that is not fresh: the slot of the root holds an entry for the root's key with a bogus move,
a huge depth and a score just below `INF` (flag "exact"). -/
def ttDirty : Table TTEntry :=
  ⟨#[default, ⟨0x1234#64, ⟨63, 0, 4⟩, 9999999, 100, 0⟩, ⟨0x77#64, ⟨1, 2, 6⟩, -9999999, 3, 1⟩]⟩

theorem ttDirty_bounded : TTBounded ttDirty := by
  intro e he
  have : e ∈ ttDirty.entries.toList := Array.mem_toList_iff.2 he
  simp only [ttDirty, List.mem_cons, List.not_mem_nil, or_false] at this
  rcases this with rfl | rfl | rfl <;> (unfold InR; decide)

/-- the hypotheses of `C03_root_returns_legal` hold for K+P v K with a dirty table, a non-empty history and a
zero-depth budget; the conclusion, through the theorem: the driver returns a legal move. -/
example : ∃ res, root (.depth 0) 2 kpk hist2 ttDirty = some res ∧ ∃ m ∈ legalMoves kpk, res.best = some m := by
  have h : (root (.depth 0) 2 kpk hist2 ttDirty).isSome = true := by decide +kernel
  obtain ⟨res, h1⟩ := Option.isSome_iff_exists.1 h
  exact ⟨res, h1, (C03_root_returns_legal _ _ sDomB_dom 2 kpk hist2 ttDirty res kpk_dom2 ttDirty_bounded
    (by decide) h1).1 kpk_legal⟩

/-- … and for a clock that has already expired at the first poll. -/
example : ∃ res, root (.clock fun _ => true) 2 kpk hist2 tt3 = some res ∧
    ∃ m ∈ legalMoves kpk, res.best = some m := by
  have h : (root (.clock fun _ => true) 2 kpk hist2 tt3).isSome = true := by decide +kernel
  obtain ⟨res, h1⟩ := Option.isSome_iff_exists.1 h
  exact ⟨res, h1, (C03_root_returns_legal _ _ sDomB_dom 2 kpk hist2 tt3 res kpk_dom2
    (TTIn.replicate (by decide) 3) (by decide) h1).1 kpk_legal⟩

/-- the other direction on a stalemate: `Err("No bestmove")`. -/
example : ∃ res, root .infinite 1 stale hist2 tt3 = some res ∧ res.best = none := by
  have h : (root .infinite 1 stale hist2 tt3).isSome = true := by decide +kernel
  have hd : sDomB 1 stale = true := by decide +kernel
  obtain ⟨res, h1⟩ := Option.isSome_iff_exists.1 h
  exact ⟨res, h1, (C03_root_returns_legal _ _ sDomB_dom 1 stale hist2 tt3 res hd
    (TTIn.replicate (by decide) 3) (by decide) h1).2 (by decide +kernel)⟩

end C03Ex

end Rawr

#print axioms Rawr.negamax_score_gt_negINF
#print axioms Rawr.negamax_root_best
#print axioms Rawr.C03_root_returns_legal
#print axioms Rawr.C03_root_returns_legal_inv
#print axioms Rawr.C03_root_returns_legal_evalBounded
#print axioms Rawr.C03_root_preserves_TTBounded
#print axioms Rawr.EvalBoundedOn_of_Consistent_closed
