import Rawr.Props.C05
import Rawr.Props.C05_rules
import Rawr.Props.C07_valid
import Rawr.Props.C02_code
import Rawr.Proofs.RustTextAgree_Rules
/-!
# C05 on the regenerated code: `R.moves` (uci/moves.rs) and `R.position` (uci/position.rs)

`R.moves stream pos history : Option (rest of the stream × pos × history × output lines)` and
`R.position fuel ar stream pos history` are regenerated from the Rust source on every run.  The Rust history vector
grows at the END (`history.push(key)`), the model's list at the front, whence the `reverse`s of the agreement
theorems; below the history is stated in the Rust order.

Domain hypotheses of the agreements (and why the model theorems do not have them): `Mv::to_uci` panics in
`Square::fmt` on a square ≥ 64 (the model's `toUciChars` is total), so one token needs `MovesOnBoard pos` — here
`ValidPos pos` (`movesOnBoard_of_valid`); a token LIST needs it along the game: `agree_moves_rules` asks for `VE n pos`
(`V ∧ E` with counter room `+ n + 64`, `n` = number of tokens).

* `C05_code_Denotes_iff` — the predicate `Denotes pos t m` ("token `t` selects move `m`": first generated move printing as
  `t`, else the conventional castling alias) spelled out with `R.legal_moves` and `R.to_uci`.
* `C05_code_token_spec` = `C05_applyToken_spec` for the one-token stream: EXTRA hypothesis `ValidPos pos` (see above).
* `C05_code_rules_token`, `C05_code_rules_no_panic` = `C05_rules_token`, `C05_rules_no_panic`: exact transfers.
* `C05_code_applyTokens_fold` = `C05_applyTokens_fold` (position = last of the trace, history = old history followed by the
  keys of the trace, output = the reports): EXTRA hypothesis `VE ts.length pos`.
* `C05_code_rules_tokens` = `C05_rules_tokens`: the counter room is `+ ts.length + 64` instead of `+ ts.length`.
* `C05_code_position_history` = `C05_doPosition_history` on `R.position`.  The agreement `agree_position_rules` asks that
  the position `set_fen` accepts lie in `VE (number of move tokens)`; its `ValidPos` part is now discharged by
  `C07_accepted_validPos`, what remains (`hdom`) is `EpConsistent` and the counter room of the accepted position —
  neither is implied by acceptance (an en-passant square behind a pinned pawn is accepted; counters up to `2^31 - 1` are).
  `trace` / `reports` (`Proofs/UciMoves.lean`) are the specification-side descriptions of the positions reached and the
  lines printed; they are defined through `Denotes` and the model's `makemove` (= `R.makemove`, `agree_makemove`).
-/
namespace Rawr
open Position Spec ZH MM SV

/-- `Denotes` in terms of the regenerated generator and printer, on a valid position. -/
theorem C05_code_Denotes_iff (pos : Position) (hV : ValidPos pos = true) (t : List Char) (m : Mv) :
    Denotes pos t m ↔
      (∃ as bs, R.legal_moves pos = as ++ m :: bs ∧ R.to_uci m pos = some t ∧ ∀ x ∈ as, R.to_uci x pos ≠ some t) ∨
      ((∀ x ∈ R.legal_moves pos, R.to_uci x pos ≠ some t) ∧
        ∃ file, castleFile pos t = some file ∧ m = ⟨4, fromCoords file 0, 6⟩ ∧ m ∈ R.legal_moves pos ∧
          (R.get_us pos).isSet m.dst = true) := by
  have key : ∀ x ∈ legalMoves pos, (R.to_uci x pos = some t ↔ toUciChars pos x = t) := fun x hx => by
    rw [agree_to_uci_rules pos hV x hx, Option.some.injEq]
  rw [Denotes_iff, agree_legal_moves, agree_get_us]
  constructor
  · rintro (⟨as, bs, e, h1, h2⟩ | ⟨h1, h2⟩)
    · refine Or.inl ⟨as, bs, e, (key m (by rw [e]; simp)).mpr h1, fun x hx hc => h2 x hx ?_⟩
      exact (key x (by rw [e]; simp [hx])).mp hc
    · exact Or.inr ⟨fun x hx hc => h1 x hx ((key x hx).mp hc), h2⟩
  · rintro (⟨as, bs, e, h1, h2⟩ | ⟨h1, h2⟩)
    · refine Or.inl ⟨as, bs, e, (key m (by rw [e]; simp)).mp h1, fun x hx hc => h2 x hx ?_⟩
      exact (key x (by rw [e]; simp [hx])).mpr hc
    · exact Or.inr ⟨fun x hx hc => h1 x hx ((key x hx).mpr hc), h2⟩

/-- the regenerated `moves` on a one-token stream is the model's `applyToken` (only `ValidPos` needed). -/
theorem moves_code_single (pos : Position) (hV : ValidPos pos = true) (hist : List BB) (t : List Char) :
    R.moves [t] pos hist =
      (applyToken pos hist.reverse t).map fun r => (([] : List (List Char)), r.1, r.2.1.reverse, r.2.2) := by
  have hag := agree_moves_ix (fun n q => n = 0 ∨ (n = 1 ∧ ValidPos q = true))
    (fun n q h => by
      rcases h with h | ⟨_, h⟩
      · omega
      · exact movesOnBoard_of_valid h)
    (fun n q h => by
      rcases h with h | ⟨h, _⟩
      · omega
      · exact Or.inl (by omega))
    (fun n q _ _ h _ _ => by
      rcases h with h | ⟨h, _⟩
      · omega
      · exact Or.inl (by omega))
    [t] pos hist (Or.inr ⟨rfl, hV⟩)
  rw [hag]
  unfold applyTokens
  cases applyToken pos hist.reverse t with
  | none => rfl
  | some r => obtain ⟨p', h', o⟩ := r; simp [applyTokens]

/-- **C05 (one token) on the code**: the regenerated `moves` applied to the one-token stream `[t]` either selects the
move `t` denotes, makes it with the regenerated `makemove::<true>` and pushes its key, printing nothing — or `t` denotes
nothing, and it is reported as unknown with position and history unchanged.  Both directions. -/
theorem C05_code_token_spec (pos : Position) (hV : ValidPos pos = true) (hist : List BB) (t : List Char)
    (rest : List (List Char)) (pos' : Position) (hist' : List BB) (out : List String) :
    R.moves [t] pos hist = some (rest, pos', hist', out) ↔
      rest = [] ∧
      ((∃ m, Denotes pos t m ∧ R.makemove pos m true = some pos' ∧ hist' = hist ++ [pos'.hash] ∧ out = []) ∨
       ((∀ m, ¬ Denotes pos t m) ∧ pos' = pos ∧ hist' = hist ∧
          out = ["info string unknown move " ++ String.ofList t])) := by
  rw [moves_code_single pos hV, agree_makemove, Option.map_eq_some_iff]
  constructor
  · rintro ⟨⟨p1, h1, o1⟩, hap, e⟩
    simp only [Prod.mk.injEq] at e
    obtain ⟨rfl, rfl, rfl, rfl⟩ := e
    refine ⟨rfl, ?_⟩
    rcases (C05_applyToken_spec pos hist.reverse t p1 h1 o1).mp hap with ⟨m, hd, hmk, e1, e2⟩ | ⟨hn, e0, e1, e2⟩
    · exact Or.inl ⟨m, hd, hmk, by rw [e1]; simp, e2⟩
    · exact Or.inr ⟨hn, e0, by rw [e1]; simp, e2⟩
  · rintro ⟨rfl, ⟨m, hd, hmk, e1, e2⟩ | ⟨hn, e0, e1, e2⟩⟩
    · exact ⟨(pos', pos'.hash :: hist.reverse, []),
        (C05_applyToken_spec pos hist.reverse t _ _ _).mpr (Or.inl ⟨m, hd, hmk, rfl, rfl⟩), by simp [e1, e2]⟩
    · exact ⟨(pos, hist.reverse, out),
        (C05_applyToken_spec pos hist.reverse t _ _ _).mpr (Or.inr ⟨hn, rfl, rfl, e2⟩), by simp [e0, e1]⟩

/-- **C05 (one token) on the code, against the rules**: an accepted token denotes a move that is legal by the rules; the
new position denotes the successor the rules prescribe and is again in `V ∧ E`. -/
theorem C05_code_rules_token (pos : Position) (hist : List BB) (t : List Char)
    (rest : List (List Char)) (pos' : Position) (hist' : List BB) (out : List String)
    (hV : ValidPos pos = true) (hE : Spec.EpConsistent (abs pos) = true)
    (hh : pos.halfmoves + 1 < 2147483648) (hf : pos.fullmoves + 1 < 2147483648) :
    R.moves [t] pos hist = some (rest, pos', hist', out) ↔
      rest = [] ∧
      ((∃ m, Denotes pos t m ∧ decodeMove pos m ∈ Spec.legalMoves (abs pos) ∧
          R.makemove pos m true = some pos' ∧ abs pos' = Spec.apply (abs pos) (decodeMove pos m) ∧
          ValidPos pos' = true ∧ Spec.EpConsistent (abs pos') = true ∧
          hist' = hist ++ [pos'.hash] ∧ out = []) ∨
       ((∀ m, ¬ Denotes pos t m) ∧ pos' = pos ∧ hist' = hist ∧
          out = ["info string unknown move " ++ String.ofList t])) := by
  rw [C05_code_token_spec pos hV]
  refine and_congr_right fun _ => or_congr_left ?_
  constructor
  · rintro ⟨m, hd, hmk, e1, e2⟩
    have hmk' := hmk
    rw [agree_makemove] at hmk'
    have hm := hd.mem
    have hs := gen_moveShape pos hV m hm
    have hL := (C01_sound pos hV hE m hm).1
    exact ⟨m, hd, hL, hmk, C02_makemove_eq pos m pos' true hV hs hL hmk',
      C02_valid_preserved pos m pos' hV hs hL hmk' hh hf, E_of_legal pos m pos' true hV hs hL hmk', e1, e2⟩
  · rintro ⟨m, hd, _, hmk, _, _, _, e1, e2⟩
    exact ⟨m, hd, hmk, e1, e2⟩

/-- on `V` no token makes the regenerated `moves` panic. -/
theorem C05_code_rules_no_panic (pos : Position) (hist : List BB) (t : List Char) (hV : ValidPos pos = true) :
    R.moves [t] pos hist ≠ none := by
  rw [moves_code_single pos hV]
  intro h
  rw [Option.map_eq_none_iff] at h
  exact C05_rules_no_panic pos hist.reverse t hV h

/-- **C05 (token list) on the code**: what the regenerated `moves` returns is described by the trace of positions
reached: position = last of the trace, history = the old history followed by their keys, output = the reports. -/
theorem C05_code_applyTokens_fold (ts : List (List Char)) (pos : Position) (hist : List BB) (hdom : VE ts.length pos)
    (rest : List (List Char)) (pos' : Position) (hist' : List BB) (out' : List String)
    (h : R.moves ts pos hist = some (rest, pos', hist', out')) :
    rest = [] ∧ ∃ tr, trace ts pos = some tr ∧ pos' = tr.getLastD pos ∧
      hist' = hist ++ tr.map (·.hash) ∧ out' = reports ts pos ∧
      hist'.length = hist.length + tr.length ∧ out'.length + tr.length = ts.length := by
  rw [agree_moves_rules ts pos hist hdom, Option.map_eq_some_iff] at h
  obtain ⟨⟨p1, h1, o1⟩, hap, e⟩ := h
  simp only [Prod.mk.injEq] at e
  obtain ⟨rfl, rfl, rfl, rfl⟩ := e
  obtain ⟨tr, htr, e1, e2, e3, e4, e5, _⟩ := C05_applyTokens_fold ts pos hist.reverse [] p1 h1 o1 hap
  refine ⟨rfl, tr, htr, e1, ?_, by simpa using e3, ?_, by simpa using e5⟩
  · rw [e2]; simp
  · rw [List.length_reverse, e4, List.length_reverse]

/-- **C05 (token list) on the code, against the rules**: from a position of `D` the regenerated `moves` never panics,
consumes the stream, and leads — by moves legal by the rules, made by the regenerated `makemove`, one per accepted
token — to a position of `D` that denotes the position the rules prescribe. -/
theorem C05_code_rules_tokens (ts : List (List Char)) (pos : Position) (hist : List BB)
    (hD : InD pos = true)
    (hh : pos.halfmoves + ts.length + 64 < 2147483648) (hf : pos.fullmoves + ts.length + 64 < 2147483648) :
    ∃ pos' hist' out', R.moves ts pos hist = some ([], pos', hist', out') ∧
      ∃ n, n ≤ ts.length ∧ hist'.length = hist.length + n ∧
        C02Path_code n pos (abs pos) pos' (abs pos') ∧ InD pos' = true := by
  obtain ⟨hV, hE, _⟩ := (inD_iff pos).mp hD
  obtain ⟨pos', hist', out', hap, n, hn, hl, hpath, hD'⟩ :=
    C05_rules_tokens ts pos hist.reverse [] hD (by omega) (by omega)
  refine ⟨pos', hist'.reverse, out', ?_, n, hn, ?_, C02Path_code_iff.mpr hpath, hD'⟩
  · rw [agree_moves_rules ts pos hist ⟨hV, hE, hh, hf⟩, hap]; rfl
  · rw [List.length_reverse, hl, List.length_reverse]

/-- **`position <fen> moves ts` on the code**: after the regenerated `position` the session state (`s'`: position with
the session's `UCI_Chess960` flag, history) is described as in `C05_doPosition_history`: the history has
1 + (accepted tokens) keys, the oldest the key of the position the regenerated `set_fen` accepted, the newest the key of
the current position; the output are the reports. -/
theorem C05_code_position_history (ar : Arith) (n : Nat) (s : UState) (hist0 : List BB) (toks : List (List Char))
    (hdom : ∀ p, R.set_fen (n + 2) ar s.pos (positionArgs toks).1 = some p →
      Spec.EpConsistent (abs p) = true ∧ p.halfmoves + (positionArgs toks).2.length + 64 < 2147483648 ∧
        p.fullmoves + (positionArgs toks).2.length + 64 < 2147483648)
    (r : List (List Char) × Position × List BB × List String)
    (h : R.position (n + 2) ar toks s.pos hist0 = some r) :
    let s' : UState := { s with pos := { r.2.1 with frc := s.frc }, hist := r.2.2.1.reverse }
    let out := r.2.2.2
    ∃ p0 tr, R.set_fen (n + 2) ar s.pos (positionArgs toks).1 = some p0 ∧
      trace (positionArgs toks).2 { p0 with frc := s.pos.frc } = some tr ∧
      s'.pos = { tr.getLastD { p0 with frc := s.pos.frc } with frc := s.frc } ∧
      s'.hist = (tr.map (·.hash)).reverse ++ [p0.hash] ∧
      s'.hist.length = 1 + tr.length ∧
      s'.hist.getLast? = some p0.hash ∧
      s'.hist.head? = some s'.pos.hash ∧
      out = reports (positionArgs toks).2 { p0 with frc := s.pos.frc } ∧
      out.length + tr.length = (positionArgs toks).2.length := by
  intro s' out
  simp only [agree_set_fen] at hdom ⊢
  have hag := agree_position_rules ar n s hist0 toks (fun p hp =>
    ⟨C07_accepted_validPos ar _ _ p hp, (hdom p hp).1, (hdom p hp).2.1, (hdom p hp).2.2⟩)
  rw [h] at hag
  exact C05_doPosition_history ar s s' toks out hag.symm

/-! ## non-vacuity -/

/-- `e2e4` in the start position through the regenerated `moves`: accepted; the rules' move is the double push e2–e4,
legal by the rules; the key is appended to the history. -/
example : ∃ np, R.moves [str "e2e4"] Gen.startpos [7#64] = some ([], np, [7#64, np.hash], []) ∧
    abs np = Spec.apply (abs Gen.startpos) (.normal 12 28 none) ∧
    Spec.Move.normal 12 28 none ∈ Spec.legalMoves (abs Gen.startpos) := by
  have hs : (R.moves [str "e2e4"] Gen.startpos [7#64]).isSome = true := by decide +kernel
  obtain ⟨⟨rest, np, h1, o1⟩, hap⟩ := Option.isSome_iff_exists.1 hs
  have hden : denote Gen.startpos (str "e2e4") = some ⟨12, 28, 6⟩ := by decide +kernel
  have hD := (denote_eq_some_iff _ _ _).1 hden
  obtain ⟨rfl, ⟨m, hd, hL, _, ha, _, _, e1, e2⟩ | ⟨hn, _⟩⟩ :=
    (C05_code_rules_token Gen.startpos [7#64] (str "e2e4") rest np h1 o1 (by decide +kernel) (by decide +kernel)
      (by decide +kernel) (by decide +kernel)).mp hap
  · cases hD.unique hd
    have hdec : decodeMove Gen.startpos ⟨12, 28, 6⟩ = .normal 12 28 none := by decide +kernel
    rw [hdec] at hL ha
    subst e1 e2
    exact ⟨np, hap, ha, hL⟩
  · exact absurd hD (hn _)

/-- `moves e2e4 zzz e7e5` from the start position: the hypotheses of `C05_code_rules_tokens` hold. -/
example : ∃ pos' hist' out', R.moves [str "e2e4", str "zzz", str "e7e5"] Gen.startpos [] =
    some ([], pos', hist', out') ∧ InD pos' = true := by
  obtain ⟨pos', hist', out', h, _, _, _, _, hD⟩ :=
    C05_code_rules_tokens [str "e2e4", str "zzz", str "e7e5"] Gen.startpos [] startpos_inD
      (by decide +kernel) (by decide +kernel)
  exact ⟨pos', hist', out', h, hD⟩

end Rawr

#print axioms Rawr.C05_code_Denotes_iff
#print axioms Rawr.moves_code_single
#print axioms Rawr.C05_code_token_spec
#print axioms Rawr.C05_code_rules_token
#print axioms Rawr.C05_code_rules_no_panic
#print axioms Rawr.C05_code_applyTokens_fold
#print axioms Rawr.C05_code_rules_tokens
#print axioms Rawr.C05_code_position_history
