import Rawr.Proofs.Hashtable
/-! # C18 — the transposition table behaves as a faithful always-replace cache

Generic in the entry type `α` (`[Inhabited α] [DecidableEq α]`, `default` = Rust `T::default()`) and in
`entrySize` (= `size_of::<T>()`).  Since the upstream fix (finding F8) a zero-slot table answers every lookup
with `default` and ignores stores, so `Table.poll`/`Table.add` never return `none` (`step_isSome`,
`zero_slot`); `Table.hashfull = none` is the Rust `None` *return value*, not a panic.

1. `SlotSpec`, `abs`, `Op`, `Out`, `step`, `SlotSpec.step`, refinement `step_refines` / `run_refines`.
2. Corollaries (a)–(f) stated on the model.
3. Non-vacuity examples on `Table Nat` with 4 slots. -/
set_option linter.unusedSectionVars false
namespace Rawr
namespace C18
open Table

variable {α : Type} [Inhabited α] [DecidableEq α]

/-! ## 1. Abstract specification: a slot map -/

/-- `n` slots; `slot i` is meaningful for `i < n`. -/
structure SlotSpec (α : Type) where
  n : Nat
  slot : Nat → α

namespace SlotSpec

def new (mb es : Nat) : SlotSpec α := ⟨numEntries mb es, fun _ => default⟩

/-- Store: overwrite exactly slot `key % n`; a zero-slot table ignores the store. -/
def add (s : SlotSpec α) (key : Nat) (e : α) : Option (SlotSpec α) :=
  some (if s.n = 0 then s else ⟨s.n, fun i => if i = key % s.n then e else s.slot i⟩)

/-- Lookup: content of slot `key % n`; a zero-slot table answers `default`. -/
def poll (s : SlotSpec α) (key : Nat) : Option α :=
  some (if s.n = 0 then default else s.slot (key % s.n))

def clear (s : SlotSpec α) : SlotSpec α := ⟨s.n, fun _ => default⟩

/-- Exactly `mb * 2^20 / es` slots; the common prefix is kept, everything else is `default`. -/
def resize (s : SlotSpec α) (mb es : Nat) : SlotSpec α :=
  ⟨numEntries mb es, fun i => if i < numEntries mb es ∧ i < s.n then s.slot i else default⟩

/-- Number of non-default slots among the first `min n 1000`; `none` (a value) iff there is no slot. -/
def hashfull (s : SlotSpec α) : Option Nat :=
  if min s.n 1000 = 0 then none
  else some ((List.range (min s.n 1000)).filter fun i => s.slot i ≠ default).length

def len (s : SlotSpec α) : Nat := s.n

end SlotSpec

/-- Abstraction function. Slots outside the table read as `default`. -/
def abs (t : Table α) : SlotSpec α := ⟨t.len, t.slot⟩

theorem abs_slot_default (t : Table α) {i : Nat} (h : (abs t).n ≤ i) : (abs t).slot i = default :=
  slot_of_ge t h

/-- `abs` forgets nothing. -/
theorem abs_injective {t u : Table α} (h : abs t = abs u) : t = u := by
  have h1 : t.len = u.len := congrArg SlotSpec.n h
  have h2 : t.slot = u.slot := congrArg SlotSpec.slot h
  exact ext_slot h1 fun i _ => congrFun h2 i

inductive Op (α : Type) where
  | add (key : Nat) (e : α)
  | poll (key : Nat)
  | clear
  | resize (mb : Nat)
  | hashfull
  | len
  deriving DecidableEq, Repr

inductive Out (α : Type) where
  | unit
  | entry (e : α)
  | fill (h : Option Nat)
  | len (n : Nat)
  deriving DecidableEq, Repr

/-- One operation on the model (`none` = panic; never happens any more, `step_isSome`). -/
def step (es : Nat) (t : Table α) : Op α → Option (Table α × Out α)
  | .add k e => (t.add k e).map fun t' => (t', .unit)
  | .poll k => (t.poll k).map fun e => (t, .entry e)
  | .clear => some (t.clear, .unit)
  | .resize mb => some (t.resize mb es, .unit)
  | .hashfull => some (t, .fill t.hashfull)
  | .len => some (t, .len t.len)

/-- One operation on the specification. -/
def SlotSpec.step (es : Nat) (s : SlotSpec α) : Op α → Option (SlotSpec α × Out α)
  | .add k e => (s.add k e).map fun s' => (s', .unit)
  | .poll k => (s.poll k).map fun e => (s, .entry e)
  | .clear => some (s.clear, .unit)
  | .resize mb => some (s.resize mb es, .unit)
  | .hashfull => some (s, .fill s.hashfull)
  | .len => some (s, .len s.len)

/-- Operation sequences, with the list of outputs; `none` if an operation panicked
(never happens any more, `run_isSome`). -/
def run (es : Nat) : Table α → List (Op α) → Option (Table α × List (Out α))
  | t, [] => some (t, [])
  | t, op :: ops =>
    match step es t op with
    | none => none
    | some (t', o) =>
      match run es t' ops with
      | none => none
      | some (t'', os) => some (t'', o :: os)

def SlotSpec.run (es : Nat) : SlotSpec α → List (Op α) → Option (SlotSpec α × List (Out α))
  | s, [] => some (s, [])
  | s, op :: ops =>
    match SlotSpec.step es s op with
    | none => none
    | some (s', o) =>
      match SlotSpec.run es s' ops with
      | none => none
      | some (s'', os) => some (s'', o :: os)

/-! ### Per-operation refinement lemmas -/

theorem abs_new (mb es : Nat) : abs (Table.new mb es : Table α) = SlotSpec.new mb es := by
  simp only [abs, SlotSpec.new, len_new, SlotSpec.mk.injEq, true_and]
  funext i; exact slot_new mb es i

theorem abs_add (t : Table α) (k : Nat) (e : α) :
    (t.add k e).map abs = (abs t).add k e := by
  obtain ⟨t', hadd⟩ := add_ne_none t k e
  rw [hadd]
  unfold SlotSpec.add
  simp only [Option.map_some, Option.some.injEq]
  by_cases h : t.len = 0
  · have : t' = t := by rw [add_zero t k e h] at hadd; exact (Option.some.inj hadd).symm
    subst this
    simp only [abs, h, if_true]
  · have hn : ¬ (abs t).n = 0 := h
    rw [if_neg hn]
    show (⟨t'.len, t'.slot⟩ : SlotSpec α) = ⟨t.len, fun i => if i = k % t.len then e else t.slot i⟩
    rw [len_add hadd]
    congr 1
    funext i
    rw [slot_add hadd]
    by_cases hi : i = k % t.len
    · rw [if_pos ⟨h, hi⟩, if_pos hi]
    · rw [if_neg (fun hh => hi hh.2), if_neg hi]

theorem abs_poll (t : Table α) (k : Nat) : t.poll k = (abs t).poll k := by
  rw [poll_eq]
  unfold SlotSpec.poll
  by_cases h : t.len = 0
  · simp only [abs, h, if_true, Option.some.injEq]
    exact slot_of_ge t (by omega)
  · simp only [abs, h, if_false]

theorem abs_clear (t : Table α) : abs t.clear = (abs t).clear := by
  simp only [abs, SlotSpec.clear, len_clear, SlotSpec.mk.injEq, true_and]
  funext i; exact slot_clear t i

theorem abs_resize (t : Table α) (mb es : Nat) : abs (t.resize mb es) = (abs t).resize mb es := by
  simp only [abs, SlotSpec.resize, len_resize, SlotSpec.mk.injEq, true_and]
  funext i
  rw [slot_resize]
  by_cases h1 : i < numEntries mb es
  · by_cases h2 : i < t.len
    · simp only [h1, h2, and_self, if_true]
    · simp only [h1, h2, and_false, if_true, if_false]
      exact slot_of_ge t (Nat.le_of_not_lt h2)
  · simp only [h1, false_and, if_false]

theorem abs_hashfull (t : Table α) : t.hashfull = (abs t).hashfull := hashfull_eq t

theorem abs_len (t : Table α) : t.len = (abs t).len := rfl

/-- **Refinement.** Every model step is the specification step under `abs`: same definedness
(always `some`: `step_isSome`), same output,
and `abs` of the new table is the new specification state. -/
theorem step_refines (es : Nat) (t : Table α) (op : Op α) :
    (step es t op).map (fun p => (abs p.1, p.2)) = SlotSpec.step es (abs t) op := by
  cases op with
  | add k e =>
    simp only [step, SlotSpec.step, ← abs_add, Option.map_map]
    rfl
  | poll k =>
    simp only [step, SlotSpec.step, ← abs_poll, Option.map_map]
    rfl
  | clear => simp only [step, SlotSpec.step, Option.map_some, abs_clear]
  | resize mb => simp only [step, SlotSpec.step, Option.map_some, abs_resize]
  | hashfull => simp only [step, SlotSpec.step, Option.map_some, abs_hashfull]
  | len => simp only [step, SlotSpec.step, Option.map_some, abs_len]

/-- No operation panics any more (since the upstream fix of F8). -/
theorem step_isSome (es : Nat) (t : Table α) (op : Op α) : (step es t op).isSome = true := by
  cases op with
  | add k e =>
    obtain ⟨t', h⟩ := add_ne_none t k e
    simp only [step, h, Option.map_some, Option.isSome_some]
  | poll k =>
    obtain ⟨e, h⟩ := poll_ne_none t k
    simp only [step, h, Option.map_some, Option.isSome_some]
  | clear => rfl
  | resize mb => rfl
  | hashfull => rfl
  | len => rfl

/-- The same for the specification. -/
theorem SlotSpec.step_isSome (es : Nat) (s : SlotSpec α) (op : Op α) :
    (SlotSpec.step es s op).isSome = true := by
  cases op <;> rfl

/-- The zero-slot table: `poll` answers `default`, `add` is a no-op (model and specification). -/
theorem zero_slot (t : Table α) (k : Nat) (e : α) (h : t.len = 0) :
    t.poll k = some default ∧ t.add k e = some t :=
  ⟨poll_zero t k h, add_zero t k e h⟩

theorem SlotSpec.zero_slot (s : SlotSpec α) (k : Nat) (e : α) (h : s.n = 0) :
    s.poll k = some default ∧ s.add k e = some s := by
  simp only [SlotSpec.poll, SlotSpec.add, h, if_true, and_self]

/-- On the step level: on a zero-slot table `poll` outputs `default` and `add` leaves the table as it is. -/
theorem step_zero_slot (es : Nat) (t : Table α) (k : Nat) (e : α) (h : t.len = 0) :
    step es t (.poll k) = some (t, .entry default) ∧ step es t (.add k e) = some (t, .unit) := by
  simp only [step, poll_zero t k h, add_zero t k e h, Option.map_some, and_self]

/-- Refinement for whole operation sequences (same outputs, `abs` of the final table). -/
theorem run_refines (es : Nat) (t : Table α) (ops : List (Op α)) :
    (run es t ops).map (fun p => (abs p.1, p.2)) = SlotSpec.run es (abs t) ops := by
  induction ops generalizing t with
  | nil => rfl
  | cons op ops ih =>
    have h := step_refines es t op
    unfold run SlotSpec.run
    cases hs : step es t op with
    | none =>
      rw [hs] at h
      simp only [Option.map_none] at h
      simp only [← h, Option.map_none]
    | some p =>
      obtain ⟨t', o⟩ := p
      rw [hs] at h
      simp only [Option.map_some] at h
      simp only [← h]
      have ih' := ih t'
      cases hr : run es t' ops with
      | none =>
        rw [hr] at ih'
        simp only [Option.map_none] at ih'
        simp only [← ih', Option.map_none]
      | some q =>
        obtain ⟨t'', os⟩ := q
        rw [hr] at ih'
        simp only [Option.map_some] at ih'
        simp only [← ih', Option.map_some]

/-- No operation sequence panics. -/
theorem run_isSome (es : Nat) (t : Table α) (ops : List (Op α)) : (run es t ops).isSome = true := by
  induction ops generalizing t with
  | nil => rfl
  | cons op ops ih =>
    unfold run
    cases hs : step es t op with
    | none => have := step_isSome es t op; rw [hs] at this; cases this
    | some p =>
      obtain ⟨t', o⟩ := p
      simp only
      cases hr : run es t' ops with
      | none => have := ih t'; rw [hr] at this; cases this
      | some q => rfl

/-! ## 2. Corollaries on the model -/

/-! ### (a) an entry just stored is returned by the next lookup of the same key -/

/-- (a) -/
theorem poll_add (t : Table α) (k : Nat) (e : α) (h : 0 < t.len) :
    ∃ t', t.add k e = some t' ∧ t'.poll k = some e := by
  have hn : t.len ≠ 0 := Nat.ne_of_gt h
  obtain ⟨t', hadd⟩ := add_ne_none t k e
  refine ⟨t', hadd, ?_⟩
  rw [poll_eq, len_add hadd, slot_add hadd]
  simp only [ne_eq, hn, not_false_eq_true, and_self, if_true]

/-- (a) in bind form: `poll (add t k e) k = some e`. -/
theorem poll_add_bind (t : Table α) (k : Nat) (e : α) (h : 0 < t.len) :
    (t.add k e).bind (fun t' => t'.poll k) = some e := by
  obtain ⟨t', h1, h2⟩ := poll_add t k e h
  rw [h1]; exact h2

/-- (a'), aliasing keys: every key of the same slot sees the stored entry, every other key is unaffected. -/
theorem poll_add_other (t t' : Table α) (k k' : Nat) (e : α) (h : 0 < t.len)
    (hadd : t.add k e = some t') :
    t'.poll k' = if k' % t.len = k % t.len then some e else t.poll k' := by
  have hn : t.len ≠ 0 := Nat.ne_of_gt h
  rw [poll_eq, poll_eq, len_add hadd, slot_add hadd]
  simp only [ne_eq, hn, not_false_eq_true, true_and]
  split <;> rfl

/-- (a''), the zero-slot table remembers nothing: after a store the lookup still answers `default`. -/
theorem poll_add_zero (t : Table α) (k k' : Nat) (e : α) (h : t.len = 0) :
    (t.add k e).bind (fun t' => t'.poll k') = some default := by
  rw [add_zero t k e h]; exact poll_zero t k' h

/-! ### (b) `add` changes exactly slot `key % len` -/

/-- (b), on `entries`. -/
theorem add_frame (t t' : Table α) (k : Nat) (e : α) (h : 0 < t.len) (hadd : t.add k e = some t') :
    t'.len = t.len ∧ t'.entries[k % t.len]? = some e ∧
      ∀ i, i ≠ k % t.len → t'.entries[i]? = t.entries[i]? := by
  have hn : t.len ≠ 0 := Nat.ne_of_gt h
  refine ⟨len_add hadd, ?_, ?_⟩
  · rw [add_eq] at hadd
    simp only [hn, if_false, Option.some.injEq] at hadd
    subst hadd
    have hk : k % t.len < t.entries.size := Nat.mod_lt _ h
    simp only [Array.getElem?_setIfInBounds, if_true, hk]
  · intro i hi
    rw [add_eq] at hadd
    simp only [hn, if_false, Option.some.injEq] at hadd
    subst hadd
    have : ¬ k % t.len = i := fun h => hi h.symm
    simp only [Array.getElem?_setIfInBounds, this, if_false]

/-- (b), on slot contents. -/
theorem add_slot (t t' : Table α) (k : Nat) (e : α) (h : 0 < t.len) (hadd : t.add k e = some t') :
    t'.len = t.len ∧ t'.slot (k % t.len) = e ∧ ∀ i, i ≠ k % t.len → t'.slot i = t.slot i := by
  have hn : t.len ≠ 0 := Nat.ne_of_gt h
  refine ⟨len_add hadd, ?_, ?_⟩
  · rw [slot_add hadd]; simp only [ne_eq, hn, not_false_eq_true, and_self, if_true]
  · intro i hi; rw [slot_add hadd]; simp only [hi, and_false, if_false]

/-! ### (d) `clear` -/

/-- (d) -/
theorem clear_spec (t : Table α) :
    t.clear.len = t.len ∧ (∀ i, t.clear.slot i = default) ∧
      ∀ i (h : i < t.clear.entries.size), t.clear.entries[i] = default := by
  refine ⟨len_clear t, slot_clear t, ?_⟩
  intro i h
  simp only [Table.clear, Array.getElem_replicate]

/-! ### (e) `resize` -/

/-- (e), slot form: exactly `mb * 1024 * 1024 / entrySize` slots, prefix kept, rest `default`. -/
theorem resize_spec (t : Table α) (mb es : Nat) :
    (t.resize mb es).len = mb * 1024 * 1024 / es ∧
      ∀ i, (t.resize mb es).slot i = if i < mb * 1024 * 1024 / es then t.slot i else default :=
  ⟨len_resize t mb es, slot_resize t mb es⟩

/-- (e), on `entries`: every slot of the resized table is `default` or the same-index slot of `t`. -/
theorem resize_entries (t : Table α) (mb es : Nat) :
    (t.resize mb es).entries.size = mb * 1024 * 1024 / es ∧
      ∀ i (h : i < (t.resize mb es).entries.size),
        (t.resize mb es).entries[i] = default ∨
          ∃ h' : i < t.entries.size, (t.resize mb es).entries[i] = t.entries[i] := by
  refine ⟨len_resize t mb es, ?_⟩
  intro i h
  have h1 : i < (t.resize mb es).len := h
  have h2 := slot_resize t mb es i
  rw [slot_of_lt _ h1] at h2
  rw [len_resize] at h1
  simp only [h1, if_true] at h2
  by_cases h3 : i < t.len
  · right
    exact ⟨h3, h2.trans (slot_of_lt _ h3)⟩
  · left
    exact h2.trans (slot_of_ge _ (Nat.le_of_not_lt h3))

/-- `new` : exactly that many slots, all `default`. -/
theorem new_spec (mb es : Nat) :
    (Table.new mb es : Table α).len = mb * 1024 * 1024 / es ∧
      ∀ i, (Table.new mb es : Table α).slot i = default :=
  ⟨len_new mb es, slot_new mb es⟩

/-! ### (f) the fill indicator -/

/-- (f) `None` exactly for the zero-slot table. -/
theorem hashfull_eq_none_iff (t : Table α) : t.hashfull = none ↔ t.len = 0 := by
  rw [hashfull_eq]
  by_cases h : min t.len 1000 = 0
  · simp only [h, if_true, true_iff]; omega
  · simp only [h, if_false, reduceCtorEq, false_iff]; omega

/-- (f) range. -/
theorem hashfull_le (t : Table α) (h : Nat) (hh : t.hashfull = some h) : h ≤ 1000 ∧ h ≤ t.len := by
  rw [hashfull_eq] at hh
  split at hh
  · cases hh
  · simp only [Option.some.injEq] at hh
    have := List.length_filter_le (fun i => decide (t.slot i ≠ default)) (List.range (min t.len 1000))
    rw [List.length_range] at this
    omega

/-- (f) the Rust return type is `Option<i32>`: the value also fits (trivially, ≤ 1000). -/
theorem hashfull_lt_i32 (t : Table α) (h : Nat) (hh : t.hashfull = some h) : h < 2 ^ 31 := by
  have := (hashfull_le t h hh).1; omega

/-! ### (c) operation sequences -/

/-- One step: the new table's slots are `default`, old slots, or the argument of this very `add`;
a polled value is an old slot. -/
theorem step_origin (es : Nat) (t t' : Table α) (op : Op α) (o : Out α)
    (h : step es t op = some (t', o)) :
    (∀ i, t'.slot i = default ∨ t'.slot i = t.slot i ∨ ∃ k, op = .add k (t'.slot i)) ∧
    (∀ e, o = .entry e → ∃ k, op = .poll k ∧ e = t.slot (k % t.len)) := by
  cases op with
  | add k e =>
    simp only [step, Option.map_eq_some_iff, Prod.mk.injEq] at h
    obtain ⟨t1, hadd, rfl, rfl⟩ := h
    refine ⟨fun i => ?_, fun e he => by cases he⟩
    rw [slot_add hadd]
    by_cases hi : t.len ≠ 0 ∧ i = k % t.len
    · rw [if_pos hi]; exact .inr (.inr ⟨k, rfl⟩)
    · rw [if_neg hi]; exact .inr (.inl rfl)
  | poll k =>
    simp only [step, Option.map_eq_some_iff, Prod.mk.injEq] at h
    obtain ⟨e, hp, rfl, rfl⟩ := h
    refine ⟨fun i => .inr (.inl rfl), fun e' he => ?_⟩
    cases he
    refine ⟨k, rfl, ?_⟩
    rw [poll_eq] at hp
    exact (Option.some.inj hp).symm
  | clear =>
    simp only [step, Option.some.injEq, Prod.mk.injEq] at h
    obtain ⟨rfl, rfl⟩ := h
    exact ⟨fun i => .inl (slot_clear t i), fun e he => by cases he⟩
  | resize mb =>
    simp only [step, Option.some.injEq, Prod.mk.injEq] at h
    obtain ⟨rfl, rfl⟩ := h
    refine ⟨fun i => ?_, fun e he => by cases he⟩
    rw [slot_resize]
    split
    · exact .inr (.inl rfl)
    · exact .inl rfl
  | hashfull =>
    simp only [step, Option.some.injEq, Prod.mk.injEq] at h
    obtain ⟨rfl, rfl⟩ := h
    exact ⟨fun i => .inr (.inl rfl), fun e he => by cases he⟩
  | len =>
    simp only [step, Option.some.injEq, Prod.mk.injEq] at h
    obtain ⟨rfl, rfl⟩ := h
    exact ⟨fun i => .inr (.inl rfl), fun e he => by cases he⟩

theorem run_cons_some {es : Nat} {t t'' : Table α} {op : Op α} {ops : List (Op α)} {outs : List (Out α)}
    (h : run es t (op :: ops) = some (t'', outs)) :
    ∃ t' o os, step es t op = some (t', o) ∧ run es t' ops = some (t'', os) ∧ outs = o :: os := by
  unfold run at h
  cases hs : step es t op with
  | none => rw [hs] at h; cases h
  | some p =>
    obtain ⟨t', o⟩ := p
    rw [hs] at h
    simp only at h
    cases hr : run es t' ops with
    | none => rw [hr] at h; cases h
    | some q =>
      obtain ⟨t2, os⟩ := q
      rw [hr] at h
      simp only [Option.some.injEq, Prod.mk.injEq] at h
      exact ⟨t', o, os, rfl, by rw [hr, h.1], h.2.symm⟩

/-- (c), history invariant from an arbitrary start table: nothing is invented or torn. Every slot of the
final table, and every value returned by a lookup during the run, is `default`, a slot content of the
start table, or (as a whole value) the argument of an `add` of the sequence. -/
theorem run_origin (es : Nat) (t0 t : Table α) (ops : List (Op α)) (outs : List (Out α))
    (h : run es t0 ops = some (t, outs)) :
    (∀ i, t.slot i = default ∨ (∃ j, t.slot i = t0.slot j) ∨ ∃ k, Op.add k (t.slot i) ∈ ops) ∧
    (∀ e, Out.entry e ∈ outs → e = default ∨ (∃ j, e = t0.slot j) ∨ ∃ k, Op.add k e ∈ ops) := by
  induction ops generalizing t0 outs with
  | nil =>
    simp only [run, Option.some.injEq, Prod.mk.injEq] at h
    obtain ⟨rfl, rfl⟩ := h
    exact ⟨fun i => .inr (.inl ⟨i, rfl⟩), fun e he => by cases he⟩
  | cons op ops ih =>
    obtain ⟨t1, o, os, hs, hr, rfl⟩ := run_cons_some h
    obtain ⟨ih1, ih2⟩ := ih t1 os hr
    obtain ⟨so1, so2⟩ := step_origin es t0 t1 op o hs
    -- a value that sits in `t1` has a legitimate origin w.r.t. `t0` and `op`
    have lift : ∀ (e : α), (∃ j, e = t1.slot j) →
        e = default ∨ (∃ j, e = t0.slot j) ∨ ∃ k, Op.add k e ∈ op :: ops := by
      rintro e ⟨j, rfl⟩
      rcases so1 j with h1 | h1 | ⟨k, h1⟩
      · exact .inl h1
      · exact .inr (.inl ⟨j, h1⟩)
      · exact .inr (.inr ⟨k, by rw [h1]; exact List.mem_cons_self⟩)
    refine ⟨fun i => ?_, fun e he => ?_⟩
    · rcases ih1 i with h1 | h1 | ⟨k, h1⟩
      · exact .inl h1
      · exact lift _ h1
      · exact .inr (.inr ⟨k, List.mem_cons_of_mem _ h1⟩)
    · rcases List.mem_cons.1 he with h1 | h1
      · obtain ⟨k, -, h3⟩ := so2 e h1.symm
        exact .inr (.inl ⟨_, h3⟩)
      · rcases ih2 e h1 with h2 | h2 | ⟨k, h2⟩
        · exact .inl h2
        · exact lift _ h2
        · exact .inr (.inr ⟨k, List.mem_cons_of_mem _ h2⟩)

/-- (c), history invariant for a table created by `new`: after ANY operation sequence every slot holds
`default` or an entry previously passed to `add`, and every lookup made during the sequence returned
`default` or an entry passed to `add` in the sequence. -/
theorem history_invariant (es mb : Nat) (t : Table α) (ops : List (Op α)) (outs : List (Out α))
    (h : run es (Table.new mb es) ops = some (t, outs)) :
    (∀ i, t.slot i = default ∨ ∃ k, Op.add k (t.slot i) ∈ ops) ∧
    (∀ e, Out.entry e ∈ outs → e = default ∨ ∃ k, Op.add k e ∈ ops) ∧
    (∀ k e, t.poll k = some e → e = default ∨ ∃ k', Op.add k' e ∈ ops) := by
  obtain ⟨h1, h2⟩ := run_origin es _ t ops outs h
  have a : ∀ i, t.slot i = default ∨ ∃ k, Op.add k (t.slot i) ∈ ops := by
    intro i
    rcases h1 i with h | ⟨j, h⟩ | h
    · exact .inl h
    · exact .inl (by rw [h, slot_new])
    · exact .inr h
  refine ⟨a, ?_, ?_⟩
  · intro e he
    rcases h2 e he with h | ⟨j, h⟩ | h
    · exact .inl h
    · exact .inl (by rw [h, slot_new])
    · exact .inr h
  · intro k e hp
    rw [poll_eq] at hp
    cases hp; exact a _

/-! #### (c), strong form: the most recent store wins -/

/-- Table length after an operation (only `resize` changes it). -/
def Op.lenAfter (es n : Nat) : Op α → Nat
  | .resize mb => numEntries mb es
  | _ => n

/-- Table length after a sequence of operations. -/
def lenAfterAll (es : Nat) : Nat → List (Op α) → Nat
  | n, [] => n
  | n, op :: ops => lenAfterAll es (op.lenAfter es n) ops

/-- `op`, executed on a table of `n` slots, does not disturb slot `i`: it is not an (effective) store into
slot `i` (a store into a zero-slot table is ignored), not a `clear`, and not a `resize` that truncates the
table to `i` slots or fewer. -/
def Op.Keeps (es n i : Nat) : Op α → Prop
  | .add k _ => n = 0 ∨ k % n ≠ i
  | .clear => False
  | .resize mb => i < numEntries mb es
  | _ => True

/-- No operation of the sequence (started on a table of `n` slots) disturbs slot `i`. -/
def KeepsAll (es : Nat) : Nat → Nat → List (Op α) → Prop
  | _, _, [] => True
  | n, i, op :: ops => op.Keeps es n i ∧ KeepsAll es (op.lenAfter es n) i ops

theorem step_len (es : Nat) (t t' : Table α) (op : Op α) (o : Out α)
    (h : step es t op = some (t', o)) : t'.len = op.lenAfter es t.len := by
  cases op with
  | add k e =>
    simp only [step, Option.map_eq_some_iff, Prod.mk.injEq] at h
    obtain ⟨t1, hadd, rfl, rfl⟩ := h
    exact len_add hadd
  | poll k =>
    simp only [step, Option.map_eq_some_iff, Prod.mk.injEq] at h
    obtain ⟨e, hp, rfl, rfl⟩ := h
    rfl
  | clear =>
    simp only [step, Option.some.injEq, Prod.mk.injEq] at h
    obtain ⟨rfl, rfl⟩ := h
    exact len_clear t
  | resize mb =>
    simp only [step, Option.some.injEq, Prod.mk.injEq] at h
    obtain ⟨rfl, rfl⟩ := h
    exact len_resize t mb es
  | hashfull =>
    simp only [step, Option.some.injEq, Prod.mk.injEq] at h
    obtain ⟨rfl, rfl⟩ := h
    rfl
  | len =>
    simp only [step, Option.some.injEq, Prod.mk.injEq] at h
    obtain ⟨rfl, rfl⟩ := h
    rfl

theorem run_len (es : Nat) (t t' : Table α) (ops : List (Op α)) (outs : List (Out α))
    (h : run es t ops = some (t', outs)) : t'.len = lenAfterAll es t.len ops := by
  induction ops generalizing t outs with
  | nil =>
    simp only [run, Option.some.injEq, Prod.mk.injEq] at h
    rw [← h.1]; rfl
  | cons op ops ih =>
    obtain ⟨t1, o, os, hs, hr, rfl⟩ := run_cons_some h
    rw [ih t1 os hr, step_len es t t1 op o hs]; rfl

/-- An operation that keeps slot `i` leaves its content unchanged (and keeps it inside the table). -/
theorem step_keeps (es : Nat) (t t' : Table α) (op : Op α) (o : Out α) (i : Nat)
    (h : step es t op = some (t', o)) (hk : op.Keeps es t.len i) :
    t'.slot i = t.slot i ∧ (i < t.len → i < t'.len) := by
  cases op with
  | add k e =>
    simp only [step, Option.map_eq_some_iff, Prod.mk.injEq] at h
    obtain ⟨t1, hadd, rfl, rfl⟩ := h
    have : ¬ (t.len ≠ 0 ∧ i = k % t.len) := fun h => hk.elim h.1 (fun h' => h' h.2.symm)
    refine ⟨?_, fun h => by rw [len_add hadd]; exact h⟩
    rw [slot_add hadd, if_neg this]
  | poll k =>
    simp only [step, Option.map_eq_some_iff, Prod.mk.injEq] at h
    obtain ⟨e, hp, rfl, rfl⟩ := h
    exact ⟨rfl, id⟩
  | clear => exact hk.elim
  | resize mb =>
    simp only [step, Option.some.injEq, Prod.mk.injEq] at h
    obtain ⟨rfl, rfl⟩ := h
    have hk' : i < numEntries mb es := hk
    refine ⟨?_, fun _ => by rw [len_resize]; exact hk'⟩
    rw [slot_resize]; simp only [hk', if_true]
  | hashfull =>
    simp only [step, Option.some.injEq, Prod.mk.injEq] at h
    obtain ⟨rfl, rfl⟩ := h
    exact ⟨rfl, id⟩
  | len =>
    simp only [step, Option.some.injEq, Prod.mk.injEq] at h
    obtain ⟨rfl, rfl⟩ := h
    exact ⟨rfl, id⟩

/-- A sequence that keeps slot `i` leaves its content unchanged. -/
theorem run_keeps (es : Nat) (t t' : Table α) (ops : List (Op α)) (outs : List (Out α)) (i : Nat)
    (h : run es t ops = some (t', outs)) (hk : KeepsAll es t.len i ops) :
    t'.slot i = t.slot i ∧ (i < t.len → i < t'.len) := by
  induction ops generalizing t outs with
  | nil =>
    simp only [run, Option.some.injEq, Prod.mk.injEq] at h
    rw [← h.1]; exact ⟨rfl, id⟩
  | cons op ops ih =>
    obtain ⟨t1, o, os, hs, hr, rfl⟩ := run_cons_some h
    obtain ⟨hk1, hk2⟩ := hk
    obtain ⟨s1, l1⟩ := step_keeps es t t1 op o i hs hk1
    rw [← step_len es t t1 op o hs] at hk2
    obtain ⟨s2, l2⟩ := ih t1 os hr hk2
    exact ⟨s2.trans s1, fun h => l2 (l1 h)⟩

/-- (c), strong form, positive half: **the most recent store into a slot wins.** If `e` is stored under
`k` and none of the following operations stores into that slot, clears, or truncates the table across
that slot, then the slot holds `e` and every later lookup of any key of that slot returns `e`. -/
theorem most_recent_add (es : Nat) (t t1 t2 : Table α) (k : Nat) (e : α) (post : List (Op α))
    (outs : List (Out α)) (hpos : 0 < t.len) (hadd : t.add k e = some t1)
    (hr : run es t1 post = some (t2, outs)) (hk : KeepsAll es t1.len (k % t.len) post) :
    t2.slot (k % t.len) = e ∧ ∀ k', k' % t2.len = k % t.len → t2.poll k' = some e := by
  have hn : t.len ≠ 0 := Nat.ne_of_gt hpos
  obtain ⟨s, l⟩ := run_keeps es t1 t2 post outs (k % t.len) hr hk
  have h1 : t1.slot (k % t.len) = e := by
    rw [slot_add hadd]; simp only [ne_eq, hn, not_false_eq_true, and_self, if_true]
  have h2 : k % t.len < t2.len := l (by rw [len_add hadd]; exact Nat.mod_lt _ (Nat.pos_of_ne_zero hn))
  refine ⟨s.trans h1, fun k' hk' => ?_⟩
  rw [poll_eq, hk', s, h1]

/-- (c), strong form, negative half: after a `clear`, or a `resize` that truncates the table to `i` slots
or fewer, slot `i` reads `default` until something is stored into it. -/
theorem dropped_default (es : Nat) (t t1 t2 : Table α) (op : Op α) (o : Out α) (i : Nat)
    (post : List (Op α)) (outs : List (Out α)) (hs : step es t op = some (t1, o))
    (hop : op = .clear ∨ ∃ mb, op = .resize mb ∧ numEntries mb es ≤ i)
    (hr : run es t1 post = some (t2, outs)) (hk : KeepsAll es t1.len i post) :
    t2.slot i = default := by
  rw [(run_keeps es t1 t2 post outs i hr hk).1]
  rcases hop with rfl | ⟨mb, rfl, hmb⟩
  · simp only [step, Option.some.injEq, Prod.mk.injEq] at hs
    rw [← hs.1]; exact slot_clear t i
  · simp only [step, Option.some.injEq, Prod.mk.injEq] at hs
    rw [← hs.1, slot_resize]
    have : ¬ i < numEntries mb es := by omega
    simp only [this, if_false]

/-- (c), strong form, untouched slots of a fresh table read `default`. -/
theorem fresh_default (es mb : Nat) (t : Table α) (ops : List (Op α)) (outs : List (Out α)) (i : Nat)
    (hr : run es (Table.new mb es) ops = some (t, outs))
    (hk : KeepsAll es (numEntries mb es) i ops) : t.slot i = default := by
  rw [← len_new (α := α) mb es] at hk
  rw [(run_keeps es _ t ops outs i hr hk).1, slot_new]

theorem run_append_some {es : Nat} {t t2 : Table α} {pre post : List (Op α)} {outs : List (Out α)}
    (h : run es t (pre ++ post) = some (t2, outs)) :
    ∃ t1 o1 o2, run es t pre = some (t1, o1) ∧ run es t1 post = some (t2, o2) ∧ outs = o1 ++ o2 := by
  induction pre generalizing t outs with
  | nil => exact ⟨t, [], outs, rfl, h, rfl⟩
  | cons op pre ih =>
    obtain ⟨t', o, os, hs, hr, rfl⟩ := run_cons_some h
    obtain ⟨t1, o1, o2, h1, h2, rfl⟩ := ih hr
    refine ⟨t1, o :: o1, o2, ?_, h2, rfl⟩
    unfold run
    rw [hs]; simp only [h1]

/-- Every history splits, for every slot `i`: either nothing ever disturbed slot `i`, or there is a LAST
operation that disturbed it (followed only by operations that keep it). -/
theorem history_split (es n i : Nat) (ops : List (Op α)) :
    KeepsAll es n i ops ∨
    ∃ pre op post, ops = pre ++ op :: post ∧ ¬ op.Keeps es (lenAfterAll es n pre) i ∧
      KeepsAll es (op.lenAfter es (lenAfterAll es n pre)) i post := by
  induction ops generalizing n with
  | nil => exact .inl trivial
  | cons op ops ih =>
    rcases ih (op.lenAfter es n) with h | ⟨pre, op', post, rfl, h1, h2⟩
    · by_cases hk : op.Keeps es n i
      · exact .inl ⟨hk, h⟩
      · exact .inr ⟨[], op, ops, rfl, hk, h⟩
    · exact .inr ⟨op :: pre, op', post, rfl, h1, h2⟩

/-- What a disturbing operation is. -/
theorem not_keeps_iff (es n i : Nat) (op : Op α) :
    ¬ op.Keeps es n i ↔
      (∃ k e, op = .add k e ∧ 0 < n ∧ k % n = i) ∨ op = .clear ∨
        ∃ mb, op = .resize mb ∧ numEntries mb es ≤ i := by
  cases op with
  | add k e =>
    simp only [Op.Keeps, ne_eq, not_or, Decidable.not_not, Op.add.injEq, reduceCtorEq, false_and,
      exists_false, or_false]
    exact ⟨fun h => ⟨k, e, ⟨rfl, rfl⟩, Nat.pos_of_ne_zero h.1, h.2⟩,
      fun ⟨_, _, ⟨h1, _⟩, h2, h3⟩ => h1 ▸ ⟨Nat.ne_of_gt h2, h3⟩⟩
  | poll k => simp [Op.Keeps]
  | clear => simp [Op.Keeps]
  | resize mb =>
    simp only [Op.Keeps, Nat.not_lt, reduceCtorEq, false_and, exists_false, Op.resize.injEq, false_or]
    exact ⟨fun h => ⟨mb, rfl, h⟩, fun ⟨_, h1, h2⟩ => h1 ▸ h2⟩
  | hashfull => simp [Op.Keeps]
  | len => simp [Op.Keeps]

/-- (c), strong form, complete characterisation: after ANY operation sequence on a table
created by `new`, every slot `i` holds **the entry most recently added to that slot since the last
`clear` / the last `resize` that truncated the table across it, else `default`**.  Precisely one of:
* no operation ever disturbed slot `i`, and it holds `default`;
* the last operation that disturbed slot `i` was `add k e` on a non-empty table with
  `k % (len at that time) = i`, and it holds `e`;
* the last operation that disturbed slot `i` was a `clear` or a `resize` to `≤ i` slots,
  and it holds `default`.
("slot `i` holds `x`" means `t.slot i = x`; by `poll_eq`, `t.poll key = some (t.slot (key % t.len))`,
which gives the lookup statement `lookup_most_recent` below.) -/
theorem slot_most_recent (es mb : Nat) (t : Table α) (ops : List (Op α)) (outs : List (Out α))
    (hr : run es (Table.new mb es) ops = some (t, outs)) (i : Nat) :
    (KeepsAll es (numEntries mb es) i ops ∧ t.slot i = default) ∨
    ∃ pre op post, ops = pre ++ op :: post ∧
      KeepsAll es (op.lenAfter es (lenAfterAll es (numEntries mb es) pre)) i post ∧
      ((∃ k e, op = .add k e ∧ 0 < lenAfterAll es (numEntries mb es) pre ∧
          k % lenAfterAll es (numEntries mb es) pre = i ∧ t.slot i = e) ∨
       ((op = .clear ∨ ∃ mb', op = .resize mb' ∧ numEntries mb' es ≤ i) ∧ t.slot i = default)) := by
  rcases history_split es (numEntries mb es) i ops with h | ⟨pre, op, post, rfl, h1, h2⟩
  · exact .inl ⟨h, fresh_default es mb t ops outs i hr h⟩
  · right
    refine ⟨pre, op, post, rfl, h2, ?_⟩
    obtain ⟨t1, o1, o2, r1, r2, rfl⟩ := run_append_some hr
    obtain ⟨t2, o, os, hs, r3, rfl⟩ := run_cons_some r2
    have hl1 : t1.len = lenAfterAll es (numEntries mb es) pre := by
      rw [run_len es _ t1 pre o1 r1, len_new]
    have hl2 : t2.len = op.lenAfter es (lenAfterAll es (numEntries mb es) pre) := by
      rw [step_len es t1 t2 op o hs, hl1]
    rw [← hl2] at h2
    rcases (not_keeps_iff es _ i op).1 h1 with ⟨k, e, rfl, hpos, hk⟩ | hc
    · left
      refine ⟨k, e, rfl, hpos, hk, ?_⟩
      simp only [step, Option.map_eq_some_iff, Prod.mk.injEq] at hs
      obtain ⟨t2', hadd, rfl, rfl⟩ := hs
      rw [← hl1] at hk hpos
      rw [← hk] at h2 ⊢
      exact (most_recent_add es t1 t2' t k e post os hpos hadd r3 h2).1
    · right
      exact ⟨hc, dropped_default es t1 t2 t op o i post os hs hc r3 h2⟩

/-- (c), strong form, as a statement about lookups: after ANY operation sequence on a
table created by `new`, a lookup of `key` (on a zero-slot table: `i = key`, answer `default`) returns the entry most recently added to
the slot `key % len` since the last `clear` / truncating `resize` across it, else `default`. -/
theorem lookup_most_recent (es mb : Nat) (t : Table α) (ops : List (Op α)) (outs : List (Out α))
    (hr : run es (Table.new mb es) ops = some (t, outs)) (key : Nat) :
    let i := key % t.len
    (KeepsAll es (numEntries mb es) i ops ∧ t.poll key = some default) ∨
    ∃ pre op post, ops = pre ++ op :: post ∧
      KeepsAll es (op.lenAfter es (lenAfterAll es (numEntries mb es) pre)) i post ∧
      ((∃ k e, op = .add k e ∧ 0 < lenAfterAll es (numEntries mb es) pre ∧
          k % lenAfterAll es (numEntries mb es) pre = i ∧ t.poll key = some e) ∨
       ((op = .clear ∨ ∃ mb', op = .resize mb' ∧ numEntries mb' es ≤ i) ∧
          t.poll key = some default)) := by
  intro i
  have hp : t.poll key = some (t.slot i) := poll_eq t key
  rw [hp]
  rcases slot_most_recent es mb t ops outs hr i with ⟨h1, h2⟩ | ⟨pre, op, post, h0, h1, h2⟩
  · exact .inl ⟨h1, by rw [h2]⟩
  · refine .inr ⟨pre, op, post, h0, h1, ?_⟩
    rcases h2 with ⟨k, e, h3, h4, h4', h5⟩ | ⟨h3, h4⟩
    · exact .inl ⟨k, e, h3, h4, h4', by rw [h5]⟩
    · exact .inr ⟨h3, by rw [h4]⟩

/-! ## 3. Non-vacuity: `Table Nat`, `entrySize = 262144`, 1 MB = 4 slots -/

section Examples

deriving instance DecidableEq for Rawr.Table

abbrev ES : Nat := 262144
abbrev T0 : Table Nat := Table.new 1 ES

example : numEntries 1 ES = 4 := by decide
example : T0.len = 4 := by rw [len_new]; decide
example : T0.entries = #[0, 0, 0, 0] := by decide
/-- the test of hashtable.rs in miniature: store, look up, overwrite, look up -/
example : (T0.add 6 11).bind (·.poll 6) = some 11 := by decide
example : ((T0.add 6 11).bind (·.add 6 12)).bind (·.poll 6) = some 12 := by decide
/-- aliasing keys 2 and 6 share slot 2: always-replace -/
example : ((T0.add 6 11).bind (·.add 2 12)).bind (·.poll 6) = some 12 := by decide
example : ((T0.add 6 11).bind (·.add 3 12)).bind (·.poll 6) = some 11 := by decide
example : (T0.add 6 11).map (·.entries) = some #[0, 0, 11, 0] := by decide
/-- F8 (fixed): the zero-slot table answers `default`, ignores stores, `hashfull` returns `None` -/
example : (Table.new 0 ES : Table Nat).len = 0 := by decide
example : (Table.new 0 ES : Table Nat).poll 5 = some 0 := by decide
example : (Table.new 0 ES : Table Nat).add 5 1 = some ⟨#[]⟩ := by decide
example : (Table.new 0 ES : Table Nat).hashfull = none := by decide
example : run ES (Table.new 0 ES : Table Nat) [.add 5 1, .poll 5, .hashfull, .resize 1, .add 5 1, .poll 5] =
    some (⟨#[0, 1, 0, 0]⟩, [.unit, .entry 0, .fill none, .unit, .unit, .entry 1]) := by decide
/-- a store into a zero-slot table keeps every slot, a store into a non-empty one does not -/
example : KeepsAll ES 0 5 [(.add 5 1 : Op Nat)] := by simp only [KeepsAll, Op.Keeps]; decide
example : ¬ KeepsAll ES 4 1 [(.add 5 1 : Op Nat)] := by simp only [KeepsAll, Op.Keeps]; decide
/-- `entrySize` larger than the request gives a zero-slot table as well -/
example : numEntries 1 (2 * 1024 * 1024) = 0 := by decide

/-- a run exercising every operation; hypotheses of `history_invariant`, `run_origin`,
`slot_most_recent`, `lookup_most_recent`, `run_refines` are satisfiable -/
def demoOps : List (Op Nat) :=
  [.add 6 11, .poll 2, .add 1 7, .hashfull, .resize 2, .len, .poll 14, .add 7 9, .resize 1, .poll 7,
   .poll 6, .clear, .poll 6, .add 5 3, .hashfull]

theorem demo_run : run ES T0 demoOps =
    some (⟨#[0, 3, 0, 0]⟩,
      [.unit, .entry 11, .unit, .fill (some 2), .unit, .len 8, .entry 0, .unit, .unit, .entry 0,
       .entry 11, .unit, .entry 0, .unit, .fill (some 1)]) := by decide

/-- `most_recent_add` / `KeepsAll` hypotheses are satisfiable: after `add 6 11` on 4 slots, the
operations `poll, add 1 7, hashfull, resize 2 (8 slots), len, poll, add 7 9, resize 1 (4 slots)` keep
slot 2. -/
theorem demo_keeps : KeepsAll ES 4 2 (demoOps.drop 1 |>.take 8) := by
  simp only [demoOps, List.drop, List.take, KeepsAll, Op.Keeps, Op.lenAfter, numEntries]
  decide

/-- and `clear` does not keep it -/
example : ¬ KeepsAll ES 4 2 (demoOps.drop 1 |>.take 11) := by
  simp only [demoOps, List.drop, List.take, KeepsAll, Op.Keeps, Op.lenAfter, numEntries]
  decide

/-- truncation: storing in slot 6 of 8, resizing to 4 and back to 8 loses the entry -/
example : (run ES T0 [.resize 2, .add 6 5, .poll 6, .resize 1, .resize 2, .poll 6]).map (·.2) =
    some [.unit, .unit, .entry 5, .unit, .unit, .entry 0] := by decide

/-- `resize_entries`: both disjuncts occur (slot 2 kept, slot 5 padded) -/
example : ((T0.add 6 11).map fun t => (t.resize 2 ES).entries) = some #[0, 0, 11, 0, 0, 0, 0, 0] := by
  decide

/-- `hashfull_le` hypothesis satisfiable, and both bounds are attained on suitable tables -/
example : ((T0.add 6 11).bind (·.hashfull)) = some 1 := by decide
example : (⟨#[1, 2, 3]⟩ : Table Nat).hashfull = some 3 := by decide
example : (⟨Array.replicate 1001 7⟩ : Table Nat).hashfull = some 1000 := by
  have hl : (⟨Array.replicate 1001 7⟩ : Table Nat).len = 1001 := Array.size_replicate
  rw [hashfull_eq, hl]
  have : ∀ i ∈ List.range (min 1001 1000),
      decide ((⟨Array.replicate 1001 7⟩ : Table Nat).slot i ≠ default) = true := by
    intro i hi
    have hi' : i < 1001 := by have := List.mem_range.1 hi; omega
    have hs : (⟨Array.replicate 1001 7⟩ : Table Nat).slot i = 7 := by
      show (Array.replicate 1001 7)[i]?.getD default = 7
      rw [Array.getElem?_replicate, if_pos hi']; rfl
    rw [hs]; decide
  rw [List.filter_eq_self.2 this, List.length_range]
  decide

/-- `clear_spec` on a non-empty, non-default table -/
example : (⟨#[1, 2, 3]⟩ : Table Nat).clear.entries = #[0, 0, 0] := by decide

/-- `history_invariant` / `slot_most_recent` / `lookup_most_recent` applied to the demo run -/
example : ∀ k e, (⟨#[0, 3, 0, 0]⟩ : Table Nat).poll k = some e → e = default ∨ ∃ k', Op.add k' e ∈ demoOps :=
  (history_invariant ES 1 _ demoOps _ demo_run).2.2
example := slot_most_recent ES 1 _ demoOps _ demo_run 1
example := lookup_most_recent ES 1 _ demoOps _ demo_run 5

/-- `most_recent_add` applied: `add 6 11` on `T0`, then the 8 operations of `demo_keeps` -/
theorem demo_run_post : run ES (⟨#[0, 0, 11, 0]⟩ : Table Nat) (demoOps.drop 1 |>.take 8) =
    some (⟨#[0, 7, 11, 0]⟩, [.entry 11, .unit, .fill (some 2), .unit, .len 8, .entry 0, .unit, .unit]) := by
  decide
example : (⟨#[0, 7, 11, 0]⟩ : Table Nat).slot 2 = 11 ∧
    ∀ k', k' % 4 = 2 → (⟨#[0, 7, 11, 0]⟩ : Table Nat).poll k' = some 11 :=
  most_recent_add ES T0 ⟨#[0, 0, 11, 0]⟩ ⟨#[0, 7, 11, 0]⟩ 6 11 _ _ (by decide) (by decide) demo_run_post demo_keeps

/-- `dropped_default` applied: `clear`, then stores elsewhere -/
example : (⟨#[0, 3, 0, 0]⟩ : Table Nat).slot 2 = default :=
  dropped_default ES ⟨#[0, 7, 11, 0]⟩ ⟨#[0, 0, 0, 0]⟩ ⟨#[0, 3, 0, 0]⟩ .clear .unit 2
    [.poll 6, .add 5 3, .hashfull] [.entry 0, .unit, .fill (some 1)] (by decide) (.inl rfl) (by decide)
    (by show KeepsAll ES 4 2 _
        simp only [KeepsAll, Op.Keeps, Op.lenAfter]; decide)

/-- the specification side computes the same outputs (instance of `run_refines`) -/
example : (SlotSpec.run ES (abs T0) demoOps).map (·.2) = (run ES T0 demoOps).map (·.2) := by
  rw [← run_refines]; simp only [Option.map_map]; rfl

end Examples

end C18
end Rawr

#print axioms Rawr.C18.step_refines
#print axioms Rawr.C18.step_isSome
#print axioms Rawr.C18.run_isSome
#print axioms Rawr.C18.zero_slot
#print axioms Rawr.C18.step_zero_slot
#print axioms Rawr.C18.run_refines
#print axioms Rawr.C18.abs_injective
#print axioms Rawr.C18.poll_add
#print axioms Rawr.C18.poll_add_other
#print axioms Rawr.C18.add_frame
#print axioms Rawr.C18.add_slot
#print axioms Rawr.C18.clear_spec
#print axioms Rawr.C18.resize_spec
#print axioms Rawr.C18.resize_entries
#print axioms Rawr.C18.new_spec
#print axioms Rawr.C18.hashfull_eq_none_iff
#print axioms Rawr.C18.hashfull_le
#print axioms Rawr.C18.run_origin
#print axioms Rawr.C18.history_invariant
#print axioms Rawr.C18.most_recent_add
#print axioms Rawr.C18.dropped_default
#print axioms Rawr.C18.fresh_default
#print axioms Rawr.C18.slot_most_recent
#print axioms Rawr.C18.lookup_most_recent
