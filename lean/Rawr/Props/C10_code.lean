import Rawr.Props.C10
import Rawr.Proofs.RustFnsAgree
/-!
# C10 on the regenerated code: the fills `R.ray*`, the leapers `R.knights`, `R.pawns`, `R.adjacent` and the table

`Props/C10.lean` proves the attack tables exact against the coordinate walks of `Spec/Walk.lean`.  What the code
contributes to C10 comes from two sources:

* **rays.rs / bitboard.rs** — the eight unrolled fills `ray_n … ray_sw`, `knights`, `pawns::<US>`, `adjacent`, the shifts.
  These are regenerated on every run as `Rawr.R.rayN … R.raySW`, `R.knights`, `R.pawns`, `R.adjacent`, `R.fromSquare`
  (`Generated/RustFns.lean`) and `agree_ray*`, `agree_knights`, `agree_pawns`, `agree_adjacent`, `agree_fromSquare`
  (`Proofs/RustFnsAgree.lean`) prove them equal to the model's functions AS FUNCTIONS (no hypothesis).  Every C10 theorem
  that mentions them is restated below on the `R.*` terms: exact transfers, same hypotheses (`sq < 64` or none).
* **the magic look-up** `MAGIC_MOVES[idx]` with `idx = offset + ((occ & mask) * magic >> shift)` and the leaper tables
  `KNIGHT_MASKS`, `KING_MASKS` — there is NO `R.` term for these: the table is a build artefact (written by build.rs into
  `$OUT_DIR`), translated row by row by `tools/extract.py` into `Generated/MagicTable_*.lean`; the index arithmetic and the
  two 64-entry leaper tables are the model's `bishopIndex`, `rookIndex`, `knightMask`, `kingMask` (`Model/Magic.lean`,
  tied to the code by the correspondence check and by `C10_constants_agree`).  The regenerated move generator, attack
  tests and evaluation call exactly these (`Rawr.bishopMoves`, `Rawr.rookMoves`, `Rawr.queenMoves`, `Rawr.knights` occur
  literally in `Generated/RustImp.lean`).  So the slider theorems `C10_bishop`, `C10_rook`, `C10_queen`, their `_get` and
  `_mem` forms, `C10_constants_agree`, `C10_knightMask`, `C10_kingMask` are already statements about the only term there is
  and are not repeated here.  What CAN be restated for the look-up is its relation to the regenerated code:
  `C10_code_fills_eq_table` (the look-up equals the union of the four regenerated fills — the two independent
  implementations of slider attacks in the source agree on all 64 × 2^64 inputs), `C10_code_queen`, and
  `C10_code_masks_eq_leapers` (the two leaper tables equal the regenerated `knights` / `adjacent` of the one-square set).

`C10_steps_are_spec`, `C10_walk_fuel` speak about the specification only and need no restatement.
-/
namespace Rawr
open Spec

/-! ## the eight regenerated fills of rays.rs are the walks -/

/-- **`C10_rays` on the code** (exact transfer): each regenerated fill is the coordinate walk in its direction, up to and
including the first blocker. -/
theorem C10_code_rays (s : Nat) (hs : s < 64) (blockers : BB) :
    R.rayN s blockers = setBB (walk 0 1 s blockers.getLsbD) ∧
    R.rayS s blockers = setBB (walk 0 (-1) s blockers.getLsbD) ∧
    R.rayE s blockers = setBB (walk 1 0 s blockers.getLsbD) ∧
    R.rayW s blockers = setBB (walk (-1) 0 s blockers.getLsbD) ∧
    R.rayNE s blockers = setBB (walk 1 1 s blockers.getLsbD) ∧
    R.rayNW s blockers = setBB (walk (-1) 1 s blockers.getLsbD) ∧
    R.raySE s blockers = setBB (walk 1 (-1) s blockers.getLsbD) ∧
    R.raySW s blockers = setBB (walk (-1) (-1) s blockers.getLsbD) := by
  rw [agree_rayN, agree_rayS, agree_rayE, agree_rayW, agree_rayNE, agree_rayNW, agree_raySE, agree_raySW]
  exact C10_rays s hs blockers

/-- the union of the four diagonal / orthogonal regenerated fills is the bishop / rook walk of the specification
(the fills alone, without the table: `C10_rays` assembled as in `C10_fills_eq_table`). -/
theorem C10_code_fills_eq_walk (s : Nat) (hs : s < 64) (occ : BB) :
    R.rayNE s occ ||| (R.rayNW s occ ||| (R.raySE s occ ||| (R.raySW s occ ||| 0#64))) = walkBB diag s occ ∧
    R.rayE s occ ||| (R.rayW s occ ||| (R.rayN s occ ||| (R.rayS s occ ||| 0#64))) = walkBB orth s occ := by
  obtain ⟨h1, h2⟩ := C10_fills_eq_table s hs occ
  rw [agree_rayN, agree_rayS, agree_rayE, agree_rayW, agree_rayNE, agree_rayNW, agree_raySE, agree_raySW,
    ← h1, ← h2, C10_bishop s hs, C10_rook s hs]
  exact ⟨rfl, rfl⟩

/-- membership form on the fills: `t` is in the union of the four regenerated diagonal (orthogonal) fills iff one of
the four walks reaches it. -/
theorem C10_code_fills_mem (s : Nat) (hs : s < 64) (occ : BB) (t : Nat) :
    (R.rayNE s occ ||| (R.rayNW s occ ||| (R.raySE s occ ||| (R.raySW s occ ||| 0#64)))).getLsbD t
      = (decide (t < 64) && walkSet4 diag s occ.getLsbD t) ∧
    (R.rayE s occ ||| (R.rayW s occ ||| (R.rayN s occ ||| (R.rayS s occ ||| 0#64)))).getLsbD t
      = (decide (t < 64) && walkSet4 orth s occ.getLsbD t) := by
  obtain ⟨h1, h2⟩ := C10_code_fills_eq_walk s hs occ
  rw [h1, h2, getLsbD_walkBB, getLsbD_walkBB]
  exact ⟨rfl, rfl⟩

/-! ## the table look-up against the regenerated fills -/

/-- **`C10_fills_eq_table` on the code** (exact transfer): for every square and every occupancy the magic look-up
(artefact of build.rs, no `R.` term) returns the union of the four regenerated fills of rays.rs. -/
theorem C10_code_fills_eq_table (s : Nat) (hs : s < 64) (occ : BB) :
    bishopMoves s occ = R.rayNE s occ ||| (R.rayNW s occ ||| (R.raySE s occ ||| (R.raySW s occ ||| 0#64))) ∧
    rookMoves s occ = R.rayE s occ ||| (R.rayW s occ ||| (R.rayN s occ ||| (R.rayS s occ ||| 0#64))) := by
  rw [agree_rayN, agree_rayS, agree_rayE, agree_rayW, agree_rayNE, agree_rayNW, agree_raySE, agree_raySW]
  exact C10_fills_eq_table s hs occ

/-- the look-up does not leave the table (no panic) and the value read is the union of the regenerated fills. -/
theorem C10_code_get (s : Nat) (hs : s < 64) (occ : BB) :
    magicGet (bishopIndex s occ)
      = some (R.rayNE s occ ||| (R.rayNW s occ ||| (R.raySE s occ ||| (R.raySW s occ ||| 0#64)))).toNat ∧
    magicGet (rookIndex s occ)
      = some (R.rayE s occ ||| (R.rayW s occ ||| (R.rayN s occ ||| (R.rayS s occ ||| 0#64)))).toNat := by
  obtain ⟨h1, h2⟩ := C10_code_fills_eq_walk s hs occ
  rw [h1, h2]
  exact ⟨C10_bishop_get s hs occ, C10_rook_get s hs occ⟩

/-- `C10_queen` against the fills: the queen look-up is the union of all eight regenerated fills. -/
theorem C10_code_queen (s : Nat) (hs : s < 64) (occ : BB) :
    queenMoves s occ
      = (R.rayNE s occ ||| (R.rayNW s occ ||| (R.raySE s occ ||| (R.raySW s occ ||| 0#64)))) |||
        (R.rayE s occ ||| (R.rayW s occ ||| (R.rayN s occ ||| (R.rayS s occ ||| 0#64)))) := by
  obtain ⟨h1, h2⟩ := C10_code_fills_eq_table s hs occ
  unfold queenMoves
  rw [h1, h2]

/-! ## leapers: the regenerated `knights`, `adjacent`, `pawns::<US>` are board geometry, no wrap-around -/

/-- **`C10_leapers_bit` on the code** (exact transfer), the one-square set built by the regenerated
`Bitboard::from_square`. -/
theorem C10_code_leapers_bit (sq : Nat) (h : sq < 64) :
    R.knights (R.fromSquare sq) = geomBB (knightStep sq) ∧ R.adjacent (R.fromSquare sq) = geomBB (kingStep sq) ∧
    ∀ us, R.pawns us (R.fromSquare sq) = geomBB (pawnStep us sq) := by
  rw [agree_knights, agree_adjacent, agree_pawns, agree_fromSquare]
  exact C10_leapers_bit sq h

/-- **`C10_knights` on the code** (exact transfer, no hypothesis). -/
theorem C10_code_knights (b : BB) (t : Nat) :
    (R.knights b).getLsbD t
      = (decide (t < 64) && (List.range 64).any fun s => b.getLsbD s && knightStep s t) := by
  rw [agree_knights]; exact C10_knights b t

/-- **`C10_adjacent` on the code** (exact transfer, no hypothesis). -/
theorem C10_code_adjacent (b : BB) (t : Nat) :
    (R.adjacent b).getLsbD t
      = (decide (t < 64) && (List.range 64).any fun s => b.getLsbD s && kingStep s t) := by
  rw [agree_adjacent]; exact C10_adjacent b t

/-- **`C10_pawnsAtt` on the code** (exact transfer, no hypothesis; `us = true`: capturing towards higher ranks). -/
theorem C10_code_pawns (us : Bool) (b : BB) (t : Nat) :
    (R.pawns us b).getLsbD t
      = (decide (t < 64) && (List.range 64).any fun s => b.getLsbD s && pawnStep us s t) := by
  rw [agree_pawns]; exact C10_pawnsAtt us b t

/-- the two leaper tables of the build (`KNIGHT_MASKS[sq]`, `KING_MASKS[sq]`: no `R.` term, computed by build.rs) equal
the regenerated leaper functions of the one-square set — `C10_knightMask`, `C10_kingMask` composed with
`C10_code_leapers_bit`. -/
theorem C10_code_masks_eq_leapers (sq : Nat) (h : sq < 64) :
    knightMask sq = R.knights (R.fromSquare sq) ∧ kingMask sq = R.adjacent (R.fromSquare sq) := by
  obtain ⟨h1, h2, _⟩ := C10_code_leapers_bit sq h
  rw [h1, h2]
  exact ⟨C10_knightMask sq h, C10_kingMask sq h⟩

/-! ## non-vacuity -/

/-- the regenerated north-east fill from a1 with a blocker on d4 stops on d4. -/
example : R.rayNE 0 (R.fromSquare 27) = setBB [9, 18, 27] := by
  rw [(C10_code_rays 0 (by decide) _).2.2.2.2.1]; decide

/-- bishop on d4 (27), blockers f6 (45) and b2 (9): the look-up, through the theorem, is the union of the regenerated
fills, which stop on the blockers. -/
example : bishopMoves 27 (bit 45 ||| bit 9) = setBB [36, 45, 34, 41, 48, 20, 13, 6, 18, 9] := by
  rw [(C10_code_fills_eq_table 27 (by decide) _).1]; decide

/-- no wrap-around in the regenerated leapers: knight on h1, king on a4, white pawns on a2 and h2. -/
example : R.knights (R.fromSquare 7) = setBB [13, 22] := by decide
example : R.adjacent (R.fromSquare 24) = setBB [16, 17, 25, 32, 33] := by decide
example : R.pawns true (R.fromSquare 8 ||| R.fromSquare 15) = setBB [17, 22] := by decide
example : (R.knights (R.fromSquare 7)).getLsbD 22 = true ∧ (R.knights (R.fromSquare 7)).getLsbD 8 = false := by
  rw [C10_code_knights, C10_code_knights]; decide

end Rawr

#print axioms Rawr.C10_code_rays
#print axioms Rawr.C10_code_fills_eq_walk
#print axioms Rawr.C10_code_fills_mem
#print axioms Rawr.C10_code_fills_eq_table
#print axioms Rawr.C10_code_get
#print axioms Rawr.C10_code_queen
#print axioms Rawr.C10_code_leapers_bit
#print axioms Rawr.C10_code_knights
#print axioms Rawr.C10_code_adjacent
#print axioms Rawr.C10_code_pawns
#print axioms Rawr.C10_code_masks_eq_leapers
