import Rawr.Proofs.GenKing
/-!
# C01, first classes: king steps (and castling, below)

`moveGenerator p` tags every move with the moving piece; king moves carry tag 5. A king-tagged move is
either a king step (target not an own piece) or a castling move (encoded "king takes own rook").

* `C01_king_steps`: for a position of the domain (`ValidPos`), the generated king steps are exactly the
  legal king moves of `Spec.legalMoves (abs p)`: the target is a king's move away, not occupied by an own
  piece, and the king is not attacked there on the board after the move. The proof goes through
  `C08d_isSafe` (`is_safe` on the occupancy with the king lifted = not attacked with the king lifted)
  and the fact that what stands on the target square (a captured piece, or the king itself after the
  move) does not influence whether that square is attacked.
-/
namespace Rawr
open Spec Att

/-- C01, king steps: generated (non-castling) king moves = legal king moves of the rules. -/
theorem C01_king_steps (p : Position) (hV : ValidPos p = true) : ∀ to : Nat,
    (gm 5 (prelude p).ksq to 6 ∈ moveGenerator p ∧ ¬ p.c0.isSet to = true) ↔
      Spec.Move.normal (absSq p.black (prelude p).ksq) (absSq p.black to) none
        ∈ Spec.legalMoves (abs p) := by
  intro to
  rw [prelude_ksq]
  exact king_steps_core hV to

/-- the same, quantified over the absolute target and the promotion field: every legal move that starts
on the king's square is a generated king step (and has no promotion piece). -/
theorem C01_king_steps_abs (p : Position) (hV : ValidPos p = true) (b : Nat) (pr : Option Kind) :
    Spec.Move.normal (absSq p.black (prelude p).ksq) b pr ∈ Spec.legalMoves (abs p) ↔
      pr = none ∧ gm 5 (prelude p).ksq (absSq p.black b) 6 ∈ moveGenerator p ∧
        ¬ p.c0.isSet (absSq p.black b) = true := by
  have F := kingFacts hV
  rw [prelude_ksq] at *
  constructor
  · intro h
    have hpr : pr = none := by
      have h' := ((mem_legal_normal _ _ _ _).mp h).1.2
      rw [mem_pseudoFrom_king _ _ F.abs] at h'
      obtain ⟨t, _, _, _, e⟩ := h'
      injection e
    subst hpr
    refine ⟨rfl, ?_⟩
    have := (king_steps_core hV (absSq p.black b)).mpr (by rw [absSq_absSq]; exact h)
    exact this
  · rintro ⟨rfl, h⟩
    have := (king_steps_core hV (absSq p.black b)).mp h
    rw [absSq_absSq] at this
    exact this

/-! ## non-vacuity -/

/-- white Kg1 Rf1 Nf3 pawns g2 h2; black Kg8 Qd4 (checking on the diagonal d4–g1) Bb7 pawn f7;
White to move. The king may go to h1 but not to f2. -/
def kingPos : Position :=
  let q : Position :=
    { Position.dflt with
      c0 := (bit 6 ||| bit 5 ||| bit 14 ||| bit 15 ||| bit 21),
      c1 := (bit 62 ||| bit 27 ||| bit 49 ||| bit 53),
      p0 := (bit 14 ||| bit 15 ||| bit 53), p1 := bit 21, p2 := bit 49, p3 := bit 5, p4 := bit 27,
      p5 := (bit 6 ||| bit 62) }
  { q with hash := q.calculateHash }

example : ValidPos kingPos = true := by decide +kernel
example : (prelude kingPos).ksq = 6 ∧ gm 5 6 7 6 ∈ moveGenerator kingPos ∧
    gm 5 6 13 6 ∉ moveGenerator kingPos := by decide +kernel
/-- the colour-swapped position, Black to move (same relative boards, mirrored absolute board): the
frame change is exercised; g8–h8 is legal, g8–f7 is not. -/
def kingPosB : Position :=
  let q : Position := { kingPos with black := true }
  { q with hash := q.calculateHash }

example : ValidPos kingPosB = true := by decide +kernel
example : gm 5 6 7 6 ∈ moveGenerator kingPosB ∧
    Spec.Move.normal 62 63 none ∈ Spec.legalMoves (abs kingPosB) ∧
    Spec.Move.normal 62 53 none ∉ Spec.legalMoves (abs kingPosB) := by decide +kernel

#print axioms C01_king_steps
#print axioms C01_king_steps_abs

end Rawr
