import Rawr.Proofs.GenCastle5
/-!
# C01, first classes: king steps (and castling, below)

`moveGenerator p` tags every move with the moving piece; king moves carry tag 5. A king-tagged move is
either a king step (target not an own piece) or a castling move (encoded "king takes own rook").

* `C01_king_steps`: for a position of the domain (`ValidPos`), the generated king steps are exactly the
  legal king moves of `Spec.legalMoves (abs p)`: the target is a king's move away, not occupied by an own
  piece, and the king is not attacked there on the board after the move. The proof goes through
  `C08d_isSafe` (`is_safe` on the occupancy with the king lifted = not attacked with the king lifted)
  and the fact that what stands on the target square (a captured piece, or the king itself after the
  move) does not influence whether that square is attacked.
* `C01_castleOk`: the generator's castling test `castleOk` (right, not in check, castling rook not
  `hpinned`, path empty apart from king and rook, king path not attacked) *equals*
  `Spec.castleLegal (abs p) ks` — including the `hpinned` clause: under the other conditions the rook
  is horizontally pinned iff the king is attacked on its target square on the castled board
  (`Proofs/GenCastle3–5.lean`).
* `C01_castling`: the generated king-tagged moves onto an own piece ("king takes own rook") are exactly
  the legal castlings; `C01_castling_moves` says the same through `decodeMove` / `Spec.legalMoves`.
* The literal reading "`gm 5 ksq rookSq 6` is generated iff `castleLegal`" is FALSE when the right is
  absent: `rookSq` is then an arbitrary back-rank square (`cf0 = 7` by default) and an ordinary king step
  may go there (`C01_castling_literal_false`). That is why the castling class is delimited by
  `p.c0.isSet dst`, as in `decodeMove`.
-/
namespace Rawr
open Spec Att

/-- C01, king steps: generated (non-castling) king moves = legal king moves of the rules. -/
theorem C01_king_steps (p : Position) (hV : ValidPos p = true) : ∀ to : Nat,
    (gm 5 (prelude p).ksq to 6 ∈ moveGenerator p ∧ ¬ p.c0.isSet to = true) ↔
      Spec.Move.normal (absSq p.black (prelude p).ksq) (absSq p.black to) none
        ∈ Spec.legalMoves (abs p) := by
  intro to
  rw [prelude_ksq]
  exact king_steps_core hV to

/-- the same, quantified over the absolute target and the promotion field: every legal move that starts
on the king's square is a generated king step (and has no promotion piece). -/
theorem C01_king_steps_abs (p : Position) (hV : ValidPos p = true) (b : Nat) (pr : Option Kind) :
    Spec.Move.normal (absSq p.black (prelude p).ksq) b pr ∈ Spec.legalMoves (abs p) ↔
      pr = none ∧ gm 5 (prelude p).ksq (absSq p.black b) 6 ∈ moveGenerator p ∧
        ¬ p.c0.isSet (absSq p.black b) = true := by
  have F := kingFacts hV
  rw [prelude_ksq] at *
  constructor
  · intro h
    have hpr : pr = none := by
      have h' := ((mem_legal_normal _ _ _ _).mp h).1.2
      rw [mem_pseudoFrom_king _ _ F.abs] at h'
      obtain ⟨t, _, _, _, e⟩ := h'
      injection e
    subst hpr
    refine ⟨rfl, ?_⟩
    have := (king_steps_core hV (absSq p.black b)).mpr (by rw [absSq_absSq]; exact h)
    exact this
  · rintro ⟨rfl, h⟩
    have := (king_steps_core hV (absSq p.black b)).mp h
    rw [absSq_absSq] at this
    exact this

/-! ## a test position -/

/-- white Kg1 Rf1 Nf3 pawns g2 h2; black Kg8 Qd4 (checking on the diagonal d4–g1) Bb7 pawn f7;
White to move. The king may go to h1 but not to f2. -/
def kingPos : Position :=
  let q : Position :=
    { Position.dflt with
      c0 := (bit 6 ||| bit 5 ||| bit 14 ||| bit 15 ||| bit 21),
      c1 := (bit 62 ||| bit 27 ||| bit 49 ||| bit 53),
      p0 := (bit 14 ||| bit 15 ||| bit 53), p1 := bit 21, p2 := bit 49, p3 := bit 5, p4 := bit 27,
      p5 := (bit 6 ||| bit 62) }
  { q with hash := q.calculateHash }

/-! ## castling -/

/-- the castling rook's square of side `ks` (king side = `true`), mover-relative. -/
def castleRookSq (p : Position) (ks : Bool) : Nat := fromCoords (if ks then p.cf0 else p.cf1) 0

/-- C01, castling class: the generator's test is the rule. -/
theorem C01_castleOk (p : Position) (hV : ValidPos p = true) (ks : Bool) :
    castleOk p (prelude p) (if ks then p.usK else p.usQ) (castleRookSq p ks)
        (if ks then 6 else 2) (if ks then 5 else 3)
      = Spec.castleLegal (abs p) ks := by
  have := castleOk_eq_castleLegal hV ks
  cases ks <;> exact this

/-- C01, castling class: a king-tagged move onto an own piece is generated iff it is the castling move
of a side for which `Spec.castleLegal` holds. -/
theorem C01_castling (p : Position) (hV : ValidPos p = true) (to : Nat) :
    (gm 5 (prelude p).ksq to 6 ∈ moveGenerator p ∧ p.c0.isSet to = true) ↔
      ∃ ks, to = castleRookSq p ks ∧ Spec.castleLegal (abs p) ks = true := by
  have hR := rook_of_right hV
  have hK := C01_castleOk p hV true
  have hQ := C01_castleOk p hV false
  simp only [if_true, Bool.false_eq_true, if_false] at hK hQ
  rw [mem_gen_king]
  constructor
  · rintro ⟨h | ⟨hc, _, rfl⟩ | ⟨hc, _, rfl⟩, hown⟩
    · exfalso
      rw [prelude_ksq] at h
      have F := kingFacts hV
      have := ((mem_kingTargetsSafe p _ F.k64 to).mp h.2).2.2.1
      unfold BB.isSet at hown
      rw [this] at hown; cases hown
    · exact ⟨true, rfl, by rw [← hK]; exact hc⟩
    · exact ⟨false, rfl, by rw [← hQ]; exact hc⟩
  · rintro ⟨ks, rfl, hl⟩
    cases ks
    · rw [← hQ] at hl
      refine ⟨Or.inr (Or.inr ⟨hl, rfl, rfl⟩), ?_⟩
      have := hR.2 (castleOk_right hl)
      rw [BitVec.getLsbD_and, Bool.and_eq_true] at this
      exact this.1
    · rw [← hK] at hl
      refine ⟨Or.inr (Or.inl ⟨hl, rfl, rfl⟩), ?_⟩
      have := hR.1 (castleOk_right hl)
      rw [BitVec.getLsbD_and, Bool.and_eq_true] at this
      exact this.1

theorem mem_legal_castle (P : APos) (ks : Bool) :
    Spec.Move.castle ks ∈ Spec.legalMoves P ↔ Spec.castleLegal P ks = true := by
  unfold Spec.legalMoves
  rw [List.mem_append]
  constructor
  · rintro (h | h)
    · exfalso
      rw [List.mem_filter, List.mem_flatMap] at h
      obtain ⟨⟨s, _, hm⟩, _⟩ := h
      exact pseudoFrom_src P s _ hm
    · rw [List.mem_map] at h
      obtain ⟨ks', hm, e⟩ := h
      injection e with e
      subst e
      exact (List.mem_filter.mp hm).2
  · intro h
    right
    rw [List.mem_map]
    exact ⟨ks, List.mem_filter.mpr ⟨by cases ks <;> simp, h⟩, rfl⟩

/-- the castling moves through the move decoding: generated "king takes own rook" moves decode to the
legal `Move.castle`s of the rules, side for side. -/
theorem C01_castling_moves (p : Position) (hV : ValidPos p = true) (to : Nat) :
    (gm 5 (prelude p).ksq to 6 ∈ moveGenerator p ∧ p.c0.isSet to = true) ↔
      ∃ ks, to = castleRookSq p ks ∧ decodeMove p ⟨(prelude p).ksq, to, 6⟩ = Spec.Move.castle ks ∧
        Spec.Move.castle ks ∈ Spec.legalMoves (abs p) := by
  rw [C01_castling p hV to]
  constructor
  · rintro ⟨ks, rfl, hl⟩
    refine ⟨ks, rfl, ?_, (mem_legal_castle _ _).mpr hl⟩
    have hr : rightUs p ks = true := by
      cases hr : rightUs p ks
      · rw [castleLegal_no_right ks hr] at hl; cases hl
      · rfl
    have CF := castleFacts hV ks hr
    have hown : p.c0.isSet (castleRookSq p ks) = true := by
      have hR := rook_of_right hV
      unfold rightUs at hr
      unfold castleRookSq
      cases ks
      · have := hR.2 hr
        rw [BitVec.getLsbD_and, Bool.and_eq_true] at this; exact this.1
      · have := hR.1 hr
        rw [BitVec.getLsbD_and, Bool.and_eq_true] at this; exact this.1
    unfold decodeMove
    simp only [hown, if_true]
    congr 1
    have hside := CF.side
    rw [prelude_ksq]
    unfold castleRookSq rookFile at *
    cases ks
    · simp only [Bool.false_eq_true, if_false, fromCoords_zero] at hside ⊢
      simp only [decide_eq_false_iff_not]; omega
    · simp only [if_true, fromCoords_zero] at hside ⊢
      simp only [decide_eq_true_eq]; omega
  · rintro ⟨ks, rfl, _, hl⟩
    exact ⟨ks, rfl, (mem_legal_castle _ _).mp hl⟩

/-- the literal reading without the "onto an own piece" clause is false: in `kingPos` no right is
present, `cf0 = 7`, and the king step g1–h1 is the generated move `gm 5 6 7 6`. -/
theorem C01_castling_literal_false :
    ValidPos kingPos = true ∧
    gm 5 (prelude kingPos).ksq (castleRookSq kingPos true) 6 ∈ moveGenerator kingPos ∧
    Spec.castleLegal (abs kingPos) true = false := by decide +kernel

/-- non-vacuity for castling: white Ke1 Ra1 Rh1, black Ke8 Rb8 (attacks b1 only: queen-side castling
stays legal), both rights. -/
def castlePos : Position :=
  let q : Position :=
    { Position.dflt with
      c0 := (bit 4 ||| bit 0 ||| bit 7), c1 := (bit 60 ||| bit 57),
      p3 := (bit 0 ||| bit 7 ||| bit 57), p5 := (bit 4 ||| bit 60),
      usK := true, usQ := true, cf0 := 7, cf1 := 0 }
  { q with hash := q.calculateHash }

example : ValidPos castlePos = true := by decide +kernel
example : Spec.castleLegal (abs castlePos) true = true ∧ Spec.castleLegal (abs castlePos) false = true ∧
    gm 5 4 7 6 ∈ moveGenerator castlePos ∧ gm 5 4 0 6 ∈ moveGenerator castlePos := by decide +kernel

/-- the `hpinned` clause at work (Chess960): white Kd1 (3), castling rook b1 (1), black Ra1 (0), black
Ke8. Every other condition of queen-side castling holds (c1, d1 are not attacked: the rook on b1
shields them), but after castling (Kc1, Rd1) the king would be attacked from a1. -/
def pinPos : Position :=
  let q : Position :=
    { Position.dflt with
      c0 := (bit 3 ||| bit 1), c1 := (bit 60 ||| bit 0),
      p3 := (bit 1 ||| bit 0), p5 := (bit 3 ||| bit 60),
      usQ := true, cf1 := 1 }
  { q with hash := q.calculateHash }

example : ValidPos pinPos = true := by decide +kernel
example : (prelude pinPos).hpinned.isSet 1 = true ∧ Spec.castleLegal (abs pinPos) false = false ∧
    gm 5 3 1 6 ∉ moveGenerator pinPos := by decide +kernel

/-! ## non-vacuity -/

example : ValidPos kingPos = true := by decide +kernel
example : (prelude kingPos).ksq = 6 ∧ gm 5 6 7 6 ∈ moveGenerator kingPos ∧
    gm 5 6 13 6 ∉ moveGenerator kingPos := by decide +kernel
/-- the colour-swapped position, Black to move (same relative boards, mirrored absolute board): the
frame change is exercised; g8–h8 is legal, g8–f7 is not. -/
def kingPosB : Position :=
  let q : Position := { kingPos with black := true }
  { q with hash := q.calculateHash }

example : ValidPos kingPosB = true := by decide +kernel
example : gm 5 6 7 6 ∈ moveGenerator kingPosB ∧
    Spec.Move.normal 62 63 none ∈ Spec.legalMoves (abs kingPosB) ∧
    Spec.Move.normal 62 53 none ∉ Spec.legalMoves (abs kingPosB) := by decide +kernel

#print axioms C01_king_steps
#print axioms C01_king_steps_abs
#print axioms C01_castleOk
#print axioms C01_castling
#print axioms C01_castling_moves
#print axioms C01_castling_literal_false

end Rawr
