import Rawr.Props.C16
import Rawr.Props.C15_code
/-!
# C16 on the regenerated code: the `ucinewgame` arm of `R.listen_loop5_step`, `R.listen_loop5`, `R.position`, `R.listen`

`Props/C16.lean` proves for the model's state machine `stepSecond` that `ucinewgame` makes the engine forget everything
but its option values.  The second command loop of uci/listen.rs is regenerated on every run: `R.listen_loop5_step` (one
iteration; loop-carried variables `(exited, input, stdin, got_isready, pos, history, tt, out, hash, is_frc)` =
`Sess.st5 ex input stdin got s out` for the model state `s = ⟨hash, is_frc, pos, history.reverse, tt⟩`), `R.listen_loop5`,
`R.listen`; `agree_listen_loop5_step`, `agree_listen_loop5`, `agree_listen` tie them to `stepSecond`, `secondLoop`,
`listen` (see `Props/C15_code.lean` for the bundled hypotheses `StepHyps`, `LoopHyps`, `ListenHyps` — exactly those of
the agreements — and for the projection `Sess.transcript` / the relation `Sess.Out` through which printed text is compared).

`stepState r`, `stepDone r`, `stepOut r` read the session state `(hash, is_frc, pos, history, tt)`, the
continue / stop decision and the printed stream off the result of an iteration; `step_code_result`: a returning
iteration IS a returning `stepSecond` with that state and decision, its new text having the model's canonical form.

* `C16_code_newgame_arm` — the `ucinewgame` arm, no hypothesis at all: start position with the current Chess960 flag,
  one-entry history, CLEARED table, option values kept, nothing printed (canonically).
* `C16_code_newgame_fresh` = `stepSecond_ucinewgame_fresh`, `C16_code_newgame_resets` = `C16_newgame_resets`: under the loop
  invariant `UInv` (table length = configured size, `pos.is_frc = is_frc`; preserved by every iteration:
  `C16_code_step_inv` = `stepSecond_inv`) the variables after the arm are those of a fresh engine with the same option
  values — from two states with the same option values the same variables.  Exact transfers (the arm needs no `StepOk`).
* `C16_code_step_determined` — an iteration depends on `(x, exited, stdin, out)` only through what it echoes: same new
  state, same decision, canonically the same text.  `C16_code_newgame_position_determines_state` =
  `C16_newgame_position_determines_state` (explicit two-iteration form): hypothesis added = `StepHyps` of the second line
  at the fresh state.
* `C16_code_later_outputs_equal` = `C16_later_outputs_equal` on `R.listen_loop5` (for any continuation `qs`, not only
  `L :: qs`): `LoopHyps` is asked of the FRESH run only (`sessOk_newgame` transports it).
* `C16_code_position_determines_pos_hist` = `C16_position_determines_pos_hist` on `R.position`; `C16_code_position_line` =
  `C16_position_line` on the iteration (`StepHyps` asked of one of the two states only).
* `C16_code_fresh_process` = `C16_fresh_process` on `R.listen`: `ListenHyps` for each of the two input streams.
-/
namespace Rawr
open Position

/-! ## reading the result of an iteration -/

/-- the session state in the loop-carried variables. -/
def stateOfSt5 (t : Sess.St5) : UState :=
  { hashMb := t.2.2.2.2.2.2.2.2.1, frc := t.2.2.2.2.2.2.2.2.2, pos := t.2.2.2.2.1, hist := t.2.2.2.2.2.1.reverse,
    tt := t.2.2.2.2.2.2.1 }

/-- session state after an iteration. -/
def stepState : ForInStep Sess.St5 → UState
  | .done t => stateOfSt5 t
  | .yield t => stateOfSt5 t
/-- `true`: the iteration ended the loop. -/
def stepDone : ForInStep Sess.St5 → Bool
  | .done _ => true
  | .yield _ => false
/-- the printed stream after an iteration. -/
def stepOut : ForInStep Sess.St5 → List Char
  | .done t => t.2.2.2.2.2.2.2.1
  | .yield t => t.2.2.2.2.2.2.2.1

theorem stateOf_st5 (ex : Bool) (input : List Char) (stdin : List (List Char)) (got : Bool) (s : UState) (out : List Char) :
    stateOfSt5 (Sess.st5 ex input stdin got s out) = s := by
  cases s
  simp only [stateOfSt5, Sess.st5, List.reverse_reverse]

/-- a returning iteration of the regenerated loop is a returning model step: same new state, same decision, and the
text printed by it has the model's canonical form. -/
theorem step_code_result {fuel : Nat} {ar : Arith} {clk : Nat → Nat} {o : Nat → Bool} {s : UState} {input : List Char}
    (hyp : StepHyps fuel ar clk o s input) (x : Nat) (ex : Bool) (stdin : List (List Char)) (out : List Char)
    {r : ForInStep Sess.St5}
    (h : R.listen_loop5_step fuel ar 1000 clk x ex input stdin false s.pos s.hist.reverse s.tt out s.hashMb s.frc = some r) :
    ∃ L, stepSecond ar o s input = some (stepState r, L, stepDone r) ∧
      ∃ y, stepOut r = out ++ y ∧ Sess.Out y L ∧ Sess.transcript y = L := by
  obtain ⟨s', L, q, hm, hcase⟩ := stepRel_some (step_code_model hyp x ex stdin out) h
  rcases hcase with ⟨rfl, rfl, rfl⟩ | ⟨rfl, y, rfl, hy⟩
  · exact ⟨[], by rw [hm]; simp only [stepState, stepDone, stateOf_st5],
      [], by simp [stepOut, Sess.st5], Sess.Out.nil, Sess.Out.nil.transcript⟩
  · exact ⟨L, by rw [hm]; simp only [stepState, stepDone, stateOf_st5], y, by simp [stepOut, Sess.st5], hy, hy.transcript⟩

/-- the regenerated iteration panics exactly when the model step does. -/
theorem step_code_none_iff {fuel : Nat} {ar : Arith} {clk : Nat → Nat} {o : Nat → Bool} {s : UState} {input : List Char}
    (hyp : StepHyps fuel ar clk o s input) (x : Nat) (ex : Bool) (stdin : List (List Char)) (out : List Char) :
    R.listen_loop5_step fuel ar 1000 clk x ex input stdin false s.pos s.hist.reverse s.tt out s.hashMb s.frc = none ↔
      stepSecond ar o s input = none := by
  have hrel := step_code_model hyp x ex stdin out
  constructor
  · intro hx
    cases hm : stepSecond ar o s input with
    | none => rfl
    | some r =>
      obtain ⟨s', L, q⟩ := r
      rw [hm] at hrel
      cases q with
      | true => rw [(stepRel_quit hrel).1] at hx; cases hx
      | false => obtain ⟨y, e, _⟩ := stepRel_cont hrel; rw [e] at hx; cases hx
  · intro hm
    rw [hm] at hrel
    exact stepRel_none hrel

/-- **the loop invariant on the code** (`stepSecond_inv`): table length = configured size and `pos.is_frc = is_frc` are
preserved by every returning iteration. -/
theorem C16_code_step_inv {fuel : Nat} {ar : Arith} {clk : Nat → Nat} {o : Nat → Bool} {s : UState} {input : List Char}
    (hyp : StepHyps fuel ar clk o s input) (hs : UInv s) (x : Nat) (ex : Bool) (stdin : List (List Char)) (out : List Char)
    {r : ForInStep Sess.St5}
    (h : R.listen_loop5_step fuel ar 1000 clk x ex input stdin false s.pos s.hist.reverse s.tt out s.hashMb s.frc = some r) :
    UInv (stepState r) := by
  obtain ⟨L, hm, _⟩ := step_code_result hyp x ex stdin out h
  exact stepSecond_inv hs hm

/-- an iteration depends on the iteration counter, the exit flag, the unread lines and the text printed so far only
through what it echoes: from the same `(pos, history, tt, hash, is_frc)` and line, two calls panic alike, and otherwise
reach the same state, take the same decision and print canonically the same text. -/
theorem C16_code_step_determined {fuel : Nat} {ar : Arith} {clk : Nat → Nat} {o : Nat → Bool} {s : UState}
    {input : List Char} (hyp : StepHyps fuel ar clk o s input) (x x' : Nat) (ex ex' : Bool) (stdin stdin' : List (List Char))
    (out out' : List Char) :
    (R.listen_loop5_step fuel ar 1000 clk x ex input stdin false s.pos s.hist.reverse s.tt out s.hashMb s.frc = none ↔
      R.listen_loop5_step fuel ar 1000 clk x' ex' input stdin' false s.pos s.hist.reverse s.tt out' s.hashMb s.frc = none) ∧
    ∀ r r',
      R.listen_loop5_step fuel ar 1000 clk x ex input stdin false s.pos s.hist.reverse s.tt out s.hashMb s.frc = some r →
      R.listen_loop5_step fuel ar 1000 clk x' ex' input stdin' false s.pos s.hist.reverse s.tt out' s.hashMb s.frc = some r' →
      stepState r = stepState r' ∧ stepDone r = stepDone r' ∧
      ∃ y y', stepOut r = out ++ y ∧ stepOut r' = out' ++ y' ∧ Sess.transcript y = Sess.transcript y' := by
  refine ⟨by rw [step_code_none_iff hyp, step_code_none_iff hyp], fun r r' h h' => ?_⟩
  obtain ⟨L, hm, y, e, _, ht⟩ := step_code_result hyp x ex stdin out h
  obtain ⟨L', hm', y', e', _, ht'⟩ := step_code_result hyp x' ex' stdin' out' h'
  rw [hm] at hm'
  simp only [Option.some.injEq, Prod.mk.injEq] at hm'
  obtain ⟨e1, e2, e3⟩ := hm'
  exact ⟨e1, e3, y, y', e, e', by rw [ht, ht', e2]⟩

/-! ## the `ucinewgame` arm -/

/-- a line whose command word is none of `go position moves print display board` carries no side condition, for any `G`. -/
theorem stepOk_plain (G : Nat → Position → Prop) (fuel : Nat) (ar : Arith) (clk : Nat → Nat) (o : Nat → Bool) (s : UState)
    (input : List Char) (h1 : cmdOf input ≠ str "go") (h2 : cmdOf input ≠ str "position")
    (h3 : cmdOf input ≠ str "moves") (h4 : cmdOf input ≠ str "print") (h5 : cmdOf input ≠ str "display")
    (h6 : cmdOf input ≠ str "board") : Sess.StepOk G fuel ar clk o s (splitWs input) :=
  ⟨fun e => absurd e h1, fun e => absurd e h2, fun e => absurd e h3,
    fun e => e.elim (fun e => absurd e h4) (fun e => e.elim (fun e => absurd e h5) (fun e => absurd e h6))⟩

theorem stepOk_newgame (G : Nat → Position → Prop) (fuel : Nat) (ar : Arith) (clk : Nat → Nat) (o : Nat → Bool) (s : UState)
    (N : List Char) (hN : cmdOf N = str "ucinewgame") : Sess.StepOk G fuel ar clk o s (splitWs N) :=
  stepOk_plain G fuel ar clk o s N (by rw [hN]; decide) (by rw [hN]; decide) (by rw [hN]; decide)
    (by rw [hN]; decide) (by rw [hN]; decide) (by rw [hN]; decide)

/-- **the `ucinewgame` arm of the regenerated loop** (no hypothesis): the iteration continues the loop with the start
position carrying the current Chess960 flag, the one-entry history of its key, the CLEARED table and the option values
unchanged; `input`, `stdin` are untouched and what it printed is canonically nothing. -/
theorem C16_code_newgame_arm (fuel : Nat) (ar : Arith) (clk : Nat → Nat) (x : Nat) (ex : Bool) (N : List Char)
    (stdin : List (List Char)) (s : UState) (out : List Char) (hN : cmdOf N = str "ucinewgame") :
    ∃ y, R.listen_loop5_step fuel ar 1000 clk x ex N stdin false s.pos s.hist.reverse s.tt out s.hashMb s.frc =
        some (ForInStep.yield (ex, N, stdin, true, { Gen.startpos with frc := s.frc }, [Gen.startpos.hash], s.tt.clear,
          out ++ y, s.hashMb, s.frc)) ∧
      Sess.transcript y = [] := by
  have hyp : StepHyps fuel ar clk (fun _ => false) s N :=
    ⟨fun _ _ => False, fun _ _ h => h.elim, fun _ _ h => h.elim, fun _ _ _ _ h => h.elim, stepOk_newgame _ _ _ _ _ _ N hN⟩
  have hrel := step_code_model hyp x ex stdin out
  rw [stepSecond_ucinewgame ar _ s N hN] at hrel
  obtain ⟨y, e, hy⟩ := stepRel_cont hrel
  exact ⟨y, e, hy.transcript⟩

/-- **`stepSecond_ucinewgame_fresh` on the code**: under the loop invariant the variables after the arm are those of a
FRESH engine with the same option values (`fresh hash is_frc`: in particular the cleared table is the new table of the
configured size). -/
theorem C16_code_newgame_fresh (fuel : Nat) (ar : Arith) (clk : Nat → Nat) (x : Nat) (ex : Bool) (N : List Char)
    (stdin : List (List Char)) (s : UState) (hs : UInv s) (out : List Char) (hN : cmdOf N = str "ucinewgame") :
    ∃ y, R.listen_loop5_step fuel ar 1000 clk x ex N stdin false s.pos s.hist.reverse s.tt out s.hashMb s.frc =
        some (ForInStep.yield (Sess.st5 ex N stdin true (fresh s.hashMb s.frc) (out ++ y))) ∧
      Sess.transcript y = [] := by
  have hyp : StepHyps fuel ar clk (fun _ => false) s N :=
    ⟨fun _ _ => False, fun _ _ h => h.elim, fun _ _ h => h.elim, fun _ _ _ _ h => h.elim, stepOk_newgame _ _ _ _ _ _ N hN⟩
  have hrel := step_code_model hyp x ex stdin out
  rw [stepSecond_ucinewgame_fresh ar _ s hs N hN] at hrel
  obtain ⟨y, e, hy⟩ := stepRel_cont hrel
  exact ⟨y, e, hy.transcript⟩

/-- **`C16_newgame_resets` on the code**: from two states satisfying the invariant, with the same option values, the
`ucinewgame` arm leads to the same `(pos, history, tt, hash, is_frc)` — whatever position, history and table contents
the two states had. -/
theorem C16_code_newgame_resets (fuel : Nat) (ar : Arith) (clk : Nat → Nat) (x x' : Nat) (ex ex' : Bool) (N : List Char)
    (stdin stdin' : List (List Char)) (s t : UState) (hs : UInv s) (ht : UInv t) (hh : s.hashMb = t.hashMb)
    (hf : s.frc = t.frc) (out out' : List Char) (hN : cmdOf N = str "ucinewgame") :
    ∃ r r', R.listen_loop5_step fuel ar 1000 clk x ex N stdin false s.pos s.hist.reverse s.tt out s.hashMb s.frc = some r ∧
      R.listen_loop5_step fuel ar 1000 clk x' ex' N stdin' false t.pos t.hist.reverse t.tt out' t.hashMb t.frc = some r' ∧
      stepState r = stepState r' ∧ stepState r = fresh s.hashMb s.frc ∧ stepDone r = false ∧ stepDone r' = false ∧
      ∃ y y', stepOut r = out ++ y ∧ stepOut r' = out' ++ y' ∧ Sess.transcript y = [] ∧ Sess.transcript y' = [] := by
  obtain ⟨y, e, hy⟩ := C16_code_newgame_fresh fuel ar clk x ex N stdin s hs out hN
  obtain ⟨y', e', hy'⟩ := C16_code_newgame_fresh fuel ar clk x' ex' N stdin' t ht out' hN
  refine ⟨_, _, e, e', ?_, ?_, rfl, rfl, y, y', ?_, ?_, hy, hy'⟩
  · simp only [stepState, stateOf_st5, hh, hf]
  · simp only [stepState, stateOf_st5]
  · simp [stepOut, Sess.st5]
  · simp [stepOut, Sess.st5]

/-- **`C16_newgame_position_determines_state` on the code** (explicit form): run the `ucinewgame` iteration from any
state `s` with the invariant and from a fresh engine with the same option values, then the iteration on a second line
`L` from the variables reached: the two runs end in the same `(pos, history, tt, hash, is_frc)` — all components —
with the same decision, and `L` printed canonically the same text.  (`_hL` as in the model theorem: `L` may be any line.) -/
theorem C16_code_newgame_position_determines_state {fuel : Nat} {ar : Arith} {clk : Nat → Nat} {o : Nat → Bool}
    (s : UState) (hs : UInv s) (N L : List Char) (hN : cmdOf N = str "ucinewgame") (_hL : cmdOf L = str "position")
    (hyp : StepHyps fuel ar clk o (fresh s.hashMb s.frc) L)
    (x1 x2 x1' x2' : Nat) (ex1 ex2 ex1' ex2' : Bool) (in1 in2 in1' in2' : List (List Char)) (o1 o2 o1' o2' : List Char)
    (a1 a2 b1 b2 : ForInStep Sess.St5)
    (ha1 : R.listen_loop5_step fuel ar 1000 clk x1 ex1 N in1 false s.pos s.hist.reverse s.tt o1 s.hashMb s.frc = some a1)
    (ha2 : R.listen_loop5_step fuel ar 1000 clk x2 ex2 L in2 false (stepState a1).pos (stepState a1).hist.reverse
      (stepState a1).tt o2 (stepState a1).hashMb (stepState a1).frc = some a2)
    (hb1 : R.listen_loop5_step fuel ar 1000 clk x1' ex1' N in1' false (fresh s.hashMb s.frc).pos
      (fresh s.hashMb s.frc).hist.reverse (fresh s.hashMb s.frc).tt o1' s.hashMb s.frc = some b1)
    (hb2 : R.listen_loop5_step fuel ar 1000 clk x2' ex2' L in2' false (stepState b1).pos (stepState b1).hist.reverse
      (stepState b1).tt o2' (stepState b1).hashMb (stepState b1).frc = some b2) :
    (stepState a2).pos = (stepState b2).pos ∧ (stepState a2).hist = (stepState b2).hist ∧
    (stepState a2).tt = (stepState b2).tt ∧ (stepState a2).hashMb = (stepState b2).hashMb ∧
    (stepState a2).frc = (stepState b2).frc ∧ stepState a2 = stepState b2 ∧ stepDone a2 = stepDone b2 ∧
    ∃ y y', stepOut a2 = o2 ++ y ∧ stepOut b2 = o2' ++ y' ∧ Sess.transcript y = Sess.transcript y' := by
  obtain ⟨y, e, _⟩ := C16_code_newgame_fresh fuel ar clk x1 ex1 N in1 s hs o1 hN
  obtain ⟨y', e', _⟩ := C16_code_newgame_fresh fuel ar clk x1' ex1' N in1' (fresh s.hashMb s.frc) (fresh_inv _ _) o1' hN
  have ea : stepState a1 = fresh s.hashMb s.frc := by
    rw [ha1] at e; injection e with e; rw [e]; simp only [stepState, stateOf_st5]
  have eb : stepState b1 = fresh s.hashMb s.frc := by
    have e'' : R.listen_loop5_step fuel ar 1000 clk x1' ex1' N in1' false (fresh s.hashMb s.frc).pos
        (fresh s.hashMb s.frc).hist.reverse (fresh s.hashMb s.frc).tt o1' s.hashMb s.frc = _ := e'
    rw [hb1] at e''; injection e'' with e''; rw [e'']; simp only [stepState, stateOf_st5]; rfl
  rw [ea] at ha2
  rw [eb] at hb2
  obtain ⟨h1, h2, h3⟩ := (C16_code_step_determined hyp x2 x2' ex2 ex2' in2 in2' o2 o2').2 a2 b2 ha2 hb2
  exact ⟨by rw [h1], by rw [h1], by rw [h1], by rw [h1], by rw [h1], h1, h2, h3⟩

/-! ## the second loop from `ucinewgame` on -/

/-- the side conditions of a run that starts with `ucinewgame` are those of the run from the fresh state. -/
theorem sessOk_newgame (G : Nat → Position → Prop) (fuel : Nat) (ar : Arith) (clk : Nat → Nat) (o : Nat → Bool)
    (s : UState) (hs : UInv s) (N : List Char) (hN : cmdOf N = str "ucinewgame") (qs : List (List Char))
    (h : Sess.SessOk G fuel ar clk o (N :: qs) (fresh s.hashMb s.frc)) : Sess.SessOk G fuel ar clk o (N :: qs) s := by
  refine ⟨stepOk_newgame G fuel ar clk o s N hN, fun s' L hstep => h.2 s' L ?_⟩
  rw [← C16_newgame_resets ar o s (fresh s.hashMb s.frc) hs (fresh_inv _ _) rfl rfl N hN]
  exact hstep

/-- **`C16_later_outputs_equal` on the code**: from `ucinewgame` on, the regenerated second loop started in any state
with the invariant behaves — panic or not, exit flag, canonical transcript of everything printed — as started in the
fresh state with the same option values.  (`out`, `out'`: the streams printed before, with the same canonical form
`acc`.)  The side conditions `LoopHyps` are asked of the fresh run only. -/
theorem C16_code_later_outputs_equal {fuel : Nat} {ar : Arith} {clk : Nat → Nat} {o : Nat → Bool}
    (s : UState) (hs : UInv s) (N : List Char) (hN : cmdOf N = str "ucinewgame") (qs : List (List Char))
    (h : LoopHyps fuel ar clk o (fresh s.hashMb s.frc) (N :: qs)) (it it' : List Nat)
    (hlen : (N :: qs).length < it.length) (hlen' : (N :: qs).length < it'.length) (input input' : List Char)
    (out out' : List Char) (acc : List String) (ho : Sess.Out out acc) (ho' : Sess.Out out' acc) :
    (R.listen_loop5 fuel ar 1000 clk it input (N :: qs) true s.pos s.hist.reverse s.tt out s.hashMb s.frc).map
        (fun t => (t.1, Sess.transcript t.2.2.2.2.2.2.2.1)) =
    (R.listen_loop5 fuel ar 1000 clk it' input' (N :: qs) true (fresh s.hashMb s.frc).pos
        (fresh s.hashMb s.frc).hist.reverse (fresh s.hashMb s.frc).tt out' s.hashMb s.frc).map
        (fun t => (t.1, Sess.transcript t.2.2.2.2.2.2.2.1)) := by
  have hS : LoopHyps fuel ar clk o s (N :: qs) := by
    obtain ⟨G, hI, hM, hS, hok⟩ := h
    exact ⟨G, hI, hM, hS, sessOk_newgame G fuel ar clk o s hs N hN qs hok⟩
  have e1 := loop5_code_model hS it hlen input out acc ho
  have e2 := loop5_code_model h it' hlen' input' out' acc ho'
  rw [e1]
  refine Eq.trans ?_ e2.symm
  rw [secondLoop_eq, secondLoop_eq,
    C16_newgame_steps_eq ar o s (fresh s.hashMb s.frc) hs (fresh_inv _ _) rfl rfl N hN qs]

/-! ## `position` without `ucinewgame` -/

/-- **`C16_position_determines_pos_hist` on the code**: what the regenerated `uci::position::position` returns —
position (with the caller's `pos.is_frc = is_frc`), history, `info string` lines, or a panic — depends on the old
position only through its Chess960 flag, and not on the old history.  Hypothesis added: `hfen` of `agree_position`
(the position `set_fen` accepts lies in `G (number of move tokens)`). -/
theorem C16_code_position_determines_pos_hist (G : Nat → Position → Prop) (hI : ∀ n p, G (n + 1) p → MovesOnBoard p)
    (hM : ∀ n p, G (n + 1) p → G n p)
    (hS : ∀ n p m np, G (n + 1) p → m ∈ legalMoves p → p.makemove m true = some np → G n np)
    (ar : Arith) (n : Nat) (p1 p2 : Position) (h1 h2 : List BB) (f : Bool) (hpf : p1.frc = p2.frc)
    (toks : List (List Char))
    (hfen : ∀ p, setFen ar p1.frc (positionArgs toks).1 = some p → G (positionArgs toks).2.length p) :
    (R.position (n + 2) ar toks p1 h1).map (fun r => (({ r.2.1 with frc := f } : Position), r.2.2.1, r.2.2.2)) =
      (R.position (n + 2) ar toks p2 h2).map (fun r => (({ r.2.1 with frc := f } : Position), r.2.2.1, r.2.2.2)) := by
  let s : UState := ⟨0, f, p1, [], Table.new 0 Gen.ttEntrySize⟩
  let t : UState := ⟨0, f, p2, [], Table.new 0 Gen.ttEntrySize⟩
  have a1 := agree_position G hI hM hS ar n s h1 toks hfen
  have a2 := agree_position G hI hM hS ar n t h2 toks (by show ∀ p, setFen ar p2.frc _ = some p → _; rw [← hpf]; exact hfen)
  have key := C16_position_determines_pos_hist ar s t rfl hpf toks
  rw [← a1, ← a2, Option.map_map, Option.map_map] at key
  have := congrArg (Option.map fun (r : Position × List BB × List String) => (r.1, r.2.1.reverse, r.2.2)) key
  simp only [Option.map_map] at this
  simpa [Function.comp_def, s, t] using this

/-- the side conditions of a `position` line depend on the state only through `pos.is_frc`. -/
theorem stepHyps_position_transport {fuel : Nat} {ar : Arith} {clk : Nat → Nat} {o : Nat → Bool} {s t : UState}
    {L : List Char} (hL : cmdOf L = str "position") (hpf : s.pos.frc = t.pos.frc)
    (h : StepHyps fuel ar clk o s L) : StepHyps fuel ar clk o t L := by
  obtain ⟨G, hI, hM, hS, hok⟩ := h
  refine ⟨G, hI, hM, hS, fun e => ?_, fun e => ?_, fun e => ?_, fun e => ?_⟩
  · have : cmdOf L = str "go" := e
    rw [hL] at this; exact absurd this (by decide)
  · rw [← hpf]; exact hok.2.1 e
  · have : cmdOf L = str "moves" := e
    rw [hL] at this; exact absurd this (by decide)
  · have : cmdOf L = str "print" ∨ cmdOf L = str "display" ∨ cmdOf L = str "board" := e
    rw [hL] at this
    rcases this with h | h | h <;> exact absurd h (by decide)

/-- **`C16_position_line` on the code**: for two states with the invariant and the same `UCI_Chess960` value the
regenerated iteration on a `position` line panics alike and otherwise yields the same position and history and
canonically the same text; table and option values of each state are left alone. -/
theorem C16_code_position_line {fuel : Nat} {ar : Arith} {clk : Nat → Nat} {o : Nat → Bool} (s t : UState)
    (hs : UInv s) (ht : UInv t) (hf : s.frc = t.frc) (L : List Char) (hL : cmdOf L = str "position")
    (hyp : StepHyps fuel ar clk o s L) (x x' : Nat) (ex ex' : Bool) (stdin stdin' : List (List Char))
    (out out' : List Char) :
    (R.listen_loop5_step fuel ar 1000 clk x ex L stdin false s.pos s.hist.reverse s.tt out s.hashMb s.frc = none ↔
      R.listen_loop5_step fuel ar 1000 clk x' ex' L stdin' false t.pos t.hist.reverse t.tt out' t.hashMb t.frc = none) ∧
    ∀ r r',
      R.listen_loop5_step fuel ar 1000 clk x ex L stdin false s.pos s.hist.reverse s.tt out s.hashMb s.frc = some r →
      R.listen_loop5_step fuel ar 1000 clk x' ex' L stdin' false t.pos t.hist.reverse t.tt out' t.hashMb t.frc = some r' →
      (stepState r).pos = (stepState r').pos ∧ (stepState r).hist = (stepState r').hist ∧
      (stepState r).tt = s.tt ∧ (stepState r').tt = t.tt ∧
      (stepState r).hashMb = s.hashMb ∧ (stepState r').hashMb = t.hashMb ∧
      ∃ y y', stepOut r = out ++ y ∧ stepOut r' = out' ++ y' ∧ Sess.transcript y = Sess.transcript y' := by
  have hpf : s.pos.frc = t.pos.frc := by rw [hs.frc, ht.frc, hf]
  have hyp' := stepHyps_position_transport hL hpf hyp
  have key := C16_position_line ar o s t hs ht hf L hL
  refine ⟨?_, fun r r' h h' => ?_⟩
  · rw [step_code_none_iff hyp, step_code_none_iff hyp']
    cases h1 : stepSecond ar o s L <;> cases h2 : stepSecond ar o t L <;> simp [h1, h2] at key ⊢
  · obtain ⟨Ls, hm, y, e, _, hty⟩ := step_code_result hyp x ex stdin out h
    obtain ⟨Lt, hm', y', e', _, hty'⟩ := step_code_result hyp' x' ex' stdin' out' h'
    have k1 := hm
    have k2 := hm'
    rw [stepSecond_position ar o s L hL, Option.map_eq_some_iff] at k1
    rw [stepSecond_position ar o t L hL, Option.map_eq_some_iff] at k2
    obtain ⟨d1, hd1, ed1⟩ := k1
    obtain ⟨d2, hd2, ed2⟩ := k2
    have kp1 := doPosition_keeps hd1
    have kp2 := doPosition_keeps hd2
    simp only [Prod.mk.injEq] at ed1 ed2
    rw [hm, hm'] at key
    simp only [Option.map_some, Option.some.injEq, Prod.mk.injEq] at key
    refine ⟨key.1, key.2.1, ?_, ?_, ?_, ?_, y, y', e, e', by rw [hty, hty', key.2.2.1]⟩
    · rw [← ed1.1]; exact kp1.1
    · rw [← ed2.1]; exact kp2.1
    · rw [← ed1.1]; exact kp1.2.1
    · rw [← ed2.1]; exact kp2.2.1

/-! ## whole processes -/

/-- **`C16_fresh_process` on the code.**  A process (the regenerated `listen`) that was configured by `opts`, answered
`isready`, executed ANY lines `mid` (without quitting or panicking: `hmid`, on the model's state machine, which also
names the state `s2` reached) and then reads `ucinewgame; L; qs`, and a freshly started process configured by `opts'`
to the same option values that reads `ucinewgame; L; qs` at once: there is one `tail` such that the canonical
transcripts are `banner, readyok, o2, tail` and `banner, readyok, tail` — or both processes panic (`tail = none`). -/
theorem C16_code_fresh_process {fuel fuel' : Nat} {ar : Arith} {clk clk' : Nat → Nat} {o : Nat → Bool}
    {version version' : Option (List Char)} (opts opts' mid qs : List (List Char)) (R0 R0' N L : List Char)
    (hyp : ListenHyps fuel ar clk o version (opts ++ R0 :: (mid ++ N :: L :: qs)))
    (hyp' : ListenHyps fuel' ar clk' o version' (opts' ++ R0' :: N :: L :: qs))
    (hopts : ∀ l ∈ opts, cmdOf l = str "setoption") (hopts' : ∀ l ∈ opts', cmdOf l = str "setoption")
    (hR : cmdOf R0 = str "isready") (hR' : cmdOf R0' = str "isready") (hN : cmdOf N = str "ucinewgame")
    (s2 : UState) (o2 : List String) (hmid : steps ar o (started opts) mid = some (s2, o2, false))
    (hsame : (started opts').hashMb = s2.hashMb ∧ (started opts').frc = s2.frc) :
    ∃ tail : Option (List String),
      (R.listen fuel ar 1000 clk version (opts ++ R0 :: (mid ++ N :: L :: qs))).map (fun r => Sess.transcript r.2) =
        tail.map (fun t => banner false 16 ++ ["readyok"] ++ o2 ++ t) ∧
      (R.listen fuel' ar 1000 clk' version' (opts' ++ R0' :: N :: L :: qs)).map (fun r => Sess.transcript r.2) =
        tail.map (fun t => banner false 16 ++ ["readyok"] ++ t) := by
  obtain ⟨tail, h1, h2⟩ := C16_fresh_process ar o opts opts' mid qs R0 R0' N L hopts hopts' hR hR' hN s2 o2 hmid hsame
  exact ⟨tail, by rw [listen_code_model hyp, h1], by rw [listen_code_model hyp', h2]⟩

/-! ## non-vacuity -/
namespace C16CodeEx
open C16Ex

set_option maxRecDepth 4096 in
/-- the dirty state of `Props/C16.lean` (Black to move, odd counters, three history keys, zero-slot table) as loop
variables: the regenerated `ucinewgame` arm leads to the variables of `fresh 0 false` — for every clock. -/
example (clk : Nat → Nat) : ∃ y,
    R.listen_loop5_step 5 .trap 1000 clk 0 false (str "ucinewgame\n") [str "isready"] false
      { Gen.startpos with black := true, halfmoves := 7 } [3#64, 2#64, 1#64] ⟨#[]⟩ (str "readyok\n") 0 false =
    some (ForInStep.yield (false, str "ucinewgame\n", [str "isready"], true, Gen.startpos, [Gen.startpos.hash],
      Table.new 0 Gen.ttEntrySize, str "readyok\n" ++ y, 0, false)) ∧ Sess.transcript y = [] := by
  obtain ⟨y, e, hy⟩ := C16_code_newgame_fresh 5 .trap clk 0 false (str "ucinewgame\n") [str "isready"] dirty dirty_inv
    (str "readyok\n") (by decide)
  exact ⟨y, e, hy⟩

/-- whole processes without `go` / `position` / `moves` (so that `ListenHyps` holds outright): a process that changed
`Hash`, printed the board and the history, and one started with that `Hash` value, from `ucinewgame; eval; history` on. -/
def linesA : List (List Char) :=
  [str "setoption name Hash value 2"] ++ str "isready" :: ([str "print", str "history"] ++
    str "ucinewgame" :: str "eval" :: [str "history", str "quit"])
def linesB : List (List Char) :=
  [str "setoption name Hash value 2"] ++ str "isready" :: str "ucinewgame" :: str "eval" :: [str "history", str "quit"]

theorem nomove_of_cmd {l : List Char} (h : (cmdOf l != str "go" && cmdOf l != str "position" && cmdOf l != str "moves") = true) :
    Sess.NoMoveCmd l := by
  simp only [Bool.and_eq_true, bne_iff_ne, ne_eq] at h
  exact ⟨h.1.1, h.1.2, h.2⟩

theorem linesA_nomoves : ∀ l ∈ linesA, Sess.NoMoveCmd l := by
  intro l hl
  simp only [linesA, List.cons_append, List.nil_append, List.mem_cons, List.not_mem_nil, or_false] at hl
  rcases hl with rfl | rfl | rfl | rfl | rfl | rfl | rfl | rfl <;> exact nomove_of_cmd (by decide)
theorem linesB_nomoves : ∀ l ∈ linesB, Sess.NoMoveCmd l := by
  intro l hl
  simp only [linesB, List.cons_append, List.nil_append, List.mem_cons, List.not_mem_nil, or_false] at hl
  rcases hl with rfl | rfl | rfl | rfl | rfl | rfl <;> exact nomove_of_cmd (by decide)

example (clk clk' : Nat → Nat) : ∃ (o2 : List String) (tail : Option (List String)), o2.length = 17 ∧
    (R.listen 20 .trap 1000 clk none linesA).map (fun r => Sess.transcript r.2) =
      tail.map (fun t => banner false 16 ++ ["readyok"] ++ o2 ++ t) ∧
    (R.listen 30 .trap 1000 clk' (some (str "1.0")) linesB).map (fun r => Sess.transcript r.2) =
      tail.map (fun t => banner false 16 ++ ["readyok"] ++ t) := by
  have h : ((steps .trap (fun _ => false) (started [str "setoption name Hash value 2"]) [str "print", str "history"]).map
      fun r => (r.1.hashMb, r.1.frc, r.2.1.length, r.2.2)) = some (2, false, 17, false) := by decide +kernel
  obtain ⟨⟨s2, o2, q⟩, h1, h2⟩ := Option.map_eq_some_iff.1 h
  simp only [Prod.mk.injEq] at h2
  obtain ⟨a, b, c, rfl⟩ := h2
  have hs : (started [str "setoption name Hash value 2"]).hashMb = 2 ∧
      (started [str "setoption name Hash value 2"]).frc = false := by decide +kernel
  obtain ⟨tail, t1, t2⟩ := C16_code_fresh_process (fuel := 20) (fuel' := 30) (clk := clk) (clk' := clk')
    (version := none) (version' := some (str "1.0"))
    [str "setoption name Hash value 2"] [str "setoption name Hash value 2"] [str "print", str "history"]
    [str "history", str "quit"] (str "isready") (str "isready") (str "ucinewgame") (str "eval")
    (listenHyps_nomoves .trap clk (fun _ => false) (by decide) (by decide) linesA_nomoves)
    (listenHyps_nomoves .trap clk' (fun _ => false) (by decide) (by decide) linesB_nomoves)
    (by decide) (by decide) (by decide) (by decide) (by decide) s2 o2 h1 ⟨hs.1.trans a.symm, hs.2.trans b.symm⟩
  exact ⟨o2, tail, c, t1, t2⟩

end C16CodeEx

end Rawr

#print axioms Rawr.step_code_result
#print axioms Rawr.step_code_none_iff
#print axioms Rawr.C16_code_step_inv
#print axioms Rawr.C16_code_step_determined
#print axioms Rawr.C16_code_newgame_arm
#print axioms Rawr.C16_code_newgame_fresh
#print axioms Rawr.C16_code_newgame_resets
#print axioms Rawr.C16_code_newgame_position_determines_state
#print axioms Rawr.C16_code_later_outputs_equal
#print axioms Rawr.C16_code_position_determines_pos_hist
#print axioms Rawr.C16_code_position_line
#print axioms Rawr.C16_code_fresh_process
