import Rawr.Props.C17
import Rawr.Model.Fen
/-! C17, kernel-evaluated example added with the fourteenth mutant round (k15): how much room the mate band needs. Among the
positions `set_fen` accepts there are boards with far more material than legal play can produce; the position below (42 queens
against a bare king) evaluates to 38 206. So the clause "strictly inside the range reserved for mate scores" is a real
constraint on `MATE_SCORE`: the conventional 16-bit value 32 000 would violate it, the engine's 1 000 000 does not
(`C17_bound_consistent`, for every consistent position). The differential leg reaches such positions in every run
(saturated-material family in `run_C17`, tools/props_core.py). -/
namespace Rawr
namespace C17Ex

/-- `7k/QQQQQQ2/QQQQQ1Q1/QQQQ1QQ1/QQQ1QQQ1/QQ1QQQQ1/Q1QQQQQ1/KQQQQQQ1 w - - 0 1` -/
def q42 : Position :=
  { c0 := 17837855883361663#64, c1 := 9223372036854775808#64,
    p0 := 0#64, p1 := 0#64, p2 := 0#64, p3 := 0#64, p4 := 17837855883361662#64, p5 := 9223372036854775809#64,
    halfmoves := 0, fullmoves := 1, black := false, ep := none,
    usK := false, usQ := false, themK := false, themQ := false,
    cf0 := 7, cf1 := 0, cf2 := 7, cf3 := 0, hash := 15496526200524626983#64, frc := false }

/-- the real parser's model accepts it (both arithmetics), so it is a position "the engine can hold" … -/
theorem q42_is_fen :
    setFen .wrap false "7k/QQQQQQ2/QQQQQ1Q1/QQQQ1QQ1/QQQ1QQQ1/QQ1QQQQ1/Q1QQQQQ1/KQQQQQQ1 w - - 0 1".toList = some q42 ∧
    setFen .trap false "7k/QQQQQQ2/QQQQQ1Q1/QQQQ1QQ1/QQQ1QQQ1/QQ1QQQQ1/Q1QQQQQ1/KQQQQQQ1 w - - 0 1".toList = some q42 := by
  decide +kernel

/-- … structurally valid … -/
theorem q42_valid : ValidPos q42 = true := by decide +kernel

/-- … whose static evaluation is 38 206. -/
theorem q42_eval : eval q42 = 38206 := by decide +kernel

/-- A 16-bit style mate band (32 000 − 128) is too small for the positions the engine accepts … -/
theorem C17_band_32000_too_small : ∃ p, ValidPos p = true ∧ ¬ (eval p < 32000 - 128) :=
  ⟨q42, q42_valid, by rw [q42_eval]; decide⟩

/-- … while the band of the current source holds it, as `C17_bound_consistent` says it must (instantiated, not evaluated). -/
example : -(Gen.MATE_SCORE - Gen.MAX_DEPTH) < eval q42 ∧ eval q42 < Gen.MATE_SCORE - Gen.MAX_DEPTH :=
  C17_bound_consistent q42 (by decide +kernel)

end C17Ex
end Rawr

#print axioms Rawr.C17Ex.C17_band_32000_too_small
