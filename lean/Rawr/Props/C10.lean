import Rawr.Proofs.MagicTableAll
import Rawr.Proofs.MagicReduce
import Rawr.Proofs.Leapers
import Rawr.Proofs.RayFill
import Rawr.Proofs.WalkFuel
/-!
# C10 — slider and leaper attack tables are exact for every square and every occupancy

"For each of the 64 squares and every possible board occupancy, the bishop, rook and queen attack sets
returned by the table lookup equal the sets obtained by walking each ray up to and including the first
occupied square, and the knight, king and pawn attack sets equal board geometry with no wrap-around
at the board edges."

* sliders: `C10_bishop`, `C10_rook`, `C10_queen` (and the membership forms `…_mem`), for all 2^64
  occupancies = reduction lemma (`Proofs/MagicReduce.lean`) + 107 648-row kernel check of the translated
  table artefact (`Proofs/MagicTable_*.lean`, checker and soundness in `Proofs/MagicCheck.lean`);
* `C10_constants_agree`: the magic/offset/shift/length constants of build.rs and magic.rs coincide;
* leapers: `C10_knightMask`, `C10_kingMask`, `C10_knights`, `C10_adjacent`, `C10_pawnsAtt`;
* the eight `rays::ray_*` fills: `C10_rays`.
The coordinate side is `Spec/Walk.lean`.
-/
namespace Rawr
open Spec

/-! ## sliders: table lookup = ray walk, all 64 squares, all 2^64 occupancies -/

/-- The bishop lookup never leaves the table (no panic) and returns the diagonal walk. -/
theorem C10_bishop_get (sq : Nat) (h : sq < 64) (occ : BB) :
    magicGet (bishopIndex sq occ) = some (walkBB diag sq occ).toNat := by
  rw [checkB_sound sq (checkB_all sq h) occ, walkBB_bishopMask sq h]

/-- The rook lookup never leaves the table (no panic) and returns the orthogonal walk. -/
theorem C10_rook_get (sq : Nat) (h : sq < 64) (occ : BB) :
    magicGet (rookIndex sq occ) = some (walkBB orth sq occ).toNat := by
  rw [checkR_sound sq (checkR_all sq h) occ, walkBB_rookMask sq h]

theorem C10_bishop (sq : Nat) (h : sq < 64) (occ : BB) :
    bishopMoves sq occ = walkBB diag sq occ := by
  unfold bishopMoves
  rw [C10_bishop_get sq h occ, Option.getD_some, BitVec.ofNat_toNat, BitVec.setWidth_eq]

theorem C10_rook (sq : Nat) (h : sq < 64) (occ : BB) :
    rookMoves sq occ = walkBB orth sq occ := by
  unfold rookMoves
  rw [C10_rook_get sq h occ, Option.getD_some, BitVec.ofNat_toNat, BitVec.setWidth_eq]

theorem C10_queen (sq : Nat) (h : sq < 64) (occ : BB) :
    queenMoves sq occ = walkBB diag sq occ ||| walkBB orth sq occ := by
  unfold queenMoves
  rw [C10_bishop sq h, C10_rook sq h]

/-- the queen set is the walk in all eight directions. -/
theorem C10_queen' (sq : Nat) (h : sq < 64) (occ : BB) :
    queenMoves sq occ = walkBB (diag ++ orth) sq occ := by
  rw [C10_queen sq h]
  unfold walkBB walkList
  rw [List.flatMap_append, setBB_append]

/-- membership forms: square `t` is in the returned set iff it is reached by one of the walks. -/
theorem C10_bishop_mem (sq : Nat) (h : sq < 64) (occ : BB) (t : Nat) :
    (bishopMoves sq occ).getLsbD t = (decide (t < 64) && walkSet4 diag sq occ.getLsbD t) := by
  rw [C10_bishop sq h, getLsbD_walkBB]

theorem C10_rook_mem (sq : Nat) (h : sq < 64) (occ : BB) (t : Nat) :
    (rookMoves sq occ).getLsbD t = (decide (t < 64) && walkSet4 orth sq occ.getLsbD t) := by
  rw [C10_rook sq h, getLsbD_walkBB]

theorem C10_queen_mem (sq : Nat) (h : sq < 64) (occ : BB) (t : Nat) :
    (queenMoves sq occ).getLsbD t = (decide (t < 64) && walkSet4 (diag ++ orth) sq occ.getLsbD t) := by
  rw [C10_queen' sq h, getLsbD_walkBB]

/-- non-vacuity: a bishop on d4 (27) with blockers on f6 (45) and b2 (9): the walks stop there. -/
example : bishopMoves 27 (bit 45 ||| bit 9) = setBB [36, 45, 34, 41, 48, 20, 13, 6, 18, 9] := by
  rw [C10_bishop 27 (by decide)]; decide
example : walkSet4 orth 0 (bit 3 ||| bit 16).getLsbD 3 = true ∧
    walkSet4 orth 0 (bit 3 ||| bit 16).getLsbD 4 = false := by decide

/-! ## the constants of build.rs (which generates the table) and magic.rs (which indexes it) agree -/

theorem C10_constants_agree :
    Gen.bishopStuffLib = Gen.bishopStuffBuild ∧ Gen.rookStuffLib = Gen.rookStuffBuild ∧
    Gen.bishopShiftLib = Gen.bishopShiftBuild ∧ Gen.rookShiftLib = Gen.rookShiftBuild ∧
    Gen.tableLenBuild = Gen.magicTableLen := by decide

/-! ## leapers: board geometry, no wrap-around -/

/-- `KNIGHT_MASKS[sq]` (= `knight_moves(sq)`) is the set of squares a knight's move away. -/
theorem C10_knightMask (sq : Nat) (h : sq < 64) : knightMask sq = geomBB (knightStep sq) :=
  knightMask_geom ⟨sq, h⟩

/-- `KING_MASKS[sq]` (= `king_moves(sq)`) is the set of squares a king's move away. -/
theorem C10_kingMask (sq : Nat) (h : sq < 64) : kingMask sq = geomBB (kingStep sq) :=
  kingMask_geom ⟨sq, h⟩

theorem C10_knightMask_mem (sq : Nat) (h : sq < 64) (t : Nat) :
    (knightMask sq).getLsbD t = (decide (t < 64) && knightStep sq t) := by
  rw [C10_knightMask sq h, getLsbD_geomBB]

theorem C10_kingMask_mem (sq : Nat) (h : sq < 64) (t : Nat) :
    (kingMask sq).getLsbD t = (decide (t < 64) && kingStep sq t) := by
  rw [C10_kingMask sq h, getLsbD_geomBB]

/-- `rays::knights`, `Bitboard::adjacent`, `rays::pawns::<US>` of a single square. -/
theorem C10_leapers_bit (sq : Nat) (h : sq < 64) :
    knights (bit sq) = geomBB (knightStep sq) ∧ adjacent (bit sq) = geomBB (kingStep sq) ∧
    ∀ us, pawnsAtt us (bit sq) = geomBB (pawnStep us sq) :=
  ⟨knights_bit ⟨sq, h⟩, adjacent_bit ⟨sq, h⟩, fun us => pawnsAtt_bit us ⟨sq, h⟩⟩

/-- `rays::knights` of an arbitrary set: `t` is attacked iff it is a knight's move from a member. -/
theorem C10_knights (b : BB) (t : Nat) :
    (knights b).getLsbD t
      = (decide (t < 64) && (List.range 64).any fun s => b.getLsbD s && knightStep s t) :=
  getLsbD_knights b t

/-- `Bitboard::adjacent` of an arbitrary set. -/
theorem C10_adjacent (b : BB) (t : Nat) :
    (adjacent b).getLsbD t
      = (decide (t < 64) && (List.range 64).any fun s => b.getLsbD s && kingStep s t) :=
  getLsbD_adjacent b t

/-- `rays::pawns::<US>` of an arbitrary set (`us = true`: capturing towards higher ranks). -/
theorem C10_pawnsAtt (us : Bool) (b : BB) (t : Nat) :
    (pawnsAtt us b).getLsbD t
      = (decide (t < 64) && (List.range 64).any fun s => b.getLsbD s && pawnStep us s t) :=
  getLsbD_pawnsAtt us b t

/-- the leaper geometry is the one of `Spec/Chess.lean`. -/
theorem C10_steps_are_spec (b : Board) (w : Bool) (s t : Nat) :
    pieceAttacks b s ⟨w, .knight⟩ t = knightStep s t ∧
    pieceAttacks b s ⟨w, .king⟩ t = kingStep s t ∧
    pieceAttacks b s ⟨w, .pawn⟩ t = pawnStep w s t := ⟨rfl, rfl, rfl⟩

/-- non-vacuity / no wrap-around: a knight on h1 (7) reaches f2 (13) and g3 (22) only; a king on a4. -/
example : knightMask 7 = setBB [13, 22] := by decide
example : adjacent (bit 24) = setBB [16, 17, 25, 32, 33] := by decide
example : pawnsAtt true (bit 8 ||| bit 15) = setBB [17, 22] := by decide

/-! ## the eight unrolled fills of rays.rs are the walks -/

theorem C10_rays (s : Nat) (hs : s < 64) (blockers : BB) :
    rayN s blockers = setBB (walk 0 1 s blockers.getLsbD) ∧
    rayS s blockers = setBB (walk 0 (-1) s blockers.getLsbD) ∧
    rayE s blockers = setBB (walk 1 0 s blockers.getLsbD) ∧
    rayW s blockers = setBB (walk (-1) 0 s blockers.getLsbD) ∧
    rayNE s blockers = setBB (walk 1 1 s blockers.getLsbD) ∧
    rayNW s blockers = setBB (walk (-1) 1 s blockers.getLsbD) ∧
    raySE s blockers = setBB (walk 1 (-1) s blockers.getLsbD) ∧
    raySW s blockers = setBB (walk (-1) (-1) s blockers.getLsbD) :=
  ⟨rayN_eq_walk s hs _, rayS_eq_walk s hs _, rayE_eq_walk s hs _, rayW_eq_walk s hs _,
   rayNE_eq_walk s hs _, rayNW_eq_walk s hs _, raySE_eq_walk s hs _, raySW_eq_walk s hs _⟩

/-- consequence: the fills and the table agree (bishop = union of the four diagonal fills, …). -/
theorem C10_fills_eq_table (s : Nat) (hs : s < 64) (occ : BB) :
    bishopMoves s occ = rayNE s occ ||| (rayNW s occ ||| (raySE s occ ||| (raySW s occ ||| 0#64))) ∧
    rookMoves s occ = rayE s occ ||| (rayW s occ ||| (rayN s occ ||| (rayS s occ ||| 0#64))) := by
  obtain ⟨hN, hS, hE, hW, hNE, hNW, hSE, hSW⟩ := C10_rays s hs occ
  rw [C10_bishop s hs, C10_rook s hs, hN, hS, hE, hW, hNE, hNW, hSE, hSW]
  simp only [walkBB, walkList, diag, orth, List.flatMap_cons, List.flatMap_nil, setBB_append, setBB_nil]
  exact ⟨trivial, trivial⟩

example : rayNE 0 (bit 27) = setBB [9, 18, 27] := by
  rw [(C10_rays 0 (by decide) _).2.2.2.2.1]; decide

/-- `Spec.walk`'s bound of 7 steps is not a truncation. -/
theorem C10_walk_fuel (d : Int × Int) (hd : d ∈ diag ++ orth) (s : Nat) (hs : s < 64)
    (occ : Nat → Bool) (m : Nat) (hm : 7 ≤ m) :
    walkFrom d.1 d.2 occ m (file s) (rank s) = walk d.1 d.2 s occ :=
  walk_fuel d hd s hs occ m hm

#print axioms C10_bishop
#print axioms C10_rook
#print axioms C10_queen
#print axioms C10_queen'
#print axioms C10_bishop_mem
#print axioms C10_rook_mem
#print axioms C10_queen_mem
#print axioms C10_constants_agree
#print axioms C10_knightMask
#print axioms C10_kingMask
#print axioms C10_leapers_bit
#print axioms C10_knights
#print axioms C10_adjacent
#print axioms C10_pawnsAtt
#print axioms C10_rays
#print axioms C10_fills_eq_table
#print axioms C10_walk_fuel

end Rawr
