import Rawr.Proofs.CountLemmas
import Rawr.Generated.StartPos
/-! # C08 : the bulk counter and the capture generator agree with the move generator

(a) `countMoves p = (moveGenerator p).length` for every `Position` (no validity hypothesis).
(b) `legalCaptures p = (legalMoves p).filter p.isCapture` (as lists) whenever the own pawns share no
    square with an own non-pawn piece; without such a hypothesis the statement is false
    (`C08b_unconditional_false`). -/
namespace Rawr

/-! ## (a) -/

/-- C08(a): `count_moves` returns the number of callback invocations of `move_generator`,
for every position value whatsoever. -/
theorem C08a_count_eq_length (p : Position) : countMoves p = (moveGenerator p).length := by
  unfold countMoves moveGenerator
  simp only [List.length_append, length_flatMap_pawnArrive]
  simp only [List.length_map, List.length_flatMap,
    north_promo_board, north_non_board, northEast_promo_board, northEast_non_board,
    northWest_promo_board, northWest_non_board, length_ite_singleton,
    foldl_add_eq_sum, Nat.zero_add, count]
  rcases hep : p.ep with _ | ep
  · simp only [List.length_nil]; omega
  · simp only [List.length_append, length_ite_singleton]; omega

theorem C08a_count_eq_legalMoves_length (p : Position) : countMoves p = (legalMoves p).length := by
  rw [C08a_count_eq_length, legalMoves, List.length_map]

/-! ## (b) -/

/-- the callback's `piece == Pawn` tag agrees with `is_capture`'s `pawns.is_set(mv.src)` test on every
generated move, hence the two capture predicates agree. -/
theorem capture_pred_agree (p : Position) (h : OwnPawnsDisjoint p) (g : GMv) (hg : g ∈ moveGenerator p) :
    (p.c1.isSet g.mv.dst || (g.piece == 0 && p.ep.isSome && p.ep == some g.mv.dst)) = p.isCapture g.mv := by
  unfold Position.isCapture
  rw [src_tag p h g hg]

/-- C08(b), weakest convenient hypothesis: own pawns are disjoint from own non-pawn pieces. -/
theorem C08b_captures_filter_weak (p : Position) (h : OwnPawnsDisjoint p) :
    legalCaptures p = (legalMoves p).filter p.isCapture := by
  have key : (moveGenerator p).filter (fun g =>
        p.c1.isSet g.mv.dst || (g.piece == 0 && p.ep.isSome && p.ep == some g.mv.dst))
      = (moveGenerator p).filter (p.isCapture ∘ fun g => g.mv) :=
    List.filter_congr fun g hg => capture_pred_agree p h g hg
  unfold legalCaptures legalMoves
  rw [List.filter_map, key]

theorem ownPawnsDisjoint_of_pairwise (p : Position)
    (h : p.p0 &&& p.p1 = 0#64 ∧ p.p0 &&& p.p2 = 0#64 ∧ p.p0 &&& p.p3 = 0#64 ∧
         p.p0 &&& p.p4 = 0#64 ∧ p.p0 &&& p.p5 = 0#64) : OwnPawnsDisjoint p := by
  obtain ⟨h1, h2, h3, h4, h5⟩ := h
  unfold OwnPawnsDisjoint
  apply BitVec.eq_of_getLsbD_eq
  intro i _
  have e1 := congrArg (fun x => x.getLsbD i) h1
  have e2 := congrArg (fun x => x.getLsbD i) h2
  have e3 := congrArg (fun x => x.getLsbD i) h3
  have e4 := congrArg (fun x => x.getLsbD i) h4
  have e5 := congrArg (fun x => x.getLsbD i) h5
  simp only [BitVec.getLsbD_and, BitVec.getLsbD_zero] at e1 e2 e3 e4 e5
  simp only [BitVec.getLsbD_and, BitVec.getLsbD_or, BitVec.getLsbD_zero]
  cases h0 : p.p0.getLsbD i <;> simp_all

/-- C08(b): `legal_captures` is `legal_moves` filtered by `is_capture`, in the same order, provided the
pawn board is disjoint from each of the other five piece boards. -/
theorem C08b_captures_filter (p : Position)
    (h : p.p0 &&& p.p1 = 0#64 ∧ p.p0 &&& p.p2 = 0#64 ∧ p.p0 &&& p.p3 = 0#64 ∧
         p.p0 &&& p.p4 = 0#64 ∧ p.p0 &&& p.p5 = 0#64) :
    legalCaptures p = (legalMoves p).filter p.isCapture :=
  C08b_captures_filter_weak p (ownPawnsDisjoint_of_pairwise p h)

/-- corollary (unconditional). -/
theorem C08b_captures_length_le (p : Position) : (legalCaptures p).length ≤ (legalMoves p).length := by
  unfold legalCaptures legalMoves
  simp only [List.length_map]
  exact List.length_filter_le _ _

/-- The disjointness hypothesis cannot be dropped: a knight and a pawn of the side to move on b1,
en-passant square a3.  The knight move b1a3 is tagged `Knight` by the generator (not a capture for
`legal_captures`) but `is_capture` sees a pawn on its source square. -/
def cexB : Position :=
  { Position.dflt with c0 := 0x2#64, p0 := 0x2#64, p1 := 0x2#64, ep := some 16 }

theorem C08b_unconditional_false :
    ¬ (∀ p : Position, legalCaptures p = (legalMoves p).filter p.isCapture) := by
  intro h
  have := h cexB
  revert this
  decide

/-! ## Non-vacuity -/

/-- promotion with captures: white pawn b7, black rooks a8/c8, kings e1/e8. -/
def promoPos : Position :=
  { Position.dflt with
    c0 := 0x0002000000000010#64, c1 := 0x1500000000000000#64, p0 := 0x0002000000000000#64,
    p3 := 0x0500000000000000#64, p5 := 0x1000000000000010#64 }

/-- en passant: white pawn e5, black pawn d5, ep square d6, kings e1/e8. -/
def epPos : Position :=
  { Position.dflt with
    c0 := 0x0000001000000010#64, c1 := 0x1000000800000000#64, p0 := 0x0000001800000000#64,
    p5 := 0x1000000000000010#64, ep := some 43 }

/-- an invalid value: an own pawn on the eighth rank (b8) beside one on b7; (a) still holds. -/
def rank8Pos : Position :=
  { Position.dflt with
    c0 := 0x0202000000000010#64, c1 := 0x1400000000000000#64, p0 := 0x0202000000000000#64,
    p3 := 0x0400000000000000#64, p5 := 0x1000000000000010#64 }

example : countMoves Gen.startpos = 20 ∧ (moveGenerator Gen.startpos).length = 20 := by decide
example : countMoves promoPos = 17 ∧ (moveGenerator promoPos).length = 17 := by decide
example : countMoves epPos = 7 ∧ (moveGenerator epPos).length = 7 := by decide
example : countMoves rank8Pos = 9 ∧ (moveGenerator rank8Pos).length = 9 := by decide

/-- the hypothesis of (b) holds on the start position and on the two test positions. -/
example : Gen.startpos.p0 &&& Gen.startpos.p1 = 0#64 ∧ Gen.startpos.p0 &&& Gen.startpos.p2 = 0#64 ∧
    Gen.startpos.p0 &&& Gen.startpos.p3 = 0#64 ∧ Gen.startpos.p0 &&& Gen.startpos.p4 = 0#64 ∧
    Gen.startpos.p0 &&& Gen.startpos.p5 = 0#64 := by decide
example : promoPos.p0 &&& promoPos.p1 = 0#64 ∧ promoPos.p0 &&& promoPos.p2 = 0#64 ∧
    promoPos.p0 &&& promoPos.p3 = 0#64 ∧ promoPos.p0 &&& promoPos.p4 = 0#64 ∧
    promoPos.p0 &&& promoPos.p5 = 0#64 := by decide
example : OwnPawnsDisjoint epPos := by decide
/-- both sides of (b) are non-trivial: 8 of 17 moves are captures; the en-passant capture is found. -/
example : (legalCaptures promoPos).length = 8 ∧ ((legalMoves promoPos).filter promoPos.isCapture).length = 8 := by
  decide
example : legalCaptures epPos = [⟨36, 43, 6⟩] ∧ (legalMoves epPos).filter epPos.isCapture = [⟨36, 43, 6⟩] := by
  decide
example : legalCaptures Gen.startpos = [] ∧ (legalMoves Gen.startpos).length = 20 := by decide

#print axioms C08a_count_eq_length
#print axioms C08a_count_eq_legalMoves_length
#print axioms C08b_captures_filter_weak
#print axioms C08b_captures_filter
#print axioms C08b_captures_length_le
#print axioms C08b_unconditional_false

end Rawr
