import Rawr.Props.C13
/-! Heavier non-vacuity instances for C13 (kernel evaluation, ≈ 40 s). -/
namespace Rawr
namespace C13Ex

/-- the hypothesis of `negamax_preserves_history` is satisfiable: a depth-2 search (pushes, pops, the
late-move re-search and quiescence all occur) over a non-empty history returns; the conclusion, obtained
through the theorem, is about a non-trivial history. -/
example : ∃ v st', negamax (.depth 2) 3 kpk st0 (-Gen.INF) Gen.INF 0 2 false = some (v, st') ∧
    st'.hist = [5#64, 7#64] ∧ st'.tt.len = 3 := by
  obtain ⟨v, st', h⟩ : ∃ v st', negamax (.depth 2) 3 kpk st0 (-Gen.INF) Gen.INF 0 2 false = some (v, st') :=
    exists_of_isSome (by decide +kernel)
  exact ⟨v, st', h, negamax_preserves_history _ _ _ _ _ _ _ _ _ _ _ h, negamax_preserves_tt_len _ _ _ _ _ _ _ _ _ _ _ h⟩

end C13Ex
end Rawr
