import Rawr.Props.C03
import Rawr.Props.C01
import Rawr.Props.C02
import Rawr.Props.C08
import Rawr.Proofs.BridgeSearch
import Rawr.Proofs.BridgePerft
/-! # C03 in terms of the rules of chess

"A search always answers with a legal move when one exists" — *legal by the rules* (`Spec.legalMoves`), and
with the evaluation hypotheses of `C03_root_returns_legal` discharged on the domain `V ∧ E`:

* `C03_root_returns_legal_rules`: the conclusion of `C03_root_returns_legal` restated with
  `Spec.legalMoves (abs p)` through C01 (same hypotheses plus `ValidPos p`, `EpConsistent (abs p)`).
* `searchDomC_VE`: the family `VE n q` = "`q ∈ V ∧ E` with room for `n + 64` more plies in the counters" is a
  search domain (`SearchDomC`, `Proofs/BridgeSearch.lean`): closed under generated moves (C02 + E-closure),
  under the null move **when not in check** (C02; `in_check` of the engine is check by the rules,
  `inCheck_eq_spec`), evaluation within `±EB` by C17 (`Consistent`), quiescence within `±EB` because the
  positions quiescence visits (made with `makemove::<false>`, stale key) satisfy `ValidPosNoHash ∧ E`.
* `C03_rules`: for every `p ∈ V ∧ E`, every limit, history and bounded table, and `fuel ≤ 11 000 000`
  (counters with room for `fuel + 64` plies): a returned result carries a move that is legal by the rules
  iff there is one, and `Err("No bestmove")` otherwise; the table handed back is bounded again.
* `C03_full_partial`: `C03_full` of `Props/C03.lean` with these two extra hypotheses.

What is missing for `C03_full` itself: the bound `fuel ≤ INF + MATE_SCORE` (see `C03_root_returns_legal_full`
in `Props/C03.lean`: a mated node answers `-MATE_SCORE + ply`, which stays above `-INF` only while
`ply < INF + MATE_SCORE`; nothing in the model bounds the recursion depth but the fuel) and the counter room
(`halfmoves`/`fullmoves` are `i32` in the engine; V bounds them by `2^31`, a search `fuel` plies deep adds up
to `fuel + 64`). -/
namespace Rawr
open Position Spec ZH MM SV Br Att

/-! ## (A) the generator's moves are the rules' moves -/

theorem C03_root_returns_legal_rules (lim : Limit) (G : Nat → Position → Prop) (hG : SearchDom G)
    (fuel : Nat) (p : Position) (hist : List BB) (tt : Table TTEntry) (res : RootResult)
    (hV : ValidPos p = true) (hE : Spec.EpConsistent (abs p) = true)
    (hGp : G fuel p) (htt : TTBounded tt) (hf : (fuel : Int) ≤ Gen.INF + Gen.MATE_SCORE)
    (h : root lim fuel p hist tt = some res) :
    (Spec.legalMoves (abs p) ≠ [] →
      ∃ m, res.best = some m ∧ decodeMove p m ∈ Spec.legalMoves (abs p) ∧ encodeMove p (decodeMove p m) = m) ∧
    (Spec.legalMoves (abs p) = [] → res.best = none) := by
  obtain ⟨h1, h2⟩ := C03_root_returns_legal lim G hG fuel p hist tt res hGp htt hf h
  constructor
  · intro hne
    obtain ⟨m, hm, e⟩ := h1 (fun hnil => hne ((C01_no_moves p hV hE).mp hnil))
    obtain ⟨s1, s2⟩ := C01_sound p hV hE m hm
    exact ⟨m, e, s1, s2⟩
  · intro hnil
    exact h2 ((C01_no_moves p hV hE).mpr hnil)

/-! ## (B) the search domain `V ∧ E` -/

/-- the engine's `in_check` is "the side to move is in check" by the rules. -/
theorem inCheck_eq_spec {p : Position} (hV : ValidPos p = true) :
    p.inCheck = Spec.inCheck (abs p).board (abs p).whiteToMove := by
  have hk0 := valid_kings hV false
  have hk1 := valid_kings hV true
  simp only [Position.side, Bool.false_eq_true, if_false, if_true] at hk0 hk1
  rw [inCheck_rel (valid_consistent hV) hk0 (Nat.le_of_eq hk1)]
  exact (inCheck_abs p false).symm

theorem captures_sub_moves (q : Position) (m : Mv) (hm : m ∈ legalCaptures q) : m ∈ legalMoves q := by
  unfold legalCaptures at hm
  unfold legalMoves
  rw [List.mem_map] at hm ⊢
  obtain ⟨g, hg, e⟩ := hm
  exact ⟨g, (List.mem_filter.mp hg).1, e⟩

theorem eval_VIn_of_consistent (q : Position) (hc : Consistent q = true) : VIn (eval q) :=
  (C17_bounds_all_V1 q (PieceDisj_of_Consistent hc) (OnMen_of_Consistent hc)
    (colours_disjoint_of_Consistent hc)).2.2.2.2.2

/-- the positions quiescence visits: valid up to the stored key, E, room for `n` plies in the counters. -/
def QVE (n : Nat) (q : Position) : Prop :=
  ValidPosNoHash q = true ∧ Spec.EpConsistent (abs q) = true ∧
  q.halfmoves + n < 2147483648 ∧ q.fullmoves + n < 2147483648

theorem qdom_QVE : QDom QVE := by
  constructor
  · intro n q ⟨hV, _⟩
    have hV' := (validPosNoHash_iff q).mp hV
    exact eval_VIn_of_consistent q (valid_unpack hV').1
  · intro n q m q' ⟨hV, hE, hh, hf⟩ hm hmk
    obtain ⟨_, q2, hq2, hV2, _, hE2, b1, b2⟩ :=
      step_nohash hV hE (captures_sub_moves q m hm) (by omega) (by omega)
    rw [hmk] at hq2
    cases hq2
    exact ⟨hV2, hE2, by omega, by omega⟩

/-- the positions the main search visits: `V ∧ E`, room for `n + 64` plies in the counters. -/
def VE (n : Nat) (q : Position) : Prop :=
  ValidPos q = true ∧ Spec.EpConsistent (abs q) = true ∧
  q.halfmoves + n + 64 < 2147483648 ∧ q.fullmoves + n + 64 < 2147483648

/-- **`V ∧ E` is a search domain**: the hypotheses `SearchDom G`, `G fuel p` of C03 (null-move clause as the
search uses it) hold for `G = VE`. -/
theorem searchDomC_VE : SearchDomC VE := by
  constructor
  · intro n q m q' ⟨hV, hE, hh, hf⟩ hm hmk
    have hs := gen_moveShape q hV m hm
    have hL := (C01_sound q hV hE m hm).1
    obtain ⟨_, b1, _, b2⟩ := C02_counters q m q' true hV hs hL hmk
    refine ⟨C02_valid_preserved q m q' hV hs hL hmk (by omega) (by omega), ?_, by omega, by omega⟩
    rw [C02_makemove_eq q m q' true hV hs hL hmk]
    exact epConsistent_apply (valid_unpack hV).2.1 hL
  · intro n q ⟨hV, _, hh, hf⟩ hnc
    rw [inCheck_eq_spec hV] at hnc
    obtain ⟨hVq, b1, b2⟩ := validPos_null hV hnc
    have h0 : 0 ≤ q.halfmoves := ((valid_iff _).mp (valid_unpack hV).2.1).half
    refine ⟨hVq, ?_, by rw [b1]; omega, by rw [b2]; omega⟩
    rw [abs_makenull hV]
    rfl
  · intro n q ⟨hV, hE, hh, hf⟩
    refine ⟨eval_VIn_of_consistent q (valid_unpack hV).1, fun st a b ply v st' hr => ?_⟩
    have hq : QVE qFuel q := ⟨validPosNoHash_of_valid hV, hE, by
      have : qFuel = 64 := rfl
      omega, by
      have : qFuel = 64 := rfl
      omega⟩
    exact qsearch_range QVE qdom_QVE qFuel q st a b ply v st' hq hr

/-! ## (C) the property -/

/-- **C03 against the rules of chess**, hypotheses on evaluation and quiescence discharged. -/
theorem C03_rules (lim : Limit) (fuel : Nat) (p : Position) (hist : List BB) (tt : Table TTEntry)
    (res : RootResult) (hV : ValidPos p = true) (hE : Spec.EpConsistent (abs p) = true)
    (htt : TTBounded tt) (hf : (fuel : Int) ≤ Gen.INF + Gen.MATE_SCORE)
    (hh : p.halfmoves + fuel + 64 < 2147483648) (hfm : p.fullmoves + fuel + 64 < 2147483648)
    (h : root lim fuel p hist tt = some res) :
    (Spec.legalMoves (abs p) ≠ [] →
      ∃ m, res.best = some m ∧ decodeMove p m ∈ Spec.legalMoves (abs p) ∧ encodeMove p (decodeMove p m) = m) ∧
    (Spec.legalMoves (abs p) = [] → res.best = none) ∧
    TTBounded res.tt := by
  have hGp : VE fuel p := ⟨hV, hE, hh, hfm⟩
  obtain ⟨h1, h2⟩ := rootIter_bestC lim VE searchDomC_VE Gen.INF MATE_le_INF (Int.le_refl _) fuel p hGp hf
    _ _ _ _ _ _ (by exact htt) (Or.inl ⟨rfl, by decide, rfl, rfl⟩) h
  have h3 : TTBounded res.tt := rootIter_ttC lim VE searchDomC_VE Gen.INF MATE_le_INF (Int.le_refl _) fuel p
    hGp hf _ _ _ _ _ _ (by exact htt) (Int.le_refl 1) h
  refine ⟨?_, ?_, h3⟩
  · intro hne
    obtain ⟨m, hm, e⟩ := h1 (fun hnil => hne ((C01_no_moves p hV hE).mp hnil))
    obtain ⟨s1, s2⟩ := C01_sound p hV hE m hm
    exact ⟨m, e, s1, s2⟩
  · intro hnil
    exact h2 ((C01_no_moves p hV hE).mpr hnil)

/-- `C03_full` (`Props/C03.lean`) with the recursion-depth bound and the counter room. -/
theorem C03_full_partial (lim : Limit) (fuel : Nat) (p : Position) (hist : List BB) (tt : Table TTEntry)
    (res : RootResult) (hD : InD p = true) (htt : TTBounded tt)
    (hf : (fuel : Int) ≤ Gen.INF + Gen.MATE_SCORE)
    (hh : p.halfmoves + fuel + 64 < 2147483648) (hfm : p.fullmoves + fuel + 64 < 2147483648)
    (h : root lim fuel p hist tt = some res) :
    (Spec.legalMoves (abs p) ≠ [] →
      ∃ m ∈ Spec.legalMoves (abs p), res.best = some (encodeMove p m)) ∧
    (Spec.legalMoves (abs p) = [] → res.best = none) := by
  simp only [InD, Bool.and_eq_true] at hD
  obtain ⟨h1, h2, _⟩ := C03_rules lim fuel p hist tt res hD.1.1 hD.1.2 htt hf hh hfm h
  refine ⟨fun hne => ?_, h2⟩
  obtain ⟨m, e, hL, henc⟩ := h1 hne
  exact ⟨decodeMove p m, hL, by rw [henc]; exact e⟩

/-- the fuel the engine can possibly use is far below the bound: for counters below 2 136 000 000 every
`fuel ≤ 11 000 000` is covered. -/
theorem C03_rules_room (p : Position) (fuel : Nat) (hf : (fuel : Int) ≤ Gen.INF + Gen.MATE_SCORE)
    (hh : p.halfmoves < 2136000000) : p.halfmoves + fuel + 64 < 2147483648 := by
  have : Gen.INF + Gen.MATE_SCORE = 11000000 := by decide
  omega

/-! ## non-vacuity -/
namespace C03RulesEx
open C13Ex

/-- K+P v K of C13 with the key recomputed. -/
def kpkV : Position := fixHash kpk

theorem kpkV_valid : ValidPos kpkV = true := by decide +kernel
theorem kpkV_E : Spec.EpConsistent (abs kpkV) = true := by decide +kernel

/-- the hypotheses of `C03_rules` hold for K+P v K (clock already expired at the first poll, non-empty
history); through the theorem: the move handed back is legal by the rules of chess. -/
example : ∃ res m, root (.clock fun _ => true) 2 kpkV hist2 tt3 = some res ∧ res.best = some m ∧
    decodeMove kpkV m ∈ Spec.legalMoves (abs kpkV) := by
  have h : (root (.clock fun _ => true) 2 kpkV hist2 tt3).isSome = true := by decide +kernel
  obtain ⟨res, h1⟩ := Option.isSome_iff_exists.1 h
  obtain ⟨m, e, hL, _⟩ := (C03_rules _ 2 kpkV hist2 tt3 res kpkV_valid kpkV_E (TTIn.replicate (by decide) 3)
    (by decide) (by decide +kernel) (by decide +kernel) h1).1 (by decide +kernel)
  exact ⟨res, m, h1, e, hL⟩

/-- `VE` holds of the start position for the largest fuel allowed. -/
example : VE 11000000 Gen.startpos := ⟨by decide +kernel, by decide +kernel, by decide +kernel, by decide +kernel⟩

end C03RulesEx

#print axioms C03_root_returns_legal_rules
#print axioms inCheck_eq_spec
#print axioms searchDomC_VE
#print axioms C03_rules
#print axioms C03_full_partial

end Rawr
