import Rawr.Proofs.GenPawns2
/-!
# C01, pawn classes: pushes, double pushes, captures, promotions (and, with E, en passant)

`moveGenerator p` tags pawn moves with piece 0. For a position of the domain:

* `C01_pawns` (needs `V ∧ E`): `gm 0 f t pr` is generated iff an own pawn stands on `f`, `pr` is one of the
  promotion fields 6 (none), 1, 2, 3, 4 (N, B, R, Q) and the decoded move
  `Move.normal (absSq f) (absSq t) (promoOf pr)` is in `Spec.legalMoves (abs p)` — for every kind of pawn
  move, en passant included.
* `C01_pawns_noep` (needs `V` only): the same for every target other than the en-passant square: single
  pushes, double pushes, captures towards either side, promotions.
* readable special cases: `C01_single_push`, `C01_double_push`, `C01_pawn_capture`, `C01_promotions`
  (each of the four promotion pieces is generated iff the corresponding promotion is legal) and
  `C01_promotion_order` (queen, rook, bishop, knight, in this order, exactly once each).
* the pin conditions (`Proofs/GenPawns.lean`): `pinOk_push` — a push (one or two squares) respects the
  pins iff the pawn is not in `hpinned | bpinned` (a pawn pinned on its file may push: it stays on the
  file); `pinOk_cap` — a capture respects the pins iff the pawn is not in `rpinned` and, when in
  `bpinned`, the target is in `bxrays` (it captures along its pin line). Both rest on the safety lemma
  `safe_after_move_rel` (`Proofs/GenSafety.lean`) through `legal_pawn_iff`.
-/
namespace Rawr
open Spec Att

/-- C01, all pawn moves (domain `V ∧ E`). -/
theorem C01_pawns (p : Position) (hV : ValidPos p = true) (hE : Spec.EpConsistent (abs p) = true)
    (f t pr : Nat) :
    gm 0 f t pr ∈ moveGenerator p ↔
      (relBoard p f = some ⟨true, .pawn⟩ ∧ t < 64 ∧ PrOk pr ∧
        Move.normal (absSq p.black f) (absSq p.black t) (promoOf pr) ∈ Spec.legalMoves (abs p)) :=
  pawns_core hV hE f t pr

/-- C01, pawn moves not onto the en-passant square (domain `V`). -/
theorem C01_pawns_noep (p : Position) (hV : ValidPos p = true) (f t pr : Nat) (hne : p.ep ≠ some t) :
    gm 0 f t pr ∈ moveGenerator p ↔
      (relBoard p f = some ⟨true, .pawn⟩ ∧ t < 64 ∧ PrOk pr ∧
        Move.normal (absSq p.black f) (absSq p.black t) (promoOf pr) ∈ Spec.legalMoves (abs p)) :=
  pawns_core_noep hV f t pr hne

/-- the en-passant square is on the mover's sixth rank. -/
theorem ep_rank (p : Position) (hV : ValidPos p = true) {t : Nat} (h : p.ep = some t) : t / 8 = 5 :=
  (Att.ep_facts hV h).2.1

/-- a legal single push without promotion. -/
theorem C01_single_push (p : Position) (hV : ValidPos p = true) (f : Nat) (hne : p.ep ≠ some (f + 8)) :
    gm 0 f (f + 8) 6 ∈ moveGenerator p ↔
      (relBoard p f = some ⟨true, .pawn⟩ ∧ f + 8 < 64 ∧
        Move.normal (absSq p.black f) (absSq p.black (f + 8)) none ∈ Spec.legalMoves (abs p)) := by
  rw [C01_pawns_noep p hV f (f + 8) 6 hne]
  exact ⟨fun h => ⟨h.1, h.2.1, h.2.2.2⟩, fun h => ⟨h.1, h.2.1, Or.inl rfl, h.2.2⟩⟩

/-- a legal double push. -/
theorem C01_double_push (p : Position) (hV : ValidPos p = true) (f : Nat) :
    gm 0 f (f + 16) 6 ∈ moveGenerator p ↔
      (relBoard p f = some ⟨true, .pawn⟩ ∧ f + 16 < 64 ∧
        Move.normal (absSq p.black f) (absSq p.black (f + 16)) none ∈ Spec.legalMoves (abs p)) := by
  by_cases hne : p.ep = some (f + 16)
  · -- the en-passant square is empty and behind an enemy pawn: neither side holds
    have h5 := ep_rank p hV hne
    obtain ⟨_, _, _, hBP, _, _⟩ := Att.ep_facts hV hne
    constructor
    · intro hg
      exfalso
      rcases (mem_gen_pawn p f (f + 16) 6).mp hg with ⟨_, hf, _⟩ | ⟨h1, _, _⟩ | ⟨_, hf, _⟩ | ⟨_, hf, _⟩ |
        ⟨_, _, ⟨hf, _⟩ | ⟨hf, _⟩⟩
      · omega
      · obtain ⟨ht, hm⟩ := (Att.mem_toList _ _).mp h1
        have := ((dblSet_mem hV ht).mp hm).1
        omega
      · omega
      · omega
      · omega
      · omega
    · rintro ⟨hB, h64, hleg⟩
      exfalso
      have hf : f < 64 := by omega
      have hps := ((mem_legal_normal _ _ _ _).mp hleg).1.2
      rw [pseudo_pawn_rel p hf hB] at hps
      obtain ⟨t', _, hte, hpp⟩ := hps
      have : t' = f + 16 := (absSq_inj _ hte).symm
      subst this
      rcases hpp with ⟨h1, _⟩ | ⟨h1, _⟩ | ⟨h1 | h1, _⟩ <;> omega
  · rw [C01_pawns_noep p hV f (f + 16) 6 hne]
    exact ⟨fun h => ⟨h.1, h.2.1, h.2.2.2⟩, fun h => ⟨h.1, h.2.1, Or.inl rfl, h.2.2⟩⟩

/-- a legal capture without promotion (`t = f + 9` towards the h-file, `t = f + 7` towards the a-file; any
other `t` makes both sides false). -/
theorem C01_pawn_capture (p : Position) (hV : ValidPos p = true) (f t : Nat) (hen : p.c1.isSet t = true) :
    gm 0 f t 6 ∈ moveGenerator p ↔
      (relBoard p f = some ⟨true, .pawn⟩ ∧
        Move.normal (absSq p.black f) (absSq p.black t) none ∈ Spec.legalMoves (abs p)) := by
  have ht : t < 64 := BitVec.lt_of_getLsbD hen
  have hne : p.ep ≠ some t := by
    intro h
    have hC := valid_consistent hV
    obtain ⟨_, _, hBe, _, _, _⟩ := Att.ep_facts hV h
    obtain ⟨q, hq, _⟩ := (enemy_iff hC ht).mp hen
    rw [hBe] at hq; cases hq
  rw [C01_pawns_noep p hV f t 6 hne]
  exact ⟨fun h => ⟨h.1, h.2.2.2⟩, fun h => ⟨h.1, ht, Or.inl rfl, h.2⟩⟩

/-- promotions: on a last-rank target each of the four promotion fields is generated iff the promotion to
that piece is legal. -/
theorem C01_promotions (p : Position) (hV : ValidPos p = true) (f t : Nat) (h7 : t / 8 = 7) :
    (gm 0 f t 4 ∈ moveGenerator p ↔ (relBoard p f = some ⟨true, .pawn⟩ ∧
      Move.normal (absSq p.black f) (absSq p.black t) (some .queen) ∈ Spec.legalMoves (abs p))) ∧
    (gm 0 f t 3 ∈ moveGenerator p ↔ (relBoard p f = some ⟨true, .pawn⟩ ∧
      Move.normal (absSq p.black f) (absSq p.black t) (some .rook) ∈ Spec.legalMoves (abs p))) ∧
    (gm 0 f t 2 ∈ moveGenerator p ↔ (relBoard p f = some ⟨true, .pawn⟩ ∧
      Move.normal (absSq p.black f) (absSq p.black t) (some .bishop) ∈ Spec.legalMoves (abs p))) ∧
    (gm 0 f t 1 ∈ moveGenerator p ↔ (relBoard p f = some ⟨true, .pawn⟩ ∧
      Move.normal (absSq p.black f) (absSq p.black t) (some .knight) ∈ Spec.legalMoves (abs p))) := by
  have ht : t < 64 := by omega
  have hne : p.ep ≠ some t := fun h => by have := ep_rank p hV h; omega
  refine ⟨?_, ?_, ?_, ?_⟩
  · rw [C01_pawns_noep p hV f t 4 hne]
    exact ⟨fun h => ⟨h.1, h.2.2.2⟩, fun h => ⟨h.1, ht, Or.inr (Or.inr (Or.inr (Or.inr rfl))), h.2⟩⟩
  · rw [C01_pawns_noep p hV f t 3 hne]
    exact ⟨fun h => ⟨h.1, h.2.2.2⟩, fun h => ⟨h.1, ht, Or.inr (Or.inr (Or.inr (Or.inl rfl))), h.2⟩⟩
  · rw [C01_pawns_noep p hV f t 2 hne]
    exact ⟨fun h => ⟨h.1, h.2.2.2⟩, fun h => ⟨h.1, ht, Or.inr (Or.inr (Or.inl rfl)), h.2⟩⟩
  · rw [C01_pawns_noep p hV f t 1 hne]
    exact ⟨fun h => ⟨h.1, h.2.2.2⟩, fun h => ⟨h.1, ht, Or.inr (Or.inl rfl), h.2⟩⟩

/-- a pawn arriving on the last rank yields queen, rook, bishop, knight in this order, once each; any other
arrival yields the plain move once. -/
theorem C01_promotion_order (d t : Nat) :
    (rankOf t = 7 → pawnArrive d t = [gm 0 (t - d) t 4, gm 0 (t - d) t 3, gm 0 (t - d) t 2, gm 0 (t - d) t 1]) ∧
    (rankOf t ≠ 7 → pawnArrive d t = [gm 0 (t - d) t 6]) := by
  unfold pawnArrive
  constructor
  · intro h; simp [h]
  · intro h; simp [h]

/-! ## non-vacuity -/

/-- White: Ke1 (4), pawns a2 (8), e2 (12, pinned on the e-file by Re8: it may push), g7 (54, promotes on
g8 or captures h8); Black: Ka8 (56), Re8 (60), Nh8 (63). -/
def pawnPos : Position :=
  let q : Position :=
    { Position.dflt with
      c0 := (bit 4 ||| bit 8 ||| bit 12 ||| bit 54), c1 := (bit 56 ||| bit 60 ||| bit 63),
      p0 := (bit 8 ||| bit 12 ||| bit 54), p1 := bit 63, p3 := bit 60, p5 := (bit 4 ||| bit 56) }
  { q with hash := q.calculateHash }

example : ValidPos pawnPos = true ∧ Spec.EpConsistent (abs pawnPos) = true := by decide +kernel
example : (prelude pawnPos).vpinned.isSet 12 = true ∧
    gm 0 12 20 6 ∈ moveGenerator pawnPos ∧ gm 0 12 28 6 ∈ moveGenerator pawnPos ∧
    gm 0 8 24 6 ∈ moveGenerator pawnPos ∧
    gm 0 54 62 4 ∈ moveGenerator pawnPos ∧ gm 0 54 62 1 ∈ moveGenerator pawnPos ∧
    gm 0 54 63 3 ∈ moveGenerator pawnPos := by decide +kernel
example : Spec.Move.normal 12 28 none ∈ Spec.legalMoves (abs pawnPos) :=
  ((C01_double_push pawnPos (by decide +kernel) 12).mp (by decide +kernel)).2.2
example : Spec.Move.normal 54 63 (some .rook) ∈ Spec.legalMoves (abs pawnPos) :=
  (((C01_promotions pawnPos (by decide +kernel) 54 63 (by decide)).2.1).mp (by decide +kernel)).2

#print axioms C01_pawns
#print axioms C01_pawns_noep
#print axioms C01_single_push
#print axioms C01_double_push
#print axioms C01_pawn_capture
#print axioms C01_promotions
#print axioms C01_promotion_order

end Rawr
