import Rawr.Props.C08
import Rawr.Props.C08c
import Rawr.Props.C08d
import Rawr.Proofs.RustImpAgree_MakeMove
import Rawr.Proofs.RustImpAgree_MoveGen
import Rawr.Proofs.RustSearchAgree
import Rawr.Proofs.RustSearchAgree_Perft
import Rawr.Proofs.RustTextAgree_Go
/-!
# C08 on the regenerated code: `R.count_moves`, `R.legal_captures`, `R.perft`, the attack queries

Regenerated from the Rust source on every run: `R.count_moves` (count_moves.rs), `R.move_generator`, `R.legal_moves`,
`R.legal_captures`, `R.is_capture`, `R.makemove`, the attack queries of attacks.rs (`R.is_sq_attacked`,
`R.is_bb_attacked`, `R.get_attacked`, `R.in_check`, `R.in_check_them`, `R.is_safe`), and `perft` TWICE: `R.perft`
(search-side translator) and `R.pos_perft` (text-side translator, with the `u8` arithmetic of `depth - 1`).
All agreement theorems are function equalities without domain hypothesis, except the two perft agreements, which have
the translation's recursion fuel: `d < fuel → R.perft fuel p d = perft d p` — so the `_code` perft theorems carry
`d < fuel` and nothing else; everything else is an exact transfer.
-/
namespace Rawr
open Position Spec ZH MM SV Br Att

/-! ## (a), (b) -/

/-- **C08(a) on the code**: the regenerated `count_moves` returns the number of callback invocations of the
regenerated `move_generator`, for every position value whatsoever. -/
theorem C08_code_a_count_eq_length (p : Position) : R.count_moves p = (R.move_generator p).length := by
  rw [agree_count_moves, agree_move_generator]; exact C08a_count_eq_length p

theorem C08_code_a_count_eq_legal_moves_length (p : Position) : R.count_moves p = (R.legal_moves p).length := by
  rw [agree_count_moves, agree_legal_moves]; exact C08a_count_eq_legalMoves_length p

/-- **C08(b) on the code**: the regenerated capture generator returns the regenerated `legal_moves` filtered by the
regenerated `is_capture`, as lists, when own pawns share no square with an own non-pawn piece. -/
theorem C08_code_b_captures_filter (p : Position)
    (h : p.p0 &&& p.p1 = 0#64 ∧ p.p0 &&& p.p2 = 0#64 ∧ p.p0 &&& p.p3 = 0#64 ∧
         p.p0 &&& p.p4 = 0#64 ∧ p.p0 &&& p.p5 = 0#64) :
    R.legal_captures p = (R.legal_moves p).filter (R.is_capture p) := by
  rw [agree_legal_captures, agree_legal_moves, agree_is_capture]; exact C08b_captures_filter p h

theorem C08_code_b_captures_length_le (p : Position) : (R.legal_captures p).length ≤ (R.legal_moves p).length := by
  rw [agree_legal_captures, agree_legal_moves]; exact C08b_captures_length_le p

/-- the disjointness hypothesis cannot be dropped, on the code either. -/
theorem C08_code_b_unconditional_false :
    ¬ (∀ p : Position, R.legal_captures p = (R.legal_moves p).filter (R.is_capture p)) := by
  rw [agree_legal_captures, agree_legal_moves, agree_is_capture]; exact C08b_unconditional_false

/-! ## (c) perft = the number of legal move sequences -/

/-- **C08(c) on the code**: on the domain `V ∧ E` the regenerated `perft` (search-side translation), given recursion
fuel above the depth, returns the number `Spec.leaves (abs p) d` of move sequences of length `d` that are legal by
the rules — in particular it does not panic. -/
theorem C08_code_c_perft (fuel d : Nat) (hfuel : d < fuel) (p : Position) (hV : ValidPos p = true)
    (hE : Spec.EpConsistent (abs p) = true)
    (hh : p.halfmoves + d < 2147483648) (hf : p.fullmoves + d < 2147483648) :
    R.perft fuel p d = some (Spec.leaves (abs p) d) := by
  rw [agree_perft fuel d p hfuel]; exact C08c_perft d p hV hE hh hf

/-- the same for the text-side translation of chess/perft.rs (either `u8` arithmetic for `depth - 1`). -/
theorem C08_code_c_pos_perft (ar : Arith) (fuel d : Nat) (hfuel : d < fuel) (p : Position) (hV : ValidPos p = true)
    (hE : Spec.EpConsistent (abs p) = true)
    (hh : p.halfmoves + d < 2147483648) (hf : p.fullmoves + d < 2147483648) :
    R.pos_perft fuel ar p d = some (Spec.leaves (abs p) d) := by
  rw [agree_pos_perft ar fuel d p hfuel]; exact C08c_perft d p hV hE hh hf

/-- `go split`: below every move the code generates, `makemove::<false>` succeeds and `perft` reports the leaf count
below the move prescribed by the rules. -/
theorem C08_code_c_split (fuel d : Nat) (hfuel : d < fuel) (p : Position) (m : Mv) (hV : ValidPos p = true)
    (hE : Spec.EpConsistent (abs p) = true) (hm : m ∈ R.legal_moves p)
    (hh : p.halfmoves + (d + 1) < 2147483648) (hf : p.fullmoves + (d + 1) < 2147483648) :
    ∃ np, R.makemove p m false = some np ∧
      R.perft fuel np d = some (Spec.leaves (Spec.apply (abs p) (decodeMove p m)) d) := by
  rw [agree_legal_moves] at hm
  obtain ⟨np, h1, h2⟩ := C08c_split d p m hV hE hm hh hf
  exact ⟨np, by rw [agree_makemove]; exact h1, by rw [agree_perft fuel d np hfuel]; exact h2⟩

/-- the regenerated `is_capture` is "capture" by the rules on the moves the code generates. -/
theorem C08_code_c_isCapture (p : Position) (hV : ValidPos p = true) (m : Mv) (hm : m ∈ R.legal_moves p) :
    R.is_capture p m = Spec.isCaptureMove (abs p) (decodeMove p m) := by
  rw [agree_legal_moves] at hm; rw [agree_is_capture]; exact C08c_isCapture p hV m hm

/-- the regenerated capture generator yields exactly the generated moves that capture by the rules. -/
theorem C08_code_c_captures (p : Position) (hV : ValidPos p = true) :
    R.legal_captures p = (R.legal_moves p).filter fun m => Spec.isCaptureMove (abs p) (decodeMove p m) := by
  rw [agree_legal_captures, agree_legal_moves]; exact C08c_captures p hV

/-! ## (d) the attack queries are `Spec.attackedBy` -/

theorem C08_code_d_isSqAttacked (p : Position) (hC : Consistent p = true) (sq : Nat) (hsq : sq < 64)
    (them : Bool) (hk : count (R.get_kings p &&& R.get_side p them) ≤ 1) :
    R.is_sq_attacked p sq them
      = Spec.attackedBy (abs p).board (sideWhite p them) (absSq (R.get_turn p) sq) := by
  rw [agree_get_kings, agree_get_side] at hk
  rw [agree_is_sq_attacked, agree_get_turn]; exact C08d_isSqAttacked p hC sq hsq them hk

theorem C08_code_d_isBbAttacked (p : Position) (hC : Consistent p = true) (bb : BB) (them : Bool) :
    R.is_bb_attacked p bb them
      = (toList bb).any (fun s => Spec.attackedBy (abs p).board (sideWhite p them) (absSq (R.get_turn p) s)) := by
  rw [agree_is_bb_attacked, agree_get_turn]; exact C08d_isBbAttacked p hC bb them

theorem C08_code_d_getAttacked (p : Position) (hC : Consistent p = true) (mask : BB) (them : Bool) :
    ∀ s, s < 64 → (R.get_attacked p mask them).getLsbD s
      = (mask.getLsbD s && Spec.attackedBy (abs p).board (sideWhite p them) (absSq (R.get_turn p) s)) := by
  rw [agree_get_attacked, agree_get_turn]; exact C08d_getAttacked p hC mask them

theorem C08_code_d_inCheck (p : Position) (hC : Consistent p = true)
    (hk0 : count (R.get_kings p &&& R.get_us p) = 1) (hk1 : count (R.get_kings p &&& R.get_them p) ≤ 1) :
    R.in_check p = Spec.inCheck (abs p).board (!R.get_turn p) := by
  rw [agree_get_kings, agree_get_us] at hk0; rw [agree_get_kings, agree_get_them] at hk1
  rw [agree_in_check, agree_get_turn]; exact C08d_inCheck p hC hk0 hk1

theorem C08_code_d_inCheckThem (p : Position) (hC : Consistent p = true)
    (hk0 : count (R.get_kings p &&& R.get_us p) ≤ 1) (hk1 : count (R.get_kings p &&& R.get_them p) = 1) :
    R.in_check_them p = Spec.inCheck (abs p).board (R.get_turn p) := by
  rw [agree_get_kings, agree_get_us] at hk0; rw [agree_get_kings, agree_get_them] at hk1
  rw [agree_in_check_them, agree_get_turn]; exact C08d_inCheckThem p hC hk0 hk1

/-- `is_safe` as `move_generator` calls it for king steps (king lifted off the board). -/
theorem C08_code_d_isSafe (p : Position) (hC : Consistent p = true) (ksq : Nat) (hk64 : ksq < 64)
    (hk : (R.get_us p).getLsbD ksq = true) (to : Nat) (hto : to < 64) :
    R.is_safe to (R.get_occupied p ^^^ bit ksq) (R.get_them p &&& R.get_pawns p) (R.get_them p &&& R.get_knights p)
        (R.get_them p &&& R.get_bishops p) (R.get_them p &&& R.get_rooks p) (R.get_them p &&& R.get_queens p)
        (R.get_them p &&& R.get_kings p)
      = !Spec.attackedBy (Spec.setSq (abs p).board (absSq (R.get_turn p) ksq) none) (R.get_turn p)
          (absSq (R.get_turn p) to) := by
  rw [agree_get_us] at hk
  rw [agree_is_safe, agree_get_occupied, agree_get_them, agree_get_pawns, agree_get_knights, agree_get_bishops,
    agree_get_rooks, agree_get_queens, agree_get_kings, agree_get_turn]
  exact C08d_isSafe p hC ksq hk64 hk to hto

/-- on the domain `ValidPos` the king hypotheses are discharged. -/
theorem C08_code_d_isSqAttacked_valid (p : Position) (hV : ValidPos p = true) (sq : Nat) (hsq : sq < 64)
    (them : Bool) :
    R.is_sq_attacked p sq them
      = Spec.attackedBy (abs p).board (sideWhite p them) (absSq (R.get_turn p) sq) := by
  rw [agree_is_sq_attacked, agree_get_turn]; exact C08d_isSqAttacked_valid p hV sq hsq them

theorem C08_code_d_inCheck_valid (p : Position) (hV : ValidPos p = true) :
    R.in_check p = Spec.inCheck (abs p).board (!R.get_turn p) := by
  rw [agree_in_check, agree_get_turn]; exact C08d_inCheck_valid p hV

theorem C08_code_d_inCheckThem_valid (p : Position) (hV : ValidPos p = true) :
    R.in_check_them p = Spec.inCheck (abs p).board (R.get_turn p) := by
  rw [agree_in_check_them, agree_get_turn]; exact C08d_inCheckThem_valid p hV

/-! ## non-vacuity -/

/-- by the rules of chess there are 6 first moves and 30 sequences of two moves in K+P v K (`kpk` of
`Props/C08c.lean`) — obtained by running the regenerated `perft` and the theorem. -/
example : Spec.leaves (abs kpk) 1 = 6 ∧ Spec.leaves (abs kpk) 2 = 30 := by
  have h1 := C08_code_c_perft 3 1 (by decide) kpk (by decide +kernel) (by decide +kernel) (by decide +kernel)
    (by decide +kernel)
  have h2 := C08_code_c_perft 3 2 (by decide) kpk (by decide +kernel) (by decide +kernel) (by decide +kernel)
    (by decide +kernel)
  have e1 : R.perft 3 kpk 1 = some 6 := by decide +kernel
  have e2 : R.perft 3 kpk 2 = some 30 := by decide +kernel
  rw [e1] at h1; rw [e2] at h2
  exact ⟨(Option.some.inj h1).symm, (Option.some.inj h2).symm⟩

/-- the start position: 400 (text-side translation, checked arithmetic). -/
example : Spec.leaves (abs Gen.startpos) 2 = 400 := by
  have h2 := C08_code_c_pos_perft .trap 3 2 (by decide) Gen.startpos (by decide +kernel) (by decide +kernel)
    (by decide +kernel) (by decide +kernel)
  have e2 : R.pos_perft 3 .trap Gen.startpos 2 = some 400 := by decide +kernel
  rw [e2] at h2
  exact (Option.some.inj h2).symm

example : R.count_moves promoPos = 17 ∧ (R.move_generator promoPos).length = 17 := by decide
/-- `attPos` of `Props/C08d.lean`: the mover is in check by the queen on d4. -/
example : R.in_check attPos = true ∧ Spec.inCheck (abs attPos).board (!R.get_turn attPos) = true := by decide

end Rawr

#print axioms Rawr.C08_code_a_count_eq_length
#print axioms Rawr.C08_code_a_count_eq_legal_moves_length
#print axioms Rawr.C08_code_b_captures_filter
#print axioms Rawr.C08_code_b_captures_length_le
#print axioms Rawr.C08_code_b_unconditional_false
#print axioms Rawr.C08_code_c_perft
#print axioms Rawr.C08_code_c_pos_perft
#print axioms Rawr.C08_code_c_split
#print axioms Rawr.C08_code_c_isCapture
#print axioms Rawr.C08_code_c_captures
#print axioms Rawr.C08_code_d_isSqAttacked
#print axioms Rawr.C08_code_d_isBbAttacked
#print axioms Rawr.C08_code_d_getAttacked
#print axioms Rawr.C08_code_d_inCheck
#print axioms Rawr.C08_code_d_inCheckThem
#print axioms Rawr.C08_code_d_isSafe
#print axioms Rawr.C08_code_d_isSqAttacked_valid
#print axioms Rawr.C08_code_d_inCheck_valid
#print axioms Rawr.C08_code_d_inCheckThem_valid
