import Rawr.Proofs.GenShapeUci
import Rawr.Model.Uci
/-!
# C09 — move notation (`Mv::to_uci`, src/uci/mv.rs; `Square::fmt`, src/chess/square.rs; src/uci/moves.rs)

For a valid position `p` and `m ∈ legalMoves p`:
* `C09_format`: the printed string is source square, printed destination `uciDst p m`, promotion letter; the
  printed destination is `m.dst` except for a castling move (king takes own rook) without `UCI_Chess960`,
  where it is the king's target g1 / c1 in the mover's frame; `C09_castle_iff` says which moves these are;
  `C09_sqName` is the 64-row table "file letter, rank digit".
* `C09_injective_frc`, `C09_injective_std`: two legal moves with the same string are equal.
* `C09_roundtrip`: the move parser (`applyToken`) fed with the printed string plays the same move.
-/
set_option linter.unusedSimpArgs false
namespace Rawr
open Rawr.Position Rawr.Spec Rawr.ZH

theorem legal_genOk {p : Position} (hV : ValidPos p = true) {m : Mv} (hm : m ∈ legalMoves p) :
    ∃ g, GenOk p g ∧ g.mv = m := by
  unfold legalMoves at hm
  rw [List.mem_map] at hm
  obtain ⟨g, hg, e⟩ := hm
  exact ⟨g, gen_shape_valid p hV g hg, e⟩

/-! ## format -/

/-- `Square::fmt`: file letter, then rank digit. -/
theorem C09_sqName : ∀ s : Fin 64, sqName s.val =
    [['a','b','c','d','e','f','g','h'].getD (s.val % 8) ' ', ['1','2','3','4','5','6','7','8'].getD (s.val / 8) ' '] :=
  sqName_table

/-- `Mv::to_uci` of a legal move: source, printed destination, promotion letter (absolute squares). -/
theorem C09_format (p : Position) (hV : ValidPos p = true) (m : Mv) (hm : m ∈ legalMoves p) :
    toUciChars p m = sqName (absSq p.black m.src) ++ sqName (absSq p.black (uciDst p m)) ++ promoChars m.promo := by
  obtain ⟨g, hg, rfl⟩ := legal_genOk hV hm
  exact toUci_format hg

/-- the squares are on the board and the promotion letter is one of none, n, b, r, q. -/
theorem C09_ranges (p : Position) (hV : ValidPos p = true) (m : Mv) (hm : m ∈ legalMoves p) :
    m.src < 64 ∧ m.dst < 64 ∧ uciDst p m < 64 ∧ (m.promo = 6 ∨ m.promo = 1 ∨ m.promo = 2 ∨ m.promo = 3 ∨ m.promo = 4) := by
  obtain ⟨g, hg, rfl⟩ := legal_genOk hV hm
  exact ⟨hg.src_lt, hg.dst_lt, uciDst_lt hg, hg.promo_mem⟩

/-- the legal moves whose destination holds an own piece are exactly the encodings of castling with a
present right (king takes that right's rook). -/
theorem C09_castle_iff (p : Position) (hV : ValidPos p = true) (m : Mv) (hm : m ∈ legalMoves p) :
    p.c0.isSet m.dst = true ↔
      ((p.usK = true ∧ m = encodeMove p (.castle true)) ∨ (p.usQ = true ∧ m = encodeMove p (.castle false))) := by
  have F := vfacts_of_valid hV
  obtain ⟨g, hg, rfl⟩ := legal_genOk hV hm
  constructor
  · intro hd
    obtain ⟨h5, hK | hQ⟩ := hg.dst_own hd
    · have hp6 := promo6_of_not_pawn hg (by pomega)
      obtain ⟨hu, hs, hdst, _⟩ := hK
      refine Or.inl ⟨hu, ?_⟩
      cases hmv : g.mv
      rw [hmv] at hs hdst hp6
      simp only at hs hdst hp6
      simp [encodeMove, hs, hdst, hp6]
    · have hp6 := promo6_of_not_pawn hg (by pomega)
      obtain ⟨hu, hs, hdst, _⟩ := hQ
      refine Or.inr ⟨hu, ?_⟩
      cases hmv : g.mv
      rw [hmv] at hs hdst hp6
      simp only at hs hdst hp6
      simp [encodeMove, hs, hdst, hp6]
  · rintro (⟨hu, e⟩ | ⟨hu, e⟩)
    · have := (F.rK hu).2.1
      rw [BitVec.getLsbD_and, Bool.and_eq_true] at this
      rw [e]
      simpa [encodeMove, fromCoords, BB.isSet] using this.1
    · have := (F.rQ hu).2.1
      rw [BitVec.getLsbD_and, Bool.and_eq_true] at this
      rw [e]
      simpa [encodeMove, fromCoords, BB.isSet] using this.1

/-- the printed destination, spelled out: `dst`, unless castling is printed the conventional way. -/
theorem C09_uciDst (p : Position) (m : Mv) :
    uciDst p m = if p.c0.isSet m.dst && !p.frc then (if m.dst > m.src then 6 else 2) else m.dst := by
  unfold uciDst decodeMove
  cases p.c0.isSet m.dst <;> cases p.frc <;> simp

/-! ## injectivity -/

theorem uci_eq_parts {p : Position} {g₁ g₂ : GMv} (h₁ : GenOk p g₁) (h₂ : GenOk p g₂)
    (h : toUciChars p g₁.mv = toUciChars p g₂.mv) :
    g₁.mv.src = g₂.mv.src ∧ uciDst p g₁.mv = uciDst p g₂.mv ∧ g₁.mv.promo = g₂.mv.promo := by
  rw [toUci_format h₁, toUci_format h₂] at h
  obtain ⟨e1, e2, e3⟩ := uci_parts_inj (absSq_lt h₁.src_lt) (absSq_lt (uciDst_lt h₁)) (absSq_lt h₂.src_lt)
    (absSq_lt (uciDst_lt h₂)) h₁.promo_mem h₂.promo_mem h
  exact ⟨absSq_inj e1, absSq_inj e2, e3⟩

theorem mv_ext {a b : Mv} (h1 : a.src = b.src) (h2 : a.dst = b.dst) (h3 : a.promo = b.promo) : a = b := by
  cases a; cases b; simp only at h1 h2 h3; rw [h1, h2, h3]

/-- with `UCI_Chess960` on (castling printed as king takes rook) the notation is injective on legal moves. -/
theorem C09_injective_frc (p : Position) (hV : ValidPos p = true) (hf : p.frc = true) (m₁ m₂ : Mv)
    (hm₁ : m₁ ∈ legalMoves p) (hm₂ : m₂ ∈ legalMoves p) (h : toUciChars p m₁ = toUciChars p m₂) : m₁ = m₂ := by
  obtain ⟨g₁, h₁, rfl⟩ := legal_genOk hV hm₁
  obtain ⟨g₂, h₂, rfl⟩ := legal_genOk hV hm₂
  obtain ⟨e1, e2, e3⟩ := uci_eq_parts h₁ h₂ h
  have d1 : uciDst p g₁.mv = g₁.mv.dst := by
    rcases uciDst_cases h₁ with ⟨_, e⟩ | ⟨_, _, e⟩ | ⟨_, _, e⟩ <;> rw [e] <;> simp [hf]
  have d2 : uciDst p g₂.mv = g₂.mv.dst := by
    rcases uciDst_cases h₂ with ⟨_, e⟩ | ⟨_, _, e⟩ | ⟨_, _, e⟩ <;> rw [e] <;> simp [hf]
  rw [d1, d2] at e2
  exact mv_ext e1 e2 e3

/-- a non-castling legal move from the king's square e1 does not go to g1 or c1. -/
theorem king_step_not_castle_target {p : Position} (F : VFacts p) {g : GMv} (h : GenOk p g)
    (hs : g.mv.src = lsb (p.p5 &&& p.c0)) (h4 : lsb (p.p5 &&& p.c0) = 4) (hd : p.c0.isSet g.mv.dst = false) :
    g.mv.dst ≠ 6 ∧ g.mv.dst ≠ 2 := by
  have hk5 := (ksq_facts F).2.1
  have ht := h.tag
  rw [hs, pieceOn_of_bit (k := 5) F.cons hk5] at ht
  have h5 : g.piece = 5 := (Option.some.inj ht).symm
  have := h.king h5 hd
  rw [hs, h4] at this
  exact adj_e1 ⟨g.mv.dst, h.dst_lt⟩ this

/-- without `UCI_Chess960`, in the conventional castling geometry, the notation is injective on legal moves. -/
theorem C09_injective_std (p : Position) (hV : ValidPos p = true) (hf : p.frc = false)
    (hS : StandardGeometry p) (m₁ m₂ : Mv)
    (hm₁ : m₁ ∈ legalMoves p) (hm₂ : m₂ ∈ legalMoves p) (h : toUciChars p m₁ = toUciChars p m₂) : m₁ = m₂ := by
  have F := vfacts_of_valid hV
  obtain ⟨g₁, h₁, rfl⟩ := legal_genOk hV hm₁
  obtain ⟨g₂, h₂, rfl⟩ := legal_genOk hV hm₂
  obtain ⟨e1, e2, e3⟩ := uci_eq_parts h₁ h₂ h
  rcases uciDst_cases h₁ with ⟨c1, d1⟩ | ⟨_, K1, d1⟩ | ⟨_, Q1, d1⟩ <;>
    rcases uciDst_cases h₂ with ⟨c2, d2⟩ | ⟨_, K2, d2⟩ | ⟨_, Q2, d2⟩ <;>
    (try simp only [hf, Bool.false_eq_true, if_false] at d1) <;>
    (try simp only [hf, Bool.false_eq_true, if_false] at d2) <;> rw [d1, d2] at e2
  · exact mv_ext e1 e2 e3
  · have := king_step_not_castle_target F h₁ (by rw [e1]; exact K2.2.1) (hS.1 K2.1).1 c1
    omega
  · have := king_step_not_castle_target F h₁ (by rw [e1]; exact Q2.2.1) (hS.2 Q2.1).1 c1
    omega
  · have := king_step_not_castle_target F h₂ (by rw [← e1]; exact K1.2.1) (hS.1 K1.1).1 c2
    omega
  · exact mv_ext e1 (by rw [K1.2.2.1, K2.2.2.1]) e3
  · omega
  · have := king_step_not_castle_target F h₂ (by rw [← e1]; exact Q1.2.1) (hS.2 Q1.1).1 c2
    omega
  · omega
  · exact mv_ext e1 (by rw [Q1.2.2.1, Q2.2.2.1]) e3

/-- both cases together. -/
theorem C09_injective (p : Position) (hV : ValidPos p = true) (hg : p.frc = true ∨ StandardGeometry p)
    (m₁ m₂ : Mv) (hm₁ : m₁ ∈ legalMoves p) (hm₂ : m₂ ∈ legalMoves p)
    (h : toUciChars p m₁ = toUciChars p m₂) : m₁ = m₂ := by
  cases hf : p.frc
  · rcases hg with hg | hg
    · rw [hf] at hg; cases hg
    · exact C09_injective_std p hV hf hg m₁ m₂ hm₁ hm₂ h
  · exact C09_injective_frc p hV hf m₁ m₂ hm₁ hm₂ h

/-! ## round trip through the move parser -/

/-- `uci::moves` applied to the printed form of a legal move plays exactly that move. -/
theorem C09_roundtrip (p : Position) (hV : ValidPos p = true) (hg : p.frc = true ∨ StandardGeometry p)
    (hist : List BB) (m : Mv) (hm : m ∈ legalMoves p) :
    applyToken p hist (toUciChars p m) = (p.makemove m true).map (fun q => (q, q.hash :: hist, [])) := by
  have hfind : (legalMoves p).find? (fun m' => toUciChars p m' == toUciChars p m) = some m :=
    find?_unique hm (by simp) (fun x hx hq => C09_injective p hV hg x m hx hm (by simpa using hq))
  unfold applyToken
  simp only [hfind]
  cases p.makemove m true <;> rfl

/-! ## non-vacuity -/

/-- a position given by its boards, key recomputed. -/
def c09Pos (c0 c1 p0 p1 p2 p3 p4 p5 : BB) (black : Bool) (uK uQ : Bool) (cf0 cf1 : Nat) (frc : Bool) : Position :=
  let p : Position :=
    { c0 := c0, c1 := c1, p0 := p0, p1 := p1, p2 := p2, p3 := p3, p4 := p4, p5 := p5,
      halfmoves := 0, fullmoves := 1, black := black, ep := none,
      usK := uK, usQ := uQ, themK := false, themQ := false, cf0 := cf0, cf1 := cf1, cf2 := 7, cf3 := 0,
      hash := 0#64, frc := frc }
  { p with hash := p.calculateHash }

/-- White: Ke1, pawn b7; Black: Ke8, Ra8, Rc8. -/
def c09Promo : Position :=
  c09Pos 0x0002000000000010#64 0x1500000000000000#64 0x0002000000000000#64 0 0 0x0500000000000000#64 0
    0x1000000000000010#64 false false false 7 0 false
/-- Chess960, `UCI_Chess960` on: White Kb1, Ra1 with the queen-side right; Black Ke8. -/
def c09Frc : Position :=
  c09Pos 0x3#64 0x1000000000000000#64 0 0 0 0x1#64 0 0x1000000000000002#64 false false true 7 0 true
/-- standard: White Ke1, Rh1, Ra1 with both rights; Black Ke8; `UCI_Chess960` off. -/
def c09Std : Position :=
  c09Pos 0x91#64 0x1000000000000000#64 0 0 0 0x81#64 0 0x1000000000000010#64 false true true 7 0 false
/-- the same with Black to move (mover-relative boards are the same; printed on ranks 8). -/
def c09StdBlack : Position :=
  c09Pos 0x91#64 0x1000000000000000#64 0 0 0 0x81#64 0 0x1000000000000010#64 true true true 7 0 false

example : ValidPos c09Promo = true ∧ (⟨49, 56, 4⟩ : Mv) ∈ legalMoves c09Promo ∧
    toUciChars c09Promo ⟨49, 56, 4⟩ = "b7a8q".toList ∧ toUciChars c09Promo ⟨49, 57, 1⟩ = "b7b8n".toList := by
  decide +kernel
example : ValidPos c09Frc = true ∧ c09Frc.frc = true ∧ (⟨1, 0, 6⟩ : Mv) ∈ legalMoves c09Frc ∧
    toUciChars c09Frc ⟨1, 0, 6⟩ = "b1a1".toList := by decide +kernel
example : ValidPos c09Std = true ∧ c09Std.frc = false ∧ StandardGeometry c09Std ∧
    (⟨4, 7, 6⟩ : Mv) ∈ legalMoves c09Std ∧ (⟨4, 0, 6⟩ : Mv) ∈ legalMoves c09Std ∧
    toUciChars c09Std ⟨4, 7, 6⟩ = "e1g1".toList ∧ toUciChars c09Std ⟨4, 0, 6⟩ = "e1c1".toList := by
  decide +kernel
example : ValidPos c09StdBlack = true ∧ StandardGeometry c09StdBlack ∧
    (⟨4, 7, 6⟩ : Mv) ∈ legalMoves c09StdBlack ∧ toUciChars c09StdBlack ⟨4, 7, 6⟩ = "e8g8".toList ∧
    toUciChars c09StdBlack ⟨0, 8, 6⟩ = "a8a7".toList := by
  decide +kernel
/-- the round trip instantiated: feeding "e1g1" back castles king-side. -/
example (hist : List BB) : applyToken c09Std hist "e1g1".toList
    = (c09Std.makemove ⟨4, 7, 6⟩ true).map (fun q => (q, q.hash :: hist, [])) :=
  C09_roundtrip c09Std (by decide +kernel) (Or.inr (by decide +kernel)) hist ⟨4, 7, 6⟩ (by decide +kernel)
example (hist : List BB) : applyToken c09Frc hist "b1a1".toList
    = (c09Frc.makemove ⟨1, 0, 6⟩ true).map (fun q => (q, q.hash :: hist, [])) :=
  C09_roundtrip c09Frc (by decide +kernel) (Or.inl rfl) hist ⟨1, 0, 6⟩ (by decide +kernel)
/-- the geometry hypothesis of `C09_injective_std` cannot be dropped: Chess960 set-up Kf1, Rh1 with the
king-side right and `UCI_Chess960` off: the castling move (king f1 takes rook h1) is printed "f1g1", and so is
the king step f1g1; both are legal. (`applyToken` then selects the king step, the first match.) -/
def c09Clash : Position :=
  c09Pos 0xA0#64 0x1000000000000000#64 0 0 0 0x80#64 0 0x1000000000000020#64 false true false 7 0 false
example : ValidPos c09Clash = true ∧ (⟨5, 7, 6⟩ : Mv) ∈ legalMoves c09Clash ∧ (⟨5, 6, 6⟩ : Mv) ∈ legalMoves c09Clash ∧
    toUciChars c09Clash ⟨5, 7, 6⟩ = toUciChars c09Clash ⟨5, 6, 6⟩ := by decide +kernel

#print axioms C09_sqName
#print axioms C09_format
#print axioms C09_ranges
#print axioms C09_castle_iff
#print axioms C09_uciDst
#print axioms C09_injective_frc
#print axioms C09_injective_std
#print axioms C09_injective
#print axioms C09_roundtrip
end Rawr
