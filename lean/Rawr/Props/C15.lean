import Rawr.Proofs.UciSafe
/-! # C15 — shape and totality of the UCI conversation (model level)

`listen ar clock lines : Option (List String)` is the transcript of the process (`none` = panic).

4. shape: `C15_isready` (an `isready` line is answered by exactly `readyok`, state unchanged),
   `C15_search_one_bestmove` (a well-formed search request is answered by `info …` lines followed by exactly ONE
   `bestmove …` line), `C15_other_lines_silent` (no other line produces a `bestmove …` or `readyok` line),
   `C15_quit_ends`, `C15_quit_in_first_loop`, `C15_eof` ; assembled:
   `C15_transcript_shape` : #`readyok` = `expectedReady script`, #`bestmove …` = `expectedBest script`, the two
   counting functions being defined on the script alone (`firstSyn`, `beforeQuit`, `isReadyLine`, `isSearchLine`).
   `parseGo_total` (Proofs/UciGo): `parse_go` is a total function.
5. `C15_no_panic_partial` : a script that is `ListenSafe` — every `position` FEN accepted by `setFen`, every
   `root` / `perft` / `makemove` call made returns — never panics; nothing else can panic.
   `C15_no_panic_iff` : and conversely. -/
namespace Rawr

variable {ar : Arith} {clock : Nat → Bool}

/-! ## 4. shape -/

/-- every `isready` (second loop) is answered with exactly `readyok`; the state is untouched. -/
theorem C15_isready (s : UState) (l : List Char) (h : isReadyLine l = true) :
    stepSecond ar clock s l = some (s, ["readyok"], false) :=
  stepSecond_isready ar clock s l (by simpa [isReadyLine] using h)

/-- a well-formed search request (`go` + arguments parsed as time/movetime/depth/nodes/infinite) whose search
returns is answered by `info …` lines followed by exactly one `bestmove …` line. -/
theorem C15_search_one_bestmove {s s' : UState} {l : List Char} {o : List String} {q : Bool}
    (hl : isSearchLine l = true) (h : stepSecond ar clock s l = some (s', o, q)) :
    SearchShape o ∧ q = false := by
  unfold isSearchLine at hl
  rw [Bool.and_eq_true, beq_iff_eq] at hl
  obtain ⟨hc, hk⟩ := hl
  rw [stepSecond_go ar clock s l hc, Option.map_eq_some_iff] at h
  obtain ⟨⟨s1, o1⟩, hgo, e⟩ := h
  cases e
  cases hp : parseGo (argsOf l) with
  | none => rw [hp] at hk; cases hk
  | some k =>
    rw [hp] at hk
    exact ⟨doGo_one_bestmove hp hk hgo, rfl⟩

/-- a search request whose search returns is never answered by a panic-free silence: the step exists iff `root` returns. -/
theorem C15_search_answered {s : UState} {l : List Char} {k : GoKind} (hc : cmdOf l = str "go")
    (hp : parseGo (argsOf l) = some k) (hk : k.isSearch = true)
    (hr : (root (k.limit clock) 1000 s.pos s.hist s.tt).isSome = true) :
    ∃ s' o, stepSecond ar clock s l = some (s', o, false) ∧ SearchShape o := by
  have hg : GoSafe clock s (argsOf l) := by
    unfold GoSafe
    rw [hp]
    cases k with
    | perft | split => cases hk
    | time | movetime | depth | nodes | infinite => exact hr
  obtain ⟨⟨s', o⟩, hgo⟩ := Option.isSome_iff_exists.1 (go_safe (ar := ar) hg)
  refine ⟨s', o, ?_, doGo_one_bestmove hp hk hgo⟩
  rw [stepSecond_go ar clock s l hc, hgo]
  rfl

/-- all other lines (`ucinewgame`, `print`, `go perft/split`, unparsable `go`, `position`, `moves`,
`setoption`, `history`, `eval`, `quit`, unknown, empty) print neither a `bestmove …` line nor `readyok`. -/
theorem C15_other_lines_silent {s s' : UState} {l : List Char} {o : List String} {q : Bool}
    (h1 : isReadyLine l = false) (h2 : isSearchLine l = false) (h : stepSecond ar clock s l = some (s', o, q)) :
    nReady o = 0 ∧ nBest o = 0 := by
  have := stepSecond_shape h
  rw [h1, h2] at this
  exact ⟨this.1, this.2.1⟩

/-- `quit` ends the second loop: the lines after it are never looked at. -/
theorem C15_quit_ends (a b : List (List Char)) (q : List Char) (hq : isQuitLine q = true) (s : UState)
    (out : List String) :
    secondLoop ar clock (a ++ q :: b) s out = secondLoop ar clock (a ++ [q]) s out := by
  have hc : cmdOf q = str "quit" := by simpa [isQuitLine] using hq
  have e : ∀ t c, steps ar clock t (q :: c) = some (t, [], true) := by
    intro t c
    simp only [steps, stepSecond_quit ar clock t q hc]
  rw [secondLoop_eq, secondLoop_eq, steps_append, steps_append]
  cases steps ar clock s a with
  | none => rfl
  | some r =>
    obtain ⟨s', o, qq⟩ := r
    cases qq with
    | true => rfl
    | false => simp only [e]

/-- `quit` during the first loop (after `setoption` lines only): the process returns silently. -/
theorem C15_quit_in_first_loop (opts b : List (List Char)) (q : List Char)
    (hopts : ∀ l ∈ opts, cmdOf l = str "setoption") (hq : isQuitLine q = true) :
    listen ar clock (opts ++ q :: b) = some (banner false 16) := by
  have hc : cmdOf q = str "quit" := by simpa [isQuitLine] using hq
  have hf : ∀ s, firstLoop (opts ++ q :: b) s = none := by
    induction opts with
    | nil =>
      intro s
      unfold cmdOf at hc
      have d1 : (str "quit" == str "isready") = false := by decide
      have d2 : (str "quit" == str "setoption") = false := by decide
      simp only [List.nil_append, firstLoop, hc, d1, d2, BEq.rfl, if_true, Bool.false_eq_true, if_false]
    | cons l ls ih =>
      intro s
      have hl := hopts l (by simp)
      unfold cmdOf at hl
      have d : (str "setoption" == str "isready") = false := by decide
      simp only [List.cons_append, firstLoop, hl, d, BEq.rfl, if_true, Bool.false_eq_true, if_false]
      exact ih (fun x hx => hopts x (by simp [hx])) _
  rw [listen_eq]
  unfold afterFirst
  rw [hf]
  rfl

/-- end of input ends the process cleanly: in the second loop by definition, … -/
theorem C15_eof_second (s : UState) (out : List String) : secondLoop ar clock [] s out = some out := rfl

/-- … in the first loop after one round of the second loop on an empty line. -/
theorem C15_eof : listen ar clock [] = some (banner false 16) := by
  rw [listen_eq]
  have h : ∀ s, steps ar clock s [[]] = some (s, [], false) := by
    intro s
    have : stepSecond ar clock s [] = some (s, [], false) :=
      stepSecond_other ar clock s [] (by decide)
    simp only [steps, this]
    rfl
  show (match afterFirst [] with
    | none => some (banner false 16)
    | some (s, r, rest) => _) = _
  unfold afterFirst
  simp only [firstLoop, Option.map_some, h]
  rfl

/-- **C15 (transcript shape).** If the process does not panic, its transcript contains exactly as many `readyok`
lines as the script has `isready` lines that get processed (the one ending the first loop plus those of the second
loop before the first `quit`), and exactly as many `bestmove …` lines as well-formed search requests processed. -/
theorem C15_transcript_shape {lines : List (List Char)} {out : List String}
    (h : listen ar clock lines = some out) :
    out.count "readyok" = expectedReady lines ∧ out.countP isBest = expectedBest lines :=
  listen_shape h

/-! ## 5. totality -/

/-- **C15 (no panic).** A `ListenSafe` script never panics. `ListenSafe` (Proofs/UciSafe) names the ONLY panic
sources of the model: a FEN rejected by `setFen` in a `position` line, and `root` / `perft` / `makemove` calls
returning `none`. -/
theorem C15_no_panic_partial {lines : List (List Char)} (h : ListenSafe ar clock lines) :
    listen ar clock lines ≠ none := by
  have := listen_safe h
  intro e
  rw [e] at this
  cases this

/-- and conversely: `ListenSafe` is EXACTLY "no panic" — each named source does panic the process. -/
theorem C15_no_panic_iff {lines : List (List Char)} :
    listen ar clock lines ≠ none ↔ ListenSafe ar clock lines := by
  rw [← listen_safe_iff, Option.isSome_iff_ne_none]

/-- lines that are not `go` / `position` / `moves` carry no safety condition at all. -/
theorem StepSafe_of_other (s : UState) (l : List Char) (h1 : cmdOf l ≠ str "go") (h2 : cmdOf l ≠ str "position")
    (h3 : cmdOf l ≠ str "moves") : StepSafe ar clock s l :=
  ⟨fun e => absurd e h1, fun e => absurd e h2, fun e => absurd e h3⟩

/-- a `go` line that does not parse is ignored, safely. -/
theorem GoSafe_of_unparsed (s : UState) (toks : List (List Char)) (h : parseGo toks = none) :
    GoSafe clock s toks := by
  unfold GoSafe; rw [h]; trivial

/-! ## non-vacuity and the total corner cases -/
namespace C15Ex

def clk : Nat → Bool := fun _ => false

/-- `movestogo 0` parses (the division by `movestogo.max(1)` cannot trap) … -/
example : (parseGo (splitWs (str "wtime 1000 btime 1000 movestogo 0"))).map GoKind.isSearch = some true := by
  decide +kernel
/-- … garbage does not (`Err("Uh oh")`, the line is ignored) … -/
example : (parseGo (splitWs (str "depth 3 foo"))).isNone = true := by decide +kernel
/-- … mixed limits are rejected … -/
example : (parseGo (splitWs (str "depth 3 nodes 5"))).isNone = true := by decide +kernel
example : isSearchLine (str "go depth 3") = true ∧ isSearchLine (str "go perft 3") = false ∧
    isSearchLine (str "go depth x") = false ∧ isSearchLine (str "  go   infinite ") = true := by decide +kernel

/-- `go split 0` is total (saturating subtraction): 20 move lines with count 1, `time ?`, `nodes 20`. -/
example : (doGo .trap clk initState (splitWs (str "split 0"))).map (fun r => (r.2.length, r.2.getLast?)) =
    some (22, some "nodes 20") := by decide +kernel

/-- a script through both loops: options, `isready`, queries, a malformed `go`, `quit`, trailing garbage.
It is `ListenSafe` … -/
def script : List (List Char) :=
  [str "setoption name UCI_Chess960 value true", str "isready", str "isready",
   str "position startpos moves e2e4 zz", str "go perft 1", str "go depth", str "print", str "history", str "eval",
   str "isready", str "quit", str "isready"]

/-- … its transcript exists and has 3 `readyok` lines and no `bestmove` (no search request). -/
example : ∃ out, listen .trap clk script = some out ∧ out.count "readyok" = 3 ∧ out.countP isBest = 0 ∧
    expectedReady script = 3 := by
  have h : (listen .trap clk script).isSome = true := by decide +kernel
  obtain ⟨out, ho⟩ := Option.isSome_iff_exists.1 h
  have e : expectedReady script = 3 ∧ expectedBest script = 0 := by decide +kernel
  have := C15_transcript_shape ho
  exact ⟨out, ho, this.1.trans e.1, this.2.trans e.2, e.1⟩

/-- the hypothesis of `C15_no_panic_partial` holds for it. -/
example : ListenSafe .trap clk script := listen_safe_iff.1 (by decide +kernel)

/-- the hypothesis is needed: a `position` line with a FEN that `setFen` rejects panics the process
(as `set_fen` does in the engine). -/
example : listen .trap clk [str "isready", str "position fen 8/8 w - - 0 1"] = none := by decide +kernel
example : ¬ ListenSafe .trap clk [str "isready", str "position fen 8/8 w - - 0 1"] :=
  fun h => C15_no_panic_partial h (by decide +kernel)

/-- the counting functions count search requests: two of them here (a third after `quit` is not processed). -/
example : expectedBest [str "isready", str "go depth 2", str "go perft 2", str "go nodes 10", str "quit",
    str "go depth 1"] = 2 ∧
    expectedReady [str "go depth 2", str "isready"] = 1 ∧ expectedBest [str "go depth 2", str "isready"] = 1 ∧
    expectedReady [] = 0 ∧ expectedReady [str "quit", str "isready"] = 0 := by decide +kernel

end C15Ex

#print axioms C15_isready
#print axioms C15_search_one_bestmove
#print axioms C15_search_answered
#print axioms C15_other_lines_silent
#print axioms C15_quit_ends
#print axioms C15_quit_in_first_loop
#print axioms C15_eof
#print axioms C15_transcript_shape
#print axioms C15_no_panic_partial
#print axioms C15_no_panic_iff
#print axioms parseGo_total
end Rawr
