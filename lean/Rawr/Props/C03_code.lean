import Rawr.Props.C03_rules
import Rawr.Props.C15_termination
import Rawr.Proofs.RustSearchAgree_Rules
/-!
# C03 on the regenerated code: `R.root` answers with a move that is legal by the rules iff one exists

`Rawr.R.root` is regenerated from search/root.rs on every run (with `R.negamax`, `R.qsearch`, the two sort functions and
hashtable.rs below it).  It takes the clock as a function of the poll number, the Rust `settings::Type`
(`R.Settings`) and returns `Option (Result<Mv,&str> × history × table × printed Info records)` (`none` = panic or fuel
exhausted).  `agree_root_rules` (`Proofs/RustSearchAgree_Rules.lean`): for every position with `ValidPos`,
`EpConsistent` and counter room `halfmoves/fullmoves + fuel + 64 < 2^31`, and every setting `s` whose `should_stop`
closure does not panic (`toLimit clock p s = some lim`: all settings but `Perft`/`SplitPerft`, which uci/go.rs never
hands to `root`), the result PROJECTED to what the model keeps (`rootResultOf`: `Result` ↦ `Option`, `Info` ↦
`InfoRec` dropping `pos`, `mate`, `elapsed`) is the model's `root lim fuel p hist tt`.

* `root_code_model` / `root_code_of_model`: the two directions of that projection for a concrete result.
* `C03_code_rules` = `C03_rules` on `R.root`: exact transfer — `C03_rules` already has the hypotheses `ValidPos`,
  `EpConsistent` and the same counter room; the only addition is `toLimit clock p s = some lim`.
  The conclusion is stated on the `Result` itself: `r.1 = .ok m` / `r.1 = .error e` (the model's `best = none`).
* `C03_code_full_partial` = `C03_full_partial`.
* `C03_code_rules_total` = `C03_rules_total` (`Props/C15_termination.lean`): for every fuel from `rootFuelP p` on the
  regenerated driver RETURNS, always with the same projected result.  Extra hypothesis w.r.t. the model theorem: the
  counter room of the agreement for the fuel at hand (the model theorem has `halfmoves, fullmoves < 2 140 000 000`,
  which gives the room only up to `fuel ≤ 7 483 583`).  The `Info` records themselves (not only their projection)
  could differ between fuels only in the unmodelled fields.
-/
namespace Rawr
open Position Spec ZH MM SV Br Att

/-- what the model keeps of the result of the regenerated `root` (the projection of `agree_root`). -/
def rootResultOf (r : Except String Mv × List BB × Table TTEntry × List R.Info) : RootResult :=
  ⟨r.1.toOption, r.2.2.2.map infoToModel, r.2.1, r.2.2.1⟩

theorem toOption_eq_some_iff {e : Except String Mv} {m : Mv} : e.toOption = some m ↔ e = .ok m := by
  cases e <;> simp [Except.toOption]

theorem toOption_eq_none_iff {e : Except String Mv} : e.toOption = none ↔ ∃ s, e = .error s := by
  cases e <;> simp [Except.toOption]

/-- a result of the regenerated driver is, projected, the result of the model's driver. -/
theorem root_code_model {clock : Nat → Nat} {p : Position} {s : R.Settings} {lim : Limit} {fuel : Nat}
    (hlim : toLimit clock p s = some lim) (hV : ValidPos p = true) (hE : Spec.EpConsistent (abs p) = true)
    (hh : p.halfmoves + fuel + 64 < 2147483648) (hf : p.fullmoves + fuel + 64 < 2147483648)
    {hist : List BB} {tt : Table TTEntry} {r : Except String Mv × List BB × Table TTEntry × List R.Info}
    (h : R.root clock p hist tt s fuel = some r) : root lim fuel p hist tt = some (rootResultOf r) := by
  have := agree_root_rules clock p s lim fuel hlim hV hE hh hf hist tt
  rw [h] at this
  exact this.symm

/-- conversely, when the model's driver returns so does the regenerated one, with that projection. -/
theorem root_code_of_model {clock : Nat → Nat} {p : Position} {s : R.Settings} {lim : Limit} {fuel : Nat}
    (hlim : toLimit clock p s = some lim) (hV : ValidPos p = true) (hE : Spec.EpConsistent (abs p) = true)
    (hh : p.halfmoves + fuel + 64 < 2147483648) (hf : p.fullmoves + fuel + 64 < 2147483648)
    {hist : List BB} {tt : Table TTEntry} {res : RootResult}
    (h : root lim fuel p hist tt = some res) :
    ∃ r, R.root clock p hist tt s fuel = some r ∧ rootResultOf r = res := by
  have := agree_root_rules clock p s lim fuel hlim hV hE hh hf hist tt
  rw [h, Option.map_eq_some_iff] at this
  exact this

/-- the regenerated `negamax`, run with the `should_stop` closure root.rs builds for the root position `p0` and the
setting `s`, is the model's `negamax lim` on every valid position with counter room. -/
theorem negamax_code_model {clock : Nat → Nat} {p0 : Position} {s : R.Settings} {lim : Limit}
    (hlim : toLimit clock p0 s = some lim) (fuel : Nat) (p : Position)
    (hV : ValidPos p = true) (hE : Spec.EpConsistent (abs p) = true)
    (hh : p.halfmoves + fuel + 64 < 2147483648) (hf : p.fullmoves + fuel + 64 < 2147483648)
    (st : SState) (alpha beta ply depth : Int) (canNull : Bool) :
    R.negamax (R.root_should_stop p0 s clock) fuel p st alpha beta ply depth canNull =
      negamax lim fuel p st alpha beta ply depth canNull := by
  rw [agree_root_should_stop clock p0 s lim hlim]
  exact agree_negamax_rules lim fuel p hV hE hh hf st alpha beta ply depth canNull

/-- membership in the printed records, projected. -/
theorem mem_infos_code {r : Except String Mv × List BB × Table TTEntry × List R.Info} {i : R.Info}
    (h : i ∈ r.2.2.2) : infoToModel i ∈ (rootResultOf r).infos := List.mem_map_of_mem h

/-- **C03 on the code, against the rules of chess.** For every valid, en-passant-consistent position, every search
setting, clock, history and bounded table: if the regenerated `root` returns, its `Result` is `Ok(m)` with `m` legal
by the rules when a legal move exists, `Err(_)` when none exists; the table handed back is bounded again. -/
theorem C03_code_rules (clock : Nat → Nat) (s : R.Settings) (lim : Limit) (fuel : Nat) (p : Position)
    (hist : List BB) (tt : Table TTEntry) (r : Except String Mv × List BB × Table TTEntry × List R.Info)
    (hlim : toLimit clock p s = some lim)
    (hV : ValidPos p = true) (hE : Spec.EpConsistent (abs p) = true)
    (htt : TTBounded tt) (hf : (fuel : Int) ≤ Gen.INF + Gen.MATE_SCORE)
    (hh : p.halfmoves + fuel + 64 < 2147483648) (hfm : p.fullmoves + fuel + 64 < 2147483648)
    (h : R.root clock p hist tt s fuel = some r) :
    (Spec.legalMoves (abs p) ≠ [] →
      ∃ m, r.1 = .ok m ∧ decodeMove p m ∈ Spec.legalMoves (abs p) ∧ encodeMove p (decodeMove p m) = m) ∧
    (Spec.legalMoves (abs p) = [] → ∃ e, r.1 = .error e) ∧
    TTBounded r.2.2.1 := by
  obtain ⟨h1, h2, h3⟩ := C03_rules lim fuel p hist tt (rootResultOf r) hV hE htt hf hh hfm
    (root_code_model hlim hV hE hh hfm h)
  refine ⟨fun hne => ?_, fun hnil => toOption_eq_none_iff.mp (h2 hnil), h3⟩
  obtain ⟨m, e, hL, henc⟩ := h1 hne
  exact ⟨m, toOption_eq_some_iff.mp e, hL, henc⟩

/-- `C03_full_partial` on the code (root in `D = V ∧ E ∧ M`). -/
theorem C03_code_full_partial (clock : Nat → Nat) (s : R.Settings) (lim : Limit) (fuel : Nat) (p : Position)
    (hist : List BB) (tt : Table TTEntry) (r : Except String Mv × List BB × Table TTEntry × List R.Info)
    (hlim : toLimit clock p s = some lim) (hD : InD p = true) (htt : TTBounded tt)
    (hf : (fuel : Int) ≤ Gen.INF + Gen.MATE_SCORE)
    (hh : p.halfmoves + fuel + 64 < 2147483648) (hfm : p.fullmoves + fuel + 64 < 2147483648)
    (h : R.root clock p hist tt s fuel = some r) :
    (Spec.legalMoves (abs p) ≠ [] → ∃ m ∈ Spec.legalMoves (abs p), r.1 = .ok (encodeMove p m)) ∧
    (Spec.legalMoves (abs p) = [] → ∃ e, r.1 = .error e) := by
  obtain ⟨hV, hE, _⟩ := (inD_iff p).mp hD
  obtain ⟨h1, h2⟩ := C03_full_partial lim fuel p hist tt (rootResultOf r) hD htt hf hh hfm
    (root_code_model hlim hV hE hh hfm h)
  refine ⟨fun hne => ?_, fun hnil => toOption_eq_none_iff.mp (h2 hnil)⟩
  obtain ⟨m, hm, e⟩ := h1 hne
  exact ⟨m, hm, toOption_eq_some_iff.mp e⟩

/-- **C03 on the code, total** (`C03_rules_total`): for every position of `D`, every search setting, clock, history and
bounded table there is ONE result `res` such that on every fuel from `rootFuelP p` on (with the counter room of the
agreement) the regenerated `root` returns a value projecting to `res`; `res` carries a move legal by the rules iff
one exists, and a bounded table.  `MovesFit` (≤ 218 moves in positions of `D`) is the undischarged hypothesis of the
model theorem. -/
theorem C03_code_rules_total (clock : Nat → Nat) (s : R.Settings) (lim : Limit) (hfit : Term.MovesFit) (p : Position)
    (hlim : toLimit clock p s = some lim) (hD : InD p = true)
    (hh : p.halfmoves < 2140000000) (hf : p.fullmoves < 2140000000)
    (hist : List BB) (tt : Table TTEntry) (htt : TTBounded tt) :
    ∃ res : RootResult,
      (∀ f, rootFuelP p ≤ f → p.halfmoves + f + 64 < 2147483648 → p.fullmoves + f + 64 < 2147483648 →
        ∃ r, R.root clock p hist tt s f = some r ∧ rootResultOf r = res) ∧
      (Spec.legalMoves (abs p) ≠ [] →
        ∃ m, res.best = some m ∧ decodeMove p m ∈ Spec.legalMoves (abs p) ∧ encodeMove p (decodeMove p m) = m) ∧
      (Spec.legalMoves (abs p) = [] → res.best = none) ∧ TTBounded res.tt := by
  obtain ⟨hV, hE, _⟩ := (inD_iff p).mp hD
  obtain ⟨res, hall, hrest⟩ := C03_rules_total lim hfit p hD hh hf hist tt htt
  exact ⟨res, fun f hle h1 h2 => root_code_of_model hlim hV hE h1 h2 (hall f hle), hrest⟩

/-! ## non-vacuity -/
namespace C03CodeEx
open C13Ex C03RulesEx

/-- K+P v K (`kpkV` of `Props/C03_rules.lean`), `go movetime 0` with a clock that reads 0 (expired at the first poll),
non-empty history, three-slot table: the regenerated driver returns, and — through the theorem — with `Ok(m)`,
`m` legal by the rules. -/
example : ∃ r m, R.root (fun _ => 0) kpkV hist2 tt3 (.Movetime 0) 2 = some r ∧ r.1 = .ok m ∧
    decodeMove kpkV m ∈ Spec.legalMoves (abs kpkV) := by
  have h : (R.root (fun _ => 0) kpkV hist2 tt3 (.Movetime 0) 2).isSome = true := by decide +kernel
  obtain ⟨r, h1⟩ := Option.isSome_iff_exists.1 h
  obtain ⟨m, e, hL, _⟩ := (C03_code_rules (fun _ => 0) (.Movetime 0) _ 2 kpkV hist2 tt3 r rfl kpkV_valid kpkV_E
    (TTIn.replicate (by decide) 3) (by decide) (by decide +kernel) (by decide +kernel) h1).1 (by decide +kernel)
  exact ⟨r, m, h1, e, hL⟩

end C03CodeEx

end Rawr

#print axioms Rawr.root_code_model
#print axioms Rawr.root_code_of_model
#print axioms Rawr.negamax_code_model
#print axioms Rawr.C03_code_rules
#print axioms Rawr.C03_code_full_partial
#print axioms Rawr.C03_code_rules_total
