import Rawr.Model.Eval
import Rawr.Abs
import Rawr.Generated.StartPos
import Rawr.Proofs.FlipLemmas
import Rawr.Proofs.EvalLemmas
/-!
# C17 — static evaluation: antisymmetric, colour-blind, independent of non-board state

Rust: `src/search/eval.rs` (`eval`, `eval_us`, `get_phase`, `taper`), `src/search/score.rs`,
`src/chess/flip.rs`. (a)–(c) hold for an arbitrary table `T : EvalTables`. The bound (d) for the
extracted tables is in `Rawr/Props/C17Bound.lean`.
-/
namespace Rawr

/-! ## (a) antisymmetry under passing the turn -/

/-- The evaluation from the mover's point of view of the position with the turn passed to the
opponent (`Position.flip` = flip.rs) is the exact negative. Holds for every `Position` value
(no consistency hypothesis) and every table. -/
theorem C17_antisymmetry (T : EvalTables) (p : Position) : evalT T p.flip = - evalT T p := by
  unfold evalT
  rw [Position.flip_flip, phase_flip, taper_sub_swap]

theorem C17_antisymmetry_eval (p : Position) : eval p.flip = - eval p :=
  C17_antisymmetry genEvalTables p

/-! ## (b) only the eight boards are read -/

/-- Counters, castling rights and files, en-passant square, the turn flag, the key and the
Chess960 flag are irrelevant: two positions with the same eight boards evaluate equally. -/
theorem C17_independent (T : EvalTables) (p q : Position)
    (h : p.c0 = q.c0 ∧ p.c1 = q.c1 ∧ p.p0 = q.p0 ∧ p.p1 = q.p1 ∧ p.p2 = q.p2 ∧ p.p3 = q.p3 ∧
      p.p4 = q.p4 ∧ p.p5 = q.p5) : evalT T p = evalT T q :=
  evalT_congr T h

/-- The same, as "overwriting every non-board field leaves the value unchanged". -/
theorem C17_independent_fields (T : EvalTables) (p : Position) (hm fm : Int) (bl : Bool)
    (ep : Option Nat) (uK uQ tK tQ : Bool) (f0 f1 f2 f3 : Nat) (key : BB) (frc : Bool) :
    evalT T { p with halfmoves := hm, fullmoves := fm, black := bl, ep := ep, usK := uK, usQ := uQ,
                     themK := tK, themQ := tQ, cf0 := f0, cf1 := f1, cf2 := f2, cf3 := f3,
                     hash := key, frc := frc } = evalT T p :=
  evalT_congr T ⟨rfl, rfl, rfl, rfl, rfl, rfl, rfl, rfl⟩

/-! ## (c) colour-blindness

The engine stores boards relative to the mover. `Rawr.abs` (Rawr/Abs.lean) reads the absolute
position off a `Position`: a relative square `s` is the absolute square `s` if `black = false` and
`s ^^^ 56` if `black = true`, and `c0` are the men of colour `black`. Hence toggling only the `black`
flag (`mirrorSwap`) denotes the absolute position in which every man has changed colour, the board is
mirrored top to bottom, and the other colour is to move; rights and the en-passant square are
mirrored along (theorem `abs_mirrorSwap`). -/

/-- Same mover-relative boards, colour flag toggled. -/
def mirrorSwap (p : Position) : Position := { p with black := !p.black }

/-- The colour-swapped, rank-mirrored position evaluates (from its mover's point of view) to the same
number, for every table. -/
theorem C17_mirror (T : EvalTables) (p : Position) : evalT T (mirrorSwap p) = evalT T p :=
  evalT_congr T ⟨rfl, rfl, rfl, rfl, rfl, rfl, rfl, rfl⟩

namespace Spec
/-- Colour swap of a piece. -/
def Piece.swap (pc : Piece) : Piece := ⟨!pc.white, pc.kind⟩
/-- Mirror the ranks and swap the colours of a board. -/
def mirrorBoard (b : Board) : Board := fun a => (b (a ^^^ 56)).map Piece.swap
/-- The colour-swapped mirror image of an absolute position (the mover changes colour as well). -/
def mirrorA (a : APos) : APos :=
  { board := mirrorBoard a.board, whiteToMove := !a.whiteToMove,
    wK := a.bK, wQ := a.bQ, bK := a.wK, bQ := a.wQ,
    ep := a.ep.map (· ^^^ 56), half := a.half, full := a.full }
end Spec

theorem xor56_lt_iff (a : Nat) : a ^^^ 56 < 64 ↔ a < 64 := by
  constructor
  · intro h
    have := flipSq_lt h
    rwa [show flipSq (a ^^^ 56) = a from flipSq_flipSq a] at this
  · exact flipSq_lt

theorem absBoard_mirrorSwap (p : Position) :
    absBoard (mirrorSwap p) = Spec.mirrorBoard (absBoard p) := by
  funext a
  by_cases ha : a < 64
  · have ha' : a ^^^ 56 < 64 := (xor56_lt_iff a).mpr ha
    have hx : a ^^^ 56 ^^^ 56 = a := flipSq_flipSq a
    have hs : absSq (!p.black) a = absSq p.black (a ^^^ 56) := by
      cases p.black
      · rfl
      · exact hx.symm
    simp only [absBoard, Spec.mirrorBoard, mirrorSwap, ha, ha', if_true, hs]
    change (match p.pieceOn (absSq p.black (a ^^^ 56)) with | none => _ | some k => _) = _
    cases p.pieceOn (absSq p.black (a ^^^ 56)) with
    | none => rfl
    | some k =>
      simp only [Bool.not_not]
      by_cases h0 : p.c0.isSet (absSq p.black (a ^^^ 56)) = true
      · simp only [h0, if_true, Option.map_some, Spec.Piece.swap, Bool.not_not]
      · by_cases h1 : p.c1.isSet (absSq p.black (a ^^^ 56)) = true
        · simp [h0, h1, Spec.Piece.swap]
        · simp [h0, h1]
  · have ha' : ¬ a ^^^ 56 < 64 := fun h => ha ((xor56_lt_iff a).mp h)
    simp only [absBoard, Spec.mirrorBoard, ha, ha', if_false, Option.map_none]

/-- `mirrorSwap` on the engine representation is the colour-swapped mirror image of the absolute
position: board, side to move, castling rights, en-passant square, counters. -/
theorem abs_mirrorSwap (p : Position) : abs (mirrorSwap p) = Spec.mirrorA (abs p) := by
  have hb := absBoard_mirrorSwap p
  unfold abs Spec.mirrorA
  simp only [hb]
  have he : Option.map (absSq (!p.black)) p.ep = Option.map (· ^^^ 56) (Option.map (absSq p.black) p.ep) := by
    cases p.ep with
    | none => rfl
    | some s =>
      cases p.black
      · rfl
      · exact congrArg some (flipSq_flipSq s).symm
  cases h : p.black <;> simp [mirrorSwap, h] at he ⊢ <;> exact he

/-! ## Non-vacuity: concrete evaluations (kernel-evaluated) -/

/-- The start position without Black's a-pawn (mover = White). -/
def c17PawnUp : Position :=
  { Gen.startpos with c1 := 0xfffe000000000000#64, p0 := 0xfe00000000ff00#64 }

example : eval Gen.startpos = 0 := by decide +kernel
example : eval c17PawnUp = 99 ∧ eval c17PawnUp.flip = -99 := by decide +kernel
example : eval (mirrorSwap c17PawnUp) = 99 := by decide +kernel
example : eval { c17PawnUp with
                 halfmoves := 7, fullmoves := 31, ep := some 40, usK := false, themQ := false,
                 cf0 := 5, hash := 1#64, frc := true, black := true } = 99 := by decide +kernel
example : (abs (mirrorSwap c17PawnUp)).board 8 = none ∧
    (abs (mirrorSwap c17PawnUp)).board 9 = some ⟨true, .pawn⟩ ∧
    (abs c17PawnUp).board 49 = some ⟨false, .pawn⟩ := by decide +kernel

end Rawr

#print axioms Rawr.C17_antisymmetry
#print axioms Rawr.C17_independent
#print axioms Rawr.C17_independent_fields
#print axioms Rawr.C17_mirror
#print axioms Rawr.abs_mirrorSwap
