import Rawr.Model.Eval
import Rawr.Abs
import Rawr.Generated.StartPos
import Rawr.Proofs.FlipLemmas
import Rawr.Proofs.EvalLemmas
import Rawr.Proofs.EvalBound
import Rawr.Proofs.EvalDomain
import Rawr.Proofs.EvalMirror
/-!
# C17 — static evaluation: antisymmetric, colour-blind, independent of non-board state

Rust: `src/search/eval.rs` (`eval`, `eval_us`, `get_phase`, `taper`), `src/search/score.rs`,
`src/chess/flip.rs`. (a)–(c) hold for an arbitrary table `T : EvalTables`; the bound (d) is for the
extracted tables `genEvalTables` (helper lemmas in `Rawr/Proofs/EvalBound.lean`).
-/
namespace Rawr

/-! ## (a) antisymmetry under passing the turn -/

/-- The evaluation from the mover's point of view of the position with the turn passed to the
opponent (`Position.flip` = flip.rs) is the exact negative. Holds for every `Position` value
(no consistency hypothesis) and every table. -/
theorem C17_antisymmetry (T : EvalTables) (p : Position) : evalT T p.flip = - evalT T p := by
  unfold evalT
  rw [Position.flip_flip, phase_flip, taper_sub_swap]

theorem C17_antisymmetry_eval (p : Position) : eval p.flip = - eval p :=
  C17_antisymmetry genEvalTables p

/-! ## (b) only the eight boards are read -/

/-- Counters, castling rights and files, en-passant square, the turn flag, the key and the
Chess960 flag are irrelevant: two positions with the same eight boards evaluate equally. -/
theorem C17_independent (T : EvalTables) (p q : Position)
    (h : p.c0 = q.c0 ∧ p.c1 = q.c1 ∧ p.p0 = q.p0 ∧ p.p1 = q.p1 ∧ p.p2 = q.p2 ∧ p.p3 = q.p3 ∧
      p.p4 = q.p4 ∧ p.p5 = q.p5) : evalT T p = evalT T q :=
  evalT_congr T h

/-- The same, as "overwriting every non-board field leaves the value unchanged". -/
theorem C17_independent_fields (T : EvalTables) (p : Position) (hm fm : Int) (bl : Bool)
    (ep : Option Nat) (uK uQ tK tQ : Bool) (f0 f1 f2 f3 : Nat) (key : BB) (frc : Bool) :
    evalT T { p with halfmoves := hm, fullmoves := fm, black := bl, ep := ep, usK := uK, usQ := uQ,
                     themK := tK, themQ := tQ, cf0 := f0, cf1 := f1, cf2 := f2, cf3 := f3,
                     hash := key, frc := frc } = evalT T p :=
  evalT_congr T ⟨rfl, rfl, rfl, rfl, rfl, rfl, rfl, rfl⟩

/-! ## (c) colour-blindness

The engine stores boards relative to the mover. `Rawr.abs` (Rawr/Abs.lean) reads the absolute
position off a `Position`: a relative square `s` is the absolute square `s` if `black = false` and
`s ^^^ 56` if `black = true`, and `c0` are the men of colour `black`. Hence toggling only the `black`
flag (`mirrorSwap`) denotes the absolute position in which every man has changed colour, the board is
mirrored top to bottom, and the other colour is to move; rights and the en-passant square are
mirrored along (theorem `abs_mirrorSwap`). -/

/-- Same mover-relative boards, colour flag toggled. -/
def mirrorSwap (p : Position) : Position := { p with black := !p.black }

/-- The colour-swapped, rank-mirrored position evaluates (from its mover's point of view) to the same
number, for every table. -/
theorem C17_mirror (T : EvalTables) (p : Position) : evalT T (mirrorSwap p) = evalT T p :=
  evalT_congr T ⟨rfl, rfl, rfl, rfl, rfl, rfl, rfl, rfl⟩

namespace Spec
/-- Colour swap of a piece. -/
def Piece.swap (pc : Piece) : Piece := ⟨!pc.white, pc.kind⟩
/-- Mirror the ranks and swap the colours of a board. -/
def mirrorBoard (b : Board) : Board := fun a => (b (a ^^^ 56)).map Piece.swap
/-- The colour-swapped mirror image of an absolute position (the mover changes colour as well). -/
def mirrorA (a : APos) : APos :=
  { board := mirrorBoard a.board, whiteToMove := !a.whiteToMove,
    wK := a.bK, wQ := a.bQ, bK := a.wK, bQ := a.wQ,
    ep := a.ep.map (· ^^^ 56), half := a.half, full := a.full }
end Spec

theorem xor56_lt_iff (a : Nat) : a ^^^ 56 < 64 ↔ a < 64 := by
  constructor
  · intro h
    have := flipSq_lt h
    rwa [show flipSq (a ^^^ 56) = a from flipSq_flipSq a] at this
  · exact flipSq_lt

theorem absBoard_mirrorSwap (p : Position) :
    absBoard (mirrorSwap p) = Spec.mirrorBoard (absBoard p) := by
  funext a
  by_cases ha : a < 64
  · have ha' : a ^^^ 56 < 64 := (xor56_lt_iff a).mpr ha
    have hx : a ^^^ 56 ^^^ 56 = a := flipSq_flipSq a
    have hs : absSq (!p.black) a = absSq p.black (a ^^^ 56) := by
      cases p.black
      · rfl
      · exact hx.symm
    simp only [absBoard, Spec.mirrorBoard, mirrorSwap, ha, ha', if_true, hs]
    change (match p.pieceOn (absSq p.black (a ^^^ 56)) with | none => _ | some k => _) = _
    cases p.pieceOn (absSq p.black (a ^^^ 56)) with
    | none => rfl
    | some k =>
      simp only [Bool.not_not]
      by_cases h0 : p.c0.isSet (absSq p.black (a ^^^ 56)) = true
      · simp only [h0, if_true, Option.map_some, Spec.Piece.swap, Bool.not_not]
      · by_cases h1 : p.c1.isSet (absSq p.black (a ^^^ 56)) = true
        · simp [h0, h1, Spec.Piece.swap]
        · simp [h0, h1]
  · have ha' : ¬ a ^^^ 56 < 64 := fun h => ha ((xor56_lt_iff a).mp h)
    simp only [absBoard, Spec.mirrorBoard, ha, ha', if_false, Option.map_none]

/-- `mirrorSwap` on the engine representation is the colour-swapped mirror image of the absolute
position: board, side to move, castling rights, en-passant square, counters. -/
theorem abs_mirrorSwap (p : Position) : abs (mirrorSwap p) = Spec.mirrorA (abs p) := by
  have hb := absBoard_mirrorSwap p
  unfold abs Spec.mirrorA
  simp only [hb]
  have he : Option.map (absSq (!p.black)) p.ep = Option.map (· ^^^ 56) (Option.map (absSq p.black) p.ep) := by
    cases p.ep with
    | none => rfl
    | some s =>
      cases p.black
      · rfl
      · exact congrArg some (flipSq_flipSq s).symm
  cases h : p.black <;> simp [mirrorSwap, h] at he ⊢ <;> exact he

/-- (c) stated through the abstraction only: two engine positions with consistent boards whose
absolute positions are colour-swapped mirror images of each other (board and side to move)
evaluate equally, each from its mover's point of view — for every table. -/
theorem C17_mirror_abs (T : EvalTables) (p q : Position) (hp : Consistent p = true)
    (hq : Consistent q = true) (hb : (abs q).board = Spec.mirrorBoard (abs p).board)
    (ht : (abs q).whiteToMove = !(abs p).whiteToMove) : evalT T q = evalT T p := by
  have hbl : q.black = (mirrorSwap p).black := by
    have : (!q.black) = !(!p.black) := ht
    simp only [mirrorSwap]
    revert this
    cases q.black <;> cases p.black <;> decide
  have hab : absBoard q = absBoard (mirrorSwap p) := by
    rw [absBoard_mirrorSwap]; exact hb
  have hc : Consistent (mirrorSwap p) = true := hp
  rw [evalT_congr T (sameBoards_of_absBoard_eq hq hc hbl hab)]
  exact C17_mirror T p

/-! ## (d) the value lies strictly inside the mate range and nothing overflows `i32`

Hypotheses (all consequences of `Consistent p`, i.e. V.1):
* `PieceDisj p` : the six piece boards are pairwise disjoint — so that the per-kind counts of a side
  add up to at most its number of men;
* `OnMen p` : knights, bishops, rooks and queens stand on occupied squares — `get_phase` counts the
  piece boards, not their intersection with the colour boards;
* either `M16 p` (each side has at most 16 men; sharper constants), or `c0 &&& c1 = 0` (then there
  are at most 64 men, which is still enough).
No other field is read. The proof bounds, per man of a side, `|mg|, |eg| ≤ 1208`
(`900 + 173 + 90 + 20 + 25`) and `|eg − mg| ≤ 157` (`137 + 20`) from the extracted tables, and uses
`256·tapered ≈ 256·mg + phase·(eg − mg)`. -/

/-- At most 16 men a side. -/
def M16 (p : Position) : Prop := count p.c0 ≤ 16 ∧ count p.c1 ≤ 16

/-- Every `i32` quantity computed by `eval` (both `eval_us` results, their difference, the phase,
`256 - phase`, the two products and the numerator of `taper`, the result and its negation) is an
`i32` value. (The partial sums inside `eval_us` are sums of sub-collections of the same terms and
obey the same bound by the same argument, `foldl_add_bnd`.) -/
def EvalNoOverflow (p : Position) : Prop :=
  let a := evalUsT genEvalTables p
  let b := evalUsT genEvalTables p.flip
  let d := a.sub b
  I32 a.1 ∧ I32 a.2 ∧ I32 b.1 ∧ I32 b.2 ∧ I32 d.1 ∧ I32 d.2 ∧ I32 (phase p) ∧
  I32 (256 - phase p) ∧ I32 (d.1 * (256 - phase p)) ∧ I32 (d.2 * phase p) ∧
  I32 (d.1 * (256 - phase p) + d.2 * phase p) ∧ I32 (eval p) ∧ I32 (- eval p)

/-- Generic form: `n` bounds the number of men, `L` the negative excursion of the phase. -/
theorem C17_bounds_gen (p : Position) (hd : PieceDisj p) (n L : Nat)
    (hn : count p.c0 + count p.c1 ≤ n) (hp : -(L : Int) ≤ phase p ∧ phase p ≤ 256)
    (hL : 256 ≤ L) :
    (evalUsT genEvalTables p).Bnd ((n * 1208 : Nat) : Int) ((n * 157 : Nat) : Int) ∧
    (evalUsT genEvalTables p.flip).Bnd ((n * 1208 : Nat) : Int) ((n * 157 : Nat) : Int) ∧
    (let d := (evalUsT genEvalTables p).sub (evalUsT genEvalTables p.flip)
     d.Bnd ((n * 1208 : Nat) : Int) ((n * 157 : Nat) : Int) ∧
     (-((n * 1208 * (256 + L) : Nat) : Int) ≤ d.1 * (256 - phase p) ∧
       d.1 * (256 - phase p) ≤ ((n * 1208 * (256 + L) : Nat) : Int)) ∧
     (-((n * 1208 * L : Nat) : Int) ≤ d.2 * phase p ∧
       d.2 * phase p ≤ ((n * 1208 * L : Nat) : Int)) ∧
     (-((n * 1208 * 256 + n * 157 * L : Nat) : Int) ≤ d.1 * (256 - phase p) + d.2 * phase p ∧
       d.1 * (256 - phase p) + d.2 * phase p ≤ ((n * 1208 * 256 + n * 157 * L : Nat) : Int))) ∧
    (-(((n * 1208 * 256 + n * 157 * L) / 256 : Nat) : Int) ≤ eval p ∧
      eval p ≤ (((n * 1208 * 256 + n * 157 * L) / 256 : Nat) : Int)) := by
  have a := evalUsT_bnd hd
  have b := evalUsT_bnd hd.flip
  rw [Position.flip_c0, count_flipBB] at b
  have hmul1 : (count p.c0 + count p.c1) * 1208 ≤ n * 1208 := Nat.mul_le_mul_right _ hn
  have hmul2 : (count p.c0 + count p.c1) * 157 ≤ n * 157 := Nat.mul_le_mul_right _ hn
  have d : ((evalUsT genEvalTables p).sub (evalUsT genEvalTables p.flip)).Bnd
      ((n * 1208 : Nat) : Int) ((n * 157 : Nat) : Int) := (a.sub b).mono (by omega) (by omega)
  obtain ⟨t1, t2, t3, t4⟩ := taper_bnd d hp hL
  exact ⟨a.mono (by omega) (by omega), b.mono (by omega) (by omega), ⟨d, t1, t2, t3⟩, t4⟩

/-- With at most 16 men a side: both `eval_us` results within `±19328`, their difference within
`±38656` (`eg − mg` within `±5024`), phase in `[-1108, 256]`, the products within `±52 726 784` and
`±42 830 848`, the numerator within `±15 462 528`, the result within `±60 400`. -/
theorem C17_bounds_all (p : Position) (hd : PieceDisj p) (ho : OnMen p) (hm : M16 p) :
    (evalUsT genEvalTables p).Bnd 19328 2512 ∧ (evalUsT genEvalTables p.flip).Bnd 19328 2512 ∧
    ((evalUsT genEvalTables p).sub (evalUsT genEvalTables p.flip)).Bnd 38656 5024 ∧
    (-1108 ≤ phase p ∧ phase p ≤ 256) ∧
    (let d := (evalUsT genEvalTables p).sub (evalUsT genEvalTables p.flip)
     (-52726784 ≤ d.1 * (256 - phase p) ∧ d.1 * (256 - phase p) ≤ 52726784) ∧
     (-42830848 ≤ d.2 * phase p ∧ d.2 * phase p ≤ 42830848) ∧
     (-15462528 ≤ d.1 * (256 - phase p) + d.2 * phase p ∧
       d.1 * (256 - phase p) + d.2 * phase p ≤ 15462528)) ∧
    (-60400 ≤ eval p ∧ eval p ≤ 60400) := by
  obtain ⟨m0, m1⟩ := hm
  have a := evalUsT_bnd hd
  have b := evalUsT_bnd hd.flip
  rw [Position.flip_c0, count_flipBB] at b
  have hp := phase_bnd (p := p) (by have := sum_count_officers_le hd ho; omega)
  obtain ⟨_, _, ⟨d, t1, t2, t3⟩, t4⟩ := C17_bounds_gen p hd 32 1108 (by omega) hp (by decide)
  exact ⟨a.mono (by omega) (by omega), b.mono (by omega) (by omega), d, hp, ⟨t1, t2, t3⟩, t4⟩

/-- (d) The Rust `debug_assert!` in `eval`:
`-MATE_SCORE + MAX_DEPTH < tapered && tapered < MATE_SCORE - MAX_DEPTH`. -/
theorem C17_bound (p : Position) (hd : PieceDisj p) (ho : OnMen p) (hm : M16 p) :
    -(Gen.MATE_SCORE - Gen.MAX_DEPTH) < eval p ∧ eval p < Gen.MATE_SCORE - Gen.MAX_DEPTH := by
  have h := (C17_bounds_all p hd ho hm).2.2.2.2.2
  have e : Gen.MATE_SCORE - Gen.MAX_DEPTH = 999872 := by decide
  rw [e]
  omega

/-- No `i32` overflow in `eval` with at most 16 men a side. -/
theorem C17_no_overflow (p : Position) (hd : PieceDisj p) (ho : OnMen p) (hm : M16 p) :
    EvalNoOverflow p := by
  obtain ⟨a, b, d, hp, ⟨t1, t2, t3⟩, t4⟩ := C17_bounds_all p hd ho hm
  unfold Score.Bnd at a b d
  unfold EvalNoOverflow I32
  simp only
  generalize ((evalUsT genEvalTables p).sub (evalUsT genEvalTables p.flip)).1 * (256 - phase p) = X at *
  generalize ((evalUsT genEvalTables p).sub (evalUsT genEvalTables p.flip)).2 * phase p = Y at *
  omega

/-- The raw phase `24 - N - B - 2R - 4Q` and `raw * 256 + 12` of `get_phase` are `i32` values
(at most 64 officers suffices). -/
theorem C17_phase_no_overflow (p : Position) (hd : PieceDisj p) (ho : OnMen p) :
    let raw : Int := 24 - (count p.p1 : Int) - (count p.p2 : Int) - (count p.p3 : Int) * 2 -
      (count p.p4 : Int) * 4;
    (-232 : Int) ≤ raw ∧ raw ≤ 24 ∧ I32 (raw * 256 + 12) := by
  have := sum_count_officers_le_occ hd ho
  have := count_le_64 (p.c0 ||| p.c1)
  unfold I32
  simp only
  omega

/-! ### from board consistency (V.1) alone: at most 64 men -/

/-- With disjoint colour boards (at most 64 men): both `eval_us` results and their difference within
`±77312` (`eg − mg` within `±10048`), phase in `[-2474, 256]`, products within `±211 061 760` and
`±191 269 888`, numerator within `±44 650 624`, result within `±174 416`. -/
theorem C17_bounds_all_V1 (p : Position) (hd : PieceDisj p) (ho : OnMen p)
    (h01 : p.c0 &&& p.c1 = 0#64) :
    (evalUsT genEvalTables p).Bnd 77312 10048 ∧ (evalUsT genEvalTables p.flip).Bnd 77312 10048 ∧
    ((evalUsT genEvalTables p).sub (evalUsT genEvalTables p.flip)).Bnd 77312 10048 ∧
    (-2474 ≤ phase p ∧ phase p ≤ 256) ∧
    (let d := (evalUsT genEvalTables p).sub (evalUsT genEvalTables p.flip)
     (-211061760 ≤ d.1 * (256 - phase p) ∧ d.1 * (256 - phase p) ≤ 211061760) ∧
     (-191269888 ≤ d.2 * phase p ∧ d.2 * phase p ≤ 191269888) ∧
     (-44650624 ≤ d.1 * (256 - phase p) + d.2 * phase p ∧
       d.1 * (256 - phase p) + d.2 * phase p ≤ 44650624)) ∧
    (-174416 ≤ eval p ∧ eval p ≤ 174416) := by
  have hp := phase_bnd64 (p := p) (by
    have := sum_count_officers_le_occ hd ho
    have := count_le_64 (p.c0 ||| p.c1)
    omega)
  obtain ⟨a, b, ⟨d, t1, t2, t3⟩, t4⟩ :=
    C17_bounds_gen p hd 64 2474 (count_add_le_64 h01) hp (by decide)
  exact ⟨a, b, d, hp, ⟨t1, t2, t3⟩, t4⟩

/-- (d) for every position with consistent boards — no material hypothesis. -/
theorem C17_bound_V1 (p : Position) (hd : PieceDisj p) (ho : OnMen p)
    (h01 : p.c0 &&& p.c1 = 0#64) :
    -(Gen.MATE_SCORE - Gen.MAX_DEPTH) < eval p ∧ eval p < Gen.MATE_SCORE - Gen.MAX_DEPTH := by
  have h := (C17_bounds_all_V1 p hd ho h01).2.2.2.2.2
  have e : Gen.MATE_SCORE - Gen.MAX_DEPTH = 999872 := by decide
  rw [e]
  omega

/-- No `i32` overflow in `eval` for every position with consistent boards. -/
theorem C17_no_overflow_V1 (p : Position) (hd : PieceDisj p) (ho : OnMen p)
    (h01 : p.c0 &&& p.c1 = 0#64) : EvalNoOverflow p := by
  obtain ⟨a, b, d, hp, ⟨t1, t2, t3⟩, t4⟩ := C17_bounds_all_V1 p hd ho h01
  unfold Score.Bnd at a b d
  unfold EvalNoOverflow I32
  simp only
  generalize ((evalUsT genEvalTables p).sub (evalUsT genEvalTables p.flip)).1 * (256 - phase p) = X at *
  generalize ((evalUsT genEvalTables p).sub (evalUsT genEvalTables p.flip)).2 * phase p = Y at *
  omega

theorem bool_onMen : ∀ a0 a1 a2 a3 a4 a5 : Bool,
    ((a1 || a2 || a3 || a4) && !(a0 || a1 || a2 || a3 || a4 || a5)) = false := by decide

theorem PieceDisj_of_Consistent {p : Position} (h : Consistent p = true) : PieceDisj p := by
  unfold Consistent at h
  simp only [Bool.and_eq_true, beq_iff_eq] at h
  obtain ⟨⟨⟨⟨⟨⟨⟨⟨⟨⟨⟨⟨⟨⟨⟨⟨_, h1⟩, h2⟩, h3⟩, h4⟩, h5⟩, h6⟩, h7⟩, h8⟩, h9⟩, h10⟩, h11⟩, h12⟩, h13⟩,
    h14⟩, h15⟩, _⟩ := h
  exact ⟨h1, h2, h3, h4, h5, h6, h7, h8, h9, h10, h11, h12, h13, h14, h15⟩

theorem OnMen_of_Consistent {p : Position} (h : Consistent p = true) : OnMen p := by
  unfold Consistent at h
  simp only [Bool.and_eq_true, beq_iff_eq] at h
  unfold OnMen
  rw [h.2]
  apply BitVec.eq_of_getLsbD_eq
  intro i hi
  simp only [BitVec.getLsbD_and, BitVec.getLsbD_or, BitVec.getLsbD_not, BitVec.getLsbD_zero, hi,
    decide_true, Bool.true_and]
  exact bool_onMen _ _ _ _ _ _

theorem colours_disjoint_of_Consistent {p : Position} (h : Consistent p = true) :
    p.c0 &&& p.c1 = 0#64 := by
  unfold Consistent at h
  simp only [Bool.and_eq_true, beq_iff_eq] at h
  exact h.1.1.1.1.1.1.1.1.1.1.1.1.1.1.1.1

/-- (d), full strength: for EVERY position with consistent boards (V.1 of DESIGN.md §4) the
evaluation lies strictly inside the range reserved for mate scores. -/
theorem C17_bound_consistent (p : Position) (hc : Consistent p = true) :
    -(Gen.MATE_SCORE - Gen.MAX_DEPTH) < eval p ∧ eval p < Gen.MATE_SCORE - Gen.MAX_DEPTH :=
  C17_bound_V1 p (PieceDisj_of_Consistent hc) (OnMen_of_Consistent hc)
    (colours_disjoint_of_Consistent hc)

/-- ... and no `i32` operation of `eval` overflows. -/
theorem C17_no_overflow_consistent (p : Position) (hc : Consistent p = true) : EvalNoOverflow p :=
  C17_no_overflow_V1 p (PieceDisj_of_Consistent hc) (OnMen_of_Consistent hc)
    (colours_disjoint_of_Consistent hc)

/-- On the domain `D = V ∧ E ∧ M` of DESIGN.md §4 the sharper constants of `C17_bounds_all` hold:
`|eval p| ≤ 60400`. -/
theorem C17_bound_InD (p : Position) (h : InD p = true) : -60400 ≤ eval p ∧ eval p ≤ 60400 := by
  unfold InD ValidPos at h
  simp only [Bool.and_eq_true] at h
  have hc : Consistent p = true := h.1.1.1.1.1.1.1.1.1.1
  exact (C17_bounds_all p (PieceDisj_of_Consistent hc) (OnMen_of_Consistent hc)
    (count_le_16_of_LegalMaterial hc h.2)).2.2.2.2.2

/-! ## Non-vacuity: concrete evaluations (kernel-evaluated) -/

/-- The start position without Black's a-pawn (mover = White). -/
def c17PawnUp : Position :=
  { Gen.startpos with c1 := 0xfffe000000000000#64, p0 := 0xfe00000000ff00#64 }

example : eval Gen.startpos = 0 := by decide +kernel
example : eval c17PawnUp = 99 ∧ eval c17PawnUp.flip = -99 := by decide +kernel
example : eval (mirrorSwap c17PawnUp) = 99 := by decide +kernel
example : Consistent c17PawnUp = true ∧ Consistent (mirrorSwap c17PawnUp) = true ∧
    (abs (mirrorSwap c17PawnUp)).whiteToMove = !(abs c17PawnUp).whiteToMove := by decide +kernel
example : eval { c17PawnUp with
                 halfmoves := 7, fullmoves := 31, ep := some 40, usK := false, themQ := false,
                 cf0 := 5, hash := 1#64, frc := true, black := true } = 99 := by decide +kernel
example : (abs (mirrorSwap c17PawnUp)).board 8 = none ∧
    (abs (mirrorSwap c17PawnUp)).board 9 = some ⟨true, .pawn⟩ ∧
    (abs c17PawnUp).board 49 = some ⟨false, .pawn⟩ := by decide +kernel

/-- the hypotheses of (d) hold at the start position and at `c17PawnUp`. -/
example : PieceDisj Gen.startpos ∧ OnMen Gen.startpos ∧ M16 Gen.startpos ∧
    Consistent Gen.startpos = true := by
  unfold PieceDisj OnMen M16; decide +kernel
example : InD Gen.startpos = true := by decide +kernel
example : PieceDisj c17PawnUp ∧ OnMen c17PawnUp ∧ M16 c17PawnUp ∧ Consistent c17PawnUp = true := by
  unfold PieceDisj OnMen M16; decide +kernel

/-- 23 queens: boards consistent, more than 16 men — covered by `C17_bound_consistent`. -/
def c17Queens : Position :=
  { Position.dflt with c0 := 0xffffff#64, c1 := 0x1000000000000000#64, p4 := 0xffffef#64,
                       p5 := 0x1000000000000010#64 }
example : Consistent c17Queens = true ∧ ¬ M16 c17Queens ∧ eval c17Queens = 21792 ∧
    phase c17Queens = -724 := by
  unfold M16; decide +kernel

end Rawr

#print axioms Rawr.C17_antisymmetry
#print axioms Rawr.C17_independent
#print axioms Rawr.C17_independent_fields
#print axioms Rawr.C17_mirror
#print axioms Rawr.abs_mirrorSwap
#print axioms Rawr.C17_mirror_abs
#print axioms Rawr.C17_bounds_gen
#print axioms Rawr.C17_bounds_all
#print axioms Rawr.C17_bound
#print axioms Rawr.C17_no_overflow
#print axioms Rawr.C17_phase_no_overflow
#print axioms Rawr.C17_bounds_all_V1
#print axioms Rawr.C17_bound_V1
#print axioms Rawr.C17_no_overflow_V1
#print axioms Rawr.C17_bound_consistent
#print axioms Rawr.C17_no_overflow_consistent
#print axioms Rawr.C17_bound_InD
