import Rawr.Proofs.BridgePerft
import Rawr.Proofs.BridgeCapture
/-! # C08(c)  `perft` counts the leaves of the game tree of the rules; `is_capture` is "capture" by the rules

`perft d p` (model of `Position::perft`: `1` at depth 0, `count_moves` at depth 1, otherwise the sum over
`legal_moves` of `perft (d-1)` of the successor made with `makemove::<false>`) returns, for every position
of the domain `V ∧ E`, the number `Spec.leaves (abs p) d` of move sequences of length `d` that are legal by
the rules of chess (`Spec.legalMoves`, `Spec.apply`) — and never panics.

Since `makemove::<false>` leaves the stored key stale, the positions below the root violate clause V.8 of
`ValidPos` (and only that clause). The induction therefore runs over `Br.ValidPosNoHash` (= `ValidPos` minus
the key clause = `ValidPos` of the position with its key recomputed); move generation, counting,
`makemove::<false>` and `abs` do not read the key (all by `rfl`, `Proofs/BridgePerft.lean`), so C01, C02
and C08(a) are applied to the key-corrected twin. This was cheaper than re-proving them without V.8.
Ingredients: C08(a) (`count_moves` = number of generated moves), C01 (generated = legal, as a permutation),
C02 (`abs` of the successor = `Spec.apply`, validity preserved), E-closure (`Br.epConsistent_apply`). -/
namespace Rawr
open Position Spec ZH MM SV Br

/-- C08(c) for positions whose stored key may be stale. -/
theorem C08c_perft_nohash (d : Nat) : ∀ (p : Position), ValidPosNoHash p = true →
    Spec.EpConsistent (abs p) = true →
    p.halfmoves + d < 2147483648 → p.fullmoves + d < 2147483648 →
    perft d p = some (Spec.leaves (abs p) d) := by
  induction d with
  | zero => intro p _ _ _ _; rfl
  | succ d ih =>
    intro p hV hE hh hf
    have hV' := (validPosNoHash_iff p).mp hV
    have hperm : ((legalMoves p).map (decodeMove p)).Perm (Spec.legalMoves (abs p)) :=
      (C01_generated_are_legal_moves (fixHash p) hV' hE).1
    cases d with
    | zero =>
      rw [perft.eq_2, C08a_count_eq_legalMoves_length, Spec.leaves.eq_2]
      simp only [Spec.leaves.eq_1]
      rw [sum_map_one, ← hperm.length_eq, List.length_map]
    | succ d =>
      rw [perft.eq_3 p (d + 1) (by omega), Spec.leaves.eq_2]
      have hfold := perft_fold p (d + 1)
        (fun m => Spec.leaves (Spec.apply (abs p) (decodeMove p m)) (d + 1)) (legalMoves p) 0 (by
          intro m hm
          obtain ⟨_, q, hq, hVq, haq, hEq, b1, b2⟩ := step_nohash hV hE hm (by omega) (by omega)
          refine ⟨q, hq, ?_⟩
          rw [← haq]
          exact ih q hVq hEq (by omega) (by omega))
      refine hfold.trans ?_
      rw [Nat.zero_add]
      have := (hperm.map fun M => Spec.leaves (Spec.apply (abs p) M) (d + 1)).sum_nat
      rw [List.map_map] at this
      exact congrArg some this

/-- **C08(c).** On the domain `V ∧ E`, `perft d` is the number of legal move sequences of length `d`. -/
theorem C08c_perft (d : Nat) (p : Position) (hV : ValidPos p = true)
    (hE : Spec.EpConsistent (abs p) = true)
    (hh : p.halfmoves + d < 2147483648) (hf : p.fullmoves + d < 2147483648) :
    perft d p = some (Spec.leaves (abs p) d) :=
  C08c_perft_nohash d p (validPosNoHash_of_valid hV) hE hh hf

/-- in particular `perft` never panics on the domain. -/
theorem C08c_perft_total (d : Nat) (p : Position) (hV : ValidPos p = true)
    (hE : Spec.EpConsistent (abs p) = true)
    (hh : p.halfmoves + d < 2147483648) (hf : p.fullmoves + d < 2147483648) :
    (perft d p).isSome = true := by
  rw [C08c_perft d p hV hE hh hf]; rfl

/-- `go split`: every line `move: n` reports the leaf count below the move prescribed by the rules. -/
theorem C08c_split (d : Nat) (p : Position) (m : Mv) (hV : ValidPos p = true)
    (hE : Spec.EpConsistent (abs p) = true) (hm : m ∈ legalMoves p)
    (hh : p.halfmoves + (d + 1) < 2147483648) (hf : p.fullmoves + (d + 1) < 2147483648) :
    ∃ np, p.makemove m false = some np ∧
      perft d np = some (Spec.leaves (Spec.apply (abs p) (decodeMove p m)) d) := by
  obtain ⟨_, q, hq, hVq, haq, hEq, b1, b2⟩ :=
    step_nohash (validPosNoHash_of_valid hV) hE hm (by omega) (by omega)
  refine ⟨q, hq, ?_⟩
  rw [← haq]
  exact C08c_perft_nohash d q hVq hEq (by omega) (by omega)

/-- **`is_capture` is "capture" by the rules** on generated moves: target occupied, or en passant; castling
("king takes own rook") is not a capture. -/
theorem C08c_isCapture (p : Position) (hV : ValidPos p = true) (m : Mv) (hm : m ∈ legalMoves p) :
    p.isCapture m = Spec.isCaptureMove (abs p) (decodeMove p m) := by
  unfold legalMoves at hm
  rw [List.mem_map] at hm
  obtain ⟨g, hg, rfl⟩ := hm
  exact isCapture_of_genOk hV (gen_shape p hV g hg)

/-- with C08(b): the capture generator yields exactly the generated moves that capture by the rules. -/
theorem C08c_captures (p : Position) (hV : ValidPos p = true) :
    legalCaptures p = (legalMoves p).filter fun m => Spec.isCaptureMove (abs p) (decodeMove p m) := by
  obtain ⟨hC, _⟩ := valid_unpack hV
  simp only [Consistent, Bool.and_eq_true, beq_iff_eq] at hC
  obtain ⟨⟨⟨⟨⟨⟨⟨⟨⟨⟨⟨⟨⟨⟨⟨⟨_, h1⟩, h2⟩, h3⟩, h4⟩, h5⟩, _⟩, _⟩, _⟩, _⟩, _⟩, _⟩, _⟩, _⟩, _⟩, _⟩, _⟩ := hC
  rw [C08b_captures_filter p ⟨h1, h2, h3, h4, h5⟩]
  exact List.filter_congr fun m hm => C08c_isCapture p hV m hm

/-! ## non-vacuity -/

/-- White: Ke1, pawn e2; Black: Ke8. -/
def kpk : Position :=
  mkP false 0x1010#64 0x1000000000000000#64 0x1000#64 0 0 0 0 0x1000000000000010#64 none
    false false false false 7 0 7 0 0 1

example : ValidPos kpk = true ∧ Spec.EpConsistent (abs kpk) = true := by decide +kernel
/-- by the rules of chess there are 6 first moves and 30 sequences of two moves in that position. -/
example : Spec.leaves (abs kpk) 1 = 6 ∧ Spec.leaves (abs kpk) 2 = 30 := by
  have h1 := C08c_perft 1 kpk (by decide +kernel) (by decide +kernel) (by decide +kernel) (by decide +kernel)
  have h2 := C08c_perft 2 kpk (by decide +kernel) (by decide +kernel) (by decide +kernel) (by decide +kernel)
  have e1 : perft 1 kpk = some 6 := by decide +kernel
  have e2 : perft 2 kpk = some 30 := by decide +kernel
  rw [e1] at h1; rw [e2] at h2
  exact ⟨(Option.some.inj h1).symm, (Option.some.inj h2).symm⟩
/-- the start position: 20 and 400. -/
example : Spec.leaves (abs Gen.startpos) 2 = 400 := by
  have h2 := C08c_perft 2 Gen.startpos (by decide +kernel) (by decide +kernel) (by decide +kernel)
    (by decide +kernel)
  have e2 : perft 2 Gen.startpos = some 400 := by decide +kernel
  rw [e2] at h2
  exact (Option.some.inj h2).symm
/-- en passant is a capture by both definitions, with an empty target square (`c01Ep` of C01). -/
example : c01Ep.isCapture ⟨36, 43, 6⟩ = true ∧
    Spec.isCaptureMove (abs c01Ep) (decodeMove c01Ep ⟨36, 43, 6⟩) = true ∧ (abs c01Ep).board 43 = none := by
  decide +kernel
/-- castling is not (`exK` of C02: king f8 "takes" rook g8). -/
example : exK.isCapture ⟨5, 6, 6⟩ = false ∧ (⟨5, 6, 6⟩ : Mv) ∈ legalMoves exK := by decide +kernel

#print axioms C08c_perft_nohash
#print axioms C08c_perft
#print axioms C08c_perft_total
#print axioms C08c_split
#print axioms C08c_isCapture
#print axioms C08c_captures

end Rawr
