import Rawr.Proofs.DrawLemmas
/-! # C11 — a root all of whose moves lead to positions drawn by rule

"If every legal move of the root leads to a position that is drawn by rule, because the fifty-move counter
reaches 100 or because the resulting position has already occurred in the game since the last capture or pawn
move, then a search of depth two or more started with an empty transposition table reports the engine's fixed
draw score, the same constant for all such roots, at every iteration from depth two on. It still returns a
legal move."

Statements about the model (`negamax`, `rootIter`, `root` of `Rawr/Model/Search.lean`), with the hypotheses
stated on the model as well (the bridge to the rules of chess is made by other properties):

1. `child_draw_returns` — a non-root call on a position drawn by rule returns `DRAW_SCORE` and touches only the
   counters `seldepth`, `polls`;
2. `C11_repetition_iff` — the repetition test as an index condition on the history;
3. `C11_root_all_children_drawn` — the root call of an iteration of depth ≥ 2 returns `-DRAW_SCORE`, records a
   legal move, writes only its own table entry (total form: the call is shown to return);
4. `C11_iterations` — `root (.depth D)`: one info record per depth `1 … D`, score `-DRAW_SCORE` in every record
   of depth ≥ 2, a legal best move.

The reported score is `-DRAW_SCORE = 50`: the draw constant is scored from the child's point of view. -/
namespace Rawr
open DM

/-! ## 1. the drawn child -/

/-- **C11.1** A non-root call (`ply ≥ 1`) with remaining depth ≥ 1 after the check extension, no table entry
under the position's key, a poll that answers `false`, on a position with `halfmoves ≥ 100` or whose key is
found twice by the repetition test: returns `DRAW_SCORE`; the state changes in `seldepth` and `polls` only
(no table write, history and best move unchanged). -/
theorem child_draw_returns (lim : Limit) (fuel : Nat) (c : Position) (st : SState) (α β ply depth : Int)
    (cn : Bool) (hply : 1 ≤ ply) (hdepth : 1 ≤ (if c.inCheck then depth + 1 else depth))
    (hnohit : (st.tt.poll c.hash.toNat).map (·.hash) ≠ some c.hash)
    (hlim : (shouldStop lim st).1 = false)
    (hdraw : c.halfmoves ≥ 100 ∨ repCount st.hist c.halfmoves c.hash ≥ 2) :
    negamax lim (fuel + 1) c st α β ply depth cn =
      some (Gen.DRAW_SCORE, { st with seldepth := max st.seldepth ply, polls := st.polls + 1 }) := by
  rw [negamax_drawn_child_eq lim fuel c st α β ply depth cn hply hnohit hlim hdraw, if_neg (by omega)]

/-- the same for a depth limit not yet exceeded … -/
theorem child_draw_returns_depth (d : Int) (fuel : Nat) (c : Position) (st : SState) (α β ply depth : Int)
    (cn : Bool) (hply : 1 ≤ ply) (hdepth : 1 ≤ (if c.inCheck then depth + 1 else depth))
    (hnohit : (st.tt.poll c.hash.toNat).map (·.hash) ≠ some c.hash) (hlim : st.depth ≤ d)
    (hdraw : c.halfmoves ≥ 100 ∨ repCount st.hist c.halfmoves c.hash ≥ 2) :
    negamax (.depth d) (fuel + 1) c st α β ply depth cn =
      some (Gen.DRAW_SCORE, { st with seldepth := max st.seldepth ply, polls := st.polls + 1 }) :=
  child_draw_returns _ fuel c st α β ply depth cn hply hdepth hnohit (shouldStop_quiet (lim := .depth d) hlim) hdraw

/-- … and for `go infinite`. -/
theorem child_draw_returns_infinite (fuel : Nat) (c : Position) (st : SState) (α β ply depth : Int)
    (cn : Bool) (hply : 1 ≤ ply) (hdepth : 1 ≤ (if c.inCheck then depth + 1 else depth))
    (hnohit : (st.tt.poll c.hash.toNat).map (·.hash) ≠ some c.hash)
    (hdraw : c.halfmoves ≥ 100 ∨ repCount st.hist c.halfmoves c.hash ≥ 2) :
    negamax .infinite (fuel + 1) c st α β ply depth cn =
      some (Gen.DRAW_SCORE, { st with seldepth := max st.seldepth ply, polls := st.polls + 1 }) :=
  child_draw_returns _ fuel c st α β ply depth cn hply hdepth hnohit rfl hdraw

namespace DM
/-- an all-default table slot is not a hit for a non-zero key. -/
theorem nohit_of_default (T : Table TTEntry) (k : BB) (hk : k ≠ 0#64) (h : T.poll k.toNat = some default) :
    (T.poll k.toNat).map (·.hash) ≠ some k := by
  rw [h]
  simp only [Option.map_some, ne_eq, Option.some.injEq]
  exact fun h' => hk h'.symm
end DM

/-! ## 2. the repetition test -/

/-- **C11.2** `h` holds one key per earlier position of the game, most recent first; the child's own key `k` has
been pushed on top. The test `repCount (k :: h) halfmoves k ≥ 2` of `negamax` fires iff `k` occurs in `h` at an
odd index `2 i + 1` (a position with the same side to move) with `2 i + 1 < halfmoves`, i.e. among the positions
back to and including the one that followed the last irreversible move (which has clock 0 and is the
`halfmoves`-th entry counted from the child). -/
theorem C11_repetition_iff (k : BB) (h : List BB) (halfmoves : Int) :
    repCount (k :: h) halfmoves k ≥ 2 ↔ ∃ i, 2 * i + 1 < halfmoves.toNat ∧ h[2 * i + 1]? = some k :=
  repCount_cons_ge_two k h halfmoves

namespace DM
/-- "the resulting position has already occurred since the last irreversible move" as a hypothesis on a child. -/
def OccurredBefore (H : List BB) (c : Position) : Prop :=
  ∃ i, 2 * i + 1 < c.halfmoves.toNat ∧ H[2 * i + 1]? = some c.hash

theorem drawnChild_of_occurred {H : List BB} {T : Table TTEntry} {c : Position}
    (h : c.halfmoves ≥ 100 ∨ OccurredBefore H c) (hT : (T.poll c.hash.toNat).map (·.hash) ≠ some c.hash) :
    DrawnChild H T c :=
  ⟨h.imp id (C11_repetition_iff c.hash H c.halfmoves).2, hT⟩
end DM

/-! ## 3. the root call -/

/-- **C11.3** The root call (`ply = 0`, full window) of an iteration whose depth after the check extension is
≥ 2, with a limit that does not stop it, at least one and at most 218 legal moves, every one of which can be
made and leads to a `DrawnChild` (drawn by rule with its key pushed on the root's history; no table entry under
its key): the call returns `-DRAW_SCORE`, the recorded best move `m₀` is legal, history and `depth` are
unchanged, and the table is the old one plus the root's own (exact) entry. Every child is searched with
remaining depth ≥ 1 — the first with the full window, the later ones with the null window `(-alpha-1, -alpha)` —
and answers `DRAW_SCORE` by C11.1; no later score is strictly greater than the first, so there is no re-search
and `m₀` is the first move in ordered sequence. -/
theorem C11_root_all_children_drawn (lim : Limit) (fuel : Nat) (p : Position) (st : SState) (depth : Int)
    (hdepth : 2 ≤ (if p.inCheck then depth + 1 else depth))
    (hlim : QuietAt lim st.depth)
    (hlen : (legalMoves p).length ≤ Gen.orderBufNegamax)
    (hne : legalMoves p ≠ [])
    (hch : ∀ m ∈ legalMoves p, ∃ c, p.makemove m true = some c ∧ DrawnChild st.hist st.tt c) :
    ∃ m₀ st', m₀ ∈ legalMoves p ∧
      negamax lim (fuel + 2) p st (-Gen.INF) Gen.INF 0 depth false = some (-Gen.DRAW_SCORE, st') ∧
      st'.best = some m₀ ∧ st'.hist = st.hist ∧ st'.depth = st.depth ∧
      st.tt.add p.hash.toNat ⟨p.hash, m₀, -Gen.DRAW_SCORE, if p.inCheck then depth + 1 else depth, 0⟩ =
        some st'.tt :=
  root_all_children_drawn lim fuel p st depth hdepth hlim hlen hne hch

/-- C11.3 with the hypotheses spelled out as in the property text: fifty-move counter or earlier occurrence. -/
theorem C11_root_all_children_drawn' (D : Int) (fuel : Nat) (p : Position) (st : SState) (depth : Int)
    (hdepth : 2 ≤ depth) (hD : st.depth ≤ D)
    (hlen : (legalMoves p).length ≤ Gen.orderBufNegamax)
    (hne : legalMoves p ≠ [])
    (hch : ∀ m ∈ legalMoves p, ∃ c, p.makemove m true = some c ∧
      (c.halfmoves ≥ 100 ∨ OccurredBefore st.hist c) ∧ (st.tt.poll c.hash.toNat).map (·.hash) ≠ some c.hash) :
    ∃ m₀ st', m₀ ∈ legalMoves p ∧
      negamax (.depth D) (fuel + 2) p st (-Gen.INF) Gen.INF 0 depth false = some (-Gen.DRAW_SCORE, st') ∧
      st'.best = some m₀ ∧ st'.hist = st.hist :=
  let ⟨m₀, st', h1, h2, h3, h4, _⟩ := root_all_children_drawn (.depth D) fuel p st depth
    (by split <;> omega) hD hlen hne
    (fun m hm => let ⟨c, hmk, hdr, hT⟩ := hch m hm; ⟨c, hmk, drawnChild_of_occurred hdr hT⟩)
  ⟨m₀, st', h1, h2, h3, h4⟩

/-! ## 4. the iterations -/

/-- **C11.4** `go depth D` with `2 ≤ D < MAX_DEPTH` on a root satisfying `AllChildrenDrawn` (a legal move
exists; every legal move can be made and leads to a position drawn by rule, with a key different from the
root's; at most 218 moves; the static evaluation is below `INF` in absolute value on the capture trees of the
children — iteration 1 sends them to quiescence and must get a score above `-INF` to record a move), started
on a table with no entry under a child's key: if the driver returns (iteration 1 runs quiescence, whose
definedness is the subject of C19; iterations 2 … D are shown to return), then the best move is a legal move,
there is exactly one info record per depth `1, 2, …, D`, and every record of depth ≥ 2 carries the score
`-DRAW_SCORE`. -/
theorem C11_iterations (D : Int) (hD2 : 2 ≤ D) (hD : D < Gen.MAX_DEPTH) (fuel : Nat) (p : Position)
    (hist : List BB) (tt : Table TTEntry) (Bd : Int) (hBd : Bd < Gen.INF)
    (hyp : AllChildrenDrawn Bd p hist) (hT : NoChildHit p tt) (res : RootResult)
    (h : root (.depth D) (fuel + 2) p hist tt = some res) :
    (∃ m ∈ legalMoves p, res.best = some m) ∧
    res.infos.map (·.depth) = (List.range D.toNat).map (fun i : Nat => (i : Int) + 1) ∧
    ∀ r ∈ res.infos, 2 ≤ r.depth → r.score = -Gen.DRAW_SCORE := by
  have hD' : D < 128 := hD
  unfold root at h
  rw [show Gen.MAX_DEPTH.toNat = 127 + 1 from rfl] at h
  generalize hn : (127 : Nat) = n at h
  simp only [rootIter, if_neg (show ¬ (1 : Int) ≥ Gen.MAX_DEPTH by decide)] at h
  split at h
  · simp at h
  rename_i score s1 hcall
  -- iteration 1: a legal move is recorded, only the root's entry is written
  obtain ⟨m₀, e, hm₀, hb1, hh1, hd1, he, hadd⟩ := root_drawn_children_frame (.depth D) fuel p _ 1 Bd hBd
    (by split <;> omega) (by show (1 : Int) ≤ D; omega) hyp.ne
    (fun m hm c hmk => by
      obtain ⟨c', hmk', hdr, _, hq⟩ := hyp.child m hm
      rw [hmk] at hmk'; cases hmk'
      exact ⟨⟨hdr, hT m hm c hmk⟩, hq⟩) score s1 hcall
  simp only [hb1, if_neg (show ¬ (1 : Int) > 1 by decide), Bool.false_eq_true, ↓reduceIte] at h
  -- iterations 2 … D, and the stop in iteration D + 1
  obtain ⟨res', new, hres, hbest, hinfos, hdepths, hscores⟩ := rootIter_drawn D hD' fuel p hist Bd hyp n (1 + 1)
    s1 m₀ [⟨s1.depth, s1.seldepth, s1.nodes, score, s1.tt.hashfull, [m₀]⟩]
    (by omega) (by omega) (by omega) hh1
    (hT.add (fun m hm c hmk => by
      obtain ⟨c', hmk', _, hne, _⟩ := hyp.child m hm
      rw [hmk] at hmk'; cases hmk'; rw [he]; exact hne) hadd) hb1 hm₀
  rw [hres] at h
  cases h
  refine ⟨hbest, ?_, ?_⟩
  · rw [hinfos, List.reverse_singleton, List.map_append, hdepths]
    have e1 : D.toNat = (D + 1 - (1 + 1)).toNat + 1 := by omega
    rw [e1, List.range_succ_eq_map]
    simp only [List.map_cons, List.map_map, List.map_nil, List.singleton_append, Int.natCast_zero, Int.zero_add,
      List.cons.injEq]
    refine ⟨hd1, ?_⟩
    apply List.map_congr_left
    intro i _
    simp only [Function.comp, Nat.succ_eq_add_one, Int.natCast_add, Int.natCast_one]
    omega
  · intro r hr h2
    rw [hinfos, List.reverse_singleton, List.singleton_append] at hr
    rcases List.mem_cons.1 hr with rfl | hr
    · exfalso
      have : s1.depth = 1 := hd1
      simp only at h2
      omega
    · exact hscores r hr

/-- C11.4 in the words of the property: `D` records, the draw score from depth two on, a legal move. -/
theorem C11_iterations_count (D : Int) (hD2 : 2 ≤ D) (hD : D < Gen.MAX_DEPTH) (fuel : Nat) (p : Position)
    (hist : List BB) (tt : Table TTEntry) (Bd : Int) (hBd : Bd < Gen.INF)
    (hyp : AllChildrenDrawn Bd p hist) (hT : NoChildHit p tt) (res : RootResult)
    (h : root (.depth D) (fuel + 2) p hist tt = some res) :
    res.infos.length = D.toNat ∧ (∀ r ∈ res.infos, 2 ≤ r.depth → r.score = -Gen.DRAW_SCORE) ∧
    (∀ d : Int, 2 ≤ d → d ≤ D → ∃ r ∈ res.infos, r.depth = d ∧ r.score = -Gen.DRAW_SCORE) ∧
    ∃ m ∈ legalMoves p, res.best = some m := by
  obtain ⟨h1, h2, h3⟩ := C11_iterations D hD2 hD fuel p hist tt Bd hBd hyp hT res h
  refine ⟨?_, h3, ?_, h1⟩
  · have := congrArg List.length h2
    simpa using this
  · intro d hd2 hdD
    have hmem : d ∈ res.infos.map (·.depth) := by
      rw [h2, List.mem_map]
      exact ⟨(d - 1).toNat, List.mem_range.2 (by omega), by omega⟩
    obtain ⟨r, hr, hrd⟩ := List.mem_map.1 hmem
    exact ⟨r, hr, hrd, h3 r hr (by rw [hrd]; exact hd2)⟩

/-- C11.4 for the empty table of the property text (freshly allocated, any size — also zero slots):
it suffices that no child has key 0 (the key of an empty slot). -/
theorem C11_iterations_new_table (D : Int) (hD2 : 2 ≤ D) (hD : D < Gen.MAX_DEPTH) (fuel : Nat) (p : Position)
    (hist : List BB) (mb : Nat) (Bd : Int) (hBd : Bd < Gen.INF)
    (hyp : AllChildrenDrawn Bd p hist)
    (h0 : ∀ m ∈ legalMoves p, ∀ c, p.makemove m true = some c → c.hash ≠ 0#64) (res : RootResult)
    (h : root (.depth D) (fuel + 2) p hist (Table.new mb Gen.ttEntrySize) = some res) :
    (∃ m ∈ legalMoves p, res.best = some m) ∧
    res.infos.map (·.depth) = (List.range D.toNat).map (fun i : Nat => (i : Int) + 1) ∧
    ∀ r ∈ res.infos, 2 ≤ r.depth → r.score = -Gen.DRAW_SCORE :=
  C11_iterations D hD2 hD fuel p hist _ Bd hBd hyp (NoChildHit_new p mb h0) res h

/-! ## decision procedures for the hypotheses -/
namespace DM


def allChildrenDrawnB (Bd : Int) (p : Position) (H : List BB) : Bool :=
  !(legalMoves p).isEmpty && decide ((legalMoves p).length ≤ Gen.orderBufNegamax) &&
    (legalMoves p).all fun m =>
      match p.makemove m true with
      | none => false
      | some c => (decide (c.halfmoves ≥ 100) || decide (repCount (c.hash :: H) c.halfmoves c.hash ≥ 2)) &&
          c.hash != p.hash && qEvalOkB Bd qFuel c

theorem allChildrenDrawn_of_B {Bd : Int} {p : Position} {H : List BB} (h : allChildrenDrawnB Bd p H = true) :
    AllChildrenDrawn Bd p H := by
  simp only [allChildrenDrawnB, Bool.and_eq_true, Bool.not_eq_true', List.isEmpty_eq_false_iff,
    decide_eq_true_eq, List.all_eq_true] at h
  obtain ⟨⟨h1, h2⟩, h3⟩ := h
  refine ⟨h1, h2, fun m hm => ?_⟩
  have := h3 m hm
  cases hmk : p.makemove m true with
  | none => rw [hmk] at this; cases this
  | some c =>
    rw [hmk] at this
    simp only [Bool.and_eq_true, Bool.or_eq_true, decide_eq_true_eq, bne_iff_ne, ne_eq] at this
    exact ⟨c, rfl, this.1.1, this.1.2, (qEvalOkB_iff _ _ _).1 this.2⟩

def noChildHitB (p : Position) (T : Table TTEntry) : Bool :=
  (legalMoves p).all fun m =>
    match p.makemove m true with
    | none => true
    | some c => (T.poll c.hash.toNat).map (·.hash) != some c.hash

theorem noChildHit_of_B {p : Position} {T : Table TTEntry} (h : noChildHitB p T = true) : NoChildHit p T := by
  simp only [noChildHitB, List.all_eq_true] at h
  intro m hm c hmk
  have := h m hm
  rw [hmk] at this
  simpa using this
end DM

/-! ## non-vacuity -/
namespace C11Ex

/-- white Ka1, black Kh8, white to move, fifty-move counter `hm` (three legal moves, all quiet king moves). -/
def kk (hm : Int) : Position :=
  { c0 := 0x1#64, c1 := 0x8000000000000000#64,
    p0 := 0#64, p1 := 0#64, p2 := 0#64, p3 := 0#64, p4 := 0#64, p5 := 0x8000000000000001#64,
    halfmoves := hm, fullmoves := 60, black := false, ep := none,
    usK := false, usQ := false, themK := false, themQ := false,
    cf0 := 7, cf1 := 0, cf2 := 7, cf3 := 0, hash := 0x1234#64, frc := false }

def tt3 : Table TTEntry := ⟨#[default, default, default]⟩

/-- a history in which each of the three children of `kk 10` (keys below) occurs at an odd index. -/
def histRep : List BB :=
  [0x1234#64, 0xe1c4b3d65d7863bb#64, 5#64, 0x2c10afd3f8ad4e99#64, 6#64, 0x1ff8176fd435c242#64]

/-- the child of `kk 99` after Ka1-b1: clock 100. -/
def kk99b1 : Position := ((kk 99).makemove ⟨0, 1, 6⟩ true).getD (kk 0)

/-- C11.1 applies to the child Kb1 of `kk 99` (fifty-move clause) at ply 1 with remaining depth 1. -/
example : negamax (.depth 2) 1 kk99b1 ⟨[kk99b1.hash], tt3, 2, 0, 1, none, 0⟩ (-Gen.INF) Gen.INF 1 1 true =
    some (Gen.DRAW_SCORE, ⟨[kk99b1.hash], tt3, 2, 1, 1, none, 1⟩) :=
  child_draw_returns_depth 2 0 kk99b1 _ _ _ 1 1 true (by decide) (by decide +kernel) (by decide +kernel)
    (by decide) (Or.inl (by decide +kernel))

/-- C11.2 on a concrete history: both sides hold (key 7 at index 1 < 3) … -/
example : repCount (7#64 :: [1#64, 7#64, 2#64]) 3 7#64 ≥ 2 ∧ ∃ i, 2 * i + 1 < (3 : Int).toNat ∧
    [1#64, 7#64, 2#64][2 * i + 1]? = some 7#64 :=
  ⟨by decide, 0, by decide, by decide⟩

/-- … and both sides fail when the occurrence lies beyond the window (clock 1: index 1 is not below 1). -/
example : ¬ repCount (7#64 :: [1#64, 7#64, 2#64]) 1 7#64 ≥ 2 := by decide

theorem kk99_hyp : AllChildrenDrawn 1000 (kk 99) [] := allChildrenDrawn_of_B (by decide +kernel)
theorem kk10_hyp : AllChildrenDrawn 1000 (kk 10) histRep := allChildrenDrawn_of_B (by decide +kernel)
theorem kk99_tt : NoChildHit (kk 99) tt3 := noChildHit_of_B (by decide +kernel)
theorem kk10_tt : NoChildHit (kk 10) tt3 := noChildHit_of_B (by decide +kernel)

/-- C11.3 on `kk 99` (every move reaches clock 100), iteration 2, and on `kk 10` with the history `histRep`
(every move repeats an earlier position; the clock is far from 100). -/
example : ∃ m₀ st', m₀ ∈ legalMoves (kk 99) ∧
    negamax (.depth 2) 2 (kk 99) ⟨[], tt3, 2, 0, 0, none, 0⟩ (-Gen.INF) Gen.INF 0 2 false = some (50, st') ∧
    st'.best = some m₀ := by
  obtain ⟨m₀, st', h1, h2, h3, _⟩ := C11_root_all_children_drawn (.depth 2) 0 (kk 99) ⟨[], tt3, 2, 0, 0, none, 0⟩ 2
    (by decide +kernel) (show (2 : Int) ≤ 2 by decide) kk99_hyp.len kk99_hyp.ne (kk99_hyp.drawn kk99_tt)
  exact ⟨m₀, st', h1, h2, h3⟩

example : ∃ m₀ st', m₀ ∈ legalMoves (kk 10) ∧
    negamax .infinite 2 (kk 10) ⟨histRep, tt3, 5, 0, 0, none, 0⟩ (-Gen.INF) Gen.INF 0 5 false = some (50, st') ∧
    st'.best = some m₀ := by
  obtain ⟨m₀, st', h1, h2, h3, _⟩ := C11_root_all_children_drawn .infinite 0 (kk 10)
    ⟨histRep, tt3, 5, 0, 0, none, 0⟩ 5
    (by decide +kernel) trivial kk10_hyp.len kk10_hyp.ne (kk10_hyp.drawn kk10_tt)
  exact ⟨m₀, st', h1, h2, h3⟩

/-- the repetition hypothesis of `kk 10` in the index form of C11.2. -/
example : ∀ m ∈ legalMoves (kk 10), ∃ c, (kk 10).makemove m true = some c ∧ OccurredBefore histRep c := by
  intro m hm
  obtain ⟨c, hmk, hdr, _⟩ := kk10_hyp.child m hm
  refine ⟨c, hmk, ?_⟩
  rcases hdr with h100 | hrep
  · exfalso
    have : ∀ m ∈ legalMoves (kk 10), ∀ c, (kk 10).makemove m true = some c → c.halfmoves < 100 := by
      decide +kernel
    have := this m hm c hmk
    omega
  · exact (C11_repetition_iff _ _ _).1 hrep

/-- C11.4 on `kk 99`, `go depth 3`, three-slot empty table: the driver returns, and the theorem gives three
records (depths 1, 2, 3), score 50 in the last two, and a legal best move. -/
example : ∃ res, root (.depth 3) 2 (kk 99) [] tt3 = some res ∧
    (∃ m ∈ legalMoves (kk 99), res.best = some m) ∧ res.infos.map (·.depth) = [1, 2, 3] ∧
    ∀ r ∈ res.infos, 2 ≤ r.depth → r.score = 50 := by
  have h : (root (.depth 3) 2 (kk 99) [] tt3).isSome = true := by decide +kernel
  obtain ⟨res, h1⟩ := Option.isSome_iff_exists.1 h
  exact ⟨res, h1, C11_iterations 3 (by decide) (by decide) 0 (kk 99) [] tt3 1000 (by decide) kk99_hyp kk99_tt res h1⟩

/-- the same with a freshly allocated table (here: zero slots) and the repetition hypothesis. -/
example : ∃ res, root (.depth 2) 2 (kk 10) histRep (Table.new 0 Gen.ttEntrySize) = some res ∧
    (∃ m ∈ legalMoves (kk 10), res.best = some m) ∧ res.infos.map (·.depth) = [1, 2] ∧
    ∀ r ∈ res.infos, 2 ≤ r.depth → r.score = 50 := by
  have h : (root (.depth 2) 2 (kk 10) histRep (Table.new 0 Gen.ttEntrySize)).isSome = true := by decide +kernel
  obtain ⟨res, h1⟩ := Option.isSome_iff_exists.1 h
  exact ⟨res, h1, C11_iterations_new_table 2 (by decide) (by decide) 0 (kk 10) histRep 0 1000 (by decide) kk10_hyp
    (by decide +kernel) res h1⟩

/-- iteration 1 is outside the claim for a reason: its score is a quiescence value, not the draw score. -/
example : ((root (.depth 3) 2 (kk 99) [] tt3).map fun r => r.infos.map (·.score)) = some [21, 50, 50] := by
  decide +kernel

end C11Ex

end Rawr

#print axioms Rawr.child_draw_returns
#print axioms Rawr.C11_repetition_iff
#print axioms Rawr.C11_root_all_children_drawn
#print axioms Rawr.C11_root_all_children_drawn'
#print axioms Rawr.C11_iterations
#print axioms Rawr.C11_iterations_count
#print axioms Rawr.C11_iterations_new_table
