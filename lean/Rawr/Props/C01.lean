import Rawr.Proofs.GenAssemble
/-!
# C01 — the generated moves are exactly the legal moves

"For every position the engine accepts … whose en-passant square (if any) is consistent with a double pawn
push having just been played, the moves the engine generates are exactly the legal moves under the rules
of chess. Nothing illegal is produced … and nothing legal is missing. Every promotion appears once per
promotion piece and no move appears twice."

`C01_generated_are_legal_moves`: on the domain `V ∧ E` (`ValidPos p`, `Spec.EpConsistent (abs p)`) the list
`legal_moves()` of the engine, decoded move by move (`decodeMove`: relative squares ↦ absolute squares,
"king takes own rook" ↦ `Move.castle`, promotion field ↦ promotion piece), is a permutation of
`Spec.legalMoves (abs p)` — the coordinate-based enumeration of the rules in `Spec/Chess.lean` — and has no
repetitions. It is assembled from the class theorems

* king steps, castling: `C01_king_steps`, `C01_castling`, `C01_castling_moves` (`Props/C01_king.lean`);
* knights, bishops, rooks, queens: `C01_knights` … `C01_queens` (`Props/C01_pieces.lean`, safety lemma);
* pawn pushes, double pushes, captures, promotions ×4: `C01_pawns` (`Props/C01_pawns.lean`);
* en passant: `C01_ep` (`Props/C01_ep.lean`; the only user of hypothesis E, false without it);
* shape and no duplicates on the engine side: `gen_shape`, `gen_nodup` (`Props/C01_shape.lean`);
* no duplicates on the rules' side: `spec_legalMoves_nodup` (`Proofs/SpecNodup.lean`).

Corollaries: the callback form (`move_generator`), membership both ways with `encodeMove`/`decodeMove`
inverse to each other on legal moves, equal counts, "no legal move" on both sides.
-/
namespace Rawr
open Spec Att

/-- `decodeMove` is injective on the generated moves. -/
theorem decode_injOn (p : Position) (hV : ValidPos p = true) :
    ∀ m1 ∈ legalMoves p, ∀ m2 ∈ legalMoves p, decodeMove p m1 = decodeMove p m2 → m1 = m2 := by
  intro m1 h1 m2 h2 e
  unfold legalMoves at h1 h2
  rw [List.mem_map] at h1 h2
  obtain ⟨g1, hg1, rfl⟩ := h1
  obtain ⟨g2, hg2, rfl⟩ := h2
  rw [← encode_decode hV g1 hg1, ← encode_decode hV g2 hg2, e]

/-- membership, both directions. -/
theorem C01_mem (p : Position) (hV : ValidPos p = true) (hE : Spec.EpConsistent (abs p) = true) (M : Move) :
    M ∈ (legalMoves p).map (decodeMove p) ↔ M ∈ Spec.legalMoves (abs p) := by
  unfold legalMoves
  rw [List.map_map]
  constructor
  · intro h
    rw [List.mem_map] at h
    obtain ⟨g, hg, rfl⟩ := h
    exact gen_decode_legal hV hE g hg
  · intro h
    obtain ⟨g, hg, hdec⟩ := legal_is_generated hV hE M h
    exact List.mem_map.mpr ⟨g, hg, hdec⟩

/-- **C01.** -/
theorem C01_generated_are_legal_moves (p : Position) (hV : ValidPos p = true)
    (hE : Spec.EpConsistent (abs p) = true) :
    ((legalMoves p).map (decodeMove p)).Perm (Spec.legalMoves (abs p)) ∧ (legalMoves p).Nodup := by
  have hnd := gen_nodup p hV
  have hnd' : ((legalMoves p).map (decodeMove p)).Nodup := nodup_map_inj _ hnd (decode_injOn p hV)
  exact ⟨(List.perm_ext_iff_of_nodup hnd' (spec_legalMoves_nodup _)).mpr (C01_mem p hV hE), hnd⟩

/-- the callback form: `move_generator` invokes its callback once per legal move, with the moving piece as
the `piece` argument, and never twice with the same arguments. -/
theorem C01_callback (p : Position) (hV : ValidPos p = true) (hE : Spec.EpConsistent (abs p) = true) :
    ((moveGenerator p).map fun g => decodeMove p g.mv).Perm (Spec.legalMoves (abs p)) ∧
    (moveGenerator p).Nodup ∧
    ∀ g ∈ moveGenerator p, p.pieceOn g.mv.src = some g.piece ∧ p.c0.isSet g.mv.src = true := by
  have h := (C01_generated_are_legal_moves p hV hE).1
  unfold legalMoves at h
  rw [List.map_map] at h
  exact ⟨h, gen_nodup_callback p hV, fun g hg => ⟨(gen_shape p hV g hg).tag, (gen_shape p hV g hg).own⟩⟩

/-- engine move ↦ rule move: legal, and `encodeMove` recovers it. -/
theorem C01_sound (p : Position) (hV : ValidPos p = true) (hE : Spec.EpConsistent (abs p) = true)
    (m : Mv) (hm : m ∈ legalMoves p) :
    decodeMove p m ∈ Spec.legalMoves (abs p) ∧ encodeMove p (decodeMove p m) = m := by
  refine ⟨(C01_mem p hV hE _).mp (List.mem_map.mpr ⟨m, hm, rfl⟩), ?_⟩
  unfold legalMoves at hm
  rw [List.mem_map] at hm
  obtain ⟨g, hg, rfl⟩ := hm
  exact encode_decode hV g hg

/-- rule move ↦ engine move: generated, and `decodeMove` recovers it. -/
theorem C01_complete (p : Position) (hV : ValidPos p = true) (hE : Spec.EpConsistent (abs p) = true)
    (M : Move) (hM : M ∈ Spec.legalMoves (abs p)) :
    encodeMove p M ∈ legalMoves p ∧ decodeMove p (encodeMove p M) = M := by
  obtain ⟨g, hg, rfl⟩ := legal_is_generated hV hE M hM
  rw [encode_decode hV g hg]
  exact ⟨List.mem_map.mpr ⟨g, hg, rfl⟩, rfl⟩

/-- as many generated moves as legal moves. -/
theorem C01_count (p : Position) (hV : ValidPos p = true) (hE : Spec.EpConsistent (abs p) = true) :
    (legalMoves p).length = (Spec.legalMoves (abs p)).length := by
  rw [← (C01_generated_are_legal_moves p hV hE).1.length_eq, List.length_map]

/-- the engine finds no move iff there is none (mate or stalemate). -/
theorem C01_no_moves (p : Position) (hV : ValidPos p = true) (hE : Spec.EpConsistent (abs p) = true) :
    legalMoves p = [] ↔ Spec.legalMoves (abs p) = [] := by
  rw [← List.length_eq_zero_iff, ← List.length_eq_zero_iff, C01_count p hV hE]

/-- each promotion once per promotion piece: the four decoded promotions of a pawn move are distinct legal
moves and occur once each. -/
theorem C01_promotions_once (p : Position) (hV : ValidPos p = true) (f t : Nat) :
    [gm 0 f t 4, gm 0 f t 3, gm 0 f t 2, gm 0 f t 1].Nodup ∧
    ∀ pr, (moveGenerator p).count (gm 0 f t pr) ≤ 1 := by
  refine ⟨by simp [gm], fun pr => ?_⟩
  exact List.nodup_iff_count.mp (gen_nodup_callback p hV) _

/-! ## non-vacuity -/

example : ((legalMoves Gen.startpos).map (decodeMove Gen.startpos)).Perm (Spec.legalMoves (abs Gen.startpos)) :=
  (C01_generated_are_legal_moves Gen.startpos (by decide +kernel) (by decide +kernel)).1

example : (Spec.legalMoves (abs Gen.startpos)).length = 20 := by
  rw [← C01_count Gen.startpos (by decide +kernel) (by decide +kernel)]; decide +kernel

/-- the en-passant position of `C01_shape`: 7 legal moves, e5xd6 among them. -/
example : ValidPos c01Ep = true ∧ Spec.EpConsistent (abs c01Ep) = true := by decide +kernel
example : Spec.Move.normal 36 43 none ∈ Spec.legalMoves (abs c01Ep) :=
  (C01_sound c01Ep (by decide +kernel) (by decide +kernel) ⟨36, 43, 6⟩ (by decide +kernel)).1

/-- castling through the theorem: `castlePos` of `C01_king` (both castlings legal). -/
example : encodeMove castlePos (Spec.Move.castle true) ∈ legalMoves castlePos :=
  (C01_complete castlePos (by decide +kernel) (by decide +kernel) _ (by decide +kernel)).1

#print axioms C01_generated_are_legal_moves
#print axioms C01_mem
#print axioms C01_callback
#print axioms C01_sound
#print axioms C01_complete
#print axioms C01_count
#print axioms C01_no_moves
#print axioms C01_promotions_once

end Rawr
