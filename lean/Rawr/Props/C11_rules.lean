import Rawr.Proofs.RulesLevel
/-! # C11 in terms of the rules of chess

"Every move of the root leads to a position drawn by rule ⇒ the draw score from iteration 2 on, and a legal move"
(`C11_iterations`, `C11_iterations_new_table`, `C11_root_all_children_drawn'` of `Props/C11.lean`) with the
hypotheses on the tree discharged for every root of the domain `V ∧ E`:

* `AllChildrenDrawn.child`, "`makemove` succeeds": C02 (`makemove_total_V`);
* `AllChildrenDrawn.child`, `QEvalOk Bd qFuel c`: the children are in `V ∧ E` (C02 + E-closure), the evaluation on
  their capture trees is within `Bd := EB = 174416 < INF` (C17; `qEvalOk_of_VE`);
* `AllChildrenDrawn.ne`: stated by the rules, `Spec.legalMoves (abs p) ≠ []` (C01);
* `AllChildrenDrawn.len` (at most 218 moves): for `C11_iterations…` it follows from the hypothesis that the driver
  returns (`len_of_root_some`: iteration 1 has ordered the moves).

What is left, and why:
* every child is drawn by the fifty-move rule or has occurred before (`OccurredBefore`, the index form of the
  repetition test, `C11_repetition_iff`) — the premise of the property;
* `hkey`: **no child has the root's key** (a 64-bit collision): from iteration 2 on the table holds the root's
  entry; a child with the same key would read it instead of being scored as a draw;
* `NoChildHit p tt` (no entry under a child's key in the table handed in; for a fresh or all-default table: no
  child has key 0) — an entry under a child's key is used instead of the draw test (the table probe comes first);
* counter room `halfmoves/fullmoves + (fuel + 2) + 64 < 2^31` (validity of the children);
* for the *total* form `C11_root_all_children_drawn_rules` (the call is shown to return) the bound
  `(legalMoves p).length ≤ 218` stays: that no position of `V ∧ E` has more than 218 legal moves is a fact about
  chess that the project does not prove (`Term.MovesFit`, `Proofs/TerminationDom.lean`); with more moves `sortNm`,
  hence the call, returns `none`. Neither E nor counter room is needed there. -/
namespace Rawr
open Position Spec ZH MM SV Br Att DM RulesLevel

/-- the table-independent hypotheses of C11 from validity. -/
theorem allChildrenDrawn_rules (fuel : Nat) (p : Position)
    (hV : ValidPos p = true) (hE : Spec.EpConsistent (abs p) = true)
    (hh : p.halfmoves + (fuel + 2) + 64 < 2147483648) (hfm : p.fullmoves + (fuel + 2) + 64 < 2147483648)
    (hist : List BB)
    (hne : Spec.legalMoves (abs p) ≠ [])
    (hlen : (legalMoves p).length ≤ Gen.orderBufNegamax)
    (hdrawn : ∀ m ∈ legalMoves p, ∀ c, p.makemove m true = some c → c.halfmoves ≥ 100 ∨ OccurredBefore hist c)
    (hkey : ∀ m ∈ legalMoves p, ∀ c, p.makemove m true = some c → c.hash ≠ p.hash) :
    AllChildrenDrawn EB p hist := by
  have hVE : VE (fuel + 1 + 1) p := ⟨hV, hE, hh, hfm⟩
  refine ⟨fun hnil => hne ((C01_no_moves p hV hE).mp hnil), hlen, fun m hm => ?_⟩
  obtain ⟨c, hmk⟩ := makemove_total_V hV hm
  exact ⟨c, hmk, (hdrawn m hm c hmk).imp id (C11_repetition_iff c.hash hist c.halfmoves).2, hkey m hm c hmk,
    qEvalOk_of_VE (child_VE hVE hm hmk)⟩

/-- **C11.4 by the rules.** `go depth D`, `2 ≤ D < MAX_DEPTH`, on a root of `V ∧ E` that has a legal move, every
child of which is drawn by the fifty-move rule or has occurred before in `hist`, no child with the root's key,
no table entry under a child's key: if the driver returns, the best move is a legal move, there is exactly one
info record per depth `1 … D`, and every record of depth ≥ 2 carries the score `-DRAW_SCORE`. -/
theorem C11_iterations_rules (D : Int) (hD2 : 2 ≤ D) (hD : D < Gen.MAX_DEPTH) (fuel : Nat) (p : Position)
    (hV : ValidPos p = true) (hE : Spec.EpConsistent (abs p) = true)
    (hh : p.halfmoves + (fuel + 2) + 64 < 2147483648) (hfm : p.fullmoves + (fuel + 2) + 64 < 2147483648)
    (hist : List BB) (tt : Table TTEntry)
    (hne : Spec.legalMoves (abs p) ≠ [])
    (hdrawn : ∀ m ∈ legalMoves p, ∀ c, p.makemove m true = some c → c.halfmoves ≥ 100 ∨ OccurredBefore hist c)
    (hkey : ∀ m ∈ legalMoves p, ∀ c, p.makemove m true = some c → c.hash ≠ p.hash)
    (hT : NoChildHit p tt) (res : RootResult)
    (h : root (.depth D) (fuel + 2) p hist tt = some res) :
    (∃ m ∈ legalMoves p, res.best = some m) ∧
    res.infos.map (·.depth) = (List.range D.toNat).map (fun i : Nat => (i : Int) + 1) ∧
    ∀ r ∈ res.infos, 2 ≤ r.depth → r.score = -Gen.DRAW_SCORE :=
  C11_iterations D hD2 hD fuel p hist tt EB EB_lt_INF
    (allChildrenDrawn_rules fuel p hV hE hh hfm hist hne
      (len_of_root_some D (by omega) (fuel + 1) p hist tt res h) hdrawn hkey) hT res h

/-- the move handed back is legal by the rules, and the counts in the words of the property. -/
theorem C11_iterations_count_rules (D : Int) (hD2 : 2 ≤ D) (hD : D < Gen.MAX_DEPTH) (fuel : Nat) (p : Position)
    (hV : ValidPos p = true) (hE : Spec.EpConsistent (abs p) = true)
    (hh : p.halfmoves + (fuel + 2) + 64 < 2147483648) (hfm : p.fullmoves + (fuel + 2) + 64 < 2147483648)
    (hist : List BB) (tt : Table TTEntry)
    (hne : Spec.legalMoves (abs p) ≠ [])
    (hdrawn : ∀ m ∈ legalMoves p, ∀ c, p.makemove m true = some c → c.halfmoves ≥ 100 ∨ OccurredBefore hist c)
    (hkey : ∀ m ∈ legalMoves p, ∀ c, p.makemove m true = some c → c.hash ≠ p.hash)
    (hT : NoChildHit p tt) (res : RootResult)
    (h : root (.depth D) (fuel + 2) p hist tt = some res) :
    res.infos.length = D.toNat ∧
    (∀ d : Int, 2 ≤ d → d ≤ D → ∃ r ∈ res.infos, r.depth = d ∧ r.score = -Gen.DRAW_SCORE) ∧
    ∃ m, res.best = some m ∧ decodeMove p m ∈ Spec.legalMoves (abs p) := by
  obtain ⟨h1, _, h3, m, hm, hb⟩ := C11_iterations_count D hD2 hD fuel p hist tt EB EB_lt_INF
    (allChildrenDrawn_rules fuel p hV hE hh hfm hist hne
      (len_of_root_some D (by omega) (fuel + 1) p hist tt res h) hdrawn hkey) hT res h
  exact ⟨h1, h3, m, hb, (C01_sound p hV hE m hm).1⟩

/-- C11.4 for a freshly allocated table (any size, also zero slots): `NoChildHit` becomes "no child has key 0". -/
theorem C11_iterations_new_table_rules (D : Int) (hD2 : 2 ≤ D) (hD : D < Gen.MAX_DEPTH) (fuel : Nat) (p : Position)
    (hV : ValidPos p = true) (hE : Spec.EpConsistent (abs p) = true)
    (hh : p.halfmoves + (fuel + 2) + 64 < 2147483648) (hfm : p.fullmoves + (fuel + 2) + 64 < 2147483648)
    (hist : List BB) (mb : Nat)
    (hne : Spec.legalMoves (abs p) ≠ [])
    (hdrawn : ∀ m ∈ legalMoves p, ∀ c, p.makemove m true = some c → c.halfmoves ≥ 100 ∨ OccurredBefore hist c)
    (hkey : ∀ m ∈ legalMoves p, ∀ c, p.makemove m true = some c → c.hash ≠ p.hash ∧ c.hash ≠ 0#64)
    (res : RootResult)
    (h : root (.depth D) (fuel + 2) p hist (Table.new mb Gen.ttEntrySize) = some res) :
    (∃ m ∈ legalMoves p, res.best = some m) ∧
    res.infos.map (·.depth) = (List.range D.toNat).map (fun i : Nat => (i : Int) + 1) ∧
    ∀ r ∈ res.infos, 2 ≤ r.depth → r.score = -Gen.DRAW_SCORE :=
  C11_iterations_rules D hD2 hD fuel p hV hE hh hfm hist _ hne hdrawn (fun m hm c hc => (hkey m hm c hc).1)
    (NoChildHit_new p mb fun m hm c hc => (hkey m hm c hc).2) res h

/-- … and for an all-default table written as `⟨Array.replicate n default⟩` (e.g. `⟨#[default, default, default]⟩`). -/
theorem C11_iterations_empty_table_rules (D : Int) (hD2 : 2 ≤ D) (hD : D < Gen.MAX_DEPTH) (fuel : Nat)
    (p : Position) (hV : ValidPos p = true) (hE : Spec.EpConsistent (abs p) = true)
    (hh : p.halfmoves + (fuel + 2) + 64 < 2147483648) (hfm : p.fullmoves + (fuel + 2) + 64 < 2147483648)
    (hist : List BB) (n : Nat)
    (hne : Spec.legalMoves (abs p) ≠ [])
    (hdrawn : ∀ m ∈ legalMoves p, ∀ c, p.makemove m true = some c → c.halfmoves ≥ 100 ∨ OccurredBefore hist c)
    (hkey : ∀ m ∈ legalMoves p, ∀ c, p.makemove m true = some c → c.hash ≠ p.hash ∧ c.hash ≠ 0#64)
    (res : RootResult)
    (h : root (.depth D) (fuel + 2) p hist ⟨Array.replicate n default⟩ = some res) :
    (∃ m ∈ legalMoves p, res.best = some m) ∧
    res.infos.map (·.depth) = (List.range D.toNat).map (fun i : Nat => (i : Int) + 1) ∧
    ∀ r ∈ res.infos, 2 ≤ r.depth → r.score = -Gen.DRAW_SCORE :=
  C11_iterations_rules D hD2 hD fuel p hV hE hh hfm hist _ hne hdrawn (fun m hm c hc => (hkey m hm c hc).1)
    (noChildHit_replicate p n fun m hm c hc => (hkey m hm c hc).2) res h

/-- **C11.3 by the rules** (total form: the root call of an iteration of depth ≥ 2 is shown to return
`-DRAW_SCORE` with a legal move recorded). Validity gives that every move can be made; the bound of 218 on the
number of moves stays (see the header). -/
theorem C11_root_all_children_drawn_rules (D : Int) (fuel : Nat) (p : Position) (st : SState) (depth : Int)
    (hV : ValidPos p = true)
    (hdepth : 2 ≤ depth) (hD : st.depth ≤ D)
    (hlen : (legalMoves p).length ≤ Gen.orderBufNegamax)
    (hne : legalMoves p ≠ [])
    (hdrawn : ∀ m ∈ legalMoves p, ∀ c, p.makemove m true = some c → c.halfmoves ≥ 100 ∨ OccurredBefore st.hist c)
    (hT : NoChildHit p st.tt) :
    ∃ m₀ st', m₀ ∈ legalMoves p ∧
      negamax (.depth D) (fuel + 2) p st (-Gen.INF) Gen.INF 0 depth false = some (-Gen.DRAW_SCORE, st') ∧
      st'.best = some m₀ ∧ st'.hist = st.hist :=
  C11_root_all_children_drawn' D fuel p st depth hdepth hD hlen hne fun m hm =>
    let ⟨c, hmk⟩ := makemove_total_V hV hm
    ⟨c, hmk, hdrawn m hm c hmk, hT m hm c hmk⟩

/-! ## non-vacuity -/
namespace C11RulesEx
open C11Ex

/-- `kk 99` of `Props/C11.lean` (white Ka1, black Kh8, white to move, clock 99: every move reaches clock 100) with
the key recomputed, so that it is in the domain V. -/
def kk99V : Position := fixHash (kk 99)

theorem kk99V_valid : ValidPos kk99V = true := by decide +kernel
theorem kk99V_E : Spec.EpConsistent (abs kk99V) = true := by decide +kernel

/-- the hypotheses of `C11_iterations_empty_table_rules` hold on `kk99V` (`go depth 3`, empty history, three-slot
table); through the theorem: three records, the draw score 50 in the last two, a legal best move. -/
example : ∃ res, root (.depth 3) 2 kk99V [] tt3 = some res ∧
    (∃ m ∈ legalMoves kk99V, res.best = some m) ∧ res.infos.map (·.depth) = [1, 2, 3] ∧
    ∀ r ∈ res.infos, 2 ≤ r.depth → r.score = 50 := by
  have h : (root (.depth 3) 2 kk99V [] tt3).isSome = true := by decide +kernel
  obtain ⟨res, h1⟩ := Option.isSome_iff_exists.1 h
  have hch : ∀ m ∈ legalMoves kk99V, ∀ c, kk99V.makemove m true = some c →
      c.halfmoves ≥ 100 ∧ c.hash ≠ kk99V.hash ∧ c.hash ≠ 0#64 := by decide +kernel
  exact ⟨res, h1, C11_iterations_empty_table_rules 3 (by decide) (by decide) 0 kk99V kk99V_valid kk99V_E
    (by decide +kernel) (by decide +kernel) [] 3 (by decide +kernel)
    (fun m hm c hc => Or.inl (hch m hm c hc).1) (fun m hm c hc => (hch m hm c hc).2) res h1⟩

/-- the repetition clause: `kk 10` with a history in which each child has occurred at an odd index. The history is
computed from the children's keys (the root's key is recomputed, so the constants of `C11Ex.histRep` do not apply). -/
def kk10V : Position := fixHash (kk 10)

def childKeys (p : Position) : List BB :=
  (legalMoves p).filterMap fun m => (p.makemove m true).map (·.hash)

/-- `[x, k₁, x, k₂, x, k₃]`: the children's keys at the indices 1, 3, 5. -/
def histRepV : List BB := (childKeys kk10V).flatMap fun k => [5#64, k]

theorem kk10V_valid : ValidPos kk10V = true := by decide +kernel
theorem kk10V_E : Spec.EpConsistent (abs kk10V) = true := by decide +kernel

def occurredB (H : List BB) (c : Position) : Bool :=
  (List.range c.halfmoves.toNat).any fun i => decide (2 * i + 1 < c.halfmoves.toNat) && H[2 * i + 1]? == some c.hash

theorem occurred_of_B {H : List BB} {c : Position} (h : occurredB H c = true) : OccurredBefore H c := by
  simp only [occurredB, List.any_eq_true, List.mem_range, Bool.and_eq_true, decide_eq_true_eq, beq_iff_eq] at h
  obtain ⟨i, _, h1, h2⟩ := h
  exact ⟨i, h1, h2⟩

example : ∃ res, root (.depth 2) 2 kk10V histRepV (Table.new 0 Gen.ttEntrySize) = some res ∧
    (∃ m ∈ legalMoves kk10V, res.best = some m) ∧ res.infos.map (·.depth) = [1, 2] ∧
    ∀ r ∈ res.infos, 2 ≤ r.depth → r.score = 50 := by
  have h : (root (.depth 2) 2 kk10V histRepV (Table.new 0 Gen.ttEntrySize)).isSome = true := by decide +kernel
  obtain ⟨res, h1⟩ := Option.isSome_iff_exists.1 h
  have hch : ∀ m ∈ legalMoves kk10V, ∀ c, kk10V.makemove m true = some c →
      occurredB histRepV c = true ∧ c.hash ≠ kk10V.hash ∧ c.hash ≠ 0#64 := by decide +kernel
  exact ⟨res, h1, C11_iterations_new_table_rules 2 (by decide) (by decide) 0 kk10V kk10V_valid kk10V_E
    (by decide +kernel) (by decide +kernel) histRepV 0 (by decide +kernel)
    (fun m hm c hc => Or.inr (occurred_of_B (hch m hm c hc).1)) (fun m hm c hc => (hch m hm c hc).2) res h1⟩

/-- C11.3 by the rules on `kk99V`, iteration 2. -/
example : ∃ m₀ st', m₀ ∈ legalMoves kk99V ∧
    negamax (.depth 2) 2 kk99V ⟨[], tt3, 2, 0, 0, none, 0⟩ (-Gen.INF) Gen.INF 0 2 false = some (50, st') ∧
    st'.best = some m₀ := by
  have hch : ∀ m ∈ legalMoves kk99V, ∀ c, kk99V.makemove m true = some c → c.halfmoves ≥ 100 := by
    decide +kernel
  obtain ⟨m₀, st', h1, h2, h3, _⟩ := C11_root_all_children_drawn_rules 2 0 kk99V ⟨[], tt3, 2, 0, 0, none, 0⟩ 2
    kk99V_valid (by decide) (show (2 : Int) ≤ 2 by decide) (by decide +kernel) (by decide +kernel)
    (fun m hm c hc => Or.inl (hch m hm c hc)) (noChildHit_of_B (by decide +kernel))
  exact ⟨m₀, st', h1, h2, h3⟩

end C11RulesEx

end Rawr

#print axioms Rawr.allChildrenDrawn_rules
#print axioms Rawr.C11_iterations_rules
#print axioms Rawr.C11_iterations_count_rules
#print axioms Rawr.C11_iterations_new_table_rules
#print axioms Rawr.C11_iterations_empty_table_rules
#print axioms Rawr.C11_root_all_children_drawn_rules
