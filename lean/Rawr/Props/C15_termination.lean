import Rawr.Proofs.TerminationCount
import Rawr.Proofs.TerminationDom
import Rawr.Props.C03
import Rawr.Props.C03_rules
import Rawr.Props.C14
/-! # C15 (termination) — the search model never hangs: explicit fuel bounds

The model functions `qsearch`, `negamax`, `rootIter`, `root` of `Rawr/Model/Search.lean` take fuel and answer
`none` when it runs out. This file shows that the fuel is not an observable and bounds it.

1. **Fuel monotonicity** (no hypotheses): `C15_qsearch_fuel_mono`, `C15_negamax_fuel_mono`, `C15_root_fuel_mono`
   (`Rawr.Term.qsearch_fuel_mono`, …): once the model answers, every larger fuel gives the same answer.
2. **Quiescence terminates**: `C15_qsearch_terminates`, `C15_qminimax_defined` — fuel `count p.occ` suffices (every
   capture removes a man; `count p.occ ≤ 64 = qFuel`, the fuel `negamax` hands to quiescence).
3. **Negamax terminates**: `C15_negamax_terminates` with the explicit fuel
   `negamaxFuel p ply depth = rank Φ (depth + 1) Φ clk + 1`, `Φ = potP p` (men plus remaining pawn advancement),
   `rank B e φ c = e · 102 · (B + 1) + 102 · φ + c`. The measure is lexicographic in
   (depth bound `depth + 1` ≥ depth after the check extension, potential `Φ`, `100 - halfmoves`; the root, which
   ignores the fifty-move rule, counts as clock 101): a child is called with depth at most the parent's extended
   depth minus one, so its bound does not exceed the parent's; a capture or pawn move lowers `Φ`; any other move
   keeps `Φ` and raises the clock, and a non-root node with `halfmoves ≥ 100` returns at once; the null-move
   child has its bound lowered by two.
4. **The driver terminates** for every limit and every clock oracle (`C15_root_terminates`, fuel `rootFuelP p`
   ≤ 6 750 054), and `C03_root_total`, `C14_depth_total` restate C03 / C14 without the "if it returns" hypothesis.

5. **On the domain `D = V ∧ E ∧ M`** (`InD`) everything above holds under ONE hypothesis, `MovesFit` (a position
   of `D` has at most 218 legal moves — the size of the ordering buffers; a fact about chess, not proved here):
   `C15_qsearch_terminates_inD`, `C15_qminimax_defined_inD`, `C15_negamax_terminates_inD`,
   `C15_root_terminates_inD`, and `C03_rules_total` (C03 against the rules of chess, total).

Hypotheses of 2–4 (all explicit):
* `ValidPos p` (domain V), `0 ≤ ply`, counters far enough below `2^31` (`ValidPos` is only preserved while
  `halfmoves + 1`, `fullmoves + 1 < 2^31`; the search goes at most *fuel* plies deep);
* `ChessDom D`, `D p` (for quiescence alone `CaptDom D`): `D` is any set of positions closed under the three kinds of
  ply the search makes (generated move with key update, generated capture without, null move where the model
  tries one), on which the move lists fit the 218-entry ordering buffer (`fit`) and every generated move is
  legal by the rules (`legal` — the bridge C01, `decodeMove q m ∈ Spec.legalMoves (abs q)`; needed because
  `C02_valid_preserved` asks for it). Every clause is asked only of positions that are valid (up to the stored
  key, which quiescence leaves stale: `ValidH`). Validity of every visited position is *derived* (C02), not
  assumed. `chessDom_EM` (`Proofs/TerminationDom.lean`): `E ∧ M` is such a set, given `MovesFit`.
  `st.tt` is arbitrary (also zero slots), as are history, window, limit and `canNull`. -/
namespace Rawr
open Rawr.Term

/-! ## 1. the fuel is not an observable -/

theorem C15_qsearch_fuel_mono {f f' : Nat} {p : Position} {st : QState} {α β ply : Int} {r : Int × QState}
    (h : qsearch f p st α β ply = some r) (hle : f ≤ f') : qsearch f' p st α β ply = some r :=
  qsearch_fuel_mono h hle

theorem C15_negamax_fuel_mono {lim : Limit} {f f' : Nat} {p : Position} {st : SState} {α β ply depth : Int}
    {cn : Bool} {r : Int × SState} (h : negamax lim f p st α β ply depth cn = some r) (hle : f ≤ f') :
    negamax lim f' p st α β ply depth cn = some r :=
  negamax_fuel_mono h hle

theorem C15_root_fuel_mono {lim : Limit} {f f' : Nat} {p : Position} {hist : List BB} {tt : Table TTEntry}
    {r : RootResult} (h : root lim f p hist tt = some r) (hle : f ≤ f') : root lim f' p hist tt = some r :=
  root_fuel_mono h hle

/-! ## 2. quiescence -/

/-- quiescence answers on every fuel from `count p.occ` (the number of men) on. -/
theorem C15_qsearch_terminates_ge {D : Position → Prop} (hD : CaptDom D) (p : Position) (hp : D p)
    (hV : ValidPos p = true) (hh : p.halfmoves + 64 < 2147483648) (hf : p.fullmoves + 64 < 2147483648)
    (f : Nat) (hfuel : count p.occ ≤ f) (st : QState) (α β ply : Int) : qsearch f p st α β ply ≠ none :=
  ne_none_of_ex (qsearch_total_chess hD hp (validH_of_valid hV) hh hf f
    (by rw [menP_eq_count (MM.valid_unpack hV).1]; exact hfuel) st α β ply)

/-- **quiescence terminates.** -/
theorem C15_qsearch_terminates {D : Position → Prop} (hD : CaptDom D) (p : Position) (hp : D p)
    (hV : ValidPos p = true) (hh : p.halfmoves + 64 < 2147483648) (hf : p.fullmoves + 64 < 2147483648)
    (st : QState) (α β ply : Int) : qsearch (count p.occ + 1) p st α β ply ≠ none :=
  C15_qsearch_terminates_ge hD p hp hV hh hf _ (by omega) st α β ply

/-- the fuel `negamax` hands to quiescence always suffices. -/
theorem C15_qsearch_qFuel {D : Position → Prop} (hD : CaptDom D) (p : Position) (hp : D p)
    (hV : ValidPos p = true) (hh : p.halfmoves + 64 < 2147483648) (hf : p.fullmoves + 64 < 2147483648)
    (st : QState) (α β ply : Int) : qsearch qFuel p st α β ply ≠ none :=
  C15_qsearch_terminates_ge hD p hp hV hh hf _
    (by rw [← menP_eq_count (MM.valid_unpack hV).1]; exact menP_le p) st α β ply

/-- the exact reference value of C19 is defined (closes the gap noted in `Rawr/Props/C19.lean`). -/
theorem C15_qminimax_defined {D : Position → Prop} (hD : CaptDom D) (p : Position) (hp : D p)
    (hV : ValidPos p = true) (hh : p.halfmoves + 64 < 2147483648) (hf : p.fullmoves + 64 < 2147483648) :
    qminimax (count p.occ + 1) p ≠ none :=
  ne_none_of_ex (qminimax_total_chess hD hp (validH_of_valid hV) hh hf _
    (by rw [menP_eq_count (MM.valid_unpack hV).1]; omega))

/-- … and with it the total form of C19: quiescence returns, and its result obeys the three fail-soft clauses
against the exact value of the capture tree. -/
theorem C15_qsearch_total_sound {D : Position → Prop} (hD : CaptDom D) (p : Position) (hp : D p)
    (hV : ValidPos p = true) (hh : p.halfmoves + 64 < 2147483648) (hf : p.fullmoves + 64 < 2147483648)
    (st : QState) (α β ply : Int) (hαβ : α < β) :
    ∃ v r st', qminimax (count p.occ + 1) p = some v ∧ qsearch (count p.occ + 1) p st α β ply = some (r, st') ∧
      (α < v ∧ v < β → r = v) ∧ (r ≤ α → v ≤ r) ∧ (β ≤ r → r ≤ v) := by
  obtain ⟨v, hv⟩ := qminimax_total_chess hD hp (validH_of_valid hV) hh hf (count p.occ + 1)
    (by rw [menP_eq_count (MM.valid_unpack hV).1]; omega)
  obtain ⟨⟨r, st'⟩, hr⟩ := qsearch_total_chess hD hp (validH_of_valid hV) hh hf (count p.occ + 1)
    (by rw [menP_eq_count (MM.valid_unpack hV).1]; omega) st α β ply
  exact ⟨v, r, st', hv, hr, C19_qsearch_sound _ p st α β ply r st' hαβ hr _ v hv⟩

/-! ## 3. negamax -/

/-- fuel sufficient for a call of `negamax` on `p` at `ply` with remaining depth `depth`. -/
def negamaxFuel (p : Position) (ply depth : Int) : Nat :=
  rank (potP p) (depth + 1) (potP p) (clk ply p.halfmoves) + 1

/-- the bound, spelled out. -/
theorem negamaxFuel_eq (p : Position) (ply depth : Int) :
    negamaxFuel p ply depth = (depth + 1).toNat * (102 * (potP p + 1)) + potP p * 102 +
      (if ply = 0 then 101 else (100 - p.halfmoves).toNat) + 1 := rfl

/-- **negamax terminates.** -/
theorem C15_negamax_terminates (lim : Limit) {D : Position → Prop} (hD : ChessDom D) (p : Position) (hp : D p)
    (hV : ValidPos p = true) (ply depth : Int) (hply : 0 ≤ ply)
    (hh : p.halfmoves + negamaxFuel p ply depth + 64 < 2147483648)
    (hf : p.fullmoves + negamaxFuel p ply depth + 64 < 2147483648)
    (st : SState) (α β : Int) (cn : Bool) :
    ∀ f, negamaxFuel p ply depth ≤ f → negamax lim f p st α β ply depth cn ≠ none := by
  intro f hle
  obtain ⟨r, hr⟩ := negamax_total lim (chessDom_ndom hD) (potP p) (negamaxFuel p ply depth) p st α β ply depth cn
    hply ⟨hp, hV, hh, hf⟩ (Nat.le_refl _) (by unfold negamaxFuel; omega)
  exact ne_none_of_ex ⟨r, negamax_fuel_mono hr hle⟩

/-- the same in the `∃ F` form. -/
theorem C15_negamax_terminates' (lim : Limit) {D : Position → Prop} (hD : ChessDom D) (p : Position) (hp : D p)
    (hV : ValidPos p = true) (ply depth : Int) (hply : 0 ≤ ply)
    (hh : p.halfmoves + negamaxFuel p ply depth + 64 < 2147483648)
    (hf : p.fullmoves + negamaxFuel p ply depth + 64 < 2147483648)
    (st : SState) (α β : Int) (cn : Bool) :
    ∃ F, ∀ f ≥ F, negamax lim f p st α β ply depth cn ≠ none :=
  ⟨negamaxFuel p ply depth, C15_negamax_terminates lim hD p hp hV ply depth hply hh hf st α β cn⟩

/-! ## 4. the driver -/

/-- fuel sufficient for all `MAX_DEPTH - 1` iterations of the driver on `p`. -/
def rootFuelP (p : Position) : Nat := rootFuel (potP p) (potP p)

theorem rootFuelP_eq (p : Position) :
    rootFuelP p = 128 * (102 * (potP p + 1)) + potP p * 102 + 101 + 1 := rfl

theorem rootFuelP_le (p : Position) : rootFuelP p ≤ 6750054 := by
  rw [rootFuelP_eq]; have := potP_le p; omega

/-- **the driver terminates**, for every limit (depth, nodes, any clock oracle, infinite): the iteration loop
is bounded by `MAX_DEPTH`, each root call by (3). -/
theorem C15_root_terminates (lim : Limit) {D : Position → Prop} (hD : ChessDom D) (p : Position) (hp : D p)
    (hV : ValidPos p = true) (hh : p.halfmoves < 2140000000) (hf : p.fullmoves < 2140000000)
    (hist : List BB) (tt : Table TTEntry) :
    ∃ res, ∀ f, rootFuelP p ≤ f → root lim f p hist tt = some res := by
  have hle := rootFuelP_le p
  obtain ⟨res, hr⟩ := root_total lim (chessDom_ndom hD) (potP p) p hist tt (Nat.le_refl _)
    ⟨hp, hV, by unfold rootFuelP at hle; omega, by unfold rootFuelP at hle; omega⟩
  exact ⟨res, fun f hle' => root_fuel_mono hr hle'⟩

theorem C15_root_never_hangs (lim : Limit) {D : Position → Prop} (hD : ChessDom D) (p : Position) (hp : D p)
    (hV : ValidPos p = true) (hh : p.halfmoves < 2140000000) (hf : p.fullmoves < 2140000000)
    (hist : List BB) (tt : Table TTEntry) :
    ∃ F, ∀ f ≥ F, root lim f p hist tt ≠ none := by
  obtain ⟨res, h⟩ := C15_root_terminates lim hD p hp hV hh hf hist tt
  exact ⟨rootFuelP p, fun f hle => by rw [h f hle]; exact fun e => by cases e⟩

/-- **C03 without "if it returns"**: the driver returns (the same result on every fuel from `rootFuelP p` on),
with a member of `legalMoves p` when there is one and with `Err("No bestmove")` only when there is none.
(`SearchDom G`, `G fuel p`, `TTBounded tt` are the hypotheses of C03; its bound `fuel ≤ INF + MATE_SCORE` on the
recursion depth is discharged: `rootFuelP p ≤ 6 750 054`.) -/
theorem C03_root_total (lim : Limit) {D : Position → Prop} (hD : ChessDom D) (G : Nat → Position → Prop)
    (hG : SearchDom G) (p : Position) (hp : D p) (hGp : G (rootFuelP p) p) (hV : ValidPos p = true)
    (hh : p.halfmoves < 2140000000) (hf : p.fullmoves < 2140000000)
    (hist : List BB) (tt : Table TTEntry) (htt : TTBounded tt) :
    ∃ res, (∀ f, rootFuelP p ≤ f → root lim f p hist tt = some res) ∧
      (legalMoves p ≠ [] → ∃ m ∈ legalMoves p, res.best = some m) ∧ (legalMoves p = [] → res.best = none) := by
  obtain ⟨res, h⟩ := C15_root_terminates lim hD p hp hV hh hf hist tt
  have hle := rootFuelP_le p
  refine ⟨res, h, C03_root_returns_legal lim G hG (rootFuelP p) p hist tt res hGp htt ?_ (h _ (Nat.le_refl _))⟩
  have e : Gen.INF + Gen.MATE_SCORE = 11000000 := rfl
  rw [e]; omega

/-- the same for an invariant `G` of positions (`EvalBoundedOn G`). -/
theorem C03_root_total_inv (lim : Limit) {D : Position → Prop} (hD : ChessDom D) (G : Position → Prop)
    (hG : EvalBoundedOn G) (p : Position) (hp : D p) (hGp : G p) (hV : ValidPos p = true)
    (hh : p.halfmoves < 2140000000) (hf : p.fullmoves < 2140000000)
    (hist : List BB) (tt : Table TTEntry) (htt : TTBounded tt) :
    ∃ res, (∀ f, rootFuelP p ≤ f → root lim f p hist tt = some res) ∧
      (legalMoves p ≠ [] → ∃ m ∈ legalMoves p, res.best = some m) ∧ (legalMoves p = [] → res.best = none) :=
  C03_root_total lim hD (fun _ => G) hG.dom p hp hGp hV hh hf hist tt htt

/-- **C14 (depth limits) without "if it returns"**: with `go depth Dl`, `1 ≤ Dl < MAX_DEPTH`, on a root that has
legal moves, the driver returns and has reported exactly the iterations `1, …, Dl`. -/
theorem C14_depth_total (Dl : Int) (hD1 : 1 ≤ Dl) (hD2 : Dl < Gen.MAX_DEPTH)
    {D : Position → Prop} (hD : ChessDom D) (G : Nat → Position → Prop)
    (hG : SearchDom G) (p : Position) (hp : D p) (hGp : G (rootFuelP p) p) (hV : ValidPos p = true)
    (hh : p.halfmoves < 2140000000) (hf : p.fullmoves < 2140000000)
    (hist : List BB) (tt : Table TTEntry) (htt : TTBounded tt) (hlegal : legalMoves p ≠ []) :
    ∃ res, (∀ f, rootFuelP p ≤ f → root (.depth Dl) f p hist tt = some res) ∧
      res.infos.map (·.depth) = (List.range' 1 Dl.toNat).map Int.ofNat := by
  obtain ⟨res, h⟩ := C15_root_terminates (.depth Dl) hD p hp hV hh hf hist tt
  have hle := rootFuelP_le p
  refine ⟨res, h, C14_depth_iterations Dl hD1 hD2 G hG (rootFuelP p) p hist tt res hGp htt ?_
    hlegal (h _ (Nat.le_refl _))⟩
  have e : Gen.INF + Gen.MATE_SCORE = 11000000 := rfl
  rw [e]; omega

/-! ## 5. on the domain `D = V ∧ E ∧ M` of DESIGN.md §4

With C01 (`C01_sound`) and the closure of E and M under moves (`Props/C02_domain.lean`) the set `E ∧ M` is closed
in the sense of `ChessDom` (`chessDom_EM`); the only hypothesis left is `MovesFit` / `CapturesFit`: a position of
`D` (stored key aside) has at most 218 legal moves / captures — the size of the ordering buffers. -/

theorem C15_qsearch_terminates_inD (hfit : CapturesFit) (p : Position) (hD : InD p = true)
    (hh : p.halfmoves + 64 < 2147483648) (hf : p.fullmoves + 64 < 2147483648)
    (st : QState) (α β ply : Int) : qsearch (count p.occ + 1) p st α β ply ≠ none :=
  C15_qsearch_terminates (captDom_EM hfit) p (em_of_inD hD).2 (em_of_inD hD).1 hh hf st α β ply

theorem C15_qminimax_defined_inD (hfit : CapturesFit) (p : Position) (hD : InD p = true)
    (hh : p.halfmoves + 64 < 2147483648) (hf : p.fullmoves + 64 < 2147483648) :
    qminimax (count p.occ + 1) p ≠ none :=
  C15_qminimax_defined (captDom_EM hfit) p (em_of_inD hD).2 (em_of_inD hD).1 hh hf

theorem C15_negamax_terminates_inD (lim : Limit) (hfit : MovesFit) (p : Position) (hD : InD p = true)
    (ply depth : Int) (hply : 0 ≤ ply)
    (hh : p.halfmoves + negamaxFuel p ply depth + 64 < 2147483648)
    (hf : p.fullmoves + negamaxFuel p ply depth + 64 < 2147483648)
    (st : SState) (α β : Int) (cn : Bool) :
    ∀ f, negamaxFuel p ply depth ≤ f → negamax lim f p st α β ply depth cn ≠ none :=
  C15_negamax_terminates lim (chessDom_EM hfit) p (em_of_inD hD).2 (em_of_inD hD).1 ply depth hply hh hf st α β cn

theorem C15_root_terminates_inD (lim : Limit) (hfit : MovesFit) (p : Position) (hD : InD p = true)
    (hh : p.halfmoves < 2140000000) (hf : p.fullmoves < 2140000000) (hist : List BB) (tt : Table TTEntry) :
    ∃ res, ∀ f, rootFuelP p ≤ f → root lim f p hist tt = some res :=
  C15_root_terminates lim (chessDom_EM hfit) p (em_of_inD hD).2 (em_of_inD hD).1 hh hf hist tt

/-- **C03 against the rules of chess, total**: for every position of `D`, every limit, history and bounded table the
driver returns — the same result on every fuel from `rootFuelP p` on — with a move that is legal by the rules
when there is one, `Err("No bestmove")` otherwise, and a bounded table. (`C03_rules` without its "if it returns"
hypothesis and without its fuel bound.) -/
theorem C03_rules_total (lim : Limit) (hfit : MovesFit) (p : Position) (hD : InD p = true)
    (hh : p.halfmoves < 2140000000) (hf : p.fullmoves < 2140000000)
    (hist : List BB) (tt : Table TTEntry) (htt : TTBounded tt) :
    ∃ res, (∀ f, rootFuelP p ≤ f → root lim f p hist tt = some res) ∧
      (Spec.legalMoves (abs p) ≠ [] →
        ∃ m, res.best = some m ∧ decodeMove p m ∈ Spec.legalMoves (abs p) ∧ encodeMove p (decodeMove p m) = m) ∧
      (Spec.legalMoves (abs p) = [] → res.best = none) ∧ TTBounded res.tt := by
  obtain ⟨res, h⟩ := C15_root_terminates_inD lim hfit p hD hh hf hist tt
  have hle := rootFuelP_le p
  obtain ⟨hV, hE, _⟩ := (inD_iff p).mp hD
  have e : Gen.INF + Gen.MATE_SCORE = 11000000 := rfl
  exact ⟨res, h, C03_rules lim (rootFuelP p) p hist tt res hV hE htt (by rw [e]; omega) (by omega) (by omega)
    (h _ (Nat.le_refl _))⟩

/-! ## non-vacuity -/
namespace C15TermEx

/-- kernel-evaluable form of `CaptDom` for a finite list of positions. -/
def captClosedB (l : List Position) : Bool :=
  l.all fun q => decide ((legalCaptures q).length ≤ Gen.orderBufQsearch) &&
    (legalCaptures q).all fun m => decide (decodeMove q m ∈ Spec.legalMoves (abs q)) &&
      match q.makemove m false with
      | none => false
      | some q' => decide (q' ∈ l)

theorem captDom_of_closedB {l : List Position} (h : captClosedB l = true) : CaptDom (· ∈ l) := by
  simp only [captClosedB, List.all_eq_true, Bool.and_eq_true, decide_eq_true_eq] at h
  refine ⟨fun q m q' hq _ hm hmk => ?_, fun q hq _ => (h q hq).1, fun q hq _ m hm => ((h q hq).2 m hm).1⟩
  have := ((h q hq).2 m hm).2
  rw [hmk] at this
  exact of_decide_eq_true this

/-- after 1.e4 d5 (position of C19): the capture tree is exd5, Qxd5 — three positions, the last two with the
stale key quiescence leaves behind. -/
def q0 : Position := posE4D5
def q1 : Position := (q0.makemove ⟨28, 35, 6⟩ false).getD default
def q2 : Position := (q1.makemove ⟨3, 27, 6⟩ false).getD default

theorem q0_valid : ValidPos q0 = true := by decide +kernel
theorem capt_closed : captClosedB [q0, q1, q2] = true := by decide +kernel

/-- the hypotheses of (2) hold on a three-ply capture tree with 32 men; conclusions through the theorems. -/
example : count q0.occ = 32 ∧ qsearch 33 q0 ⟨0, 0⟩ (-50) 50 0 ≠ none ∧ qminimax 33 q0 ≠ none ∧
    qsearch qFuel q0 ⟨0, 0⟩ (-50) 50 0 ≠ none :=
  ⟨by decide +kernel,
   C15_qsearch_terminates (captDom_of_closedB capt_closed) q0 (by simp) q0_valid (by decide) (by decide) _ _ _ _,
   C15_qminimax_defined (captDom_of_closedB capt_closed) q0 (by simp) q0_valid (by decide) (by decide),
   C15_qsearch_qFuel (captDom_of_closedB capt_closed) q0 (by simp) q0_valid (by decide) (by decide) _ _ _ _⟩

/-- a position without legal moves is a closed set by itself (the null move is only asked for out of check and
when the side to move has more than two pieces). -/
theorem chessDom_terminal (p : Position) (h1 : legalMoves p = []) (h2 : legalCaptures p = [])
    (h3 : p.inCheck = true ∨ isEndgame p = true) : ChessDom (· = p) := by
  refine ⟨?_, ?_, ?_, ?_, ?_⟩
  · intro q m q' hq _ hm; subst hq; rw [h1] at hm; cases hm
  · intro q m q' hq _ hm; subst hq; rw [h2] at hm; cases hm
  · intro q hq _ hc he; subst hq
    rcases h3 with h | h
    · rw [h] at hc; cases hc
    · rw [h] at he; cases he
  · intro q hq _; subst hq; rw [h1]; decide
  · intro q hq _ m hm; subst hq; rw [h1] at hm; cases hm

/-- the stalemate of C13 (white Ka1; black Qc2, Kh8; white to move), key recomputed. -/
def staleV : Position := fixHash C13Ex.stale

/-- a checkmate (white Kf7, pawn g7; black Kh8, pawn h7; black to move — boards relative to the mover). -/
def matedV : Position := fixHash
  { c0 := 0x8080#64, c1 := 0x6000#64,
    p0 := 0xC000#64, p1 := 0#64, p2 := 0#64, p3 := 0#64, p4 := 0#64, p5 := 0x2080#64,
    halfmoves := 0, fullmoves := 60, black := true, ep := none,
    usK := false, usQ := false, themK := false, themQ := false,
    cf0 := 7, cf1 := 0, cf2 := 7, cf3 := 0, hash := 0#64, frc := false }

theorem staleV_valid : ValidPos staleV = true := by decide +kernel
theorem staleV_dom : ChessDom (· = staleV) :=
  chessDom_terminal staleV (by decide +kernel) (by decide +kernel) (Or.inr (by decide +kernel))
theorem matedV_valid : ValidPos matedV = true := by decide +kernel
theorem matedV_dom : ChessDom (· = matedV) :=
  chessDom_terminal matedV (by decide +kernel) (by decide +kernel) (Or.inl (by decide +kernel))

/-- the hypotheses of (3) and (4) hold on a stalemate and on a checkmate, for an arbitrary clock oracle, table and
history. (A set `D` closed under *all* legal moves that is small enough to be checked by evaluation consists of
positions without legal moves; for positions with moves `ChessDom` is the statement C01 + "at most 218 moves".) -/
example (o : Nat → Bool) (hist : List BB) (tt : Table TTEntry) :
    ∃ res, ∀ f, rootFuelP staleV ≤ f → root (.clock o) f staleV hist tt = some res :=
  C15_root_terminates (.clock o) staleV_dom staleV rfl staleV_valid (by decide) (by decide) hist tt

example (hist : List BB) (tt : Table TTEntry) :
    ∃ res, ∀ f, rootFuelP matedV ≤ f → root (.depth 5) f matedV hist tt = some res :=
  C15_root_terminates (.depth 5) matedV_dom matedV rfl matedV_valid (by decide) (by decide) hist tt

example : rootFuelP staleV = 52632 ∧ rootFuelP matedV = 157896 ∧ negamaxFuel matedV 3 5 = 8567 := by decide +kernel

/-- a non-root call in the middle of a search (in check: the depth is extended, the move loop finds no move). -/
example : ∀ f, negamaxFuel matedV 3 5 ≤ f →
    negamax (.nodes 10) f matedV C13Ex.st0 (-7) 9 3 5 true ≠ none :=
  C15_negamax_terminates _ matedV_dom matedV rfl matedV_valid 3 5 (by decide) (by decide +kernel)
    (by decide +kernel) _ _ _ _

/-- the start position is in `D`; under the 218-move bound the driver terminates on it (any limit, history, table),
with the fuel shown. -/
example (hfit : MovesFit) (lim : Limit) (hist : List BB) (tt : Table TTEntry) :
    ∃ res, ∀ f, rootFuelP Gen.startpos ≤ f → root lim f Gen.startpos hist tt = some res :=
  C15_root_terminates_inD lim hfit Gen.startpos startpos_inD (by decide +kernel) (by decide +kernel) hist tt

example : potP Gen.startpos = 128 ∧ rootFuelP Gen.startpos = 1697382 := by decide +kernel

end C15TermEx

#print axioms C15_qsearch_fuel_mono
#print axioms C15_negamax_fuel_mono
#print axioms C15_root_fuel_mono
#print axioms C15_qsearch_terminates
#print axioms C15_qsearch_qFuel
#print axioms C15_qminimax_defined
#print axioms C15_qsearch_total_sound
#print axioms C15_negamax_terminates
#print axioms C15_root_terminates
#print axioms C15_root_never_hangs
#print axioms C03_root_total
#print axioms C03_root_total_inv
#print axioms C14_depth_total
#print axioms C15_qsearch_terminates_inD
#print axioms C15_qminimax_defined_inD
#print axioms C15_negamax_terminates_inD
#print axioms C15_root_terminates_inD
#print axioms C03_rules_total

end Rawr
