import Rawr.Props.C15
import Rawr.Props.C15_termination
import Rawr.Props.C03_code
import Rawr.Proofs.RustSessionAgree_GoRules
/-!
# C15 on the regenerated code: `R.listen`, `R.listen_loop5`, `R.listen_loop5_step`, `R.parse_go`, and the search functions

`Props/C15.lean` proves shape and totality of the UCI conversation for the hand-written model (`listen`, `secondLoop`,
`stepSecond`), `Props/C15_termination.lean` the fuel bounds of the search model.  The session layer of the engine is
regenerated from uci/listen.rs, uci/go.rs, … on every run:

* `R.listen fuel ar sfuel clk version stdin : Option (unread lines × printed byte stream)` — `fuel` bounds the number of
  loop iterations, `sfuel` is the fuel handed to the search (the agreements are for `sfuel = 1000`, the model's value),
  `clk` the clock as a function of the poll number, `version` the `CARGO_PKG_VERSION` string; `none` = the process panics
  or the iteration bound is exhausted;
* `R.listen_loop5` the second command loop, `R.listen_loop5_step` one iteration of it (loop-carried variables
  `(exited, input, stdin, got_isready, pos, history, tt, out, hash, is_frc)` = `Sess.st5 ex input stdin got s out` for the
  model state `s = ⟨hash, is_frc, pos, history.reverse, tt⟩`; every tuple of loop variables is of this form).

The agreements (`Proofs/RustSessionAgree_Listen.lean`, `_Step`, `_Rules`, `_GoRules`) relate what the code PRINTS — a byte
stream — to the model's list of lines through the explicit projection `Sess.transcript` (cut at `'\n'`, `time <t>` ↦
`time ?`, `nps <n>` dropped, `id name Rawr <version>` ↦ `id name Rawr ?`), resp. the relation `Sess.Out y L` ("`y` consists of
complete lines whose canonical form is `L`", hence `Sess.transcript y = L`: `Sess.Out.transcript`).  So every statement
below about printed text is a statement about `Sess.transcript` of the printed stream.

**Hypotheses.**  `ListenHyps fuel ar clk o version lines` is EXACTLY the hypothesis list of `agree_listen`, bundled:
`lines.length + 1 < fuel`, no newline in the version string, and a family `G` of position invariants (`hI`, `hM`, `hS`)
with `Sess.ListenOk G fuel ar clk o lines` (the side conditions of the `go` / `position` / `moves` / `print` commands along
the model's run; `o` is the model's stop oracle, tied to `clk` by `ListenOk` for the time controls only).
`listenHyps_nomoves`: for sessions without `go` / `position` / `moves` lines it holds with no condition but the first two
(`agree_listen_nomoves`) — the `…_nomoves` theorems are hypothesis-free in that sense.  `StepHyps` is the same for one
iteration (`agree_listen_loop5_step`: `Sess.StepOk`), `stepHyps_plain` discharges it for every line whose command word is
none of `go position moves print display board`.

* shape: `C15_code_isready`, `C15_code_search_one_bestmove`, `C15_code_other_lines_silent`, `C15_code_quit_step` (one
  iteration), `C15_code_quit_ends` (second loop), `C15_code_quit_in_first_loop`, `C15_code_eof`,
  `C15_code_transcript_shape` (whole process), `C15_code_parse_go_total`;
* totality: `C15_code_no_panic_partial`, `C15_code_no_panic_iff` (`R.listen … ≠ none ↔ ListenSafe`),
  `C15_code_no_panic_nomoves`, `C15_code_listen_terminates` (the iteration bound is not an observable);
* termination of the search (`C15_termination.lean`): `C15_code_qsearch_fuel_mono`, `C15_code_negamax_fuel_mono`,
  `C15_code_root_fuel_mono`, `C15_code_qsearch_terminates_inD`, `C15_code_negamax_terminates_inD`,
  `C15_code_root_terminates_inD`, `C15_code_root_never_hangs` — extra hypotheses w.r.t. the model theorems: those of
  `agree_qsearch_rules` / `agree_negamax_rules` / `agree_root_rules` (`ValidPos`, `EpConsistent`, counter room
  `halfmoves/fullmoves + fuel + 64 < 2^31` FOR THE FUEL AT HAND, `toLimit clock p s = some lim`).

Not restated: `C15_search_answered` (its hypothesis "the model's `root` returns" has no counterpart among the loop
variables; its content is `C15_code_search_one_bestmove` + `C15_code_no_panic_iff`); `C15_eof_second` (contained in
`loop5_code_model` for `lines = []`); the `ChessDom D` forms of the termination theorems (the `InD` forms are their
instances for the domain of the other properties; the agreement needs `EpConsistent`, which a general `D` does not give);
`C15_qminimax_defined` (about the reference value, no code in it — `C19_code`).
-/
namespace Rawr
open Position

/-! ## the hypotheses of the agreements, bundled -/

/-- the hypotheses of `agree_listen`. -/
def ListenHyps (fuel : Nat) (ar : Arith) (clk : Nat → Nat) (o : Nat → Bool) (version : Option (List Char))
    (lines : List (List Char)) : Prop :=
  lines.length + 1 < fuel ∧ '\n' ∉ version.getD ['u', 'n', 'k', 'n', 'o', 'w', 'n'] ∧
  ∃ G : Nat → Position → Prop, (∀ n p, G (n + 1) p → MovesOnBoard p) ∧ (∀ n p, G (n + 1) p → G n p) ∧
    (∀ n p m np, G (n + 1) p → m ∈ legalMoves p → p.makemove m true = some np → G n np) ∧
    Sess.ListenOk G fuel ar clk o lines

/-- the hypotheses of `agree_listen_loop5_step` (state `s`, line `input`). -/
def StepHyps (fuel : Nat) (ar : Arith) (clk : Nat → Nat) (o : Nat → Bool) (s : UState) (input : List Char) : Prop :=
  ∃ G : Nat → Position → Prop, (∀ n p, G (n + 1) p → MovesOnBoard p) ∧ (∀ n p, G (n + 1) p → G n p) ∧
    (∀ n p m np, G (n + 1) p → m ∈ legalMoves p → p.makemove m true = some np → G n np) ∧
    Sess.StepOk G fuel ar clk o s (splitWs input)

/-- the hypotheses of `agree_listen_loop5` (second loop from state `s` on the lines `lines`). -/
def LoopHyps (fuel : Nat) (ar : Arith) (clk : Nat → Nat) (o : Nat → Bool) (s : UState) (lines : List (List Char)) : Prop :=
  ∃ G : Nat → Position → Prop, (∀ n p, G (n + 1) p → MovesOnBoard p) ∧ (∀ n p, G (n + 1) p → G n p) ∧
    (∀ n p m np, G (n + 1) p → m ∈ legalMoves p → p.makemove m true = some np → G n np) ∧
    Sess.SessOk G fuel ar clk o lines s

/-- **`agree_listen`**: the canonical transcript of what the regenerated `listen` prints is the model's output. -/
theorem listen_code_model {fuel : Nat} {ar : Arith} {clk : Nat → Nat} {o : Nat → Bool} {version : Option (List Char)}
    {lines : List (List Char)} (h : ListenHyps fuel ar clk o version lines) :
    (R.listen fuel ar 1000 clk version lines).map (fun r => Sess.transcript r.2) = listen ar o lines := by
  obtain ⟨hf, hv, G, hI, hM, hS, hok⟩ := h
  exact agree_listen G hI hM hS fuel ar clk o version lines hf hv hok

/-- a result of the regenerated `listen` is, projected, the result of the model's. -/
theorem listen_code_some {fuel : Nat} {ar : Arith} {clk : Nat → Nat} {o : Nat → Bool} {version : Option (List Char)}
    {lines : List (List Char)} (h : ListenHyps fuel ar clk o version lines) {r : List (List Char) × List Char}
    (hr : R.listen fuel ar 1000 clk version lines = some r) : listen ar o lines = some (Sess.transcript r.2) := by
  rw [← listen_code_model h, hr]; rfl

/-- conversely, when the model returns so does the regenerated `listen`, with that transcript. -/
theorem listen_code_of_model {fuel : Nat} {ar : Arith} {clk : Nat → Nat} {o : Nat → Bool} {version : Option (List Char)}
    {lines : List (List Char)} (h : ListenHyps fuel ar clk o version lines) {out : List String}
    (hm : listen ar o lines = some out) :
    ∃ r, R.listen fuel ar 1000 clk version lines = some r ∧ Sess.transcript r.2 = out := by
  have := listen_code_model h
  rw [hm, Option.map_eq_some_iff] at this
  exact this

/-- sessions without `go` / `position` / `moves` lines satisfy the hypotheses (the proof of `agree_listen_nomoves`). -/
theorem listenHyps_nomoves {fuel : Nat} (ar : Arith) (clk : Nat → Nat) (o : Nat → Bool) {version : Option (List Char)}
    {lines : List (List Char)} (hfuel : lines.length + 1 < fuel)
    (hv : '\n' ∉ version.getD ['u', 'n', 'k', 'n', 'o', 'w', 'n']) (hq : ∀ l ∈ lines, Sess.NoMoveCmd l) :
    ListenHyps fuel ar clk o version lines := by
  refine ⟨hfuel, hv, fun _ _ => False, fun _ _ h => h.elim, fun _ _ h => h.elim, fun _ _ _ _ h => h.elim, ?_⟩
  intro pos s got rest hsf hfl
  rw [Sess.setFen_startpos] at hsf
  injection hsf with hsf
  subst hsf
  obtain ⟨hs, hsub⟩ := Sess.firstLoop_start lines _ s got rest (by rfl) hfl
  refine Sess.sessOk_nomoves _ _ _ _ _ rest { s with tt := s.tt.resize s.hashMb Gen.ttEntrySize } hs ?_
  intro l hl
  rcases hsub l hl with h | h
  · exact hq l h
  · rw [h]; exact Sess.noMove_nil

/-- a process that is told to `quit` in the first loop satisfies the hypotheses, whatever follows. -/
theorem firstLoop_quit (opts b : List (List Char)) (q : List Char)
    (hopts : ∀ l ∈ opts, cmdOf l = str "setoption") (hq : isQuitLine q = true) (s : UState) :
    firstLoop (opts ++ q :: b) s = none := by
  have hc : cmdOf q = str "quit" := by simpa [isQuitLine] using hq
  induction opts generalizing s with
  | nil =>
    unfold cmdOf at hc
    have d1 : (str "quit" == str "isready") = false := by decide
    have d2 : (str "quit" == str "setoption") = false := by decide
    simp only [List.nil_append, firstLoop, hc, d1, d2, BEq.rfl, if_true, Bool.false_eq_true, if_false]
  | cons l ls ih =>
    have hl := hopts l (by simp)
    unfold cmdOf at hl
    have d : (str "setoption" == str "isready") = false := by decide
    simp only [List.cons_append, firstLoop, hl, d, BEq.rfl, if_true, Bool.false_eq_true, if_false]
    exact ih (fun x hx => hopts x (by simp [hx])) _

theorem listenHyps_quit_first {fuel : Nat} (ar : Arith) (clk : Nat → Nat) (o : Nat → Bool) {version : Option (List Char)}
    (opts b : List (List Char)) (q : List Char) (hfuel : (opts ++ q :: b).length + 1 < fuel)
    (hv : '\n' ∉ version.getD ['u', 'n', 'k', 'n', 'o', 'w', 'n'])
    (hopts : ∀ l ∈ opts, cmdOf l = str "setoption") (hq : isQuitLine q = true) :
    ListenHyps fuel ar clk o version (opts ++ q :: b) := by
  refine ⟨hfuel, hv, fun _ _ => False, fun _ _ h => h.elim, fun _ _ h => h.elim, fun _ _ _ _ h => h.elim, ?_⟩
  intro pos s got rest _ hfl
  rw [firstLoop_quit opts b q hopts hq] at hfl
  cases hfl

/-! ## one iteration of the second loop: `R.listen_loop5_step` against `stepSecond` -/

/-- **`agree_listen_loop5_step`** with the model's `stepSecond` on the line. -/
theorem step_code_model {fuel : Nat} {ar : Arith} {clk : Nat → Nat} {o : Nat → Bool} {s : UState} {input : List Char}
    (h : StepHyps fuel ar clk o s input) (x : Nat) (ex : Bool) (stdin : List (List Char)) (out : List Char) :
    Sess.StepRel out ex input stdin (stepSecond ar o s input)
      (R.listen_loop5_step fuel ar 1000 clk x ex input stdin false s.pos s.hist.reverse s.tt out s.hashMb s.frc) := by
  obtain ⟨G, hI, hM, hS, hok⟩ := h
  rw [Sess.stepSecond_toks]
  exact agree_listen_loop5_step G hI hM hS fuel ar clk o x ex input stdin s out hok

/-- the three cases of `Sess.StepRel`, read from the model to the code. -/
theorem stepRel_none {out : List Char} {ex : Bool} {input : List Char} {stdin : List (List Char)}
    {x : Option (ForInStep Sess.St5)} (h : Sess.StepRel out ex input stdin none x) : x = none := by
  unfold Sess.StepRel at h; exact h

theorem stepRel_quit {out : List Char} {ex : Bool} {input : List Char} {stdin : List (List Char)} {s' : UState}
    {L : List String} {x : Option (ForInStep Sess.St5)} (h : Sess.StepRel out ex input stdin (some (s', L, true)) x) :
    x = some (ForInStep.done (Sess.st5 true input stdin true s' out)) ∧ L = [] := by
  unfold Sess.StepRel at h; exact h

theorem stepRel_cont {out : List Char} {ex : Bool} {input : List Char} {stdin : List (List Char)} {s' : UState}
    {L : List String} {x : Option (ForInStep Sess.St5)} (h : Sess.StepRel out ex input stdin (some (s', L, false)) x) :
    ∃ y, x = some (ForInStep.yield (Sess.st5 ex input stdin true s' (out ++ y))) ∧ Sess.Out y L := by
  unfold Sess.StepRel at h; exact h

/-- … and from the code to the model: a returning iteration is a returning model step, with the same new state; a
`quit` ends the loop (`done`, nothing printed), every other line continues it (`yield`) having printed `y` with
canonical form `L`. -/
theorem stepRel_some {out : List Char} {ex : Bool} {input : List Char} {stdin : List (List Char)}
    {m : Option (UState × List String × Bool)} {x : Option (ForInStep Sess.St5)} {r : ForInStep Sess.St5}
    (h : Sess.StepRel out ex input stdin m x) (hx : x = some r) :
    ∃ s' L q, m = some (s', L, q) ∧
      ((q = true ∧ r = ForInStep.done (Sess.st5 true input stdin true s' out) ∧ L = []) ∨
       (q = false ∧ ∃ y, r = ForInStep.yield (Sess.st5 ex input stdin true s' (out ++ y)) ∧ Sess.Out y L)) := by
  rcases m with _ | ⟨s', L, q⟩
  · rw [stepRel_none h] at hx; cases hx
  · refine ⟨s', L, q, rfl, ?_⟩
    cases q with
    | true =>
      obtain ⟨e, hL⟩ := stepRel_quit h
      rw [e] at hx; injection hx with hx
      exact Or.inl ⟨rfl, hx.symm, hL⟩
    | false =>
      obtain ⟨y, e, hy⟩ := stepRel_cont h
      rw [e] at hx; injection hx with hx
      exact Or.inr ⟨rfl, y, hx.symm, hy⟩

/-- a line whose command word is none of `go position moves print display board` carries no side condition. -/
theorem stepHyps_plain (fuel : Nat) (ar : Arith) (clk : Nat → Nat) (o : Nat → Bool) (s : UState) (input : List Char)
    (h1 : cmdOf input ≠ str "go") (h2 : cmdOf input ≠ str "position") (h3 : cmdOf input ≠ str "moves")
    (h4 : cmdOf input ≠ str "print") (h5 : cmdOf input ≠ str "display") (h6 : cmdOf input ≠ str "board") :
    StepHyps fuel ar clk o s input :=
  ⟨fun _ _ => False, fun _ _ h => h.elim, fun _ _ h => h.elim, fun _ _ _ _ h => h.elim,
    fun e => absurd e h1, fun e => absurd e h2, fun e => absurd e h3,
    fun e => e.elim (fun e => absurd e h4) (fun e => e.elim (fun e => absurd e h5) (fun e => absurd e h6))⟩

/-- **`C15_isready` on the code** (no hypothesis): an `isready` line makes the regenerated iteration continue with all
of `pos, history, tt, hash, is_frc` unchanged, having printed exactly one line, `readyok`. -/
theorem C15_code_isready (fuel : Nat) (ar : Arith) (clk : Nat → Nat) (x : Nat) (ex : Bool) (input : List Char)
    (stdin : List (List Char)) (s : UState) (out : List Char) (h : isReadyLine input = true) :
    ∃ y, R.listen_loop5_step fuel ar 1000 clk x ex input stdin false s.pos s.hist.reverse s.tt out s.hashMb s.frc =
        some (ForInStep.yield (Sess.st5 ex input stdin true s (out ++ y))) ∧
      Sess.Out y ["readyok"] ∧ Sess.transcript y = ["readyok"] := by
  have hc : cmdOf input = str "isready" := by simpa [isReadyLine] using h
  have hyp : StepHyps fuel ar clk (fun _ => false) s input :=
    stepHyps_plain fuel ar clk _ s input (by rw [hc]; decide) (by rw [hc]; decide) (by rw [hc]; decide)
      (by rw [hc]; decide) (by rw [hc]; decide) (by rw [hc]; decide)
  have hrel := step_code_model hyp x ex stdin out
  rw [C15_isready s input h] at hrel
  obtain ⟨y, e, hy⟩ := stepRel_cont hrel
  exact ⟨y, e, hy, hy.transcript⟩

/-- **`C15_search_one_bestmove` on the code**: when the regenerated iteration on a well-formed search request returns,
it continues the loop and what it printed is, canonically, `info …` lines followed by exactly one `bestmove …` line. -/
theorem C15_code_search_one_bestmove {fuel : Nat} {ar : Arith} {clk : Nat → Nat} {o : Nat → Bool} {s : UState}
    {input : List Char} (hyp : StepHyps fuel ar clk o s input) (x : Nat) (ex : Bool) (stdin : List (List Char))
    (out : List Char) (hl : isSearchLine input = true) {r : ForInStep Sess.St5}
    (h : R.listen_loop5_step fuel ar 1000 clk x ex input stdin false s.pos s.hist.reverse s.tt out s.hashMb s.frc = some r) :
    ∃ s' y L, r = ForInStep.yield (Sess.st5 ex input stdin true s' (out ++ y)) ∧ Sess.transcript y = L ∧ SearchShape L := by
  obtain ⟨s', L, q, hm, hcase⟩ := stepRel_some (step_code_model hyp x ex stdin out) h
  obtain ⟨hshape, hq⟩ := C15_search_one_bestmove hl hm
  rcases hcase with ⟨e, _⟩ | ⟨_, y, hr, hy⟩
  · rw [hq] at e; cases e
  · exact ⟨s', y, L, hr, hy.transcript, hshape⟩

/-- **`C15_other_lines_silent` on the code**: every other line — when the iteration returns — prints, canonically,
neither a `bestmove …` nor a `readyok` line (`quit`: ends the loop having printed nothing). -/
theorem C15_code_other_lines_silent {fuel : Nat} {ar : Arith} {clk : Nat → Nat} {o : Nat → Bool} {s : UState}
    {input : List Char} (hyp : StepHyps fuel ar clk o s input) (x : Nat) (ex : Bool) (stdin : List (List Char))
    (out : List Char) (h1 : isReadyLine input = false) (h2 : isSearchLine input = false) {r : ForInStep Sess.St5}
    (h : R.listen_loop5_step fuel ar 1000 clk x ex input stdin false s.pos s.hist.reverse s.tt out s.hashMb s.frc = some r) :
    ∃ s' y L, (r = ForInStep.yield (Sess.st5 ex input stdin true s' (out ++ y)) ∨
        (r = ForInStep.done (Sess.st5 true input stdin true s' out) ∧ y = [])) ∧
      Sess.transcript y = L ∧ nReady L = 0 ∧ nBest L = 0 := by
  obtain ⟨s', L, q, hm, hcase⟩ := stepRel_some (step_code_model hyp x ex stdin out) h
  obtain ⟨n1, n2⟩ := C15_other_lines_silent h1 h2 hm
  rcases hcase with ⟨_, hr, hL⟩ | ⟨_, y, hr, hy⟩
  · exact ⟨s', [], L, Or.inr ⟨hr, rfl⟩, by rw [hL]; rfl, n1, n2⟩
  · exact ⟨s', y, L, Or.inl hr, hy.transcript, n1, n2⟩

/-- `quit` in the second loop (no hypothesis): the regenerated iteration ends the loop (`done`, `exited = true`) with
the state and the printed stream untouched; the unread lines `stdin` are never looked at. -/
theorem C15_code_quit_step (fuel : Nat) (ar : Arith) (clk : Nat → Nat) (x : Nat) (ex : Bool) (input : List Char)
    (stdin : List (List Char)) (s : UState) (out : List Char) (h : isQuitLine input = true) :
    R.listen_loop5_step fuel ar 1000 clk x ex input stdin false s.pos s.hist.reverse s.tt out s.hashMb s.frc =
      some (ForInStep.done (Sess.st5 true input stdin true s out)) := by
  have hc : cmdOf input = str "quit" := by simpa [isQuitLine] using h
  have hyp : StepHyps fuel ar clk (fun _ => false) s input :=
    stepHyps_plain fuel ar clk _ s input (by rw [hc]; decide) (by rw [hc]; decide) (by rw [hc]; decide)
      (by rw [hc]; decide) (by rw [hc]; decide) (by rw [hc]; decide)
  have hrel := step_code_model hyp x ex stdin out
  rw [stepSecond_quit ar _ s input hc] at hrel
  exact (stepRel_quit hrel).1

/-- a line read from `stdin` (`got_isready = true`) is processed as if it had been in `input` with its newline
(`Sess.loop5_step_read`; `splitWs (l ++ ['\n']) = splitWs l`, so the classification of the line is that of `l`). -/
theorem C15_code_step_read (fuel : Nat) (ar : Arith) (clk : Nat → Nat) (x : Nat) (ex : Bool) (input l : List Char)
    (ls : List (List Char)) (s : UState) (out : List Char) :
    R.listen_loop5_step fuel ar 1000 clk x ex input (l :: ls) true s.pos s.hist.reverse s.tt out s.hashMb s.frc =
      R.listen_loop5_step fuel ar 1000 clk x ex (l ++ ['\n']) ls false s.pos s.hist.reverse s.tt out s.hashMb s.frc ∧
    cmdOf (l ++ ['\n']) = cmdOf l ∧ argsOf (l ++ ['\n']) = argsOf l :=
  ⟨Sess.loop5_step_read fuel ar clk x ex input l ls s.pos s.hist.reverse s.tt out s.hashMb s.frc,
    by unfold cmdOf; rw [Sess.splitWs_nl], by unfold argsOf; rw [Sess.splitWs_nl]⟩

/-- **`parseGo_total` on the code**: with fuel for its `loop` the regenerated `parse_go` returns on every token list
(`Ok` or `Err("Uh oh")`, never a panic), with the model's classification. -/
theorem C15_code_parse_go_total (fuel : Nat) (toks : List (List Char)) (h : toks.length + 1 ≤ fuel) :
    ∃ r, R.parse_go fuel toks = some r ∧ r.1.map goToModel = parseGo toks := by
  have := agree_parse_go fuel toks h
  rw [Option.map_eq_some_iff] at this
  exact this

/-! ## the second loop: `R.listen_loop5` against `secondLoop` -/

/-- **`agree_listen_loop5`** as an equation: exit flag and canonical transcript of the regenerated second loop, started
with `got_isready = true` on the unread lines `lines`, are the model's (`none` = panic on both sides). -/
theorem loop5_code_model {fuel : Nat} {ar : Arith} {clk : Nat → Nat} {o : Nat → Bool} {s : UState}
    {lines : List (List Char)} (h : LoopHyps fuel ar clk o s lines) (it : List Nat) (hlen : lines.length < it.length)
    (input : List Char) (out : List Char) (acc : List String) (ho : Sess.Out out acc) :
    (R.listen_loop5 fuel ar 1000 clk it input lines true s.pos s.hist.reverse s.tt out s.hashMb s.frc).map
        (fun t => (t.1, Sess.transcript t.2.2.2.2.2.2.2.1)) =
      (secondLoop ar o lines s acc).map fun L => (true, L) := by
  obtain ⟨G, hI, hM, hS, hok⟩ := h
  have hrel := agree_listen_loop5 G hI hM hS fuel ar clk o lines it input lines true s out acc hlen
    (Or.inl ⟨rfl, rfl⟩) hok ho
  unfold Sess.LoopRel at hrel
  cases hm : secondLoop ar o lines s acc with
  | none => rw [hm] at hrel; simp only [] at hrel; rw [hrel]; rfl
  | some L =>
    rw [hm] at hrel
    simp only [] at hrel
    obtain ⟨t, e, h1, h2⟩ := hrel
    rw [e, Option.map_some, Option.map_some, h1, h2.transcript]

/-- the side conditions of a run that ends with `quit` do not depend on what follows the `quit`. -/
theorem sessOk_quit_cut (G : Nat → Position → Prop) (fuel : Nat) (ar : Arith) (clk : Nat → Nat) (o : Nat → Bool)
    (a b : List (List Char)) (q : List Char) (hq : isQuitLine q = true) (s : UState)
    (h : Sess.SessOk G fuel ar clk o (a ++ q :: b) s) : Sess.SessOk G fuel ar clk o (a ++ [q]) s := by
  have hc : cmdOf q = str "quit" := by simpa [isQuitLine] using hq
  induction a generalizing s with
  | nil =>
    refine ⟨h.1, fun s' L hstep => ?_⟩
    rw [stepSecond_quit ar o s q hc] at hstep
    cases hstep
  | cons l ls ih => exact ⟨h.1, fun s' L hstep => ih s' (h.2 s' L hstep)⟩

/-- **`C15_quit_ends` on the code**: the regenerated second loop does not look at the lines after a `quit` — exit
flag and canonical transcript are those of the run on the lines up to the `quit`. -/
theorem C15_code_quit_ends {fuel : Nat} {ar : Arith} {clk : Nat → Nat} {o : Nat → Bool} {s : UState}
    (a b : List (List Char)) (q : List Char) (hq : isQuitLine q = true)
    (h : LoopHyps fuel ar clk o s (a ++ q :: b)) (it : List Nat) (hlen : (a ++ q :: b).length < it.length)
    (input : List Char) (out : List Char) (acc : List String) (ho : Sess.Out out acc) :
    (R.listen_loop5 fuel ar 1000 clk it input (a ++ q :: b) true s.pos s.hist.reverse s.tt out s.hashMb s.frc).map
        (fun t => (t.1, Sess.transcript t.2.2.2.2.2.2.2.1)) =
    (R.listen_loop5 fuel ar 1000 clk it input (a ++ [q]) true s.pos s.hist.reverse s.tt out s.hashMb s.frc).map
        (fun t => (t.1, Sess.transcript t.2.2.2.2.2.2.2.1)) := by
  have h' : LoopHyps fuel ar clk o s (a ++ [q]) := by
    obtain ⟨G, hI, hM, hS, hok⟩ := h
    exact ⟨G, hI, hM, hS, sessOk_quit_cut G fuel ar clk o a b q hq s hok⟩
  rw [loop5_code_model h it hlen input out acc ho,
    loop5_code_model h' it (by simp only [List.length_append, List.length_cons, List.length_nil] at hlen ⊢; omega)
      input out acc ho,
    C15_quit_ends a b q hq s acc]

/-! ## the whole process: `R.listen` -/

/-- **`C15_transcript_shape` on the code.** If the regenerated `listen` returns, the canonical transcript of what it
printed has exactly `expectedReady lines` lines `readyok` and `expectedBest lines` lines `bestmove …` — the two counts
being functions of the input lines alone. -/
theorem C15_code_transcript_shape {fuel : Nat} {ar : Arith} {clk : Nat → Nat} {o : Nat → Bool}
    {version : Option (List Char)} {lines : List (List Char)} (h : ListenHyps fuel ar clk o version lines)
    {r : List (List Char) × List Char} (hr : R.listen fuel ar 1000 clk version lines = some r) :
    (Sess.transcript r.2).count "readyok" = expectedReady lines ∧
    (Sess.transcript r.2).countP isBest = expectedBest lines :=
  C15_transcript_shape (listen_code_some h hr)

/-- **`C15_no_panic_iff` on the code**: the regenerated `listen` returns (no panic; the iteration bound is not
hit) exactly on the `ListenSafe` scripts. -/
theorem C15_code_no_panic_iff {fuel : Nat} {ar : Arith} {clk : Nat → Nat} {o : Nat → Bool}
    {version : Option (List Char)} {lines : List (List Char)} (h : ListenHyps fuel ar clk o version lines) :
    R.listen fuel ar 1000 clk version lines ≠ none ↔ ListenSafe ar o lines := by
  rw [← C15_no_panic_iff, ← listen_code_model h]
  cases R.listen fuel ar 1000 clk version lines <;> simp

/-- **`C15_no_panic_partial` on the code.** -/
theorem C15_code_no_panic_partial {fuel : Nat} {ar : Arith} {clk : Nat → Nat} {o : Nat → Bool}
    {version : Option (List Char)} {lines : List (List Char)} (h : ListenHyps fuel ar clk o version lines)
    (hs : ListenSafe ar o lines) : R.listen fuel ar 1000 clk version lines ≠ none :=
  (C15_code_no_panic_iff h).mpr hs

/-- the iteration bound of the regenerated loops is not an observable: a `ListenSafe` script has ONE transcript, which
the regenerated `listen` produces for every bound, clock-compatible oracle and version string the agreement allows. -/
theorem C15_code_listen_terminates {ar : Arith} {o : Nat → Bool} {lines : List (List Char)}
    (hs : ListenSafe ar o lines) :
    ∃ out, listen ar o lines = some out ∧ ∀ fuel clk version, ListenHyps fuel ar clk o version lines →
      ∃ r, R.listen fuel ar 1000 clk version lines = some r ∧ Sess.transcript r.2 = out := by
  obtain ⟨out, ho⟩ := Option.isSome_iff_exists.1 (listen_safe hs)
  exact ⟨out, ho, fun fuel clk version h => listen_code_of_model h ho⟩

/-- a script without `go` / `position` / `moves` lines is `ListenSafe`. -/
theorem safe_nomoves (ar : Arith) (o : Nat → Bool) :
    ∀ (ls : List (List Char)) (s : UState), (∀ l ∈ ls, Sess.NoMoveCmd l) → Safe ar o s ls := by
  intro ls
  induction ls with
  | nil => intro _ _; trivial
  | cons l ls ih =>
    intro s hq
    obtain ⟨q1, q2, q3⟩ := hq l (by simp)
    exact ⟨StepSafe_of_other s l q1 q2 q3, fun s' _ _ => ih s' (fun x hx => hq x (by simp [hx]))⟩

theorem listenSafe_nomoves (ar : Arith) (o : Nat → Bool) (lines : List (List Char))
    (hq : ∀ l ∈ lines, Sess.NoMoveCmd l) : ListenSafe ar o lines := by
  unfold ListenSafe
  cases ha : afterFirst lines with
  | none => trivial
  | some r =>
    obtain ⟨s, g, rest⟩ := r
    simp only []
    unfold afterFirst at ha
    rw [Option.map_eq_some_iff] at ha
    obtain ⟨⟨s0, g0, rest0⟩, hfl, e⟩ := ha
    simp only [Prod.mk.injEq] at e
    obtain ⟨_, _, rfl⟩ := e
    obtain ⟨_, hsub⟩ := Sess.firstLoop_start lines initState s0 g0 rest0 (by rfl) hfl
    apply safe_nomoves
    intro l hl
    rcases hsub l hl with h | h
    · exact hq l h
    · rw [h]; exact Sess.noMove_nil

/-- **no panic, no hypothesis**: on every list of input lines none of which is a `go`, `position` or `moves` command
the regenerated `listen` returns (for every arithmetic, clock, version string without newline and iteration bound above
`lines.length + 1`), and its transcript has the shape of `C15_transcript_shape`. -/
theorem C15_code_no_panic_nomoves (fuel : Nat) (ar : Arith) (clk : Nat → Nat) (version : Option (List Char))
    (lines : List (List Char)) (hfuel : lines.length + 1 < fuel)
    (hv : '\n' ∉ version.getD ['u', 'n', 'k', 'n', 'o', 'w', 'n']) (hq : ∀ l ∈ lines, Sess.NoMoveCmd l) :
    ∃ r, R.listen fuel ar 1000 clk version lines = some r ∧
      (Sess.transcript r.2).count "readyok" = expectedReady lines ∧
      (Sess.transcript r.2).countP isBest = expectedBest lines := by
  have hyp := listenHyps_nomoves ar clk (fun _ => false) hfuel hv hq
  have hne := C15_code_no_panic_partial hyp (listenSafe_nomoves ar _ lines hq)
  obtain ⟨r, hr⟩ := Option.isSome_iff_exists.1 (Option.isSome_iff_ne_none.2 hne)
  exact ⟨r, hr, C15_code_transcript_shape hyp hr⟩

/-- **`C15_quit_in_first_loop` on the code** (no hypothesis on what follows the `quit`): the process returns having
printed the banner only. -/
theorem C15_code_quit_in_first_loop (fuel : Nat) (ar : Arith) (clk : Nat → Nat) (version : Option (List Char))
    (opts b : List (List Char)) (q : List Char) (hfuel : (opts ++ q :: b).length + 1 < fuel)
    (hv : '\n' ∉ version.getD ['u', 'n', 'k', 'n', 'o', 'w', 'n'])
    (hopts : ∀ l ∈ opts, cmdOf l = str "setoption") (hq : isQuitLine q = true) :
    (R.listen fuel ar 1000 clk version (opts ++ q :: b)).map (fun r => Sess.transcript r.2) =
      some (banner false 16) := by
  rw [listen_code_model (listenHyps_quit_first ar clk (fun _ => false) opts b q hfuel hv hopts hq)]
  exact C15_quit_in_first_loop opts b q hopts hq

/-- **`C15_eof` on the code**: end of input at once — the banner, and a clean return. -/
theorem C15_code_eof (fuel : Nat) (ar : Arith) (clk : Nat → Nat) (version : Option (List Char)) (hfuel : 1 < fuel)
    (hv : '\n' ∉ version.getD ['u', 'n', 'k', 'n', 'o', 'w', 'n']) :
    (R.listen fuel ar 1000 clk version []).map (fun r => Sess.transcript r.2) = some (banner false 16) := by
  rw [listen_code_model (listenHyps_nomoves ar clk (fun _ => false) (by simpa using hfuel) hv (by simp))]
  exact C15_eof

/-! ## termination of the regenerated search (`Props/C15_termination.lean`) -/

/-- **`C15_qsearch_fuel_mono` on the code.**  Extra hypotheses: those of `agree_qsearch_rules` for the larger fuel. -/
theorem C15_code_qsearch_fuel_mono {f f' : Nat} {p : Position} {st : QState} {α β ply : Int} {r : Int × QState}
    (hV : ValidPos p = true) (hE : Spec.EpConsistent (abs p) = true)
    (hh : p.halfmoves + f' + 64 < 2147483648) (hf : p.fullmoves + f' + 64 < 2147483648)
    (h : R.qsearch f p st α β ply = some r) (hle : f ≤ f') : R.qsearch f' p st α β ply = some r := by
  rw [agree_qsearch_rules f p hV hE (by omega) (by omega)] at h
  rw [agree_qsearch_rules f' p hV hE hh hf]
  exact C15_qsearch_fuel_mono h hle

/-- **`C15_negamax_fuel_mono` on the code.**  Extra hypotheses: those of `agree_negamax_rules` for the larger fuel. -/
theorem C15_code_negamax_fuel_mono {lim : Limit} {f f' : Nat} {p : Position} {st : SState} {α β ply depth : Int}
    {cn : Bool} {r : Int × SState} (hV : ValidPos p = true) (hE : Spec.EpConsistent (abs p) = true)
    (hh : p.halfmoves + f' + 64 < 2147483648) (hf : p.fullmoves + f' + 64 < 2147483648)
    (h : R.negamax (fun s => some (shouldStop lim s)) f p st α β ply depth cn = some r) (hle : f ≤ f') :
    R.negamax (fun s => some (shouldStop lim s)) f' p st α β ply depth cn = some r := by
  rw [agree_negamax_rules lim f p hV hE (by omega) (by omega)] at h
  rw [agree_negamax_rules lim f' p hV hE hh hf]
  exact C15_negamax_fuel_mono h hle

/-- **`C15_root_fuel_mono` on the code**: once the regenerated driver answers, it answers on every larger fuel with the
same result up to the fields the model does not keep (`rootResultOf`, `Props/C03_code.lean`). -/
theorem C15_code_root_fuel_mono {clock : Nat → Nat} {p : Position} {s : R.Settings} {lim : Limit} {f f' : Nat}
    (hlim : toLimit clock p s = some lim) (hV : ValidPos p = true) (hE : Spec.EpConsistent (abs p) = true)
    (hh : p.halfmoves + f' + 64 < 2147483648) (hf : p.fullmoves + f' + 64 < 2147483648)
    {hist : List BB} {tt : Table TTEntry} {r : Except String Mv × List BB × Table TTEntry × List R.Info}
    (h : R.root clock p hist tt s f = some r) (hle : f ≤ f') :
    ∃ r', R.root clock p hist tt s f' = some r' ∧ rootResultOf r' = rootResultOf r :=
  root_code_of_model hlim hV hE hh hf
    (C15_root_fuel_mono (root_code_model hlim hV hE (by omega) (by omega) h) hle)

/-- **`C15_qsearch_terminates_inD` on the code**: on the domain `D = V ∧ E ∧ M` the regenerated quiescence returns on
fuel `count p.occ + 1` (`CapturesFit`: the undischarged hypothesis of the model theorem).  The counter room is the
agreement's, for that fuel (the model theorem asks `+ 64`). -/
theorem C15_code_qsearch_terminates_inD (hfit : Term.CapturesFit) (p : Position) (hD : InD p = true)
    (hh : p.halfmoves + (count p.occ + 1) + 64 < 2147483648) (hf : p.fullmoves + (count p.occ + 1) + 64 < 2147483648)
    (st : QState) (α β ply : Int) : R.qsearch (count p.occ + 1) p st α β ply ≠ none := by
  obtain ⟨hV, hE, _⟩ := (inD_iff p).mp hD
  rw [agree_qsearch_rules _ p hV hE hh hf]
  exact C15_qsearch_terminates_inD hfit p hD (by omega) (by omega) st α β ply

/-- **`C15_negamax_terminates_inD` on the code**: the regenerated `negamax` returns on every fuel from
`negamaxFuel p ply depth` on (counter room of the agreement for the fuel at hand). -/
theorem C15_code_negamax_terminates_inD (lim : Limit) (hfit : Term.MovesFit) (p : Position) (hD : InD p = true)
    (ply depth : Int) (hply : 0 ≤ ply) (st : SState) (α β : Int) (cn : Bool) :
    ∀ f, negamaxFuel p ply depth ≤ f → p.halfmoves + f + 64 < 2147483648 → p.fullmoves + f + 64 < 2147483648 →
      R.negamax (fun s => some (shouldStop lim s)) f p st α β ply depth cn ≠ none := by
  intro f hle hh hf
  obtain ⟨hV, hE, _⟩ := (inD_iff p).mp hD
  rw [agree_negamax_rules lim f p hV hE hh hf]
  exact C15_negamax_terminates_inD lim hfit p hD ply depth hply (by omega) (by omega) st α β cn f hle

/-- **`C15_root_terminates_inD` on the code**: for every position of `D`, search setting, clock, history and table
there is ONE projected result which the regenerated driver returns on every fuel from `rootFuelP p` (≤ 6 750 054) on. -/
theorem C15_code_root_terminates_inD (clock : Nat → Nat) (s : R.Settings) (lim : Limit) (hfit : Term.MovesFit)
    (p : Position) (hlim : toLimit clock p s = some lim) (hD : InD p = true)
    (hh : p.halfmoves < 2140000000) (hf : p.fullmoves < 2140000000) (hist : List BB) (tt : Table TTEntry) :
    ∃ res : RootResult, ∀ f, rootFuelP p ≤ f → p.halfmoves + f + 64 < 2147483648 →
      p.fullmoves + f + 64 < 2147483648 → ∃ r, R.root clock p hist tt s f = some r ∧ rootResultOf r = res := by
  obtain ⟨hV, hE, _⟩ := (inD_iff p).mp hD
  obtain ⟨res, hall⟩ := C15_root_terminates_inD lim hfit p hD hh hf hist tt
  exact ⟨res, fun f hle h1 h2 => root_code_of_model hlim hV hE h1 h2 (hall f hle)⟩

/-- **`C15_root_never_hangs` on the code** (on `D`). -/
theorem C15_code_root_never_hangs (clock : Nat → Nat) (s : R.Settings) (lim : Limit) (hfit : Term.MovesFit)
    (p : Position) (hlim : toLimit clock p s = some lim) (hD : InD p = true)
    (hh : p.halfmoves < 2140000000) (hf : p.fullmoves < 2140000000) (hist : List BB) (tt : Table TTEntry) :
    ∃ F : Nat, ∀ f : Nat, F ≤ f → p.halfmoves + f + 64 < 2147483648 → p.fullmoves + f + 64 < 2147483648 →
      R.root clock p hist tt s f ≠ none := by
  obtain ⟨res, h⟩ := C15_code_root_terminates_inD clock s lim hfit p hlim hD hh hf hist tt
  refine ⟨rootFuelP p, fun f hle h1 h2 => ?_⟩
  obtain ⟨r, hr, _⟩ := h f hle h1 h2
  rw [hr]; exact fun e => by cases e

/-! ## non-vacuity -/
namespace C15CodeEx

/-- options, `isready` twice, `ucinewgame`, `print`, `history`, `eval`, an unknown word, `quit`, trailing `isready`. -/
def script : List (List Char) :=
  [str "setoption name UCI_Chess960 value true", str "setoption name Hash value 1", str "isready", str "isready",
   str "ucinewgame", str "print", str "history", str "eval", str "xyzzy", str "quit", str "isready"]

theorem script_nomoves : ∀ l ∈ script, Sess.NoMoveCmd l := by
  intro l hl
  simp only [script, List.mem_cons, List.not_mem_nil, or_false] at hl
  rcases hl with rfl | rfl | rfl | rfl | rfl | rfl | rfl | rfl | rfl | rfl | rfl <;> (refine ⟨?_, ?_, ?_⟩ <;> decide)

/-- the regenerated `listen` returns on it — for every arithmetic and clock — with two `readyok` and no `bestmove`. -/
example (ar : Arith) (clk : Nat → Nat) : ∃ r, R.listen 20 ar 1000 clk none script = some r ∧
    (Sess.transcript r.2).count "readyok" = 2 ∧ (Sess.transcript r.2).countP isBest = 0 := by
  obtain ⟨r, hr, h1, h2⟩ := C15_code_no_panic_nomoves 20 ar clk none script (by decide) (by decide) script_nomoves
  have e : expectedReady script = 2 ∧ expectedBest script = 0 := by decide +kernel
  exact ⟨r, hr, h1.trans e.1, h2.trans e.2⟩

/-- a session WITH a search: `isready`, `go depth 1`, `quit` satisfies `ListenHyps` (the proof of the non-vacuity
example of `Proofs/RustSessionAgree_GoRules.lean`, `G = VE`), for every clock and oracle. -/
def goScript : List (List Char) := ["isready".toList, "go depth 1".toList, "quit".toList]

theorem goScript_hyps (ar : Arith) (clk : Nat → Nat) (o : Nat → Bool) : ListenHyps 300 ar clk o none goScript := by
  refine ⟨by decide, by decide, VE, fun _ _ h => movesOnBoard_of_valid h.1, VE_mono,
    fun n q m q' hq hm hk => searchDomC_VE.move n q m q' hq hm hk, ?_⟩
  intro pos s got rest hsf hfl
  rw [Sess.setFen_startpos] at hsf
  injection hsf with hsf
  subst hsf
  have hf : firstLoop goScript
      { hashMb := 16, frc := false, pos := Gen.startpos, hist := [Gen.startpos.hash], tt := Table.new 0 Gen.ttEntrySize } =
      some ({ hashMb := 16, frc := false, pos := Gen.startpos, hist := [Gen.startpos.hash], tt := Table.new 0 Gen.ttEntrySize },
        true, ["go depth 1".toList, "quit".toList]) := by
    simp only [goScript, firstLoop]
    rfl
  rw [hf] at hfl
  simp only [Option.some.injEq, Prod.mk.injEq] at hfl
  obtain ⟨rfl, rfl, rfl⟩ := hfl
  have hcmd : (splitWs "go depth 1".toList).headD [] = str "go" := by decide
  refine ⟨⟨fun _ => ⟨by decide, fun u st hp => ?_⟩, fun e => ?_, fun e => ?_, fun e => ?_⟩, ?_⟩
  · have hVE := startpos_VE
    have hpg := agree_parse_go 300 ((splitWs "go depth 1".toList).drop 1) (by decide)
    rw [hp] at hpg
    simp only [Option.map_some, Option.some.injEq] at hpg
    refine Sess.goOk_rules 300 clk o _ u hVE.1 hVE.2.1 (Sess.ttBounded_fresh 16) hVE.2.2.1 hVE.2.2.2 (by decide)
      (fun d hd => ?_) ?_
    · apply Sess.parseGo_small ((splitWs "go depth 1".toList).drop 1) d
      rcases hd with rfl | rfl
      · left; exact hpg.symm
      · right; exact hpg.symm
    · have : parseGo ((splitWs "go depth 1".toList).drop 1) = some (.depth 1) := by rfl
      rw [this] at hpg
      cases u <;> simp only [goToModel, Option.some.injEq, reduceCtorEq] at hpg <;> trivial
  · rw [hcmd] at e; exact absurd e (by decide)
  · rw [hcmd] at e; exact absurd e (by decide)
  · rw [hcmd] at e; rcases e with e | e | e <;> exact absurd e (by decide)
  · intro s' L _
    have hq : (splitWs "quit".toList).headD [] = str "quit" := by decide
    refine ⟨⟨fun e => ?_, fun e => ?_, fun e => ?_, fun e => ?_⟩, fun _ _ _ => trivial⟩
    · rw [hq] at e; exact absurd e (by decide)
    · rw [hq] at e; exact absurd e (by decide)
    · rw [hq] at e; exact absurd e (by decide)
    · rw [hq] at e; rcases e with e | e | e <;> exact absurd e (by decide)

/-- whenever the regenerated `listen` returns on it, the transcript has one `readyok` and exactly one `bestmove …`. -/
example (ar : Arith) (clk : Nat → Nat) (r : List (List Char) × List Char)
    (hr : R.listen 300 ar 1000 clk none goScript = some r) :
    (Sess.transcript r.2).count "readyok" = 1 ∧ (Sess.transcript r.2).countP isBest = 1 := by
  obtain ⟨h1, h2⟩ := C15_code_transcript_shape (goScript_hyps ar clk (fun _ => false)) hr
  have e : expectedReady goScript = 1 ∧ expectedBest goScript = 1 := by decide +kernel
  exact ⟨h1.trans e.1, h2.trans e.2⟩

/-- one iteration: `isready` on a state in the middle of a game; `quit` with unread lines behind it. -/
example (clk : Nat → Nat) : ∃ y, R.listen_loop5_step 5 .trap 1000 clk 0 false (str "isready\n") [str "go"] false
      Gen.startpos [1#64, 2#64] (Table.new 1 Gen.ttEntrySize) (str "uciok\n") 1 false =
    some (ForInStep.yield (false, str "isready\n", [str "go"], true, Gen.startpos, [1#64, 2#64],
      Table.new 1 Gen.ttEntrySize, str "uciok\n" ++ y, 1, false)) ∧ Sess.transcript y = ["readyok"] := by
  obtain ⟨y, e, _, ht⟩ := C15_code_isready 5 .trap clk 0 false (str "isready\n") [str "go"]
    ⟨1, false, Gen.startpos, [2#64, 1#64], Table.new 1 Gen.ttEntrySize⟩ (str "uciok\n") (by decide)
  exact ⟨y, e, ht⟩

example : isQuitLine (str " quit now") = true ∧ isSearchLine (str "go depth 1") = true := by decide +kernel

/-- the start position is in `D`: under the 218-move bound the regenerated driver terminates on it for `go depth 5`. -/
example (hfit : Term.MovesFit) (clock : Nat → Nat) (hist : List BB) (tt : Table TTEntry) :
    ∃ F : Nat, ∀ f : Nat, F ≤ f → Gen.startpos.halfmoves + f + 64 < 2147483648 → Gen.startpos.fullmoves + f + 64 < 2147483648 →
      R.root clock Gen.startpos hist tt (.Depth 5) f ≠ none :=
  C15_code_root_never_hangs clock (.Depth 5) (.depth 5) hfit Gen.startpos rfl startpos_inD (by decide +kernel)
    (by decide +kernel) hist tt

end C15CodeEx

end Rawr

#print axioms Rawr.listen_code_model
#print axioms Rawr.step_code_model
#print axioms Rawr.loop5_code_model
#print axioms Rawr.C15_code_isready
#print axioms Rawr.C15_code_search_one_bestmove
#print axioms Rawr.C15_code_other_lines_silent
#print axioms Rawr.C15_code_quit_step
#print axioms Rawr.C15_code_step_read
#print axioms Rawr.C15_code_parse_go_total
#print axioms Rawr.C15_code_quit_ends
#print axioms Rawr.C15_code_transcript_shape
#print axioms Rawr.C15_code_no_panic_iff
#print axioms Rawr.C15_code_no_panic_partial
#print axioms Rawr.C15_code_listen_terminates
#print axioms Rawr.C15_code_no_panic_nomoves
#print axioms Rawr.C15_code_quit_in_first_loop
#print axioms Rawr.C15_code_eof
#print axioms Rawr.C15_code_qsearch_fuel_mono
#print axioms Rawr.C15_code_negamax_fuel_mono
#print axioms Rawr.C15_code_root_fuel_mono
#print axioms Rawr.C15_code_qsearch_terminates_inD
#print axioms Rawr.C15_code_negamax_terminates_inD
#print axioms Rawr.C15_code_root_terminates_inD
#print axioms Rawr.C15_code_root_never_hangs
