import Rawr.Props.C20
import Rawr.Proofs.PyStyleAgree
import Rawr.Proofs.PyStyleAgree_Game
/-!
# C20 on the regenerated script: `PyStyle.analyse_game`, `PyStyle.analyse_pgn.job`, the score functions, `PyStyle.main.report`

`Props/C20.lean` proves C20 about the hand-written model `Rawr.Style` of tools/style/style.py.  `tools/py2lean_style.py`
regenerates the script's own definitions from its Python `ast` on every run into `Rawr.PyStyle.*`
(`Generated/PyStyle.lean`): the `Stats` dataclass with its defaults (`PyStyle.Stats.default`), the update methods,
`PyStyle.is_valid`, the nested `feature_*` functions, `PyStyle.get_aggression_score`, `PyStyle.get_positional_score`,
`PyStyle.get_pawn_pusher_score` (with their `verbose` argument), `PyStyle.analyse_game`, the per-game statements of
`analyse_pgn` (`PyStyle.analyse_pgn.job`: `analyse_game(..); count += 1; assert(is_valid(stats))`), and `main`'s list of
score functions and per-filter report (`PyStyle.main.styles`, `PyStyle.main.report`).  `Rawr.PyStyleAgree.agree_*`
(`Proofs/PyStyleAgree.lean`, `PyStyleAgree_Game.lean`) prove them equal to the model's functions, with no hypothesis:
the score functions and the report to the model's `.guarded` variant — the text of the script AFTER the repair of finding
F9 (the four zero guards) is the text that is regenerated now.

Consequences for the restatement:
* (a) `C20a_init`, `C20a_step`, `C20a`, `C20a_chess` and (b) `C20b_features`, `C20b_scores` transfer EXACTLY (same
  hypotheses `Inv s`, `WFGame side g` / `ChessGame g`; `v := .guarded`; for every value of `verbose`).  `analyse_game` can
  raise `RuntimeError` besides the model's three classes (`PyStyle.Py.Exc`); `agree_analyse_game` shows it does so never
  (`Py.lift`), which the statements below inherit: they say `= .ok _`.
* (c) `C20c_guarded` / `C20c_guarded_chess` ("no exception for any set of games", TRUE for the guarded text) transfer
  exactly: `C20_code_c_no_abort`, `C20_code_c_no_abort_chess` — on the code the full statement C20(c) holds.
  `C20_code_b_scores_total`, `C20_code_c_styles` add what the model proves for the guarded text beyond `C20b_scores`: the three
  regenerated score functions NEVER raise on statistics satisfying the invariant, and return a value of `[0,1]` as soon as
  there is a game.
* NOT restatable: `C20c_witness`, `C20c_refuted`, `C20c_refuted_chess`, `C20c_partial`, `C20c_exact`, `C20c_exact_chess` speak
  about `Variant.current`, the text of the script BEFORE the repair; no regenerated definition corresponds to it any more
  (`agree_get_aggression_score : PyStyle.get_aggression_score s verbose = getAggressionScore .guarded s`).  The closest
  true statement about the code is the opposite one, `C20_code_c_witness_fixed`: on the refutation witness (one game
  without moves) the regenerated pipeline returns.  They remain theorems about the model's `.current` variant, i.e. the
  record of F9.
* the nested function `get_aggression_score.feature_sacrifices` is regenerated but occurs in no `features` list (dead in
  the script as in the model); `C20b_features` does not speak about it and neither does `C20_code_b_features`.
-/
namespace Rawr.Style
open Rawr.PyStyleAgree

/-- `Py.lift` of a returned value. -/
theorem lift_ok' {α : Type} (a : α) : PyStyle.Py.lift (Except.ok a : Except PyErr α) = .ok a := rfl

/-! ## (a) consistency -/

/-- **`C20a_init` on the code**: the invariant holds of the regenerated `Stats()` and the regenerated `is_valid`
accepts it. -/
theorem C20_code_a_init : Inv PyStyle.Stats.default ∧ PyStyle.is_valid PyStyle.Stats.default = .ok true := by
  rw [agree_Stats_default, agree_is_valid]; exact C20a_init

/-- **`C20a_step` on the code**: from any statistics satisfying the invariant the regenerated `analyse_game` on a
well-formed game RETURNS (no `IndexError`, no `RuntimeError`), the invariant holds again and `is_valid` is true. -/
theorem C20_code_a_step (g : Game) (side : Color) (s : Stats) (hI : Inv s) (hwf : WFGame side g) :
    ∃ s', PyStyle.analyse_game g side s = .ok s' ∧ Inv s' ∧ PyStyle.is_valid s' = .ok true := by
  obtain ⟨s', h1, h2, h3⟩ := C20a_step g side s hI hwf
  exact ⟨s', by rw [agree_analyse_game, h1]; rfl, h2, by rw [agree_is_valid]; exact h3⟩

/-- the per-game statements of `analyse_pgn` (`analyse_game`; `count += 1`; `assert(is_valid(stats))`): the
assertion passes. -/
theorem C20_code_a_job (g : Game) (side : Color) (s : Stats) (count : Nat) (hI : Inv s) (hwf : WFGame side g) :
    ∃ s', PyStyle.analyse_pgn.job g side s count = .ok (s', count + 1) ∧ Inv s' := by
  obtain ⟨s', h1, h2, h3⟩ := C20a_step g side s hI hwf
  refine ⟨s', ?_, h2⟩
  rw [agree_analyse_pgn_job, h1]
  simp only [bind_ok, h3]
  rfl

/-- **`C20a` on the code**: any set of well-formed games, analysed for either side in any order: running the
regenerated per-game statements of `analyse_pgn` from the regenerated `Stats()` returns — every `assert(is_valid(stats))`
passes —, the accumulated statistics satisfy the invariant and `is_valid`, and `count` = `num_games` = number of games. -/
theorem C20_code_a (jobs : List (Game × Color)) (hwf : ∀ j ∈ jobs, WFGame j.2 j.1) :
    ∃ s, List.foldlM (fun (st : Stats × Nat) (j : Game × Color) => PyStyle.analyse_pgn.job j.1 j.2 st.1 st.2)
        (PyStyle.Stats.default, 0) jobs = .ok (s, jobs.length) ∧
      Inv s ∧ PyStyle.is_valid s = .ok true ∧ s.numGames = jobs.length := by
  obtain ⟨s, h1, h2, h3, h4⟩ := C20a jobs hwf
  refine ⟨s, ?_, h2, by rw [agree_is_valid]; exact h3, h4⟩
  rw [agree_Stats_default, agree_analyse_pgn, h1]
  simp only [map_ok, Nat.zero_add]
  rfl

/-! ## (b) ranges -/

/-- the feature functions of the regenerated score functions, as they occur in their `features` lists. -/
def codeFeatures : List (Stats → Except PyErr Q) :=
  [ PyStyle.get_aggression_score.feature_game_length, PyStyle.get_aggression_score.feature_capture_early,
    PyStyle.get_aggression_score.feature_capture_near_king, PyStyle.get_aggression_score.feature_move_near_king,
    PyStyle.get_aggression_score.feature_castle_opposite, PyStyle.get_aggression_score.feature_push_pawns,
    PyStyle.get_aggression_score.feature_checks, PyStyle.get_aggression_score.feature_wins_behind,
    PyStyle.get_aggression_score.feature_capture_frequency,
    PyStyle.get_aggression_score.feature_push_pawn_towards_king, PyStyle.get_aggression_score.feature_rook_threats,
    PyStyle.get_aggression_score.feature_bishop_threats,
    PyStyle.get_positional_score.feature_game_length, PyStyle.get_positional_score.feature_capture_early,
    fun s => .ok (PyStyle.get_pawn_pusher_score.feature_placeholder s) ]

theorem codeFeatures_eq :
    codeFeatures = (Aggression.features .guarded ++ Positional.features .guarded ++ PawnPusher.features).map (·.func) := by
  simp only [codeFeatures, Aggression.features, Positional.features, PawnPusher.features, List.cons_append,
    List.nil_append, List.map_cons, List.map_nil, agree_aggr_feature_game_length, agree_aggr_feature_capture_early,
    agree_aggr_feature_capture_near_king, agree_aggr_feature_move_near_king, agree_aggr_feature_castle_opposite,
    agree_aggr_feature_push_pawns, agree_aggr_feature_checks, agree_aggr_feature_wins_behind,
    agree_aggr_feature_capture_frequency, agree_aggr_feature_push_pawn_towards_king, agree_aggr_feature_rook_threats,
    agree_aggr_feature_bishop_threats, agree_pos_feature_game_length, agree_pos_feature_capture_early]
  rfl

/-- **`C20b_features` on the code**: every regenerated feature function of every score function: a returned value
is in `[0,1]`, a raised exception is `ZeroDivisionError` (so neither range `assert` of the scoring loops can fail). -/
theorem C20_code_b_features {s : Stats} (hI : Inv s) (f : Stats → Except PyErr Q) (hf : f ∈ codeFeatures) :
    (∀ x, f s = .ok x → Unit01 x) ∧ (∀ e, f s = .error e → e = .zeroDivision) := by
  rw [codeFeatures_eq, List.mem_map] at hf
  obtain ⟨F, hF, rfl⟩ := hf
  exact C20b_features hI .guarded F hF

/-- **`C20b_scores` on the code**, for every value of `verbose`: every score the regenerated functions return is
in `[0,1]`; `None` is returned when there are no games; the only exception they could raise is `ZeroDivisionError`. -/
theorem C20_code_b_scores {s : Stats} (hI : Inv s) (verbose : Bool) :
    (∀ q, PyStyle.get_aggression_score s verbose = .ok (some q) → Unit01 q) ∧
    (∀ q, PyStyle.get_positional_score s verbose = .ok (some q) → Unit01 q) ∧
    (∀ q, PyStyle.get_pawn_pusher_score s verbose = .ok (some q) → Unit01 q) ∧
    (∀ e, PyStyle.get_aggression_score s verbose = .error e → e = .zeroDivision) ∧
    (∀ e, PyStyle.get_positional_score s verbose = .error e → e = .zeroDivision) ∧
    (∀ e, PyStyle.get_pawn_pusher_score s verbose ≠ .error e) ∧
    (s.numGames = 0 → PyStyle.get_aggression_score s verbose = .ok none ∧
      PyStyle.get_positional_score s verbose = .ok none ∧ PyStyle.get_pawn_pusher_score s verbose = .ok none) := by
  rw [agree_get_aggression_score, agree_get_positional_score, agree_get_pawn_pusher_score]
  exact C20b_scores hI .guarded

/-- what the model proves of the guarded text beyond `C20b_scores`, on the code: on statistics satisfying the invariant
the three regenerated score functions NEVER raise; they return `None` without games and a value of `[0,1]` otherwise. -/
theorem C20_code_b_scores_total {s : Stats} (hI : Inv s) (verbose : Bool) :
    (s.numGames = 0 → PyStyle.get_aggression_score s verbose = .ok none ∧
      PyStyle.get_positional_score s verbose = .ok none ∧ PyStyle.get_pawn_pusher_score s verbose = .ok none) ∧
    (0 < s.numGames → (∃ q, PyStyle.get_aggression_score s verbose = .ok (some q) ∧ Unit01 q) ∧
      (∃ q, PyStyle.get_positional_score s verbose = .ok (some q) ∧ Unit01 q) ∧
      (∃ q, PyStyle.get_pawn_pusher_score s verbose = .ok (some q) ∧ Unit01 q)) := by
  rw [agree_get_aggression_score, agree_get_positional_score, agree_get_pawn_pusher_score]
  have ha := getAggressionScore_spec hI .guarded
  have hp := getPositionalScore_spec hI .guarded
  have hw := getPawnPusherScore_spec s
  exact ⟨fun h0 => ⟨ha.1 h0, hp.1 h0, hw.1 h0⟩,
    fun hn => ⟨ha.2.2.2 hn (Or.inl rfl) (Or.inl rfl), hp.2.2.2 hn (Or.inl rfl), hw.2.2 hn⟩⟩

/-! ## (c) no abort -/

/-- the per-filter report of `main` on statistics satisfying the invariant: it returns (`mainScores_spec` for the
guarded text through `agree_main_report`). -/
theorem C20_code_c_report {s : Stats} (hI : Inv s) (verbose : Bool) : PyStyle.main.report s verbose = .ok () := by
  obtain ⟨r, hr⟩ := (mainScores_spec hI .guarded).2.2 (Or.inr ⟨Or.inl rfl, Or.inl rfl⟩)
  rw [agree_main_report, hr]
  rfl

/-- every entry of `main`'s `styles` list, applied as `main` applies it: no exception, `None` without games, a value
of `[0,1]` otherwise. -/
theorem C20_code_c_styles {s : Stats} (hI : Inv s) (verbose : Bool)
    (f : Stats → Bool → Except PyErr (Option Q)) (hf : f ∈ PyStyle.main.styles.map (·.2)) :
    (s.numGames = 0 → f s verbose = .ok none) ∧ (0 < s.numGames → ∃ q, f s verbose = .ok (some q) ∧ Unit01 q) := by
  have ht := C20_code_b_scores_total hI verbose
  rw [agree_get_aggression_score, agree_get_positional_score, agree_get_pawn_pusher_score] at ht
  rw [agree_main_styles] at hf
  simp only [List.mem_cons, List.not_mem_nil, or_false] at hf
  rcases hf with rfl | rfl | rfl
  · exact ⟨fun h0 => (ht.1 h0).1, fun hn => (ht.2 hn).1⟩
  · exact ⟨fun h0 => (ht.1 h0).2.1, fun hn => (ht.2 hn).2.1⟩
  · exact ⟨fun h0 => (ht.1 h0).2.2, fun hn => (ht.2 hn).2.2⟩

/-- **C20(c) on the code** (`C20c_guarded`): for ANY set of well-formed games, analysed for either side in any order
and for either value of `verbose`, the regenerated pipeline of one filter — `Stats()`, the per-game statements of
`analyse_pgn`, the report of `main` — raises nothing, and the three scores it reports are in `[0,1]` (or `None`, exactly
when the set is empty). -/
theorem C20_code_c_no_abort (jobs : List (Game × Color)) (hwf : ∀ j ∈ jobs, WFGame j.2 j.1) (verbose : Bool) :
    ∃ s, List.foldlM (fun (st : Stats × Nat) (j : Game × Color) => PyStyle.analyse_pgn.job j.1 j.2 st.1 st.2)
        (PyStyle.Stats.default, 0) jobs = .ok (s, jobs.length) ∧
      PyStyle.main.report s verbose = .ok () ∧
      ∀ f ∈ PyStyle.main.styles.map (·.2),
        (jobs = [] → f s verbose = .ok none) ∧ (jobs ≠ [] → ∃ q, f s verbose = .ok (some q) ∧ Unit01 q) := by
  obtain ⟨s, h1, hI, _, hn⟩ := C20_code_a jobs hwf
  refine ⟨s, h1, C20_code_c_report hI verbose, fun f hf => ?_⟩
  obtain ⟨z, p⟩ := C20_code_c_styles hI verbose f hf
  refine ⟨fun e => z (by rw [hn, e]; rfl), fun e => p ?_⟩
  rw [hn]
  exact List.length_pos_iff.mpr e

/-! ## the same, for annotated games of legal chess games from the standard starting position -/

/-- **`C20a_chess` on the code.** -/
theorem C20_code_a_chess (jobs : List (Game × Color)) (h : ∀ j ∈ jobs, ChessGame j.1) :
    ∃ s, List.foldlM (fun (st : Stats × Nat) (j : Game × Color) => PyStyle.analyse_pgn.job j.1 j.2 st.1 st.2)
        (PyStyle.Stats.default, 0) jobs = .ok (s, jobs.length) ∧
      Inv s ∧ PyStyle.is_valid s = .ok true ∧ s.numGames = jobs.length :=
  C20_code_a jobs (fun j hj => C20_wf_of_chess (h j hj) j.2)

/-- **`C20c_guarded_chess` on the code**: no set of legal chess games (fewer than 1024 half-moves each, from the standard
starting position) makes the regenerated script raise, and all reported scores are in `[0,1]`. -/
theorem C20_code_c_no_abort_chess (jobs : List (Game × Color)) (h : ∀ j ∈ jobs, ChessGame j.1) (verbose : Bool) :
    ∃ s, List.foldlM (fun (st : Stats × Nat) (j : Game × Color) => PyStyle.analyse_pgn.job j.1 j.2 st.1 st.2)
        (PyStyle.Stats.default, 0) jobs = .ok (s, jobs.length) ∧
      PyStyle.main.report s verbose = .ok () ∧
      ∀ f ∈ PyStyle.main.styles.map (·.2),
        (jobs = [] → f s verbose = .ok none) ∧ (jobs ≠ [] → ∃ q, f s verbose = .ok (some q) ∧ Unit01 q) :=
  C20_code_c_no_abort jobs (fun j hj => C20_wf_of_chess (h j hj) j.2) verbose

/-! ## non-vacuity, and the F9 witness on the repaired text -/

/-- the refutation witness of `C20c_refuted` (one game without moves: no capture, no non-capture) goes through the
regenerated, repaired script: statistics of one game, the report returns, three scores in `[0,1]`. -/
theorem C20_code_c_witness_fixed (verbose : Bool) :
    ∃ s, PyStyle.analyse_pgn.job zeroMoveGame WHITE PyStyle.Stats.default 0 = .ok (s, 1) ∧ s.numGames = 1 ∧
      s.totalCaptures = 0 ∧ s.totalNoncaptures = 0 ∧ PyStyle.main.report s verbose = .ok () ∧
      ∃ q, PyStyle.get_aggression_score s verbose = .ok (some q) ∧ Unit01 q := by
  obtain ⟨s, hjob, hI⟩ :=
    C20_code_a_job zeroMoveGame WHITE PyStyle.Stats.default 0 C20_code_a_init.1 zeroMoveGame_wf
  have hfacts : (match PyStyle.analyse_pgn.job zeroMoveGame WHITE PyStyle.Stats.default 0 with
      | .ok (s, _) => decide (s.numGames = 1 ∧ s.totalCaptures = 0 ∧ s.totalNoncaptures = 0)
      | .error _ => false) = true := by decide +kernel
  rw [hjob] at hfacts
  simp only [decide_eq_true_eq] at hfacts
  obtain ⟨n1, n2, n3⟩ := hfacts
  exact ⟨s, hjob, n1, n2, n3, C20_code_c_report hI verbose, ((C20_code_b_scores_total hI verbose).2 (by omega)).1⟩

/-- the hypotheses of `C20_code_c_no_abort` on a non-trivial set (`1. e4 d5 2. exd5` and a game without moves), and
its conclusion: the pipeline returns with two games counted. -/
example : ∃ s, List.foldlM (fun (st : Stats × Nat) (j : Game × Color) => PyStyle.analyse_pgn.job j.1 j.2 st.1 st.2)
      (PyStyle.Stats.default, 0) [(sampleGame, WHITE), (zeroMoveGame, BLACK)] = .ok (s, 2) ∧ s.numGames = 2 ∧
    PyStyle.main.report s true = .ok () ∧
    ∃ q, PyStyle.get_positional_score s true = .ok (some q) ∧ Unit01 q := by
  have hwf : ∀ j ∈ [(sampleGame, WHITE), (zeroMoveGame, BLACK)], WFGame j.2 j.1 := by
    intro j hj
    simp only [List.mem_cons, List.not_mem_nil, or_false] at hj
    rcases hj with rfl | rfl
    · exact (wfGame_iff _ _).mp (by decide +kernel)
    · exact (wfGame_iff _ _).mp (by decide +kernel)
  obtain ⟨s, h1, hI, _, hn⟩ := C20_code_a _ hwf
  exact ⟨s, h1, hn, C20_code_c_report hI true, ((C20_code_b_scores_total hI true).2 (by rw [hn]; decide)).2.1⟩

/-- the regenerated feature functions listed in `codeFeatures` are the fifteen of the three `features` lists. -/
example : codeFeatures.length = 15 ∧ PyStyle.main.styles.length = 3 := ⟨rfl, rfl⟩

end Rawr.Style

#print axioms Rawr.Style.C20_code_a_init
#print axioms Rawr.Style.C20_code_a_step
#print axioms Rawr.Style.C20_code_a_job
#print axioms Rawr.Style.C20_code_a
#print axioms Rawr.Style.C20_code_b_features
#print axioms Rawr.Style.C20_code_b_scores
#print axioms Rawr.Style.C20_code_b_scores_total
#print axioms Rawr.Style.C20_code_c_report
#print axioms Rawr.Style.C20_code_c_styles
#print axioms Rawr.Style.C20_code_c_no_abort
#print axioms Rawr.Style.C20_code_a_chess
#print axioms Rawr.Style.C20_code_c_no_abort_chess
#print axioms Rawr.Style.C20_code_c_witness_fixed
