import Rawr.Props.C13
import Rawr.Props.C03_code
/-!
# C13 on the regenerated code: `R.root` / `R.negamax` leave the game state untouched and are reproducible

The C13 theorems of `Props/C13.lean` hold for the model's `negamax` / `root` with NO hypothesis on the position.  The
regenerated `R.negamax` / `R.root` equal the model's functions on the domain of `agree_negamax_rules` /
`agree_root_rules`: `ValidPos p`, `EpConsistent (abs p)`, counter room `halfmoves/fullmoves + fuel + 64 < 2^31`, and a
search setting (`toLimit clock p s = some lim`; outside this domain the Rust ordering code may `unwrap()` a `None`).
So every `_code` theorem below carries exactly these EXTRA hypotheses and nothing else; conclusions unchanged.
`R.negamax` takes the `should_stop` closure as an argument; it is instantiated with the closure root.rs builds,
`R.root_should_stop p0 s clock` (`p0` = the root position, whose side to move selects the clock).

* history / table-size clauses: `C13_code_negamax_preserves_history`, `…_tt_len`, `C13_code_root_preserves_history`,
  `…_tt_len` (history = `r.2.1`, table = `r.2.2.1` of the tuple `R.root` returns; size through `R.tt_len`);
* reproducibility: the regenerated functions are functions; for the clock-free settings (`Depth`, `Nodes`, `Infinite`)
  `C13_code_negamax_polls_irrelevant` (the poll counter — the only clock-coupled piece of state — does not influence the
  result) and `C13_code_root_clock_irrelevant` (two runs of the driver with DIFFERENT clocks give the same `Result`,
  history, table and records up to the unmodelled `elapsed`/`pos`/`mate` fields).
  (`root_depth_polls_irrelevant` of the model has no counterpart: `R.root` always starts the poll counter at 0.)
-/
namespace Rawr

/-! ## history and table length -/

theorem C13_code_negamax_preserves_history (clock : Nat → Nat) (p0 : Position) (s : R.Settings) (lim : Limit)
    (hlim : toLimit clock p0 s = some lim) (fuel : Nat) (p : Position)
    (hV : ValidPos p = true) (hE : Spec.EpConsistent (abs p) = true)
    (hh : p.halfmoves + fuel + 64 < 2147483648) (hf : p.fullmoves + fuel + 64 < 2147483648)
    (st : SState) (α β ply depth : Int) (cn : Bool) (v : Int) (st' : SState) :
    R.negamax (R.root_should_stop p0 s clock) fuel p st α β ply depth cn = some (v, st') → st'.hist = st.hist := by
  rw [negamax_code_model hlim fuel p hV hE hh hf]
  exact negamax_preserves_history lim fuel p st α β ply depth cn v st'

theorem C13_code_negamax_preserves_tt_len (clock : Nat → Nat) (p0 : Position) (s : R.Settings) (lim : Limit)
    (hlim : toLimit clock p0 s = some lim) (fuel : Nat) (p : Position)
    (hV : ValidPos p = true) (hE : Spec.EpConsistent (abs p) = true)
    (hh : p.halfmoves + fuel + 64 < 2147483648) (hf : p.fullmoves + fuel + 64 < 2147483648)
    (st : SState) (α β ply depth : Int) (cn : Bool) (v : Int) (st' : SState) :
    R.negamax (R.root_should_stop p0 s clock) fuel p st α β ply depth cn = some (v, st') →
      R.tt_len st'.tt = R.tt_len st.tt := by
  rw [negamax_code_model hlim fuel p hV hE hh hf, Table.agree_tt_len]
  exact negamax_preserves_tt_len lim fuel p st α β ply depth cn v st'

/-- **C13 on the code**: the regenerated driver hands back exactly the history it was given. -/
theorem C13_code_root_preserves_history (clock : Nat → Nat) (s : R.Settings) (lim : Limit) (fuel : Nat) (p : Position)
    (hlim : toLimit clock p s = some lim) (hV : ValidPos p = true) (hE : Spec.EpConsistent (abs p) = true)
    (hh : p.halfmoves + fuel + 64 < 2147483648) (hf : p.fullmoves + fuel + 64 < 2147483648)
    (hist : List BB) (tt : Table TTEntry) (r : Except String Mv × List BB × Table TTEntry × List R.Info) :
    R.root clock p hist tt s fuel = some r → r.2.1 = hist :=
  fun h => root_preserves_history lim fuel p hist tt (rootResultOf r) (root_code_model hlim hV hE hh hf h)

/-- … and a table with the same number of slots. -/
theorem C13_code_root_preserves_tt_len (clock : Nat → Nat) (s : R.Settings) (lim : Limit) (fuel : Nat) (p : Position)
    (hlim : toLimit clock p s = some lim) (hV : ValidPos p = true) (hE : Spec.EpConsistent (abs p) = true)
    (hh : p.halfmoves + fuel + 64 < 2147483648) (hf : p.fullmoves + fuel + 64 < 2147483648)
    (hist : List BB) (tt : Table TTEntry) (r : Except String Mv × List BB × Table TTEntry × List R.Info) :
    R.root clock p hist tt s fuel = some r → R.tt_len r.2.2.1 = R.tt_len tt := by
  intro h
  rw [Table.agree_tt_len]
  exact root_preserves_tt_len lim fuel p hist tt (rootResultOf r) (root_code_model hlim hV hE hh hf h)

/-! ## reproducibility -/

/-- with a setting that never consults the clock (`lim.clockFree`: `Depth`, `Nodes`, `Infinite`), the regenerated
`negamax` started from two states that differ only in the poll counter returns the same score and states that differ
only in the poll counter (or fails in both). -/
theorem C13_code_negamax_polls_irrelevant (clock : Nat → Nat) (p0 : Position) (s : R.Settings) (lim : Limit)
    (hlim : toLimit clock p0 s = some lim) (hl : lim.clockFree) (fuel : Nat) (p : Position)
    (hV : ValidPos p = true) (hE : Spec.EpConsistent (abs p) = true)
    (hh : p.halfmoves + fuel + 64 < 2147483648) (hf : p.fullmoves + fuel + 64 < 2147483648)
    (st t : SState) (α β ply depth : Int) (cn : Bool) (hst : st.eqUpToPolls t) :
    ResEq (R.negamax (R.root_should_stop p0 s clock) fuel p st α β ply depth cn)
      (R.negamax (R.root_should_stop p0 s clock) fuel p t α β ply depth cn) := by
  rw [negamax_code_model hlim fuel p hV hE hh hf, negamax_code_model hlim fuel p hV hE hh hf]
  exact negamax_polls_irrelevant lim hl fuel p st t α β ply depth cn hst

/-- the same, as an explicit statement about the two results. -/
theorem C13_code_negamax_polls_irrelevant' (clock : Nat → Nat) (p0 : Position) (s : R.Settings) (lim : Limit)
    (hlim : toLimit clock p0 s = some lim) (hl : lim.clockFree) (fuel : Nat) (p : Position)
    (hV : ValidPos p = true) (hE : Spec.EpConsistent (abs p) = true)
    (hh : p.halfmoves + fuel + 64 < 2147483648) (hf : p.fullmoves + fuel + 64 < 2147483648)
    (st t : SState) (α β ply depth : Int) (cn : Bool) (hst : st.eqUpToPolls t) :
    (R.negamax (R.root_should_stop p0 s clock) fuel p st α β ply depth cn = none ∧
      R.negamax (R.root_should_stop p0 s clock) fuel p t α β ply depth cn = none) ∨
    ∃ v s' t', R.negamax (R.root_should_stop p0 s clock) fuel p st α β ply depth cn = some (v, s') ∧
      R.negamax (R.root_should_stop p0 s clock) fuel p t α β ply depth cn = some (v, t') ∧ s'.eqUpToPolls t' := by
  rw [negamax_code_model hlim fuel p hV hE hh hf, negamax_code_model hlim fuel p hV hE hh hf]
  exact negamax_polls_irrelevant' lim hl fuel p st t α β ply depth cn hst

/-- **reproducibility of the driver on the code**: when the setting induces the same limit under two clocks — in
particular for `Depth d`, `Nodes n`, `Infinite`, where the limit does not mention the clock at all — the two runs
return the same `Result`, history, table and (projected) records, or both fail. -/
theorem C13_code_root_clock_irrelevant (clock₁ clock₂ : Nat → Nat) (s : R.Settings) (lim : Limit) (fuel : Nat)
    (p : Position) (hl1 : toLimit clock₁ p s = some lim) (hl2 : toLimit clock₂ p s = some lim)
    (hV : ValidPos p = true) (hE : Spec.EpConsistent (abs p) = true)
    (hh : p.halfmoves + fuel + 64 < 2147483648) (hf : p.fullmoves + fuel + 64 < 2147483648)
    (hist : List BB) (tt : Table TTEntry) :
    (R.root clock₁ p hist tt s fuel).map rootResultOf = (R.root clock₂ p hist tt s fuel).map rootResultOf :=
  (agree_root_rules clock₁ p s lim fuel hl1 hV hE hh hf hist tt).trans
    (agree_root_rules clock₂ p s lim fuel hl2 hV hE hh hf hist tt).symm

theorem C13_code_root_depth_clock_irrelevant (clock₁ clock₂ : Nat → Nat) (d : Int) (fuel : Nat)
    (p : Position) (hV : ValidPos p = true) (hE : Spec.EpConsistent (abs p) = true)
    (hh : p.halfmoves + fuel + 64 < 2147483648) (hf : p.fullmoves + fuel + 64 < 2147483648)
    (hist : List BB) (tt : Table TTEntry) :
    (R.root clock₁ p hist tt (.Depth d) fuel).map rootResultOf =
      (R.root clock₂ p hist tt (.Depth d) fuel).map rootResultOf :=
  C13_code_root_clock_irrelevant clock₁ clock₂ (.Depth d) (.depth d) fuel p rfl rfl hV hE hh hf hist tt

theorem C13_code_root_nodes_clock_irrelevant (clock₁ clock₂ : Nat → Nat) (n : Nat) (fuel : Nat)
    (p : Position) (hV : ValidPos p = true) (hE : Spec.EpConsistent (abs p) = true)
    (hh : p.halfmoves + fuel + 64 < 2147483648) (hf : p.fullmoves + fuel + 64 < 2147483648)
    (hist : List BB) (tt : Table TTEntry) :
    (R.root clock₁ p hist tt (.Nodes n) fuel).map rootResultOf =
      (R.root clock₂ p hist tt (.Nodes n) fuel).map rootResultOf :=
  C13_code_root_clock_irrelevant clock₁ clock₂ (.Nodes n) (.nodes n) fuel p rfl rfl hV hE hh hf hist tt

/-! ## non-vacuity -/
namespace C13CodeEx
open C13Ex C03RulesEx

/-- K+P v K with a correct key (`kpkV`), a clock limit whose oracle fires during the search (`go movetime 3` with a
clock advancing 1 ms per poll), non-empty history: the regenerated driver returns, history intact, three slots. -/
example : ∃ r, R.root (fun k => k) kpkV hist2 tt3 (.Movetime 3) 8 = some r ∧ r.2.1 = hist2 ∧ R.tt_len r.2.2.1 = 3 := by
  have h : (R.root (fun k => k) kpkV hist2 tt3 (.Movetime 3) 8).isSome = true := by decide +kernel
  obtain ⟨r, h1⟩ := Option.isSome_iff_exists.1 h
  exact ⟨r, h1,
    C13_code_root_preserves_history _ _ _ 8 kpkV rfl kpkV_valid kpkV_E (by decide +kernel) (by decide +kernel) _ _ r h1,
    C13_code_root_preserves_tt_len _ _ _ 8 kpkV rfl kpkV_valid kpkV_E (by decide +kernel) (by decide +kernel) _ _ r h1⟩

/-- a depth-1 search of the regenerated `negamax` (pushes, pops, quiescence, a table store) over a non-empty history. -/
example : ∃ v st', R.negamax (R.root_should_stop kpkV (.Depth 2) fun _ => 0) 2 kpkV st0 (-Gen.INF) Gen.INF 0 1 false =
    some (v, st') ∧ st'.hist = [5#64, 7#64] := by
  obtain ⟨v, st', h⟩ : ∃ v st', R.negamax (R.root_should_stop kpkV (.Depth 2) fun _ => 0) 2 kpkV st0 (-Gen.INF)
      Gen.INF 0 1 false = some (v, st') := exists_of_isSome (by decide +kernel)
  exact ⟨v, st', h, C13_code_negamax_preserves_history _ kpkV (.Depth 2) _ rfl 2 kpkV kpkV_valid kpkV_E
    (by decide +kernel) (by decide +kernel) _ _ _ _ _ _ v st' h⟩

end C13CodeEx

end Rawr

#print axioms Rawr.C13_code_negamax_preserves_history
#print axioms Rawr.C13_code_negamax_preserves_tt_len
#print axioms Rawr.C13_code_root_preserves_history
#print axioms Rawr.C13_code_root_preserves_tt_len
#print axioms Rawr.C13_code_negamax_polls_irrelevant
#print axioms Rawr.C13_code_negamax_polls_irrelevant'
#print axioms Rawr.C13_code_root_clock_irrelevant
#print axioms Rawr.C13_code_root_depth_clock_irrelevant
#print axioms Rawr.C13_code_root_nodes_clock_irrelevant
