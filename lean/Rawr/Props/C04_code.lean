import Rawr.Props.C04
import Rawr.Props.C04_full
import Rawr.Proofs.RustImpAgree_MakeMove
import Rawr.Proofs.RustImpAgree_MoveGen
/-!
# C04 on the regenerated code: `R.predict_hash`, `R.calculate_hash`, `R.makemove`, `R.makenull`

`Rawr.R.predict_hash`, `Rawr.R.calculate_hash` are regenerated from zobrist.rs / predict_hash.rs on every run and proved
equal, as functions, to the model's `predictHashK genKeys` / `calculateHashK genKeys` (`agree_predict_hash`,
`agree_calculate_hash`; `genKeys` = the 781 keys extracted from zobrist.rs).  With `agree_makemove`, `agree_makenull`,
`agree_flip`, `agree_legal_moves` every C04 theorem transfers with the same hypotheses and conclusion (exact
transfers).  The key-table-generic model theorems (`C04c_*` for an arbitrary `K : ZKeys`) are instantiated at the
engine's table, which is the one the code uses.  `C04d_keys_distinct` is a statement about the extracted constants
only and needs no transfer.
-/
namespace Rawr
open Position Spec ZH

/-! ## (a) moves -/

/-- **C04(a) on the code**: for every valid position and every move the regenerated `legal_moves` returns, the key the
regenerated `predict_hash` computes is the key the regenerated `makemove::<true>` stores, and it equals the key the
regenerated `calculate_hash` recomputes from scratch. -/
theorem C04_code_a_legal (p : Position) (m : Mv) (h : BB) (q : Position) (hv : ValidPos p = true)
    (hm : m ∈ R.legal_moves p) (hp : R.predict_hash p m = some h) (hq : R.makemove p m true = some q) :
    q.hash = h ∧ q.hash = R.calculate_hash q := by
  rw [agree_legal_moves] at hm; rw [agree_predict_hash'] at hp; rw [agree_makemove] at hq
  rw [agree_calculate_hash']; exact C04a_legal p m h q hv hm hp hq

/-- C04(a) for any move of the generated shape, from a position whose stored key is right (no validity needed beyond
`KeyHyps`). -/
theorem C04_code_a_predict (p : Position) (m : Mv) (h : BB) (q : Position)
    (kh : KeyHyps p = true) (hm : MoveShape p m = true) (hinv : p.hash = R.calculate_hash p)
    (hp : R.predict_hash p m = some h) (hq : R.makemove p m true = some q) :
    q.hash = h ∧ q.hash = R.calculate_hash q := by
  rw [agree_predict_hash'] at hp; rw [agree_makemove] at hq; rw [agree_calculate_hash'] at hinv ⊢
  exact C04a_predict p m h q kh hm hinv hp hq

/-- … and the prediction is defined whenever the move can be made. -/
theorem C04_code_a_any (p : Position) (m : Mv) (q : Position)
    (kh : KeyHyps p = true) (hm : MoveShape p m = true) (hinv : p.hash = R.calculate_hash p)
    (hq : R.makemove p m true = some q) : R.predict_hash p m = some q.hash ∧ q.hash = R.calculate_hash q := by
  rw [agree_makemove] at hq; rw [agree_calculate_hash'] at hinv ⊢; rw [agree_predict_hash']
  exact C04a_any p m q kh hm hinv hq

/-- with or without key update, the predicted key is the recomputed key of the position `makemove` produces. -/
theorem C04_code_a_predict_either (p : Position) (m : Mv) (u : Bool) (q : Position) (h : BB)
    (kh : KeyHyps p = true) (hm : MoveShape p m = true) (hinv : p.hash = R.calculate_hash p)
    (hp : R.predict_hash p m = some h) (hq : R.makemove p m u = some q) : h = R.calculate_hash q := by
  rw [agree_predict_hash] at hp; rw [agree_makemove] at hq; rw [agree_calculate_hash] at hinv ⊢
  exact C04a_predict_generic genKeys p m u q h kh hm hinv hp hq

/-! ## (b) null move -/

theorem C04_code_b_null (p : Position) (h : p.hash = R.calculate_hash p) :
    (R.makenull p).hash = R.calculate_hash (R.makenull p) := by
  rw [agree_calculate_hash'] at h ⊢; rw [agree_makenull]; exact C04b_null p h

/-! ## (c) the recomputed key is a function of the absolute position only -/

/-- the regenerated `calculate_hash` of a board-consistent position is the specification key of the absolute position. -/
theorem C04_code_c_calc_eq_spec (p : Position) (h : Consistent p) :
    R.calculate_hash p = zobristAbs genKeys (abs p) := by
  rw [agree_calculate_hash]; exact C04c_calc_eq_spec genKeys p h

theorem C04_code_c_position_only (p q : Position) (hp : Consistent p) (hq : Consistent q)
    (hb : ∀ s, s < 64 → (abs p).board s = (abs q).board s)
    (ht : (abs p).whiteToMove = (abs q).whiteToMove)
    (hwK : (abs p).wK.isSome = (abs q).wK.isSome) (hwQ : (abs p).wQ.isSome = (abs q).wQ.isSome)
    (hbK : (abs p).bK.isSome = (abs q).bK.isSome) (hbQ : (abs p).bQ.isSome = (abs q).bQ.isSome)
    (hep : (abs p).ep.map (· % 8) = (abs q).ep.map (· % 8)) :
    R.calculate_hash p = R.calculate_hash q := by
  rw [agree_calculate_hash]; exact C04c_position_only genKeys p q hp hq hb ht hwK hwQ hbK hbQ hep

/-- perspective: the regenerated `flip` changes the key by exactly the turn key (no hypothesis). -/
theorem C04_code_c_flip (p : Position) : R.calculate_hash (R.flip p) = R.calculate_hash p ^^^ R.turn_key := by
  rw [agree_calculate_hash, agree_flip, agree_turn_key]; exact C04c_flip genKeys p

/-! ## (d), sequences -/

theorem C04_code_d_startpos_key : Gen.startpos.hash = R.calculate_hash Gen.startpos := by
  rw [agree_calculate_hash']; exact C04d_startpos_key

/-- one ply made by the regenerated code. -/
inductive KeyStep_code : Position → Position → Prop
  | move {p q : Position} (m : Mv) : KeyHyps p = true → MoveShape p m = true →
      R.makemove p m true = some q → KeyStep_code p q
  | null (p : Position) : KeyStep_code p (R.makenull p)

inductive KeyPath_code : Position → Position → Prop
  | nil (p : Position) : KeyPath_code p p
  | cons {p q r : Position} : KeyStep_code p q → KeyPath_code q r → KeyPath_code p r

theorem KeyPath_code_model {p q : Position} (h : KeyPath_code p q) : KeyPath p q := by
  induction h with
  | nil p => exact .nil p
  | cons st _ ih =>
    refine .cons ?_ ih
    cases st with
    | move m kh hm hq => rw [agree_makemove] at hq; exact .move m kh hm hq
    | null => rw [agree_makenull]; exact .null _

/-- the key maintained by the regenerated `makemove::<true>` / `makenull` equals the key the regenerated
`calculate_hash` recomputes, after any sequence of moves and null moves. -/
theorem C04_code_sequence {p q : Position} (path : KeyPath_code p q) (h : p.hash = R.calculate_hash p) :
    q.hash = R.calculate_hash q := by
  rw [agree_calculate_hash'] at h ⊢; exact C04_sequence (KeyPath_code_model path) h

/-! ## non-vacuity -/

/-- 1. e4 from the start position: hypotheses hold, prediction defined, move made; through the theorem. -/
example : ∃ h q, R.predict_hash Gen.startpos ⟨12, 28, 6⟩ = some h ∧ R.makemove Gen.startpos ⟨12, 28, 6⟩ true = some q ∧
    q.hash = h ∧ q.hash = R.calculate_hash q := by
  have h1 : (R.predict_hash Gen.startpos ⟨12, 28, 6⟩).isSome = true := by decide +kernel
  have h2 : (R.makemove Gen.startpos ⟨12, 28, 6⟩ true).isSome = true := by decide +kernel
  obtain ⟨h, hp⟩ := Option.isSome_iff_exists.mp h1
  obtain ⟨q, hq⟩ := Option.isSome_iff_exists.mp h2
  exact ⟨h, q, hp, hq, C04_code_a_legal Gen.startpos ⟨12, 28, 6⟩ h q (by decide +kernel) (by decide +kernel) hp hq⟩

example : R.calculate_hash Gen.startpos = zobristAbs genKeys (abs Gen.startpos) :=
  C04_code_c_calc_eq_spec Gen.startpos (by decide)

end Rawr

#print axioms Rawr.C04_code_a_legal
#print axioms Rawr.C04_code_a_predict
#print axioms Rawr.C04_code_a_any
#print axioms Rawr.C04_code_a_predict_either
#print axioms Rawr.C04_code_b_null
#print axioms Rawr.C04_code_c_calc_eq_spec
#print axioms Rawr.C04_code_c_position_only
#print axioms Rawr.C04_code_c_flip
#print axioms Rawr.C04_code_d_startpos_key
#print axioms Rawr.C04_code_sequence
