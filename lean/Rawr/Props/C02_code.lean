import Rawr.Props.C02
import Rawr.Props.C02_domain
import Rawr.Proofs.RustImpAgree_MakeMove
import Rawr.Proofs.RustImpAgree_MoveGen
/-!
# C02 on the regenerated code: `R.makemove` / `R.makenull` yield the successor prescribed by the rules

`Rawr.R.makemove`, `Rawr.R.makenull`, `Rawr.R.calculate_hash`, `Rawr.R.legal_moves` are regenerated from makemove.rs,
makenull.rs (+ flip.rs), zobrist.rs, legal_moves.rs on every run; `agree_makemove`, `agree_makenull`,
`agree_calculate_hash'`, `agree_legal_moves` prove them equal to the model's functions as FUNCTIONS (no domain
hypothesis), so every theorem of `Props/C02.lean` and `Props/C02_domain.lean` transfers with the same hypotheses and
the same conclusion (exact transfers).  `UPDATE_HASH` is the third argument of `R.makemove`.

The hypotheses `MoveShape p m`, `MoveShape2 p m` (shape of every generated move, `Proofs/HashMeta.lean`) are kept as
they are in `Props/C02.lean`; in the domain-closure theorems (`C02_code_D_closed` …) they are replaced, as there, by
`m ∈ R.legal_moves p`.  The path predicates `C02Path`, `GenPath` mention `makemove`/`makenull`/`legalMoves`; they
are re-declared here over the regenerated functions (`C02Path_code`, `GenPath_code`) and proved equivalent.
-/
namespace Rawr
open Position Spec ZH MM SV

/-! ## (1) refinement -/

/-- **C02 on the code**: the regenerated `makemove` (either `UPDATE_HASH`) applied to a shaped move of a valid
position yields exactly the position `Spec.apply` prescribes. -/
theorem C02_code_makemove_refines (p : Position) (m : Mv) (q : Position) (u : Bool) (hV : ValidPos p = true)
    (hs : MoveShape2 p m = true) (h : R.makemove p m u = some q) :
    AbsEq (abs q) (Spec.apply (abs p) (decodeMove p m)) := by
  rw [agree_makemove] at h; exact C02_makemove_refines p m q u hV hs h

/-- … as an equation between absolute positions, for a shaped move that is legal by the rules. -/
theorem C02_code_makemove_eq (p : Position) (m : Mv) (q : Position) (u : Bool) (hV : ValidPos p = true)
    (hs : MoveShape p m = true) (hL : decodeMove p m ∈ Spec.legalMoves (abs p))
    (h : R.makemove p m u = some q) : abs q = Spec.apply (abs p) (decodeMove p m) := by
  rw [agree_makemove] at h; exact C02_makemove_eq p m q u hV hs hL h

/-! ## (2) totality, `UPDATE_HASH` -/

/-- no `unwrap` of the regenerated `makemove` (nor of `predict_hash` inside it) fails on a shaped move of a valid
position. -/
theorem C02_code_makemove_total (p : Position) (m : Mv) (u : Bool) (hV : ValidPos p = true)
    (hs : MoveShape p m = true) : ∃ q, R.makemove p m u = some q := by
  rw [agree_makemove]; exact C02_makemove_total' p m u hV hs

/-- `makemove::<false>` and `makemove::<true>` agree on every field except `hash` (no hypotheses). -/
theorem C02_code_update_hash_irrelevant (p : Position) (m : Mv) (q1 q2 : Position)
    (h1 : R.makemove p m true = some q1) (h2 : R.makemove p m false = some q2) :
    { q1 with hash := q2.hash } = q2 := by
  rw [agree_makemove] at h1 h2; exact C02_update_hash_irrelevant p m q1 q2 h1 h2

/-- `makemove::<false>` keeps the stored key. -/
theorem C02_code_no_update_keeps_hash (p : Position) (m : Mv) (q : Position) (hV : ValidPos p = true)
    (hs : MoveShape p m = true) (h : R.makemove p m false = some q) : q.hash = p.hash := by
  rw [agree_makemove] at h; exact C02_no_update_keeps_hash p m q hV hs h

/-! ## (3) null move -/

theorem C02_code_null (p : Position) (hV : ValidPos p = true) :
    AbsEq (abs (R.makenull p)) { abs p with whiteToMove := !(abs p).whiteToMove, ep := none, half := 0 } := by
  rw [agree_makenull]; exact C02_null p hV

theorem C02_code_null_valid (p : Position) (hV : ValidPos p = true)
    (hc : inCheck (abs p).board (abs p).whiteToMove = false) :
    ValidPos (R.makenull p) = true ∧ abs (R.makenull p) = specPass (abs p) := by
  rw [agree_makenull]; exact C02_null_valid p hV hc

/-! ## (4) validity is preserved -/

/-- V.2–V.7 hold of the result. -/
theorem C02_code_spec_valid (p : Position) (m : Mv) (q : Position) (u : Bool) (hV : ValidPos p = true)
    (hs : MoveShape p m = true) (hL : decodeMove p m ∈ Spec.legalMoves (abs p))
    (h : R.makemove p m u = some q) : Spec.Valid (abs q) = true := by
  rw [agree_makemove] at h; exact C02_spec_valid p m q u hV hs hL h

/-- the side that just moved is not in check. -/
theorem C02_code_mover_not_in_check (p : Position) (m : Mv) (q : Position) (u : Bool) (hV : ValidPos p = true)
    (hs : MoveShape p m = true) (hL : decodeMove p m ∈ Spec.legalMoves (abs p))
    (h : R.makemove p m u = some q) : inCheck (abs q).board (!(abs q).whiteToMove) = false := by
  rw [agree_makemove] at h; exact C02_mover_not_in_check p m q u hV hs hL h

/-- counters: the clock is 0 or one more, the move number the same or one more. -/
theorem C02_code_counters (p : Position) (m : Mv) (q : Position) (u : Bool) (hV : ValidPos p = true)
    (hs : MoveShape p m = true) (hL : decodeMove p m ∈ Spec.legalMoves (abs p))
    (h : R.makemove p m u = some q) :
    0 ≤ q.halfmoves ∧ q.halfmoves ≤ p.halfmoves + 1 ∧ 1 ≤ q.fullmoves ∧ q.fullmoves ≤ p.fullmoves + 1 := by
  rw [agree_makemove] at h; exact C02_counters p m q u hV hs hL h

/-- V.8: after the regenerated `makemove::<true>` the stored key is the key the regenerated `calculate_hash`
recomputes. -/
theorem C02_code_hash (p : Position) (m : Mv) (q : Position) (hV : ValidPos p = true) (hs : MoveShape p m = true)
    (h : R.makemove p m true = some q) : q.hash = R.calculate_hash q := by
  rw [agree_makemove] at h; rw [agree_calculate_hash']; exact C02_hash p m q hV hs h

/-- **the result is again in the domain V** (counters within `i32`). -/
theorem C02_code_valid_preserved (p : Position) (m : Mv) (q : Position) (hV : ValidPos p = true)
    (hs : MoveShape p m = true) (hL : decodeMove p m ∈ Spec.legalMoves (abs p))
    (h : R.makemove p m true = some q)
    (hh : p.halfmoves + 1 < 2147483648) (hf : p.fullmoves + 1 < 2147483648) : ValidPos q = true := by
  rw [agree_makemove] at h; exact C02_valid_preserved p m q hV hs hL h hh hf

/-! ## (5) sequences -/

/-- `C02Path` over the regenerated `makemove` / `makenull`. -/
inductive C02Path_code : Nat → Position → APos → Position → APos → Prop
  | nil (p : Position) (a : APos) : C02Path_code 0 p a p a
  | move {n : Nat} {p q r : Position} {a b : APos} (m : Mv) :
      MoveShape p m = true → decodeMove p m ∈ Spec.legalMoves a → R.makemove p m true = some q →
      C02Path_code n q (Spec.apply a (decodeMove p m)) r b → C02Path_code (n + 1) p a r b
  | null {n : Nat} {p r : Position} {a b : APos} :
      inCheck a.board a.whiteToMove = false →
      C02Path_code n (R.makenull p) (specPass a) r b → C02Path_code (n + 1) p a r b

theorem C02Path_code_iff {n : Nat} {p r : Position} {a b : APos} : C02Path_code n p a r b ↔ C02Path n p a r b := by
  constructor
  · intro h
    induction h with
    | nil p a => exact .nil p a
    | move m hs hL hq _ ih => rw [agree_makemove] at hq; exact .move m hs hL hq ih
    | null hc _ ih => rw [agree_makenull] at ih; exact .null hc ih
  · intro h
    induction h with
    | nil p a => exact .nil p a
    | move m hs hL hq _ ih => rw [← agree_makemove] at hq; exact .move m hs hL hq ih
    | null hc _ ih => rw [← agree_makenull] at ih; exact .null hc ih

/-- along any sequence of shaped legal moves and null moves made by the regenerated code from a valid position, the
position denotes exactly the position the rules prescribe, and stays in the domain. -/
theorem C02_code_sequence {n : Nat} {p r : Position} {a b : APos} (path : C02Path_code n p a r b)
    (hV : ValidPos p = true) (ha : abs p = a)
    (hh : p.halfmoves + n < 2147483648) (hf : p.fullmoves + n < 2147483648) :
    abs r = b ∧ ValidPos r = true :=
  C02_sequence (C02Path_code_iff.mp path) hV ha hh hf

/-! ## domain closure (`Props/C02_domain.lean`) -/

/-- **E is preserved** by the moves the code generates and makes. -/
theorem C02_code_E_preserved (p : Position) (hV : ValidPos p = true) (m : Mv) (hm : m ∈ R.legal_moves p)
    (hE : Spec.EpConsistent (abs p) = true) (q : Position) (h : R.makemove p m true = some q) :
    Spec.EpConsistent (abs q) = true := by
  rw [agree_legal_moves] at hm; rw [agree_makemove] at h; exact E_preserved p hV m hm hE q h

/-- **M is preserved** by the moves the code generates and makes. -/
theorem C02_code_M_preserved (p : Position) (hV : ValidPos p = true) (m : Mv) (hm : m ∈ R.legal_moves p)
    (hE : Spec.EpConsistent (abs p) = true) (hM : Spec.LegalMaterial (abs p) = true)
    (q : Position) (h : R.makemove p m true = some q) : Spec.LegalMaterial (abs q) = true := by
  rw [agree_legal_moves] at hm; rw [agree_makemove] at h; exact M_preserved p hV m hm hE hM q h

/-- **D is closed under the moves the code generates and makes** (counters within `i32`). -/
theorem C02_code_D_closed (p : Position) (m : Mv) (q : Position) (hD : InD p = true) (hm : m ∈ R.legal_moves p)
    (h : R.makemove p m true = some q)
    (hh : p.halfmoves + 1 < 2147483648) (hf : p.fullmoves + 1 < 2147483648) : InD q = true := by
  rw [agree_legal_moves] at hm; rw [agree_makemove] at h; exact D_closed p m q hD hm h hh hf

/-- … and under the regenerated null move played when not in check. -/
theorem C02_code_D_null (p : Position) (hD : InD p = true)
    (hc : inCheck (abs p).board (abs p).whiteToMove = false) : InD (R.makenull p) = true := by
  rw [agree_makenull]; exact D_null p hD hc

/-- `GenPath` over the regenerated functions. -/
inductive GenPath_code : Nat → Position → Position → Prop
  | nil (p : Position) : GenPath_code 0 p p
  | move {n : Nat} {p q r : Position} (m : Mv) :
      m ∈ R.legal_moves p → R.makemove p m true = some q → GenPath_code n q r → GenPath_code (n + 1) p r
  | null {n : Nat} {p r : Position} :
      inCheck (abs p).board (abs p).whiteToMove = false → GenPath_code n (R.makenull p) r → GenPath_code (n + 1) p r

theorem GenPath_code_iff {n : Nat} {p r : Position} : GenPath_code n p r ↔ GenPath n p r := by
  constructor
  · intro h
    induction h with
    | nil p => exact .nil p
    | move m hm hq _ ih => rw [agree_legal_moves] at hm; rw [agree_makemove] at hq; exact .move m hm hq ih
    | null hc _ ih => rw [agree_makenull] at ih; exact .null hc ih
  · intro h
    induction h with
    | nil p => exact .nil p
    | move m hm hq _ ih => rw [← agree_legal_moves] at hm; rw [← agree_makemove] at hq; exact .move m hm hq ih
    | null hc _ ih => rw [← agree_makenull] at ih; exact .null hc ih

/-- **R ⊆ D on the code**: every position reached from a position of D by moves the code generates and makes, and
null moves, is in D (counters within `i32`) — and denotes the position the rules prescribe. -/
theorem C02_code_D_path {n : Nat} {p r : Position} (path : GenPath_code n p r) (hD : InD p = true)
    (hh : p.halfmoves + n < 2147483648) (hf : p.fullmoves + n < 2147483648) :
    InD r = true ∧ C02Path_code n p (abs p) r (abs r) :=
  ⟨D_path (GenPath_code_iff.mp path) hD hh hf,
    C02Path_code_iff.mpr (genPath_C02Path (GenPath_code_iff.mp path) hD hh hf)⟩

/-! ## non-vacuity -/

/-- 1. e4 from the start position through the regenerated `makemove`: en-passant target e3, result valid. -/
example : ∃ q, R.makemove Gen.startpos ⟨12, 28, 6⟩ true = some q ∧
    abs q = Spec.apply (abs Gen.startpos) (decodeMove Gen.startpos ⟨12, 28, 6⟩) ∧ ValidPos q = true := by
  obtain ⟨q, hq⟩ := C02_code_makemove_total Gen.startpos ⟨12, 28, 6⟩ true (by decide +kernel) (by decide +kernel)
  exact ⟨q, hq, C02_code_makemove_eq _ _ q true (by decide +kernel) (by decide +kernel) (by decide +kernel) hq,
    C02_code_valid_preserved _ _ q (by decide +kernel) (by decide +kernel) (by decide +kernel) hq (by decide +kernel)
      (by decide +kernel)⟩

/-- Chess960 castling (`exK` of `Props/C02.lean`: king f8 takes rook g8, Black to move) through the theorem. -/
example : ∃ q, R.makemove exK ⟨5, 6, 6⟩ false = some q ∧ abs q = Spec.apply (abs exK) (.castle true) := by
  obtain ⟨q, hq⟩ := C02_code_makemove_total exK ⟨5, 6, 6⟩ false (by decide +kernel) (by decide +kernel)
  have h := C02_code_makemove_eq exK ⟨5, 6, 6⟩ q false (by decide +kernel) (by decide +kernel) (by decide +kernel) hq
  rw [show decodeMove exK ⟨5, 6, 6⟩ = .castle true from by decide +kernel] at h
  exact ⟨q, hq, h⟩

/-- every position two plies (moves generated and made by the code, or null moves) from the start position is in D. -/
example : ∀ r, GenPath_code 2 Gen.startpos r → InD r = true :=
  fun _ path => (C02_code_D_path path startpos_inD (by decide +kernel) (by decide +kernel)).1

end Rawr

#print axioms Rawr.C02_code_makemove_refines
#print axioms Rawr.C02_code_makemove_eq
#print axioms Rawr.C02_code_makemove_total
#print axioms Rawr.C02_code_update_hash_irrelevant
#print axioms Rawr.C02_code_no_update_keeps_hash
#print axioms Rawr.C02_code_null
#print axioms Rawr.C02_code_null_valid
#print axioms Rawr.C02_code_spec_valid
#print axioms Rawr.C02_code_mover_not_in_check
#print axioms Rawr.C02_code_counters
#print axioms Rawr.C02_code_hash
#print axioms Rawr.C02_code_valid_preserved
#print axioms Rawr.C02Path_code_iff
#print axioms Rawr.C02_code_sequence
#print axioms Rawr.C02_code_E_preserved
#print axioms Rawr.C02_code_M_preserved
#print axioms Rawr.C02_code_D_closed
#print axioms Rawr.C02_code_D_null
#print axioms Rawr.GenPath_code_iff
#print axioms Rawr.C02_code_D_path
