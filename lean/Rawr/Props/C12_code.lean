import Rawr.Props.C12_rules
import Rawr.Props.C03_code
/-!
# C12 on the regenerated code: mate in one is found by `R.root`

`Props/C12_rules.lean` proves, for the model's `root (.depth D)`, that on a root of `V ∧ E` with clock below 99 that has a
mating move the driver plays a mating move at every depth ≥ 1 and every record scores `MATE_SCORE - 1` — under the
hypotheses "no 64-bit key collision" (`MateKeysOk`), "mated children are not repetitions", and a table invariant
(`TTInv` / sane table / empty table).  Here the same statements for the regenerated `R.root … (.Depth D) (fuel + 2)`.

Transfer: `agree_root_rules` needs `ValidPos`, `EpConsistent` (hypotheses of `C12_rules` already), and the counter room
`halfmoves/fullmoves + (fuel + 2) + 64 < 2^31`.  `C12_rules` has the `fullmoves` room as hypothesis `hfm` and derives the
`halfmoves` room from `halfmoves < 99` and `fuel + 1 < MATE_SCORE` — so does the proof here: NO extra hypothesis.

Hypotheses kept as in `C12_rules` (they are predicates over the search TREE, defined with the model's `legalMoves`,
`makemove`, `inCheck` — function-equal to `R.legal_moves`, `R.makemove`, `R.in_check`): `IsMating p m`
(`C12_code_isMating_iff` spells it out on the code), `Mated c`, `MateKeysOk Kp Ks fuel p`.  The table invariant is spelled
out with `R.tt_poll`.  In the conclusion the records are read through `infoToModel` (`score.getD 0`, `pv`).

`C12_code_any_table_false`: finding F12 replayed on the regenerated driver by kernel evaluation — with an entry stored
under the mated child's key the code does NOT play the mate.
-/
namespace Rawr
open Position Spec ZH MM SV Br Att DM RulesLevel

/-- `IsMating` on the code: the regenerated `makemove::<true>` yields a position in which the regenerated generator
finds no move and the regenerated `in_check` answers yes. -/
theorem C12_code_isMating_iff (p : Position) (m : Mv) :
    IsMating p m ↔ ∃ c, R.makemove p m true = some c ∧ R.legal_moves c = [] ∧ R.in_check c = true := by
  rw [agree_makemove, agree_legal_moves, agree_in_check]; rfl

/-- `TTInv` spelled out with the regenerated `poll`. -/
theorem ttInv_code {Kp Ks : BB → Prop} {tt : Table TTEntry}
    (hT : ∀ key e, R.tt_poll tt key = some e → (Kp e.hash ∨ (-RS ≤ e.score ∧ e.score ≤ RS)) ∧ ¬ Ks e.hash) :
    TTInv Kp Ks tt := by
  simp only [Table.agree_tt_poll] at hT; exact hT

/-- **C12 on the code.** `go depth D`, `D ≥ 1`, on a root of `V ∧ E` with clock below 99 that has a mating move, any
history in which the mated children have not occurred, no key collision, a table in which every entry has a sane score
(or sits under the root's key) and none sits under a mated child's key: if the regenerated driver returns, its
`Result` is `Ok` of a generated move that checkmates, and every info record — the last one in particular — carries
the score `MATE_SCORE - 1` and a principal variation consisting of a mating move. -/
theorem C12_code_rules (clock : Nat → Nat) (D : Int) (hD1 : 1 ≤ D) (fuel : Nat)
    (hfuel : (fuel : Int) + 1 < Gen.MATE_SCORE)
    (p : Position) (hV : ValidPos p = true) (hE : Spec.EpConsistent (abs p) = true) (h50 : p.halfmoves < 99)
    (hfm : p.fullmoves + (fuel + 2) + 64 < 2147483648)
    (hmate : ∃ m ∈ R.legal_moves p, IsMating p m)
    (hist : List BB) (tt : Table TTEntry) (Kp Ks : BB → Prop)
    (hkeys : MateKeysOk Kp Ks fuel p)
    (hrep : ∀ m ∈ R.legal_moves p, ∀ c, R.makemove p m true = some c → Mated c → ¬ OccurredBefore hist c)
    (hT : ∀ key e, R.tt_poll tt key = some e → (Kp e.hash ∨ (-RS ≤ e.score ∧ e.score ≤ RS)) ∧ ¬ Ks e.hash)
    (r : Except String Mv × List BB × Table TTEntry × List R.Info)
    (h : R.root clock p hist tt (.Depth D) (fuel + 2) = some r) :
    (∃ m ∈ R.legal_moves p, IsMating p m ∧ r.1 = .ok m) ∧
      r.2.2.2.getLast?.map (fun i => i.score.getD 0) = some (Gen.MATE_SCORE - 1) ∧
      ∀ i ∈ r.2.2.2, i.score.getD 0 = Gen.MATE_SCORE - 1 ∧ ∃ m ∈ R.legal_moves p, IsMating p m ∧ i.pv = [m] := by
  have hM : Gen.MATE_SCORE = 1000000 := rfl
  have hh : p.halfmoves + (fuel + 2) + 64 < 2147483648 := by omega
  rw [agree_legal_moves] at hmate ⊢
  rw [agree_legal_moves, agree_makemove] at hrep
  obtain ⟨⟨m, hm, hmt, e⟩, h2, h3⟩ := C12_rules D hD1 fuel hfuel p hV hE h50 hfm hmate hist tt Kp Ks hkeys hrep
    (ttInv_code hT) (rootResultOf r) (root_code_model (lim := .depth D) rfl hV hE hh hfm h)
  refine ⟨⟨m, hm, hmt, toOption_eq_some_iff.mp e⟩, ?_, fun i hi => h3 _ (mem_infos_code hi)⟩
  rw [← h2]
  simp only [rootResultOf, List.getLast?_map, Option.map_map]
  rfl

/-- the same over a table with sane scores (`|score| ≤ MATE_SCORE - 2`) and no entry under a key in `Ks`. -/
theorem C12_code_rules_sane_table (clock : Nat → Nat) (D : Int) (hD1 : 1 ≤ D) (fuel : Nat)
    (hfuel : (fuel : Int) + 1 < Gen.MATE_SCORE)
    (p : Position) (hV : ValidPos p = true) (hE : Spec.EpConsistent (abs p) = true) (h50 : p.halfmoves < 99)
    (hfm : p.fullmoves + (fuel + 2) + 64 < 2147483648)
    (hmate : ∃ m ∈ R.legal_moves p, IsMating p m)
    (hist : List BB) (tt : Table TTEntry) (Kp Ks : BB → Prop)
    (hkeys : MateKeysOk Kp Ks fuel p)
    (hrep : ∀ m ∈ R.legal_moves p, ∀ c, R.makemove p m true = some c → Mated c → ¬ OccurredBefore hist c)
    (hsane : ∀ key e, R.tt_poll tt key = some e → -RS ≤ e.score ∧ e.score ≤ RS)
    (hnone : ∀ key e, R.tt_poll tt key = some e → ¬ Ks e.hash)
    (r : Except String Mv × List BB × Table TTEntry × List R.Info)
    (h : R.root clock p hist tt (.Depth D) (fuel + 2) = some r) :
    (∃ m ∈ R.legal_moves p, IsMating p m ∧ r.1 = .ok m) ∧
      r.2.2.2.getLast?.map (fun i => i.score.getD 0) = some (Gen.MATE_SCORE - 1) ∧
      ∀ i ∈ r.2.2.2, i.score.getD 0 = Gen.MATE_SCORE - 1 ∧ ∃ m ∈ R.legal_moves p, IsMating p m ∧ i.pv = [m] :=
  C12_code_rules clock D hD1 fuel hfuel p hV hE h50 hfm hmate hist tt Kp Ks hkeys hrep
    (fun key e he => ⟨Or.inr (hsane key e he), hnone key e he⟩) r h

/-- the same over an all-default table of any size (`n = 0` included): the table hypothesis reduces to "no mated child
has key 0" (`¬ Ks 0`). -/
theorem C12_code_rules_empty_table (clock : Nat → Nat) (D : Int) (hD1 : 1 ≤ D) (fuel : Nat)
    (hfuel : (fuel : Int) + 1 < Gen.MATE_SCORE)
    (p : Position) (hV : ValidPos p = true) (hE : Spec.EpConsistent (abs p) = true) (h50 : p.halfmoves < 99)
    (hfm : p.fullmoves + (fuel + 2) + 64 < 2147483648)
    (hmate : ∃ m ∈ R.legal_moves p, IsMating p m)
    (hist : List BB) (n : Nat) (Kp Ks : BB → Prop)
    (hkeys : MateKeysOk Kp Ks fuel p) (hK0 : ¬ Ks 0#64)
    (hrep : ∀ m ∈ R.legal_moves p, ∀ c, R.makemove p m true = some c → Mated c → ¬ OccurredBefore hist c)
    (r : Except String Mv × List BB × Table TTEntry × List R.Info)
    (h : R.root clock p hist ⟨Array.replicate n default⟩ (.Depth D) (fuel + 2) = some r) :
    (∃ m ∈ R.legal_moves p, IsMating p m ∧ r.1 = .ok m) ∧
      r.2.2.2.getLast?.map (fun i => i.score.getD 0) = some (Gen.MATE_SCORE - 1) ∧
      ∀ i ∈ r.2.2.2, i.score.getD 0 = Gen.MATE_SCORE - 1 ∧ ∃ m ∈ R.legal_moves p, IsMating p m ∧ i.pv = [m] :=
  C12_code_rules clock D hD1 fuel hfuel p hV hE h50 hfm hmate hist _ Kp Ks hkeys hrep
    (by simp only [Table.agree_tt_poll]; exact ttInv_replicate Kp Ks n hK0) r h

/-- … with `Kp` = "the root's key", `Ks` = "the key of a mated child" (`MatedKey p`). -/
theorem C12_code_rules_empty_table' (clock : Nat → Nat) (D : Int) (hD1 : 1 ≤ D) (fuel : Nat)
    (hfuel : (fuel : Int) + 1 < Gen.MATE_SCORE)
    (p : Position) (hV : ValidPos p = true) (hE : Spec.EpConsistent (abs p) = true) (h50 : p.halfmoves < 99)
    (hfm : p.fullmoves + (fuel + 2) + 64 < 2147483648)
    (hmate : ∃ m ∈ R.legal_moves p, IsMating p m)
    (hist : List BB) (n : Nat)
    (hmk : ∀ m ∈ R.legal_moves p, ∀ c, R.makemove p m true = some c → Mated c → c.hash ≠ p.hash ∧ c.hash ≠ 0#64)
    (htree : ∀ m ∈ R.legal_moves p, ∀ c, R.makemove p m true = some c → ¬ Mated c →
      KeysOk (· = p.hash) (MatedKey p) (fuel + 1) c)
    (hrep : ∀ m ∈ R.legal_moves p, ∀ c, R.makemove p m true = some c → Mated c → ¬ OccurredBefore hist c)
    (r : Except String Mv × List BB × Table TTEntry × List R.Info)
    (h : R.root clock p hist ⟨Array.replicate n default⟩ (.Depth D) (fuel + 2) = some r) :
    (∃ m ∈ R.legal_moves p, IsMating p m ∧ r.1 = .ok m) ∧
      r.2.2.2.getLast?.map (fun i => i.score.getD 0) = some (Gen.MATE_SCORE - 1) ∧
      ∀ i ∈ r.2.2.2, i.score.getD 0 = Gen.MATE_SCORE - 1 ∧ ∃ m ∈ R.legal_moves p, IsMating p m ∧ i.pv = [m] := by
  have hmk' := hmk
  have htree' := htree
  rw [agree_legal_moves, agree_makemove] at hmk' htree'
  exact C12_code_rules_empty_table clock D hD1 fuel hfuel p hV hE h50 hfm hmate hist n (· = p.hash) (MatedKey p)
    ⟨rfl, fun ⟨m, hm, c, hc, hmt, e⟩ => (hmk' m hm c hc hmt).1 e,
      fun m hm c hc hmt => ⟨m, hm, c, hc, hmt, rfl⟩, htree'⟩
    (fun ⟨m, hm, c, hc, hmt, e⟩ => (hmk' m hm c hc hmt).2 e) hrep r h

/-- the clock of a child (as made by the regenerated `makemove`) of a root with clock below 99 is below 100. -/
theorem C12_code_mated_child_clock (p : Position) (hV : ValidPos p = true) (hE : Spec.EpConsistent (abs p) = true)
    (h50 : p.halfmoves < 99) (m : Mv) (hm : m ∈ R.legal_moves p) (c : Position)
    (hmk : R.makemove p m true = some c) : c.halfmoves < 100 := by
  rw [agree_legal_moves] at hm; rw [agree_makemove] at hmk
  exact C12_mated_child_clock p hV hE h50 m hm c hmk

/-- a move that checkmates BY THE RULES gives the hypothesis `hmate` (counter room for one ply). -/
theorem C12_code_mating_of_rules (p : Position) (hV : ValidPos p = true) (hE : Spec.EpConsistent (abs p) = true)
    (hh : p.halfmoves + 1 < 2147483648) (hfm : p.fullmoves + 1 < 2147483648)
    (M : Move) (hM : M ∈ Spec.legalMoves (abs p)) (hmt : SpecMated (Spec.apply (abs p) M)) :
    ∃ m ∈ R.legal_moves p, IsMating p m := by
  rw [agree_legal_moves]; exact C12_mating_of_rules p hV hE hh hfm M hM hmt

/-! ## non-vacuity, and finding F12 on the code -/
namespace C12CodeEx
open C12Ex C12RulesEx

/-- `kpmV` of `Props/C12_rules.lean` (white Kf7, pawn g6; black Kh8, pawn h7; g6-g7 mates), `go depth 3`, empty history,
three-slot table: the hypotheses hold; the regenerated driver's best move mates and the last record reports 999999. -/
example : ∃ r, R.root (fun _ => 0) kpmV [] tt3 (.Depth 3) 3 = some r ∧
    (∃ m ∈ R.legal_moves kpmV, IsMating kpmV m ∧ r.1 = .ok m) ∧
    r.2.2.2.getLast?.map (fun i => i.score.getD 0) = some 999999 ∧ r.2.2.2.length = 3 := by
  have h : ((R.root (fun _ => 0) kpmV [] tt3 (.Depth 3) 3).map fun r => r.2.2.2.length) = some 3 := by decide +kernel
  obtain ⟨r, h1, hl⟩ := Option.map_eq_some_iff.1 h
  obtain ⟨h2, h3, _⟩ := C12_code_rules_empty_table (fun _ => 0) 3 (by decide) 1 (by decide) kpmV kpmV_valid kpmV_E
    (by decide +kernel) (by decide +kernel) (by rw [agree_legal_moves]; exact kpmV_mate) [] 3 _ _ kpmV_keys
    (by decide +kernel) (fun _ _ _ _ _ ⟨_, _, hi⟩ => by simp at hi) r h1
  exact ⟨r, h1, h2, h3, hl⟩

/-- a one-slot table holding an (exact, deep, score 0) entry under the key of the mated child. -/
def ttBadV : Table TTEntry := ⟨#[⟨kpmVG7.hash, ⟨0, 0, 0⟩, 0, 100, 0⟩]⟩

/-- **F12 on the regenerated code**: "whatever the transposition table contains" is false — on the valid root `kpmV`
(which has the mating move g6-g7) `go depth 1` with `ttBadV` makes the regenerated driver answer `Ok(Kf7-f6)`, not a
mating move, with score 68. -/
theorem C12_code_any_table_false :
    ValidPos kpmV = true ∧ Spec.EpConsistent (abs kpmV) = true ∧ (∃ m ∈ R.legal_moves kpmV, IsMating kpmV m) ∧
    (R.root (fun _ => 0) kpmV [] ttBadV (.Depth 1) 2).map (fun r => (r.1.toOption, r.2.2.2.map (·.score))) =
      some (some ⟨53, 45, 6⟩, [some 68]) ∧
    ¬ IsMating kpmV ⟨53, 45, 6⟩ :=
  ⟨kpmV_valid, kpmV_E, by rw [agree_legal_moves]; exact kpmV_mate, by decide +kernel, by
    rintro ⟨c, hc, hm⟩
    have h : ((kpmV.makemove ⟨53, 45, 6⟩ true).map fun c => decide (Mated c)) = some false := by decide +kernel
    rw [hc] at h
    simp only [Option.map_some, Option.some.injEq, decide_eq_false_iff_not] at h
    exact h hm⟩

end C12CodeEx

end Rawr

#print axioms Rawr.C12_code_isMating_iff
#print axioms Rawr.C12_code_rules
#print axioms Rawr.C12_code_rules_sane_table
#print axioms Rawr.C12_code_rules_empty_table
#print axioms Rawr.C12_code_rules_empty_table'
#print axioms Rawr.C12_code_mated_child_clock
#print axioms Rawr.C12_code_mating_of_rules
#print axioms Rawr.C12CodeEx.C12_code_any_table_false
