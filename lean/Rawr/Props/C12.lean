import Rawr.Proofs.MateLemmas
/-! # C12 — mate in one is found

"If the side to move can deliver checkmate in one move and the fifty-move counter stands below 99, every search
of depth one or more, whatever the transposition table contains, returns a move that checkmates, and the last
score it reports is the mate-in-one score."

Statements about the model (`negamax`, `rootIter`, `root`), hypotheses on the model:

5. `child_mated_returns` (in `Rawr/Proofs/MateLemmas.lean`, restated here as `C12_child_mated_returns`) — a
   non-root call on a checkmated position returns `-MATE_SCORE + ply` without a table write;
6. `C12_depth1` — the root call of iteration 1 (and `C12_root_call`: of any iteration) returns
   `MATE_SCORE - 1` and records a mating move, given the range requirement `OthersBelowMate` on the other
   children as an explicit hypothesis; `C12_others_below_mate` discharges that hypothesis from bounds on the
   evaluation (`QEvalOk` inside `TreeOk`), sane table scores (`TTInv`) and collision-freeness of the keys in
   the searched tree (`TreeOk`) — through the range lemma `negamax_range`, for every iteration, not only the
   first;
7. `C12_full` (a `def … : Prop`: any depth ≥ 1, any table) and `C12_partial`: `go depth D` for every `D ≥ 1`
   under the hypotheses just named. `C12_any_table_false`: the literal "whatever the table contains" reading is
   false for the model (concrete witness: an entry under the key of the mated child). -/
namespace Rawr
open DM

/-! ## 5. the mated child -/

/-- **C12.5** A non-root call (`ply ≥ 1`, called with remaining depth ≥ 0: the check extension makes it ≥ 1, so
quiescence is not entered; reverse futility and the null move are disabled in check) on a checkmated position
with clock below 100, not a repetition, no table entry under its key, and a poll that answers `false`:
returns `-MATE_SCORE + ply`; the state changes in `seldepth` and `polls` only. -/
theorem C12_child_mated_returns (lim : Limit) (fuel : Nat) (c : Position) (st : SState) (α β ply depth : Int)
    (cn : Bool) (hply : 1 ≤ ply) (hdepth : 0 ≤ depth) (hmoves : legalMoves c = []) (hcheck : c.inCheck = true)
    (h50 : c.halfmoves < 100) (hrep : repCount st.hist c.halfmoves c.hash < 2)
    (hnohit : (st.tt.poll c.hash.toNat).map (·.hash) ≠ some c.hash)
    (hlim : (shouldStop lim st).1 = false) :
    negamax lim (fuel + 1) c st α β ply depth cn =
      some (-Gen.MATE_SCORE + ply, { st with seldepth := max st.seldepth ply, polls := st.polls + 1 }) :=
  child_mated_returns lim fuel c st α β ply depth cn hply hdepth ⟨hmoves, hcheck⟩ h50 hrep hnohit hlim

/-! ## 6. the root call -/

/-- **C12.6** (any iteration) The root call (`ply = 0`, full window, depth ≥ 1 after the check extension) under a
limit that does not stop it, over a table satisfying an invariant `I`, when
* some legal move leads to a checkmated position (`IsMating`),
* every checkmated child has clock < 100, is not a repetition, and has no entry under its key in any table
  satisfying `I` (`MatedChildrenOk`: C12.5 applies to it),
* every call on any other child answers above `-MATE_SCORE + 1` and keeps `I` (`OthersBelowMate`):
if the call returns, its value is `MATE_SCORE - 1` and the recorded best move is a legal move that checkmates.
(Every mating move scores exactly `MATE_SCORE - 1`, every other move strictly less; `best` only changes on a
strict improvement, so the first mating move in ordered sequence is kept; `alpha ≤ MATE_SCORE - 1 < INF` means
no cut-off at the root, so every move is tried.) -/
theorem C12_root_call (lim : Limit) (fuel : Nat) (p : Position) (st : SState) (depth : Int)
    (I : Table TTEntry → Prop)
    (hdepth : 1 ≤ (if p.inCheck then depth + 1 else depth))
    (hlim : QuietAt lim st.depth) (hI : I st.tt)
    (hmate : ∃ m ∈ legalMoves p, IsMating p m)
    (hmated : MatedChildrenOk p st.hist I)
    (hothers : OthersBelowMate lim (fuel + 1) p st.hist st.depth I)
    (v : Int) (st' : SState)
    (h : negamax lim (fuel + 2) p st (-Gen.INF) Gen.INF 0 depth false = some (v, st')) :
    v = Gen.MATE_SCORE - 1 ∧ ∃ m, m ∈ legalMoves p ∧ IsMating p m ∧ st'.best = some m ∧ st'.hist = st.hist :=
  let ⟨hv, m, _, hm, hmt, hb, hh, _⟩ :=
    root_mate_in_one lim fuel p st depth I hdepth hlim hI hmate hmated hothers v st' h
  ⟨hv, m, hm, hmt, hb, hh⟩

/-- **C12.6** as asked: iteration 1 (`depth = 1`, `stats.depth = 1`). -/
theorem C12_depth1 (lim : Limit) (fuel : Nat) (p : Position) (st : SState) (I : Table TTEntry → Prop)
    (hst : st.depth = 1) (hlim : QuietAt lim 1) (hI : I st.tt)
    (hmate : ∃ m ∈ legalMoves p, IsMating p m)
    (hmated : MatedChildrenOk p st.hist I)
    (hothers : OthersBelowMate lim (fuel + 1) p st.hist 1 I)
    (v : Int) (st' : SState)
    (h : negamax lim (fuel + 2) p st (-Gen.INF) Gen.INF 0 1 false = some (v, st')) :
    v = Gen.MATE_SCORE - 1 ∧ ∃ m, m ∈ legalMoves p ∧ IsMating p m ∧ st'.best = some m :=
  let ⟨hv, m, hm, hmt, hb, _⟩ := C12_root_call lim fuel p st 1 I (by split <;> omega) (by rw [hst]; exact hlim) hI
    hmate hmated (by rw [hst]; exact hothers) v st' h
  ⟨hv, m, hm, hmt, hb⟩

/-! ### the range requirement, proved -/

namespace DM
/-- all stored scores are within `[-(MATE_SCORE - 2), MATE_SCORE - 2]`. -/
def TTSane (T : Table TTEntry) : Prop := ∀ key e, T.poll key = some e → -RS ≤ e.score ∧ e.score ≤ RS

theorem TTInv_of_sane {Kp Ks : BB → Prop} {T : Table TTEntry} (h : TTSane T)
    (hk : ∀ key e, T.poll key = some e → ¬ Ks e.hash) : TTInv Kp Ks T :=
  fun key e he => ⟨Or.inr (h key e he), hk key e he⟩
end DM

/-- **C12.6, range part.** `OthersBelowMate` holds — for every iteration, window and remaining depth — over the
table invariant `TTInv Kp Ks` (scores within `MATE_SCORE - 2` except under keys in `Kp`; nothing stored under
keys in `Ks`) as soon as the subtree that `fuel` can reach below every non-mated child is `TreeOk`: the
evaluation is within `[-B, B]`, `B + 300 ≤ MATE_SCORE - 2`, on all capture trees (C17 gives `B = 174416` on
consistent positions), no node has a key in `Kp`, no node with a legal move has a key in `Ks`.
The values met are: quiescence values (± evaluations), `0` (stopped), the draw score, reverse-futility values
(`eval - 100·depth`, `depth < 4`), table scores (sane), mate scores at `ply ≥ 2` (`≥ -MATE_SCORE + 2`), and
negations of such from deeper plies. -/
theorem C12_others_below_mate (lim : Limit) (fuel : Nat) (p : Position) (H : List BB) (D : Int)
    (Kp Ks : BB → Prop) (B : Int) (hB0 : 0 ≤ B) (hB : B + 300 ≤ Gen.MATE_SCORE - 2)
    (hfuel : (fuel : Int) < Gen.MATE_SCORE)
    (htree : ∀ m ∈ legalMoves p, ∀ c, p.makemove m true = some c → ¬ Mated c → TreeOk Kp Ks B fuel c) :
    OthersBelowMate lim fuel p H D (TTInv Kp Ks) :=
  othersBelowMate_of_tree lim fuel p H D Kp Ks B hB0 hB hfuel htree

/-- the range lemma itself, for reference: at `ply ≥ 1` every value is at most `MATE_SCORE - 2`, and at least
`-(MATE_SCORE - 2)` unless the position is checkmated at `ply = 1`; the table invariant is kept. -/
theorem C12_negamax_range (lim : Limit) (Kp Ks : BB → Prop) (B : Int) (hB0 : 0 ≤ B)
    (hB : B + 300 ≤ Gen.MATE_SCORE - 2) (fuel : Nat) (q : Position) (st : SState) (α β ply depth : Int)
    (cn : Bool) (v : Int) (st' : SState) (htree : TreeOk Kp Ks B fuel q) (hply : 1 ≤ ply)
    (hfuel : ply + fuel ≤ Gen.MATE_SCORE) (hI : TTInv Kp Ks st.tt)
    (h : negamax lim fuel q st α β ply depth cn = some (v, st')) :
    TTInv Kp Ks st'.tt ∧ v ≤ Gen.MATE_SCORE - 2 ∧ ((2 ≤ ply ∨ ¬ Mated q) → -(Gen.MATE_SCORE - 2) ≤ v) :=
  negamax_range lim Kp Ks B hB0 hB fuel q st α β ply depth cn v st' htree hply hfuel hI h

/-! ## 7. every depth -/

/-- The property as worded, on the model: any depth limit ≥ 1, any table, any fuel on which the driver returns.
The mated children are required to be scoreable as mates (clock < 100 — implied by the root's clock < 99 —
and not a repetition, which no checkmated position of a legal game is). Not proved, and false as it stands:
see `C12_any_table_false`. -/
def C12_full : Prop :=
  ∀ (D : Int) (fuel : Nat) (p : Position) (hist : List BB) (tt : Table TTEntry) (res : RootResult),
    1 ≤ D → D < Gen.MAX_DEPTH → p.halfmoves < 99 →
    (∃ m ∈ legalMoves p, IsMating p m) →
    (∀ m ∈ legalMoves p, ∀ c, p.makemove m true = some c → Mated c →
      c.halfmoves < 100 ∧ repCount (c.hash :: hist) c.halfmoves c.hash < 2) →
    root (.depth D) fuel p hist tt = some res →
    (∃ m ∈ legalMoves p, IsMating p m ∧ res.best = some m) ∧
      res.infos.getLast?.map (·.score) = some (Gen.MATE_SCORE - 1)

namespace DM
/-- the hypotheses under which C12 is proved for every depth: on top of those of `C12_full`,
* `Kp` holds of the root's key and of no key in the tree below the non-mated children; `Ks` holds of the keys of
  the mated children, not of the root's key, and of no key of a node with a legal move in that tree
  (no 64-bit key collision between these positions);
* the evaluation is within `[-B, B]` on the capture trees of that tree. -/
structure MateInOneTree (B : Int) (fuel : Nat) (p : Position) (H : List BB) (Kp Ks : BB → Prop) : Prop where
  mate : ∃ m ∈ legalMoves p, IsMating p m
  matedOk : ∀ m ∈ legalMoves p, ∀ c, p.makemove m true = some c → Mated c →
    c.halfmoves < 100 ∧ repCount (c.hash :: H) c.halfmoves c.hash < 2 ∧ Ks c.hash
  rootKp : Kp p.hash
  rootKs : ¬ Ks p.hash
  tree : ∀ m ∈ legalMoves p, ∀ c, p.makemove m true = some c → ¬ Mated c → TreeOk Kp Ks B (fuel + 1) c

theorem MateInOneTree.mateInOne {B : Int} {fuel : Nat} {p : Position} {H : List BB} {Kp Ks : BB → Prop}
    (h : MateInOneTree B fuel p H Kp Ks) (hB0 : 0 ≤ B) (hB : B + 300 ≤ Gen.MATE_SCORE - 2)
    (hfuel : (fuel : Int) + 1 < Gen.MATE_SCORE) (lim : Limit) :
    MateInOne lim fuel p H (TTInv Kp Ks) where
  mate := h.mate
  mated := fun m hm c hmk hmt =>
    let ⟨h1, h2, h3⟩ := h.matedOk m hm c hmk hmt
    ⟨h1, h2, fun _ hT => hT.nohit h3⟩
  others := fun D => othersBelowMate_of_tree lim (fuel + 1) p H D Kp Ks B hB0 hB (by omega) h.tree
  store := fun _ _ _ _ _ hT hadd => hT.add hadd (Or.inl h.rootKp) h.rootKs
end DM

/-- **C12, every depth (partial).** `go depth D`, `D ≥ 1`, on a root satisfying `MateInOneTree`, over any table
satisfying `TTInv Kp Ks` (in particular any table with sane scores and no entry under a mated child's key —
e.g. an empty one): if the driver returns, the best move is a legal move that checkmates, every info record —
the last one in particular — carries the mate-in-one score `MATE_SCORE - 1` and a principal variation
consisting of a mating move.
Missing for `C12_full`: the table and tree hypotheses (`TTInv`, `TreeOk`); without the first the statement is
false (`C12_any_table_false`). -/
theorem C12_partial (D : Int) (hD1 : 1 ≤ D) (fuel : Nat) (p : Position) (hist : List BB) (tt : Table TTEntry)
    (Kp Ks : BB → Prop) (B : Int) (hB0 : 0 ≤ B) (hB : B + 300 ≤ Gen.MATE_SCORE - 2)
    (hfuel : (fuel : Int) + 1 < Gen.MATE_SCORE)
    (hyp : MateInOneTree B fuel p hist Kp Ks) (hT : TTInv Kp Ks tt) (res : RootResult)
    (h : root (.depth D) (fuel + 2) p hist tt = some res) :
    (∃ m ∈ legalMoves p, IsMating p m ∧ res.best = some m) ∧
      res.infos.getLast?.map (·.score) = some (Gen.MATE_SCORE - 1) ∧
      ∀ r ∈ res.infos, r.score = Gen.MATE_SCORE - 1 ∧ ∃ m ∈ legalMoves p, IsMating p m ∧ r.pv = [m] := by
  obtain ⟨h1, h2, h3⟩ := root_mate D hD1 fuel p hist tt (TTInv Kp Ks) (hyp.mateInOne hB0 hB hfuel _) hT res h
  refine ⟨h1, ?_, h3⟩
  rw [List.getLast?_eq_some_getLast h2]
  have := (h3 _ (List.getLast_mem h2)).1
  simp only [Option.map_some, this]

/-- the root call of any single iteration `k ≤ D` of `go depth D`, same hypotheses. -/
theorem C12_root_call_partial (D : Int) (fuel : Nat) (p : Position) (st : SState) (depth : Int)
    (Kp Ks : BB → Prop) (B : Int) (hB0 : 0 ≤ B) (hB : B + 300 ≤ Gen.MATE_SCORE - 2)
    (hfuel : (fuel : Int) + 1 < Gen.MATE_SCORE)
    (hdepth : 1 ≤ depth) (hD : st.depth ≤ D)
    (hyp : MateInOneTree B fuel p st.hist Kp Ks) (hT : TTInv Kp Ks st.tt) (v : Int) (st' : SState)
    (h : negamax (.depth D) (fuel + 2) p st (-Gen.INF) Gen.INF 0 depth false = some (v, st')) :
    v = Gen.MATE_SCORE - 1 ∧ ∃ m, m ∈ legalMoves p ∧ IsMating p m ∧ st'.best = some m ∧ st'.hist = st.hist :=
  have hm := hyp.mateInOne hB0 hB hfuel (.depth D)
  C12_root_call (.depth D) fuel p st depth (TTInv Kp Ks) (by split <;> omega) hD hT hm.mate hm.mated
    (hm.others _) v st' h

/-! ## decision procedures for the hypotheses -/
namespace DM


def treeOkB (kp ks : BB → Bool) (B : Int) : Nat → Position → Bool
  | 0, _ => true
  | f + 1, q => !kp q.hash && (decide (legalMoves q = []) || !ks q.hash) && qEvalOkB B qFuel q &&
      (q.inCheck || isEndgame q || treeOkB kp ks B f q.makenull) &&
      (legalMoves q).all fun m =>
        match q.makemove m true with
        | none => true
        | some c => treeOkB kp ks B f c

theorem treeOk_of_B (kp ks : BB → Bool) (B : Int) : ∀ (f : Nat) (q : Position), treeOkB kp ks B f q = true →
    TreeOk (fun k => kp k = true) (fun k => ks k = true) B f q
  | 0, _, _ => trivial
  | f + 1, q, h => by
    simp only [treeOkB, Bool.and_eq_true, Bool.or_eq_true, Bool.not_eq_true', decide_eq_true_eq,
      List.all_eq_true] at h
    obtain ⟨⟨⟨⟨h1, h2⟩, h3⟩, h4⟩, h5⟩ := h
    refine ⟨by simp [h1], fun hne => ?_, (qEvalOkB_iff _ _ _).1 h3, fun hc he => ?_, fun m hm c hmk => ?_⟩
    · rcases h2 with h2 | h2
      · exact absurd h2 hne
      · simp [h2]
    · rcases h4 with (h4 | h4) | h4
      · rw [hc] at h4; cases h4
      · rw [he] at h4; cases h4
      · exact treeOk_of_B kp ks B f _ h4
    · have := h5 m hm
      rw [hmk] at this
      exact treeOk_of_B kp ks B f c this

def mateInOneTreeB (B : Int) (fuel : Nat) (p : Position) (H : List BB) (kp ks : BB → Bool) : Bool :=
  ((legalMoves p).any fun m =>
    match p.makemove m true with
    | none => false
    | some c => decide (Mated c)) &&
  kp p.hash && !ks p.hash &&
  (legalMoves p).all fun m =>
    match p.makemove m true with
    | none => true
    | some c =>
      if Mated c then
        decide (c.halfmoves < 100) && decide (repCount (c.hash :: H) c.halfmoves c.hash < 2) && ks c.hash
      else treeOkB kp ks B (fuel + 1) c

theorem mateInOneTree_of_B {B : Int} {fuel : Nat} {p : Position} {H : List BB} {kp ks : BB → Bool}
    (h : mateInOneTreeB B fuel p H kp ks = true) :
    MateInOneTree B fuel p H (fun k => kp k = true) (fun k => ks k = true) := by
  simp only [mateInOneTreeB, Bool.and_eq_true, List.any_eq_true, List.all_eq_true, Bool.not_eq_true'] at h
  obtain ⟨⟨⟨⟨m, hm, h1⟩, h2⟩, h3⟩, h4⟩ := h
  refine ⟨⟨m, hm, ?_⟩, fun m hm c hmk hmt => ?_, h2, by simp [h3], fun m hm c hmk hnm => ?_⟩
  · cases hmk : p.makemove m true with
    | none => rw [hmk] at h1; cases h1
    | some c => rw [hmk] at h1; exact ⟨c, hmk, of_decide_eq_true h1⟩
  · have := h4 m hm
    rw [hmk] at this
    simp only [if_pos hmt, Bool.and_eq_true, decide_eq_true_eq] at this
    exact ⟨this.1.1, this.1.2, this.2⟩
  · have := h4 m hm
    rw [hmk] at this
    simp only [if_neg hnm] at this
    exact treeOk_of_B kp ks B _ c this

/-- a table all of whose slots (and the default entry, which a zero-slot table answers) satisfy the invariant. -/
def ttInvB (kp ks : BB → Bool) (T : Table TTEntry) : Bool :=
  (default :: T.entries.toList).all fun e => (kp e.hash || (decide (-RS ≤ e.score) && decide (e.score ≤ RS))) &&
    !ks e.hash

theorem ttInv_of_B {kp ks : BB → Bool} {T : Table TTEntry} (h : ttInvB kp ks T = true) :
    TTInv (fun k => kp k = true) (fun k => ks k = true) T := by
  simp only [ttInvB, List.all_eq_true, Bool.and_eq_true, Bool.or_eq_true, decide_eq_true_eq,
    Bool.not_eq_true'] at h
  intro key e he
  rw [Table.poll_eq] at he
  cases he
  have hmem : T.slot (key % T.len) ∈ (default : TTEntry) :: T.entries.toList := by
    unfold Table.slot
    cases hi : T.entries[key % T.len]? with
    | none => simp
    | some x =>
      simp only [Option.getD_some]
      exact List.mem_cons_of_mem _ (Array.mem_toList_iff.2 (Array.mem_of_getElem? hi))
  have := h _ hmem
  exact ⟨this.1, by simp [this.2]⟩
end DM

/-! ## non-vacuity, and the counterexample -/
namespace C12Ex

/-- white Kf7, pawn g6; black Kh8, pawn h7; white to move: seven legal moves, g6-g7 mates (and is tried second,
after the capture g6xh7). -/
def kpm : Position :=
  { c0 := 0x20400000000000#64, c1 := 0x8080000000000000#64,
    p0 := 0x80400000000000#64, p1 := 0#64, p2 := 0#64, p3 := 0#64, p4 := 0#64, p5 := 0x8020000000000000#64,
    halfmoves := 0, fullmoves := 60, black := false, ep := none,
    usK := false, usQ := false, themK := false, themQ := false,
    cf0 := 7, cf1 := 0, cf2 := 7, cf3 := 0, hash := 0x1234#64, frc := false }

def tt3 : Table TTEntry := ⟨#[default, default, default]⟩

/-- the position after g6-g7#. -/
def kpmG7 : Position := (kpm.makemove ⟨46, 54, 6⟩ true).getD kpm

theorem kpmG7_mated : Mated kpmG7 := by decide +kernel

/-- C12.5 applies to that position (ply 1, called with remaining depth 0). -/
example : negamax (.depth 1) 1 kpmG7 ⟨[kpmG7.hash], tt3, 1, 0, 1, none, 0⟩ (-Gen.INF) Gen.INF 1 0 true =
    some (-Gen.MATE_SCORE + 1, ⟨[kpmG7.hash], tt3, 1, 1, 1, none, 1⟩) :=
  C12_child_mated_returns (.depth 1) 0 kpmG7 _ _ _ 1 0 true (by decide) (by decide) kpmG7_mated.1 kpmG7_mated.2
    (by decide +kernel) (by decide +kernel) (by decide +kernel) (by decide)

/-- key predicates for `kpm`: `Kp` = the root's key, `Ks` = the key of the mated child. -/
def kp : BB → Bool := fun k => k == 0x1234#64
def ks : BB → Bool := fun k => k == 0xebb5ea8e70cfb81d#64

/-- the hypotheses of `C12_partial` / `C12_root_call_partial` hold on `kpm` with `B = 174416` and the tree that
fuel 2 reaches (fuel 2 is enough for `go depth D` on `kpm` for every `D`: from iteration 2 on the table move —
the mate — is tried first and every other child fails high at once by reverse futility). -/
theorem kpm_hyp : MateInOneTree 174416 0 kpm [] (fun k => kp k = true) (fun k => ks k = true) :=
  mateInOneTree_of_B (by decide +kernel)

theorem tt3_inv : TTInv (fun k => kp k = true) (fun k => ks k = true) tt3 := ttInv_of_B (by decide +kernel)

/-- `C12_partial` on `kpm`, `go depth 3`: the driver returns with three records; the best move mates; the last
record reports 999999. -/
example : ∃ res, root (.depth 3) 2 kpm [] tt3 = some res ∧
    (∃ m ∈ legalMoves kpm, IsMating kpm m ∧ res.best = some m) ∧
    res.infos.getLast?.map (·.score) = some 999999 ∧ res.infos.length = 3 := by
  have h : ((root (.depth 3) 2 kpm [] tt3).map fun r => r.infos.length) = some 3 := by decide +kernel
  obtain ⟨res, h1, hl⟩ := Option.map_eq_some_iff.1 h
  obtain ⟨h2, h3, _⟩ := C12_partial 3 (by decide) 0 kpm [] tt3 _ _ 174416 (by decide) (by decide) (by decide)
    kpm_hyp tt3_inv res h1
  exact ⟨res, h1, h2, h3, hl⟩

/-! `Rawr/Props/C12Examples.lean`: the hypotheses of `C12_depth1` on `kpm`, and the counterexample
`C12_any_table_false` to the reading "whatever the table contains". -/

end C12Ex

end Rawr

#print axioms Rawr.C12_child_mated_returns
#print axioms Rawr.C12_root_call
#print axioms Rawr.C12_depth1
#print axioms Rawr.C12_others_below_mate
#print axioms Rawr.C12_negamax_range
#print axioms Rawr.C12_partial
#print axioms Rawr.C12_root_call_partial
