import Rawr.Props.C05
import Rawr.Props.C02_domain
/-! # C05 in terms of the rules of chess

`C05_applyToken_spec` says which generated move a token selects. Here, for a position of the domain `V ∧ E`:

* `C05_rules_token`: a token is accepted iff it denotes a move `m`, and then `decodeMove pos m` is **legal by
  the rules**, the new position denotes **the successor prescribed by the rules**
  (`abs pos' = Spec.apply (abs pos) (decodeMove pos m)`) and is again in `V ∧ E`; otherwise it is reported and
  nothing changes. (C01 + C02 + E-closure.)
* `C05_rules_no_panic`: on `V ∧ E` no token makes `makemove` fail.
* `C05_rules_tokens`: a whole `moves` list from a position of `D = V ∧ E ∧ M` never panics, the final position
  is in `D`, reached by a path of moves legal by the rules (`C02Path`), one per accepted token. -/
namespace Rawr
open Position Spec ZH MM SV

/-- **C05 (one token) against the rules.** -/
theorem C05_rules_token (pos : Position) (hist : List BB) (t : List Char)
    (pos' : Position) (hist' : List BB) (out : List String)
    (hV : ValidPos pos = true) (hE : Spec.EpConsistent (abs pos) = true)
    (hh : pos.halfmoves + 1 < 2147483648) (hf : pos.fullmoves + 1 < 2147483648) :
    applyToken pos hist t = some (pos', hist', out) ↔
      (∃ m, Denotes pos t m ∧ decodeMove pos m ∈ Spec.legalMoves (abs pos) ∧
        pos.makemove m true = some pos' ∧ abs pos' = Spec.apply (abs pos) (decodeMove pos m) ∧
        ValidPos pos' = true ∧ Spec.EpConsistent (abs pos') = true ∧
        hist' = pos'.hash :: hist ∧ out = []) ∨
      ((∀ m, ¬ Denotes pos t m) ∧ pos' = pos ∧ hist' = hist ∧
        out = ["info string unknown move " ++ String.ofList t]) := by
  rw [C05_applyToken_spec]
  constructor
  · rintro (⟨m, hd, hmk, e1, e2⟩ | h)
    · have hm := hd.mem
      have hs := gen_moveShape pos hV m hm
      have hL := (C01_sound pos hV hE m hm).1
      exact Or.inl ⟨m, hd, hL, hmk, C02_makemove_eq pos m pos' true hV hs hL hmk,
        C02_valid_preserved pos m pos' hV hs hL hmk hh hf, E_of_legal pos m pos' true hV hs hL hmk, e1, e2⟩
    · exact Or.inr h
  · rintro (⟨m, hd, _, hmk, _, _, _, e1, e2⟩ | h)
    · exact Or.inl ⟨m, hd, hmk, e1, e2⟩
    · exact Or.inr h

/-- on `V` no token panics. -/
theorem C05_rules_no_panic (pos : Position) (hist : List BB) (t : List Char) (hV : ValidPos pos = true) :
    applyToken pos hist t ≠ none := by
  intro h
  obtain ⟨m, hd, hmk⟩ := (C05_applyToken_panic pos hist t).mp h
  obtain ⟨q, hq⟩ := C02_makemove_total pos m hV (gen_moveShape pos hV m hd.mem)
  rw [hq] at hmk
  cases hmk

/-- a chain of generated moves is a `GenPath`. -/
theorem legalChain_genPath : ∀ (tr : List Position) (pos : Position), LegalChain pos tr →
    GenPath tr.length pos (tr.getLastD pos)
  | [], pos, _ => .nil pos
  | b :: l, pos, ⟨⟨m, hm, hmk⟩, hl⟩ => by
    have := legalChain_genPath l b hl
    have e : (b :: l).getLastD pos = l.getLastD b := by
      cases l <;> rfl
    rw [e]
    exact .move m hm hmk this

/-- **C05 (token list) against the rules**: from a position of D the `moves` list never panics, and leads,
by moves legal by the rules — one per accepted token —, to a position of D that denotes the position the
rules prescribe. -/
theorem C05_rules_tokens (ts : List (List Char)) (pos : Position) (hist : List BB) (out : List String)
    (hD : InD pos = true)
    (hh : pos.halfmoves + ts.length < 2147483648) (hf : pos.fullmoves + ts.length < 2147483648) :
    ∃ pos' hist' out', applyTokens ts pos hist out = some (pos', hist', out') ∧
      ∃ n, n ≤ ts.length ∧ hist'.length = hist.length + n ∧
        C02Path n pos (abs pos) pos' (abs pos') ∧ InD pos' = true := by
  have hsome : ∀ (ts : List (List Char)) (pos : Position) (hist : List BB) (out : List String),
      InD pos = true → pos.halfmoves + ts.length < 2147483648 → pos.fullmoves + ts.length < 2147483648 →
      ∃ r, applyTokens ts pos hist out = some r := by
    intro ts
    induction ts with
    | nil => intro pos hist out _ _ _; exact ⟨_, rfl⟩
    | cons t ts ih =>
      intro pos hist out hD hh hf
      obtain ⟨hV, hE, _⟩ := (inD_iff pos).mp hD
      simp only [List.length_cons] at hh hf
      unfold applyTokens
      cases hap : applyToken pos hist t with
      | none => exact absurd hap (C05_rules_no_panic pos hist t hV)
      | some r =>
        obtain ⟨p1, h1, o1⟩ := r
        simp only
        rcases (C05_applyToken_spec pos hist t p1 h1 o1).mp hap with ⟨m, hd, hmk, _, _⟩ | ⟨_, rfl, _, _⟩
        · have hm := hd.mem
          have hD1 := D_closed pos m p1 hD hm hmk (by omega) (by omega)
          obtain ⟨_, b1, _, b2⟩ := C02_counters pos m p1 true hV (gen_moveShape pos hV m hm)
            (C01_sound pos hV hE m hm).1 hmk
          exact ih p1 h1 _ hD1 (by omega) (by omega)
        · exact ih _ h1 _ hD (by omega) (by omega)
  obtain ⟨⟨pos', hist', out'⟩, h⟩ := hsome ts pos hist out hD hh hf
  refine ⟨pos', hist', out', h, ?_⟩
  obtain ⟨tr, htr, e1, _, _, e4, e5, _⟩ := C05_applyTokens_fold ts pos hist out pos' hist' out' h
  have hpath := legalChain_genPath tr pos (trace_chain htr)
  have hlen : tr.length ≤ ts.length := by
    have := trace_reports_length htr
    omega
  rw [← e1] at hpath
  exact ⟨tr.length, hlen, e4, genPath_C02Path hpath hD (by omega) (by omega),
    D_path hpath hD (by omega) (by omega)⟩

/-! ## non-vacuity -/

/-- `e2e4` in the start position: accepted; the rules' move is the double push e2–e4, legal by the rules. -/
example : ∃ np, applyToken Gen.startpos [] (str "e2e4") = some (np, [np.hash], []) ∧
    abs np = Spec.apply (abs Gen.startpos) (.normal 12 28 none) ∧
    Spec.Move.normal 12 28 none ∈ Spec.legalMoves (abs Gen.startpos) := by
  have hs : (applyToken Gen.startpos [] (str "e2e4")).isSome = true := by decide +kernel
  obtain ⟨⟨np, h1, o1⟩, hap⟩ := Option.isSome_iff_exists.1 hs
  have hden : denote Gen.startpos (str "e2e4") = some ⟨12, 28, 6⟩ := by decide +kernel
  have hD := (denote_eq_some_iff _ _ _).1 hden
  rcases (C05_rules_token Gen.startpos [] (str "e2e4") np h1 o1 (by decide +kernel) (by decide +kernel)
    (by decide +kernel) (by decide +kernel)).mp hap with ⟨m, hd, hL, _, ha, _, _, e1, e2⟩ | ⟨hn, _⟩
  · cases hD.unique hd
    have hdec : decodeMove Gen.startpos ⟨12, 28, 6⟩ = .normal 12 28 none := by decide +kernel
    rw [hdec] at hL ha
    subst e1 e2
    exact ⟨np, hap, ha, hL⟩
  · exact absurd hD (hn _)

/-- `position startpos moves e2e4 zzz e7e5`: the hypotheses of `C05_rules_tokens` hold. -/
example : ∃ pos' hist' out', applyTokens [str "e2e4", str "zzz", str "e7e5"] Gen.startpos [] [] =
    some (pos', hist', out') ∧ InD pos' = true := by
  obtain ⟨pos', hist', out', h, _, _, _, _, hD⟩ :=
    C05_rules_tokens [str "e2e4", str "zzz", str "e7e5"] Gen.startpos [] [] startpos_inD
      (by decide +kernel) (by decide +kernel)
  exact ⟨pos', hist', out', h, hD⟩

#print axioms C05_rules_token
#print axioms C05_rules_no_panic
#print axioms C05_rules_tokens

end Rawr
