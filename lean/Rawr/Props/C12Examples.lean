import Rawr.Props.C12
/-! C12, kernel-evaluated examples that would make `Rawr/Props/C12.lean` slow: the hypotheses of `C12_depth1`
on a concrete position, and the counterexample to "whatever the transposition table contains". -/
namespace Rawr
open DM
namespace C12Ex

theorem isSome_elim2 {α β : Type} {o : Option (α × β)} (h : o.isSome = true) : ∃ a b, o = some (a, b) := by
  obtain ⟨⟨a, b⟩, h⟩ := Option.isSome_iff_exists.1 h
  exact ⟨a, b, h⟩

/-- … hence those of `C12_depth1` (with `OthersBelowMate` discharged through `C12_others_below_mate`). -/
example : ∃ v st', negamax (.depth 1) 2 kpm ⟨[], tt3, 1, 0, 0, none, 0⟩ (-Gen.INF) Gen.INF 0 1 false = some (v, st') ∧
    v = Gen.MATE_SCORE - 1 ∧ ∃ m, m ∈ legalMoves kpm ∧ IsMating kpm m ∧ st'.best = some m := by
  obtain ⟨v, st', h⟩ := isSome_elim2 (o := negamax (.depth 1) 2 kpm ⟨[], tt3, 1, 0, 0, none, 0⟩ (-Gen.INF) Gen.INF 0 1 false)
    (by decide +kernel)
  have hm := kpm_hyp.mateInOne (by decide) (by decide) (by decide) (.depth 1)
  exact ⟨v, st', h, C12_depth1 (.depth 1) 0 kpm _ _ rfl (show (1 : Int) ≤ 1 by decide) tt3_inv hm.mate hm.mated
    (hm.others 1) v st' h⟩

/-- a three-slot table with an (exact, deep, score 0) entry under the key of the mated child — an entry the
engine itself never writes (a mated node stores nothing) short of a 64-bit key collision. -/
def ttBad : Table TTEntry := ⟨#[default, ⟨0xebb5ea8e70cfb81d#64, ⟨0, 0, 0⟩, 0, 100, 0⟩, default]⟩

/-- "Whatever the transposition table contains" is false for the model: with `ttBad` the mating move, tried
second with a null window, is cut off by the table with score 0, which does not exceed `alpha` (a pawn up after
g6xh7), so there is no re-search; `go depth 1` answers Kf6 with an evaluation of 68, not a mate. -/
theorem C12_any_table_false : ¬ C12_full := by
  intro H
  have h : ((root (.depth 1) 2 kpm [] ttBad).map fun r => r.infos.getLast?.map (·.score)) = some (some 68) := by
    decide +kernel
  obtain ⟨res, hres, hsc⟩ := Option.map_eq_some_iff.1 h
  have := (H 1 2 kpm [] ttBad res (by decide) (by decide) (by decide)
    ⟨⟨46, 54, 6⟩, by decide +kernel, kpmG7, by decide +kernel, kpmG7_mated⟩ (by decide +kernel) hres).2
  rw [hsc] at this
  revert this
  decide

end C12Ex
end Rawr

#print axioms Rawr.C12Ex.C12_any_table_false
