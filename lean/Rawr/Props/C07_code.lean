import Rawr.Props.C07
import Rawr.Props.C07_full
import Rawr.Props.C07_valid
import Rawr.Props.C07Examples
import Rawr.Proofs.RustTextAgree_SetFen
/-!
# C07 on the regenerated code: `R.set_fen` accepts only positions of the domain, and all of them

`Rawr.R.set_fen fuel ar self fen` is regenerated from set_fen.rs on every run (board loop, castling letters,
en-passant and counter fields, the call of the regenerated `R.validate`), for both `u8` arithmetics.
`agree_set_fen ar n self fen : R.set_fen (n + 2) ar self fen = setFen ar self.frc fen` holds for ALL strings, both
arithmetics and every `self` (only its `is_frc` flag matters), with no domain hypothesis; likewise
`agree_from_fen`, `agree_validate`.  So every C07 theorem is an exact transfer (same hypotheses, same conclusion).
`n + 2` is the recursion fuel of the translation (the Rust function calls itself once, for `"startpos"`).
-/
namespace Rawr
open Position Spec FenC FenValid

/-! ## (a) soundness -/

/-- **C07(a) on the code.** For every input string, every `self`, both arithmetics: if the regenerated `set_fen`
accepts, the position satisfies V.1–V.8 (`StructurallyValid`). -/
theorem C07_code_a_sound (ar : Arith) (n : Nat) (self : Position) (s : List Char) (p : Position) :
    R.set_fen (n + 2) ar self s = some p → StructurallyValid p := by
  rw [agree_set_fen]; exact C07a_sound ar self.frc s p

/-- **C07 on the code, domain form**: an accepted string yields a position of the domain `ValidPos` over which C01,
C02, C03, … and the agreement theorems are stated. -/
theorem C07_code_accepted_validPos (ar : Arith) (n : Nat) (self : Position) (s : List Char) (p : Position) :
    R.set_fen (n + 2) ar self s = some p → ValidPos p = true := by
  rw [agree_set_fen]; exact C07_accepted_validPos ar self.frc s p

/-- files of absent rights are the defaults 7, 0, 7, 0, all four files are on the board, `is_frc` is kept. -/
theorem C07_code_accepted_files (ar : Arith) (n : Nat) (self : Position) (s : List Char) (p : Position)
    (h : R.set_fen (n + 2) ar self s = some p) :
    (p.cf0 < 8 ∧ p.cf1 < 8 ∧ p.cf2 < 8 ∧ p.cf3 < 8) ∧ normCf p = p ∧ p.frc = self.frc := by
  rw [agree_set_fen] at h
  exact ⟨setFen_castle_files ar self.frc s p h, setFen_normCf ar self.frc s p h⟩

/-- **C07 on the code, exact range**: the positions the regenerated `set_fen` can return are exactly the positions of
the domain with default files for the absent rights and the `is_frc` flag of `self`. -/
theorem C07_code_accepted_iff (ar : Arith) (n : Nat) (self : Position) (p : Position) :
    (∃ s, R.set_fen (n + 2) ar self s = some p) ↔ (ValidPos p = true ∧ normCf p = p ∧ p.frc = self.frc) := by
  simp only [agree_set_fen]; exact C07_accepted_iff ar self.frc p

/-- the two builds accept the same set of positions (not the same set of strings). -/
theorem C07_code_accepted_range_arith (n : Nat) (self : Position) (p : Position) :
    (∃ s, R.set_fen (n + 2) .wrap self s = some p) ↔ (∃ s, R.set_fen (n + 2) .trap self s = some p) := by
  simp only [agree_set_fen]; exact C07_accepted_range_arith self.frc p

/-- `Position::from_fen` (default position, then `set_fen`). -/
theorem C07_code_from_fen_validPos (ar : Arith) (n : Nat) (s : List Char) (p : Position) :
    R.from_fen (n + 2) ar s = some p → ValidPos p = true := by
  rw [agree_from_fen]; exact C07_accepted_validPos ar false s p

/-- the regenerated `validate` answers `Ok` exactly when its tests pass (the tests spelled out with the regenerated
getters and the regenerated attack query). -/
theorem C07_code_a_validate_iff (p : Position) : R.validate p = none ↔
    ((p.p0 &&& 0xFF000000000000FF#64).isOcc = false ∧ (R.get_white p &&& R.get_black p).isOcc = false ∧
     (p.p0 &&& p.p1).isOcc = false ∧ (p.p0 &&& p.p2).isOcc = false ∧ (p.p0 &&& p.p3).isOcc = false ∧
     (p.p0 &&& p.p4).isOcc = false ∧ (p.p0 &&& p.p5).isOcc = false ∧ (p.p1 &&& p.p2).isOcc = false ∧
     (p.p1 &&& p.p3).isOcc = false ∧ (p.p1 &&& p.p4).isOcc = false ∧ (p.p1 &&& p.p5).isOcc = false ∧
     (p.p2 &&& p.p3).isOcc = false ∧ (p.p2 &&& p.p4).isOcc = false ∧ (p.p2 &&& p.p5).isOcc = false ∧
     (p.p3 &&& p.p4).isOcc = false ∧ (p.p3 &&& p.p5).isOcc = false ∧ (p.p4 &&& p.p5).isOcc = false) ∧
    valEpOk p = true ∧
    (count (R.get_white p &&& p.p5) = 1 ∧ count (R.get_black p &&& p.p5) = 1 ∧ 0 ≤ p.halfmoves ∧ 1 ≤ p.fullmoves) ∧
    ((p.usK = true → rankOf (lsb (p.c0 &&& p.p5)) = 0) ∧ (p.usQ = true → rankOf (lsb (p.c0 &&& p.p5)) = 0) ∧
     (p.themK = true → rankOf (lsb (p.c1 &&& p.p5)) = 7) ∧ (p.themQ = true → rankOf (lsb (p.c1 &&& p.p5)) = 7) ∧
     (p.usK = true → (p.c0 &&& p.p3).isSet (fromCoords p.cf0 0) = true) ∧
     (p.usQ = true → (p.c0 &&& p.p3).isSet (fromCoords p.cf1 0) = true) ∧
     (p.themK = true → (p.c1 &&& p.p3).isSet (fromCoords p.cf2 7) = true) ∧
     (p.themQ = true → (p.c1 &&& p.p3).isSet (fromCoords p.cf3 7) = true)) ∧
    R.is_sq_attacked p (lsb (p.c1 &&& p.p5)) false = false := by
  rw [agree_validate, agree_get_white, agree_get_black, agree_is_sq_attacked]; exact C07a_validate_iff p

/-! ## (b) exactness, (c) completeness -/

/-- **C07(b,c) on the code**, unconditional: every FEN (X-FEN, Shredder, or — when every right's rook is the outermost
— `KQkq` spelling) of a valid absolute position with pieces on the 64 squares only and counters below `2^31` is
accepted by the regenerated `set_fen` in both arithmetics and read to exactly that position. -/
theorem C07_code_c_complete (ar : Arith) (n : Nat) (self : Position) (a : APos) (st : CastleStyle)
    (hV : Spec.Valid a = true) (hboard : ∀ s, 64 ≤ s → a.board s = none)
    (hh : a.half < 2147483648) (hf : a.full < 2147483648) (hst : st = .kqkq → AllOutermost a) :
    R.set_fen (n + 2) ar self (printFen a st) = some (rel a self.frc) := by
  rw [agree_set_fen]; exact C07c_complete ar a self.frc st hV hboard hh hf hst

/-- **C07(b)**: on well-formed input no `u8` operation overflows — the two builds agree. -/
theorem C07_code_b_arith_agree (n : Nat) (self : Position) (a : APos) (st : CastleStyle)
    (hV : Spec.Valid a = true) (hboard : ∀ s, 64 ≤ s → a.board s = none)
    (hh : a.half < 2147483648) (hf : a.full < 2147483648) (hst : st = .kqkq → AllOutermost a) :
    R.set_fen (n + 2) .wrap self (printFen a st) = R.set_fen (n + 2) .trap self (printFen a st) := by
  rw [C07_code_c_complete .wrap n self a st hV hboard hh hf hst,
    C07_code_c_complete .trap n self a st hV hboard hh hf hst]

/-- **C07(b)**: the accepted position denotes exactly the absolute position the string spells out. -/
theorem C07_code_b_exact (ar : Arith) (n : Nat) (self : Position) (a : APos) (st : CastleStyle)
    (hV : Spec.Valid a = true) (hboard : ∀ s, 64 ≤ s → a.board s = none)
    (hh : a.half < 2147483648) (hf : a.full < 2147483648) (hst : st = .kqkq → AllOutermost a) :
    ∃ p, R.set_fen (n + 2) ar self (printFen a st) = some p ∧ abs p = a ∧ p.frc = self.frc ∧ ValidPos p = true := by
  have hchk := C07_bridge _ (validPos_rel a self.frc hV hboard hh hf)
  obtain ⟨p, h1, h2, h3, _⟩ := C07b_exact ar a self.frc st hV hboard hh hf hst hchk
  rw [← agree_set_fen ar n self] at h1
  exact ⟨p, h1, h2, h3, C07_code_accepted_validPos ar n self _ p h1⟩

/-- every FEN of a position of the domain is accepted (both arithmetics) and read back to it. -/
theorem C07_code_c_domain_complete (ar : Arith) (n : Nat) (self : Position) (p : Position) (st : CastleStyle)
    (hfrc : self.frc = p.frc) (hV : ValidPos p = true) (hst : st = .kqkq → AllOutermost (abs p)) :
    R.set_fen (n + 2) ar self (printFen (abs p) st) = some (normCf p) ∧ StructurallyValid (normCf p) := by
  rw [agree_set_fen, hfrc]; exact C07c_domain_complete ar p st hV hst

/-! ## non-vacuity -/

/-- the start FEN through the regenerated parser: accepted, so the built-in start position is in the domain. -/
example : ValidPos Gen.startpos = true :=
  C07_code_accepted_validPos .wrap 0 Gen.startpos startFen Gen.startpos (by decide +kernel)

/-- a Chess960 X-FEN with a file-letter right (`c07vFrcFen` of `Props/C07_valid.lean`), checked build. -/
example : ∃ p, R.set_fen 2 .trap { Gen.startpos with frc := true } c07vFrcFen = some p ∧ ValidPos p = true ∧
    normCf p = p ∧ p.frc = true := by
  have h : (R.set_fen 2 .trap { Gen.startpos with frc := true } c07vFrcFen).isSome = true := by decide +kernel
  obtain ⟨p, hp⟩ := Option.isSome_iff_exists.mp h
  exact ⟨p, hp, C07_code_accepted_validPos _ _ _ _ p hp, (C07_code_accepted_files _ _ _ _ p hp).2⟩

/-- the 320-square board field of `Props/C07.lean`: accepted by the optimised build, trapped by the checked build —
on the regenerated code. -/
example : R.set_fen 2 .wrap Gen.startpos fen320 = some Gen.startpos ∧ R.set_fen 2 .trap Gen.startpos fen320 = none := by
  decide +kernel

/-- completeness on the absolute start position, all three castling styles, both builds. -/
example (ar : Arith) (st : CastleStyle) :
    R.set_fen 2 ar Gen.startpos (printFen (abs Gen.startpos) st) = some (rel (abs Gen.startpos) false) :=
  C07_code_c_complete ar 0 Gen.startpos _ st startA_hyps.1 (absBoard_ge _) startA_hyps.2.1 startA_hyps.2.2.1
    (fun _ => startA_outermost)

end Rawr

#print axioms Rawr.C07_code_a_sound
#print axioms Rawr.C07_code_accepted_validPos
#print axioms Rawr.C07_code_accepted_files
#print axioms Rawr.C07_code_accepted_iff
#print axioms Rawr.C07_code_accepted_range_arith
#print axioms Rawr.C07_code_from_fen_validPos
#print axioms Rawr.C07_code_a_validate_iff
#print axioms Rawr.C07_code_c_complete
#print axioms Rawr.C07_code_b_arith_agree
#print axioms Rawr.C07_code_b_exact
#print axioms Rawr.C07_code_c_domain_complete
