import Rawr.Proofs.RustImpAgree_Eval
import Rawr.Props.C19
import Rawr.Proofs.RustSearchAgree_Rules
/-!
# C19 on the regenerated code: `R.qsearch` is an exact, sound alpha-beta over the capture tree

`Rawr.R.qsearch` is regenerated from search/qsearch.rs on every run (with its ordering function `R.qs_sort`).
`agree_qsearch_rules`: on every position with `ValidPos`, `EpConsistent` and counter room
`halfmoves/fullmoves + fuel + 64 < 2^31` it equals the model's `qsearch`, for every state, window and ply (outside that
domain the ordering code may `unwrap()` a `None`).  The C19 theorems of `Props/C19.lean` hold for the model with no
hypothesis on the position; the `_code` versions carry exactly the domain hypotheses of the agreement as EXTRA
hypotheses; conclusions unchanged.

The reference value `qminimax` (plain recursion without pruning and ordering: stand pat or any capture) is itself
re-declared over the REGENERATED capture generator, successor function and evaluation — `qminimax_code`, over
`R.legal_captures`, `R.makemove · · false`, `R.eval` — and proved equal to the model's (`qminimax_code_eq`, no
hypothesis); likewise `QTreeOk_code` ("the ordering buffer never overflows in the capture tree").
-/
namespace Rawr

/-! ## the reference value over the regenerated functions -/

def qmmFold_code (rec : Position → Option Int) (p : Position) : List Mv → Int → Option Int
  | [], acc => some acc
  | m :: ms, acc =>
    match R.makemove p m false with
    | none => none
    | some np =>
      match rec np with
      | none => none
      | some v => qmmFold_code rec p ms (max acc (-v))

/-- exact minimax value of the capture-only game tree, computed with the regenerated `legal_captures`,
`makemove::<false>` and `eval`. -/
def qminimax_code : Nat → Position → Option Int
  | 0, _ => none
  | f + 1, p => qmmFold_code (qminimax_code f) p (R.legal_captures p) (R.eval p)

theorem qmmFold_code_eq (rec : Position → Option Int) (p : Position) :
    ∀ (ms : List Mv) (acc : Int), qmmFold_code rec p ms acc = qmmFold rec p ms acc
  | [], _ => rfl
  | m :: ms, acc => by
    simp only [qmmFold_code, qmmFold, agree_makemove]
    cases p.makemove m false with
    | none => rfl
    | some np =>
      simp only
      cases rec np with
      | none => rfl
      | some v => exact qmmFold_code_eq rec p ms _

theorem qminimax_code_eq : ∀ (f : Nat) (p : Position), qminimax_code f p = qminimax f p
  | 0, _ => rfl
  | f + 1, p => by
    have ih : qminimax_code f = qminimax f := funext (qminimax_code_eq f)
    simp only [qminimax_code, qminimax, qmmFold_code_eq, ih, agree_legal_captures, agree_eval]

/-- the ordering buffer never overflows in the capture tree, as far as `fuel` reaches (over the regenerated functions). -/
def QTreeOk_code : Nat → Position → Prop
  | 0, _ => True
  | f + 1, p => (R.legal_captures p).length ≤ Gen.orderBufQsearch ∧
      ∀ m ∈ R.legal_captures p, ∀ np, R.makemove p m false = some np → QTreeOk_code f np

theorem QTreeOk_code_iff : ∀ (f : Nat) (p : Position), QTreeOk_code f p ↔ QTreeOk f p
  | 0, _ => Iff.rfl
  | f + 1, p => by
    simp only [QTreeOk_code, QTreeOk, agree_legal_captures, agree_makemove]
    exact and_congr_right fun _ => forall_congr' fun m => forall_congr' fun _ => forall_congr' fun np =>
      forall_congr' fun _ => QTreeOk_code_iff f np

/-! ## soundness -/

/-- **C19 on the code.** Whenever the regenerated `qsearch` returns `r` on a window `α < β` and the exact value `v` of
the capture tree is defined (on any fuel), the three fail-soft clauses hold: exact inside the window, an upper bound
at or below `α`, a lower bound at or above `β`. -/
theorem C19_code_qsearch_sound (fuel : Nat) (p : Position) (hV : ValidPos p = true)
    (hE : Spec.EpConsistent (abs p) = true)
    (hh : p.halfmoves + fuel + 64 < 2147483648) (hf : p.fullmoves + fuel + 64 < 2147483648)
    (st : QState) (α β ply r : Int) (st' : QState)
    (hαβ : α < β) (h : R.qsearch fuel p st α β ply = some (r, st'))
    (fuel' : Nat) (v : Int) (hv : qminimax_code fuel' p = some v) :
    (α < v ∧ v < β → r = v) ∧ (r ≤ α → v ≤ r) ∧ (β ≤ r → r ≤ v) := by
  rw [agree_qsearch_rules fuel p hV hE hh hf] at h
  rw [qminimax_code_eq] at hv
  exact C19_qsearch_sound fuel p st α β ply r st' hαβ h fuel' v hv

/-- the by-result reading: a result strictly inside the window is the exact value. -/
theorem C19_code_qsearch_exact_of_result_inside (fuel : Nat) (p : Position) (hV : ValidPos p = true)
    (hE : Spec.EpConsistent (abs p) = true)
    (hh : p.halfmoves + fuel + 64 < 2147483648) (hf : p.fullmoves + fuel + 64 < 2147483648)
    (st : QState) (α β ply r : Int) (st' : QState)
    (hαβ : α < β) (h : R.qsearch fuel p st α β ply = some (r, st'))
    (fuel' : Nat) (v : Int) (hv : qminimax_code fuel' p = some v) (hr : α < r ∧ r < β) : r = v := by
  rw [agree_qsearch_rules fuel p hV hE hh hf] at h
  rw [qminimax_code_eq] at hv
  exact C19_qsearch_exact_of_result_inside fuel p st α β ply r st' hαβ h fuel' v hv hr

/-- **C19 on the code** (full window `(-INF_QS, INF_QS)`): the result is the exact value. -/
theorem C19_code_full_window (fuel : Nat) (p : Position) (hV : ValidPos p = true)
    (hE : Spec.EpConsistent (abs p) = true)
    (hh : p.halfmoves + fuel + 64 < 2147483648) (hf : p.fullmoves + fuel + 64 < 2147483648)
    (st : QState) (ply r : Int) (st' : QState)
    (h : R.qsearch fuel p st (-Gen.INF_QS) Gen.INF_QS ply = some (r, st'))
    (fuel' : Nat) (v : Int) (hv : qminimax_code fuel' p = some v)
    (hin : -Gen.INF_QS < v ∧ v < Gen.INF_QS) : r = v := by
  rw [agree_qsearch_rules fuel p hV hE hh hf] at h
  rw [qminimax_code_eq] at hv
  exact C19_full_window fuel p st ply r st' h fuel' v hv hin

/-- the same-fuel form holds as soon as the reference is defined on that fuel. -/
theorem C19_code_qsearch_sound_same_fuel (fuel : Nat) (p : Position) (hV : ValidPos p = true)
    (hE : Spec.EpConsistent (abs p) = true)
    (hh : p.halfmoves + fuel + 64 < 2147483648) (hf : p.fullmoves + fuel + 64 < 2147483648)
    (st : QState) (α β ply r : Int) (st' : QState) (hαβ : α < β)
    (h : R.qsearch fuel p st α β ply = some (r, st')) (hdef : (qminimax_code fuel p).isSome) :
    ∃ v, qminimax_code fuel p = some v ∧ (α < v ∧ v < β → r = v) ∧ (r ≤ α → v ≤ r) ∧ (β ≤ r → r ≤ v) := by
  rw [agree_qsearch_rules fuel p hV hE hh hf] at h
  rw [qminimax_code_eq] at hdef ⊢
  exact C19_qsearch_sound_same_fuel fuel p st α β ply r st' hαβ h hdef

/-- **totality + soundness**: if the reference is defined on `fuel` and the ordering buffer never overflows, the
regenerated `qsearch` RETURNS on `fuel`, with the three clauses. -/
theorem C19_code_qsearch_total (fuel : Nat) (p : Position) (hV : ValidPos p = true)
    (hE : Spec.EpConsistent (abs p) = true)
    (hh : p.halfmoves + fuel + 64 < 2147483648) (hf : p.fullmoves + fuel + 64 < 2147483648)
    (st : QState) (α β ply v : Int) (hαβ : α < β)
    (hv : qminimax_code fuel p = some v) (hok : QTreeOk_code fuel p) :
    ∃ r st', R.qsearch fuel p st α β ply = some (r, st') ∧
      (α < v ∧ v < β → r = v) ∧ (r ≤ α → v ≤ r) ∧ (β ≤ r → r ≤ v) := by
  rw [agree_qsearch_rules fuel p hV hE hh hf]
  rw [qminimax_code_eq] at hv
  exact C19_qsearch_total fuel p st α β ply v hαβ hv ((QTreeOk_code_iff fuel p).mp hok)

/-! ## side facts -/

/-- the exact value is at least the static evaluation, and does not depend on the fuel once defined. -/
theorem C19_code_qminimax_facts (f f' : Nat) (p : Position) (v : Int) (h : qminimax_code f p = some v) :
    R.eval p ≤ v ∧ (f ≤ f' → qminimax_code f' p = some v) ∧ ∀ v', qminimax_code f' p = some v' → v = v' := by
  simp only [qminimax_code_eq, agree_eval] at h ⊢
  exact ⟨qminimax_ge_eval f p v h, fun hle => qminimax_mono f f' p v hle h, fun v' h' => qminimax_unique f f' p v v' h h'⟩

/-- the regenerated `qsearch` never decreases `seldepth` nor `nodes`. -/
theorem C19_code_qsearch_counters_mono (fuel : Nat) (p : Position) (hV : ValidPos p = true)
    (hE : Spec.EpConsistent (abs p) = true)
    (hh : p.halfmoves + fuel + 64 < 2147483648) (hf : p.fullmoves + fuel + 64 < 2147483648)
    (st : QState) (α β ply r : Int) (st' : QState) (h : R.qsearch fuel p st α β ply = some (r, st')) :
    st.seldepth ≤ st'.seldepth ∧ st.nodes ≤ st'.nodes := by
  rw [agree_qsearch_rules fuel p hV hE hh hf] at h
  exact C19_qsearch_counters_mono fuel p st α β ply r st' h

/-- the score does not depend on the incoming counters nor on the ply. -/
theorem C19_code_qsearch_score_indep (fuel : Nat) (p : Position) (hV : ValidPos p = true)
    (hE : Spec.EpConsistent (abs p) = true)
    (hh : p.halfmoves + fuel + 64 < 2147483648) (hf : p.fullmoves + fuel + 64 < 2147483648)
    (st₁ st₂ : QState) (α β ply₁ ply₂ : Int) :
    (R.qsearch fuel p st₁ α β ply₁).map Prod.fst = (R.qsearch fuel p st₂ α β ply₂).map Prod.fst := by
  rw [agree_qsearch_rules fuel p hV hE hh hf, agree_qsearch_rules fuel p hV hE hh hf]
  exact C19_qsearch_score_indep fuel p st₁ st₂ α β ply₁ ply₂

/-! ## non-vacuity, and the false same-fuel form on the code -/

theorem posE4D5_dom : ValidPos posE4D5 = true ∧ Spec.EpConsistent (abs posE4D5) = true ∧
    ValidPos posExd5 = true ∧ Spec.EpConsistent (abs posExd5) = true := by decide +kernel

/-- after 1.e4 d5 2.exd5 (static evaluation −109, exact value 28): the regenerated `qsearch` with a window containing
the value returns it — through the theorem. -/
example : ∃ r st', R.qsearch 2 posExd5 ⟨0, 0⟩ (-100) 100 0 = some (r, st') ∧
    qminimax_code 2 posExd5 = some 28 ∧ R.eval posExd5 = -109 ∧ r = 28 := by
  obtain ⟨r, st', h⟩ := isSome_elim (R.qsearch 2 posExd5 ⟨0, 0⟩ (-100) 100 0) (by decide +kernel)
  have hv : qminimax_code 2 posExd5 = some 28 := by rw [qminimax_code_eq]; exact posExd5_qminimax
  exact ⟨r, st', h, hv, by rw [agree_eval]; exact posExd5_eval,
    (C19_code_qsearch_sound 2 posExd5 posE4D5_dom.2.2.1 posE4D5_dom.2.2.2 (by decide) (by decide) ⟨0, 0⟩ (-100) 100 0
      r st' (by decide) h 2 28 hv).1 (by decide)⟩

/-- full window on a three-ply capture tree (1.e4 d5: exd5 Qxd5 and no further capture). -/
example : ∃ r st', R.qsearch 3 posE4D5 ⟨0, 0⟩ (-Gen.INF_QS) Gen.INF_QS 0 = some (r, st') ∧ r = -21 := by
  have hv : qminimax_code 3 posE4D5 = some (-21) := by decide +kernel
  obtain ⟨r, st', h⟩ := isSome_elim (R.qsearch 3 posE4D5 ⟨0, 0⟩ (-Gen.INF_QS) Gen.INF_QS 0) (by decide +kernel)
  exact ⟨r, st', h, C19_code_full_window 3 posE4D5 posE4D5_dom.1 posE4D5_dom.2.1 (by decide) (by decide) ⟨0, 0⟩ 0 r st'
    h 3 (-21) hv (by decide)⟩

/-- the same-fuel existence claim is false on the code as well: with the window `(eval p − 1, eval p)` the stand-pat
cut-off makes the regenerated `qsearch 1` return at once on a valid position, while the unpruned reference needs more
fuel for the capture exd5. -/
theorem C19_code_qsearch_sound_full_false :
    ¬ (∀ (fuel : Nat) (p : Position) (st : QState) (α β ply r : Int) (st' : QState),
        ValidPos p = true → Spec.EpConsistent (abs p) = true →
        p.halfmoves + fuel + 64 < 2147483648 → p.fullmoves + fuel + 64 < 2147483648 → α < β →
        R.qsearch fuel p st α β ply = some (r, st') →
        ∃ v, qminimax_code fuel p = some v ∧ (α < v ∧ v < β → r = v) ∧ (r ≤ α → v ≤ r) ∧ (β ≤ r → r ≤ v)) := by
  intro H
  obtain ⟨r, st', h⟩ := isSome_elim (R.qsearch 1 posE4D5 ⟨0, 0⟩ (R.eval posE4D5 - 1) (R.eval posE4D5) 0)
    (by decide +kernel)
  obtain ⟨v, hv, _⟩ := H 1 posE4D5 ⟨0, 0⟩ _ _ 0 r st' posE4D5_dom.1 posE4D5_dom.2.1 (by decide) (by decide)
    (by omega) h
  have hn : qminimax_code 1 posE4D5 = none := by decide +kernel
  rw [hn] at hv
  cases hv

end Rawr

#print axioms Rawr.qminimax_code_eq
#print axioms Rawr.QTreeOk_code_iff
#print axioms Rawr.C19_code_qsearch_sound
#print axioms Rawr.C19_code_qsearch_exact_of_result_inside
#print axioms Rawr.C19_code_full_window
#print axioms Rawr.C19_code_qsearch_sound_same_fuel
#print axioms Rawr.C19_code_qsearch_total
#print axioms Rawr.C19_code_qminimax_facts
#print axioms Rawr.C19_code_qsearch_counters_mono
#print axioms Rawr.C19_code_qsearch_score_indep
#print axioms Rawr.C19_code_qsearch_sound_full_false
