import Rawr.Props.C11_rules
import Rawr.Props.C03_code
/-!
# C11 on the regenerated code: every move leads to a rule draw ⇒ `R.root` reports the draw score and a legal move

`Props/C11_rules.lean` proves C11 for the model's `root` / `negamax` on roots of `V ∧ E`.  Here the statements are
about the regenerated driver `R.root clock p hist tt (.Depth D) fuel` (root.rs, `go depth D`) and the regenerated
`R.negamax`, through `agree_root_rules` / `agree_negamax_rules` (`root_code_model`, `negamax_code_model` of
`Props/C03_code.lean`).

* The theorems about `root` already carry `ValidPos`, `EpConsistent` and the counter room `+ (fuel + 2) + 64` for the
  fuel `fuel + 2` they are stated for — exactly the domain hypotheses of `agree_root_rules`: exact transfers.
  (`toLimit clock p (.Depth D) = some (.depth D)` holds by `rfl`.)
* The hypotheses on the children are stated with `R.legal_moves`, `R.makemove`; `NoChildHit p tt` ("no table entry
  under a child's key") is spelled out with `R.tt_poll`.  `OccurredBefore hist c` is the index form of the repetition
  window (a predicate on the history list, no engine function involved).
* Conclusions about the printed records: the model's `InfoRec` is `infoToModel` of the Rust `Info` (`Option` fields read
  with `getD 0`; root.rs always fills them), so "record of depth `d`" reads `i.depth.getD 0 = d`, its score
  `i.score.getD 0`.  The `Result` is stated as `r.1 = .ok m`.
* `C11_code_root_all_children_drawn` (the total form for one root call of `negamax`): the model theorem needs only
  `ValidPos`; the agreement adds `EpConsistent` and the counter room (EXTRA hypotheses `hE`, `hh`, `hfm`).
-/
namespace Rawr
open Position Spec ZH MM SV Br Att DM RulesLevel

/-- `NoChildHit` spelled out over the regenerated functions. -/
theorem noChildHit_code {p : Position} {tt : Table TTEntry}
    (hT : ∀ m ∈ R.legal_moves p, ∀ c, R.makemove p m true = some c →
      (R.tt_poll tt c.hash.toNat).map (·.hash) ≠ some c.hash) : NoChildHit p tt := by
  simp only [agree_legal_moves, agree_makemove, Table.agree_tt_poll] at hT
  exact hT

/-- **C11.4 on the code.** `go depth D`, `2 ≤ D < MAX_DEPTH`, on a root of `V ∧ E` that has a legal move, every child of
which (as generated and made by the regenerated code) is drawn by the fifty-move rule or has occurred before in
`hist`, no child with the root's key, no table entry under a child's key: if the regenerated driver returns, its
`Result` is `Ok` of a generated move, there is exactly one info record per depth `1 … D`, and every record of depth
≥ 2 carries the score `-DRAW_SCORE`. -/
theorem C11_code_iterations (clock : Nat → Nat) (D : Int) (hD2 : 2 ≤ D) (hD : D < Gen.MAX_DEPTH) (fuel : Nat)
    (p : Position) (hV : ValidPos p = true) (hE : Spec.EpConsistent (abs p) = true)
    (hh : p.halfmoves + (fuel + 2) + 64 < 2147483648) (hfm : p.fullmoves + (fuel + 2) + 64 < 2147483648)
    (hist : List BB) (tt : Table TTEntry)
    (hne : Spec.legalMoves (abs p) ≠ [])
    (hdrawn : ∀ m ∈ R.legal_moves p, ∀ c, R.makemove p m true = some c →
      c.halfmoves ≥ 100 ∨ OccurredBefore hist c)
    (hkey : ∀ m ∈ R.legal_moves p, ∀ c, R.makemove p m true = some c → c.hash ≠ p.hash)
    (hT : ∀ m ∈ R.legal_moves p, ∀ c, R.makemove p m true = some c →
      (R.tt_poll tt c.hash.toNat).map (·.hash) ≠ some c.hash)
    (r : Except String Mv × List BB × Table TTEntry × List R.Info)
    (h : R.root clock p hist tt (.Depth D) (fuel + 2) = some r) :
    (∃ m ∈ R.legal_moves p, r.1 = .ok m) ∧
    r.2.2.2.map (fun i => i.depth.getD 0) = (List.range D.toNat).map (fun i : Nat => (i : Int) + 1) ∧
    ∀ i ∈ r.2.2.2, 2 ≤ i.depth.getD 0 → i.score.getD 0 = -Gen.DRAW_SCORE := by
  have hT' := noChildHit_code hT
  rw [agree_legal_moves, agree_makemove] at hdrawn hkey
  obtain ⟨⟨m, hm, e⟩, h2, h3⟩ := C11_iterations_rules D hD2 hD fuel p hV hE hh hfm hist tt hne hdrawn hkey hT'
    (rootResultOf r) (root_code_model (lim := .depth D) rfl hV hE hh hfm h)
  refine ⟨⟨m, by rw [agree_legal_moves]; exact hm, toOption_eq_some_iff.mp e⟩, ?_, fun i hi => h3 _ (mem_infos_code hi)⟩
  rw [← h2]
  simp only [rootResultOf, List.map_map]
  rfl

/-- the move handed back is legal by the rules, and the counts in the words of the property. -/
theorem C11_code_iterations_count (clock : Nat → Nat) (D : Int) (hD2 : 2 ≤ D) (hD : D < Gen.MAX_DEPTH) (fuel : Nat)
    (p : Position) (hV : ValidPos p = true) (hE : Spec.EpConsistent (abs p) = true)
    (hh : p.halfmoves + (fuel + 2) + 64 < 2147483648) (hfm : p.fullmoves + (fuel + 2) + 64 < 2147483648)
    (hist : List BB) (tt : Table TTEntry)
    (hne : Spec.legalMoves (abs p) ≠ [])
    (hdrawn : ∀ m ∈ R.legal_moves p, ∀ c, R.makemove p m true = some c →
      c.halfmoves ≥ 100 ∨ OccurredBefore hist c)
    (hkey : ∀ m ∈ R.legal_moves p, ∀ c, R.makemove p m true = some c → c.hash ≠ p.hash)
    (hT : ∀ m ∈ R.legal_moves p, ∀ c, R.makemove p m true = some c →
      (R.tt_poll tt c.hash.toNat).map (·.hash) ≠ some c.hash)
    (r : Except String Mv × List BB × Table TTEntry × List R.Info)
    (h : R.root clock p hist tt (.Depth D) (fuel + 2) = some r) :
    r.2.2.2.length = D.toNat ∧
    (∀ d : Int, 2 ≤ d → d ≤ D → ∃ i ∈ r.2.2.2, i.depth.getD 0 = d ∧ i.score.getD 0 = -Gen.DRAW_SCORE) ∧
    ∃ m, r.1 = .ok m ∧ decodeMove p m ∈ Spec.legalMoves (abs p) := by
  have hT' := noChildHit_code hT
  rw [agree_legal_moves, agree_makemove] at hdrawn hkey
  obtain ⟨h1, h2, m, e, hL⟩ := C11_iterations_count_rules D hD2 hD fuel p hV hE hh hfm hist tt hne hdrawn hkey hT'
    (rootResultOf r) (root_code_model (lim := .depth D) rfl hV hE hh hfm h)
  refine ⟨by simpa [rootResultOf] using h1, fun d hd2 hdD => ?_, m, toOption_eq_some_iff.mp e, hL⟩
  obtain ⟨ir, hir, e1, e2⟩ := h2 d hd2 hdD
  obtain ⟨i, hi, rfl⟩ := List.mem_map.mp hir
  exact ⟨i, hi, e1, e2⟩

/-- C11.4 on the code for a table freshly allocated by the regenerated `tt_new` (any size, also zero slots): the
table hypothesis becomes "no child has key 0". -/
theorem C11_code_iterations_new_table (clock : Nat → Nat) (D : Int) (hD2 : 2 ≤ D) (hD : D < Gen.MAX_DEPTH)
    (fuel : Nat) (p : Position) (hV : ValidPos p = true) (hE : Spec.EpConsistent (abs p) = true)
    (hh : p.halfmoves + (fuel + 2) + 64 < 2147483648) (hfm : p.fullmoves + (fuel + 2) + 64 < 2147483648)
    (hist : List BB) (mb : Nat) (tt : Table TTEntry) (htt : R.tt_new mb Gen.ttEntrySize = some tt)
    (hne : Spec.legalMoves (abs p) ≠ [])
    (hdrawn : ∀ m ∈ R.legal_moves p, ∀ c, R.makemove p m true = some c →
      c.halfmoves ≥ 100 ∨ OccurredBefore hist c)
    (hkey : ∀ m ∈ R.legal_moves p, ∀ c, R.makemove p m true = some c → c.hash ≠ p.hash ∧ c.hash ≠ 0#64)
    (r : Except String Mv × List BB × Table TTEntry × List R.Info)
    (h : R.root clock p hist tt (.Depth D) (fuel + 2) = some r) :
    (∃ m ∈ R.legal_moves p, r.1 = .ok m) ∧
    r.2.2.2.map (fun i => i.depth.getD 0) = (List.range D.toNat).map (fun i : Nat => (i : Int) + 1) ∧
    ∀ i ∈ r.2.2.2, 2 ≤ i.depth.getD 0 → i.score.getD 0 = -Gen.DRAW_SCORE := by
  rw [Table.agree_tt_new mb Gen.ttEntrySize (by decide)] at htt
  cases htt
  refine C11_code_iterations clock D hD2 hD fuel p hV hE hh hfm hist _ hne hdrawn
    (fun m hm c hc => (hkey m hm c hc).1) ?_ r h
  have := NoChildHit_new p mb (fun m hm c hc => (hkey m (by rw [agree_legal_moves]; exact hm) c
    (by rw [agree_makemove]; exact hc)).2)
  intro m hm c hc
  rw [Table.agree_tt_poll]
  rw [agree_legal_moves] at hm; rw [agree_makemove] at hc
  exact this m hm c hc

/-- **C11.3 on the code** (total form: the root call of the regenerated `negamax` in an iteration of depth ≥ 2 RETURNS
`-DRAW_SCORE` with a generated move recorded, history untouched).  The stop closure is the one root.rs builds for
`go depth D`. -/
theorem C11_code_root_all_children_drawn (clock : Nat → Nat) (p0 : Position) (D : Int) (fuel : Nat) (p : Position)
    (st : SState) (depth : Int)
    (hV : ValidPos p = true) (hE : Spec.EpConsistent (abs p) = true)
    (hh : p.halfmoves + (fuel + 2) + 64 < 2147483648) (hfm : p.fullmoves + (fuel + 2) + 64 < 2147483648)
    (hdepth : 2 ≤ depth) (hD : st.depth ≤ D)
    (hlen : (R.legal_moves p).length ≤ Gen.orderBufNegamax)
    (hne : R.legal_moves p ≠ [])
    (hdrawn : ∀ m ∈ R.legal_moves p, ∀ c, R.makemove p m true = some c →
      c.halfmoves ≥ 100 ∨ OccurredBefore st.hist c)
    (hT : ∀ m ∈ R.legal_moves p, ∀ c, R.makemove p m true = some c →
      (R.tt_poll st.tt c.hash.toNat).map (·.hash) ≠ some c.hash) :
    ∃ m₀ st', m₀ ∈ R.legal_moves p ∧
      R.negamax (R.root_should_stop p0 (.Depth D) clock) (fuel + 2) p st (-Gen.INF) Gen.INF 0 depth false =
        some (-Gen.DRAW_SCORE, st') ∧
      st'.best = some m₀ ∧ st'.hist = st.hist := by
  have hT' := noChildHit_code hT
  rw [agree_legal_moves] at hlen hne
  rw [agree_legal_moves, agree_makemove] at hdrawn
  rw [negamax_code_model (lim := .depth D) rfl (fuel + 2) p hV hE hh hfm, agree_legal_moves]
  exact C11_root_all_children_drawn_rules D fuel p st depth hV hdepth hD hlen hne hdrawn hT'

/-! ## non-vacuity -/
namespace C11CodeEx
open C11Ex C11RulesEx

/-- `kk99V` of `Props/C11_rules.lean` (bare kings, clock 99: every move reaches clock 100), `go depth 3`, empty
history, three-slot table: the regenerated driver returns and — through the theorem — reports three records, the draw
score 50 in the last two, and `Ok` of a generated move. -/
example : ∃ r, R.root (fun _ => 0) kk99V [] tt3 (.Depth 3) 2 = some r ∧
    (∃ m ∈ R.legal_moves kk99V, r.1 = .ok m) ∧ r.2.2.2.map (fun i => i.depth.getD 0) = [1, 2, 3] ∧
    ∀ i ∈ r.2.2.2, 2 ≤ i.depth.getD 0 → i.score.getD 0 = 50 := by
  have h : (R.root (fun _ => 0) kk99V [] tt3 (.Depth 3) 2).isSome = true := by decide +kernel
  obtain ⟨r, h1⟩ := Option.isSome_iff_exists.1 h
  have hch : ∀ m ∈ R.legal_moves kk99V, ∀ c, R.makemove kk99V m true = some c →
      c.halfmoves ≥ 100 ∧ c.hash ≠ kk99V.hash ∧ (R.tt_poll tt3 c.hash.toNat).map (·.hash) ≠ some c.hash := by
    decide +kernel
  exact ⟨r, h1, C11_code_iterations (fun _ => 0) 3 (by decide) (by decide) 0 kk99V kk99V_valid kk99V_E
    (by decide +kernel) (by decide +kernel) [] tt3 (by decide +kernel)
    (fun m hm c hc => Or.inl (hch m hm c hc).1) (fun m hm c hc => (hch m hm c hc).2.1)
    (fun m hm c hc => (hch m hm c hc).2.2) r h1⟩

end C11CodeEx

end Rawr

#print axioms Rawr.C11_code_iterations
#print axioms Rawr.C11_code_iterations_count
#print axioms Rawr.C11_code_iterations_new_table
#print axioms Rawr.C11_code_root_all_children_drawn
