import Rawr.Props.C14_rules
import Rawr.Props.C14_time
import Rawr.Props.C03_code
/-!
# C14 on the regenerated code: `R.root` respects its limits

The C14 theorems (`Props/C14.lean`, `Props/C14_rules.lean`, `Props/C14_time.lean`) restated for the regenerated driver
`R.root clock p hist tt s fuel` (root.rs) with the Rust `settings::Type` `s`, and for the regenerated `R.negamax`, through
`agree_root_rules` / `agree_negamax_rules`.

* The `_rules` theorems already carry `ValidPos`, `EpConsistent` and the counter room `+ fuel + 64` of the agreement:
  exact transfers (`C14_code_scores_inside_mate_bounds`, `C14_code_negamax_inside_mate_bounds`,
  `C14_code_root_preserves_TTSane`, `C14_code_depth_{general,iterations,cap,zero}`, `C14_code_InD`).
* The theorems of `Props/C14.lean` that hold for the model with NO hypothesis on the position
  (`C14_depths_consecutive`, `C14_best_is_pv_head`, `C14_pv_length`, `C14_nodes_rule`, `C14_depth_nothing_deeper`,
  `C14_expired_clock`) get the domain hypotheses of the agreement as EXTRA hypotheses.
* Clock limits: `R.timeBudget` / `R.movetimeBudget` are regenerated from the two clock comparisons of root.rs
  (`agree_timeBudget`, `agree_movetimeBudget`, `rfl`); the `should_stop` closure inside `R.root` is regenerated too, and
  `toLimit clock p (.Time wt bt _ _ mtg)` is the oracle `budgetOracle (timeBudget (side to move is White) wt bt mtg) clock`
  (`toLimit_time`).  `C14_code_budget_le_clock`, `C14_code_budget_u32`, `C14_code_expired_time`, `C14_code_zero_budget`,
  `C14_code_zero_movetime`.
  NOT transferred: `C14_no_report_after_budget`, `C14_reported_within_clock` — they are statements about the iteration
  loop `rootIter` started in the MIDDLE (arbitrary iteration, state and record list); the agreement for the regenerated
  loop `R.root_loop1` (`root_loop_eq`, `Proofs/RustSearchAgree_Root.lean`) is stated only for the loop as `R.root` enters
  it and up to `postLoop`, not as a public theorem for arbitrary entry states.  The closest true statement on the code
  is `C14_code_expired_time` (the clock has reached the budget at the first poll ⇒ at most the first iteration is
  reported).
* `TTSane tt` / `TTBounded tt` (every stored score strictly inside `±MATE_SCORE` / `±INF`) are predicates on the table's
  entries, no engine function involved.  Records are read through `infoToModel` (`depth.getD 0`, `score.getD 0`, …).
-/
namespace Rawr
open Position Spec ZH MM SV Br Att RulesLevel

/-! ## scores -/

/-- **C14.7 on the code**: every score the regenerated driver reports lies strictly inside the mate bounds. -/
theorem C14_code_scores_inside_mate_bounds (clock : Nat → Nat) (s : R.Settings) (lim : Limit) (fuel : Nat)
    (p : Position) (hist : List BB) (tt : Table TTEntry)
    (r : Except String Mv × List BB × Table TTEntry × List R.Info)
    (hlim : toLimit clock p s = some lim)
    (hV : ValidPos p = true) (hE : Spec.EpConsistent (abs p) = true)
    (hh : p.halfmoves + fuel + 64 < 2147483648) (hfm : p.fullmoves + fuel + 64 < 2147483648)
    (htt : TTSane tt) (hf : (fuel : Int) ≤ 2 * Gen.MATE_SCORE)
    (h : R.root clock p hist tt s fuel = some r) :
    ∀ i ∈ r.2.2.2, -Gen.MATE_SCORE < i.score.getD 0 ∧ i.score.getD 0 < Gen.MATE_SCORE :=
  fun _ hi => C14_scores_inside_mate_bounds_rules lim fuel p hist tt (rootResultOf r) hV hE hh hfm htt hf
    (root_code_model hlim hV hE hh hfm h) _ (mem_infos_code hi)

/-- every interior node (`ply ≥ 1`) of the regenerated `negamax` on a position of `V ∧ E` answers strictly inside the
mate bounds, and the table stays sane. -/
theorem C14_code_negamax_inside_mate_bounds (clock : Nat → Nat) (p0 : Position) (s : R.Settings) (lim : Limit)
    (hlim : toLimit clock p0 s = some lim) (fuel : Nat) (p : Position) (st : SState)
    (α β ply depth : Int) (cn : Bool) (v : Int) (st' : SState)
    (hV : ValidPos p = true) (hE : Spec.EpConsistent (abs p) = true)
    (hh : p.halfmoves + fuel + 64 < 2147483648) (hfm : p.fullmoves + fuel + 64 < 2147483648)
    (htt : TTSane st.tt) (hply : 1 ≤ ply) (hbound : ply + fuel ≤ 2 * Gen.MATE_SCORE)
    (h : R.negamax (R.root_should_stop p0 s clock) fuel p st α β ply depth cn = some (v, st')) :
    (-Gen.MATE_SCORE < v ∧ v < Gen.MATE_SCORE) ∧ TTSane st'.tt := by
  rw [negamax_code_model hlim fuel p hV hE hh hfm] at h
  exact C14_negamax_inside_mate_bounds_rules lim fuel p st α β ply depth cn v st' hV hE hh hfm htt hply hbound h

/-- the table the regenerated driver hands back is sane again. -/
theorem C14_code_root_preserves_TTSane (clock : Nat → Nat) (s : R.Settings) (lim : Limit) (fuel : Nat)
    (p : Position) (hist : List BB) (tt : Table TTEntry)
    (r : Except String Mv × List BB × Table TTEntry × List R.Info)
    (hlim : toLimit clock p s = some lim)
    (hV : ValidPos p = true) (hE : Spec.EpConsistent (abs p) = true)
    (hh : p.halfmoves + fuel + 64 < 2147483648) (hfm : p.fullmoves + fuel + 64 < 2147483648)
    (htt : TTSane tt) (hf : (fuel : Int) ≤ 2 * Gen.MATE_SCORE)
    (h : R.root clock p hist tt s fuel = some r) : TTSane r.2.2.1 :=
  C14_root_preserves_TTSane_rules lim fuel p hist tt (rootResultOf r) hV hE hh hfm htt hf
    (root_code_model hlim hV hE hh hfm h)

/-- everything at once for a root of `D = V ∧ E ∧ M`, an all-default table of any size and any search setting. -/
theorem C14_code_InD (clock : Nat → Nat) (s : R.Settings) (lim : Limit) (fuel : Nat) (p : Position) (hist : List BB)
    (n : Nat) (r : Except String Mv × List BB × Table TTEntry × List R.Info)
    (hlim : toLimit clock p s = some lim) (hD : InD p = true)
    (hh : p.halfmoves + fuel + 64 < 2147483648) (hfm : p.fullmoves + fuel + 64 < 2147483648)
    (hf : (fuel : Int) ≤ 2 * Gen.MATE_SCORE)
    (h : R.root clock p hist ⟨Array.replicate n default⟩ s fuel = some r) :
    (∀ i ∈ r.2.2.2, -Gen.MATE_SCORE < i.score.getD 0 ∧ i.score.getD 0 < Gen.MATE_SCORE) ∧ TTSane r.2.2.1 := by
  obtain ⟨hV, hE, _⟩ := (inD_iff p).mp hD
  obtain ⟨h1, h2⟩ := C14_rules_InD lim fuel p hist n (rootResultOf r) hD hh hfm hf (root_code_model hlim hV hE hh hfm h)
  exact ⟨fun i hi => h1 _ (mem_infos_code hi), h2⟩

/-! ## depth limits -/

theorem infos_depth_code (r : Except String Mv × List BB × Table TTEntry × List R.Info) :
    (rootResultOf r).infos.map (·.depth) = r.2.2.2.map (fun i => i.depth.getD 0) := by
  simp only [rootResultOf, List.map_map]; rfl

/-- **C14.4 on the code**: `go depth D` reports exactly the iterations `1 … max 1 (min D 127)`, on every root of
`V ∧ E` that has a legal move by the rules. -/
theorem C14_code_depth_general (clock : Nat → Nat) (D : Int) (fuel : Nat) (p : Position) (hist : List BB)
    (tt : Table TTEntry) (r : Except String Mv × List BB × Table TTEntry × List R.Info)
    (hV : ValidPos p = true) (hE : Spec.EpConsistent (abs p) = true)
    (hh : p.halfmoves + fuel + 64 < 2147483648) (hfm : p.fullmoves + fuel + 64 < 2147483648)
    (htt : TTBounded tt) (hf : (fuel : Int) ≤ Gen.INF + Gen.MATE_SCORE)
    (hlegal : Spec.legalMoves (abs p) ≠ []) (h : R.root clock p hist tt (.Depth D) fuel = some r) :
    r.2.2.2.map (fun i => i.depth.getD 0) = (List.range' 1 (depthTarget D).toNat).map Int.ofNat := by
  rw [← infos_depth_code]
  exact C14_depth_general_rules D fuel p hist tt (rootResultOf r) hV hE hh hfm htt hf hlegal
    (root_code_model (lim := .depth D) rfl hV hE hh hfm h)

/-- depth limit `1 ≤ D < MAX_DEPTH`: the iterations `1, …, D` are reported in order and nothing deeper. -/
theorem C14_code_depth_iterations (clock : Nat → Nat) (D : Int) (hD1 : 1 ≤ D) (hD2 : D < Gen.MAX_DEPTH)
    (fuel : Nat) (p : Position) (hist : List BB) (tt : Table TTEntry)
    (r : Except String Mv × List BB × Table TTEntry × List R.Info)
    (hV : ValidPos p = true) (hE : Spec.EpConsistent (abs p) = true)
    (hh : p.halfmoves + fuel + 64 < 2147483648) (hfm : p.fullmoves + fuel + 64 < 2147483648)
    (htt : TTBounded tt) (hf : (fuel : Int) ≤ Gen.INF + Gen.MATE_SCORE)
    (hlegal : Spec.legalMoves (abs p) ≠ []) (h : R.root clock p hist tt (.Depth D) fuel = some r) :
    r.2.2.2.map (fun i => i.depth.getD 0) = (List.range' 1 D.toNat).map Int.ofNat := by
  rw [← infos_depth_code]
  exact C14_depth_iterations_rules D hD1 hD2 fuel p hist tt (rootResultOf r) hV hE hh hfm htt hf hlegal
    (root_code_model (lim := .depth D) rfl hV hE hh hfm h)

/-- finding F10 on the code: a depth limit `D ≥ MAX_DEPTH = 128` is capped at 127 iterations. -/
theorem C14_code_depth_cap (clock : Nat → Nat) (D : Int) (hD : Gen.MAX_DEPTH ≤ D)
    (fuel : Nat) (p : Position) (hist : List BB) (tt : Table TTEntry)
    (r : Except String Mv × List BB × Table TTEntry × List R.Info)
    (hV : ValidPos p = true) (hE : Spec.EpConsistent (abs p) = true)
    (hh : p.halfmoves + fuel + 64 < 2147483648) (hfm : p.fullmoves + fuel + 64 < 2147483648)
    (htt : TTBounded tt) (hf : (fuel : Int) ≤ Gen.INF + Gen.MATE_SCORE)
    (hlegal : Spec.legalMoves (abs p) ≠ []) (h : R.root clock p hist tt (.Depth D) fuel = some r) :
    r.2.2.2.map (fun i => i.depth.getD 0) = (List.range' 1 127).map Int.ofNat := by
  rw [← infos_depth_code]
  exact C14_depth_cap_rules D hD fuel p hist tt (rootResultOf r) hV hE hh hfm htt hf hlegal
    (root_code_model (lim := .depth D) rfl hV hE hh hfm h)

/-- `go depth 0` (and below): the first iteration is reported all the same. -/
theorem C14_code_depth_zero (clock : Nat → Nat) (D : Int) (hD : D ≤ 1)
    (fuel : Nat) (p : Position) (hist : List BB) (tt : Table TTEntry)
    (r : Except String Mv × List BB × Table TTEntry × List R.Info)
    (hV : ValidPos p = true) (hE : Spec.EpConsistent (abs p) = true)
    (hh : p.halfmoves + fuel + 64 < 2147483648) (hfm : p.fullmoves + fuel + 64 < 2147483648)
    (htt : TTBounded tt) (hf : (fuel : Int) ≤ Gen.INF + Gen.MATE_SCORE)
    (hlegal : Spec.legalMoves (abs p) ≠ []) (h : R.root clock p hist tt (.Depth D) fuel = some r) :
    r.2.2.2.map (fun i => i.depth.getD 0) = [1] := by
  rw [← infos_depth_code]
  exact C14_depth_zero_rules D hD fuel p hist tt (rootResultOf r) hV hE hh hfm htt hf hlegal
    (root_code_model (lim := .depth D) rfl hV hE hh hfm h)

/-- nothing deeper than the limit is ever reported (every table, history, fuel). -/
theorem C14_code_depth_nothing_deeper (clock : Nat → Nat) (D : Int) (fuel : Nat) (p : Position) (hist : List BB)
    (tt : Table TTEntry) (r : Except String Mv × List BB × Table TTEntry × List R.Info)
    (hV : ValidPos p = true) (hE : Spec.EpConsistent (abs p) = true)
    (hh : p.halfmoves + fuel + 64 < 2147483648) (hfm : p.fullmoves + fuel + 64 < 2147483648)
    (h : R.root clock p hist tt (.Depth D) fuel = some r) :
    ∀ i ∈ r.2.2.2, i.depth.getD 0 ≤ max D 1 :=
  fun _ hi => C14_depth_nothing_deeper D fuel p hist tt (rootResultOf r)
    (root_code_model (lim := .depth D) rfl hV hE hh hfm h) _ (mem_infos_code hi)

/-! ## every setting: consecutive depths, best move = head of the last principal variation -/

theorem C14_code_depths_consecutive (clock : Nat → Nat) (s : R.Settings) (lim : Limit) (fuel : Nat) (p : Position)
    (hist : List BB) (tt : Table TTEntry) (r : Except String Mv × List BB × Table TTEntry × List R.Info)
    (hlim : toLimit clock p s = some lim) (hV : ValidPos p = true) (hE : Spec.EpConsistent (abs p) = true)
    (hh : p.halfmoves + fuel + 64 < 2147483648) (hfm : p.fullmoves + fuel + 64 < 2147483648)
    (h : R.root clock p hist tt s fuel = some r) :
    r.2.2.2.map (fun i => i.depth.getD 0) = (List.range' 1 r.2.2.2.length).map Int.ofNat := by
  have := C14_depths_consecutive lim fuel p hist tt (rootResultOf r) (root_code_model hlim hV hE hh hfm h)
  rw [infos_depth_code] at this
  simpa [rootResultOf] using this

/-- the move in the `Result` is the head of the last reported principal variation (`Err` iff nothing was reported);
every reported principal variation has exactly one move. -/
theorem C14_code_best_is_pv_head (clock : Nat → Nat) (s : R.Settings) (lim : Limit) (fuel : Nat) (p : Position)
    (hist : List BB) (tt : Table TTEntry) (r : Except String Mv × List BB × Table TTEntry × List R.Info)
    (hlim : toLimit clock p s = some lim) (hV : ValidPos p = true) (hE : Spec.EpConsistent (abs p) = true)
    (hh : p.halfmoves + fuel + 64 < 2147483648) (hfm : p.fullmoves + fuel + 64 < 2147483648)
    (h : R.root clock p hist tt s fuel = some r) :
    r.1.toOption = (r.2.2.2.getLast?).bind (·.pv.head?) ∧ ∀ i ∈ r.2.2.2, i.pv.length = 1 := by
  have hm := root_code_model hlim hV hE hh hfm h
  refine ⟨?_, fun i hi => C14_pv_length lim fuel p hist tt (rootResultOf r) hm _ (mem_infos_code hi)⟩
  have := C14_best_is_pv_head lim fuel p hist tt (rootResultOf r) hm
  simp only [rootResultOf, List.getLast?_map] at this
  rw [this]
  cases r.2.2.2.getLast? <;> rfl

/-- **node limits on the code** (`go nodes N`): every reported iteration beyond the first finished with fewer than
`N` nodes counted. -/
theorem C14_code_nodes_rule (clock : Nat → Nat) (N : Nat) (fuel : Nat) (p : Position) (hist : List BB)
    (tt : Table TTEntry) (r : Except String Mv × List BB × Table TTEntry × List R.Info)
    (hV : ValidPos p = true) (hE : Spec.EpConsistent (abs p) = true)
    (hh : p.halfmoves + fuel + 64 < 2147483648) (hfm : p.fullmoves + fuel + 64 < 2147483648)
    (h : R.root clock p hist tt (.Nodes N) fuel = some r) :
    ∀ i ∈ r.2.2.2, 2 ≤ i.depth.getD 0 → i.nodes.getD 0 < N :=
  fun _ hi => (C14_nodes_rule N fuel p hist tt (rootResultOf r)
    (root_code_model (lim := .nodes N) rfl hV hE hh hfm h)).1 _ (mem_infos_code hi)

/-! ## clock limits -/

/-- the budget expression regenerated from root.rs never exceeds the mover's own remaining clock (`movestogo 0`
included). -/
theorem C14_code_budget_le_clock (w : Bool) (wt bt : Nat) (mtg : Option Nat) :
    R.timeBudget w wt bt mtg ≤ (if w then wt else bt) := by
  rw [agree_timeBudget]; exact C14_budget_le_clock w wt bt mtg

/-- no division by zero and no `u32` overflow in the regenerated expression. -/
theorem C14_code_budget_u32 (w : Bool) (wt bt : Nat) (mtg : Option Nat) (hw : wt < 4294967296) (hb : bt < 4294967296) :
    1 ≤ Nat.max (mtg.getD 30) 1 ∧ R.timeBudget w wt bt mtg < 4294967296 := by
  rw [agree_timeBudget]; exact C14_budget_u32 w wt bt mtg hw hb

/-- the limit the `should_stop` closure of root.rs implements for `go wtime … btime …` is the budget oracle of the
regenerated budget expression, for the side to move. -/
theorem toLimit_time (clock : Nat → Nat) (p : Position) (wt bt : Nat) (wi bi mtg : Option Nat) :
    toLimit clock p (.Time wt bt wi bi mtg) =
      some (.clock (budgetOracle (R.timeBudget (!R.get_turn p) wt bt mtg) clock)) := rfl

theorem toLimit_movetime (clock : Nat → Nat) (p : Position) (t : Nat) :
    toLimit clock p (.Movetime t) = some (.clock (budgetOracle (R.movetimeBudget t) clock)) := rfl

/-- **the clock has reached the budget at the first poll** (in particular: a zero budget) ⇒ the regenerated driver
reports at most the first iteration. -/
theorem C14_code_expired_time (clock : Nat → Nat) (hm : ∀ i j, i ≤ j → clock i ≤ clock j)
    (wt bt : Nat) (wi bi mtg : Option Nat) (fuel : Nat) (p : Position)
    (hexp : R.timeBudget (!R.get_turn p) wt bt mtg ≤ clock 0)
    (hV : ValidPos p = true) (hE : Spec.EpConsistent (abs p) = true)
    (hh : p.halfmoves + fuel + 64 < 2147483648) (hfm : p.fullmoves + fuel + 64 < 2147483648)
    (hist : List BB) (tt : Table TTEntry) (r : Except String Mv × List BB × Table TTEntry × List R.Info)
    (h : R.root clock p hist tt (.Time wt bt wi bi mtg) fuel = some r) : r.2.2.2.length ≤ 1 := by
  have := C14_expired_clock _ (C14_budgetOracle_mono _ clock hm)
    (by simp only [budgetOracle, decide_eq_true_eq]; exact hexp) fuel p hist tt (rootResultOf r)
    (root_code_model (toLimit_time clock p wt bt wi bi mtg) hV hE hh hfm h)
  simpa [rootResultOf] using this

/-- **a zero budget** (clock 0, or a clock smaller than the moves to go). -/
theorem C14_code_zero_budget (clock : Nat → Nat) (hm : ∀ i j, i ≤ j → clock i ≤ clock j)
    (wt bt : Nat) (wi bi mtg : Option Nat) (fuel : Nat) (p : Position)
    (hz : R.timeBudget (!R.get_turn p) wt bt mtg = 0)
    (hV : ValidPos p = true) (hE : Spec.EpConsistent (abs p) = true)
    (hh : p.halfmoves + fuel + 64 < 2147483648) (hfm : p.fullmoves + fuel + 64 < 2147483648)
    (hist : List BB) (tt : Table TTEntry) (r : Except String Mv × List BB × Table TTEntry × List R.Info)
    (h : R.root clock p hist tt (.Time wt bt wi bi mtg) fuel = some r) : r.2.2.2.length ≤ 1 :=
  C14_code_expired_time clock hm wt bt wi bi mtg fuel p (by rw [hz]; exact Nat.zero_le _) hV hE hh hfm hist tt r h

/-- the same for `go movetime 0`. -/
theorem C14_code_zero_movetime (clock : Nat → Nat) (hm : ∀ i j, i ≤ j → clock i ≤ clock j)
    (fuel : Nat) (p : Position)
    (hV : ValidPos p = true) (hE : Spec.EpConsistent (abs p) = true)
    (hh : p.halfmoves + fuel + 64 < 2147483648) (hfm : p.fullmoves + fuel + 64 < 2147483648)
    (hist : List BB) (tt : Table TTEntry) (r : Except String Mv × List BB × Table TTEntry × List R.Info)
    (h : R.root clock p hist tt (.Movetime 0) fuel = some r) : r.2.2.2.length ≤ 1 := by
  have := C14_zero_movetime clock hm fuel p hist tt (rootResultOf r)
    (root_code_model (toLimit_movetime clock p 0) hV hE hh hfm h)
  simpa [rootResultOf] using this

/-! ## non-vacuity -/
namespace C14CodeEx
open C13Ex C03RulesEx

/-- K+P v K (`kpkV`), `go depth 1`, non-empty history, three-slot table: the regenerated driver returns; exactly
iteration 1 is reported, its score is inside the mate bounds, the table handed back is sane. -/
example : ∃ r, R.root (fun _ => 0) kpkV hist2 tt3 (.Depth 1) 2 = some r ∧
    r.2.2.2.map (fun i => i.depth.getD 0) = [1] ∧
    (∀ i ∈ r.2.2.2, -Gen.MATE_SCORE < i.score.getD 0 ∧ i.score.getD 0 < Gen.MATE_SCORE) ∧ TTSane r.2.2.1 := by
  have h : (R.root (fun _ => 0) kpkV hist2 tt3 (.Depth 1) 2).isSome = true := by decide +kernel
  obtain ⟨r, h1⟩ := Option.isSome_iff_exists.1 h
  have htt : TTSane tt3 := TTIn.replicate (by decide) 3
  exact ⟨r, h1,
    C14_code_depth_iterations _ 1 (by decide) (by decide) 2 kpkV hist2 tt3 r kpkV_valid kpkV_E
      (by decide +kernel) (by decide +kernel) htt.bounded (by decide) (by decide +kernel) h1,
    C14_code_scores_inside_mate_bounds _ _ _ 2 kpkV hist2 tt3 r rfl kpkV_valid kpkV_E (by decide +kernel)
      (by decide +kernel) htt (by decide) h1,
    C14_code_root_preserves_TTSane _ _ _ 2 kpkV hist2 tt3 r rfl kpkV_valid kpkV_E (by decide +kernel)
      (by decide +kernel) htt (by decide) h1⟩

/-- `go wtime 19 btime 19 movestogo 40` (budget 0) with a running clock: the driver returns, at most one record. -/
example : ∃ r, R.root (fun k => k) kpkV hist2 tt3 (.Time 19 19 none none (some 40)) 8 = some r ∧ r.2.2.2.length ≤ 1 := by
  have h : (R.root (fun k => k) kpkV hist2 tt3 (.Time 19 19 none none (some 40)) 8).isSome = true := by decide +kernel
  obtain ⟨r, h1⟩ := Option.isSome_iff_exists.1 h
  exact ⟨r, h1, C14_code_zero_budget _ (fun _ _ h => h) 19 19 none none (some 40) 8 kpkV (by decide) kpkV_valid kpkV_E
    (by decide +kernel) (by decide +kernel) hist2 tt3 r h1⟩

example : R.timeBudget true 900 600 none = 30 ∧ R.timeBudget false 900 600 (some 10) = 60 ∧
    R.timeBudget true 5 5 (some 0) = 5 ∧ R.timeBudget false 19 19 (some 40) = 0 := by decide

end C14CodeEx

end Rawr

#print axioms Rawr.C14_code_scores_inside_mate_bounds
#print axioms Rawr.C14_code_negamax_inside_mate_bounds
#print axioms Rawr.C14_code_root_preserves_TTSane
#print axioms Rawr.C14_code_InD
#print axioms Rawr.C14_code_depth_general
#print axioms Rawr.C14_code_depth_iterations
#print axioms Rawr.C14_code_depth_cap
#print axioms Rawr.C14_code_depth_zero
#print axioms Rawr.C14_code_depth_nothing_deeper
#print axioms Rawr.C14_code_depths_consecutive
#print axioms Rawr.C14_code_best_is_pv_head
#print axioms Rawr.C14_code_nodes_rule
#print axioms Rawr.C14_code_budget_le_clock
#print axioms Rawr.C14_code_budget_u32
#print axioms Rawr.toLimit_time
#print axioms Rawr.C14_code_expired_time
#print axioms Rawr.C14_code_zero_budget
#print axioms Rawr.C14_code_zero_movetime
