import Rawr.Props.C18
import Rawr.Proofs.RustSearchAgree
/-!
# C18 on the regenerated code: `R.tt_poll`, `R.tt_add`, `R.tt_clear`, `R.tt_resize`, `R.tt_hashfull`, `R.tt_len`, `R.tt_new`

hashtable.rs is regenerated on every run (`Rawr/Generated/RustSearch.lean`, generic in the entry type `α` with
`T::default()` = `default`).  The regenerated functions return `Option` where the Rust code can panic (index out of
bounds, remainder / division by zero); `Rawr.Table.agree_tt_*` prove them equal to the model's `Table` operations:
unconditionally for `poll`, `add`, `clear`, `len`, `hashfull` (`R.tt_hashfull t = some (t.hashfull.map Int.ofNat)`: an
`i32` counter, never a panic), and for `resize` / `new` under `size_of::<T>() ≠ 0` (`es ≠ 0`; with a zero-sized entry
type the Rust code divides by zero — the engine's `TTEntry` has 24 bytes).

* `C18_code_step`, `C18_code_run`: the operational semantics of `Props/C18.lean` (`C18.step`, `C18.run`: one operation /
  a sequence of operations `add`, `poll`, `clear`, `resize`, `hashfull`, `len`) executed by the REGENERATED functions;
  `C18_code_step_eq`, `C18_code_run_eq`: equal to the model's for `es ≠ 0`.
* `C18_code_step_refines`, `C18_code_run_refines`, `C18_code_run_isSome` (never a panic), `C18_code_lookup_most_recent`,
  `C18_code_history_invariant`: the headline theorems, with `es ≠ 0` as the only EXTRA hypothesis (the agreement's).
* `C18_code_poll_add`, `…_poll_add_other`, `…_add_slot`, `…_zero_slot`, `…_clear_spec`, `…_hashfull_*`: exact transfers;
  `C18_code_resize_spec`, `C18_code_new_spec`: with `es ≠ 0`.
`SlotSpec`, `C18.abs`, `Table.slot`, `KeepsAll`, `lenAfterAll` are the specification side of `Props/C18.lean`.
-/
set_option linter.unusedSectionVars false
namespace Rawr
open C18 Table

variable {α : Type} [Inhabited α] [DecidableEq α]

/-! ## the operations, executed by the regenerated code -/

/-- one operation, executed by the regenerated hashtable.rs (`none` = panic). -/
def C18_code_step (es : Nat) (t : Table α) : Op α → Option (Table α × Out α)
  | .add k e => (R.tt_add t k e).map fun t' => (t', .unit)
  | .poll k => (R.tt_poll t k).map fun e => (t, .entry e)
  | .clear => some (R.tt_clear t, .unit)
  | .resize mb => (R.tt_resize t mb es).map fun t' => (t', .unit)
  | .hashfull => (R.tt_hashfull t).map fun h => (t, .fill (h.map Int.toNat))
  | .len => some (t, .len (R.tt_len t))

/-- a sequence of operations, executed by the regenerated code. -/
def C18_code_run (es : Nat) : Table α → List (Op α) → Option (Table α × List (Out α))
  | t, [] => some (t, [])
  | t, op :: ops =>
    match C18_code_step es t op with
    | none => none
    | some (t', o) =>
      match C18_code_run es t' ops with
      | none => none
      | some (t'', os) => some (t'', o :: os)

theorem C18_code_step_eq (es : Nat) (hes : es ≠ 0) (t : Table α) (op : Op α) :
    C18_code_step es t op = C18.step es t op := by
  cases op with
  | add k e => simp only [C18_code_step, C18.step, agree_tt_add]
  | poll k => simp only [C18_code_step, C18.step, agree_tt_poll]
  | clear => simp only [C18_code_step, C18.step, agree_tt_clear]
  | resize mb => simp only [C18_code_step, C18.step, agree_tt_resize t mb es hes, Option.map_some]
  | hashfull =>
    simp only [C18_code_step, C18.step, agree_tt_hashfull, Option.map_some, Option.map_map]
    congr 3
    cases t.hashfull <;> rfl
  | len => simp only [C18_code_step, C18.step, agree_tt_len]

theorem C18_code_run_eq (es : Nat) (hes : es ≠ 0) (t : Table α) (ops : List (Op α)) :
    C18_code_run es t ops = C18.run es t ops := by
  induction ops generalizing t with
  | nil => rfl
  | cons op ops ih =>
    unfold C18_code_run C18.run
    rw [C18_code_step_eq es hes]
    cases C18.step es t op with
    | none => rfl
    | some r => obtain ⟨t', o⟩ := r; simp only [ih]; rfl

/-! ## refinement -/

/-- **C18 on the code**: every step of the regenerated code is the specification step under `abs`: same definedness
(always defined), same output, and `abs` of the new table is the new specification state. -/
theorem C18_code_step_refines (es : Nat) (hes : es ≠ 0) (t : Table α) (op : Op α) :
    (C18_code_step es t op).map (fun p => (C18.abs p.1, p.2)) = SlotSpec.step es (C18.abs t) op := by
  rw [C18_code_step_eq es hes]; exact step_refines es t op

theorem C18_code_run_refines (es : Nat) (hes : es ≠ 0) (t : Table α) (ops : List (Op α)) :
    (C18_code_run es t ops).map (fun p => (C18.abs p.1, p.2)) = SlotSpec.run es (C18.abs t) ops := by
  rw [C18_code_run_eq es hes]; exact run_refines es t ops

/-- the regenerated code never panics, on any table, for any operation sequence (F8 repaired: zero-slot tables). -/
theorem C18_code_run_isSome (es : Nat) (hes : es ≠ 0) (t : Table α) (ops : List (Op α)) :
    (C18_code_run es t ops).isSome = true := by
  rw [C18_code_run_eq es hes]; exact run_isSome es t ops

/-- `poll` and `add` never panic (no hypothesis at all). -/
theorem C18_code_poll_add_total (t : Table α) (k : Nat) (e : α) :
    (∃ x, R.tt_poll t k = some x) ∧ ∃ t', R.tt_add t k e = some t' := by
  rw [agree_tt_poll, agree_tt_add]; exact ⟨poll_ne_none t k, add_ne_none t k e⟩

/-- the zero-slot table: the regenerated `poll` answers `default`, the regenerated `add` is a no-op. -/
theorem C18_code_zero_slot (t : Table α) (k : Nat) (e : α) (h : R.tt_len t = 0) :
    R.tt_poll t k = some default ∧ R.tt_add t k e = some t := by
  rw [agree_tt_poll, agree_tt_add]; exact zero_slot t k e h

/-! ## (a), (b) lookup after store; a store changes exactly one slot -/

theorem C18_code_poll_add (t : Table α) (k : Nat) (e : α) (h : 0 < R.tt_len t) :
    ∃ t', R.tt_add t k e = some t' ∧ R.tt_poll t' k = some e := by
  simp only [agree_tt_poll, agree_tt_add]; exact poll_add t k e h

/-- aliasing keys: every key of the same slot sees the stored entry, every other key is unaffected. -/
theorem C18_code_poll_add_other (t t' : Table α) (k k' : Nat) (e : α) (h : 0 < R.tt_len t)
    (hadd : R.tt_add t k e = some t') :
    R.tt_poll t' k' = if k' % R.tt_len t = k % R.tt_len t then some e else R.tt_poll t k' := by
  rw [agree_tt_add] at hadd
  simp only [agree_tt_poll]
  exact poll_add_other t t' k k' e h hadd

theorem C18_code_add_slot (t t' : Table α) (k : Nat) (e : α) (h : 0 < R.tt_len t) (hadd : R.tt_add t k e = some t') :
    R.tt_len t' = R.tt_len t ∧ t'.slot (k % R.tt_len t) = e ∧ ∀ i, i ≠ k % R.tt_len t → t'.slot i = t.slot i := by
  rw [agree_tt_add] at hadd; exact add_slot t t' k e h hadd

/-! ## (d), (e) clear, resize, new -/

theorem C18_code_clear_spec (t : Table α) :
    R.tt_len (R.tt_clear t) = R.tt_len t ∧ (∀ i, (R.tt_clear t).slot i = default) ∧
      ∀ i (h : i < (R.tt_clear t).entries.size), (R.tt_clear t).entries[i] = default :=
  clear_spec t

/-- exactly `mb * 2^20 / size_of::<T>()` slots; the common prefix is kept, everything else is `default`. -/
theorem C18_code_resize_spec (t : Table α) (mb es : Nat) (hes : es ≠ 0) :
    ∃ t', R.tt_resize t mb es = some t' ∧ R.tt_len t' = mb * 1024 * 1024 / es ∧
      ∀ i, t'.slot i = if i < mb * 1024 * 1024 / es then t.slot i else default :=
  ⟨_, agree_tt_resize t mb es hes, resize_spec t mb es⟩

theorem C18_code_new_spec (mb es : Nat) (hes : es ≠ 0) :
    ∃ t : Table α, R.tt_new mb es = some t ∧ R.tt_len t = mb * 1024 * 1024 / es ∧ ∀ i, t.slot i = default :=
  ⟨_, agree_tt_new mb es hes, new_spec mb es⟩

/-! ## (f) the fill indicator -/

/-- `hashfull` never panics; it returns `None` exactly for the zero-slot table, otherwise a value in `0 … 1000`
not above the number of slots. -/
theorem C18_code_hashfull (t : Table α) :
    ∃ h : Option Int, R.tt_hashfull t = some h ∧ (h = none ↔ R.tt_len t = 0) ∧
      ∀ v, h = some v → 0 ≤ v ∧ v ≤ 1000 ∧ v ≤ (R.tt_len t : Int) := by
  refine ⟨_, agree_tt_hashfull t, ?_, ?_⟩
  · rw [Option.map_eq_none_iff]; exact hashfull_eq_none_iff t
  · intro v hv
    rw [Option.map_eq_some_iff] at hv
    obtain ⟨n, hn, rfl⟩ := hv
    have := hashfull_le t n hn
    show (0 : Int) ≤ (n : Int) ∧ (n : Int) ≤ 1000 ∧ (n : Int) ≤ (t.len : Int)
    omega

/-! ## (c) operation sequences: a lookup returns the most recent store -/

/-- after ANY operation sequence executed by the regenerated code on a table created by the regenerated `new`, every
slot, every looked-up value and every value a later lookup can return is `default` or the argument of one of the
`add`s of the sequence. -/
theorem C18_code_history_invariant (es mb : Nat) (hes : es ≠ 0) (t0 t : Table α) (ops : List (Op α))
    (outs : List (Out α)) (h0 : R.tt_new mb es = some t0)
    (h : C18_code_run es t0 ops = some (t, outs)) :
    (∀ i, t.slot i = default ∨ ∃ k, Op.add k (t.slot i) ∈ ops) ∧
    (∀ e, Out.entry e ∈ outs → e = default ∨ ∃ k, Op.add k e ∈ ops) ∧
    (∀ k e, R.tt_poll t k = some e → e = default ∨ ∃ k', Op.add k' e ∈ ops) := by
  rw [agree_tt_new mb es hes] at h0; cases h0
  rw [C18_code_run_eq es hes] at h
  simp only [agree_tt_poll]
  exact history_invariant es mb t ops outs h

/-- **(c), strong form, on the code**: after any operation sequence on a fresh table, a lookup of `key` by the
regenerated `poll` returns the entry most recently added to the slot `key % len` since the last `clear` / truncating
`resize` across it, else `default`. -/
theorem C18_code_lookup_most_recent (es mb : Nat) (hes : es ≠ 0) (t0 t : Table α) (ops : List (Op α))
    (outs : List (Out α)) (h0 : R.tt_new mb es = some t0)
    (hr : C18_code_run es t0 ops = some (t, outs)) (key : Nat) :
    let i := key % R.tt_len t
    (KeepsAll es (numEntries mb es) i ops ∧ R.tt_poll t key = some default) ∨
    ∃ pre op post, ops = pre ++ op :: post ∧
      KeepsAll es (op.lenAfter es (lenAfterAll es (numEntries mb es) pre)) i post ∧
      ((∃ k e, op = .add k e ∧ 0 < lenAfterAll es (numEntries mb es) pre ∧
          k % lenAfterAll es (numEntries mb es) pre = i ∧ R.tt_poll t key = some e) ∨
       ((op = .clear ∨ ∃ mb', op = .resize mb' ∧ numEntries mb' es ≤ i) ∧
          R.tt_poll t key = some default)) := by
  rw [agree_tt_new mb es hes] at h0; cases h0
  rw [C18_code_run_eq es hes] at hr
  simp only [agree_tt_poll]
  exact lookup_most_recent es mb t ops outs hr key

/-! ## non-vacuity: `Table Nat`, `entrySize = 262144`, 1 MB = 4 slots (the examples of `Props/C18.lean`) -/

example : R.tt_new (α := Nat) 1 ES = some T0 := by decide
/-- store, look up, overwrite, look up; aliasing keys 2 and 6 share slot 2 — on the regenerated code. -/
example : (R.tt_add T0 6 11).bind (R.tt_poll · 6) = some 11 := by decide
example : ((R.tt_add T0 6 11).bind (R.tt_add · 2 12)).bind (R.tt_poll · 6) = some 12 := by decide
/-- F8 (fixed) on the regenerated code: the zero-slot table answers `default`, ignores stores, `hashfull` is `None`. -/
example : C18_code_run ES (Table.new 0 ES : Table Nat) [.add 5 1, .poll 5, .hashfull, .resize 1, .add 5 1, .poll 5] =
    some (⟨#[0, 1, 0, 0]⟩, [.unit, .entry 0, .fill none, .unit, .unit, .entry 1]) := by decide

/-- the demo run of `Props/C18.lean` executed by the regenerated code … -/
theorem C18_code_demo_run : C18_code_run ES T0 demoOps =
    some (⟨#[0, 3, 0, 0]⟩,
      [.unit, .entry 11, .unit, .fill (some 2), .unit, .len 8, .entry 0, .unit, .unit, .entry 0,
       .entry 11, .unit, .entry 0, .unit, .fill (some 1)]) := by decide

/-- … and the theorems applied to it. -/
example := C18_code_lookup_most_recent ES 1 (by decide) T0 _ demoOps _ (by decide) C18_code_demo_run 5
example : ∀ k e, R.tt_poll (⟨#[0, 3, 0, 0]⟩ : Table Nat) k = some e → e = default ∨ ∃ k', Op.add k' e ∈ demoOps :=
  (C18_code_history_invariant ES 1 (by decide) T0 _ demoOps _ (by decide) C18_code_demo_run).2.2
example : (SlotSpec.run ES (C18.abs T0) demoOps).map (·.2) = (C18_code_run ES T0 demoOps).map (·.2) := by
  rw [← C18_code_run_refines ES (by decide)]; simp only [Option.map_map]; rfl

end Rawr

#print axioms Rawr.C18_code_step_eq
#print axioms Rawr.C18_code_run_eq
#print axioms Rawr.C18_code_step_refines
#print axioms Rawr.C18_code_run_refines
#print axioms Rawr.C18_code_run_isSome
#print axioms Rawr.C18_code_poll_add_total
#print axioms Rawr.C18_code_zero_slot
#print axioms Rawr.C18_code_poll_add
#print axioms Rawr.C18_code_poll_add_other
#print axioms Rawr.C18_code_add_slot
#print axioms Rawr.C18_code_clear_spec
#print axioms Rawr.C18_code_resize_spec
#print axioms Rawr.C18_code_new_spec
#print axioms Rawr.C18_code_hashfull
#print axioms Rawr.C18_code_history_invariant
#print axioms Rawr.C18_code_lookup_most_recent
