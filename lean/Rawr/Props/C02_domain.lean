import Rawr.Props.C01
import Rawr.Props.C02
import Rawr.Proofs.BridgeE
import Rawr.Proofs.BridgeM
/-! # Domain closure: the reachable positions stay in D  ("R ⊆ D" of DESIGN.md §4.1)

`D = V ∧ E ∧ M` (`InD`, `Rawr/Abs.lean`): V = `ValidPos` (board consistency, one king each, no pawns on the
back ranks, the side that just moved is not in check, castling rights backed, en-passant square plausible,
counters in range, stored key correct), E = `Spec.EpConsistent` (the en-passant square is consistent with a
double push having just been played), M = `Spec.LegalMaterial` (material reachable from a start position by
captures and promotions).

* `E_preserved`: after a generated move the successor satisfies E — and this needs only the parent's V
  (`E_of_legal`): an en-passant square appears only after a double push, the pawn's origin square is empty
  and putting the pawn back gives the parent's board, on which the side now to move was the side not to
  move, hence not in check (V.4). The parent's E is used only to know that the generated move is legal by
  the rules (C01).
* `M_preserved`: a capture removes a man, a promotion trades a pawn for a piece; `excess ≤ 8 − pawns` is kept.
* `D_closed`, `D_null`, `D_path`: one generated move, one null move, any sequence of them.
* the standard start position is in D (`startpos_inD`, kernel evaluation); every Chess960 start position is
  (`Br.start960_inD` in `Proofs/BridgeStartAll.lean`, twelve blocks of kernel evaluation, ≈ 6 CPU-min, kept out of
  this file's imports). -/
namespace Rawr
open Position Spec ZH MM SV

/-- E of the successor from V of the parent, for a move that is legal by the rules (either `UPDATE_HASH`). -/
theorem E_of_legal (p : Position) (m : Mv) (q : Position) (u : Bool) (hV : ValidPos p = true)
    (hs : MoveShape p m = true) (hL : decodeMove p m ∈ Spec.legalMoves (abs p))
    (h : p.makemove m u = some q) : Spec.EpConsistent (abs q) = true := by
  rw [C02_makemove_eq p m q u hV hs hL h]
  exact Br.epConsistent_apply (valid_unpack hV).2.1 hL

/-- M of the successor, for a move that is legal by the rules. -/
theorem M_of_legal (p : Position) (m : Mv) (q : Position) (u : Bool) (hV : ValidPos p = true)
    (hM : Spec.LegalMaterial (abs p) = true)
    (hs : MoveShape p m = true) (hL : decodeMove p m ∈ Spec.legalMoves (abs p))
    (h : p.makemove m u = some q) : Spec.LegalMaterial (abs q) = true := by
  rw [C02_makemove_eq p m q u hV hs hL h]
  exact Br.legalMaterial_apply (valid_unpack hV).2.1 hM hL

/-- **E is preserved**: after a generated move the en-passant state is consistent. -/
theorem E_preserved (p : Position) (hV : ValidPos p = true) (m : Mv) (hm : m ∈ legalMoves p)
    (hE : Spec.EpConsistent (abs p) = true) (q : Position) (h : p.makemove m true = some q) :
    Spec.EpConsistent (abs q) = true :=
  E_of_legal p m q true hV (gen_moveShape p hV m hm) (C01_sound p hV hE m hm).1 h

/-- **M is preserved** by generated moves. -/
theorem M_preserved (p : Position) (hV : ValidPos p = true) (m : Mv) (hm : m ∈ legalMoves p)
    (hE : Spec.EpConsistent (abs p) = true) (hM : Spec.LegalMaterial (abs p) = true)
    (q : Position) (h : p.makemove m true = some q) : Spec.LegalMaterial (abs q) = true :=
  M_of_legal p m q true hV hM (gen_moveShape p hV m hm) (C01_sound p hV hE m hm).1 h

theorem inD_iff (p : Position) :
    InD p = true ↔ ValidPos p = true ∧ Spec.EpConsistent (abs p) = true ∧ Spec.LegalMaterial (abs p) = true := by
  unfold InD
  simp only [Bool.and_eq_true, and_assoc]

/-- **D is closed under generated moves** (counters within `i32`). -/
theorem D_closed (p : Position) (m : Mv) (q : Position) (hD : InD p = true) (hm : m ∈ legalMoves p)
    (h : p.makemove m true = some q)
    (hh : p.halfmoves + 1 < 2147483648) (hf : p.fullmoves + 1 < 2147483648) : InD q = true := by
  obtain ⟨hV, hE, hM⟩ := (inD_iff p).mp hD
  have hs := gen_moveShape p hV m hm
  have hL := (C01_sound p hV hE m hm).1
  exact (inD_iff q).mpr ⟨C02_valid_preserved p m q hV hs hL h hh hf, E_of_legal p m q true hV hs hL h,
    M_of_legal p m q true hV hM hs hL h⟩

/-- … and under a null move played when not in check. -/
theorem D_null (p : Position) (hD : InD p = true)
    (hc : inCheck (abs p).board (abs p).whiteToMove = false) : InD p.makenull = true := by
  obtain ⟨hV, _, hM⟩ := (inD_iff p).mp hD
  obtain ⟨hVq, ha⟩ := C02_null_valid p hV hc
  refine (inD_iff _).mpr ⟨hVq, ?_, ?_⟩
  · rw [ha]; rfl
  · rw [ha]; exact hM

/-- `GenPath n p r`: `n` plies lead the engine from `p` to `r`; a ply is a generated move made with key
update, or a null move when the side to move is not in check. -/
inductive GenPath : Nat → Position → Position → Prop
  | nil (p : Position) : GenPath 0 p p
  | move {n : Nat} {p q r : Position} (m : Mv) :
      m ∈ legalMoves p → p.makemove m true = some q → GenPath n q r → GenPath (n + 1) p r
  | null {n : Nat} {p r : Position} :
      inCheck (abs p).board (abs p).whiteToMove = false → GenPath n p.makenull r → GenPath (n + 1) p r

/-- **R ⊆ D**: every position reached from a position of D by generated moves and null moves is in D, as
long as the counters stay within `i32`. -/
theorem D_path {n : Nat} {p r : Position} (path : GenPath n p r) (hD : InD p = true)
    (hh : p.halfmoves + n < 2147483648) (hf : p.fullmoves + n < 2147483648) : InD r = true := by
  induction path with
  | nil p => exact hD
  | @move n p q r m hm hq _ ih =>
    obtain ⟨hV, hE, _⟩ := (inD_iff p).mp hD
    have hDq := D_closed p m q hD hm hq (by omega) (by omega)
    have hs := gen_moveShape p hV m hm
    have hL := (C01_sound p hV hE m hm).1
    obtain ⟨_, b1, _, b2⟩ := C02_counters p m q true hV hs hL hq
    exact ih hDq (by omega) (by omega)
  | @null n p r hc _ ih =>
    obtain ⟨hV, _, _⟩ := (inD_iff p).mp hD
    obtain ⟨_, b1, b2⟩ := validPos_null hV hc
    have h0 : 0 ≤ p.halfmoves := ((valid_iff _).mp (valid_unpack hV).2.1).half
    exact ih (D_null p hD hc) (by rw [b1]; omega) (by rw [b2]; omega)

/-- a `GenPath` from a position of D is a `C02Path`: along it the engine's position denotes the position
the rules prescribe (`C02_sequence`), move by move legal by the rules. -/
theorem genPath_C02Path {n : Nat} {p r : Position} (path : GenPath n p r) (hD : InD p = true)
    (hh : p.halfmoves + n < 2147483648) (hf : p.fullmoves + n < 2147483648) :
    C02Path n p (abs p) r (abs r) := by
  induction path with
  | nil p => exact .nil p _
  | @move n p q r m hm hq _ ih =>
    obtain ⟨hV, hE, _⟩ := (inD_iff p).mp hD
    have hDq := D_closed p m q hD hm hq (by omega) (by omega)
    have hs := gen_moveShape p hV m hm
    have hL := (C01_sound p hV hE m hm).1
    obtain ⟨_, b1, _, b2⟩ := C02_counters p m q true hV hs hL hq
    have := ih hDq (by omega) (by omega)
    rw [C02_makemove_eq p m q true hV hs hL hq] at this
    exact .move m hs hL hq this
  | @null n p r hc _ ih =>
    obtain ⟨hV, _, _⟩ := (inD_iff p).mp hD
    obtain ⟨_, b1, b2⟩ := validPos_null hV hc
    have h0 : 0 ≤ p.halfmoves := ((valid_iff _).mp (valid_unpack hV).2.1).half
    have := ih (D_null p hD hc) (by rw [b1]; omega) (by rw [b2]; omega)
    rw [(C02_null_valid p hV hc).2] at this
    exact .null hc this

/-! ## start positions, non-vacuity -/

/-- the standard start position is in D. -/
theorem startpos_inD : InD Gen.startpos = true := by decide +kernel

/-- every position two plies (generated moves or null moves) from the start position is in D. -/
example : ∀ r, GenPath 2 Gen.startpos r → InD r = true :=
  fun _ path => D_path path startpos_inD (by decide +kernel) (by decide +kernel)

def domQ1 : Position := (Gen.startpos.makemove ⟨12, 28, 6⟩ true).getD default
def domQ2 : Position := domQ1.makenull
theorem domPath : GenPath 2 Gen.startpos domQ2 :=
  .move ⟨12, 28, 6⟩ (by decide +kernel) (by decide +kernel) (.null (by decide +kernel) (.nil _))
example : InD domQ2 = true := D_path domPath startpos_inD (by decide +kernel) (by decide +kernel)
/-- E of the successor is not trivially true: after 1. e4 there *is* an en-passant square. -/
example : (abs domQ1).ep = some 20 ∧ Spec.EpConsistent (abs domQ1) = true :=
  ⟨by decide +kernel, E_preserved Gen.startpos (by decide +kernel) ⟨12, 28, 6⟩ (by decide +kernel)
    (by decide +kernel) domQ1 (by decide +kernel)⟩
/-- M through a promotion: b7xa8=Q in `exPromo` of C02. -/
example : Spec.LegalMaterial (abs exPromo) = true ∧ (⟨49, 56, 4⟩ : Mv) ∈ legalMoves exPromo := by decide +kernel

#print axioms E_of_legal
#print axioms E_preserved
#print axioms M_preserved
#print axioms D_closed
#print axioms D_null
#print axioms D_path
#print axioms genPath_C02Path
#print axioms startpos_inD

end Rawr
