import Rawr.Proofs.GenEp3
/-!
# C01, en-passant class

For a position of the domain (`ValidPos`) whose en-passant square `e` is consistent with a double pawn push
having just been played (`Spec.EpConsistent`, DESIGN §4.1 domain E), the pawn moves the generator produces
onto `e` — `gm 0 (e-9) e 6` from the north-east branch, `gm 0 (e-7) e 6` from the north-west branch —
are exactly the legal en-passant captures of the rules: `Move.normal F E none ∈ Spec.legalMoves (abs p)`
with a pawn of the side to move on `F`.

* `C01_ep` — the class theorem (an `↔`, both directions: nothing illegal, nothing missing).
* `C01_ep_branches` — the two branch tests of move_generator.rs, each equivalent to "an own pawn stands
  on the source square and the king is not attacked on the board after the capture".
* The pieces of the proof, all in the mover's frame (`Proofs/GenEp*.lean`):
  `ep_core` (board after the capture unattacked ⇔ `EpC1 ∧ EpC2 ∧ EpC3`), `epC1_iff`
  (`!rpinned & (!bpinned | !bxrays.south_east())` ⇔ the capturer is pinned at most along the capture
  line), `ep_allowed_iff` (`allowed(e) ∨ allowed.north()(e)` ⇔ every check is given by the captured pawn
  or blocked on `e`), `epC3_iff` (the `ray_e / ray_w` tests with both pawns lifted ⇔ no rook or queen sees
  the king along its rank afterwards). Retro-consistency clause (b) is used exactly once, in `ep_sound`:
  a diagonal from the king through the captured pawn's square to an enemy bishop or queen would have
  been an attack on the king before the double push.
* `C01_ep_false_without_E` — without `EpConsistent` the statement is false:
  `8/5b2/8/3pP3/8/1K6/8/7k w - d6 0 1` is valid, the generator produces e5xd6, and that move leaves the
  king on b3 attacked by the bishop on f7.
-/
namespace Rawr
open Spec Att

/-- C01, en passant: generated pawn moves onto the en-passant square = legal en-passant captures. -/
theorem C01_ep (p : Position) (hV : ValidPos p = true) (hE : Spec.EpConsistent (abs p) = true)
    (e : Nat) (hep : p.ep = some e) (f : Nat) :
    gm 0 f e 6 ∈ moveGenerator p ↔
      ((abs p).board (absSq p.black f) = some ⟨!p.black, .pawn⟩ ∧
        Spec.Move.normal (absSq p.black f) (absSq p.black e) none ∈ Spec.legalMoves (abs p)) := by
  rw [gen_ep_iff hV hE hep f 6, abs_at_us]
  exact ⟨fun h => h.2, fun h => ⟨rfl, h⟩⟩

/-- every generated pawn move onto the en-passant square has an empty promotion field. -/
theorem C01_ep_promo (p : Position) (hV : ValidPos p = true) (hE : Spec.EpConsistent (abs p) = true)
    (e : Nat) (hep : p.ep = some e) (f pr : Nat) (h : gm 0 f e pr ∈ moveGenerator p) : pr = 6 :=
  ((gen_ep_iff hV hE hep f pr).mp h).1

/-- the two branch tests of the generator. -/
theorem C01_ep_branches (p : Position) (hV : ValidPos p = true) (hE : Spec.EpConsistent (abs p) = true)
    (e : Nat) (hep : p.ep = some e) :
    (epCondNE p e = true ↔
      (9 ≤ e ∧ e % 8 ≠ 0 ∧ relBoard p (e - 9) = some ⟨true, .pawn⟩ ∧
        attackedBy (epBoard (relBoard p) (e - 9) e) false (lsb (p.p5 &&& p.c0)) = false)) ∧
    (epCondNW p e = true ↔
      (e % 8 ≠ 7 ∧ relBoard p (e - 7) = some ⟨true, .pawn⟩ ∧
        attackedBy (epBoard (relBoard p) (e - 7) e) false (lsb (p.p5 &&& p.c0)) = false)) := by
  obtain ⟨hBn, hEb⟩ := epConsistent_rel hV hE hep
  exact ⟨epCondNE_iff hV hep hBn hEb, epCondNW_iff hV hep hBn hEb⟩

/-- the en-passant block of `moveGenerator` is governed by `epCondNE` / `epCondNW` (definitional). -/
theorem C01_ep_block (p : Position) (e f : Nat) (hep : p.ep = some e) :
    (p.ep = some e ∧ ((f = e - 9 ∧ epCondNE p e = true) ∨ (f = e - 7 ∧ epCondNW p e = true))) →
      gm 0 f e 6 ∈ moveGenerator p := by
  intro h
  rw [mem_gen_pawn]
  exact Or.inr (Or.inr (Or.inr (Or.inr ⟨hep, rfl, h.2⟩)))

/-! ## the statement is false without retro-consistency -/

/-- `8/5b2/8/3pP3/8/1K6/8/7k w - d6 0 1`: White Kb3 (17), pawn e5 (36); Black Bf7 (53), pawn d5 (35),
Kh1 (7); en-passant square d6 (43). -/
def epBad : Position :=
  let q : Position :=
    { Position.dflt with
      c0 := (bit 17 ||| bit 36), c1 := (bit 53 ||| bit 35 ||| bit 7),
      p0 := (bit 36 ||| bit 35), p2 := bit 53, p5 := (bit 17 ||| bit 7), ep := some 43 }
  { q with hash := q.calculateHash }

/-- the position is valid but not retro-consistent; the engine generates e5xd6; the rules forbid it. -/
theorem C01_ep_false_without_E :
    ValidPos epBad = true ∧ Spec.EpConsistent (abs epBad) = false ∧
    gm 0 36 43 6 ∈ moveGenerator epBad ∧
    (abs epBad).board 36 = some ⟨true, .pawn⟩ ∧
    Spec.Move.normal 36 43 none ∉ Spec.legalMoves (abs epBad) := by decide +kernel

/-- hence `C01_ep` without the hypothesis `hE` is refuted. -/
theorem C01_ep_needs_E :
    ¬ (∀ (p : Position), ValidPos p = true → ∀ e, p.ep = some e → ∀ f,
        (gm 0 f e 6 ∈ moveGenerator p ↔
          ((abs p).board (absSq p.black f) = some ⟨!p.black, .pawn⟩ ∧
            Spec.Move.normal (absSq p.black f) (absSq p.black e) none ∈ Spec.legalMoves (abs p)))) := by
  intro h
  obtain ⟨h1, _, h3, _, h5⟩ := C01_ep_false_without_E
  exact h5 ((h epBad h1 43 rfl 36).mp h3).2

/-! ## non-vacuity -/

/-- White Ke1, pawn e5; Black Ke8, pawn d5 just pushed (ep d6): e5xd6 is generated and legal. -/
def epGood : Position :=
  let q : Position :=
    { Position.dflt with
      c0 := (bit 4 ||| bit 36), c1 := (bit 60 ||| bit 35), p0 := (bit 36 ||| bit 35),
      p5 := (bit 4 ||| bit 60), ep := some 43 }
  { q with hash := q.calculateHash }

example : ValidPos epGood = true ∧ Spec.EpConsistent (abs epGood) = true ∧
    gm 0 36 43 6 ∈ moveGenerator epGood ∧
    Spec.Move.normal 36 43 none ∈ Spec.legalMoves (abs epGood) := by decide +kernel

/-- rank discovery: White Ka5 (32), pawn e5 (36); Black Rh5 (39), pawn d5 (35), Kh8 (63); ep d6. Both pawns
leave the fifth rank, so e5xd6 is illegal; the generator's `ray_e` test rejects it. Retro-consistent. -/
def epRank : Position :=
  let q : Position :=
    { Position.dflt with
      c0 := (bit 32 ||| bit 36), c1 := (bit 39 ||| bit 35 ||| bit 63), p0 := (bit 36 ||| bit 35),
      p3 := bit 39, p5 := (bit 32 ||| bit 63), ep := some 43 }
  { q with hash := q.calculateHash }

example : ValidPos epRank = true ∧ Spec.EpConsistent (abs epRank) = true ∧
    gm 0 36 43 6 ∉ moveGenerator epRank ∧
    Spec.Move.normal 36 43 none ∉ Spec.legalMoves (abs epRank) := by decide +kernel

/-- Black to move (frame change): Black Ke8, pawn d4; White Ke1, pawn e4 just pushed (ep e3).
Relative: own king 4, own pawn 35 (d5 relative), enemy pawn 36, enemy king 60, ep 44. -/
def epBlack : Position :=
  let q : Position :=
    { Position.dflt with
      c0 := (bit 4 ||| bit 35), c1 := (bit 60 ||| bit 36), p0 := (bit 35 ||| bit 36),
      p5 := (bit 4 ||| bit 60), ep := some 44, black := true }
  { q with hash := q.calculateHash }

example : ValidPos epBlack = true ∧ Spec.EpConsistent (abs epBlack) = true ∧
    gm 0 35 44 6 ∈ moveGenerator epBlack ∧
    Spec.Move.normal 27 20 none ∈ Spec.legalMoves (abs epBlack) := by decide +kernel

example : gm 0 36 43 6 ∈ moveGenerator epGood :=
  (C01_ep epGood (by decide +kernel) (by decide +kernel) 43 rfl 36).mpr (by decide +kernel)

#print axioms C01_ep
#print axioms C01_ep_promo
#print axioms C01_ep_branches
#print axioms C01_ep_block
#print axioms C01_ep_false_without_E
#print axioms C01_ep_needs_E

end Rawr
