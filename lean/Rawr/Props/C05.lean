import Rawr.Proofs.UciMoves
/-! # C05 — the `position` / `moves` commands (model level)

6. `C05_applyToken_spec` (+ `C05_applyToken_panic`, `Denotes_iff`, `castleFile_eq_some_iff`): one token either denotes a
   legal move — the FIRST legal move printing as the token, or, if none prints so, the castling move of the mover
   designated by a conventional castling string — and then the move is made and its key pushed, with no output;
   or it denotes nothing and is reported as unknown, position and history unchanged. Both directions (`↔`).
7. `applyTokens_eq_foldlM` : `applyTokens` is the left fold of `applyToken`;
   `C05_applyTokens_fold` : position = last of the trace of positions reached, history = their keys (most recent
   first) on top of the old history, output = the reports; lengths; head invariant;
   `C05_doPosition_history` : after `position <fen> moves ts` the history has 1 + (accepted tokens) keys, the oldest
   being the key of the FEN position, the newest the key of the current position. -/
namespace Rawr

/-! ## 6. one token -/

/-- `Denotes` spelled out. -/
theorem Denotes_iff (pos : Position) (t : List Char) (m : Mv) :
    Denotes pos t m ↔
      (∃ as bs, legalMoves pos = as ++ m :: bs ∧ toUciChars pos m = t ∧ ∀ x ∈ as, toUciChars pos x ≠ t) ∨
      ((∀ x ∈ legalMoves pos, toUciChars pos x ≠ t) ∧
        ∃ file, castleFile pos t = some file ∧ m = ⟨4, fromCoords file 0, 6⟩ ∧ m ∈ legalMoves pos ∧
          pos.c0.isSet m.dst = true) := Iff.rfl

/-- the four conventional castling strings, by colour of the mover. -/
theorem castleFile_eq_some_iff (pos : Position) (t : List Char) (f : Nat) :
    castleFile pos t = some f ↔
      (pos.black = false ∧ ((t = str "e1g1" ∧ f = pos.cf0) ∨ (t = str "e1c1" ∧ f = pos.cf1))) ∨
      (pos.black = true ∧ ((t = str "e8g8" ∧ f = pos.cf0) ∨ (t = str "e8c8" ∧ f = pos.cf1))) := by
  have d12 : ¬ str "e1g1" = str "e1c1" := by decide
  have d13 : ¬ str "e1g1" = str "e8g8" := by decide
  have d14 : ¬ str "e1g1" = str "e8c8" := by decide
  have d23 : ¬ str "e1c1" = str "e8g8" := by decide
  have d24 : ¬ str "e1c1" = str "e8c8" := by decide
  have d34 : ¬ str "e8g8" = str "e8c8" := by decide
  unfold castleFile
  by_cases h1 : t = str "e1g1"
  · subst h1
    cases pos.black <;> simp [d12, d13, d14, eq_comm]
  by_cases h2 : t = str "e1c1"
  · subst h2
    cases pos.black <;> simp [Ne.symm d12, d23, d24, eq_comm]
  by_cases h3 : t = str "e8g8"
  · subst h3
    cases pos.black <;> simp [Ne.symm d13, Ne.symm d23, d34, eq_comm]
  by_cases h4 : t = str "e8c8"
  · subst h4
    cases pos.black <;> simp [Ne.symm d14, Ne.symm d24, Ne.symm d34, eq_comm]
  simp [h1, h2, h3, h4]

/-- **C05 (one token)**: accepted ⇔ the token denotes a legal move, which is made (with key update) and whose
key is pushed, silently; rejected ⇔ it denotes none: reported, nothing changes. -/
theorem C05_applyToken_spec (pos : Position) (hist : List BB) (t : List Char)
    (pos' : Position) (hist' : List BB) (out : List String) :
    applyToken pos hist t = some (pos', hist', out) ↔
      (∃ m, Denotes pos t m ∧ pos.makemove m true = some pos' ∧ hist' = pos'.hash :: hist ∧ out = []) ∨
      ((∀ m, ¬ Denotes pos t m) ∧ pos' = pos ∧ hist' = hist ∧
        out = ["info string unknown move " ++ String.ofList t]) := by
  rw [applyToken_eq]
  cases hd : denote pos t with
  | none =>
    have hn := (denote_eq_none_iff pos t).1 hd
    simp only [Option.some.injEq, Prod.mk.injEq]
    constructor
    · rintro ⟨rfl, rfl, rfl⟩
      exact Or.inr ⟨hn, rfl, rfl, rfl⟩
    · rintro (⟨m, hm, _⟩ | ⟨_, rfl, rfl, rfl⟩)
      · exact absurd hm (hn m)
      · exact ⟨rfl, rfl, rfl⟩
  | some m =>
    have hm := (denote_eq_some_iff pos t m).1 hd
    simp only
    constructor
    · intro h
      split at h
      · cases h
      · next np hnp =>
        cases h
        exact Or.inl ⟨m, hm, hnp, rfl, rfl⟩
    · rintro (⟨m', hm', hmk, rfl, rfl⟩ | ⟨hn, _⟩)
      · cases hm.unique hm'
        rw [hmk]
      · exact absurd hm (hn m)

/-- the only way a token can panic: it denotes a legal move on which `makemove` fails. -/
theorem C05_applyToken_panic (pos : Position) (hist : List BB) (t : List Char) :
    applyToken pos hist t = none ↔ ∃ m, Denotes pos t m ∧ pos.makemove m true = none := by
  rw [applyToken_eq]
  cases hd : denote pos t with
  | none =>
    have hn := (denote_eq_none_iff pos t).1 hd
    simp only [reduceCtorEq, false_iff]
    rintro ⟨m, hm, _⟩
    exact hn m hm
  | some m =>
    have hm := (denote_eq_some_iff pos t m).1 hd
    simp only
    constructor
    · intro h
      split at h
      · next hnp => exact ⟨m, hm, hnp⟩
      · cases h
    · rintro ⟨m', hm', hmk⟩
      cases hm.unique hm'
      rw [hmk]

/-- existence direction: every token is handled in exactly one of the three ways. -/
theorem C05_applyToken_cases (pos : Position) (hist : List BB) (t : List Char) :
    (∃ m np, Denotes pos t m ∧ pos.makemove m true = some np ∧ applyToken pos hist t = some (np, np.hash :: hist, [])) ∨
    (∃ m, Denotes pos t m ∧ pos.makemove m true = none ∧ applyToken pos hist t = none) ∨
    ((∀ m, ¬ Denotes pos t m) ∧
      applyToken pos hist t = some (pos, hist, ["info string unknown move " ++ String.ofList t])) := by
  by_cases h : ∃ m, Denotes pos t m
  · obtain ⟨m, hm⟩ := h
    cases hmk : pos.makemove m true with
    | none => exact Or.inr (Or.inl ⟨m, hm, hmk, (C05_applyToken_panic pos hist t).2 ⟨m, hm, hmk⟩⟩)
    | some np =>
      exact Or.inl ⟨m, np, hm, hmk, (C05_applyToken_spec pos hist t _ _ _).2 (Or.inl ⟨m, hm, hmk, rfl, rfl⟩)⟩
  · have hn : ∀ m, ¬ Denotes pos t m := fun m hm => h ⟨m, hm⟩
    exact Or.inr (Or.inr ⟨hn, (C05_applyToken_spec pos hist t _ _ _).2 (Or.inr ⟨hn, rfl, rfl, rfl⟩)⟩)

/-! ## 7. token lists -/

theorem trace_cons_accept {pos np : Position} {t : List Char} {m : Mv} (ts : List (List Char))
    (hm : Denotes pos t m) (hmk : pos.makemove m true = some np) :
    trace (t :: ts) pos = (trace ts np).map (np :: ·) := by
  simp only [trace, (denote_eq_some_iff pos t m).2 hm, hmk]

theorem trace_cons_reject {pos : Position} {t : List Char} (ts : List (List Char))
    (hn : ∀ m, ¬ Denotes pos t m) : trace (t :: ts) pos = trace ts pos := by
  simp only [trace, (denote_eq_none_iff pos t).2 hn]

theorem trace_cons_panic {pos : Position} {t : List Char} {m : Mv} (ts : List (List Char))
    (hm : Denotes pos t m) (hmk : pos.makemove m true = none) : trace (t :: ts) pos = none := by
  simp only [trace, (denote_eq_some_iff pos t m).2 hm, hmk]

/-- every token is either accepted (one more position) or reported (one more line). -/
theorem trace_reports_length {ts : List (List Char)} {pos : Position} {tr : List Position}
    (h : trace ts pos = some tr) : tr.length + (reports ts pos).length = ts.length := by
  induction ts generalizing pos tr with
  | nil => simp only [trace] at h; cases h; rfl
  | cons t ts ih =>
    simp only [trace, reports] at h ⊢
    cases hd : denote pos t with
    | none =>
      rw [hd] at h
      simp only at h ⊢
      have := ih h
      simp only [List.length_cons]; omega
    | some m =>
      rw [hd] at h
      simp only at h ⊢
      cases hmk : pos.makemove m true with
      | none => rw [hmk] at h; cases h
      | some np =>
        rw [hmk] at h
        simp only [Option.map_eq_some_iff] at h ⊢
        obtain ⟨tr', h', e⟩ := h
        subst e
        have := ih h'
        simp only [List.length_cons]; omega

/-- **C05 (token list)**: the final position is the last position reached, the history is the old history with
exactly one key per position reached on top (most recent first), the output is the list of reports.
`tr.length` is the number of accepted tokens. -/
theorem C05_applyTokens_fold (ts : List (List Char)) (pos : Position) (hist : List BB) (out : List String)
    (pos' : Position) (hist' : List BB) (out' : List String)
    (h : applyTokens ts pos hist out = some (pos', hist', out')) :
    ∃ tr, trace ts pos = some tr ∧ pos' = tr.getLastD pos ∧
      hist' = (tr.map (·.hash)).reverse ++ hist ∧ out' = out ++ reports ts pos ∧
      hist'.length = hist.length + tr.length ∧
      out'.length + tr.length = out.length + ts.length ∧
      (hist.head? = some pos.hash → hist'.head? = some pos'.hash) := by
  rw [applyTokens_eq, Option.map_eq_some_iff] at h
  obtain ⟨tr, htr, e⟩ := h
  simp only [Prod.mk.injEq] at e
  obtain ⟨rfl, rfl, rfl⟩ := e
  refine ⟨tr, htr, rfl, rfl, rfl, ?_, ?_, ?_⟩
  · simp only [List.length_append, List.length_reverse, List.length_map]; omega
  · have := trace_reports_length htr
    simp only [List.length_append]; omega
  · intro hh
    rcases List.eq_nil_or_concat tr with rfl | ⟨tr', p, rfl⟩
    · simpa using hh
    · simp [List.getLastD_eq_getLast?]

/-- the positions of the trace are linked by legal moves: each one arises from its predecessor by
`makemove` of a move in `legalMoves`. -/
def LegalChain : Position → List Position → Prop
  | _, [] => True
  | a, b :: l => (∃ m ∈ legalMoves a, a.makemove m true = some b) ∧ LegalChain b l

theorem trace_chain {ts : List (List Char)} {pos : Position} {tr : List Position} (h : trace ts pos = some tr) :
    LegalChain pos tr := by
  induction ts generalizing pos tr with
  | nil => simp only [trace] at h; cases h; trivial
  | cons t ts ih =>
    simp only [trace] at h
    cases hd : denote pos t with
    | none => rw [hd] at h; exact ih h
    | some m =>
      rw [hd] at h
      simp only at h
      cases hmk : pos.makemove m true with
      | none => rw [hmk] at h; cases h
      | some np =>
        rw [hmk] at h
        simp only [Option.map_eq_some_iff] at h
        obtain ⟨tr', h', e⟩ := h
        subst e
        exact ⟨⟨m, ((denote_eq_some_iff pos t m).1 hd).mem, hmk⟩, ih h'⟩

/-! ## the `position` wrapper -/

/-- **C05 (`position`)**: the FEN is parsed (panic iff `setFen` rejects it or a selected move fails in `makemove`);
the history afterwards holds the key of the FEN position (oldest) followed by one key per accepted token, the newest
being the key of the resulting position; the output is the list of unknown-move reports. -/
theorem C05_doPosition_history (ar : Arith) (s s' : UState) (toks : List (List Char)) (out : List String)
    (h : doPosition ar s toks = some (s', out)) :
    ∃ p0 tr, setFen ar s.pos.frc (positionArgs toks).1 = some p0 ∧
      trace (positionArgs toks).2 { p0 with frc := s.pos.frc } = some tr ∧
      s'.pos = { tr.getLastD { p0 with frc := s.pos.frc } with frc := s.frc } ∧
      s'.hist = (tr.map (·.hash)).reverse ++ [p0.hash] ∧
      s'.hist.length = 1 + tr.length ∧
      s'.hist.getLast? = some p0.hash ∧
      s'.hist.head? = some s'.pos.hash ∧
      out = reports (positionArgs toks).2 { p0 with frc := s.pos.frc } ∧
      out.length + tr.length = (positionArgs toks).2.length := by
  rw [doPosition_eq] at h
  split at h
  · cases h
  · next p0 hp0 =>
    split at h
    · cases h
    · next p1 hist1 out1 hap =>
      cases h
      obtain ⟨tr, htr, e1, e2, e3, e4, e5, e6⟩ := C05_applyTokens_fold _ _ _ _ _ _ _ hap
      refine ⟨p0, tr, hp0, htr, by rw [e1], e2, by rw [e4]; simp, by rw [e2]; simp, ?_, by simpa using e3, by simpa using e5⟩
      exact e6 rfl

/-! ## non-vacuity (kernel evaluation of the model) -/
namespace C05Ex

def castleFen : List Char := str "r3k2r/8/8/8/8/8/8/R3K2R w KQkq - 0 1"
def castleFenB : List Char := str "r3k2r/8/8/8/8/8/8/R3K2R b KQkq - 0 1"

/-- an ordinary token: `e2e4` is the first (only) legal move of the start position printing so. -/
example : Denotes Gen.startpos (str "e2e4") ⟨12, 28, 6⟩ :=
  (denote_eq_some_iff _ _ _).1 (by decide +kernel)

/-- accepted: the move is made, one key pushed, no output. -/
example : ∃ np, applyToken Gen.startpos [Gen.startpos.hash] (str "e2e4") = some (np, [np.hash, Gen.startpos.hash], []) ∧
    np.black = true := by
  have h : ((applyToken Gen.startpos [Gen.startpos.hash] (str "e2e4")).map fun r =>
      (r.2.1 == [r.1.hash, Gen.startpos.hash], r.2.2, r.1.black)) = some (true, [], true) := by decide +kernel
  obtain ⟨⟨np, hist, out⟩, h1, h2⟩ := Option.map_eq_some_iff.1 h
  simp only [Prod.mk.injEq, beq_iff_eq] at h2
  obtain ⟨rfl, rfl, hb⟩ := h2
  exact ⟨np, h1, hb⟩

/-- rejected: `e2e5` denotes no move; reported, nothing changes. -/
example : applyToken Gen.startpos [7#64] (str "e2e5") =
    some (Gen.startpos, [7#64], ["info string unknown move e2e5"]) := by decide +kernel

example : ∀ m, ¬ Denotes Gen.startpos (str "e2e5") m := (denote_eq_none_iff _ _).1 (by decide +kernel)

/-- the alias branch (Chess960 notation active, castling prints as king-takes-rook `e1h1`): no legal move
prints as `e1g1`, the token selects the castling move E1xH1 of the mover. -/
example : ((setFen .wrap true castleFen).map fun p =>
    (((legalMoves p).find? fun m => toUciChars p m == str "e1g1"), denote p (str "e1g1"), denote p (str "e1h1"),
      denote p (str "e1c1"), denote p (str "e8g8"))) =
    some (none, some ⟨4, 7, 6⟩, some ⟨4, 7, 6⟩, some ⟨4, 0, 6⟩, none) := by decide +kernel

/-- Black to move: `e8g8`/`e8c8` are the mover's strings, `e1g1` is not. -/
example : ((setFen .wrap true castleFenB).map fun p =>
    (denote p (str "e8g8"), denote p (str "e8c8"), denote p (str "e1g1"))) =
    some (some ⟨4, 7, 6⟩, some ⟨4, 0, 6⟩, none) := by decide +kernel

/-- in standard notation castling prints as `e1g1` itself (first branch). -/
example : ((setFen .wrap false castleFen).map fun p =>
    ((legalMoves p).find? fun m => toUciChars p m == str "e1g1")) = some (some ⟨4, 7, 6⟩) := by decide +kernel

def demo : UState :=
  { hashMb := 0, frc := false, pos := { Gen.startpos with black := true, halfmoves := 7 },
    hist := [1#64, 2#64, 3#64], tt := ⟨#[]⟩ }

/-- `position startpos moves e2e4 zzz e7e5 e1g1` : two accepted tokens, two reports, three keys, the oldest
being the start position's key; the hypothesis of `C05_doPosition_history` is satisfiable. -/
example : ∃ s' out, doPosition .trap demo (splitWs (str "startpos moves e2e4 zzz e7e5 e1g1")) = some (s', out) ∧
    s'.hist.length = 3 ∧ s'.hist.getLast? = some Gen.startpos.hash ∧ s'.hist.head? = some s'.pos.hash ∧
    out = ["info string unknown move zzz", "info string unknown move e1g1"] := by
  have h : ((doPosition .trap demo (splitWs (str "startpos moves e2e4 zzz e7e5 e1g1"))).map fun r =>
      (r.1.hist.length, r.1.hist.getLast?, r.1.hist.head? == some r.1.pos.hash, r.2)) =
      some (3, some Gen.startpos.hash, true, ["info string unknown move zzz", "info string unknown move e1g1"]) := by
    decide +kernel
  obtain ⟨⟨s', out⟩, h1, h2⟩ := Option.map_eq_some_iff.1 h
  simp only [Prod.mk.injEq, beq_iff_eq] at h2
  exact ⟨s', out, h1, h2.1, h2.2.1, h2.2.2.1, h2.2.2.2⟩

/-- a FEN with moves, in the checked arithmetic too. -/
example : ((doPosition .trap demo (splitWs (str "fen r3k2r/8/8/8/8/8/8/R3K2R w KQkq - 0 1 moves e1g1 e8c8 a1a1"))).map
    fun r => (r.1.hist.length, r.2)) = some (3, ["info string unknown move a1a1"]) := by decide +kernel

end C05Ex

#print axioms C05_applyToken_spec
#print axioms C05_applyToken_panic
#print axioms C05_applyToken_cases
#print axioms applyTokens_eq_foldlM
#print axioms C05_applyTokens_fold
#print axioms trace_chain
#print axioms C05_doPosition_history
end Rawr
