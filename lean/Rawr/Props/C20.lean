import Rawr.Proofs.StyleScore
import Rawr.Proofs.StyleChessWF
import Rawr.Gen
/-!
# C20 — style tool: statistics stay consistent and every style score lies in [0,1]

Model: `Rawr.Style` (`Rawr/Model/Style.lean`), a model of `/repo/tools/style/style.py` over exact rationals,
tied to the real script by `tools/style_corr.py`.  Games are *annotated games*; `WFGame side g`
(`Rawr/Proofs/StyleWF.lean`) lists the chess facts about games from the standard starting position that
the theorems use (fewer than 1024 half-moves; own pawns never move to their first two ranks; final
material ≤ 206; early pawn arrivals on rank `r+1` ≤ those on rank `r` for the 4th…7th rank).
`Q.val : Q → ℚ` is the rational denoted by a model fraction, `Unit01 x` says `x` has a positive
denominator and `0 ≤ x.val ≤ 1`.

* `WFGame` is not an assumption about chess: `C20_wf_of_chess` derives it from `Rawr.Spec` for every
  annotated game that agrees with a legal move sequence (< 1024 half-moves) from the standard starting
  position; the `*_chess` theorems at the end restate (a)–(c) for such games (`ChessGame`).
* (a) `C20a_*`: the invariant `Inv` holds of `Stats()`, is preserved by `analyse_game`, implies
  `is_valid`, and no index is ever out of range.
* (b) `C20b_*`: every feature and every score that returns is in `[0,1]`; the only exception a score
  function can raise is `ZeroDivisionError` (so no range assertion ever fails, over ℚ).
* (c) `C20c_full v`: "no exception for any set of games", for the script text `v`.
  It is FALSE for the current text (`C20c_refuted`: one game without moves), TRUE for the text with
  the four proposed zero guards (`C20c_guarded`), and for the current text the exact condition for an
  abort is `total_captures = 0 ∨ total_noncaptures = 0` with at least one game (`C20c_partial`,
  `C20c_exact`).
-/
namespace Rawr.Style

/-! ## (a) consistency -/

/-- the invariant holds of a fresh `Stats()` and implies `is_valid`. -/
theorem C20a_init : Inv Stats.fresh ∧ isValid Stats.fresh = .ok true :=
  ⟨inv_fresh, isValid_of_inv inv_fresh⟩

/-- one analysed game: from any state satisfying the invariant, `analyse_game` on a well-formed game
returns (no `IndexError`: ply < 1024, material ≤ 206, distance ≤ 7, rank ≤ 7), the invariant holds again
and `is_valid` is true. -/
theorem C20a_step (g : Game) (side : Color) (s : Stats) (hI : Inv s) (hwf : WFGame side g) :
    ∃ s', analyseGame g side s = .ok s' ∧ Inv s' ∧ isValid s' = .ok true := by
  obtain ⟨s', h1, h2, _⟩ := analyseGame_inv g side s hI hwf
  exact ⟨s', h1, h2, isValid_of_inv h2⟩

/-- any set of games, analysed for either side in any order: `analyse_pgn` (which asserts `is_valid`
after every game) returns, and the accumulated statistics satisfy the invariant and `is_valid`. -/
theorem C20a (jobs : List (Game × Color)) (hwf : ∀ j ∈ jobs, WFGame j.2 j.1) :
    ∃ s, analysePgn jobs Stats.fresh = .ok s ∧ Inv s ∧ isValid s = .ok true ∧ s.numGames = jobs.length := by
  obtain ⟨s, h1, h2, h3⟩ := analysePgn_inv jobs Stats.fresh inv_fresh hwf
  exact ⟨s, h1, h2, isValid_of_inv h2, h3.trans (Nat.zero_add _)⟩

/-! ## (b) ranges -/

/-- every feature of every score function: a returned value is in `[0,1]`, a raised exception is
`ZeroDivisionError`. -/
theorem C20b_features {s : Stats} (hI : Inv s) (v : Variant) (f : Feature)
    (hf : f ∈ Aggression.features v ++ Positional.features v ++ PawnPusher.features) :
    (∀ x, f.func s = .ok x → Unit01 x) ∧ (∀ e, f.func s = .error e → e = .zeroDivision) := by
  simp only [List.mem_append] at hf
  rcases hf with (hf | hf) | hf
  · exact aggr_features_safe hI v f hf
  · exact pos_features_safe hI v f hf
  · exact (pawn_features_ok s f hf).safe

/-- every score that is returned is in `[0,1]`; `None` is returned exactly when there are no games; the
only possible exception is `ZeroDivisionError` (in particular neither range assertion can fail). -/
theorem C20b_scores {s : Stats} (hI : Inv s) (v : Variant) :
    (∀ q, getAggressionScore v s = .ok (some q) → Unit01 q) ∧
    (∀ q, getPositionalScore v s = .ok (some q) → Unit01 q) ∧
    (∀ q, getPawnPusherScore s = .ok (some q) → Unit01 q) ∧
    (∀ e, getAggressionScore v s = .error e → e = .zeroDivision) ∧
    (∀ e, getPositionalScore v s = .error e → e = .zeroDivision) ∧
    (∀ e, getPawnPusherScore s ≠ .error e) ∧
    (s.numGames = 0 → getAggressionScore v s = .ok none ∧ getPositionalScore v s = .ok none ∧
      getPawnPusherScore s = .ok none) := by
  have ha := getAggressionScore_spec hI v
  have hp := getPositionalScore_spec hI v
  have hw := getPawnPusherScore_spec s
  refine ⟨ha.2.1, hp.2.1, hw.2.1, ha.2.2.1, hp.2.2.1, ?_, fun h0 => ⟨ha.1 h0, hp.1 h0, hw.1 h0⟩⟩
  intro e he
  by_cases hn : s.numGames = 0
  · rw [hw.1 hn] at he; cases he
  · obtain ⟨q, hq, _⟩ := hw.2.2 (by omega)
    rw [hq] at he; cases he

/-! ## (c) no abort -/

/-- the run for one filter does not raise, whatever the (well-formed) games. -/
def C20c_full (v : Variant) : Prop :=
  ∀ jobs : List (Game × Color), (∀ j ∈ jobs, WFGame j.2 j.1) → ∃ r, runTool v jobs = .ok r

/-- what `main` computes from statistics satisfying the invariant. -/
theorem mainScores_spec {s : Stats} (hI : Inv s) (v : Variant) :
    (∀ e, mainScores v s = .error e → e = .zeroDivision) ∧
    (∀ sc, mainScores v s = .ok (some sc) →
      (∀ q, sc.aggressive = some q → Unit01 q) ∧ (∀ q, sc.positional = some q → Unit01 q) ∧
      (∀ q, sc.pawnPusher = some q → Unit01 q)) ∧
    ((s.numGames = 0 ∨ ((v = .guarded ∨ 0 < s.totalCaptures) ∧ (v = .guarded ∨ 0 < s.totalNoncaptures))) →
      ∃ r, mainScores v s = .ok r) := by
  have ha := getAggressionScore_spec hI v
  have hp := getPositionalScore_spec hI v
  have hw := getPawnPusherScore_spec s
  by_cases hn : s.numGames = 0
  · have hg : mainScores v s = .ok none := by unfold mainScores; rw [if_pos (by omega)]
    rw [hg]
    exact ⟨fun e he => (by cases he), fun sc hsc => (by cases hsc), fun _ => ⟨_, rfl⟩⟩
  · have hn' : ¬ s.numGames ≤ 0 := by omega
    obtain ⟨w, hwq, hwu⟩ := hw.2.2 (by omega)
    cases hA : getAggressionScore v s with
    | error e =>
      have hg : mainScores v s = .error e := by
        unfold mainScores; rw [if_neg hn']; simp only [hA, bind, Except.bind]
      rw [hg]
      refine ⟨fun e' he' => (by cases he'; exact ha.2.2.1 e hA), fun sc hsc => (by cases hsc), fun hc => ?_⟩
      rcases hc with hc | ⟨hc, hnc⟩
      · exact absurd hc hn
      · obtain ⟨q, hq, _⟩ := ha.2.2.2 (by omega) hc hnc
        rw [hq] at hA; cases hA
    | ok a =>
      cases hP : getPositionalScore v s with
      | error e =>
        have hg : mainScores v s = .error e := by
          unfold mainScores; rw [if_neg hn']; simp only [hA, hP, bind, Except.bind]
        rw [hg]
        refine ⟨fun e' he' => (by cases he'; exact hp.2.2.1 e hP), fun sc hsc => (by cases hsc), fun hc => ?_⟩
        rcases hc with hc | ⟨hc, _⟩
        · exact absurd hc hn
        · obtain ⟨q, hq, _⟩ := hp.2.2.2 (by omega) hc
          rw [hq] at hP; cases hP
      | ok p =>
        have hg : mainScores v s = .ok (some ⟨a, p, some w⟩) := by
          unfold mainScores; rw [if_neg hn']; simp only [hA, hP, hwq, bind, Except.bind, pure, Except.pure]
        rw [hg]
        refine ⟨fun e he => (by cases he), fun sc hsc => ?_, fun _ => ⟨_, rfl⟩⟩
        cases hsc
        refine ⟨fun q hq => ?_, fun q hq => ?_, fun q hq => ?_⟩
        · have hq' : a = some q := hq
          exact ha.2.1 q (by rw [hA, hq'])
        · have hq' : p = some q := hq
          exact hp.2.1 q (by rw [hP, hq'])
        · cases hq; exact hwu

/-- the game without moves, a draw: final board = starting position. -/
def zeroMoveGame : Game :=
  { result := .draw, plies := [], finalWhite := ⟨8, 2, 2, 2, 1⟩, finalBlack := ⟨8, 2, 2, 2, 1⟩ }

theorem zeroMoveGame_wf : WFGame WHITE zeroMoveGame := by decide

/-- the current script aborts with `ZeroDivisionError` on a single game without moves … -/
theorem C20c_witness : runTool .current [(zeroMoveGame, WHITE)] = .error .zeroDivision := by decide +kernel

/-- … hence "never aborts" is false for the current text of the script (finding F9). -/
theorem C20c_refuted : ¬ C20c_full .current := by
  intro h
  obtain ⟨r, hr⟩ := h [(zeroMoveGame, WHITE)] (by
    intro j hj
    simp only [List.mem_cons, List.not_mem_nil, or_false] at hj
    subst hj
    exact zeroMoveGame_wf)
  rw [C20c_witness] at hr
  cases hr

/-- with the four zero guards the full statement holds. -/
theorem C20c_guarded : C20c_full .guarded := by
  intro jobs hwf
  obtain ⟨s, h1, hI, _, _⟩ := C20a jobs hwf
  obtain ⟨r, hr⟩ := (mainScores_spec hI .guarded).2.2 (Or.inr ⟨Or.inl rfl, Or.inl rfl⟩)
  exact ⟨r, by simp only [runTool, h1, bind, Except.bind, hr]⟩

/-- the current text under the guards it lacks: if the analysed side made at least one capture and at
least one non-capture over the whole set (or the set is empty), nothing is raised and all three scores
are in `[0,1]`. -/
theorem C20c_partial (jobs : List (Game × Color)) (hwf : ∀ j ∈ jobs, WFGame j.2 j.1) :
    ∃ s, analysePgn jobs Stats.fresh = .ok s ∧ Inv s ∧
      ((s.numGames = 0 ∨ (0 < s.totalCaptures ∧ 0 < s.totalNoncaptures)) →
        ∃ r, runTool .current jobs = .ok r ∧
          ∀ sc, r = some sc → (∀ q, sc.aggressive = some q → Unit01 q) ∧
            (∀ q, sc.positional = some q → Unit01 q) ∧ (∀ q, sc.pawnPusher = some q → Unit01 q)) := by
  obtain ⟨s, h1, hI, _, _⟩ := C20a jobs hwf
  refine ⟨s, h1, hI, fun hc => ?_⟩
  have hm := mainScores_spec hI .current
  have hrun : runTool .current jobs = mainScores .current s := by
    simp only [runTool, h1, bind, Except.bind]
  obtain ⟨r, hr⟩ := hm.2.2 (by
    rcases hc with hc | ⟨hc, hnc⟩
    · exact Or.inl hc
    · exact Or.inr ⟨Or.inr hc, Or.inr hnc⟩)
  refine ⟨r, by rw [hrun, hr], fun sc hsc => ?_⟩
  subst hsc
  exact hm.2.1 sc hr

/-- for the current text, the exact condition: the run raises iff at least one game was analysed and the
analysed side made no capture or no non-capture at all; and it can only raise `ZeroDivisionError`. -/
theorem C20c_exact (jobs : List (Game × Color)) (hwf : ∀ j ∈ jobs, WFGame j.2 j.1) :
    ∃ s, analysePgn jobs Stats.fresh = .ok s ∧ Inv s ∧
      (runTool .current jobs = .error .zeroDivision ↔
        (0 < s.numGames ∧ (s.totalCaptures = 0 ∨ s.totalNoncaptures = 0))) ∧
      (∀ e, runTool .current jobs = .error e → e = .zeroDivision) := by
  obtain ⟨s, h1, hI, _, _⟩ := C20a jobs hwf
  have hm := mainScores_spec hI .current
  have hrun : runTool .current jobs = mainScores .current s := by
    simp only [runTool, h1, bind, Except.bind]
  refine ⟨s, h1, hI, ⟨fun herr => ?_, fun ⟨hn, hz⟩ => ?_⟩, fun e he => hm.1 e (by rw [← hrun]; exact he)⟩
  · -- it raised: so neither escape clause applies
    by_cases hn : s.numGames = 0
    · obtain ⟨r, hr⟩ := hm.2.2 (Or.inl hn)
      rw [hrun, hr] at herr; cases herr
    · refine ⟨by omega, ?_⟩
      by_cases hc : 0 < s.totalCaptures ∧ 0 < s.totalNoncaptures
      · obtain ⟨r, hr⟩ := hm.2.2 (Or.inr ⟨Or.inr hc.1, Or.inr hc.2⟩)
        rw [hrun, hr] at herr; cases herr
      · omega
  · have hA := getAggressionScore_current_raises hI hn hz
    rw [hrun]
    unfold mainScores
    rw [if_neg (by omega)]
    simp only [hA, bind, Except.bind]

/-! ## non-vacuity -/

/-- `1. e4 d5 2. exd5` analysed for White: one capture, one non-capture, a pawn arriving on the 4th and
the 5th rank. -/
def sampleGame : Game :=
  { result := .whiteWins,
    plies :=
      [ { turn := true, piece := PAWN, frm := 12, «to» := 28, isCapture := false, ksCastle := false,
          qsCastle := false, checkAfter := false, queensW := 1, queensB := 1, rooksW := 2, rooksB := 2,
          knightsW := 2, knightsB := 2, bishopsW := 2, bishopsB := 2, enemyKing := 60 },
        { turn := false, piece := PAWN, frm := 51, «to» := 35, isCapture := false, ksCastle := false,
          qsCastle := false, checkAfter := false, queensW := 1, queensB := 1, rooksW := 2, rooksB := 2,
          knightsW := 2, knightsB := 2, bishopsW := 2, bishopsB := 2, enemyKing := 4 },
        { turn := true, piece := PAWN, frm := 28, «to» := 35, isCapture := true, ksCastle := false,
          qsCastle := false, checkAfter := false, queensW := 1, queensB := 1, rooksW := 2, rooksB := 2,
          knightsW := 2, knightsB := 2, bishopsW := 2, bishopsB := 2, enemyKing := 60 } ],
    finalWhite := ⟨8, 2, 2, 2, 1⟩, finalBlack := ⟨7, 2, 2, 2, 1⟩ }

/-- the hypotheses of `C20a`, `C20c_partial`, `C20c_exact` are satisfiable by a non-trivial game set, … -/
example : ∀ j ∈ [(sampleGame, WHITE), (zeroMoveGame, WHITE)], WFGame j.2 j.1 := by
  intro j hj
  simp only [List.mem_cons, List.not_mem_nil, or_false] at hj
  rcases hj with rfl | rfl
  · exact (wfGame_iff _ _).mp (by decide +kernel)
  · exact zeroMoveGame_wf

/-- … whose statistics have a capture and a non-capture (the guard of `C20c_partial`), … -/
example : (match analysePgn [(sampleGame, WHITE), (zeroMoveGame, WHITE)] Stats.fresh with
    | .ok s => decide (0 < s.totalCaptures ∧ 0 < s.totalNoncaptures ∧ s.numGames = 2)
    | .error _ => false) = true := by decide +kernel

/-- … and on which the current script returns three scores. -/
example : (match runTool .current [(sampleGame, WHITE), (zeroMoveGame, WHITE)] with
    | .ok (some sc) => sc.aggressive.isSome && sc.positional.isSome && sc.pawnPusher.isSome
    | _ => false) = true := by decide +kernel

/-- the refutation witness satisfies the hypotheses of `C20c_full`. -/
example : WFGame WHITE zeroMoveGame ∧ Inv Stats.fresh := ⟨zeroMoveGame_wf, inv_fresh⟩

/-! ## the same, for annotated games of legal chess games from the standard starting position -/

open Rawr.Spec Rawr.Style.Chess in
/-- `g` annotates a legal game of fewer than 1024 half-moves from the standard starting position: per
half-move it states the side to move, the type of the moved piece and the target square correctly, and
its final piece counts are those of the final board.  (Nothing is required of the other annotations.) -/
def ChessGame (g : Game) : Prop :=
  ∃ ms : List Spec.Move, LegalSeq stdStart ms ∧ ms.length < 1024 ∧ Agrees stdStart ms g.plies ∧
    g.finalWhite = countsOf (play stdStart ms).board true ∧
    g.finalBlack = countsOf (play stdStart ms).board false

/-- the well-formedness hypothesis of the theorems above follows from the rules of chess. -/
theorem C20_wf_of_chess {g : Game} (h : ChessGame g) (side : Color) : WFGame side g := by
  obtain ⟨ms, h1, h2, h3, h4, h5⟩ := h
  exact Chess.wfGame_of_legal ms g h1 h2 h3 h4 h5 side

/-- (a) for chess games: any set of legal games, analysed for either side, in any order. -/
theorem C20a_chess (jobs : List (Game × Color)) (h : ∀ j ∈ jobs, ChessGame j.1) :
    ∃ s, analysePgn jobs Stats.fresh = .ok s ∧ Inv s ∧ isValid s = .ok true ∧ s.numGames = jobs.length :=
  C20a jobs (fun j hj => C20_wf_of_chess (h j hj) j.2)

/-- (c) for chess games. -/
def C20c_full_chess (v : Variant) : Prop :=
  ∀ jobs : List (Game × Color), (∀ j ∈ jobs, ChessGame j.1) → ∃ r, runTool v jobs = .ok r

theorem zeroMoveGame_chess : ChessGame zeroMoveGame :=
  ⟨[], trivial, by decide, trivial, by decide +kernel, by decide +kernel⟩

/-- the current script aborts on a legal chess game set (one game without moves). -/
theorem C20c_refuted_chess : ¬ C20c_full_chess .current := by
  intro h
  obtain ⟨r, hr⟩ := h [(zeroMoveGame, WHITE)] (by
    intro j hj
    simp only [List.mem_cons, List.not_mem_nil, or_false] at hj
    subst hj
    exact zeroMoveGame_chess)
  rw [C20c_witness] at hr
  cases hr

/-- with the four zero guards no set of legal chess games makes the tool raise, and all scores are in [0,1]. -/
theorem C20c_guarded_chess : C20c_full_chess .guarded :=
  fun jobs h => C20c_guarded jobs (fun j hj => C20_wf_of_chess (h j hj) j.2)

/-- (b)+(c) for chess games and the current text: the only possible abort is the `ZeroDivisionError`, exactly
when the analysed side has a game but no capture or no non-capture. -/
theorem C20c_exact_chess (jobs : List (Game × Color)) (h : ∀ j ∈ jobs, ChessGame j.1) :
    ∃ s, analysePgn jobs Stats.fresh = .ok s ∧ Inv s ∧
      (runTool .current jobs = .error .zeroDivision ↔
        (0 < s.numGames ∧ (s.totalCaptures = 0 ∨ s.totalNoncaptures = 0))) ∧
      (∀ e, runTool .current jobs = .error e → e = .zeroDivision) :=
  C20c_exact jobs (fun j hj => C20_wf_of_chess (h j hj) j.2)

open Rawr.Spec Rawr.Style.Chess in
/-- non-vacuity: `1. e4 d5 2. exd5` is a `ChessGame`. -/
example : ChessGame sampleGame :=
  ⟨[.normal 12 28 none, .normal 51 35 none, .normal 28 35 none], by decide +kernel, by decide,
    by decide +kernel, by decide +kernel, by decide +kernel⟩

open Rawr.Spec Rawr.Style.Chess in
/-- `stdStart` is the position the harness starts its games from (`gstart 518 518 0` of the driver). -/
example : (∀ s, s < 64 → stdStart.board s =
      (GenPos.startFrom (GenPos.backRank960 518) (GenPos.backRank960 518)).board s) ∧
    (GenPos.startFrom (GenPos.backRank960 518) (GenPos.backRank960 518)).whiteToMove = stdStart.whiteToMove ∧
    (GenPos.startFrom (GenPos.backRank960 518) (GenPos.backRank960 518)).ep = stdStart.ep ∧
    (GenPos.startFrom (GenPos.backRank960 518) (GenPos.backRank960 518)).wK = stdStart.wK ∧
    (GenPos.startFrom (GenPos.backRank960 518) (GenPos.backRank960 518)).wQ = stdStart.wQ ∧
    (GenPos.startFrom (GenPos.backRank960 518) (GenPos.backRank960 518)).bK = stdStart.bK ∧
    (GenPos.startFrom (GenPos.backRank960 518) (GenPos.backRank960 518)).bQ = stdStart.bQ := by
  decide +kernel

end Rawr.Style

open Rawr.Style in
#print axioms C20a_init
open Rawr.Style in
#print axioms C20a_step
open Rawr.Style in
#print axioms C20a
open Rawr.Style in
#print axioms C20b_features
open Rawr.Style in
#print axioms C20b_scores
open Rawr.Style in
#print axioms mainScores_spec
open Rawr.Style in
#print axioms C20c_witness
open Rawr.Style in
#print axioms C20c_refuted
open Rawr.Style in
#print axioms C20c_guarded
open Rawr.Style in
#print axioms C20c_partial
open Rawr.Style in
#print axioms C20c_exact
open Rawr.Style in
#print axioms C20_wf_of_chess
open Rawr.Style in
#print axioms C20a_chess
open Rawr.Style in
#print axioms C20c_refuted_chess
open Rawr.Style in
#print axioms C20c_guarded_chess
open Rawr.Style in
#print axioms C20c_exact_chess
