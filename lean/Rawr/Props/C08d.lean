import Rawr.Proofs.AttackLemmas
import Rawr.Generated.StartPos
/-!
# C08 (d) — the attack queries of attacks.rs are `Spec.attackedBy`

For every position whose boards are consistent (V.1: `Consistent p`), every square, every set of
squares and both sides, `is_sq_attacked`, `is_bb_attacked`, `get_attacked`, `in_check`,
`in_check_them` and `is_safe` (as called for king steps) agree with the coordinate specification
`Spec.attackedBy` / `Spec.inCheck` on the absolute board `(abs p).board`.

* side `them = false` is the mover, `them = true` the opponent; `sideWhite p them` is that side's
  colour; `absSq p.black` maps the mover-relative square to the absolute one (`s ^^^ 56` for Black).
* `is_sq_attacked` reads `lsb` of the attacker's king board: it needs *at most one* king of the
  attacking side (`count (p.p5 &&& p.side them) ≤ 1`; zero kings is fine: `lsb 0 = 64`, `bit 64 = 0`).
  With two kings the statement is false (`C08d_isSqAttacked_two_kings`). `is_bb_attacked`,
  `get_attacked` and `is_safe` need no hypothesis on kings.
* `in_check`/`in_check_them` additionally read `lsb` of the attacked king: exactly one such king.
* on the domain (`ValidPos`) all king hypotheses hold (`…_valid` corollaries).

Proof layers: `Proofs/AttackGeom.lean` (ray walk ⇄ `clearBetween`, symmetry), `Proofs/SpecMirror.lean`
(mirror symmetry of the specification), `Proofs/AttackLemmas.lean` (bitboard tests ⇄ `attackedBy`),
on top of C10 (table look-up = ray walk for all occupancies; leaper geometry).
-/
namespace Rawr
open Spec Att

/-- C08(d), `is_sq_attacked(sq, side)`. -/
theorem C08d_isSqAttacked (p : Position) (hC : Consistent p = true) (sq : Nat) (hsq : sq < 64)
    (them : Bool) (hk : count (p.p5 &&& p.side them) ≤ 1) :
    p.isSqAttacked sq them
      = Spec.attackedBy (abs p).board (sideWhite p them) (absSq p.black sq) := by
  rw [attackedBy_abs p them sq hsq]
  exact isSqAttacked_rel hC sq hsq them hk

/-- C08(d), `is_bb_attacked(bb, side)`: some square of the set is attacked (no hypothesis on kings). -/
theorem C08d_isBbAttacked (p : Position) (hC : Consistent p = true) (bb : BB) (them : Bool) :
    p.isBbAttacked bb them
      = (toList bb).any (fun s => Spec.attackedBy (abs p).board (sideWhite p them) (absSq p.black s)) := by
  rw [isBbAttacked_rel hC bb them]
  rw [Bool.eq_iff_iff, List.any_eq_true, List.any_eq_true]
  constructor
  · rintro ⟨s, hs, h⟩
    exact ⟨s, hs, by rw [attackedBy_abs p them s ((mem_toList bb s).mp hs).1]; exact h⟩
  · rintro ⟨s, hs, h⟩
    exact ⟨s, hs, by rw [← attackedBy_abs p them s ((mem_toList bb s).mp hs).1]; exact h⟩

/-- C08(d), `get_attacked(mask, side)`: the attacked squares of the mask (no hypothesis on kings). -/
theorem C08d_getAttacked (p : Position) (hC : Consistent p = true) (mask : BB) (them : Bool) :
    ∀ s, s < 64 → (p.getAttacked mask them).getLsbD s
      = (mask.getLsbD s && Spec.attackedBy (abs p).board (sideWhite p them) (absSq p.black s)) := by
  intro s hs
  rw [attackedBy_abs p them s hs]
  exact getAttacked_rel hC mask them s hs

/-- C08(d), `in_check()`: the mover is in check. -/
theorem C08d_inCheck (p : Position) (hC : Consistent p = true)
    (hk0 : count (p.p5 &&& p.c0) = 1) (hk1 : count (p.p5 &&& p.c1) ≤ 1) :
    p.inCheck = Spec.inCheck (abs p).board (!p.black) := by
  have := inCheck_abs p false
  simp only [sideWhite, Bool.false_eq_true, if_false, Bool.not_false] at this
  rw [this]
  exact inCheck_rel hC hk0 hk1

/-- C08(d), `in_check_them()`: the side not to move is in check. -/
theorem C08d_inCheckThem (p : Position) (hC : Consistent p = true)
    (hk0 : count (p.p5 &&& p.c0) ≤ 1) (hk1 : count (p.p5 &&& p.c1) = 1) :
    p.inCheckThem = Spec.inCheck (abs p).board p.black := by
  have := inCheck_abs p true
  simp only [sideWhite, if_true, Bool.not_true] at this
  rw [this]
  exact inCheckThem_rel hC hk0 hk1

/-- C08(d), `is_safe` as called by the king-step loop: the target is not attacked by the opponent on
the board from which the piece on `ksq` (the mover's king) has been lifted. -/
theorem C08d_isSafe (p : Position) (hC : Consistent p = true) (ksq : Nat) (hk64 : ksq < 64)
    (hk : p.c0.getLsbD ksq = true) (to : Nat) (hto : to < 64) :
    isSafe to (p.occ ^^^ bit ksq) (p.c1 &&& p.p0) (p.c1 &&& p.p1) (p.c1 &&& p.p2) (p.c1 &&& p.p3)
        (p.c1 &&& p.p4) (p.c1 &&& p.p5)
      = !Spec.attackedBy (Spec.setSq (abs p).board (absSq p.black ksq) none) p.black
          (absSq p.black to) := by
  rw [isSafe_lift hC ksq hk64 hk to hto, absBoard_eq_frame]
  have e := frameB_setSq p.black (relBoard p) ksq none
  simp only [Option.map_none] at e
  rw [← e]
  have := attackedBy_frame p.black (setSq (relBoard p) ksq none) false to hto
  have ec : absCol p.black false = p.black := by unfold absCol; cases p.black <;> rfl
  rw [ec] at this
  rw [this]

/-! ## on the domain -/

theorem C08d_isSqAttacked_valid (p : Position) (hV : ValidPos p = true) (sq : Nat) (hsq : sq < 64)
    (them : Bool) :
    p.isSqAttacked sq them
      = Spec.attackedBy (abs p).board (sideWhite p them) (absSq p.black sq) :=
  C08d_isSqAttacked p (valid_consistent hV) sq hsq them (Nat.le_of_eq (valid_kings hV them))

theorem C08d_inCheck_valid (p : Position) (hV : ValidPos p = true) :
    p.inCheck = Spec.inCheck (abs p).board (!p.black) :=
  C08d_inCheck p (valid_consistent hV) (valid_kings hV false) (Nat.le_of_eq (valid_kings hV true))

theorem C08d_inCheckThem_valid (p : Position) (hV : ValidPos p = true) :
    p.inCheckThem = Spec.inCheck (abs p).board p.black :=
  C08d_inCheckThem p (valid_consistent hV) (Nat.le_of_eq (valid_kings hV false)) (valid_kings hV true)

/-! ## the king hypothesis of `is_sq_attacked` cannot be dropped -/

/-- two kings of the mover on a1 and h8 (and nothing else): g8 is attacked by the h8 king, but
`is_sq_attacked` looks at the `lsb` king (a1) only. -/
def twoKings : Position :=
  { Position.dflt with c0 := 0x8000000000000001#64, p5 := 0x8000000000000001#64 }

theorem C08d_isSqAttacked_two_kings :
    Consistent twoKings = true ∧ twoKings.isSqAttacked 62 false = false ∧
    Spec.attackedBy (abs twoKings).board (sideWhite twoKings false) (absSq twoKings.black 62) = true := by
  decide

/-! ## non-vacuity -/

/-- a position with a check by a slider: white Kg1 (6), Rf1 (5), pawns g2 h2 (14, 15), Nf3 (21);
black Kg8 (62), Qd4 (27, checking along the diagonal d4–g1), Bb7 (49), pawn f7 (53). -/
def attPos : Position :=
  { Position.dflt with
    c0 := (bit 6 ||| bit 5 ||| bit 14 ||| bit 15 ||| bit 21),
    c1 := (bit 62 ||| bit 27 ||| bit 49 ||| bit 53),
    p0 := (bit 14 ||| bit 15 ||| bit 53), p1 := bit 21, p2 := bit 49, p3 := bit 5, p4 := bit 27,
    p5 := (bit 6 ||| bit 62) }

example : Consistent attPos = true ∧ count (attPos.p5 &&& attPos.c0) = 1 ∧
    count (attPos.p5 &&& attPos.c1) = 1 := by decide
/-- the mover is in check by the queen on d4 (f2 is empty), and both sides of the theorem say so. -/
example : attPos.inCheck = true ∧ Spec.inCheck (abs attPos).board (!attPos.black) = true := by decide
example : attPos.isSqAttacked 21 true = true ∧ attPos.isSqAttacked 8 true = false := by decide
/-- the same position with Black to move (mirrored representation): hypotheses hold, the frame change
is not the identity. -/
example : Consistent attPos.flip = true ∧ attPos.flip.black = true ∧
    attPos.flip.inCheckThem = true := by decide
example : ValidPos Gen.startpos = true := by decide +kernel
/-- `is_safe` with the king lifted: f2 (13) is attacked by the queen, h1 (7) is safe. -/
example : attPos.c0.getLsbD 6 = true ∧
    isSafe 13 (attPos.occ ^^^ bit 6) (attPos.c1 &&& attPos.p0) (attPos.c1 &&& attPos.p1)
      (attPos.c1 &&& attPos.p2) (attPos.c1 &&& attPos.p3) (attPos.c1 &&& attPos.p4)
      (attPos.c1 &&& attPos.p5) = false ∧
    isSafe 7 (attPos.occ ^^^ bit 6) (attPos.c1 &&& attPos.p0) (attPos.c1 &&& attPos.p1)
      (attPos.c1 &&& attPos.p2) (attPos.c1 &&& attPos.p3) (attPos.c1 &&& attPos.p4)
      (attPos.c1 &&& attPos.p5) = true := by decide

#print axioms C08d_isSqAttacked
#print axioms C08d_isBbAttacked
#print axioms C08d_getAttacked
#print axioms C08d_inCheck
#print axioms C08d_inCheckThem
#print axioms C08d_isSafe
#print axioms C08d_isSqAttacked_valid
#print axioms C08d_inCheck_valid
#print axioms C08d_inCheckThem_valid
#print axioms C08d_isSqAttacked_two_kings

end Rawr
