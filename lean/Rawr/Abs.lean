import Rawr.Model.MakeMove
import Rawr.Model.MoveGen
import Rawr.Spec.Chess
/-! Abstraction from the engine's mover-relative bitboard position to the absolute specification
position, and the move encoding (castling = king takes own rook, mover-relative squares). -/
namespace Rawr
open Spec

def kindOf : Nat → Kind
  | 0 => .pawn | 1 => .knight | 2 => .bishop | 3 => .rook | 4 => .queen | _ => .king

def kindIdx : Kind → Nat
  | .pawn => 0 | .knight => 1 | .bishop => 2 | .rook => 3 | .queen => 4 | .king => 5

/-- relative square ↔ absolute square. -/
@[inline] def absSq (black : Bool) (s : Nat) : Nat := if black then s ^^^ 56 else s

def absBoard (p : Position) : Board := fun a =>
  if a < 64 then
    let s := absSq p.black a
    match p.pieceOn s with
    | none => none
    | some k =>
      if p.c0.isSet s then some ⟨!p.black, kindOf k⟩
      else if p.c1.isSet s then some ⟨p.black, kindOf k⟩
      else none
  else none

def abs (p : Position) : APos :=
  let opt (b : Bool) (f : Nat) : Option Nat := if b then some f else none
  { board := absBoard p
    whiteToMove := !p.black
    wK := if p.black then opt p.themK p.cf2 else opt p.usK p.cf0
    wQ := if p.black then opt p.themQ p.cf3 else opt p.usQ p.cf1
    bK := if p.black then opt p.usK p.cf0 else opt p.themK p.cf2
    bQ := if p.black then opt p.usQ p.cf1 else opt p.themQ p.cf3
    ep := p.ep.map (absSq p.black)
    half := p.halfmoves
    full := p.fullmoves }

/-- the engine's triple for a specification move of position `p`. -/
def encodeMove (p : Position) (m : Move) : Mv :=
  match m with
  | .normal s t promo =>
    ⟨absSq p.black s, absSq p.black t, match promo with | some k => kindIdx k | none => 6⟩
  | .castle ks => ⟨lsb (p.p5 &&& p.c0), fromCoords (if ks then p.cf0 else p.cf1) 0, 6⟩

/-- the specification move denoted by an engine triple in position `p`. -/
def decodeMove (p : Position) (m : Mv) : Move :=
  if p.c0.isSet m.dst then .castle (m.dst > m.src)
  else .normal (absSq p.black m.src) (absSq p.black m.dst) (if m.promo == 6 then none else some (kindOf m.promo))

/-- V.1 of DESIGN.md §4: board consistency of the engine representation. -/
def Consistent (p : Position) : Bool :=
  (p.c0 &&& p.c1) == 0#64 &&
  (p.p0 &&& p.p1) == 0#64 && (p.p0 &&& p.p2) == 0#64 && (p.p0 &&& p.p3) == 0#64 && (p.p0 &&& p.p4) == 0#64 &&
  (p.p0 &&& p.p5) == 0#64 && (p.p1 &&& p.p2) == 0#64 && (p.p1 &&& p.p3) == 0#64 && (p.p1 &&& p.p4) == 0#64 &&
  (p.p1 &&& p.p5) == 0#64 && (p.p2 &&& p.p3) == 0#64 && (p.p2 &&& p.p4) == 0#64 && (p.p2 &&& p.p5) == 0#64 &&
  (p.p3 &&& p.p4) == 0#64 && (p.p3 &&& p.p5) == 0#64 && (p.p4 &&& p.p5) == 0#64 &&
  (p.c0 ||| p.c1) == (p.p0 ||| p.p1 ||| p.p2 ||| p.p3 ||| p.p4 ||| p.p5)

/-- V of DESIGN.md §4 on the engine representation (V.1, V.2–V.7 via `Spec.Valid`, counters < 2^31, V.8). -/
def ValidPos (p : Position) : Bool :=
  Consistent p && Spec.Valid (abs p) && p.halfmoves < 2147483648 && p.fullmoves < 2147483648 &&
  p.cf0 < 8 && p.cf1 < 8 && p.cf2 < 8 && p.cf3 < 8 &&
  p.hash == p.calculateHash

/-- D = V ∧ E ∧ M. -/
def InD (p : Position) : Bool := ValidPos p && Spec.EpConsistent (abs p) && Spec.LegalMaterial (abs p)

end Rawr

namespace Rawr
open Spec

/-- the engine representation of an absolute position (`frc` is carried separately; key recomputed). -/
def rel (a : APos) (frc : Bool := false) : Position :=
  let black := !a.whiteToMove
  let put (p : Position) (s : Nat) : Position :=
    match a.board s with
    | none => p
    | some pc =>
      let r := absSq black s
      let p := if pc.white == a.whiteToMove then { p with c0 := p.c0 ||| bit r } else { p with c1 := p.c1 ||| bit r }
      p.setPiece (kindIdx pc.kind) (p.piece (kindIdx pc.kind) ||| bit r)
  let p := squares.foldl put Position.dflt
  let (uK, uQ, tK, tQ) := if black then (a.bK, a.bQ, a.wK, a.wQ) else (a.wK, a.wQ, a.bK, a.bQ)
  let p := { p with
    halfmoves := a.half, fullmoves := a.full, black := black, ep := a.ep.map (absSq black),
    usK := uK.isSome, usQ := uQ.isSome, themK := tK.isSome, themQ := tQ.isSome,
    cf0 := uK.getD 7, cf1 := uQ.getD 0, cf2 := tK.getD 7, cf3 := tQ.getD 0, frc := frc }
  { p with hash := p.calculateHash }

end Rawr
