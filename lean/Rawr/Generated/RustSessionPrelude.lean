import Rawr.Generated.RustText
import Rawr.Generated.RustSearch
/-!
# Trusted mapping of the Rust library / environment used by the UCI session layer (hand-written, NOT generated)

`tools/rust2lean_session.py` maps the following to the definitions below:

| Rust                                         | Lean                                                                     |
|----------------------------------------------|--------------------------------------------------------------------------|
| stdout: `print!(..)`                         | `out := out ++ Rawr.T.chars <formatted>` (`out : List Char`, the byte stream) |
| stdout: `println!(..)`, `writeln!(f, ..)`    | `.. ++ Rawr.T.line <formatted>` (the text and `'\n'`)                      |
| lines printed by a callee of RustText.lean   | `Rawr.T.unlines`                                                          |
| `std::io::stdin().read_line(&mut s)`         | result `Rawr.T.readLineRes stdin` (`Ok(n)` = `some n`, `n = 0` at end of input; the input is a list of valid UTF-8 lines, so `Err` does not occur), `s := s ++ Rawr.T.readLineStr stdin`, `stdin := stdin.tail` |
| the `info_printer` callback handed to `root` | `Rawr.T.printAll` over the records `R.root` returns, in order                |
| `Instant::now()` .. `.elapsed()`             | `clock k` nanoseconds at the `k`-th reading; `is_zero` `== 0`, `as_millis` `/ 1000000` |
| `as f64`, `f64 / f64`, `as u64`, `as_secs_f64` | `Rawr.T.F64`: exact non-negative rationals (NOT IEEE rounding; only the `nps` token depends on it and every agreement theorem projects that token away) |
| `settings::Type` handed to `root`            | `Rawr.T.toSettings` (RustText.lean's `T.GoType` to RustSearch.lean's `R.Settings`, constructor by constructor) |
| `size_of::<TTEntry>()`                       | `Rawr.Gen.ttEntrySize` (tools/extract.py)                                 |
-/
namespace Rawr.T

/-- the characters written by `print!` / `write!`. -/
def chars (s : String) : List Char := s.toList

/-- the characters written by `println!` / `writeln!`. -/
def line (s : String) : List Char := s.toList ++ ['\n']

/-- a list of lines as written to the stream. -/
def unlines (ls : List String) : List Char := ls.flatMap line

/-- `read_line`'s result: the number of bytes read (the line and its `'\n'`), `0` at end of input. -/
def readLineRes (stdin : List (List Char)) : Option Nat :=
  match stdin with
  | [] => some 0
  | l :: _ => some (Rawr.strLen l + 1)

/-- what `read_line` appends to its buffer. -/
def readLineStr (stdin : List (List Char)) : List Char :=
  match stdin with
  | [] => []
  | l :: _ => l ++ ['\n']

/-- a printing callback invoked on the items of `l` in order (`none`: an invocation panicked). -/
def printAll {α : Type} (f : α → Option (List Char)) : List α → List Char → Option (List Char)
  | [], out => some out
  | x :: l, out =>
    match f x with
    | none => none
    | some s => printAll f l (out ++ s)

/-- stand-in for `f64` (non-negative): `num / den`; `den = 0` is `inf` (`num > 0`) or `NaN`. -/
structure F64 where
  num : Nat
  den : Nat

def F64.ofNat (n : Nat) : F64 := ⟨n, 1⟩
/-- `Duration::as_secs_f64` of a duration in nanoseconds. -/
def F64.ofNanos (ns : Nat) : F64 := ⟨ns, 1000000000⟩
def F64.div (a b : F64) : F64 := ⟨a.num * b.den, a.den * b.num⟩
/-- `x as u64`: truncation, saturating, `NaN` is `0`. -/
def F64.toU64 (x : F64) : Nat :=
  if x.den = 0 then (if x.num = 0 then 0 else 2^64 - 1) else min (x.num / x.den) (2^64 - 1)

/-- `settings::Type` as RustSearch.lean declares it. -/
def toSettings : GoType → Rawr.R.Settings
  | .time w b wi bi m => .Time w b wi bi m
  | .movetime t => .Movetime t
  | .depth d => .Depth d
  | .nodes n => .Nodes n
  | .infinite => .Infinite
  | .perft d => .Perft d
  | .splitPerft d => .SplitPerft d

end Rawr.T
