import Rawr.Model.Fen
import Rawr.Model.Uci
/-!
# Trusted mapping of Rust library functions used by the text side (hand-written, NOT generated)

`tools/rust2lean_text.py` maps calls of Rust standard-library functions to the definitions below or to the
model's own helpers when those are exactly the library function:

| Rust                                   | Lean                                                        |
|----------------------------------------|-------------------------------------------------------------|
| `str::split(' ')`                      | `Rawr.splitSpace`   (Model/Fen.lean)                         |
| `str::split_ascii_whitespace()`        | `Rawr.splitWs`      (Model/Uci.lean)                         |
| `str::len()` (bytes)                   | `Rawr.strLen`                                               |
| `str::parse::<i32>()`                  | `Rawr.parseI32`     (`Ok v` = `some v`, `Err _` = `none`)     |
| `str::parse::<u8/u32/u64/usize>()`     | `Rawr.parseUnsigned 256 / 2^32 / 2^64 / 2^64`               |
| `i32::to_string()`                     | `Rawr.intToChars`                                           |
| `c as u8`, `b'x'`                      | `Rawr.asU8`                                                 |
| `x as u8` (integer)                    | `Rawr.T.toU8`                                               |
| `u8 as char`                           | `Char.ofNat`                                                |
| `char::to_ascii_uppercase()`           | `Char.toUpper` (ASCII letters only, like Rust)              |
| `a..b` / `a..=b`                       | `Rawr.T.range a b` / `Rawr.T.range a (b+1)`, `List.range b` when `a` is the literal 0 |
| `iter.enumerate()`                     | `List.zipIdx` (pairs are (item, index): the binder order is swapped) |
| `chars().nth(i)`                       | `l[i]?`                                                     |
| `iter.next()`                          | `head?` / `tail`                                            |
| `iter.take_while(p)` on `&mut iter`    | `takeWhile p`, the iterator continues after the first failing item |
| `fold`, `any`, `find`, `contains`      | `List.foldl`, `List.any`, `List.find?`, `List.contains`     |
| `Option::unwrap_or(_default)`          | `Option.getD`                                               |
| `u8::saturating_sub`                   | `Nat` subtraction                                           |
| `str::trim()`                          | `Rawr.rustTrim` (Model/Uci.lean; Unicode `White_Space`)      |
| `u8 + - *`                             | `Rawr.u8add / u8sub / u8mul ar`  (Model/Fen.lean)            |
| `Bitboard::from_square` = `1u64 << sq` | `Rawr.bitAr ar`                                             |
| `Bitboard::ray_east / ray_west`        | `Rawr.rayEastBB / rayWestBB` (Model/Basic.lean)             |
-/
namespace Rawr.T

/-- `lo..hi` on unsigned integers. -/
def range (lo hi : Nat) : List Nat := List.range' lo (hi - lo)

/-- `x as u8` for a non-negative integer. -/
def toU8 (n : Nat) : Nat := n % 256

/-- `search::settings::Type`. -/
inductive GoType where
  | time (wtime btime : Nat) (winc binc movestogo : Option Nat)
  | movetime (t : Nat)
  | depth (d : Int)
  | nodes (n : Nat)
  | infinite
  | perft (d : Nat)
  | splitPerft (d : Nat)
  deriving DecidableEq, Repr

end Rawr.T
