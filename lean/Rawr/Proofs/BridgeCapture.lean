import Rawr.Props.C01_shape
import Rawr.Proofs.MakeMoveAbsD
/-! Bridge for C08: the engine's `is_capture` agrees, on every generated move, with "capture" in the sense
of the rules (`Spec.isCaptureMove`: the target square is occupied, or a pawn leaves its file — en passant;
castling, encoded as "king takes own rook", is not a capture). Only `ValidPos` is needed. -/
namespace Rawr.Br
open Rawr Rawr.Position Rawr.Spec Rawr.ZH Rawr.MM Rawr.SV

theorem isCapture_of_genOk {p : Position} (hV : ValidPos p = true) {g : GMv} (ok : GenOk p g) :
    p.isCapture g.mv = Spec.isCaptureMove (abs p) (decodeMove p g.mv) := by
  obtain ⟨hC, _⟩ := valid_unpack hV
  have vf := vfacts_of_valid hV
  have hpo := ok.tag
  have h0s : p.c0.getLsbD g.mv.src = true := ok.own
  have hi6 := ZH.pieceOn_lt hpo
  have hp0 : p.p0.getLsbD g.mv.src = (g.piece == 0) := by
    have := piece_bit hC g.mv.src 0
    simp only [Position.piece] at this
    rw [this, hpo]
    rfl
  have hdecC : p.c0.getLsbD g.mv.dst = true → decodeMove p g.mv = .castle (decide (g.mv.dst > g.mv.src)) := by
    intro h; unfold decodeMove; rw [BB.isSet, h]; rfl
  have hdecN : p.c0.getLsbD g.mv.dst = false → decodeMove p g.mv =
      .normal (absSq p.black g.mv.src) (absSq p.black g.mv.dst)
        (if (g.mv.promo == 6) = true then none else some (kindOf g.mv.promo)) := by
    intro h; unfold decodeMove; rw [BB.isSet, h]; rfl
  show (p.c1.getLsbD g.mv.dst || (p.p0.getLsbD g.mv.src && p.ep.isSome && p.ep == some g.mv.dst)) = _
  by_cases h0d : p.c0.getLsbD g.mv.dst = true
  · -- castling
    rw [hdecC h0d]
    obtain ⟨h5, _⟩ := ok.dst_own h0d
    have hd := disj_bit hC g.mv.dst
    rw [h0d, Bool.true_and] at hd
    rw [hd, hp0, h5]
    rfl
  · have h0d' : p.c0.getLsbD g.mv.dst = false := by simpa using h0d
    rw [hdecN h0d']
    have hsrc : (abs p).board (absSq p.black g.mv.src) = some ⟨!p.black, kindOf g.piece⟩ := by
      show absBoard p _ = _
      rw [(view_of_consistent hC).absBoard (absSq_lt _ ok.src_lt)]
      simp only [absSq_absSq, hpo, h0s, if_true]
    have hdst : ((abs p).board (absSq p.black g.mv.dst)).isSome = p.c1.getLsbD g.mv.dst := by
      show (absBoard p _).isSome = _
      rw [(view_of_consistent hC).absBoard (absSq_lt _ ok.dst_lt)]
      simp only [absSq_absSq]
      cases hc : p.c1.getLsbD g.mv.dst
      · rw [empty_piece hC h0d' hc]; rfl
      · have := occ_bit hC g.mv.dst
        rw [h0d', hc] at this
        cases hp : p.pieceOn g.mv.dst with
        | none => rw [hp] at this; cases this
        | some c => simp [h0d']
    unfold Spec.isCaptureMove
    simp only [hsrc, hdst]
    rw [kindOf_pawn hi6, file_absSq _ ok.src_lt, file_absSq _ ok.dst_lt, int_bne, hp0]
    cases hc : p.c1.getLsbD g.mv.dst
    · simp only [Bool.false_or]
      by_cases hi : g.piece = 0
      · rw [hi]
        simp only [beq_self_eq_true, Bool.true_and]
        have hd0 := disj_bit hC g.mv.src
        rw [h0s, Bool.true_and] at hd0
        have hne : ∀ e, p.ep = some e → e = g.mv.dst → fileOf g.mv.src ≠ fileOf g.mv.dst := by
          intro e he hed
          subst hed
          obtain ⟨_, hr, _, _, hpw⟩ := vf.ep _ he
          simp only [BitVec.getLsbD_and, Bool.and_eq_true] at hpw
          rcases ok.pawn hi with ⟨h1, _⟩ | ⟨h1, h2, _⟩ | ⟨_, _, h3⟩ | ⟨_, _, h3⟩ | ⟨_, h2, _⟩
          · exfalso
            have : g.mv.dst - 8 = g.mv.src := by omega
            rw [this, hd0] at hpw
            exact absurd hpw.1 (by simp)
          · exfalso
            unfold rankOf at hr h1
            omega
          · rw [hc] at h3; cases h3
          · rw [hc] at h3; cases h3
          · unfold fileOf at h2 ⊢
            rcases h2 with ⟨_, h2⟩ | ⟨_, h2⟩ <;> omega
        cases hep : p.ep with
        | none =>
          simp only [Option.isSome_none, Bool.false_and]
          rcases ok.pawn hi with ⟨h1, _⟩ | ⟨_, h1, _⟩ | ⟨_, _, h3⟩ | ⟨_, _, h3⟩ | ⟨h1, _⟩
          · unfold fileOf; rw [h1]; simp
          · unfold fileOf; rw [h1]; simp; omega
          · rw [hc] at h3; cases h3
          · rw [hc] at h3; cases h3
          · rw [hep] at h1; cases h1
        | some e =>
          simp only [Option.isSome_some, Bool.true_and]
          by_cases hed : e = g.mv.dst
          · have := hne e hep hed
            rw [hed]
            simp [this]
          · have h1 : (some e == some g.mv.dst) = false := by simp [hed]
            rw [h1]
            rcases ok.pawn hi with ⟨h1, _⟩ | ⟨_, h1, _⟩ | ⟨_, _, h3⟩ | ⟨_, _, h3⟩ | ⟨h1, _⟩
            · unfold fileOf; rw [h1]; simp
            · unfold fileOf; rw [h1]; simp; omega
            · rw [hc] at h3; cases h3
            · rw [hc] at h3; cases h3
            · rw [hep] at h1; exact absurd (Option.some.inj h1) hed
      · have : (g.piece == 0) = false := by simpa using hi
        rw [this]
        rfl
    · rfl

end Rawr.Br
