import Rawr.Proofs.AttackLemmas
import Rawr.Proofs.CountLemmas
import Rawr.Proofs.HashValid
/-!
# C01, king steps and castling: generator ⇄ `Spec.legalMoves` (helper lemmas)
-/
namespace Rawr.Att
open Spec

/-! ### specification side: the moves of `pseudoFrom` start on the square they are listed for -/

def srcIs (s : Nat) : Move → Prop
  | .normal a _ _ => a = s
  | .castle _ => False

theorem mem_ite_nil {α} {c : Prop} [Decidable c] {l : List α} {x : α} (h : x ∈ (if c then l else [])) : x ∈ l := by
  split at h
  · exact h
  · cases h

theorem mem_ite_nil' {α} {c : Prop} [Decidable c] {l : List α} {x : α} (h : x ∈ (if c then [] else l)) : x ∈ l := by
  split at h
  · cases h
  · exact h

theorem src_single {s t : Nat} {pr : Option Kind} {m : Move} (h : m ∈ [Move.normal s t pr]) : srcIs s m := by
  rw [List.mem_singleton] at h; subst h; rfl

theorem src_promo {s t : Nat} {c : Prop} [Decidable c] {m : Move}
    (h : m ∈ (if c then promoKinds.map (fun k => Move.normal s t (some k)) else [Move.normal s t none])) :
    srcIs s m := by
  split at h
  · rw [List.mem_map] at h; obtain ⟨k, _, rfl⟩ := h; rfl
  · exact src_single h

theorem src_cap {s t : Nat} {m : Move} {o : Option Piece} {w : Bool} {c1 c2 : Prop} [Decidable c1] [Decidable c2]
    (h : m ∈ (match o with
      | some q => if (q.white != w) = true then
          (if c1 then promoKinds.map (fun k => Move.normal s t (some k)) else [Move.normal s t none]) else []
      | none => if c2 then [Move.normal s t none] else [])) : srcIs s m := by
  cases o with
  | none => exact src_single (mem_ite_nil h)
  | some q => exact src_promo (mem_ite_nil h)

theorem pseudoFrom_src (P : APos) (s : Nat) : ∀ m ∈ pseudoFrom P s, srcIs s m := by
  intro m hm
  unfold pseudoFrom at hm
  cases hB : P.board s with
  | none => rw [hB] at hm; cases hm
  | some pc =>
    rw [hB] at hm
    dsimp only at hm
    have hm := mem_ite_nil' hm
    obtain ⟨w, kd⟩ := pc
    cases kd
    · dsimp only at hm
      simp only [List.flatMap_cons, List.flatMap_nil, List.append_nil] at hm
      rcases List.mem_append.mp hm with h | h
      · rcases List.mem_append.mp (mem_ite_nil h) with h | h
        · exact src_promo h
        · exact src_single (mem_ite_nil h)
      · rcases List.mem_append.mp h with h | h
        · exact src_cap (mem_ite_nil h)
        · exact src_cap (mem_ite_nil h)
    all_goals
      dsimp only at hm
      rw [List.mem_map] at hm
      obtain ⟨t, _, rfl⟩ := hm; rfl

theorem mem_pseudoFrom_king (P : APos) (s : Nat) (hB : P.board s = some ⟨P.whiteToMove, .king⟩)
    (m : Move) :
    m ∈ pseudoFrom P s ↔ ∃ t, t < 64 ∧ kingStep s t = true ∧
      (match P.board t with | some q => q.white != P.whiteToMove | none => true) = true ∧
      m = Move.normal s t none := by
  unfold pseudoFrom
  rw [hB]
  simp only [bne_self_eq_false, Bool.false_eq_true, if_false, List.mem_map, List.mem_filter, squares,
    List.mem_range, Bool.and_eq_true]
  constructor
  · rintro ⟨t, ⟨h1, h2, h3⟩, rfl⟩; exact ⟨t, h1, h2, h3, rfl⟩
  · rintro ⟨t, h1, h2, h3, rfl⟩; exact ⟨t, ⟨h1, h2, h3⟩, rfl⟩

theorem mem_legal_normal (P : APos) (a b : Nat) (pr : Option Kind) :
    Move.normal a b pr ∈ Spec.legalMoves P ↔
      (a < 64 ∧ Move.normal a b pr ∈ pseudoFrom P a) ∧
        Spec.inCheck (apply P (.normal a b pr)).board P.whiteToMove = false := by
  unfold Spec.legalMoves
  simp only [List.mem_append, List.mem_filter, List.mem_flatMap, List.mem_map, squares, List.mem_range,
    Bool.not_eq_true', reduceCtorEq, and_false, exists_false, or_false]
  constructor
  · rintro ⟨⟨s, hs, hm⟩, hc⟩
    have : a = s := pseudoFrom_src P s _ hm
    subst this
    exact ⟨⟨hs, hm⟩, hc⟩
  · rintro ⟨⟨hs, hm⟩, hc⟩
    exact ⟨⟨a, hs, hm⟩, hc⟩

/-! ### generator side: where a king-tagged move can come from -/

theorem mem_gen_king (p : Position) (k to : Nat) :
    gm 5 k to 6 ∈ moveGenerator p ↔
      (k ∈ toList (p.p5 &&& p.c0) ∧ to ∈ kingTargetsSafe p k) ∨
      (castleOk p (prelude p) p.usK (fromCoords p.cf0 0) 6 5 = true ∧ k = (prelude p).ksq ∧
        to = fromCoords p.cf0 0) ∨
      (castleOk p (prelude p) p.usQ (fromCoords p.cf1 0) 2 3 = true ∧ k = (prelude p).ksq ∧
        to = fromCoords p.cf1 0) := by
  have ne : ∀ {pc a b pr : Nat}, pc ≠ 5 → gm pc a b pr ≠ gm 5 k to 6 := by
    intro pc a b pr h e
    exact h (congrArg GMv.piece e)
  unfold moveGenerator
  simp only [List.mem_append, List.mem_flatMap, List.mem_map]
  constructor
  · intro hg
    rcases hg with ((((((((((((((⟨a, ha, hga⟩ | ⟨a, ha, hga⟩) | ⟨a, ha, hga⟩) | ⟨a, ha, hga⟩) | hep) |
      ⟨a, ha, b, -, hga⟩) | ⟨a, ha, b, -, hga⟩) | ⟨a, ha, b, -, hga⟩) | ⟨a, ha, b, -, hga⟩) |
      ⟨a, ha, b, -, hga⟩) | ⟨a, ha, b, -, hga⟩) | ⟨a, ha, b, -, hga⟩) | ⟨a, ha, b, -, hga⟩) |
      ⟨a, ha, b, hb, hga⟩) | hc) | hc
    · exact absurd (mem_pawnArrive hga).1 (show ¬ (5 : Nat) = 0 by decide)
    · exact absurd hga (ne (by decide))
    · exact absurd (mem_pawnArrive hga).1 (show ¬ (5 : Nat) = 0 by decide)
    · exact absurd (mem_pawnArrive hga).1 (show ¬ (5 : Nat) = 0 by decide)
    · split at hep
      · cases hep
      · simp only [List.mem_append] at hep
        rcases hep with hep | hep <;> split at hep
        · exact absurd (List.mem_singleton.mp hep).symm (ne (by decide))
        · cases hep
        · exact absurd (List.mem_singleton.mp hep).symm (ne (by decide))
        · cases hep
    · exact absurd hga (ne (by decide))
    · exact absurd hga (ne (by decide))
    · exact absurd hga (ne (by decide))
    · exact absurd hga (ne (by decide))
    · exact absurd hga (ne (by decide))
    · exact absurd hga (ne (by decide))
    · exact absurd hga (ne (by decide))
    · exact absurd hga (ne (by decide))
    · left
      have e1 : a = k := congrArg (fun g => g.mv.src) hga
      have e2 : b = to := congrArg (fun g => g.mv.dst) hga
      subst e1; subst e2
      exact ⟨ha, hb⟩
    · right; left
      split at hc
      · rename_i hco
        have e := List.mem_singleton.mp hc
        exact ⟨hco, congrArg (fun g => g.mv.src) e, congrArg (fun g => g.mv.dst) e⟩
      · cases hc
    · right; right
      split at hc
      · rename_i hco
        have e := List.mem_singleton.mp hc
        exact ⟨hco, congrArg (fun g => g.mv.src) e, congrArg (fun g => g.mv.dst) e⟩
      · cases hc
  · rintro (⟨hk, ht⟩ | ⟨hc, rfl, rfl⟩ | ⟨hc, rfl, rfl⟩)
    · exact Or.inl (Or.inl (Or.inr ⟨k, hk, to, ht, rfl⟩))
    · exact Or.inl (Or.inr (by rw [if_pos hc]; exact List.mem_singleton_self _))
    · exact Or.inr (by rw [if_pos hc]; exact List.mem_singleton_self _)



/-! ### attacks do not depend on what stands on the attacked square -/

theorem pieceAttacks_congr (B B' : Board) (s t : Nat) (hs : s < 64) (ht : t < 64)
    (h : ∀ x, x < 64 → Between s t x → B x = B' x) (pc : Piece) :
    pieceAttacks B s pc t = pieceAttacks B' s pc t := by
  rw [pieceAttacks_split, pieceAttacks_split, diagAtt_congr B B' s t hs ht h,
    orthAtt_congr B B' s t hs ht h]

theorem pieceAttacks_self (B : Board) (t : Nat) (pc : Piece) : pieceAttacks B t pc t = false := by
  rw [pieceAttacks_split]
  obtain ⟨w, kd⟩ := pc
  cases kd <;> simp [pawnStep, knightStep, kingStep, diagAtt, orthAtt]

/-- general congruence: same attackers of colour `w`, same squares between each of them and `t`. -/
theorem attackedBy_congr (B B' : Board) (w : Bool) (t : Nat) (ht : t < 64)
    (hatt : ∀ s, s < 64 → s ≠ t → ∀ pc : Piece, pc.white = w → (B s = some pc ↔ B' s = some pc))
    (hbtw : ∀ s, s < 64 → ∀ pc : Piece, pc.white = w → B s = some pc →
      ∀ x, x < 64 → Between s t x → B x = B' x) :
    attackedBy B w t = attackedBy B' w t := by
  unfold attackedBy squares
  apply any_range_congr
  intro s hs
  by_cases hst : s = t
  · subst hst
    cases B s <;> cases B' s <;> simp [pieceAttacks_self]
  · cases hB : B s with
    | none =>
      cases hB' : B' s with
      | none => rfl
      | some pc' =>
        by_cases hw : pc'.white = w
        · have := (hatt s hs hst pc' hw).mpr hB'
          rw [hB] at this; cases this
        · simp [hw]
    | some pc =>
      by_cases hw : pc.white = w
      · have hB' := (hatt s hs hst pc hw).mp hB
        rw [hB']
        simp only [pieceAttacks_congr B B' s t hs ht (hbtw s hs pc hw hB) pc]
      · cases hB' : B' s with
        | none => simp [hw]
        | some pc' =>
          by_cases hw' : pc'.white = w
          · have := (hatt s hs hst pc' hw').mpr hB'
            rw [hB] at this
            have := Option.some.inj this
            subst this
            exact absurd hw' hw
          · have e1 : (pc.white == w) = false := by simpa using hw
            have e2 : (pc'.white == w) = false := by simpa using hw'
            simp only [e1, e2, Bool.false_and]

theorem attackedBy_setSq_target (B : Board) (w : Bool) (t : Nat) (ht : t < 64) (v : Option Piece) :
    attackedBy (setSq B t v) w t = attackedBy B w t := by
  apply attackedBy_congr _ _ w t ht
  · intro s _ hst pc _
    simp [setSq, hst]
  · intro s _ pc _ _ x _ hx
    simp [setSq, (between_ne hx).2]

/-! ### the board after a king step -/

theorem apply_board_king (P : APos) (a b : Nat) (w : Bool) (hB : P.board a = some ⟨w, .king⟩) :
    (apply P (.normal a b none)).board = setSq (setSq P.board a none) b (some ⟨w, .king⟩) := by
  unfold apply
  simp [hB]

theorem any_range_single {n b : Nat} (hb : b < n) (f : Nat → Bool) :
    (List.range n).any (fun s => decide (s = b) && f s) = f b := by
  rw [Bool.eq_iff_iff, List.any_eq_true]
  constructor
  · rintro ⟨s, _, h⟩
    simp only [Bool.and_eq_true, decide_eq_true_eq] at h
    rw [← h.1]; exact h.2
  · intro h; exact ⟨b, List.mem_range.mpr hb, by simp [h]⟩

/-- after the only king of colour `w` has stepped from `a` to `b`, "in check" means "`b` attacked on
the board with the king lifted". -/
theorem inCheck_after_king_step (B : Board) (w : Bool) (a b : Nat) (hb : b < 64)
    (huniq : ∀ s, s < 64 → B s = some ⟨w, .king⟩ → s = a) :
    Spec.inCheck (setSq (setSq B a none) b (some ⟨w, .king⟩)) w
      = attackedBy (setSq B a none) (!w) b := by
  unfold Spec.inCheck kingSquares squares
  rw [List.any_filter]
  have : ∀ s, s < 64 →
      ((setSq (setSq B a none) b (some ⟨w, .king⟩) s == some ⟨w, .king⟩)
        && attackedBy (setSq (setSq B a none) b (some ⟨w, .king⟩)) (!w) s)
      = (decide (s = b) && attackedBy (setSq (setSq B a none) b (some ⟨w, .king⟩)) (!w) s) := by
    intro s hs
    congr 1
    rw [Bool.eq_iff_iff, beq_iff_eq, decide_eq_true_iff]
    unfold setSq
    by_cases e : s = b
    · simp [e]
    · by_cases e' : s = a
      · simp [e']
      · simp only [e, e', if_false, iff_false]
        intro h; exact e' (huniq s hs h)
  rw [any_range_congr this, any_range_single hb, attackedBy_setSq_target _ _ b hb]



/-! ### reading the absolute board through the frame -/

theorem frameB_at (black : Bool) (B : Board) (s : Nat) :
    frameB black B (absSq black s) = (B s).map (framePiece black) := by
  unfold frameB absSq framePiece
  cases black
  · simp
  · simp only [if_true]; exact mirrorB_x56 B s

theorem abs_at (p : Position) (s : Nat) :
    (abs p).board (absSq p.black s) = (relBoard p s).map (framePiece p.black) := by
  rw [absBoard_eq_frame, frameB_at]

theorem abs_at' (p : Position) (a : Nat) :
    (abs p).board a = (relBoard p (absSq p.black a)).map (framePiece p.black) := by
  rw [← abs_at, absSq_absSq]

theorem framePiece_us (black : Bool) (kd : Kind) : framePiece black ⟨true, kd⟩ = ⟨!black, kd⟩ := by
  cases black <;> rfl
theorem framePiece_them (black : Bool) (kd : Kind) : framePiece black ⟨false, kd⟩ = ⟨black, kd⟩ := by
  cases black <;> rfl

theorem framePiece_inj (black : Bool) (a b : Piece) (h : framePiece black a = framePiece black b) :
    a = b := by
  obtain ⟨w, k⟩ := a; obtain ⟨w', k'⟩ := b
  cases black <;> cases w <;> cases w' <;> simp [framePiece, flipPiece] at h ⊢ <;> exact h

/-- the absolute board holds the mover's `kd` on `absSq s` iff the relative board holds "white" `kd`
on `s`. -/
theorem abs_at_us (p : Position) (s : Nat) (kd : Kind) :
    (abs p).board (absSq p.black s) = some ⟨!p.black, kd⟩ ↔ relBoard p s = some ⟨true, kd⟩ := by
  rw [abs_at, ← framePiece_us]
  cases relBoard p s with
  | none => simp
  | some q =>
    simp only [Option.map_some, Option.some.injEq]
    exact ⟨fun h => framePiece_inj _ _ _ h, fun h => by rw [h]⟩

theorem abs_at_them (p : Position) (s : Nat) (kd : Kind) :
    (abs p).board (absSq p.black s) = some ⟨p.black, kd⟩ ↔ relBoard p s = some ⟨false, kd⟩ := by
  rw [abs_at, ← framePiece_them]
  cases relBoard p s with
  | none => simp
  | some q =>
    simp only [Option.map_some, Option.some.injEq]
    exact ⟨fun h => framePiece_inj _ _ _ h, fun h => by rw [h]⟩

theorem abs_at_none (p : Position) (s : Nat) :
    (abs p).board (absSq p.black s) = none ↔ relBoard p s = none := by
  rw [abs_at]; cases relBoard p s <;> simp

theorem file_absSq (b : Bool) {s : Nat} (hs : s < 64) : file (absSq b s) = file s := by
  unfold absSq; cases b
  · rfl
  · exact file_x56 hs

theorem rank_absSq (b : Bool) {s : Nat} (hs : s < 64) :
    rank (absSq b s) = if b then 7 - rank s else rank s := by
  unfold absSq; cases b
  · rfl
  · exact rank_x56 hs

theorem kingStep_absSq (b : Bool) {k t : Nat} (hk : k < 64) (ht : t < 64) :
    kingStep (absSq b k) (absSq b t) = kingStep k t := by
  unfold kingStep
  rw [file_absSq b hk, file_absSq b ht, rank_absSq b hk, rank_absSq b ht]
  cases b
  · rfl
  · have : ((7 - rank t) - (7 - rank k)).natAbs = (rank t - rank k).natAbs := by omega
    simp only [if_true, this]

theorem absSq_lt_iff (b : Bool) (s : Nat) : absSq b s < 64 ↔ s < 64 := by
  constructor
  · intro h; have := absSq_lt (b := b) h; rwa [absSq_absSq] at this
  · exact absSq_lt

/-- the target of a king step is not occupied by an own piece, on both sides of the abstraction. -/
theorem notOwn_abs {p : Position} (hC : Consistent p = true) (t : Nat) (ht : t < 64) :
    (match (abs p).board (absSq p.black t) with
      | some q => q.white != (abs p).whiteToMove
      | none => true) = !p.c0.getLsbD t := by
  have hw := relBoard_white hC t ht
  have ew : (abs p).whiteToMove = !p.black := rfl
  rw [abs_at, ew]
  cases hr : relBoard p t with
  | none =>
    rw [hr] at hw
    cases h0 : p.c0.getLsbD t
    · rfl
    · rw [h0] at hw; simp at hw
  | some q =>
    rw [hr] at hw
    obtain ⟨w, kd⟩ := q
    simp only [Option.map_some] at hw ⊢
    cases h0 : p.c0.getLsbD t <;> rw [h0] at hw
    · cases h1 : p.c1.getLsbD t <;> rw [h1] at hw
      · simp at hw
      · simp only [Bool.false_eq_true, if_false, if_true, Option.some.injEq] at hw
        subst hw; cases p.black <;> rfl
    · simp only [if_true, Option.some.injEq] at hw
      subst hw; cases p.black <;> rfl

/-! ### the mover's king on the domain -/

theorem unique_of_length_one {α : Type} {l : List α} (h : l.length = 1) {x y : α}
    (hx : x ∈ l) (hy : y ∈ l) : x = y := by
  match l, h with
  | [a], _ =>
    rw [List.mem_singleton] at hx hy; rw [hx, hy]

structure KingFacts (p : Position) (k : Nat) : Prop where
  k64 : k < 64
  list : toList (p.p5 &&& p.c0) = [k]
  c0 : p.c0.getLsbD k = true
  p5 : p.p5.getLsbD k = true
  rel : relBoard p k = some ⟨true, .king⟩
  abs : (Rawr.abs p).board (absSq p.black k) = some ⟨!p.black, .king⟩
  uniq : ∀ s, s < 64 → (Rawr.abs p).board s = some ⟨!p.black, .king⟩ → s = absSq p.black k

theorem kingFacts {p : Position} (hV : ValidPos p = true) : KingFacts p (lsb (p.p5 &&& p.c0)) := by
  have hC := valid_consistent hV
  have hk := valid_kings hV false
  simp only [Position.side, Bool.false_eq_true, if_false] at hk
  obtain ⟨hl, h64⟩ := toList_of_count_one _ hk
  have hm := (mem_toList (p.p5 &&& p.c0) (lsb (p.p5 &&& p.c0))).mp (by rw [hl]; exact List.mem_singleton_self _)
  have hb := hm.2
  rw [BitVec.getLsbD_and, Bool.and_eq_true] at hb
  have hrel : relBoard p (lsb (p.p5 &&& p.c0)) = some ⟨true, .king⟩ := by
    have := (rep_us hC).king _ h64
    rw [BitVec.getLsbD_and, hb.1, hb.2] at this
    simpa using this
  refine ⟨h64, hl, hb.2, hb.1, hrel, (abs_at_us p _ _).mpr hrel, ?_⟩
  intro s hs hB
  have hs' : absSq p.black s < 64 := absSq_lt hs
  have hB' : relBoard p (absSq p.black s) = some ⟨true, .king⟩ := by
    rw [← abs_at_us, absSq_absSq]; exact hB
  have := (rep_us hC).king _ hs'
  rw [hB'] at this
  simp only [decide_true] at this
  have hmem : absSq p.black s ∈ toList (p.p5 &&& p.c0) := by
    rw [mem_toList, BitVec.and_comm]; exact ⟨hs', this⟩
  rw [hl, List.mem_singleton] at hmem
  rw [← hmem, absSq_absSq]



/-- `is_safe` with the piece on `ksq` lifted, in absolute terms (= `C08d_isSafe`). -/
theorem C08d_core {p : Position} (hC : Consistent p = true) {ksq : Nat} (hk64 : ksq < 64)
    (hk : p.c0.getLsbD ksq = true) (to : Nat) (hto : to < 64) :
    isSafe to (p.occ ^^^ bit ksq) (p.c1 &&& p.p0) (p.c1 &&& p.p1) (p.c1 &&& p.p2) (p.c1 &&& p.p3)
        (p.c1 &&& p.p4) (p.c1 &&& p.p5)
      = !Spec.attackedBy (Spec.setSq (abs p).board (absSq p.black ksq) none) p.black
          (absSq p.black to) := by
  rw [isSafe_lift hC ksq hk64 hk to hto, absBoard_eq_frame]
  have e := frameB_setSq p.black (relBoard p) ksq none
  simp only [Option.map_none] at e
  rw [← e]
  have := attackedBy_frame p.black (setSq (relBoard p) ksq none) false to hto
  have ec : absCol p.black false = p.black := by unfold absCol; cases p.black <;> rfl
  rw [ec] at this
  rw [this]

/-! ### king steps -/

theorem mem_kingTargetsSafe (p : Position) (k : Nat) (hk : k < 64) (to : Nat) :
    to ∈ kingTargetsSafe p k ↔
      to < 64 ∧ kingStep k to = true ∧ p.c0.getLsbD to = false ∧
      isSafe to (p.occ ^^^ bit k) (p.c1 &&& p.p0) (p.c1 &&& p.p1) (p.c1 &&& p.p2) (p.c1 &&& p.p3)
        (p.c1 &&& p.p4) (p.c1 &&& p.p5) = true := by
  unfold kingTargetsSafe
  rw [List.mem_filter, mem_toList, BitVec.getLsbD_and, BitVec.getLsbD_not, (C10_leapers_bit k hk).2.1,
    getLsbD_geomBB]
  constructor
  · rintro ⟨⟨h1, h2⟩, h3⟩
    simp only [h1, decide_true, Bool.true_and, Bool.and_eq_true, Bool.not_eq_true'] at h2
    exact ⟨h1, h2.1, h2.2, h3⟩
  · rintro ⟨h1, h2, h3, h4⟩
    exact ⟨⟨h1, by rw [h3, h2]; simp [h1]⟩, h4⟩

theorem castleOk_right {p : Position} {q : Prelude} {r : Bool} {a b c : Nat}
    (h : castleOk p q r a b c = true) : r = true := by
  unfold castleOk at h
  simp only [Bool.and_eq_true] at h
  exact h.1.1.1.1

theorem rook_of_right {p : Position} (hV : ValidPos p = true) :
    (p.usK = true → (p.c0 &&& p.p3).getLsbD (fromCoords p.cf0 0) = true) ∧
    (p.usQ = true → (p.c0 &&& p.p3).getLsbD (fromCoords p.cf1 0) = true) := by
  have := ZH.keyHyps_of_valid hV
  simp only [ZH.KeyHyps, Bool.and_eq_true, Bool.or_eq_true, Bool.not_eq_true', BB.isSet] at this
  obtain ⟨⟨⟨⟨_, hK⟩, hQ⟩, _⟩, _⟩ := this
  constructor
  · intro h; rcases hK with h' | h'
    · rw [h] at h'; cases h'
    · exact h'
  · intro h; rcases hQ with h' | h'
    · rw [h] at h'; cases h'
    · exact h'

/-- the generated king-tagged moves onto a square not holding an own piece are the safe king targets. -/
theorem gen_king_step_iff {p : Position} (hV : ValidPos p = true) (to : Nat) :
    (gm 5 (lsb (p.p5 &&& p.c0)) to 6 ∈ moveGenerator p ∧ ¬ p.c0.isSet to = true) ↔
      to ∈ kingTargetsSafe p (lsb (p.p5 &&& p.c0)) := by
  have F := kingFacts hV
  have hR := rook_of_right hV
  rw [mem_gen_king]
  constructor
  · rintro ⟨h | ⟨hc, _, rfl⟩ | ⟨hc, _, rfl⟩, hn⟩
    · exact h.2
    · have := hR.1 (castleOk_right hc)
      rw [BitVec.getLsbD_and, Bool.and_eq_true] at this
      exact absurd this.1 hn
    · have := hR.2 (castleOk_right hc)
      rw [BitVec.getLsbD_and, Bool.and_eq_true] at this
      exact absurd this.1 hn
  · intro h
    refine ⟨Or.inl ⟨by rw [F.list]; exact List.mem_singleton_self _, h⟩, ?_⟩
    have := ((mem_kingTargetsSafe p _ F.k64 to).mp h).2.2.1
    unfold BB.isSet
    rw [this]; decide

theorem king_steps_core {p : Position} (hV : ValidPos p = true) (to : Nat) :
    (gm 5 (lsb (p.p5 &&& p.c0)) to 6 ∈ moveGenerator p ∧ ¬ p.c0.isSet to = true) ↔
      Move.normal (absSq p.black (lsb (p.p5 &&& p.c0))) (absSq p.black to) none
        ∈ Spec.legalMoves (abs p) := by
  have F := kingFacts hV
  have hC := valid_consistent hV
  have hBa : (abs p).board (absSq p.black (lsb (p.p5 &&& p.c0)))
      = some ⟨(abs p).whiteToMove, .king⟩ := F.abs
  rw [gen_king_step_iff hV, mem_kingTargetsSafe p _ F.k64, mem_legal_normal,
    mem_pseudoFrom_king _ _ hBa, apply_board_king _ _ _ _ hBa]
  have ew : (abs p).whiteToMove = !p.black := rfl
  have ew' : (!(!p.black)) = p.black := by cases p.black <;> rfl
  rw [ew]
  constructor
  · rintro ⟨h1, h2, h3, h4⟩
    refine ⟨⟨absSq_lt F.k64, absSq p.black to, absSq_lt h1, ?_, ?_, rfl⟩, ?_⟩
    · rw [kingStep_absSq _ F.k64 h1]; exact h2
    · have := notOwn_abs hC to h1
      rw [ew] at this
      rw [this, h3]; rfl
    · rw [inCheck_after_king_step _ _ _ _ (absSq_lt h1) F.uniq]
      have := C08d_core hC F.k64 F.c0 to h1
      rw [h4] at this
      rw [ew']
      cases hA : attackedBy (setSq (abs p).board (absSq p.black (lsb (p.p5 &&& p.c0))) none) p.black
        (absSq p.black to)
      · rfl
      · rw [hA] at this; cases this
  · rintro ⟨⟨_, t, ht, hks, hno, he⟩, hchk⟩
    have he' : absSq p.black to = t := by injection he
    subst he'
    have h1 : to < 64 := (absSq_lt_iff _ _).mp ht
    rw [kingStep_absSq _ F.k64 h1] at hks
    have hno' := notOwn_abs hC to h1
    rw [ew] at hno'
    rw [hno'] at hno
    refine ⟨h1, hks, by simpa using hno, ?_⟩
    rw [inCheck_after_king_step _ _ _ _ ht F.uniq] at hchk
    rw [ew'] at hchk
    rw [C08d_core hC F.k64 F.c0 to h1, hchk]; rfl

end Rawr.Att
