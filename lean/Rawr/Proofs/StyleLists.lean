import Rawr.Model.Style
/-!
# List lemmas for the style model: `incAt` (`l[i] += 1`) and the enumerate-sums
-/
namespace Rawr.Style

/-- the list after a successful `l[i] += 1`. -/
def bump (l : List Nat) (i : Nat) : List Nat := l.set i (l.getD i 0 + 1)

@[simp] theorem bump_nil (i : Nat) : bump [] i = [] := by simp [bump]
@[simp] theorem bump_cons_zero (x : Nat) (xs : List Nat) : bump (x :: xs) 0 = (x + 1) :: xs := by
  simp [bump]
@[simp] theorem bump_cons_succ (x : Nat) (xs : List Nat) (i : Nat) :
    bump (x :: xs) (i + 1) = x :: bump xs i := by
  simp [bump]

@[simp] theorem length_bump (l : List Nat) (i : Nat) : (bump l i).length = l.length := by
  simp [bump]

theorem incAt_ok {l : List Nat} {i : Nat} (h : i < l.length) : incAt l i = .ok (bump l i) := by
  simp [incAt, h, bump]

theorem incAt_error {l : List Nat} {i : Nat} (h : ¬ i < l.length) : incAt l i = .error .index := by
  simp [incAt, h]

theorem getAt_ok {l : List Nat} {i : Nat} (h : i < l.length) : getAt l i = .ok (l.getD i 0) := by
  simp [getAt, h]

theorem sum_bump : ∀ (l : List Nat) (i : Nat), i < l.length → (bump l i).sum = l.sum + 1
  | [], i, h => by simp at h
  | x :: xs, 0, _ => by simp; omega
  | x :: xs, i + 1, h => by
    have := sum_bump xs i (by simpa using h)
    simp [this]; omega

theorem getD_bump : ∀ (l : List Nat) (i j : Nat), i < l.length →
    (bump l i).getD j 0 = l.getD j 0 + (if i = j then 1 else 0)
  | [], i, _, h => by simp at h
  | x :: xs, 0, 0, _ => by simp
  | x :: xs, 0, j + 1, _ => by simp
  | x :: xs, i + 1, 0, _ => by simp
  | x :: xs, i + 1, j + 1, h => by
    have := getD_bump xs i j (by simpa using h)
    simpa using this

theorem enumMinSumFrom_bump (c : Nat) : ∀ (l : List Nat) (k i : Nat), i < l.length →
    enumMinSumFrom c k (bump l i) = enumMinSumFrom c k l + Nat.min (k + i) c
  | [], _, i, h => by simp at h
  | x :: xs, k, 0, _ => by
    simp [enumMinSumFrom, Nat.mul_add]; omega
  | x :: xs, k, i + 1, h => by
    have := enumMinSumFrom_bump c xs (k + 1) i (by simpa using h)
    simp [enumMinSumFrom, this]
    have : k + 1 + i = k + (i + 1) := by omega
    rw [this]; omega

theorem enumMinSum_bump (c : Nat) (l : List Nat) (i : Nat) (h : i < l.length) :
    enumMinSum c (bump l i) = enumMinSum c l + Nat.min i c := by
  have := enumMinSumFrom_bump c l 0 i h
  simpa [enumMinSum] using this

end Rawr.Style
