import Rawr.Proofs.MagicCheck
/-! C10 table check, part 13 of 16: 6528 rows, each one evaluated by the kernel.
The partition into modules balances row counts and depends on board geometry only; the statements do
not mention any table content, so a changed table or magic makes these proofs fail. -/
namespace Rawr.MagicTable
theorem bishop_8 : checkB 8 = true := by decide +kernel
theorem bishop_16 : checkB 16 = true := by decide +kernel
theorem bishop_32 : checkB 32 = true := by decide +kernel
theorem bishop_34 : checkB 34 = true := by decide +kernel
theorem bishop_48 : checkB 48 = true := by decide +kernel
theorem bishop_56 : checkB 56 = true := by decide +kernel
theorem bishop_57 : checkB 57 = true := by decide +kernel
theorem bishop_61 : checkB 61 = true := by decide +kernel
theorem rook_3 : checkR 3 = true := by decide +kernel
theorem rook_17 : checkR 17 = true := by decide +kernel
theorem rook_37 : checkR 37 = true := by decide +kernel
theorem rook_40 : checkR 40 = true := by decide +kernel
end Rawr.MagicTable
