import Rawr.Proofs.UciGo
/-! Counting `readyok` and `bestmove` lines: one step, the second loop, the whole of `listen`. -/
namespace Rawr

/-! ## classification of input lines -/

def isReadyLine (l : List Char) : Bool := cmdOf l == str "isready"
def isQuitLine (l : List Char) : Bool := cmdOf l == str "quit"
/-- a well-formed search request: `go` followed by arguments that `parse_go` accepts as one of
time / movetime / depth / nodes / infinite. -/
def isSearchLine (l : List Char) : Bool :=
  cmdOf l == str "go" && (match parseGo (argsOf l) with | some k => k.isSearch | none => false)

theorem isReadyLine_of_cmd {l : List Char} {c : String} (hc : cmdOf l = str c) (hne : (str c == str "isready") = false) :
    isReadyLine l = false := by unfold isReadyLine; rw [hc, hne]
theorem isQuitLine_of_cmd {l : List Char} {c : String} (hc : cmdOf l = str c) (hne : (str c == str "quit") = false) :
    isQuitLine l = false := by unfold isQuitLine; rw [hc, hne]
theorem isSearchLine_of_cmd {l : List Char} {c : String} (hc : cmdOf l = str c) (hne : (str c == str "go") = false) :
    isSearchLine l = false := by unfold isSearchLine; rw [hc, hne]; rfl

variable {ar : Arith} {clock : Nat → Bool}

theorem applyTokens_out_neutral {ts : List (List Char)} {pos : Position} {hist : List BB}
    {r : Position × List BB × List String} (h : applyTokens ts pos hist [] = some r) : ∀ l ∈ r.2.2, Neutral l := by
  rw [applyTokens_eq, Option.map_eq_some_iff] at h
  obtain ⟨tr, _, e⟩ := h
  subst e
  simp only [List.nil_append]
  exact reports_neutral _ _

theorem doPosition_out_neutral {s : UState} {toks : List (List Char)} {r : UState × List String}
    (h : doPosition ar s toks = some r) : ∀ l ∈ r.2, Neutral l := by
  rw [doPosition_eq] at h
  split at h
  · cases h
  · split at h
    · cases h
    · next hap => cases h; exact applyTokens_out_neutral hap

/-- what one line of the second loop contributes: one `readyok` iff it is an `isready` line, one `bestmove` line
iff it is a well-formed search request, and the loop ends iff it is a `quit` line. -/
theorem stepSecond_shape {s s' : UState} {l : List Char} {o : List String} {q : Bool}
    (h : stepSecond ar clock s l = some (s', o, q)) :
    nReady o = (if isReadyLine l then 1 else 0) ∧ nBest o = (if isSearchLine l then 1 else 0) ∧
      q = isQuitLine l := by
  by_cases c1 : cmdOf l = str "ucinewgame"
  · rw [stepSecond_ucinewgame ar clock s l c1] at h; cases h
    rw [isReadyLine_of_cmd c1 (by decide), isSearchLine_of_cmd c1 (by decide), isQuitLine_of_cmd c1 (by decide)]
    exact ⟨rfl, rfl, rfl⟩
  by_cases c2 : cmdOf l = str "isready"
  · rw [stepSecond_isready ar clock s l c2] at h; cases h
    rw [isSearchLine_of_cmd c2 (by decide), isQuitLine_of_cmd c2 (by decide)]
    have : isReadyLine l = true := by unfold isReadyLine; rw [c2]; decide
    rw [this]
    exact ⟨by decide, by decide, rfl⟩
  by_cases c3 : cmdOf l = str "print" ∨ cmdOf l = str "display" ∨ cmdOf l = str "board"
  · rw [stepSecond_print ar clock s l c3] at h; cases h
    have n := counts_of_neutral (displayPos_neutral s.pos)
    rw [n.1, n.2]
    rcases c3 with c | c | c <;>
      rw [isReadyLine_of_cmd c (by decide), isSearchLine_of_cmd c (by decide), isQuitLine_of_cmd c (by decide)] <;>
      exact ⟨rfl, rfl, rfl⟩
  by_cases c4 : cmdOf l = str "go"
  · rw [stepSecond_go ar clock s l c4, Option.map_eq_some_iff] at h
    obtain ⟨⟨s1, o1⟩, hgo, e⟩ := h
    cases e
    rw [isReadyLine_of_cmd c4 (by decide), isQuitLine_of_cmd c4 (by decide)]
    have hs : isSearchLine l = (match parseGo (argsOf l) with | some k => k.isSearch | none => false) := by
      unfold isSearchLine; rw [c4]; simp
    rw [hs]
    cases hp : parseGo (argsOf l) with
    | none =>
      rw [doGo_none hp] at hgo; cases hgo
      exact ⟨rfl, rfl, rfl⟩
    | some k =>
      simp only
      rcases Bool.eq_false_or_eq_true k.isSearch with hk | hk
      · have n := (doGo_one_bestmove hp hk hgo).counts
        simp only [hk]
        exact ⟨n.1, n.2, trivial⟩
      · have n := counts_of_neutral (doGo_perft_neutral hp hk hgo).2
        simp only [hk]
        exact ⟨n.1, n.2, trivial⟩
  by_cases c5 : cmdOf l = str "position"
  · rw [stepSecond_position ar clock s l c5, Option.map_eq_some_iff] at h
    obtain ⟨⟨s1, o1⟩, hpos, e⟩ := h
    cases e
    rw [isReadyLine_of_cmd c5 (by decide), isSearchLine_of_cmd c5 (by decide), isQuitLine_of_cmd c5 (by decide)]
    have n := counts_of_neutral (doPosition_out_neutral hpos)
    exact ⟨n.1, n.2, rfl⟩
  by_cases c6 : cmdOf l = str "moves"
  · rw [stepSecond_moves ar clock s l c6, Option.map_eq_some_iff] at h
    obtain ⟨⟨p1, h1, o1⟩, hap, e⟩ := h
    cases e
    rw [isReadyLine_of_cmd c6 (by decide), isSearchLine_of_cmd c6 (by decide), isQuitLine_of_cmd c6 (by decide)]
    have n := counts_of_neutral (applyTokens_out_neutral hap)
    exact ⟨n.1, n.2, rfl⟩
  by_cases c7 : cmdOf l = str "setoption"
  · rw [stepSecond_setoption ar clock s l c7] at h; cases h
    rw [isReadyLine_of_cmd c7 (by decide), isSearchLine_of_cmd c7 (by decide), isQuitLine_of_cmd c7 (by decide)]
    exact ⟨rfl, rfl, rfl⟩
  by_cases c8 : cmdOf l = str "history"
  · rw [stepSecond_history ar clock s l c8] at h; cases h
    rw [isReadyLine_of_cmd c8 (by decide), isSearchLine_of_cmd c8 (by decide), isQuitLine_of_cmd c8 (by decide)]
    have n := counts_of_neutral (out := s.hist.reverse.map hexLine) (by
      intro x hx
      obtain ⟨k, _, rfl⟩ := List.mem_map.1 hx
      exact hexLine_neutral k)
    exact ⟨n.1, n.2, rfl⟩
  by_cases c9 : cmdOf l = str "eval"
  · rw [stepSecond_eval ar clock s l c9] at h; cases h
    rw [isReadyLine_of_cmd c9 (by decide), isSearchLine_of_cmd c9 (by decide), isQuitLine_of_cmd c9 (by decide)]
    have n := counts_of_neutral (out := [toString (eval s.pos)]) (by
      intro x hx
      rw [List.mem_singleton] at hx
      subst hx
      exact intRepr_neutral _)
    exact ⟨n.1, n.2, rfl⟩
  by_cases c10 : cmdOf l = str "quit"
  · rw [stepSecond_quit ar clock s l c10] at h; cases h
    rw [isReadyLine_of_cmd c10 (by decide), isSearchLine_of_cmd c10 (by decide)]
    have : isQuitLine l = true := by unfold isQuitLine; rw [c10]; decide
    rw [this]
    exact ⟨rfl, rfl, rfl⟩
  · have hk : ∀ c ∈ knownCmds, cmdOf l ≠ str c := by
      intro c hc
      simp only [knownCmds, List.mem_cons, List.not_mem_nil, or_false] at hc
      rcases hc with rfl | rfl | rfl | rfl | rfl | rfl | rfl | rfl | rfl | rfl | rfl | rfl
      · exact c1
      · exact c2
      · exact fun e => c3 (Or.inl e)
      · exact fun e => c3 (Or.inr (Or.inl e))
      · exact fun e => c3 (Or.inr (Or.inr e))
      · exact c4
      · exact c5
      · exact c6
      · exact c7
      · exact c8
      · exact c9
      · exact c10
    rw [stepSecond_other ar clock s l hk] at h; cases h
    have r : isReadyLine l = false := by unfold isReadyLine; simpa using c2
    have g : isSearchLine l = false := by
      unfold isSearchLine
      have : (cmdOf l == str "go") = false := by simpa using c4
      rw [this]; rfl
    have qq : isQuitLine l = false := by unfold isQuitLine; simpa using c10
    rw [r, g, qq]
    exact ⟨rfl, rfl, rfl⟩

theorem quit_excl {l : List Char} (h : isQuitLine l = true) : isReadyLine l = false ∧ isSearchLine l = false := by
  have hc : cmdOf l = str "quit" := by simpa [isQuitLine] using h
  exact ⟨isReadyLine_of_cmd hc (by decide), isSearchLine_of_cmd hc (by decide)⟩

/-! ## the second loop -/

/-- the lines the second loop acts on: those before the first `quit` line. -/
def beforeQuit (ls : List (List Char)) : List (List Char) := ls.takeWhile fun l => !isQuitLine l
def readyCount (ls : List (List Char)) : Nat := (beforeQuit ls).countP isReadyLine
def searchCount (ls : List (List Char)) : Nat := (beforeQuit ls).countP isSearchLine

theorem steps_shape {ls : List (List Char)} {s s' : UState} {o : List String} {q : Bool}
    (h : steps ar clock s ls = some (s', o, q)) :
    nReady o = readyCount ls ∧ nBest o = searchCount ls ∧ q = ls.any isQuitLine := by
  induction ls generalizing s s' o q with
  | nil => simp only [steps] at h; cases h; exact ⟨rfl, rfl, rfl⟩
  | cons l ls ih =>
    simp only [steps] at h
    split at h
    · cases h
    · next s1 o1 hs =>
      cases h
      obtain ⟨a, b, c⟩ := stepSecond_shape hs
      have hq : isQuitLine l = true := c.symm
      obtain ⟨e1, e2⟩ := quit_excl hq
      rw [e1] at a; rw [e2] at b
      simp only [readyCount, searchCount, beforeQuit, List.takeWhile_cons, hq, List.any_cons, Bool.true_or,
        Bool.not_true, Bool.false_eq_true, if_false, List.countP_nil]
      exact ⟨a, b, trivial⟩
    · next s1 o1 hs =>
      obtain ⟨a, b, c⟩ := stepSecond_shape hs
      have hq : isQuitLine l = false := c.symm
      split at h
      · cases h
      · next s2 o2 q2 h2 =>
        cases h
        obtain ⟨a2, b2, c2⟩ := ih h2
        rw [nReady_append, nBest_append, a, b, a2, b2, c2]
        simp only [readyCount, searchCount, beforeQuit, List.takeWhile_cons, hq, List.any_cons, Bool.false_or,
          Bool.not_false, if_true, List.countP_cons]
        refine ⟨by omega, by omega, trivial⟩

/-! ## the first loop, syntactically -/

/-- what the first loop of `listen` does with the script, independently of the state: `none` = `quit` (the
process ends silently), otherwise (an `isready` ended the loop?, the lines left for the second loop).
`setoption` lines are consumed; `isready` ends the loop and is answered after the resize; any other line ends
the loop and is processed AGAIN by the second loop; at end of input the second loop processes one empty line. -/
def firstSyn : List (List Char) → Option (Bool × List (List Char))
  | [] => some (false, [[]])
  | l :: ls =>
    if cmdOf l == str "isready" then some (true, ls)
    else if cmdOf l == str "setoption" then firstSyn ls
    else if cmdOf l == str "quit" then none
    else some (false, l :: ls)

theorem firstLoop_syn (ls : List (List Char)) (s : UState) :
    (firstLoop ls s).map (fun r => (r.2.1, r.2.2)) = firstSyn ls := by
  induction ls generalizing s with
  | nil => rfl
  | cons l ls ih =>
    unfold firstLoop firstSyn cmdOf
    simp only
    split
    · rfl
    · split
      · exact ih _
      · split <;> rfl

/-- number of `readyok` lines the script is to be answered with. -/
def expectedReady (lines : List (List Char)) : Nat :=
  match firstSyn lines with
  | none => 0
  | some (r, rest) => (if r then 1 else 0) + readyCount rest

/-- number of well-formed search requests the engine processes. -/
def expectedBest (lines : List (List Char)) : Nat :=
  match firstSyn lines with
  | none => 0
  | some (_, rest) => searchCount rest

theorem banner_counts : nReady (banner false 16) = 0 ∧ nBest (banner false 16) = 0 := by
  constructor <;> decide

theorem listen_shape {lines : List (List Char)} {out : List String} (h : listen ar clock lines = some out) :
    nReady out = expectedReady lines ∧ nBest out = expectedBest lines := by
  unfold listen at h
  split at h
  · cases h
  · next pos _ =>
    simp only at h
    have hsyn := firstLoop_syn lines
      { hashMb := 16, frc := false, pos := pos, hist := [pos.hash], tt := Table.new 0 Gen.ttEntrySize }
    unfold expectedReady expectedBest
    split at h
    · next hf =>
      rw [hf] at hsyn
      cases h
      rw [← hsyn]
      exact banner_counts
    · next s r rest hf =>
      rw [hf] at hsyn
      rw [← hsyn]
      simp only [Option.map_some]
      rw [secondLoop_eq, Option.map_eq_some_iff] at h
      obtain ⟨⟨s', o, q⟩, hst, e⟩ := h
      subst e
      obtain ⟨a, b, _⟩ := steps_shape hst
      simp only [nReady_append, nBest_append, banner_counts.1, banner_counts.2, a, b]
      cases r
      · exact ⟨by simp [nReady], by simp [nBest]⟩
      · refine ⟨by simp [nReady], ?_⟩
        have : nBest ["readyok"] = 0 := by decide
        simp [this]

end Rawr
