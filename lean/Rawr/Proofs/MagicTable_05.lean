import Rawr.Proofs.MagicCheck
/-! C10 table check, part 5 of 16: 6656 rows, each one evaluated by the kernel.
The partition into modules balances row counts and depends on board geometry only; the statements do
not mention any table content, so a changed table or magic makes these proofs fail. -/
namespace Rawr.MagicTable
theorem bishop_35 : checkB 35 = true := by decide +kernel
theorem rook_24 : checkR 24 = true := by decide +kernel
theorem rook_27 : checkR 27 = true := by decide +kernel
theorem rook_49 : checkR 49 = true := by decide +kernel
theorem rook_61 : checkR 61 = true := by decide +kernel
end Rawr.MagicTable
