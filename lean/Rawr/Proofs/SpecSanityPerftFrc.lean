import Rawr.Proofs.SpecSanityPerftDefs
/-!
# Sanity of the specification, part 5: a Chess960 castling test (kernel-evaluated)

`frcCastle` = `1r4kr/p5pp/8/8/8/8/PPP4P/RK4R1 w GAhb - 0 1`: White king b1, rooks a1 and g1; Black king g8,
rooks b8 and h8. All four castlings are of the Chess960 kind:
* White O-O: the king walks b1 → g1 *onto the rook's square*, the rook g1 → f1;
* White O-O-O: king b1 → c1, rook a1 → d1 (the rook jumps over the king);
* Black O-O: the king *stays* on g8, the rook h8 → f8;
* Black O-O-O: king g8 → c8 across the rook's destination, rook b8 → d8.
perft 1–3 of this position are 22, 429, 8826 (depths 1 and 2 proved here; the engine model gives the same
three numbers).
-/
namespace Rawr.SpecS
open Rawr.Spec

theorem frcCastle_moves : legalMoves frcCastle =
    [.normal 1 2 none, .normal 6 2 none, .normal 6 3 none, .normal 6 4 none, .normal 6 5 none,
     .normal 6 7 none, .normal 6 14 none, .normal 6 22 none, .normal 6 30 none, .normal 6 38 none,
     .normal 6 46 none, .normal 6 54 none, .normal 8 16 none, .normal 8 24 none, .normal 9 17 none,
     .normal 9 25 none, .normal 10 18 none, .normal 10 26 none, .normal 15 23 none, .normal 15 31 none,
     .castle true, .castle false] := by
  decide +kernel

theorem leaves_frcCastle_1 : leaves frcCastle 1 = 22 := by decide +kernel

theorem leaves_frcCastle_2 : leaves frcCastle 2 = 429 := by decide +kernel

/-- White O-O: king b1 → g1, rook g1 → f1; b1 is left empty, the a1 rook is untouched, both white rights go. -/
theorem frcCastle_white_OO :
    castleLegal frcCastle true = true ∧
    (let p := apply frcCastle (.castle true)
     p.board 6 = wK ∧ p.board 5 = wR ∧ p.board 1 = none ∧ p.board 0 = wR ∧
     p.wK = none ∧ p.wQ = none ∧ p.bK = some 7 ∧ p.bQ = some 1 ∧ p.whiteToMove = false) := by
  decide +kernel

/-- White O-O-O: king b1 → c1, rook a1 → d1; a1 and b1 are left empty, the g1 rook is untouched. -/
theorem frcCastle_white_OOO :
    castleLegal frcCastle false = true ∧
    (let p := apply frcCastle (.castle false)
     p.board 2 = wK ∧ p.board 3 = wR ∧ p.board 0 = none ∧ p.board 1 = none ∧ p.board 6 = wR ∧
     p.wK = none ∧ p.wQ = none) := by
  decide +kernel

/-- after 1. a3 Black may castle both ways: O-O leaves the king on g8 and brings the h8 rook to f8;
O-O-O brings the king to c8 and the b8 rook to d8. -/
theorem frcCastle_black :
    (let q := apply frcCastle (.normal 8 16 none)
     castleLegal q true = true ∧ castleLegal q false = true ∧
     (let p := apply q (.castle true)
      p.board 62 = bK ∧ p.board 61 = bR ∧ p.board 63 = none ∧ p.board 57 = bR ∧ p.bK = none ∧ p.bQ = none) ∧
     (let p := apply q (.castle false)
      p.board 58 = bK ∧ p.board 59 = bR ∧ p.board 57 = none ∧ p.board 62 = none ∧ p.board 63 = bR)) := by
  decide +kernel

/-- castling through an attacked square is refused, but only the *king's* walk matters: with the black rook
on d8 instead of b8 the d-file is covered, so White may not castle O-O (the king would cross d1), yet O-O-O
(king b1 → c1, rook a1 → d1) stays legal — d1 is only the rook's destination. -/
def frcCastleD : APos :=
  { frcCastle with
    board := board8
      (row8 wR wK __ __ __ __ wR __)
      (row8 wP wP wP __ __ __ __ wP)
      (row8 __ __ __ __ __ __ __ __)
      (row8 __ __ __ __ __ __ __ __)
      (row8 __ __ __ __ __ __ __ __)
      (row8 __ __ __ __ __ __ __ __)
      (row8 bP __ __ __ __ __ bP bP)
      (row8 __ __ __ bR __ __ bK bR),
    bQ := none }

theorem frcCastleD_castles : castleLegal frcCastleD true = false ∧ castleLegal frcCastleD false = true := by
  decide +kernel

end Rawr.SpecS
