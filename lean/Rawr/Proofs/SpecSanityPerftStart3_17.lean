import Rawr.Proofs.SpecSanityPerftDefs
/-! perft of the start position, depth 3, slice 17: the subtree of first move `.normal 14 30 none` (kernel-evaluated). -/
namespace Rawr.SpecS
open Rawr.Spec

theorem start3_17 : leaves (apply stdStart (.normal 14 30 none)) 2 = 421 := by decide +kernel

end Rawr.SpecS
