import Rawr.Proofs.RustImpAgree_Eval
import Rawr.Proofs.RustSessionAgree_Lines
import Rawr.Proofs.RustTextAgree_Uci
/-!
# One iteration of the second command loop of uci/listen.rs (`R.listen_loop5_step`) against the model's `stepSecond`

The loop-carried variables of the regenerated loop are `(exited, input, stdin, got_isready, pos, history, tt, out, hash,
is_frc)`; the model's `UState` is `(hashMb, frc, pos, hist, tt)` with the history most recent first.
`agree_listen_step` covers every arm of the `match` in listen.rs: `ucinewgame`, `isready`, `print | display | board`,
`go`, `position`, `moves`, `setoption` (with the callback of the second loop, `R.listen_loop3`), `history`, `eval`,
`quit`, and the catch-all.
-/
set_option linter.unusedSimpArgs false
namespace Rawr.Sess
open T

/-! ## the `setoption` callbacks -/
/-- the callback of listen.rs as the model applies it (`second`: the one of the second loop, which resizes the table). -/
def cbF (second : Bool) (s : UState) (nv : List Char × List Char) : UState :=
  if nv.1 == str "Hash" || nv.1 == str "hash" then
    match parseUnsigned (2^64) nv.2 with
    | some size =>
      let h := max 1 (min size 4096)
      if second then { s with hashMb := h, tt := s.tt.resize h Gen.ttEntrySize } else { s with hashMb := h }
    | none => s
  else if nv.1 == str "UCI_Chess960" then
    let f := nv.2 == str "true"
    { s with frc := f, pos := { s.pos with frc := f } }
  else s

theorem doSetoption_cb (s : UState) (toks : List (List Char)) (second : Bool) :
    doSetoption s toks second = (R.setoption toks).2.foldl (cbF second) s := doSetoption_eq s toks second

theorem eHash : str "Hash" = ['H', 'a', 's', 'h'] := by decide
theorem ehash : str "hash" = ['h', 'a', 's', 'h'] := by decide
theorem e960 : str "UCI_Chess960" = ['U', 'C', 'I', '_', 'C', 'h', 'e', 's', 's', '9', '6', '0'] := by decide
theorem etrue : str "true" = ['t', 'r', 'u', 'e'] := by decide

/-- the callback of the FIRST loop (`R.listen_loop1`): `hash`, `is_frc`, `pos.is_frc`. -/
theorem listen_loop1_step_eq (nv : List Char × List Char) (s : UState) :
    R.listen_loop1_step nv s.hashMb s.frc s.pos =
      some (ForInStep.yield ((cbF false s nv).hashMb, (cbF false s nv).frc, (cbF false s nv).pos)) ∧
    (cbF false s nv).hist = s.hist ∧ (cbF false s nv).tt = s.tt := by
  unfold R.listen_loop1_step cbF
  simp only [eHash, ehash, e960, etrue, bind, pure]
  by_cases h1 : (nv.1 == ['H', 'a', 's', 'h'] || nv.1 == ['h', 'a', 's', 'h']) = true
  · simp only [h1, if_true, Bool.false_eq_true, if_false]
    cases parseUnsigned (2 ^ 64) nv.2 <;> exact ⟨by trivial, by trivial, by trivial⟩
  · simp only [h1, Bool.false_eq_true, if_false]
    by_cases h2 : (nv.1 == ['U', 'C', 'I', '_', 'C', 'h', 'e', 's', 's', '9', '6', '0']) = true
    · simp only [h2, if_true]; exact ⟨by trivial, by trivial, by trivial⟩
    · simp only [h2, Bool.false_eq_true, if_false]; exact ⟨by trivial, by trivial, by trivial⟩

theorem _root_.Rawr.agree_listen_loop1 : ∀ (calls : List (List Char × List Char)) (s : UState),
    R.listen_loop1 calls s.hashMb s.frc s.pos =
      some ((calls.foldl (cbF false) s).hashMb, (calls.foldl (cbF false) s).frc, (calls.foldl (cbF false) s).pos) ∧
    (calls.foldl (cbF false) s).hist = s.hist ∧ (calls.foldl (cbF false) s).tt = s.tt := by
  intro calls
  induction calls with
  | nil => intro s; exact ⟨rfl, rfl, rfl⟩
  | cons nv calls ih =>
    intro s
    obtain ⟨e, h1, h2⟩ := listen_loop1_step_eq nv s
    obtain ⟨e', h1', h2'⟩ := ih (cbF false s nv)
    simp only [R.listen_loop1, List.forIn_cons, e, bind, Option.bind_some, List.foldl_cons] at e' ⊢
    exact ⟨e', h1'.trans h1, h2'.trans h2⟩

theorem ttsize_ne : Gen.ttEntrySize ≠ 0 := by decide

/-- the callback of the SECOND loop (`R.listen_loop3`): as the first, and `Hash` resizes the table at once. -/
theorem listen_loop3_step_eq (nv : List Char × List Char) (s : UState) :
    R.listen_loop3_step nv s.hashMb s.tt s.frc s.pos =
      some (ForInStep.yield ((cbF true s nv).hashMb, (cbF true s nv).tt, (cbF true s nv).frc, (cbF true s nv).pos)) ∧
    (cbF true s nv).hist = s.hist := by
  unfold R.listen_loop3_step cbF
  simp only [eHash, ehash, e960, etrue, bind, pure]
  by_cases h1 : (nv.1 == ['H', 'a', 's', 'h'] || nv.1 == ['h', 'a', 's', 'h']) = true
  · simp only [h1, if_true]
    cases parseUnsigned (2 ^ 64) nv.2 with
    | none => exact ⟨by trivial, by trivial⟩
    | some size =>
      simp only [Table.agree_tt_resize _ _ _ ttsize_ne, Option.bind_some]
      exact ⟨by trivial, by trivial⟩
  · simp only [h1, Bool.false_eq_true, if_false]
    by_cases h2 : (nv.1 == ['U', 'C', 'I', '_', 'C', 'h', 'e', 's', 's', '9', '6', '0']) = true
    · simp only [h2, if_true]; exact ⟨by trivial, by trivial⟩
    · simp only [h2, Bool.false_eq_true, if_false]; exact ⟨by trivial, by trivial⟩

theorem _root_.Rawr.agree_listen_loop3 : ∀ (calls : List (List Char × List Char)) (s : UState),
    R.listen_loop3 calls s.hashMb s.tt s.frc s.pos =
      some ((calls.foldl (cbF true) s).hashMb, (calls.foldl (cbF true) s).tt, (calls.foldl (cbF true) s).frc,
        (calls.foldl (cbF true) s).pos) ∧
    (calls.foldl (cbF true) s).hist = s.hist := by
  intro calls
  induction calls with
  | nil => intro s; exact ⟨rfl, rfl⟩
  | cons nv calls ih =>
    intro s
    obtain ⟨e, h1⟩ := listen_loop3_step_eq nv s
    obtain ⟨e', h1'⟩ := ih (cbF true s nv)
    simp only [R.listen_loop3, List.forIn_cons, e, bind, Option.bind_some, List.foldl_cons] at e' ⊢
    exact ⟨e', h1'.trans h1⟩

/-! ## one command -/
/-- the model's `stepSecond` on the tokens of the line. -/
def stepToks (ar : Arith) (o : Nat → Bool) (s : UState) (toks : List (List Char)) : Option (UState × List String × Bool) :=
  let cmd := toks.headD []
  let rest := toks.drop 1
  if cmd == str "ucinewgame" then
    let p := { Gen.startpos with frc := s.frc }
    some ({ s with pos := p, hist := [p.hash], tt := s.tt.clear }, [], false)
  else if cmd == str "isready" then some (s, ["readyok"], false)
  else if cmd == str "print" || cmd == str "display" || cmd == str "board" then some (s, displayPos s.pos, false)
  else if cmd == str "go" then (doGo ar o s rest).map fun (s, o) => (s, o, false)
  else if cmd == str "position" then (doPosition ar s rest).map fun (s, o) => (s, o, false)
  else if cmd == str "moves" then
    (applyTokens rest s.pos s.hist []).map fun (p, h, o) => ({ s with pos := p, hist := h }, o, false)
  else if cmd == str "setoption" then some (doSetoption s rest true, [], false)
  else if cmd == str "history" then some (s, s.hist.reverse.map hexLine, false)
  else if cmd == str "eval" then some (s, [toString (eval s.pos)], false)
  else if cmd == str "quit" then some (s, [], true)
  else some (s, [], false)

theorem stepSecond_toks (ar : Arith) (o : Nat → Bool) (s : UState) (line : List Char) :
    stepSecond ar o s line = stepToks ar o s (splitWs line) := rfl

/-- the side conditions of one command (on its tokens), for a family `G n` of position invariants as in `agree_moves_ix`
/ `agree_position` (`RustSessionAgree_Rules.lean` instantiates it with `VE`). -/
def StepOk (G : Nat → Position → Prop) (fuel : Nat) (ar : Arith) (clk : Nat → Nat) (o : Nat → Bool) (s : UState)
    (toks : List (List Char)) : Prop :=
  (toks.headD [] = str "go" → (toks.drop 1).length + 1 ≤ fuel ∧
      ∀ u st, R.parse_go fuel (toks.drop 1) = some (some u, st) → GoOk fuel clk o s u) ∧
  (toks.headD [] = str "position" → 2 ≤ fuel ∧
      ∀ p, setFen ar s.pos.frc (positionArgs (toks.drop 1)).1 = some p → G (positionArgs (toks.drop 1)).2.length p) ∧
  (toks.headD [] = str "moves" → G (toks.drop 1).length s.pos) ∧
  (toks.headD [] = str "print" ∨ toks.headD [] = str "display" ∨ toks.headD [] = str "board" → DisplayOk s.pos)

/-- the loop-carried variables of the second loop for a model state. -/
abbrev St5 := Bool × List Char × List (List Char) × Bool × Position × List BB × Table TTEntry × List Char × Nat × Bool

def st5 (ex : Bool) (input : List Char) (stdin : List (List Char)) (got : Bool) (s : UState) (out : List Char) : St5 :=
  (ex, input, stdin, got, s.pos, s.hist.reverse, s.tt, out, s.hashMb, s.frc)

/-- relation between the model's step and the regenerated one (`out`: the stream printed so far). -/
@[irreducible] def StepRel (out : List Char) (ex : Bool) (input : List Char) (stdin : List (List Char))
    (m : Option (UState × List String × Bool)) (x : Option (ForInStep St5)) : Prop :=
  match m with
  | none => x = none
  | some (s', L, true) => x = some (ForInStep.done (st5 true input stdin true s' out)) ∧ L = []
  | some (s', L, false) => ∃ y, x = some (ForInStep.yield (st5 ex input stdin true s' (out ++ y))) ∧ Out y L

theorem e_ucinewgame : str "ucinewgame" = ['u', 'c', 'i', 'n', 'e', 'w', 'g', 'a', 'm', 'e'] := by decide
theorem e_isready : str "isready" = ['i', 's', 'r', 'e', 'a', 'd', 'y'] := by decide
theorem e_print : str "print" = ['p', 'r', 'i', 'n', 't'] := by decide
theorem e_display : str "display" = ['d', 'i', 's', 'p', 'l', 'a', 'y'] := by decide
theorem e_board : str "board" = ['b', 'o', 'a', 'r', 'd'] := by decide
theorem e_go : str "go" = ['g', 'o'] := by decide
theorem e_position : str "position" = ['p', 'o', 's', 'i', 't', 'i', 'o', 'n'] := by decide
theorem e_moves : str "moves" = ['m', 'o', 'v', 'e', 's'] := by decide
theorem e_setoption : str "setoption" = ['s', 'e', 't', 'o', 'p', 't', 'i', 'o', 'n'] := by decide
theorem e_history : str "history" = ['h', 'i', 's', 't', 'o', 'r', 'y'] := by decide
theorem e_eval : str "eval" = ['e', 'v', 'a', 'l'] := by decide
theorem e_quit : str "quit" = ['q', 'u', 'i', 't'] := by decide

theorem readyok_out : Out (T.line "readyok") ["readyok"] := Out.line1 _ _ (by decide) (by decide)

theorem position_fmt_nil (ar : Arith) (p : Position) (h : DisplayOk p) :
    R.position_fmt ar p [] = some (T.unlines (displayPos p)) := by
  rw [agree_position_fmt ar p [] h, List.nil_append]

theorem headD_getD (l : List (List Char)) : l.headD [] = l.head?.getD [] := by cases l <;> rfl

/-- **one iteration of the second loop of `listen`** whose line is already in `input` (`got_isready = false`: the line
that ended the first loop; the other case is `loop5_step_read`). -/
theorem _root_.Rawr.agree_listen_loop5_step (G : Nat → Position → Prop) (hI : ∀ n p, G (n + 1) p → MovesOnBoard p)
    (hM : ∀ n p, G (n + 1) p → G n p)
    (hS : ∀ n p m np, G (n + 1) p → m ∈ legalMoves p → p.makemove m true = some np → G n np)
    (fuel : Nat) (ar : Arith) (clk : Nat → Nat) (o : Nat → Bool) (x : Nat) (ex : Bool) (input : List Char)
    (stdin : List (List Char)) (s : UState) (out : List Char) (hok : StepOk G fuel ar clk o s (splitWs input)) :
    StepRel out ex input stdin (stepToks ar o s (splitWs input))
      (R.listen_loop5_step fuel ar 1000 clk x ex input stdin false s.pos s.hist.reverse s.tt out s.hashMb s.frc) := by
  have hw := splitWs_word input
  unfold R.listen_loop5_step stepToks
  simp only [Bool.false_eq_true, if_false, bind, pure]
  generalize splitWs input = toks at hok hw ⊢
  obtain ⟨okGo, okPos, okMoves, okPrint⟩ := hok
  simp only [← headD_getD, ← List.drop_one, e_ucinewgame, e_isready, e_print,
    e_display, e_board, e_go, e_position, e_moves, e_setoption, e_history, e_eval, e_quit] at okGo okPos okMoves okPrint ⊢
  generalize toks.headD [] = cmd at okGo okPos okMoves okPrint ⊢
  generalize htl : toks.drop 1 = rest at okGo okPos okMoves ⊢
  have hwr : ∀ t ∈ rest, Word t := by
    intro t ht; rw [← htl] at ht; exact hw t (List.mem_of_mem_drop ht)
  unfold StepRel st5
  by_cases h1 : (cmd == ['u', 'c', 'i', 'n', 'e', 'w', 'g', 'a', 'm', 'e']) = true
  · simp only [h1, if_true]
    refine ⟨[], ?_, Out.nil⟩
    simp only [agree_startpos, Table.agree_tt_clear, List.append_nil, List.nil_append, List.reverse_cons, List.reverse_nil]
  simp only [h1, Bool.false_eq_true, if_false]
  by_cases h2 : (cmd == ['i', 's', 'r', 'e', 'a', 'd', 'y']) = true
  · simp only [h2, if_true]
    exact ⟨_, rfl, readyok_out⟩
  simp only [h2, Bool.false_eq_true, if_false]
  by_cases h3 : (cmd == ['p', 'r', 'i', 'n', 't'] || cmd == ['d', 'i', 's', 'p', 'l', 'a', 'y'] || cmd == ['b', 'o', 'a', 'r', 'd']) = true
  · simp only [h3, if_true]
    have hd : DisplayOk s.pos := by
      apply okPrint
      simp only [Bool.or_eq_true, beq_iff_eq] at h3
      rcases h3 with (h | h) | h
      · exact Or.inl h
      · exact Or.inr (Or.inl h)
      · exact Or.inr (Or.inr h)
    rw [position_fmt_nil ar s.pos hd]
    simp only [Option.bind_some, T.chars, String.toList_ofList]
    exact ⟨_, rfl, displayPos_out s.pos hd⟩
  simp only [h3, Bool.false_eq_true, if_false]
  by_cases h4 : (cmd == ['g', 'o']) = true
  · simp only [h4, if_true]
    have hg := okGo (by simpa using h4)
    have := agree_go fuel ar clk o s rest hg.1 hg.2
    generalize doGo ar o s rest = m at this ⊢
    unfold GoRel at this
    rcases m with _ | ⟨s', L⟩
    · simp only [] at this
      simp only [this, Option.bind_none, Option.map_none]
    · simp only [] at this
      obtain ⟨st, y, e, ho, e1, e2⟩ := this
      simp only [e, Option.bind_some, Option.map_some]
      exact ⟨y, by rw [e1, e2], ho⟩
  simp only [h4, Bool.false_eq_true, if_false]
  by_cases h5 : (cmd == ['p', 'o', 's', 'i', 't', 'i', 'o', 'n']) = true
  · simp only [h5, if_true]
    have hp := okPos (by simpa using h5)
    obtain ⟨n, hn⟩ : ∃ n, fuel = n + 2 := ⟨fuel - 2, by omega⟩
    subst hn
    have := agree_position G hI hM hS ar n s s.hist.reverse rest hp.2
    cases hR : R.position (n + 2) ar rest s.pos s.hist.reverse with
    | none =>
      rw [hR] at this
      simp only [Option.map_none] at this
      simp only [← this, Option.bind_none, Option.map_none]
    | some r =>
      rw [hR] at this
      simp only [Option.map_some] at this
      simp only [← this, Option.bind_some, Option.map_some]
      refine ⟨_, by rw [List.reverse_reverse], ?_⟩
      -- the printed lines are `info string unknown move ..` of tokens of the line
      have hdp := this
      rw [doPosition_eq] at hdp
      cases hsf : setFen ar s.pos.frc (positionArgs rest).1 with
      | none => rw [hsf] at hdp; cases hdp
      | some p0 =>
        rw [hsf] at hdp
        simp only [] at hdp
        cases hat : applyTokens (positionArgs rest).2 { p0 with frc := s.pos.frc } [p0.hash] [] with
        | none => rw [hat] at hdp; cases hdp
        | some r2 =>
          rw [hat] at hdp
          obtain ⟨p2, h2', o2⟩ := r2
          simp only [Option.some.injEq, Prod.mk.injEq] at hdp
          have hlines := applyTokens_lines _ _ _ _ hat
          simp only [] at hlines
          rw [hdp.2]
          refine unknown_lines_out (positionArgs rest).2 ?_ _ hlines
          intro t ht
          apply hwr
          -- the move tokens of `position` are tokens of the line
          unfold positionArgs at ht
          simp only [] at ht
          cases rest with
          | nil => simp at ht
          | cons a r' =>
            simp only [] at ht
            split at ht
            · exact List.mem_cons_of_mem _ (List.mem_of_mem_drop ht)
            · split at ht
              · exact List.mem_cons_of_mem _ ((List.dropWhile_sublist _).subset (List.mem_of_mem_drop ht))
              · simp at ht
  simp only [h5, Bool.false_eq_true, if_false]
  by_cases h6 : (cmd == ['m', 'o', 'v', 'e', 's']) = true
  · simp only [h6, if_true]
    have hm := okMoves (by simpa using h6)
    rw [agree_moves_ix G hI hM hS rest s.pos s.hist.reverse hm, List.reverse_reverse]
    cases hat : applyTokens rest s.pos s.hist [] with
    | none => simp only [Option.map_none, Option.bind_none]
    | some r =>
      obtain ⟨p2, h2', o2⟩ := r
      simp only [Option.map_some, Option.bind_some]
      refine ⟨_, rfl, ?_⟩
      exact unknown_lines_out rest hwr _ (applyTokens_lines _ _ _ _ hat)
  simp only [h6, Bool.false_eq_true, if_false]
  by_cases h7 : (cmd == ['s', 'e', 't', 'o', 'p', 't', 'i', 'o', 'n']) = true
  · simp only [h7, if_true]
    obtain ⟨e, hh⟩ := agree_listen_loop3 (R.setoption rest).2 s
    simp only [e, Option.bind_some, doSetoption_cb]
    refine ⟨[], ?_, Out.nil⟩
    rw [hh, List.append_nil]
  simp only [h7, Bool.false_eq_true, if_false]
  by_cases h8 : (cmd == ['h', 'i', 's', 't', 'o', 'r', 'y']) = true
  · simp only [h8, if_true]
    obtain ⟨y, e, ho⟩ := agree_listen_loop4 s.hist.reverse out
    simp only [e, Option.bind_some]
    exact ⟨y, rfl, ho⟩
  simp only [h8, Bool.false_eq_true, if_false]
  by_cases h9 : (cmd == ['e', 'v', 'a', 'l']) = true
  · simp only [h9, if_true, agree_eval]
    exact ⟨_, rfl, eval_out _⟩
  simp only [h9, Bool.false_eq_true, if_false]
  by_cases h10 : (cmd == ['q', 'u', 'i', 't']) = true
  · simp only [h10, if_true]
    exact ⟨by trivial, by trivial⟩
  simp only [h10, Bool.false_eq_true, if_false]
  exact ⟨[], by rw [List.append_nil], Out.nil⟩

end Rawr.Sess

#print axioms Rawr.agree_listen_loop1
#print axioms Rawr.agree_listen_loop3
#print axioms Rawr.agree_listen_loop5_step
