import Rawr.Proofs.MakeMoveAbsD
/-! C02: castling (king takes own rook, Chess960 geometry) refines `Spec.apply`. -/
namespace Rawr.MM
open Rawr Rawr.Position Rawr.Spec Rawr.ZH Rawr.SV

/-! ### the mover's king square on the specification side -/

theorem kingSquares_eq_filter (B : Board) (w : Bool) :
    kingSquares B w = squares.filter (fun s => match B s with
      | some pc => pc == (⟨w, .king⟩ : Piece) | none => false) := by
  unfold kingSquares
  apply List.filter_congr
  intro s _
  cases B s <;> simp

theorem length_one_mem {l : List Nat} {x : Nat} (h1 : l.length = 1) (hx : x ∈ l) : l = [x] := by
  cases l with
  | nil => cases hx
  | cons a t =>
    cases t with
    | nil => simp at hx; rw [hx]
    | cons _ _ => simp at h1

/-- in a valid position the specification finds exactly one king of each colour. -/
theorem kingSquares_len {a : APos} (hV : Spec.Valid a = true) (w : Bool) : (kingSquares a.board w).length = 1 := by
  unfold Spec.Valid at hV
  simp only [Bool.and_eq_true, beq_iff_eq] at hV
  obtain ⟨⟨⟨⟨⟨⟨⟨kw, kb⟩, _⟩, _⟩, _⟩, _⟩, _⟩, _⟩ := hV
  rw [kingSquares_eq_filter]
  cases w
  · exact kb
  · exact kw

theorem kingSquares_mover {p : Position} (hV : ValidPos p = true) {x : Nat} (hx : x < 64)
    (h0 : p.c0.getLsbD x = true) (hk : p.pieceOn x = some 5) :
    kingSquares (abs p).board (!p.black) = [absSq p.black x] := by
  obtain ⟨hC, hS, _⟩ := valid_unpack hV
  apply length_one_mem (kingSquares_len hS _)
  unfold kingSquares squares
  rw [List.mem_filter, List.mem_range]
  refine ⟨absSq_lt _ hx, ?_⟩
  show (absBoard p _ == _) = true
  rw [(view_of_consistent hC).absBoard (absSq_lt _ hx)]
  simp only [absSq_absSq, hk, h0, if_true]
  have : kindOf 5 = Kind.king := rfl
  rw [this]
  exact beq_self_eq_true _

/-! ### castling refines `Spec.apply` -/

section castle
variable {p : Position} {m : Mv} {kTo rTo : Nat}

theorem c_board (f : CFacts p m kTo rTo) {h : BB} {hm : Int} {S : Position}
    (R : Res p m 5 h (cD0 m kTo rTo) 0#64 (cDP m kTo rTo) hm S) (a : Nat) (ha : a < 64) :
    absBoard S a =
      setSq (setSq (setSq (setSq (abs p).board (absSq p.black m.src) none) (absSq p.black m.dst) none)
        (absSq p.black kTo) (some ⟨!p.black, .king⟩)) (absSq p.black rTo) (some ⟨!p.black, .rook⟩) a := by
  have hkr := f.hkr
  rw [(c_view f R).absBoard ha, R.black]
  have hB : (abs p).board a = absBoard p a := rfl
  have e1 : (absSq p.black a = m.src) = (a = absSq p.black m.src) := propext (absSq_eq_iff _ _ _).symm
  have e2 : (absSq p.black a = m.dst) = (a = absSq p.black m.dst) := propext (absSq_eq_iff _ _ _).symm
  have e3 : (absSq p.black a = kTo) = (a = absSq p.black kTo) := propext (absSq_eq_iff _ _ _).symm
  have e4 : (absSq p.black a = rTo) = (a = absSq p.black rTo) := propext (absSq_eq_iff _ _ _).symm
  have hkr' : ¬ absSq p.black kTo = absSq p.black rTo := fun e => hkr ((absSq_inj _ _ _).mp e)
  have hrk' : ¬ absSq p.black rTo = absSq p.black kTo := fun e => hkr ((absSq_inj _ _ _).mp e).symm
  unfold cPo cU0
  simp only [e1, e2, e3, e4, setSq]
  by_cases hk : a = absSq p.black kTo
  · subst hk
    simp only [if_true, true_or, if_neg hkr']
    rfl
  · by_cases hr : a = absSq p.black rTo
    · subst hr
      simp only [if_true, or_true, if_neg hrk']
      rfl
    · simp only [if_neg hk, if_neg hr]
      by_cases h2 : a = absSq p.black m.dst
      · simp only [h2, or_true, if_true]
      · by_cases h1 : a = absSq p.black m.src
        · simp only [h1, true_or, if_true]
          split <;> rfl
        · simp only [h1, h2, hk, hr, or_self, if_false, hB, (view_of_consistent f.hC).absBoard ha]

/-- a castling right of the opponent survives the mover's castling. -/
theorem c_them_keep (kh : KeyHyps p = true) (f : CFacts p m kTo rTo) :
    (p.themK && (m.src != lsb (p.c1 &&& p.p5) && m.src != fromCoords p.cf2 7 && m.dst != fromCoords p.cf2 7)) = p.themK ∧
    (p.themQ && (m.src != lsb (p.c1 &&& p.p5) && m.src != fromCoords p.cf3 7 && m.dst != fromCoords p.cf3 7)) = p.themQ := by
  have r := rfacts_of kh f.hs f.h0s f.hpo (fun _ _ => rfl) (fun _ _ => rfl)
  have kh' := kh
  simp only [KeyHyps, Bool.and_eq_true, Bool.or_eq_true, Bool.not_eq_true', decide_eq_true_eq, BB.isSet,
    BitVec.getLsbD_and] at kh'
  obtain ⟨⟨⟨⟨⟨_, _⟩, _⟩, _⟩, tK⟩, tQ⟩ := kh'
  have h1d := c_c1d f
  constructor
  · cases hu : p.themK
    · rfl
    · have hd : (m.dst == fromCoords p.cf2 7) = false := by
        rcases tK with e | e
        · rw [hu] at e; cases e
        · cases hh : (m.dst == fromCoords p.cf2 7)
          · rfl
          · have e1 : m.dst = fromCoords p.cf2 7 := by simpa using hh
            rw [← e1, h1d] at e
            cases e.1
      simp only [bne, r.b1, r.b2K hu, hd, Bool.not_false, Bool.and_self]
  · cases hu : p.themQ
    · rfl
    · have hd : (m.dst == fromCoords p.cf3 7) = false := by
        rcases tQ with e | e
        · rw [hu] at e; cases e
        · cases hh : (m.dst == fromCoords p.cf3 7)
          · rfl
          · have e1 : m.dst = fromCoords p.cf3 7 := by simpa using hh
            rw [← e1, h1d] at e
            cases e.1
      simp only [bne, r.b1, r.b2Q hu, hd, Bool.not_false, Bool.and_self]

/-- the mover loses both rights. -/
theorem c_us_lost (kh : KeyHyps p = true) (f : CFacts p m kTo rTo) (x y : Nat) (r0 : Bool) :
    (r0 && (m.src != lsb (p.c0 &&& p.p5) && m.src != x && m.dst != y)) = false := by
  have r := rfacts_of kh f.hs f.h0s f.hpo (fun _ _ => rfl) (fun _ _ => rfl)
  have : (m.src == lsb (p.c0 &&& p.p5)) = true := r.a1
  simp only [bne, this, Bool.not_true, Bool.false_and, Bool.and_false]

theorem c_refines (hV : ValidPos p = true) (f : CFacts p m kTo rTo) (ks : Bool)
    (hkT : kTo = if ks = true then 6 else 2) (hrT : rTo = if ks = true then 5 else 3)
    (hright : (if ks = true then optR p.usK p.cf0 else optR p.usQ p.cf1) = some (fileOf m.dst))
    (hrank : m.dst < 8)
    {h : BB} {S : Position}
    (R : Res p m 5 h (cD0 m kTo rTo) 0#64 (cDP m kTo rTo) (p.halfmoves + 1) S) :
    AbsEq (abs (stFull S).flip) (Spec.apply (abs p) (.castle ks)) := by
  obtain ⟨hC, _, c0, c1, c2, c3, _⟩ := valid_unpack hV
  have kh := keyHyps_of_valid hV
  obtain ⟨e0, e1, e2, e3, _⟩ := cfs_eq R.cf
  obtain ⟨kK, kQ⟩ := c_them_keep kh f
  have hfd : fileOf m.dst = m.dst := by unfold fileOf; omega
  have hr : right (abs p) (abs p).whiteToMove ks = some m.dst := by
    rw [hfd] at hright
    show right (abs p) (!p.black) ks = _
    unfold right
    cases hb : p.black <;> cases hks : ks <;>
      simp only [hks, Bool.false_eq_true, if_false, if_true] at hright <;>
      simp only [Bool.not_false, Bool.not_true, abs_wK, abs_wQ, abs_bK, abs_bQ, hb, Bool.false_eq_true, if_false,
        if_true, hright]
  have hk : kingSquares (abs p).board (abs p).whiteToMove = absSq p.black m.src :: [] :=
    kingSquares_mover hV f.hs f.h0s f.hpo
  refine (abs_result S (c_consistent f R)).trans ?_
  rw [apply_castle hr hk]
  have hw : (abs p).whiteToMove = !p.black := rfl
  have s1 : sq ((m.dst : Nat) : Int) (homeRank (!p.black)) = absSq p.black m.dst := by
    rw [sq_home_us p.black hrank]
    congr 1
    simp [fromCoords]
  have s2 : sq (if ks = true then 6 else 2) (homeRank (!p.black)) = absSq p.black kTo := by
    rw [hkT]
    cases ks
    · exact sq_home_us p.black (f := 2) (by omega)
    · exact sq_home_us p.black (f := 6) (by omega)
  have s3 : sq (if ks = true then 5 else 3) (homeRank (!p.black)) = absSq p.black rTo := by
    rw [hrT]
    cases ks
    · exact sq_home_us p.black (f := 3) (by omega)
    · exact sq_home_us p.black (f := 5) (by omega)
  simp only [hw, s1, s2, s3]
  refine ⟨?_, ?_, ?_, ?_, ?_, ?_, ?_, ?_, ?_⟩
  · intro a ha
    exact c_board f R a ha
  · show S.black = !(!p.black)
    rw [R.black]; cases p.black <;> rfl
  · show (abs S).wK = _
    rw [abs_wK, abs_wK, R.black, e0, e2, R.usK, R.themK, kK, c_us_lost kh f]
    cases hb : p.black <;> rfl
  · show (abs S).wQ = _
    rw [abs_wQ, abs_wQ, R.black, e1, e3, R.usQ, R.themQ, kQ, c_us_lost kh f]
    cases hb : p.black <;> rfl
  · show (abs S).bK = _
    rw [abs_bK, abs_bK, R.black, e0, e2, R.usK, R.themK, kK, c_us_lost kh f]
    cases hb : p.black <;> rfl
  · show (abs S).bQ = _
    rw [abs_bQ, abs_bQ, R.black, e1, e3, R.usQ, R.themQ, kQ, c_us_lost kh f]
    cases hb : p.black <;> rfl
  · show S.ep.map (absSq S.black) = none
    rw [R.ep]
    rfl
  · show S.halfmoves = _
    rw [R.half]
    rfl
  · show (if S.black = true then S.fullmoves + 1 else S.fullmoves) =
      if (!p.black) = true then p.fullmoves else p.fullmoves + 1
    rw [R.black, R.full]
    cases p.black <;> rfl

end castle

end Rawr.MM
