import Rawr.Proofs.FenDefs
import Rawr.Proofs.HashSpec
import Rawr.Proofs.FlipLemmas
/-! `rel : APos → Position` spelled out: the bits of its eight boards, its other fields, board
consistency, and the two round trips `abs ∘ rel = id`, `rel ∘ abs = id` up to the castle files of
absent rights. Core Lean only. -/
set_option linter.unusedSimpArgs false
namespace Rawr.FenRel
open Rawr Rawr.Spec Rawr.Position Rawr.ZH

/-! ### `absSq` -/

theorem absSq_absSq (b : Bool) (s : Nat) : absSq b (absSq b s) = s := by
  cases b
  · rfl
  · exact xor56_xor56 s

theorem absSq_lt (b : Bool) {s : Nat} (h : s < 64) : absSq b s < 64 := by
  cases b
  · exact h
  · exact xor56_lt h

theorem absSq_eq_maybeFlip (b : Bool) (s : Nat) : absSq b s = maybeFlip s b := rfl

theorem any_range_absSq (b : Bool) (f : Nat → Bool) (i : Nat) (hi : i < 64) :
    (List.range 64).any (fun s => f s && decide (absSq b s = i)) = f (absSq b i) := by
  rw [Bool.eq_iff_iff, List.any_eq_true]
  constructor
  · rintro ⟨s, _, hs⟩
    rw [Bool.and_eq_true, decide_eq_true_eq] at hs
    rw [← hs.2, absSq_absSq]
    exact hs.1
  · intro h
    refine ⟨absSq b i, List.mem_range.mpr (absSq_lt b hi), ?_⟩
    rw [Bool.and_eq_true, decide_eq_true_eq]
    exact ⟨h, absSq_absSq b i⟩

/-! ### the fold of `rel` -/

/-- the step function of the fold in `rel`. -/
def put (a : APos) (p : Position) (s : Nat) : Position :=
  match a.board s with
  | none => p
  | some pc =>
    let r := absSq (!a.whiteToMove) s
    let p := if pc.white == a.whiteToMove then { p with c0 := p.c0 ||| bit r } else { p with c1 := p.c1 ||| bit r }
    p.setPiece (kindIdx pc.kind) (p.piece (kindIdx pc.kind) ||| bit r)

/-- the eight boards of a position, numbered. -/
def brd (p : Position) : Nat → BB
  | 0 => p.c0 | 1 => p.c1 | 2 => p.p0 | 3 => p.p1 | 4 => p.p2 | 5 => p.p3 | 6 => p.p4 | _ => p.p5

/-- what board `n` of `rel a` records about absolute square `s`. -/
def want (a : APos) : Nat → Nat → Bool
  | 0 => isCol a.board a.whiteToMove | 1 => isCol a.board (!a.whiteToMove)
  | 2 => isKind a.board .pawn | 3 => isKind a.board .knight | 4 => isKind a.board .bishop
  | 5 => isKind a.board .rook | 6 => isKind a.board .queen | _ => isKind a.board .king

theorem put_bits (a : APos) (p : Position) (s n i : Nat) (hn : n < 8) :
    (brd (put a p s) n).getLsbD i =
      ((brd p n).getLsbD i || (decide (i < 64) && (want a n s && decide (absSq (!a.whiteToMove) s = i)))) := by
  have hbit : ∀ r, (bit r).getLsbD i = (decide (i < 64) && decide (r = i)) := by
    intro r
    rw [Rawr.getLsbD_bit]
    by_cases h : i = r
    · subst h; simp
    · have h' : ¬ r = i := fun e => h e.symm
      simp [h, h']
  unfold put
  cases hb : a.board s with
  | none =>
    rcases n with _ | _ | _ | _ | _ | _ | _ | _ | n <;>
      first
      | (exfalso; omega)
      | simp [want, isCol, isKind, hb]
  | some pc =>
    rcases pc with ⟨w, k⟩
    by_cases hw : w = a.whiteToMove
    · have hw' : (w == a.whiteToMove) = true := by simpa using hw
      have hw2 : (w == !a.whiteToMove) = false := by
        rw [hw]; cases a.whiteToMove <;> rfl
      rcases n with _ | _ | _ | _ | _ | _ | _ | _ | n <;>
        first
        | (exfalso; omega)
        | (cases k <;>
            simp [want, isCol, isKind, hb, brd, setPiece, piece, kindIdx, hbit, BitVec.getLsbD_or, hw', hw2])
    · have hw' : (w == a.whiteToMove) = false := by simpa using hw
      have hw2 : (w == !a.whiteToMove) = true := by
        revert hw; cases w <;> cases a.whiteToMove <;> decide
      rcases n with _ | _ | _ | _ | _ | _ | _ | _ | n <;>
        first
        | (exfalso; omega)
        | (cases k <;>
            simp [want, isCol, isKind, hb, brd, setPiece, piece, kindIdx, hbit, BitVec.getLsbD_or, hw', hw2])

theorem fold_bits (a : APos) (l : List Nat) (p : Position) (n i : Nat) (hn : n < 8) :
    (brd (l.foldl (put a) p) n).getLsbD i =
      ((brd p n).getLsbD i ||
        (decide (i < 64) && l.any (fun s => want a n s && decide (absSq (!a.whiteToMove) s = i)))) := by
  induction l generalizing p with
  | nil => simp
  | cons s l ih =>
    rw [List.foldl_cons, ih, put_bits a p s n i hn, List.any_cons, Bool.or_assoc, ← Bool.and_or_distrib_left]

/-- the boards part of `rel`. -/
def relBoards (a : APos) : Position := squares.foldl (put a) Position.dflt

theorem relBoards_bits (a : APos) (n i : Nat) (hn : n < 8) :
    (brd (relBoards a) n).getLsbD i = (decide (i < 64) && want a n (absSq (!a.whiteToMove) i)) := by
  unfold relBoards squares
  rw [fold_bits a _ _ n i hn]
  have h0 : (brd Position.dflt n).getLsbD i = false := by
    rcases n with _ | _ | _ | _ | _ | _ | _ | _ | n <;> simp [brd, Position.dflt]
  rw [h0, Bool.false_or]
  by_cases hi : i < 64
  · rw [any_range_absSq _ _ _ hi]
  · simp [hi]

/-- the non-board part of `rel`. -/
def relFields (a : APos) (frc : Bool) (p : Position) : Position :=
  let black := !a.whiteToMove
  let (uK, uQ, tK, tQ) := if black then (a.bK, a.bQ, a.wK, a.wQ) else (a.wK, a.wQ, a.bK, a.bQ)
  let p := { p with
    halfmoves := a.half, fullmoves := a.full, black := black, ep := a.ep.map (absSq black),
    usK := uK.isSome, usQ := uQ.isSome, themK := tK.isSome, themQ := tQ.isSome,
    cf0 := uK.getD 7, cf1 := uQ.getD 0, cf2 := tK.getD 7, cf3 := tQ.getD 0, frc := frc }
  { p with hash := p.calculateHash }

theorem rel_eq (a : APos) (frc : Bool) : rel a frc = relFields a frc (relBoards a) := by
  unfold rel relFields relBoards put
  rfl

theorem rel_brd (a : APos) (frc : Bool) (n : Nat) : brd (rel a frc) n = brd (relBoards a) n := by
  rw [rel_eq]
  rcases n with _ | _ | _ | _ | _ | _ | _ | _ | n <;> rfl

theorem rel_bits (a : APos) (frc : Bool) (n i : Nat) (hn : n < 8) :
    (brd (rel a frc) n).getLsbD i = (decide (i < 64) && want a n (absSq (!a.whiteToMove) i)) := by
  rw [rel_brd, relBoards_bits a n i hn]

end Rawr.FenRel

namespace Rawr
open Spec Position FenRel

/-! ### 1. the bits of the boards of `rel` -/

theorem rel_c0_bit (a : APos) (frc : Bool) (i : Nat) :
    ((rel a frc).c0).getLsbD i = (decide (i < 64) && isCol a.board a.whiteToMove (absSq (!a.whiteToMove) i)) :=
  rel_bits a frc 0 i (by decide)
theorem rel_c1_bit (a : APos) (frc : Bool) (i : Nat) :
    ((rel a frc).c1).getLsbD i = (decide (i < 64) && isCol a.board (!a.whiteToMove) (absSq (!a.whiteToMove) i)) :=
  rel_bits a frc 1 i (by decide)
theorem rel_p0_bit (a : APos) (frc : Bool) (i : Nat) :
    ((rel a frc).p0).getLsbD i = (decide (i < 64) && isKind a.board .pawn (absSq (!a.whiteToMove) i)) :=
  rel_bits a frc 2 i (by decide)
theorem rel_p1_bit (a : APos) (frc : Bool) (i : Nat) :
    ((rel a frc).p1).getLsbD i = (decide (i < 64) && isKind a.board .knight (absSq (!a.whiteToMove) i)) :=
  rel_bits a frc 3 i (by decide)
theorem rel_p2_bit (a : APos) (frc : Bool) (i : Nat) :
    ((rel a frc).p2).getLsbD i = (decide (i < 64) && isKind a.board .bishop (absSq (!a.whiteToMove) i)) :=
  rel_bits a frc 4 i (by decide)
theorem rel_p3_bit (a : APos) (frc : Bool) (i : Nat) :
    ((rel a frc).p3).getLsbD i = (decide (i < 64) && isKind a.board .rook (absSq (!a.whiteToMove) i)) :=
  rel_bits a frc 5 i (by decide)
theorem rel_p4_bit (a : APos) (frc : Bool) (i : Nat) :
    ((rel a frc).p4).getLsbD i = (decide (i < 64) && isKind a.board .queen (absSq (!a.whiteToMove) i)) :=
  rel_bits a frc 6 i (by decide)
theorem rel_p5_bit (a : APos) (frc : Bool) (i : Nat) :
    ((rel a frc).p5).getLsbD i = (decide (i < 64) && isKind a.board .king (absSq (!a.whiteToMove) i)) :=
  rel_bits a frc 7 i (by decide)

namespace FenRel

theorem eq_geom_of_bits (x : BB) (f : Nat → Bool)
    (h : ∀ i, x.getLsbD i = (decide (i < 64) && f i)) : x = geomBB f := by
  apply BitVec.eq_of_getLsbD_eq
  intro i _
  rw [h, getLsbD_geomBB]

theorem eq_flip_geom_of_bits (x : BB) (f : Nat → Bool)
    (h : ∀ i, x.getLsbD i = (decide (i < 64) && f (i ^^^ 56))) : x = flipBB (geomBB f) := by
  apply BitVec.eq_of_getLsbD_eq
  intro i hi
  rw [h, flipBB_getLsbD_xor _ i hi, getLsbD_geomBB]
  simp [hi, ZH.xor56_lt hi]

end FenRel

theorem rel_boards_white (a : APos) (frc : Bool) (h : a.whiteToMove = true) :
    (rel a frc).c0 = geomBB (isCol a.board true) ∧ (rel a frc).c1 = geomBB (isCol a.board false) ∧
    (rel a frc).p0 = geomBB (isKind a.board .pawn) ∧ (rel a frc).p1 = geomBB (isKind a.board .knight) ∧
    (rel a frc).p2 = geomBB (isKind a.board .bishop) ∧ (rel a frc).p3 = geomBB (isKind a.board .rook) ∧
    (rel a frc).p4 = geomBB (isKind a.board .queen) ∧ (rel a frc).p5 = geomBB (isKind a.board .king) := by
  refine ⟨?_, ?_, ?_, ?_, ?_, ?_, ?_, ?_⟩ <;> apply eq_geom_of_bits <;> intro i
  · simpa [h, absSq] using rel_c0_bit a frc i
  · simpa [h, absSq] using rel_c1_bit a frc i
  · simpa [h, absSq] using rel_p0_bit a frc i
  · simpa [h, absSq] using rel_p1_bit a frc i
  · simpa [h, absSq] using rel_p2_bit a frc i
  · simpa [h, absSq] using rel_p3_bit a frc i
  · simpa [h, absSq] using rel_p4_bit a frc i
  · simpa [h, absSq] using rel_p5_bit a frc i

theorem rel_boards_black (a : APos) (frc : Bool) (h : a.whiteToMove = false) :
    (rel a frc).c0 = flipBB (geomBB (isCol a.board false)) ∧ (rel a frc).c1 = flipBB (geomBB (isCol a.board true)) ∧
    (rel a frc).p0 = flipBB (geomBB (isKind a.board .pawn)) ∧ (rel a frc).p1 = flipBB (geomBB (isKind a.board .knight)) ∧
    (rel a frc).p2 = flipBB (geomBB (isKind a.board .bishop)) ∧ (rel a frc).p3 = flipBB (geomBB (isKind a.board .rook)) ∧
    (rel a frc).p4 = flipBB (geomBB (isKind a.board .queen)) ∧ (rel a frc).p5 = flipBB (geomBB (isKind a.board .king)) := by
  refine ⟨?_, ?_, ?_, ?_, ?_, ?_, ?_, ?_⟩ <;> apply eq_flip_geom_of_bits <;> intro i
  · simpa [h, absSq] using rel_c0_bit a frc i
  · simpa [h, absSq] using rel_c1_bit a frc i
  · simpa [h, absSq] using rel_p0_bit a frc i
  · simpa [h, absSq] using rel_p1_bit a frc i
  · simpa [h, absSq] using rel_p2_bit a frc i
  · simpa [h, absSq] using rel_p3_bit a frc i
  · simpa [h, absSq] using rel_p4_bit a frc i
  · simpa [h, absSq] using rel_p5_bit a frc i

/-! ### the other fields -/

theorem rel_black (a : APos) (frc : Bool) : (rel a frc).black = !a.whiteToMove := rfl
theorem rel_halfmoves (a : APos) (frc : Bool) : (rel a frc).halfmoves = a.half := rfl
theorem rel_fullmoves (a : APos) (frc : Bool) : (rel a frc).fullmoves = a.full := rfl
theorem rel_ep (a : APos) (frc : Bool) : (rel a frc).ep = a.ep.map (absSq (!a.whiteToMove)) := rfl
theorem rel_frc (a : APos) (frc : Bool) : (rel a frc).frc = frc := rfl
theorem rel_hash (a : APos) (frc : Bool) : (rel a frc).hash = (rel a frc).calculateHash := rfl
theorem rel_usK (a : APos) (frc : Bool) : (rel a frc).usK = (if a.whiteToMove then a.wK else a.bK).isSome := by
  cases h : a.whiteToMove <;> simp [rel, h]
theorem rel_usQ (a : APos) (frc : Bool) : (rel a frc).usQ = (if a.whiteToMove then a.wQ else a.bQ).isSome := by
  cases h : a.whiteToMove <;> simp [rel, h]
theorem rel_themK (a : APos) (frc : Bool) : (rel a frc).themK = (if a.whiteToMove then a.bK else a.wK).isSome := by
  cases h : a.whiteToMove <;> simp [rel, h]
theorem rel_themQ (a : APos) (frc : Bool) : (rel a frc).themQ = (if a.whiteToMove then a.bQ else a.wQ).isSome := by
  cases h : a.whiteToMove <;> simp [rel, h]
theorem rel_cf0 (a : APos) (frc : Bool) : (rel a frc).cf0 = (if a.whiteToMove then a.wK else a.bK).getD 7 := by
  cases h : a.whiteToMove <;> simp [rel, h]
theorem rel_cf1 (a : APos) (frc : Bool) : (rel a frc).cf1 = (if a.whiteToMove then a.wQ else a.bQ).getD 0 := by
  cases h : a.whiteToMove <;> simp [rel, h]
theorem rel_cf2 (a : APos) (frc : Bool) : (rel a frc).cf2 = (if a.whiteToMove then a.bK else a.wK).getD 7 := by
  cases h : a.whiteToMove <;> simp [rel, h]
theorem rel_cf3 (a : APos) (frc : Bool) : (rel a frc).cf3 = (if a.whiteToMove then a.bQ else a.wQ).getD 0 := by
  cases h : a.whiteToMove <;> simp [rel, h]


/-! ### 2. `rel` is board-consistent -/

namespace FenRel
open ZH

/-- the converse of `ZH.cellOk_of_consistent`. -/
theorem consistent_of_cellOk (p : Position)
    (h : ∀ i, i < 64 → cellOk (p.c0.getLsbD i) (p.c1.getLsbD i) (p.p0.getLsbD i) (p.p1.getLsbD i)
      (p.p2.getLsbD i) (p.p3.getLsbD i) (p.p4.getLsbD i) (p.p5.getLsbD i) = true) :
    Consistent p = true := by
  have hand : ∀ (x y : BB) (f g : Bool → Bool → Bool → Bool → Bool → Bool → Bool → Bool → Bool),
      (∀ u v q0 q1 q2 q3 q4 q5, cellOk u v q0 q1 q2 q3 q4 q5 = true →
        (f u v q0 q1 q2 q3 q4 q5 && g u v q0 q1 q2 q3 q4 q5) = false) →
      (∀ i, x.getLsbD i = f (p.c0.getLsbD i) (p.c1.getLsbD i) (p.p0.getLsbD i) (p.p1.getLsbD i)
        (p.p2.getLsbD i) (p.p3.getLsbD i) (p.p4.getLsbD i) (p.p5.getLsbD i)) →
      (∀ i, y.getLsbD i = g (p.c0.getLsbD i) (p.c1.getLsbD i) (p.p0.getLsbD i) (p.p1.getLsbD i)
        (p.p2.getLsbD i) (p.p3.getLsbD i) (p.p4.getLsbD i) (p.p5.getLsbD i)) →
      ((x &&& y) == 0#64) = true := by
    intro x y f g hfg hx hy
    rw [beq_iff_eq]
    apply BitVec.eq_of_getLsbD_eq
    intro i hi
    rw [BitVec.getLsbD_and, hx, hy, hfg _ _ _ _ _ _ _ _ (h i hi)]
    simp
  have hlast : ((p.c0 ||| p.c1) == (p.p0 ||| p.p1 ||| p.p2 ||| p.p3 ||| p.p4 ||| p.p5)) = true := by
    rw [beq_iff_eq]
    apply BitVec.eq_of_getLsbD_eq
    intro i hi
    simp only [BitVec.getLsbD_or]
    have := h i hi
    revert this
    generalize p.c0.getLsbD i = u, p.c1.getLsbD i = v, p.p0.getLsbD i = q0, p.p1.getLsbD i = q1,
      p.p2.getLsbD i = q2, p.p3.getLsbD i = q3, p.p4.getLsbD i = q4, p.p5.getLsbD i = q5
    revert u v q0 q1 q2 q3 q4 q5
    decide
  unfold Consistent
  simp only [Bool.and_eq_true]
  refine ⟨⟨⟨⟨⟨⟨⟨⟨⟨⟨⟨⟨⟨⟨⟨⟨?_, ?_⟩, ?_⟩, ?_⟩, ?_⟩, ?_⟩, ?_⟩, ?_⟩, ?_⟩, ?_⟩, ?_⟩, ?_⟩, ?_⟩, ?_⟩, ?_⟩, ?_⟩, hlast⟩
  · exact hand _ _ (fun u _ _ _ _ _ _ _ => u) (fun _ v _ _ _ _ _ _ => v) (by decide) (fun _ => rfl) (fun _ => rfl)
  · exact hand _ _ (fun _ _ q0 _ _ _ _ _ => q0) (fun _ _ _ q1 _ _ _ _ => q1) (by decide) (fun _ => rfl) (fun _ => rfl)
  · exact hand _ _ (fun _ _ q0 _ _ _ _ _ => q0) (fun _ _ _ _ q2 _ _ _ => q2) (by decide) (fun _ => rfl) (fun _ => rfl)
  · exact hand _ _ (fun _ _ q0 _ _ _ _ _ => q0) (fun _ _ _ _ _ q3 _ _ => q3) (by decide) (fun _ => rfl) (fun _ => rfl)
  · exact hand _ _ (fun _ _ q0 _ _ _ _ _ => q0) (fun _ _ _ _ _ _ q4 _ => q4) (by decide) (fun _ => rfl) (fun _ => rfl)
  · exact hand _ _ (fun _ _ q0 _ _ _ _ _ => q0) (fun _ _ _ _ _ _ _ q5 => q5) (by decide) (fun _ => rfl) (fun _ => rfl)
  · exact hand _ _ (fun _ _ _ q1 _ _ _ _ => q1) (fun _ _ _ _ q2 _ _ _ => q2) (by decide) (fun _ => rfl) (fun _ => rfl)
  · exact hand _ _ (fun _ _ _ q1 _ _ _ _ => q1) (fun _ _ _ _ _ q3 _ _ => q3) (by decide) (fun _ => rfl) (fun _ => rfl)
  · exact hand _ _ (fun _ _ _ q1 _ _ _ _ => q1) (fun _ _ _ _ _ _ q4 _ => q4) (by decide) (fun _ => rfl) (fun _ => rfl)
  · exact hand _ _ (fun _ _ _ q1 _ _ _ _ => q1) (fun _ _ _ _ _ _ _ q5 => q5) (by decide) (fun _ => rfl) (fun _ => rfl)
  · exact hand _ _ (fun _ _ _ _ q2 _ _ _ => q2) (fun _ _ _ _ _ q3 _ _ => q3) (by decide) (fun _ => rfl) (fun _ => rfl)
  · exact hand _ _ (fun _ _ _ _ q2 _ _ _ => q2) (fun _ _ _ _ _ _ q4 _ => q4) (by decide) (fun _ => rfl) (fun _ => rfl)
  · exact hand _ _ (fun _ _ _ _ q2 _ _ _ => q2) (fun _ _ _ _ _ _ _ q5 => q5) (by decide) (fun _ => rfl) (fun _ => rfl)
  · exact hand _ _ (fun _ _ _ _ _ q3 _ _ => q3) (fun _ _ _ _ _ _ q4 _ => q4) (by decide) (fun _ => rfl) (fun _ => rfl)
  · exact hand _ _ (fun _ _ _ _ _ q3 _ _ => q3) (fun _ _ _ _ _ _ _ q5 => q5) (by decide) (fun _ => rfl) (fun _ => rfl)
  · exact hand _ _ (fun _ _ _ _ _ _ q4 _ => q4) (fun _ _ _ _ _ _ _ q5 => q5) (by decide) (fun _ => rfl) (fun _ => rfl)

/-- `isCol`, `isKind` on the content of one square. -/
def colP (o : Option Piece) (w : Bool) : Bool := match o with | some pc => pc.white == w | none => false
def kindP (o : Option Piece) (k : Kind) : Bool := match o with | some pc => pc.kind == k | none => false

theorem isCol_eq (b : Board) (w : Bool) (s : Nat) : isCol b w s = colP (b s) w := rfl
theorem isKind_eq (b : Board) (k : Kind) (s : Nat) : isKind b k s = kindP (b s) k := rfl

/-- the eight bits a square content spells out are consistent. -/
theorem cellOk_content (o : Option Piece) (w : Bool) :
    cellOk (colP o w) (colP o (!w)) (kindP o .pawn) (kindP o .knight) (kindP o .bishop) (kindP o .rook)
      (kindP o .queen) (kindP o .king) = true := by
  rcases o with _ | ⟨c, k⟩
  · rfl
  · cases c <;> cases k <;> cases w <;> rfl

/-- … and they determine the content. -/
theorem cellPiece_content (o : Option Piece) (w : Bool) :
    cellPiece (!w) (colP o w) (colP o (!w)) (kindP o .pawn) (kindP o .knight) (kindP o .bishop) (kindP o .rook)
      (kindP o .queen) (kindP o .king) = o := by
  rcases o with _ | ⟨c, k⟩
  · rfl
  · cases c <;> cases k <;> cases w <;> rfl

/-- conversely a consistent cell is what its `cellPiece` spells out. -/
theorem content_cellPiece (t : Bool) (u v q0 q1 q2 q3 q4 q5 : Bool) (h : cellOk u v q0 q1 q2 q3 q4 q5 = true) :
    colP (cellPiece t u v q0 q1 q2 q3 q4 q5) (!t) = u ∧ colP (cellPiece t u v q0 q1 q2 q3 q4 q5) t = v ∧
    kindP (cellPiece t u v q0 q1 q2 q3 q4 q5) .pawn = q0 ∧ kindP (cellPiece t u v q0 q1 q2 q3 q4 q5) .knight = q1 ∧
    kindP (cellPiece t u v q0 q1 q2 q3 q4 q5) .bishop = q2 ∧ kindP (cellPiece t u v q0 q1 q2 q3 q4 q5) .rook = q3 ∧
    kindP (cellPiece t u v q0 q1 q2 q3 q4 q5) .queen = q4 ∧ kindP (cellPiece t u v q0 q1 q2 q3 q4 q5) .king = q5 := by
  revert t u v q0 q1 q2 q3 q4 q5
  decide

end FenRel

theorem rel_consistent (a : APos) (frc : Bool) : Consistent (rel a frc) = true := by
  apply consistent_of_cellOk
  intro i hi
  rw [rel_c0_bit, rel_c1_bit, rel_p0_bit, rel_p1_bit, rel_p2_bit, rel_p3_bit, rel_p4_bit, rel_p5_bit]
  simp only [hi, decide_true, Bool.true_and, isCol_eq, isKind_eq]
  exact cellOk_content _ _

/-! ### 3. `abs ∘ rel = id` -/

namespace FenRel

theorem APos.ext' {x y : APos} (h1 : x.board = y.board) (h2 : x.whiteToMove = y.whiteToMove)
    (h3 : x.wK = y.wK) (h4 : x.wQ = y.wQ) (h5 : x.bK = y.bK) (h6 : x.bQ = y.bQ) (h7 : x.ep = y.ep)
    (h8 : x.half = y.half) (h9 : x.full = y.full) : x = y := by
  cases x; cases y; simp only at *; subst_vars; rfl

theorem opt_getD (o : Option Nat) (d : Nat) : (if o.isSome then some (o.getD d) else none) = o := by
  cases o <;> rfl

theorem map_absSq_absSq (b : Bool) (o : Option Nat) : (o.map (absSq b)).map (absSq b) = o := by
  cases o with
  | none => rfl
  | some e => simp only [Option.map_some, absSq_absSq]

end FenRel

theorem abs_rel (a : APos) (frc : Bool) (hb : ∀ s, 64 ≤ s → a.board s = none) : abs (rel a frc) = a := by
  apply APos.ext'
  · show absBoard (rel a frc) = a.board
    funext s
    by_cases hs : s < 64
    · rw [ZH.absBoard_eq _ _ hs]
      simp only [rel_c0_bit, rel_c1_bit, rel_p0_bit, rel_p1_bit, rel_p2_bit, rel_p3_bit, rel_p4_bit, rel_p5_bit,
        rel_black, ← absSq_eq_maybeFlip, absSq_absSq, absSq_lt _ hs, decide_true, Bool.true_and,
        isCol_eq, isKind_eq]
      exact cellPiece_content _ _
    · rw [hb s (by omega)]
      simp only [absBoard, hs, if_false]
  · show (!(rel a frc).black) = a.whiteToMove
    rw [rel_black, Bool.not_not]
  · show (if (rel a frc).black then (if (rel a frc).themK then some (rel a frc).cf2 else none)
        else (if (rel a frc).usK then some (rel a frc).cf0 else none)) = a.wK
    rw [rel_black, rel_themK, rel_usK, rel_cf0, rel_cf2]
    cases a.whiteToMove <;> simp only [Bool.not_true, Bool.not_false, if_true, if_false, Bool.false_eq_true, opt_getD]
  · show (if (rel a frc).black then (if (rel a frc).themQ then some (rel a frc).cf3 else none)
        else (if (rel a frc).usQ then some (rel a frc).cf1 else none)) = a.wQ
    rw [rel_black, rel_themQ, rel_usQ, rel_cf1, rel_cf3]
    cases a.whiteToMove <;> simp only [Bool.not_true, Bool.not_false, if_true, if_false, Bool.false_eq_true, opt_getD]
  · show (if (rel a frc).black then (if (rel a frc).usK then some (rel a frc).cf0 else none)
        else (if (rel a frc).themK then some (rel a frc).cf2 else none)) = a.bK
    rw [rel_black, rel_themK, rel_usK, rel_cf0, rel_cf2]
    cases a.whiteToMove <;> simp only [Bool.not_true, Bool.not_false, if_true, if_false, Bool.false_eq_true, opt_getD]
  · show (if (rel a frc).black then (if (rel a frc).usQ then some (rel a frc).cf1 else none)
        else (if (rel a frc).themQ then some (rel a frc).cf3 else none)) = a.bQ
    rw [rel_black, rel_themQ, rel_usQ, rel_cf1, rel_cf3]
    cases a.whiteToMove <;> simp only [Bool.not_true, Bool.not_false, if_true, if_false, Bool.false_eq_true, opt_getD]
  · show (rel a frc).ep.map (absSq (rel a frc).black) = a.ep
    rw [rel_ep, rel_black, map_absSq_absSq]
  · rfl
  · rfl


/-! ### 4. `rel ∘ abs = id` up to the castle files of absent rights -/

namespace FenRel
open ZH

theorem Position.ext' {x y : Position} (h1 : x.c0 = y.c0) (h2 : x.c1 = y.c1) (h3 : x.p0 = y.p0) (h4 : x.p1 = y.p1)
    (h5 : x.p2 = y.p2) (h6 : x.p3 = y.p3) (h7 : x.p4 = y.p4) (h8 : x.p5 = y.p5)
    (h9 : x.halfmoves = y.halfmoves) (h10 : x.fullmoves = y.fullmoves) (h11 : x.black = y.black)
    (h12 : x.ep = y.ep) (h13 : x.usK = y.usK) (h14 : x.usQ = y.usQ) (h15 : x.themK = y.themK)
    (h16 : x.themQ = y.themQ) (h17 : x.cf0 = y.cf0) (h18 : x.cf1 = y.cf1) (h19 : x.cf2 = y.cf2)
    (h20 : x.cf3 = y.cf3) (h21 : x.hash = y.hash) (h22 : x.frc = y.frc) : x = y := by
  cases x; cases y; simp only at *; subst_vars; rfl

/-- the key recomputation reads the boards, the side, the en-passant square and the four right flags only. -/
theorem calculateHash_congr {x y : Position} (h1 : x.c0 = y.c0) (h2 : x.c1 = y.c1) (h3 : x.p0 = y.p0)
    (h4 : x.p1 = y.p1) (h5 : x.p2 = y.p2) (h6 : x.p3 = y.p3) (h7 : x.p4 = y.p4) (h8 : x.p5 = y.p5)
    (h11 : x.black = y.black) (h12 : x.ep = y.ep) (h13 : x.usK = y.usK) (h14 : x.usQ = y.usQ)
    (h15 : x.themK = y.themK) (h16 : x.themQ = y.themQ) : x.calculateHash = y.calculateHash := by
  cases x; cases y; simp only at *; subst_vars; rfl

theorem abs_board (p : Position) : (abs p).board = absBoard p := rfl
theorem abs_whiteToMove (p : Position) : (abs p).whiteToMove = !p.black := rfl

theorem absBoard_cell (p : Position) (i : Nat) (hi : i < 64) :
    absBoard p (absSq p.black i) =
      cellPiece p.black (p.c0.getLsbD i) (p.c1.getLsbD i) (p.p0.getLsbD i) (p.p1.getLsbD i)
        (p.p2.getLsbD i) (p.p3.getLsbD i) (p.p4.getLsbD i) (p.p5.getLsbD i) := by
  rw [ZH.absBoard_eq p _ (absSq_lt _ hi)]
  simp only [← absSq_eq_maybeFlip, absSq_absSq]

theorem rel_abs_bits (p : Position) (hC : Consistent p = true) (frc : Bool) (n i : Nat) (hn : n < 8) :
    (brd (rel (abs p) frc) n).getLsbD i = (brd p n).getLsbD i := by
  rw [rel_bits _ _ _ _ hn]
  by_cases hi : i < 64
  · have hc := content_cellPiece p.black _ _ _ _ _ _ _ _ (ZH.cellOk_of_consistent hC i)
    rw [← absBoard_cell p i hi] at hc
    obtain ⟨c0, c1, c2, c3, c4, c5, c6, c7⟩ := hc
    simp only [hi, decide_true, Bool.true_and, abs_whiteToMove, Bool.not_not]
    rcases n with _ | _ | _ | _ | _ | _ | _ | _ | n
    · exact c0
    · show colP (absBoard p (absSq p.black i)) (!!p.black) = _
      rw [Bool.not_not]
      exact c1
    · exact c2
    · exact c3
    · exact c4
    · exact c5
    · exact c6
    · exact c7
    · exfalso; omega
  · have : ∀ x : BB, x.getLsbD i = false := fun x => BitVec.getLsbD_of_ge x i (by omega)
    simp [hi, this]

theorem rel_abs_brd (p : Position) (hC : Consistent p = true) (frc : Bool) (n : Nat) (hn : n < 8) :
    brd (rel (abs p) frc) n = brd p n := by
  apply BitVec.eq_of_getLsbD_eq
  intro i _
  exact rel_abs_bits p hC frc n i hn

end FenRel

/-- `rel ∘ abs` restores everything except that the castle files of absent rights are reset to the
defaults 7, 0, 7, 0 (no hypothesis on the en-passant square is needed). -/
theorem rel_abs' (p : Position) (hC : Consistent p = true) (hh : p.hash = p.calculateHash) :
    rel (abs p) p.frc =
      { p with cf0 := if p.usK then p.cf0 else 7, cf1 := if p.usQ then p.cf1 else 0,
               cf2 := if p.themK then p.cf2 else 7, cf3 := if p.themQ then p.cf3 else 0 } := by
  have b0 : (rel (abs p) p.frc).c0 = p.c0 := rel_abs_brd p hC _ 0 (by decide)
  have b1 : (rel (abs p) p.frc).c1 = p.c1 := rel_abs_brd p hC _ 1 (by decide)
  have b2 : (rel (abs p) p.frc).p0 = p.p0 := rel_abs_brd p hC _ 2 (by decide)
  have b3 : (rel (abs p) p.frc).p1 = p.p1 := rel_abs_brd p hC _ 3 (by decide)
  have b4 : (rel (abs p) p.frc).p2 = p.p2 := rel_abs_brd p hC _ 4 (by decide)
  have b5 : (rel (abs p) p.frc).p3 = p.p3 := rel_abs_brd p hC _ 5 (by decide)
  have b6 : (rel (abs p) p.frc).p4 = p.p4 := rel_abs_brd p hC _ 6 (by decide)
  have b7 : (rel (abs p) p.frc).p5 = p.p5 := rel_abs_brd p hC _ 7 (by decide)
  have hbl : (rel (abs p) p.frc).black = p.black := by rw [rel_black, abs_whiteToMove, Bool.not_not]
  have hep : (rel (abs p) p.frc).ep = p.ep := by
    rw [rel_ep, abs_whiteToMove, Bool.not_not]
    exact map_absSq_absSq p.black p.ep
  have huK : (rel (abs p) p.frc).usK = p.usK := by
    rw [rel_usK]; simp only [abs]; cases p.black <;> cases p.usK <;> rfl
  have huQ : (rel (abs p) p.frc).usQ = p.usQ := by
    rw [rel_usQ]; simp only [abs]; cases p.black <;> cases p.usQ <;> rfl
  have htK : (rel (abs p) p.frc).themK = p.themK := by
    rw [rel_themK]; simp only [abs]; cases p.black <;> cases p.themK <;> rfl
  have htQ : (rel (abs p) p.frc).themQ = p.themQ := by
    rw [rel_themQ]; simp only [abs]; cases p.black <;> cases p.themQ <;> rfl
  apply Position.ext'
  · exact b0
  · exact b1
  · exact b2
  · exact b3
  · exact b4
  · exact b5
  · exact b6
  · exact b7
  · rfl
  · rfl
  · exact hbl
  · exact hep
  · exact huK
  · exact huQ
  · exact htK
  · exact htQ
  · rw [rel_cf0]; simp only [abs]; cases p.black <;> cases p.usK <;> rfl
  · rw [rel_cf1]; simp only [abs]; cases p.black <;> cases p.usQ <;> rfl
  · rw [rel_cf2]; simp only [abs]; cases p.black <;> cases p.themK <;> rfl
  · rw [rel_cf3]; simp only [abs]; cases p.black <;> cases p.themQ <;> rfl
  · rw [rel_hash]
    show _ = p.hash
    rw [hh]
    exact calculateHash_congr b0 b1 b2 b3 b4 b5 b6 b7 hbl hep huK huQ htK htQ
  · rfl

/-- the same with the (unused) range hypothesis on the en-passant square, as stated in the task. -/
theorem rel_abs (p : Position) (hC : Consistent p = true) (hh : p.hash = p.calculateHash)
    (_hep : ∀ e, p.ep = some e → e < 64) :
    rel (abs p) p.frc =
      { p with cf0 := if p.usK then p.cf0 else 7, cf1 := if p.usQ then p.cf1 else 0,
               cf2 := if p.themK then p.cf2 else 7, cf3 := if p.themQ then p.cf3 else 0 } :=
  rel_abs' p hC hh

/-! ### non-vacuity -/

namespace FenRel

/-- two kings, a white rook and a black pawn, Black to move, mixed rights. -/
def exA : APos :=
  { board := fun s => if s = 4 then some ⟨true, .king⟩ else if s = 7 then some ⟨true, .rook⟩
      else if s = 60 then some ⟨false, .king⟩ else if s = 35 then some ⟨false, .pawn⟩ else none
    whiteToMove := false, wK := some 7, wQ := none, bK := none, bQ := none, ep := none, half := 3, full := 9 }

theorem exA_board (s : Nat) (h : 64 ≤ s) : exA.board s = none := by
  simp only [exA]
  repeat' split
  all_goals first | rfl | (exfalso; omega)

theorem ex_hash (q : Position) (n : Nat) (h : q.hash = q.calculateHash) :
    ({ q with cf0 := n } : Position).hash = ({ q with cf0 := n } : Position).calculateHash :=
  h.trans (calculateHash_congr rfl rfl rfl rfl rfl rfl rfl rfl rfl rfl rfl rfl rfl rfl)

end FenRel

example : abs (rel exA true) = exA := abs_rel exA true exA_board
example : (rel exA).black = true ∧ (rel exA).themK = true ∧ (rel exA).cf2 = 7 ∧ (rel exA).cf0 = 7 :=
  ⟨rfl, by rw [rel_themK]; rfl, by rw [rel_cf2]; rfl, by rw [rel_cf0]; rfl⟩
/-- the hypotheses of `rel_abs` hold of `rel exA` with a non-default file for an absent right. -/
example : ∃ p : Position, Consistent p = true ∧ p.hash = p.calculateHash ∧ (∀ e, p.ep = some e → e < 64) ∧
    p.usK = false ∧ p.cf0 = 3 ∧ p.black = true ∧ p.c0 ≠ 0#64 := by
  refine ⟨{ rel exA with cf0 := 3 }, ?_, ?_, ?_, ?_, rfl, rfl, ?_⟩
  · exact rel_consistent exA false
  · exact ex_hash (rel exA) 3 (rel_hash exA false)
  · intro e he; exact absurd he (by simp [rel_ep, exA])
  · show (rel exA).usK = false
    rw [rel_usK]; rfl
  · show (rel exA).c0 ≠ 0#64
    intro h
    have := rel_c0_bit exA false 4
    rw [h] at this
    revert this
    decide

end Rawr

#print axioms Rawr.rel_boards_white
#print axioms Rawr.rel_boards_black
#print axioms Rawr.rel_consistent
#print axioms Rawr.abs_rel
#print axioms Rawr.rel_abs'
#print axioms Rawr.rel_abs
