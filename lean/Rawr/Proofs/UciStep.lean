import Rawr.Proofs.UciState
/-! `stepSecond` command by command (the dispatch of the second loop of `listen`). -/
namespace Rawr

/-- the commands the second loop knows. -/
def knownCmds : List String :=
  ["ucinewgame", "isready", "print", "display", "board", "go", "position", "moves", "setoption", "history",
   "eval", "quit"]

variable (ar : Arith) (clock : Nat → Bool) (s : UState) (l : List Char)

theorem stepSecond_ucinewgame (hc : cmdOf l = str "ucinewgame") :
    stepSecond ar clock s l =
      some ({ s with pos := { Gen.startpos with frc := s.frc }, hist := [Gen.startpos.hash], tt := s.tt.clear },
        [], false) := by
  unfold cmdOf at hc
  unfold stepSecond
  simp only [hc, BEq.rfl, if_true]

theorem stepSecond_isready (hc : cmdOf l = str "isready") :
    stepSecond ar clock s l = some (s, ["readyok"], false) := by
  unfold cmdOf at hc
  unfold stepSecond
  simp only [hc]
  rfl

theorem stepSecond_print (hc : cmdOf l = str "print" ∨ cmdOf l = str "display" ∨ cmdOf l = str "board") :
    stepSecond ar clock s l = some (s, displayPos s.pos, false) := by
  unfold cmdOf at hc
  unfold stepSecond
  rcases hc with hc | hc | hc <;> (simp only [hc]; rfl)

theorem stepSecond_go (hc : cmdOf l = str "go") :
    stepSecond ar clock s l = (doGo ar clock s (argsOf l)).map fun r => (r.1, r.2, false) := by
  unfold cmdOf at hc
  unfold stepSecond argsOf
  simp only [hc]
  rfl

theorem stepSecond_position (hc : cmdOf l = str "position") :
    stepSecond ar clock s l = (doPosition ar s (argsOf l)).map fun r => (r.1, r.2, false) := by
  unfold cmdOf at hc
  unfold stepSecond argsOf
  simp only [hc]
  rfl

theorem stepSecond_moves (hc : cmdOf l = str "moves") :
    stepSecond ar clock s l =
      (applyTokens (argsOf l) s.pos s.hist []).map fun r => ({ s with pos := r.1, hist := r.2.1 }, r.2.2, false) := by
  unfold cmdOf at hc
  unfold stepSecond argsOf
  simp only [hc]
  rfl

theorem stepSecond_setoption (hc : cmdOf l = str "setoption") :
    stepSecond ar clock s l = some (doSetoption s (argsOf l) true, [], false) := by
  unfold cmdOf at hc
  unfold stepSecond argsOf
  simp only [hc]
  rfl

theorem stepSecond_history (hc : cmdOf l = str "history") :
    stepSecond ar clock s l = some (s, s.hist.reverse.map hexLine, false) := by
  unfold cmdOf at hc
  unfold stepSecond
  simp only [hc]
  rfl

theorem stepSecond_eval (hc : cmdOf l = str "eval") :
    stepSecond ar clock s l = some (s, [toString (eval s.pos)], false) := by
  unfold cmdOf at hc
  unfold stepSecond
  simp only [hc]
  rfl

theorem stepSecond_quit (hc : cmdOf l = str "quit") :
    stepSecond ar clock s l = some (s, [], true) := by
  unfold cmdOf at hc
  unfold stepSecond
  simp only [hc]
  rfl

/-- every other line (empty lines included) is ignored. -/
theorem stepSecond_other (hc : ∀ c ∈ knownCmds, cmdOf l ≠ str c) :
    stepSecond ar clock s l = some (s, [], false) := by
  unfold cmdOf at hc
  have f : ∀ c ∈ knownCmds, ((splitWs l).headD [] == str c) = false := by
    intro c hm
    simpa using hc c hm
  unfold stepSecond
  simp only [f "ucinewgame" (by decide), f "isready" (by decide), f "print" (by decide), f "display" (by decide),
    f "board" (by decide), f "go" (by decide), f "position" (by decide), f "moves" (by decide),
    f "setoption" (by decide), f "history" (by decide), f "eval" (by decide), f "quit" (by decide),
    Bool.false_eq_true, if_false, Bool.or_self]

end Rawr
