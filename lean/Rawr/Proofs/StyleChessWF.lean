import Rawr.Proofs.StyleChessInv
import Mathlib.Tactic.SplitIfs
/-!
# `WFGame` holds for the annotated games of legal chess games (part 3)

`wfGame_of_legal`: let `ms` be a sequence of fewer than 1024 moves, each legal (`Spec.legalMoves`) in the
position reached, from the standard starting position; let `g` be an annotated game that *agrees* with
it -- per half-move the side to move, the type of the moved piece and the target square; at the end the
piece counts of the final board.  Then `WFGame side g` for both sides.
-/
namespace Rawr.Style.Chess
open Rawr.Spec

/-- python-chess piece type numbers. -/
def pyKind : Kind → Nat
  | .pawn => 1 | .knight => 2 | .bishop => 3 | .rook => 4 | .queen => 5 | .king => 6

/-- the annotation `y` states the side to move, the moved piece's type and (for non-castling moves) the
target square of move `m` in position `p` correctly.  (For castling python-chess reports the king's
target; `WFGame` does not look at it.) -/
def PlyAgrees (p : APos) (m : Move) (y : Ply) : Prop :=
  y.turn = p.whiteToMove ∧
  match m with
  | .normal s t _ =>
    y.piece = (match p.board s with | some pc => pyKind pc.kind | none => 0) ∧ y.to.val = t
  | .castle _ => y.piece = KING

instance (p : APos) (m : Move) (y : Ply) : Decidable (PlyAgrees p m y) := by
  unfold PlyAgrees
  cases m <;> infer_instance

def Agrees : APos → List Move → List Ply → Prop
  | _, [], [] => True
  | p, m :: ms, y :: ys => PlyAgrees p m y ∧ Agrees (apply p m) ms ys
  | _, _, _ => False

/-- every move is legal in the position it is played in. -/
def LegalSeq : APos → List Move → Prop
  | _, [] => True
  | p, m :: ms => m ∈ legalMoves p ∧ LegalSeq (apply p m) ms

instance decAgrees : ∀ (p : APos) (ms : List Move) (ys : List Ply), Decidable (Agrees p ms ys)
  | _, [], [] => isTrue trivial
  | _, [], _ :: _ => isFalse (by simp [Agrees])
  | _, _ :: _, [] => isFalse (by simp [Agrees])
  | p, m :: ms, y :: ys =>
    have := decAgrees (apply p m) ms ys
    (inferInstance : Decidable (PlyAgrees p m y ∧ Agrees (apply p m) ms ys))

instance decLegalSeq : ∀ (p : APos) (ms : List Move), Decidable (LegalSeq p ms)
  | _, [] => isTrue trivial
  | p, m :: ms =>
    have := decLegalSeq (apply p m) ms
    (inferInstance : Decidable (m ∈ legalMoves p ∧ LegalSeq (apply p m) ms))

def play : APos → List Move → APos
  | p, [] => p
  | p, m :: ms => play (apply p m) ms

theorem relRank_eq (side : Bool) (to : Square) : Stats.relRank side to = relRankSq side to.val := by
  unfold Stats.relRank relRankSq squareRank WHITE
  cases side <;> simp

theorem earlyPushesFrom_late (side : Color) (r : Nat) : ∀ (ys : List Ply) (i : Nat), 40 ≤ i →
    earlyPushesFrom side r i ys = 0
  | [], _, _ => rfl
  | y :: ys, i, h => by
    have : isEarlyPush side r i y = false := by
      unfold isEarlyPush
      have : ¬ i < 40 := by omega
      simp [this]
    simp only [earlyPushesFrom, this, b2n, Bool.false_eq_true, if_false, Nat.zero_add]
    exact earlyPushesFrom_late side r ys (i + 1) (by omega)

/-- one legal half-move: the pawn-rank fact and the step of the chain potential. -/
theorem step_chain {p : APos} {m : Move} {y : Ply} (hI : BoardInv p.board) (hm : m ∈ legalMoves p)
    (hy : PlyAgrees p m y) (side : Color) (i : Nat) (hi : i < 40) :
    pawnRankOk side y = true ∧
    ∀ r, 3 ≤ r → r ≤ 6 →
      b2n (isEarlyPush side (r + 1) i y) + sumSq (apply p m).board (nW side r) ≤
        b2n (isEarlyPush side r i y) + sumSq p.board (nW side r) := by
  obtain ⟨hturn, hrest⟩ := hy
  cases moveView hm with
  | normal s t promo pc hmv hs ht hb hcol hpawn hnp =>
    subst hmv
    simp only [] at hrest
    obtain ⟨hpiece, hto⟩ := hrest
    have hpk : y.piece = pyKind pc.kind := by rw [hpiece, hb]
    by_cases hsp : pc = ⟨side, .pawn⟩
    · -- a pawn of `side` moves
      have hk : pc.kind = .pawn := by rw [hsp]
      have hw : pc.white = side := by rw [hsp]
      have hyt : y.turn = side := by rw [hturn, ← hcol, hw]
      have hyp : y.piece = PAWN := by rw [hpk, hk]; rfl
      have hrr : Stats.relRank y.turn y.to = relRankSq side t := by rw [relRank_eq, hyt, hto]
      have hsh := pawnShape_nat (hpawn hk)
      rw [hw] at hsh
      -- relative ranks of source and target
      have hgeo : relRankSq side t = relRankSq side s + 1 ∨
          (relRankSq side t = relRankSq side s + 2 ∧ relRankSq side s = 1) := by
        unfold relRankSq
        cases hside : side with
        | true => simp only [if_true]; exact hsh.1 hside
        | false =>
          simp only [Bool.false_eq_true, if_false]
          have := hsh.2 hside
          omega
      have ha1 : 1 ≤ relRankSq side s := by
        unfold relRankSq
        cases hside : side with
        | true =>
          simp only [if_true]
          have := hI.wp s (by rw [hb, hsp, hside])
          omega
        | false =>
          simp only [Bool.false_eq_true, if_false]
          have := hI.bp s (by rw [hb, hsp, hside])
          omega
      refine ⟨?_, fun r h3 h6 => ?_⟩
      · unfold pawnRankOk
        simp only [hyt, hyp, beq_self_eq_true, Bool.and_self, Bool.not_true, Bool.false_or, decide_eq_true_eq]
        rw [← hyt, hrr]
        omega
      · have hcen := sumSq_apply_normal p s t promo pc hs hb (nW side r)
        have hsrc : nW side r s pc = if relRankSq side s = r then 1 else 0 := by
          simp [nW, hsp]
        have hdst : nW side r t (landed pc promo) ≤ if relRankSq side t = r then 1 else 0 := by
          unfold nW
          split
          · rename_i h; rw [if_pos h.2]; exact Nat.le_refl _
          · exact Nat.zero_le _
        have he : ∀ x, b2n (isEarlyPush side x i y) = if relRankSq side t = x then 1 else 0 := by
          intro x
          unfold isEarlyPush b2n
          rw [hrr]
          simp only [hi, hyt, hyp, decide_true, beq_self_eq_true, Bool.and_self, Bool.true_and, beq_iff_eq]
        rw [he (r + 1), he r]
        rw [hsrc] at hcen
        split_ifs at * <;> omega
    · -- anything else: no pawn of `side` appears
      have hnot : ¬ (y.turn = side ∧ y.piece = PAWN) := by
        rintro ⟨h1, h2⟩
        apply hsp
        have hk : pc.kind = .pawn := by
          rw [hpk] at h2
          cases hkk : pc.kind <;> rw [hkk] at h2 <;> first | rfl | (exact absurd h2 (by decide))
        have hw : pc.white = side := by rw [hcol, ← hturn, h1]
        cases pc
        simp only at hk hw
        rw [hk, hw]
      have hep : ∀ x, isEarlyPush side x i y = false := by
        intro x
        unfold isEarlyPush
        by_cases h1 : y.turn = side <;> by_cases h2 : y.piece = PAWN
        · exact absurd ⟨h1, h2⟩ hnot
        · simp [h2]
        · simp [h1]
        · simp [h1]
      refine ⟨?_, fun r _ _ => ?_⟩
      · unfold pawnRankOk
        by_cases h1 : y.turn = side <;> by_cases h2 : y.piece = PAWN
        · exact absurd ⟨h1, h2⟩ hnot
        · simp [h2]
        · simp [h1]
        · simp [h1]
      · have hcen := sumSq_apply_normal p s t promo pc hs hb (nW side r)
        have hdst : nW side r t (landed pc promo) = 0 := by
          unfold nW
          rw [if_neg]
          rintro ⟨hl, _⟩
          exact hsp (landed_pawn (fun hk => (hpawn hk).promo) hnp hl).1
        rw [hep, hep]
        simp only [b2n, Bool.false_eq_true, if_false, Nat.zero_add]
        omega
  | castle ks hmv hl =>
    subst hmv
    simp only [] at hrest
    have hep : ∀ x, isEarlyPush side x i y = false := by
      intro x
      unfold isEarlyPush
      have : (y.piece == PAWN) = false := by rw [hrest]; rfl
      simp [this]
    refine ⟨?_, fun r _ _ => ?_⟩
    · unfold pawnRankOk
      have : (y.piece == PAWN) = false := by rw [hrest]; rfl
      simp [this]
    · rw [hep, hep]
      simp only [b2n, Bool.false_eq_true, if_false, Nat.zero_add]
      exact nW_apply_castle_le hI hl side r

/-- along a legal game: lengths agree, the pawn-rank fact holds for every half-move, the chain potential
bounds the early arrivals, and the queen-valued material does not grow. -/
theorem legal_facts (side : Color) : ∀ (ms : List Move) (p : APos) (ys : List Ply) (i : Nat),
    BoardInv p.board → LegalSeq p ms → Agrees p ms ys →
    ys.length = ms.length ∧ (∀ y ∈ ys, pawnRankOk side y = true) ∧
    (∀ r, 3 ≤ r → r ≤ 6 →
      earlyPushesFrom side (r + 1) i ys ≤ earlyPushesFrom side r i ys + sumSq p.board (nW side r)) ∧
    (∀ c, sumSq (play p ms).board (wW c) ≤ sumSq p.board (wW c))
  | [], p, [], i, _, _, _ =>
    ⟨rfl, fun y hy => by simp at hy, fun r _ _ => by simp [earlyPushesFrom], fun c => Nat.le_refl _⟩
  | [], _, _ :: _, _, _, _, ha => by simp [Agrees] at ha
  | _ :: _, _, [], _, _, _, ha => by simp [Agrees] at ha
  | m :: ms, p, y :: ys, i, hI, hl, ha => by
    obtain ⟨hm, hl'⟩ := hl
    obtain ⟨hy, ha'⟩ := ha
    have hI' := boardInv_apply hI hm
    obtain ⟨ih1, ih2, ih3, ih4⟩ := legal_facts side ms (apply p m) ys (i + 1) hI' hl' ha'
    refine ⟨by simp [ih1], ?_, ?_, ?_⟩
    · intro z hz
      rcases List.mem_cons.mp hz with rfl | hz
      · by_cases hi : i < 40
        · exact (step_chain hI hm hy side i hi).1
        · -- the pawn-rank fact does not depend on the ply number
          exact (step_chain hI hm hy side 0 (by omega)).1
      · exact ih2 z hz
    · intro r h3 h6
      by_cases hi : i < 40
      · have hs := (step_chain hI hm hy side i hi).2 r h3 h6
        have := ih3 r h3 h6
        simp only [earlyPushesFrom]
        omega
      · rw [earlyPushesFrom_late side (r + 1) (y :: ys) i (by omega)]
        exact Nat.zero_le _
    · intro c
      exact Nat.le_trans (ih4 c) (wW_apply_le hI hm c)

/-! ## the final piece counts -/

/-- `len(board.pieces(kind, colour))` for the five kinds that count as material. -/
def countsOf (b : Board) (c : Bool) : PieceCounts :=
  { pawns := countPieces b (fun pc => pc == ⟨c, .pawn⟩),
    knights := countPieces b (fun pc => pc == ⟨c, .knight⟩),
    bishops := countPieces b (fun pc => pc == ⟨c, .bishop⟩),
    rooks := countPieces b (fun pc => pc == ⟨c, .rook⟩),
    queens := countPieces b (fun pc => pc == ⟨c, .queen⟩) }

theorem length_filter_eq_sum (f : Nat → Bool) : ∀ l : List Nat,
    (l.filter f).length = (l.map fun x => if f x then 1 else 0).sum
  | [] => rfl
  | x :: xs => by
    have := length_filter_eq_sum f xs
    by_cases h : f x <;> simp [h, this] <;> omega

theorem weighted_sum_le (a b c d e w : Nat → Nat)
    (h : ∀ x, 1 * a x + 3 * b x + 3 * c x + 5 * d x + 9 * e x ≤ w x) : ∀ l : List Nat,
    1 * (l.map a).sum + 3 * (l.map b).sum + 3 * (l.map c).sum + 5 * (l.map d).sum + 9 * (l.map e).sum ≤
      (l.map w).sum
  | [] => by simp
  | x :: xs => by
    have := weighted_sum_le a b c d e w h xs
    have := h x
    simp only [List.map_cons, List.sum_cons]
    omega

theorem material_le (b : Board) (c : Bool) : (countsOf b c).material ≤ sumSq b (wW c) := by
  unfold PieceCounts.material countsOf countPieces sumSq squares
  simp only [length_filter_eq_sum]
  apply weighted_sum_le
  intro x
  cases hb : b x with
  | none => simp [gv]
  | some pc =>
    obtain ⟨w, k⟩ := pc
    cases w <;> cases c <;> cases k <;> simp [gv, wW, val9]

/-! ## the standard starting position -/

def backRank : Nat → Kind
  | 0 => .rook | 1 => .knight | 2 => .bishop | 3 => .queen | 4 => .king | 5 => .bishop | 6 => .knight
  | _ => .rook

def stdBoard : Board := fun s =>
  if s < 8 then some ⟨true, backRank s⟩
  else if s < 16 then some ⟨true, .pawn⟩
  else if 48 ≤ s ∧ s < 56 then some ⟨false, .pawn⟩
  else if 56 ≤ s ∧ s < 64 then some ⟨false, backRank (s - 56)⟩
  else none

/-- the standard starting position (castling with the a- and h-rooks). -/
def stdStart : APos :=
  { board := stdBoard, whiteToMove := true, wK := some 7, wQ := some 0, bK := some 7, bQ := some 0,
    ep := none, half := 0, full := 1 }

theorem boardInv_std : BoardInv stdStart.board := by
  have h1 : ∀ x, x < 64 → stdBoard x = some ⟨true, .pawn⟩ → 8 ≤ x := by decide
  have h2 : ∀ x, x < 64 → stdBoard x = some ⟨false, .pawn⟩ → x < 56 := by decide
  have h3 : ∀ x, 64 ≤ x → stdBoard x = none := by
    intro x hx
    unfold stdBoard
    rw [if_neg (by omega), if_neg (by omega), if_neg (by omega), if_neg (by omega)]
  refine ⟨fun x hx => ?_, fun x hx => ?_, h3⟩
  · have hx : stdBoard x = some ⟨true, .pawn⟩ := hx
    by_cases h : x < 64
    · exact h1 x h hx
    · rw [h3 x (by omega)] at hx; cases hx
  · have hx : stdBoard x = some ⟨false, .pawn⟩ := hx
    by_cases h : x < 64
    · exact h2 x h hx
    · rw [h3 x (by omega)] at hx; cases hx

theorem std_nW (side : Bool) (r : Nat) (h3 : 3 ≤ r) (h6 : r ≤ 6) : sumSq stdStart.board (nW side r) = 0 := by
  have : r = 3 ∨ r = 4 ∨ r = 5 ∨ r = 6 := by omega
  rcases this with rfl | rfl | rfl | rfl <;> cases side <;> decide

theorem std_wW (c : Bool) : sumSq stdStart.board (wW c) = 103 := by cases c <;> decide

/-- **`WFGame` from the rules of chess.** -/
theorem wfGame_of_legal (ms : List Move) (g : Game) (hl : LegalSeq stdStart ms) (hlen : ms.length < 1024)
    (ha : Agrees stdStart ms g.plies)
    (hfw : g.finalWhite = countsOf (play stdStart ms).board true)
    (hfb : g.finalBlack = countsOf (play stdStart ms).board false) (side : Color) : WFGame side g := by
  obtain ⟨h1, h2, h3, h4⟩ := legal_facts side ms stdStart g.plies 0 boardInv_std hl ha
  refine ⟨by omega, h2, ?_, fun r hr3 hr6 => ?_⟩
  · rw [hfw, hfb]
    have m1 := material_le (play stdStart ms).board true
    have m2 := material_le (play stdStart ms).board false
    have w1 := h4 true
    have w2 := h4 false
    rw [std_wW] at w1 w2
    omega
  · have := h3 r hr3 hr6
    rw [std_nW side r hr3 hr6] at this
    simpa [earlyPushes] using this

end Rawr.Style.Chess
