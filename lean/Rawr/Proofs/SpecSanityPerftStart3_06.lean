import Rawr.Proofs.SpecSanityPerftDefs
/-! perft of the start position, depth 3, slice 06: the subtree of first move `.normal 9 17 none` (kernel-evaluated). -/
namespace Rawr.SpecS
open Rawr.Spec

theorem start3_06 : leaves (apply stdStart (.normal 9 17 none)) 2 = 420 := by decide +kernel

end Rawr.SpecS
